#!/bin/sh
# Build everything from files on disk: all Lean proofs + model driver, and warm the Go build cache.
set -e
cd "$(dirname "$0")"
export GOFLAGS=-mod=mod GOPROXY=off GOSUMDB=off GOTOOLCHAIN=local CGO_ENABLED=0
mkdir -p .work evidence replays
# regenerate the source-derived Lean files, then build all proofs and the driver
(cd harness && cp "${VERIF_REPO:-/repo}/go.sum" go.sum && go build -o ../.work/tr ./tr)
./.work/tr random "${VERIF_REPO:-/repo}" lean/Chihaya/Gen/Random.lean
./.work/tr validate "${VERIF_REPO:-/repo}" lean/Chihaya/Gen/Validate.lean
(cd lean && lake build Chihaya modeldrv)
# warm the Go build cache with the harness (built with the overlay shims, exactly as ./check builds it)
python3 - <<'PY'
import json, os
root = os.getcwd(); repo = os.environ.get("VERIF_REPO", "/repo")
repl = {}
sh = os.path.join(root, "harness", "shims")
for dp, _, fs in os.walk(sh):
    for fn in fs:
        if fn.endswith(".go"):
            repl[os.path.join(repo, os.path.relpath(dp, sh), "zz_verif_" + fn)] = os.path.join(dp, fn)
json.dump({"Replace": repl}, open(os.path.join(root, ".work", "overlay-setup.json"), "w"))
PY
(cd harness && go build -tags verif -overlay ../.work/overlay-setup.json -o ../.work/hx-warm ./hx && rm -f ../.work/hx-warm)
echo setup ok
