#!/bin/sh
# Build everything from files on disk: all Lean proofs + model driver, and warm the Go build cache.
set -e
cd "$(dirname "$0")"
export GOFLAGS=-mod=mod GOPROXY=off GOSUMDB=off GOTOOLCHAIN=local CGO_ENABLED=0
mkdir -p .work evidence replays
# regenerate the source-derived Lean files, then build all proofs and the driver
(cd harness && cp "${VERIF_REPO:-/repo}/go.sum" go.sum && go build -o ../.work/tr ./tr)
./.work/tr random "${VERIF_REPO:-/repo}" lean/Chihaya/Gen/Random.lean
./.work/tr validate "${VERIF_REPO:-/repo}" lean/Chihaya/Gen/Validate.lean
(cd lean && lake build Chihaya modeldrv)
(cd harness && cp "${VERIF_REPO:-/repo}/go.sum" go.sum && go build -tags verif -o ../.work/hx-warm ./hx && rm -f ../.work/hx-warm)
echo setup ok
