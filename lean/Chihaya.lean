import Chihaya.Base.Bytes
import Chihaya.Base.Decimal
import Chihaya.Model.Bencode
import Chihaya.Lemmas.Bencode
import Chihaya.Props.C19
import Chihaya.Driver.Proto
import Chihaya.Driver.DBencode
