import Chihaya.Driver.Proto
import Chihaya.Driver.DBencode
import Chihaya.Driver.DVarInterval
import Chihaya.Driver.DConfig
import Chihaya.Driver.DApproval
import Chihaya.Driver.DHttpParse
import Chihaya.Driver.DUdp
import Chihaya.Driver.DHttpWrite
open Proto

def dispatch (l : Line) : String :=
  let hs : List (Line → Option (Except String String)) := [DBencode.handle, DVarInterval.handle', DConfig.handle, DApproval.handle, DHttpParse.handle, DUdp.handle, DHttpWrite.handle]
  let r : Option (Except String String) := hs.findSome? (fun h => h l)
  match r with
  | some (Except.ok s) => s
  | some (Except.error e) => "bad-op " ++ e
  | none => "bad-op unknown " ++ l.op

partial def loop (h : IO.FS.Stream) (out : IO.FS.Stream) : IO Unit := do
  let line ← h.getLine
  if line.isEmpty then return ()
  let t := line.trimAscii.toString
  if t.isEmpty || t.startsWith "#" then
    out.putStrLn ""
  else
    out.putStrLn (dispatch (parseLine t))
  loop h out

def main : IO Unit := do
  let out ← IO.getStdout
  loop (← IO.getStdin) out
  out.flush
