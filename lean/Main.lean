import Chihaya.Driver.Proto
import Chihaya.Driver.DBencode
import Chihaya.Driver.DVarInterval
import Chihaya.Driver.DConfig
import Chihaya.Driver.DApproval
import Chihaya.Driver.DHttpParse
import Chihaya.Driver.DUdp
import Chihaya.Driver.DHttpWrite
import Chihaya.Driver.DStore
import Chihaya.Driver.DLifecycle
import Chihaya.Driver.DJwt
import Chihaya.Driver.DTracker
open Proto

structure DState where
  store : DStore.DState := {}

def statelessHandlers : List (Line → Option (Except String String)) :=
  [DBencode.handle, DVarInterval.handle', DConfig.handle, DApproval.handle, DHttpParse.handle, DUdp.handle, DHttpWrite.handle, DLifecycle.handle, DJwt.handle]

def dispatch (st : DState) (l : Line) : DState × String :=
  match (DStore.handle st.store l).orElse (fun _ => DTracker.handle st.store l) with
  | some (s', r) =>
    ({ st with store := s' }, match r with | .ok s => s | .error e => "bad-op " ++ e)
  | none =>
    let r : Option (Except String String) := statelessHandlers.findSome? (fun h => h l)
    (st, match r with
      | some (Except.ok s) => s
      | some (Except.error e) => "bad-op " ++ e
      | none => "bad-op unknown " ++ l.op)

partial def loop (h : IO.FS.Stream) (out : IO.FS.Stream) (st : DState) : IO Unit := do
  let line ← h.getLine
  if line.isEmpty then return ()
  let t := line.trimAscii.toString
  if t.isEmpty || t.startsWith "#" then
    out.putStrLn ""
    loop h out st
  else
    let (st', s) := dispatch st (parseLine t)
    out.putStrLn s
    loop h out st'

def main : IO Unit := do
  let out ← IO.getStdout
  loop (← IO.getStdin) out {}
  out.flush
