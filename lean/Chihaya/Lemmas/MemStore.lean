import Chihaya.Model.MemStore
/-!
# Memory store: every shard operation is a pointwise swarm update; invariants; views
-/
namespace MemStore
open AMap

/-- generic shard step: replace the swarm of `ih` by `f` of it (dropping it when empty) and move
the counters by the change in list lengths -/
def Shard.update (s : Shard) (ih : Bytes) (f : Swarm → Swarm) : Shard :=
  let sw := s.swarm ih
  let sw' := f sw
  { swarms := Shard.storeOrDrop s.swarms ih sw',
    nS := s.nS + ((sw'.seeders.length : Int) - sw.seeders.length),
    nL := s.nL + ((sw'.leechers.length : Int) - sw.leechers.length) }

def fPutSeeder (pk : Bytes) (now : Int) (sw : Swarm) : Swarm := ⟨AMap.set sw.seeders pk now, AMap.erase sw.leechers pk⟩
def fPutLeecher (pk : Bytes) (now : Int) (sw : Swarm) : Swarm := ⟨AMap.erase sw.seeders pk, AMap.set sw.leechers pk now⟩
def fDelSeeder (pk : Bytes) (sw : Swarm) : Swarm := ⟨AMap.erase sw.seeders pk, sw.leechers⟩
def fDelLeecher (pk : Bytes) (sw : Swarm) : Swarm := ⟨sw.seeders, AMap.erase sw.leechers pk⟩
def fExpire (cutoff : Int) (sw : Swarm) : Swarm :=
  ⟨sw.seeders.filter (fun e => decide (e.2 > cutoff)), sw.leechers.filter (fun e => decide (e.2 > cutoff))⟩

theorem set_ne_nil {α : Type} (m : List (Bytes × α)) (k : Bytes) (v : α) : AMap.set m k v ≠ [] := by
  cases m with
  | nil => simp [AMap.set]
  | cons p r => obtain ⟨k', v'⟩ := p; simp only [AMap.set]; split <;> simp

theorem has_eq_isSome {α : Type} (m : List (Bytes × α)) (k : Bytes) : AMap.has m k = (AMap.get m k).isSome := rfl

/-- `PutSeeder` as the code computes it = the pointwise update -/
theorem putSeeder_eq_update (s : Shard) (ih pk : Bytes) (now : Int) :
    s.putSeeder ih pk now = s.update ih (fPutSeeder pk now) := by
  unfold Shard.putSeeder Shard.update fPutSeeder Shard.storeOrDrop
  simp only
  have hne : (AMap.set (s.swarm ih).seeders pk now).isEmpty = false := by
    cases h : AMap.set (s.swarm ih).seeders pk now with
    | nil => exact absurd h (set_ne_nil _ _ _)
    | cons _ _ => rfl
  simp only [hne, Bool.false_and, Bool.false_eq_true, if_false]
  have hS := AMap.length_set (s.swarm ih).seeders pk now
  have hL := AMap.length_erase (s.swarm ih).leechers pk
  cases hl : AMap.has (s.swarm ih).leechers pk <;> cases hs : AMap.has (s.swarm ih).seeders pk <;>
    simp only [has_eq_isSome] at hl hs <;> simp only [hl, hs, if_true, if_false, Bool.false_eq_true] at hS hL ⊢
  all_goals
    first
    | (have hnone : AMap.get (s.swarm ih).leechers pk = none := by
         cases h : AMap.get (s.swarm ih).leechers pk <;> simp_all
       rw [AMap.erase_of_not_has _ _ hnone]
       congr 1 <;> omega)
    | (have hpos : 0 < (s.swarm ih).leechers.length := by
         cases h : (s.swarm ih).leechers with
         | nil => rw [h] at hl; simp at hl
         | cons _ _ => simp
       congr 1 <;> omega)

theorem putLeecher_eq_update (s : Shard) (ih pk : Bytes) (now : Int) :
    s.putLeecher ih pk now = s.update ih (fPutLeecher pk now) := by
  unfold Shard.putLeecher Shard.update fPutLeecher Shard.storeOrDrop
  simp only
  have hne : (AMap.set (s.swarm ih).leechers pk now).isEmpty = false := by
    cases h : AMap.set (s.swarm ih).leechers pk now with
    | nil => exact absurd h (set_ne_nil _ _ _)
    | cons _ _ => rfl
  simp only [hne, Bool.and_false, Bool.false_eq_true, if_false]
  have hL := AMap.length_set (s.swarm ih).leechers pk now
  have hS := AMap.length_erase (s.swarm ih).seeders pk
  cases hl : AMap.has (s.swarm ih).leechers pk <;> cases hs : AMap.has (s.swarm ih).seeders pk <;>
    simp only [has_eq_isSome] at hl hs <;> simp only [hl, hs, if_true, if_false, Bool.false_eq_true] at hS hL ⊢
  all_goals
    first
    | (have hnone : AMap.get (s.swarm ih).seeders pk = none := by
         cases h : AMap.get (s.swarm ih).seeders pk <;> simp_all
       rw [AMap.erase_of_not_has _ _ hnone]
       congr 1 <;> omega)
    | (have hpos : 0 < (s.swarm ih).seeders.length := by
         cases h : (s.swarm ih).seeders with
         | nil => rw [h] at hs; simp at hs
         | cons _ _ => simp
       congr 1 <;> omega)

theorem graduate_eq_update (s : Shard) (ih pk : Bytes) (now : Int) :
    s.graduate ih pk now = s.update ih (fPutSeeder pk now) := putSeeder_eq_update s ih pk now

theorem swarm_of_get {s : Shard} {ih : Bytes} {sw : Swarm} (h : AMap.get s.swarms ih = some sw) : s.swarm ih = sw := by
  simp [Shard.swarm, h]

/-- `DeleteSeeder`: not-found leaves the shard alone; otherwise it is the pointwise update -/
theorem deleteSeeder_spec (s : Shard) (ih pk : Bytes) :
    (s.deleteSeeder ih pk).2 = AMap.has (s.swarm ih).seeders pk ∧
    (s.deleteSeeder ih pk).1 = if AMap.has (s.swarm ih).seeders pk then s.update ih (fDelSeeder pk) else s := by
  unfold Shard.deleteSeeder
  cases hg : AMap.get s.swarms ih with
  | none => simp [Shard.swarm, hg, emptySwarm, AMap.has]
  | some sw =>
    have hsw := swarm_of_get hg
    simp only [hsw]
    cases hs : AMap.has sw.seeders pk
    · simp
    · simp only [Bool.not_true, Bool.false_eq_true, if_false, if_true, true_and]
      unfold Shard.update fDelSeeder
      simp only [hsw]
      have hL := AMap.length_erase sw.seeders pk
      simp only [has_eq_isSome] at hs
      simp only [hs, if_true] at hL
      have hpos : 0 < sw.seeders.length := by
        cases h : sw.seeders with
        | nil => rw [h] at hs; simp at hs
        | cons _ _ => simp
      congr 1 <;> omega

theorem deleteLeecher_spec (s : Shard) (ih pk : Bytes) :
    (s.deleteLeecher ih pk).2 = AMap.has (s.swarm ih).leechers pk ∧
    (s.deleteLeecher ih pk).1 = if AMap.has (s.swarm ih).leechers pk then s.update ih (fDelLeecher pk) else s := by
  unfold Shard.deleteLeecher
  cases hg : AMap.get s.swarms ih with
  | none => simp [Shard.swarm, hg, emptySwarm, AMap.has]
  | some sw =>
    have hsw := swarm_of_get hg
    simp only [hsw]
    cases hs : AMap.has sw.leechers pk
    · simp
    · simp only [Bool.not_true, Bool.false_eq_true, if_false, if_true, true_and]
      unfold Shard.update fDelLeecher
      simp only [hsw]
      have hL := AMap.length_erase sw.leechers pk
      simp only [has_eq_isSome] at hs
      simp only [hs, if_true] at hL
      have hpos : 0 < sw.leechers.length := by
        cases h : sw.leechers with
        | nil => rw [h] at hs; simp at hs
        | cons _ _ => simp
      congr 1 <;> omega

/-- the per-swarm expiry step is the pointwise update by `fExpire` (also when the swarm vanished
meanwhile: updating an absent swarm by a filter is the identity) -/
theorem gcSwarm_eq_update (s : Shard) (ih : Bytes) (cutoff : Int) :
    s.gcSwarm ih cutoff = s.update ih (fExpire cutoff) := by
  unfold Shard.gcSwarm Shard.update fExpire
  cases hg : AMap.get s.swarms ih with
  | none =>
    have : s.swarm ih = emptySwarm := by simp [Shard.swarm, hg]
    simp only [this, emptySwarm, List.filter_nil, Shard.storeOrDrop, List.isEmpty_nil, Bool.and_self, if_true,
      AMap.erase_of_not_has _ _ hg, List.length_nil]
    cases s; simp
  | some sw =>
    have hsw := swarm_of_get hg
    simp only [hsw]
    congr 1 <;> omega

/-! ## sums over a swarm map -/

def sumBy (g : Swarm → Nat) (m : List (Bytes × Swarm)) : Nat := (m.map fun p => g p.2).sum

def gOld (g : Swarm → Nat) (m : List (Bytes × Swarm)) (k : Bytes) : Nat :=
  match AMap.get m k with
  | some o => g o
  | none => 0

theorem sumBy_set (g : Swarm → Nat) (m : List (Bytes × Swarm)) (k : Bytes) (v : Swarm) :
    (sumBy g (AMap.set m k v) : Int) = sumBy g m - gOld g m k + g v := by
  induction m with
  | nil => simp [AMap.set, sumBy, gOld]
  | cons p r ih =>
    obtain ⟨k', v'⟩ := p
    simp only [AMap.set]
    by_cases h : k' = k
    · simp only [h, if_true, sumBy, gOld, AMap.get, List.map_cons, List.sum_cons]; omega
    · simp only [h, if_false, sumBy, gOld, AMap.get, List.map_cons, List.sum_cons] at ih ⊢
      omega

theorem sumBy_erase (g : Swarm → Nat) (m : List (Bytes × Swarm)) (k : Bytes) :
    (sumBy g (AMap.erase m k) : Int) = sumBy g m - gOld g m k := by
  induction m with
  | nil => simp [AMap.erase, sumBy, gOld]
  | cons p r ih =>
    obtain ⟨k', v'⟩ := p
    simp only [AMap.erase]
    by_cases h : k' = k
    · simp only [h, if_true, sumBy, gOld, AMap.get, List.map_cons, List.sum_cons]; omega
    · simp only [h, if_false, sumBy, gOld, AMap.get, List.map_cons, List.sum_cons] at ih ⊢
      omega

theorem gOld_swarm (g : Swarm → Nat) (hg : g emptySwarm = 0) (s : Shard) (ih : Bytes) :
    gOld g s.swarms ih = g (s.swarm ih) := by
  unfold gOld Shard.swarm
  cases AMap.get s.swarms ih <;> simp [hg]

/-! ## invariant -/

def SwarmOK (sw : Swarm) : Prop :=
  AMap.WF sw.seeders ∧ AMap.WF sw.leechers ∧ ∀ k, ¬ (AMap.has sw.seeders k = true ∧ AMap.has sw.leechers k = true)

structure Shard.Inv (s : Shard) : Prop where
  wf : AMap.WF s.swarms
  ok : ∀ p ∈ s.swarms, SwarmOK p.2 ∧ ¬ (p.2.seeders = [] ∧ p.2.leechers = [])
  cS : s.nS = sumBy (·.seeders.length) s.swarms
  cL : s.nL = sumBy (·.leechers.length) s.swarms

theorem emptySwarm_ok : SwarmOK emptySwarm := by
  simp [SwarmOK, emptySwarm, AMap.has, AMap.get]

theorem mem_of_get {α : Type} (m : List (Bytes × α)) (k : Bytes) (v : α) (h : AMap.get m k = some v) : (k, v) ∈ m := by
  induction m with
  | nil => simp at h
  | cons p r ih =>
    obtain ⟨k', v'⟩ := p
    simp only [AMap.get] at h
    by_cases hk : k' = k
    · simp only [hk, if_true, Option.some.injEq] at h; subst h; subst hk; simp
    · simp only [hk, if_false] at h; exact List.mem_cons_of_mem _ (ih h)

theorem Shard.Inv.swarm_ok {s : Shard} (h : s.Inv) (ih : Bytes) : SwarmOK (s.swarm ih) := by
  unfold Shard.swarm
  cases hg : AMap.get s.swarms ih with
  | none => exact emptySwarm_ok
  | some sw => exact (h.ok _ (mem_of_get _ _ _ hg)).1

theorem mem_set {α : Type} (m : List (Bytes × α)) (k : Bytes) (v : α) (p : Bytes × α) (h : p ∈ AMap.set m k v) :
    p = (k, v) ∨ p ∈ m := by
  induction m with
  | nil => simp [AMap.set] at h; exact Or.inl h
  | cons q r ih =>
    obtain ⟨k', v'⟩ := q
    simp only [AMap.set] at h
    by_cases hk : k' = k
    · simp only [hk, if_true, List.mem_cons] at h
      rcases h with h | h
      · exact Or.inl h
      · exact Or.inr (List.mem_cons_of_mem _ h)
    · simp only [hk, if_false, List.mem_cons] at h
      rcases h with h | h
      · exact Or.inr (by rw [h]; exact List.mem_cons_self)
      · rcases ih h with h' | h'
        · exact Or.inl h'
        · exact Or.inr (List.mem_cons_of_mem _ h')

theorem mem_erase {α : Type} (m : List (Bytes × α)) (k : Bytes) (p : Bytes × α) (h : p ∈ AMap.erase m k) : p ∈ m := by
  induction m with
  | nil => simp [AMap.erase] at h
  | cons q r ih =>
    obtain ⟨k', v'⟩ := q
    simp only [AMap.erase] at h
    by_cases hk : k' = k
    · simp only [hk, if_true] at h; exact List.mem_cons_of_mem _ h
    · simp only [hk, if_false, List.mem_cons] at h
      rcases h with h | h
      · rw [h]; exact List.mem_cons_self
      · exact List.mem_cons_of_mem _ (ih h)

theorem isEmpty_and_iff (sw : Swarm) : (sw.seeders.isEmpty && sw.leechers.isEmpty) = true ↔ sw.seeders = [] ∧ sw.leechers = [] := by
  simp [List.isEmpty_iff]

/-- the invariant is preserved by every pointwise update whose function keeps swarms well-formed -/
theorem Shard.update_inv (s : Shard) (h : s.Inv) (ih : Bytes) (f : Swarm → Swarm)
    (hf : SwarmOK (s.swarm ih) → SwarmOK (f (s.swarm ih))) : (s.update ih f).Inv := by
  have hok := hf (h.swarm_ok ih)
  have e1 : gOld (·.seeders.length) s.swarms ih = (s.swarm ih).seeders.length := gOld_swarm _ rfl s ih
  have e2 : gOld (·.leechers.length) s.swarms ih = (s.swarm ih).leechers.length := gOld_swarm _ rfl s ih
  unfold Shard.update Shard.storeOrDrop
  by_cases hempty : ((f (s.swarm ih)).seeders.isEmpty && (f (s.swarm ih)).leechers.isEmpty) = true
  · have hnil := (isEmpty_and_iff _).mp hempty
    simp only [hempty, if_true]
    refine ⟨AMap.wf_erase _ h.wf _, fun p hp => h.ok p (mem_erase _ _ _ hp), ?_, ?_⟩
    · simp only; rw [sumBy_erase, e1, h.cS, hnil.1]; simp; omega
    · simp only; rw [sumBy_erase, e2, h.cL, hnil.2]; simp; omega
  · simp only [hempty, if_false, Bool.false_eq_true]
    refine ⟨AMap.wf_set _ h.wf _ _, ?_, ?_, ?_⟩
    · intro p hp
      rcases mem_set _ _ _ _ hp with hp | hp
      · subst hp; exact ⟨hok, fun hn => hempty ((isEmpty_and_iff _).mpr hn)⟩
      · exact h.ok p hp
    · simp only; rw [sumBy_set, e1, h.cS]; omega
    · simp only; rw [sumBy_set, e2, h.cL]; omega

/-- what a request sees of a shard after a pointwise update -/
theorem Shard.swarm_update (s : Shard) (hwf : AMap.WF s.swarms) (ih ih' : Bytes) (f : Swarm → Swarm) :
    (s.update ih f).swarm ih' = if ih = ih' then f (s.swarm ih) else s.swarm ih' := by
  unfold Shard.update Shard.storeOrDrop Shard.swarm
  simp only
  by_cases hempty : ((f ((AMap.get s.swarms ih).getD emptySwarm)).seeders.isEmpty && (f ((AMap.get s.swarms ih).getD emptySwarm)).leechers.isEmpty) = true
  · have hnil := (isEmpty_and_iff _).mp hempty
    simp only [hempty, if_true, AMap.get_erase _ hwf]
    by_cases hk : ih = ih'
    · simp only [hk, if_true, Option.getD_none]
      subst hk
      generalize f ((AMap.get s.swarms ih).getD emptySwarm) = fs at hnil ⊢
      cases fs with
      | mk a b => simp only at hnil; rw [hnil.1, hnil.2]; rfl
    · simp [hk]
  · simp only [hempty, if_false, Bool.false_eq_true, AMap.get_set]
    by_cases hk : ih = ih'
    · simp [hk]
    · simp [hk]

/-! ## the update functions keep swarms well-formed -/

theorem has_erase_self (m : PMap) (hm : AMap.WF m) (k : Bytes) : AMap.has (AMap.erase m k) k = false := by
  simp [AMap.has, AMap.get_erase m hm]

theorem has_erase_other (m : PMap) (hm : AMap.WF m) (k k' : Bytes) (h : k ≠ k') : AMap.has (AMap.erase m k) k' = AMap.has m k' := by
  simp [AMap.has, AMap.get_erase m hm, h]

theorem has_set (m : PMap) (k k' : Bytes) (v : Int) : AMap.has (AMap.set m k v) k' = (decide (k = k') || AMap.has m k') := by
  simp only [AMap.has, AMap.get_set]
  by_cases h : k = k' <;> simp [h]

theorem fPutSeeder_ok (pk : Bytes) (now : Int) (sw : Swarm) (h : SwarmOK sw) : SwarmOK (fPutSeeder pk now sw) := by
  obtain ⟨h1, h2, h3⟩ := h
  refine ⟨AMap.wf_set _ h1 _ _, AMap.wf_erase _ h2 _, ?_⟩
  intro k ⟨hs, hl⟩
  simp only [fPutSeeder] at hs hl
  by_cases hk : pk = k
  · subst hk; rw [has_erase_self _ h2] at hl; cases hl
  · rw [has_erase_other _ h2 _ _ hk] at hl
    rw [has_set] at hs
    simp [hk] at hs
    exact h3 k ⟨hs, hl⟩

theorem fPutLeecher_ok (pk : Bytes) (now : Int) (sw : Swarm) (h : SwarmOK sw) : SwarmOK (fPutLeecher pk now sw) := by
  obtain ⟨h1, h2, h3⟩ := h
  refine ⟨AMap.wf_erase _ h1 _, AMap.wf_set _ h2 _ _, ?_⟩
  intro k ⟨hs, hl⟩
  simp only [fPutLeecher] at hs hl
  by_cases hk : pk = k
  · subst hk; rw [has_erase_self _ h1] at hs; cases hs
  · rw [has_erase_other _ h1 _ _ hk] at hs
    rw [has_set] at hl
    simp [hk] at hl
    exact h3 k ⟨hs, hl⟩

theorem has_erase_imp (m : PMap) (hm : AMap.WF m) (k k' : Bytes) (h : AMap.has (AMap.erase m k) k' = true) : AMap.has m k' = true := by
  by_cases hk : k = k'
  · subst hk; rw [has_erase_self _ hm] at h; cases h
  · rwa [has_erase_other _ hm _ _ hk] at h

theorem fDelSeeder_ok (pk : Bytes) (sw : Swarm) (h : SwarmOK sw) : SwarmOK (fDelSeeder pk sw) := by
  obtain ⟨h1, h2, h3⟩ := h
  exact ⟨AMap.wf_erase _ h1 _, h2, fun k ⟨hs, hl⟩ => h3 k ⟨has_erase_imp _ h1 _ _ hs, hl⟩⟩

theorem fDelLeecher_ok (pk : Bytes) (sw : Swarm) (h : SwarmOK sw) : SwarmOK (fDelLeecher pk sw) := by
  obtain ⟨h1, h2, h3⟩ := h
  exact ⟨h1, AMap.wf_erase _ h2 _, fun k ⟨hs, hl⟩ => h3 k ⟨hs, has_erase_imp _ h2 _ _ hl⟩⟩

theorem wf_filter (m : PMap) (hm : AMap.WF m) (p : Bytes × Int → Bool) : AMap.WF (m.filter p) := by
  unfold AMap.WF AMap.keys at *
  exact (List.Sublist.map _ (List.filter_sublist)).nodup hm

theorem has_filter_imp (m : PMap) (p : Bytes × Int → Bool) (k : Bytes) (h : AMap.has (m.filter p) k = true) : AMap.has m k = true := by
  have h1 : k ∈ AMap.keys (m.filter p) := (AMap.mem_keys_iff _ _).mpr h
  have h2 : k ∈ AMap.keys m := by
    unfold AMap.keys at *
    exact (List.Sublist.map _ (List.filter_sublist)).subset h1
  exact (AMap.mem_keys_iff _ _).mp h2

theorem fExpire_ok (cutoff : Int) (sw : Swarm) (h : SwarmOK sw) : SwarmOK (fExpire cutoff sw) := by
  obtain ⟨h1, h2, h3⟩ := h
  exact ⟨wf_filter _ h1 _, wf_filter _ h2 _, fun k ⟨hs, hl⟩ => h3 k ⟨has_filter_imp _ _ _ hs, has_filter_imp _ _ _ hl⟩⟩

/-! ## the whole store -/

structure Mem.Inv (m : Mem) : Prop where
  npos : 0 < m.n
  len : m.shards.length = 2 * m.n
  shards : ∀ i, i < 2 * m.n → (m.shard i).Inv

/-- what a request for `(ih, f)` sees -/
def Mem.view (m : Mem) (ih : Bytes) (f : Fam) : Swarm := (m.shard (shardIndex m.n ih f)).swarm ih

theorem shardIndex_lt (n : Nat) (hn : 0 < n) (ih : Bytes) (f : Fam) : shardIndex n ih f < 2 * n := by
  unfold shardIndex
  have := Nat.mod_lt (Bytes.toNatBE (ih.take 4)) hn
  split <;> omega

theorem shardIndex_fam (n : Nat) (hn : 0 < n) (ih : Bytes) (f f' : Fam) (h : shardIndex n ih f = shardIndex n ih f') : f = f' := by
  unfold shardIndex at h
  cases f <;> cases f' <;> simp at h <;> first | rfl | omega

theorem emptyShard_inv : emptyShard.Inv := by
  refine ⟨by simp [emptyShard], fun p hp => by simp [emptyShard] at hp, by simp [emptyShard, sumBy], by simp [emptyShard, sumBy]⟩

theorem init_inv (n : Nat) (hn : 0 < n) : (init n).Inv := by
  refine ⟨hn, by simp [init], ?_⟩
  intro i hi
  have : (init n).shard i = emptyShard := by
    simp only [init, Mem.shard, List.getD_eq_getElem?_getD, List.getElem?_replicate]
    split <;> rfl
  rw [this]; exact emptyShard_inv

theorem shard_setShard (m : Mem) (i j : Nat) (s : Shard) (hi : i < m.shards.length) :
    (m.setShard i s).shard j = if i = j then s else m.shard j := by
  unfold Mem.setShard Mem.shard
  simp only [List.getD_eq_getElem?_getD, List.getElem?_set]
  by_cases h : i = j
  · subst h; simp [hi]
  · simp [h]

theorem onShard_inv (m : Mem) (hm : m.Inv) (ih : Bytes) (f : Fam) (g : Shard → Shard)
    (hg : ∀ s : Shard, s.Inv → (g s).Inv) : (m.onShard ih f g).Inv := by
  have hi := shardIndex_lt m.n hm.npos ih f
  refine ⟨hm.npos, by simp [Mem.onShard, Mem.setShard, hm.len], ?_⟩
  intro j hj
  show ((m.setShard _ _).shard j).Inv
  rw [shard_setShard _ _ _ _ (by rw [hm.len]; exact hi)]
  split
  · exact hg _ (hm.shards _ hi)
  · exact hm.shards j hj

/-- a pointwise update of the swarm `(ih, f)` changes exactly the view of `(ih, f)`: every other
infohash and — for the same infohash — the other address family are untouched (C03) -/
theorem view_onShard_update (m : Mem) (hm : m.Inv) (ih : Bytes) (f : Fam) (u : Swarm → Swarm) (ih' : Bytes) (f' : Fam) :
    (m.onShard ih f (·.update ih u)).view ih' f' =
      if ih = ih' ∧ f = f' then u (m.view ih f) else m.view ih' f' := by
  have hi := shardIndex_lt m.n hm.npos ih f
  unfold Mem.view
  have hn : (m.onShard ih f (·.update ih u)).n = m.n := rfl
  rw [hn]
  show ((m.setShard _ _).shard _).swarm ih' = _
  rw [shard_setShard _ _ _ _ (by rw [hm.len]; exact hi)]
  by_cases hidx : shardIndex m.n ih f = shardIndex m.n ih' f'
  · simp only [hidx, if_true]
    rw [← hidx, Shard.swarm_update _ (hm.shards _ hi).wf]
    by_cases hk : ih = ih'
    · subst hk
      have := shardIndex_fam m.n hm.npos ih f f' hidx
      simp [this]
    · simp [hk, hidx]
  · simp only [hidx, if_false]
    have : ¬ (ih = ih' ∧ f = f') := fun ⟨a, b⟩ => hidx (by rw [a, b])
    simp [this]

/-! ## the expiry pass -/

theorem fold_gcSwarm (ks : List Bytes) (hks : ks.Nodup) (cutoff : Int) (s : Shard) (hs : s.Inv) :
    (ks.foldl (fun acc ih => acc.gcSwarm ih cutoff) s).Inv ∧
    ∀ ih', (ks.foldl (fun acc ih => acc.gcSwarm ih cutoff) s).swarm ih' =
      if ih' ∈ ks then fExpire cutoff (s.swarm ih') else s.swarm ih' := by
  induction ks generalizing s with
  | nil => exact ⟨hs, fun _ => by simp⟩
  | cons k rest ih =>
    simp only [List.nodup_cons] at hks
    simp only [List.foldl_cons]
    have hstep : (s.gcSwarm k cutoff).Inv := by
      rw [gcSwarm_eq_update]; exact Shard.update_inv s hs k _ (fExpire_ok cutoff _)
    obtain ⟨h1, h2⟩ := ih hks.2 (s.gcSwarm k cutoff) hstep
    refine ⟨h1, fun ih' => ?_⟩
    rw [h2 ih', gcSwarm_eq_update, Shard.swarm_update _ hs.wf]
    by_cases hk : k = ih'
    · subst hk; simp [hks.1]
    · have : ¬ ih' = k := fun e => hk e.symm
      simp [hk, this]

theorem fExpire_empty (cutoff : Int) : fExpire cutoff emptySwarm = emptySwarm := rfl

/-- one shard's pass: every swarm is expired exactly once -/
theorem Shard.gc_spec (s : Shard) (hs : s.Inv) (cutoff : Int) :
    (s.gc cutoff).Inv ∧ ∀ ih', (s.gc cutoff).swarm ih' = fExpire cutoff (s.swarm ih') := by
  have h := fold_gcSwarm (AMap.keys s.swarms) hs.wf cutoff s hs
  refine ⟨h.1, fun ih' => ?_⟩
  have := h.2 ih'
  unfold Shard.gc
  rw [this]
  split
  · rfl
  · rename_i hnot
    have : AMap.get s.swarms ih' = none := (AMap.get_none_iff _ _).mpr hnot
    simp [Shard.swarm, this, fExpire_empty]

theorem shard_gc (m : Mem) (cutoff : Int) (i : Nat) (hi : i < m.shards.length) : (m.gc cutoff).shard i = (m.shard i).gc cutoff := by
  unfold Mem.gc Mem.shard
  simp only [List.getD_eq_getElem?_getD, List.getElem?_map]
  rw [List.getElem?_eq_getElem hi]
  simp

theorem Mem.gc_spec (m : Mem) (hm : m.Inv) (cutoff : Int) :
    (m.gc cutoff).Inv ∧ ∀ ih f, (m.gc cutoff).view ih f = fExpire cutoff (m.view ih f) := by
  refine ⟨⟨hm.npos, by simp [Mem.gc, hm.len], ?_⟩, ?_⟩
  · intro i hi
    have : (m.gc cutoff).n = m.n := rfl
    rw [this] at hi
    rw [shard_gc m cutoff i (by rw [hm.len]; exact hi)]
    exact (Shard.gc_spec _ (hm.shards i hi) cutoff).1
  · intro ih f
    have hi := shardIndex_lt m.n hm.npos ih f
    unfold Mem.view
    have : (m.gc cutoff).n = m.n := rfl
    rw [this, shard_gc m cutoff _ (by rw [hm.len]; exact hi)]
    exact (Shard.gc_spec _ (hm.shards _ hi) cutoff).2 ih

end MemStore
