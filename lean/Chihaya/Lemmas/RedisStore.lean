import Chihaya.Model.RedisStore
import Chihaya.Lemmas.MemStore
/-!
# Redis store: hash-level lemmas, the invariant, the generic swarm step

The Redis model is a flat map `swarm key ↦ (peer key ↦ mtime)` plus two index hashes and six
counters. What a request for `(infohash, family)` sees is `view`; every operation is shown to act on
`view` by the *same* swarm functions (`fPutSeeder`, …, `fExpire`) as the memory store.
-/
namespace RedisStore
open MemStore (Swarm PMap SwarmOK fPutSeeder fPutLeecher fDelSeeder fDelLeecher fExpire peerKey)
open AMap

/-- what a request for `(ih, f)` sees -/
def view (s : RState) (ih : Bytes) (f : Fam) : Swarm := ⟨hget s (swarmKey f true ih), hget s (swarmKey f false ih)⟩

/-! ## weighted sums over an association list -/

def sumW {α : Type} (w : Bytes → α → Nat) (m : List (Bytes × α)) : Nat := (m.map fun p => w p.1 p.2).sum

def wOld {α : Type} (w : Bytes → α → Nat) (m : List (Bytes × α)) (k : Bytes) : Nat :=
  match AMap.get m k with
  | some o => w k o
  | none => 0

theorem sumW_set {α : Type} (w : Bytes → α → Nat) (m : List (Bytes × α)) (k : Bytes) (v : α) :
    (sumW w (AMap.set m k v) : Int) = sumW w m - wOld w m k + w k v := by
  induction m with
  | nil => simp [AMap.set, sumW, wOld]
  | cons p r ih =>
    obtain ⟨k', v'⟩ := p
    simp only [AMap.set]
    by_cases h : k' = k
    · subst h
      simp only [if_true, sumW, wOld, AMap.get, List.map_cons, List.sum_cons]; omega
    · simp only [h, if_false, sumW, wOld, AMap.get, List.map_cons, List.sum_cons] at ih ⊢
      omega

theorem sumW_erase {α : Type} (w : Bytes → α → Nat) (m : List (Bytes × α)) (k : Bytes) :
    (sumW w (AMap.erase m k) : Int) = sumW w m - wOld w m k := by
  induction m with
  | nil => simp [AMap.erase, sumW, wOld]
  | cons p r ih =>
    obtain ⟨k', v'⟩ := p
    simp only [AMap.erase]
    by_cases h : k' = k
    · subst h
      simp only [if_true, sumW, wOld, AMap.get, List.map_cons, List.sum_cons]; omega
    · simp only [h, if_false, sumW, wOld, AMap.get, List.map_cons, List.sum_cons] at ih ⊢
      omega

/-! ## swarm keys -/

theorem famByte_inj (f f' : Fam) (h : famByte f = famByte f') : f = f' := by
  cases f <;> cases f' <;> simp [famByte] at h <;> rfl

theorem swarmKey_inj (f f' : Fam) (r r' : Bool) (ih ih' : Bytes) (h : swarmKey f r ih = swarmKey f' r' ih') :
    f = f' ∧ r = r' ∧ ih = ih' := by
  unfold swarmKey at h
  simp only [List.cons.injEq] at h
  refine ⟨famByte_inj _ _ h.1, ?_, h.2.2⟩
  cases r <;> cases r' <;> simp at h ⊢

theorem swarmKey_role_ne (f : Fam) (ih : Bytes) : swarmKey f true ih ≠ swarmKey f false ih := by
  intro h; have := (swarmKey_inj _ _ _ _ _ _ h).2.1; simp at this

@[simp] theorem keyIsSeeder_swarmKey (f : Fam) (r : Bool) (ih : Bytes) : keyIsSeeder (swarmKey f r ih) = r := by
  cases r <;> simp [keyIsSeeder, swarmKey]

/-! ## counters -/

def getC (c : Counters) : Fam → CKind → Int
  | .v4, .ih => c.ih4
  | .v4, .s => c.s4
  | .v4, .l => c.l4
  | .v6, .ih => c.ih6
  | .v6, .s => c.s6
  | .v6, .l => c.l6

def roleKind (r : Bool) : CKind := if r then .s else .l

theorem addC_hashes (s : RState) (f : Fam) (k : CKind) (d : Int) : (addC s f k d).hashes = s.hashes := rfl
theorem addC_idx4 (s : RState) (f : Fam) (k : CKind) (d : Int) : (addC s f k d).idx4 = s.idx4 := rfl
theorem addC_idx6 (s : RState) (f : Fam) (k : CKind) (d : Int) : (addC s f k d).idx6 = s.idx6 := rfl

theorem getC_addC (s : RState) (f : Fam) (k : CKind) (d : Int) (f' : Fam) (k' : CKind) :
    getC (addC s f k d).c f' k' = getC s.c f' k' + (if f = f' ∧ k = k' then d else 0) := by
  cases f <;> cases k <;> cases f' <;> cases k' <;> simp [addC, getC]

theorem addIf_hashes (b : Bool) (s : RState) (f : Fam) (k : CKind) (d : Int) : (addIf b s f k d).hashes = s.hashes := by
  unfold addIf; split <;> rfl
theorem addIf_idx4 (b : Bool) (s : RState) (f : Fam) (k : CKind) (d : Int) : (addIf b s f k d).idx4 = s.idx4 := by
  unfold addIf; split <;> rfl
theorem addIf_idx6 (b : Bool) (s : RState) (f : Fam) (k : CKind) (d : Int) : (addIf b s f k d).idx6 = s.idx6 := by
  unfold addIf; split <;> rfl

theorem getC_addIf (b : Bool) (s : RState) (f : Fam) (k : CKind) (d : Int) (f' : Fam) (k' : CKind) :
    getC (addIf b s f k d).c f' k' = getC s.c f' k' + (if b = true ∧ f = f' ∧ k = k' then d else 0) := by
  unfold addIf
  cases b
  · simp
  · simp [getC_addC]

/-! ## hashes -/

theorem hget_congr {s s' : RState} (h : s'.hashes = s.hashes) (k : Bytes) : hget s' k = hget s k := by
  unfold hget; rw [h]

theorem idx_congr {s s' : RState} (h4 : s'.idx4 = s.idx4) (h6 : s'.idx6 = s.idx6) (f : Fam) : idx s' f = idx s f := by
  cases f <;> simp [idx, h4, h6]

theorem hget_hput (s : RState) (hwf : WF s.hashes) (k : Bytes) (m : PMap) (k' : Bytes) :
    hget (hput s k m) k' = if k = k' then m else hget s k' := by
  unfold hget hput
  by_cases hm : m.isEmpty = true
  · simp only [hm, if_true]
    rw [get_erase _ hwf]
    by_cases hk : k = k'
    · simp only [hk, if_true, Option.getD_none]
      cases m with
      | nil => rfl
      | cons _ _ => simp at hm
    · simp [hk]
  · simp only [hm, Bool.false_eq_true, if_false]
    rw [get_set]
    by_cases hk : k = k' <;> simp [hk]

theorem hput_wf (s : RState) (hwf : WF s.hashes) (k : Bytes) (m : PMap) : WF (hput s k m).hashes := by
  unfold hput
  by_cases hm : m.isEmpty = true
  · simp only [hm, if_true]; exact wf_erase _ hwf _
  · simp only [hm, Bool.false_eq_true, if_false]; exact wf_set _ hwf _ _

theorem sumW_hput (w : Bytes → PMap → Nat) (hw : ∀ k, w k [] = 0) (s : RState) (k : Bytes) (m : PMap) :
    (sumW w (hput s k m).hashes : Int) = sumW w s.hashes - w k (hget s k) + w k m := by
  have hold : wOld w s.hashes k = w k (hget s k) := by
    unfold wOld hget
    cases AMap.get s.hashes k <;> simp [hw]
  unfold hput
  by_cases hm : m.isEmpty = true
  · have : m = [] := by
      cases m with
      | nil => rfl
      | cons _ _ => simp at hm
    subst this
    simp only [List.isEmpty_nil, if_true, sumW_erase, hold, hw]; omega
  · simp only [hm, Bool.false_eq_true, if_false]
    rw [sumW_set, hold]

/-- `s'` is `s` with the hash `k` replaced by `m` (nothing else changed) -/
structure HRepl (s s' : RState) (k : Bytes) (m : PMap) : Prop where
  wf : WF s'.hashes
  get : ∀ k', hget s' k' = if k = k' then m else hget s k'
  idx4 : s'.idx4 = s.idx4
  idx6 : s'.idx6 = s.idx6
  c : s'.c = s.c
  sum : ∀ w : Bytes → PMap → Nat, (∀ k, w k [] = 0) →
    (sumW w s'.hashes : Int) = sumW w s.hashes - w k (hget s k) + w k m

theorem hput_repl (s : RState) (hwf : WF s.hashes) (k : Bytes) (m : PMap) : HRepl s (hput s k m) k m :=
  ⟨hput_wf s hwf k m, hget_hput s hwf k m, rfl, rfl, rfl, fun w hw => sumW_hput w hw s k m⟩

theorem hrepl_same (s : RState) (hwf : WF s.hashes) (k : Bytes) : HRepl s s k (hget s k) :=
  ⟨hwf, fun k' => by by_cases h : k = k' <;> simp [h], rfl, rfl, rfl, fun w _ => by omega⟩

theorem hset_repl (s : RState) (hwf : WF s.hashes) (k fld : Bytes) (v : Int) :
    HRepl s (hset s k fld v).1 k (AMap.set (hget s k) fld v) := hput_repl s hwf k _

theorem hset_reply (s : RState) (k fld : Bytes) (v : Int) :
    (hset s k fld v).2 = if AMap.has (hget s k) fld then 0 else 1 := rfl

theorem hdel_repl (s : RState) (hwf : WF s.hashes) (k fld : Bytes) :
    HRepl s (hdel s k fld).1 k (AMap.erase (hget s k) fld) := by
  unfold hdel
  by_cases h : AMap.has (hget s k) fld = true
  · simp only [h, if_true]; exact hput_repl s hwf k _
  · simp only [h]
    have hn : AMap.get (hget s k) fld = none := by
      simp only [AMap.has] at h
      cases hg : AMap.get (hget s k) fld <;> simp_all
    rw [erase_of_not_has _ _ hn]
    exact hrepl_same s hwf k

theorem hdel_reply (s : RState) (k fld : Bytes) :
    (hdel s k fld).2 = if AMap.has (hget s k) fld then 1 else 0 := by
  unfold hdel
  by_cases h : AMap.has (hget s k) fld = true <;> simp [h]

/-! ## the invariant -/

def wLen (f : Fam) (r : Bool) (k : Bytes) (m : PMap) : Nat :=
  if k.head? = some (famByte f) ∧ k.getD 1 0 = (if r then 83 else 76) then m.length else 0

def wSeed (k : Bytes) (_ : Int) : Nat := if keyIsSeeder k then 1 else 0

theorem wLen_nil (f : Fam) (r : Bool) (k : Bytes) : wLen f r k [] = 0 := by simp [wLen]

theorem wLen_swarmKey (f f' : Fam) (r r' : Bool) (ih : Bytes) (m : PMap) :
    wLen f r (swarmKey f' r' ih) m = if f' = f ∧ r' = r then m.length else 0 := by
  cases f <;> cases f' <;> cases r <;> cases r' <;> simp [wLen, swarmKey, famByte]

structure RInv (s : RState) : Prop where
  wfH : WF s.hashes
  wfI : ∀ f, WF (idx s f)
  ok : ∀ ih f, SwarmOK (view s ih f)
  /-- every non-empty hash is a swarm hash registered in its family's index (so the collector reaches it) -/
  cov : ∀ k, hget s k ≠ [] → ∃ f r ih, k = swarmKey f r ih ∧ AMap.has (idx s f) k = true
  idxF : ∀ f k, AMap.has (idx s f) k = true → ∃ r ih, k = swarmKey f r ih
  /-- the seeder / leecher counters of each family are the numbers of stored memberships -/
  cnt : ∀ f r, getC s.c f (roleKind r) = sumW (wLen f r) s.hashes
  /-- the infohash counter of each family is the number of registered seeder sets -/
  cih : ∀ f, getC s.c f .ih = sumW wSeed (idx s f)

theorem init_inv : RInv {} := by
  refine ⟨by simp [WF, keys], fun f => by cases f <;> simp [idx, WF, keys], fun ih f => ?_, fun k hk => ?_, fun f k hk => ?_,
    fun f r => ?_, fun f => ?_⟩
  · simp [view, hget, SwarmOK, AMap.has, WF, keys]
  · simp [hget] at hk
  · cases f <;> simp [idx, AMap.has] at hk
  · cases f <;> cases r <;> simp [getC, roleKind, sumW]
  · cases f <;> simp [getC, sumW, idx]

/-- **generic swarm step**: a state change that replaces the two hashes of `(ih, f)` by `u` of them,
keeps the index covering and the counters in step, preserves the invariant and acts on the view as
the specification update -/
theorem step_inv (s s' : RState) (h : RInv s) (ih : Bytes) (f : Fam) (u : Swarm → Swarm)
    (hu : SwarmOK (u (view s ih f)))
    (hwf : WF s'.hashes)
    (hget' : ∀ k', hget s' k' = if k' = swarmKey f true ih then (u (view s ih f)).seeders
                      else if k' = swarmKey f false ih then (u (view s ih f)).leechers else hget s k')
    (hsum : ∀ w : Bytes → PMap → Nat, (∀ k, w k [] = 0) → (sumW w s'.hashes : Int) =
        sumW w s.hashes - w (swarmKey f true ih) (view s ih f).seeders + w (swarmKey f true ih) (u (view s ih f)).seeders
          - w (swarmKey f false ih) (view s ih f).leechers + w (swarmKey f false ih) (u (view s ih f)).leechers)
    (hwfI : ∀ f', WF (idx s' f'))
    (hidxF : ∀ f' k, AMap.has (idx s' f') k = true → ∃ r ih, k = swarmKey f' r ih)
    (hcov1 : ∀ f' k, AMap.has (idx s f') k = true → AMap.has (idx s' f') k = true ∨ hget s' k = [])
    (hcovS : (u (view s ih f)).seeders ≠ [] → AMap.has (idx s' f) (swarmKey f true ih) = true)
    (hcovL : (u (view s ih f)).leechers ≠ [] → AMap.has (idx s' f) (swarmKey f false ih) = true)
    (hcntS : ∀ f', getC s'.c f' .s = getC s.c f' .s +
        (if f' = f then ((u (view s ih f)).seeders.length : Int) - (view s ih f).seeders.length else 0))
    (hcntL : ∀ f', getC s'.c f' .l = getC s.c f' .l +
        (if f' = f then ((u (view s ih f)).leechers.length : Int) - (view s ih f).leechers.length else 0))
    (hcih : ∀ f', getC s'.c f' .ih = sumW wSeed (idx s' f')) :
    RInv s' ∧ ∀ ih' f', view s' ih' f' = if ih = ih' ∧ f = f' then u (view s ih f) else view s ih' f' := by
  have hview : ∀ ih' f', view s' ih' f' = if ih = ih' ∧ f = f' then u (view s ih f) else view s ih' f' := by
    intro ih' f'
    unfold view
    rw [hget', hget']
    by_cases hc : ih = ih' ∧ f = f'
    · obtain ⟨rfl, rfl⟩ := hc
      have hne : swarmKey f false ih ≠ swarmKey f true ih := fun e => swarmKey_role_ne f ih e.symm
      simp only [hne, if_true, if_false, and_self]
      rfl
    · have h1 : swarmKey f' true ih' ≠ swarmKey f true ih := fun e => hc ⟨(swarmKey_inj _ _ _ _ _ _ e).2.2.symm, (swarmKey_inj _ _ _ _ _ _ e).1.symm⟩
      have h2 : swarmKey f' true ih' ≠ swarmKey f false ih := fun e => by have := (swarmKey_inj _ _ _ _ _ _ e).2.1; simp at this
      have h3 : swarmKey f' false ih' ≠ swarmKey f true ih := fun e => by have := (swarmKey_inj _ _ _ _ _ _ e).2.1; simp at this
      have h4 : swarmKey f' false ih' ≠ swarmKey f false ih := fun e => hc ⟨(swarmKey_inj _ _ _ _ _ _ e).2.2.symm, (swarmKey_inj _ _ _ _ _ _ e).1.symm⟩
      simp [h1, h2, h3, h4, hc]
  refine ⟨⟨hwf, hwfI, ?_, ?_, hidxF, ?_, hcih⟩, hview⟩
  · intro ih' f'
    rw [hview]
    split
    · exact hu
    · exact h.ok ih' f'
  · intro k hk
    rw [hget'] at hk
    by_cases hkS : k = swarmKey f true ih
    · simp only [hkS, if_true] at hk
      exact ⟨f, true, ih, hkS, hkS ▸ hcovS hk⟩
    · by_cases hkL : k = swarmKey f false ih
      · simp only [hkS, hkL, if_true] at hk
        have hne : swarmKey f false ih ≠ swarmKey f true ih := fun e => swarmKey_role_ne f ih e.symm
        simp only [hne, if_false] at hk
        exact ⟨f, false, ih, hkL, hkL ▸ hcovL hk⟩
      · simp only [hkS, hkL, if_false] at hk
        obtain ⟨f0, r0, ih0, hk0, hhas⟩ := h.cov k hk
        refine ⟨f0, r0, ih0, hk0, ?_⟩
        rcases hcov1 f0 k hhas with h1 | h1
        · exact h1
        · rw [hget'] at h1
          simp only [hkS, hkL, if_false] at h1
          exact absurd h1 hk
  · intro f' r
    have hs := hsum (wLen f' r) (wLen_nil f' r)
    have hold := h.cnt f' r
    simp only [wLen_swarmKey] at hs
    cases r
    · have := hcntL f'
      simp only [roleKind] at hold ⊢
      simp only [Bool.false_eq_true, if_false] at hold ⊢
      by_cases hf : f' = f
      · subst hf; simp at hs this; omega
      · have hf' : ¬ f = f' := fun e => hf e.symm
        simp [hf, hf'] at hs this; omega
    · have := hcntS f'
      simp only [roleKind] at hold ⊢
      simp only [if_true] at hold ⊢
      by_cases hf : f' = f
      · subst hf; simp at hs this; omega
      · have hf' : ¬ f = f' := fun e => hf e.symm
        simp [hf, hf'] at hs this; omega

/-! ## index hashes -/

theorem idx_setIdx (s : RState) (f : Fam) (m : PMap) (f' : Fam) : idx (setIdx s f m) f' = if f' = f then m else idx s f' := by
  cases f <;> cases f' <;> simp [idx, setIdx]

theorem setIdx_hashes (s : RState) (f : Fam) (m : PMap) : (setIdx s f m).hashes = s.hashes := by cases f <;> rfl
theorem setIdx_c (s : RState) (f : Fam) (m : PMap) : (setIdx s f m).c = s.c := by cases f <;> rfl

theorem has_of_ne_nil_erase (m : PMap) (k : Bytes) (h : AMap.erase m k ≠ []) : m ≠ [] := by
  intro e; subst e; simp [AMap.erase] at h

theorem length_erase_int (m : PMap) (k : Bytes) :
    ((AMap.erase m k).length : Int) = m.length - (if AMap.has m k then 1 else 0) := by
  rw [length_erase]
  unfold AMap.has
  cases hg : AMap.get m k with
  | none => simp
  | some v =>
    have : 0 < m.length := by
      cases m with
      | nil => simp at hg
      | cons _ _ => simp
    simp; omega

theorem length_set_int (m : PMap) (k : Bytes) (v : Int) :
    ((AMap.set m k v).length : Int) = m.length + (if AMap.has m k then 0 else 1) := by
  rw [length_set]
  unfold AMap.has
  cases AMap.get m k <;> simp

theorem has_set_self (m : PMap) (k : Bytes) (v : Int) : AMap.has (AMap.set m k v) k = true := by
  simp [AMap.has, get_set]

theorem has_set_of_has (m : PMap) (k k' : Bytes) (v : Int) (h : AMap.has m k' = true) : AMap.has (AMap.set m k v) k' = true := by
  simp only [AMap.has, get_set] at h ⊢
  split <;> simp [h]

theorem wOld_wSeed (m : PMap) (k : Bytes) : wOld wSeed m k = if AMap.has m k then (if keyIsSeeder k then 1 else 0) else 0 := by
  unfold wOld AMap.has wSeed
  cases AMap.get m k <;> simp

/-- **put-type step**: the two hashes of `(ih, f)` change by `u`, the key of role `r` is registered in
the family's index, the counters follow the replies -/
theorem put_step (s s' : RState) (h : RInv s) (ih : Bytes) (f : Fam) (r : Bool) (now : Int) (u : Swarm → Swarm)
    (hu : SwarmOK (u (view s ih f)))
    (hwf : WF s'.hashes)
    (hget' : ∀ k', hget s' k' = if k' = swarmKey f true ih then (u (view s ih f)).seeders
                      else if k' = swarmKey f false ih then (u (view s ih f)).leechers else hget s k')
    (hsum : ∀ w : Bytes → PMap → Nat, (∀ k, w k [] = 0) → (sumW w s'.hashes : Int) =
        sumW w s.hashes - w (swarmKey f true ih) (view s ih f).seeders + w (swarmKey f true ih) (u (view s ih f)).seeders
          - w (swarmKey f false ih) (view s ih f).leechers + w (swarmKey f false ih) (u (view s ih f)).leechers)
    (hidx : ∀ f', idx s' f' = if f' = f then AMap.set (idx s f) (swarmKey f r ih) now else idx s f')
    (hother : if r then ((u (view s ih f)).leechers ≠ [] → (view s ih f).leechers ≠ [])
                   else ((u (view s ih f)).seeders ≠ [] → (view s ih f).seeders ≠ []))
    (hcntS : ∀ f', getC s'.c f' .s = getC s.c f' .s +
        (if f' = f then ((u (view s ih f)).seeders.length : Int) - (view s ih f).seeders.length else 0))
    (hcntL : ∀ f', getC s'.c f' .l = getC s.c f' .l +
        (if f' = f then ((u (view s ih f)).leechers.length : Int) - (view s ih f).leechers.length else 0))
    (hcih : ∀ f', getC s'.c f' .ih = getC s.c f' .ih +
        (if f' = f ∧ r = true ∧ AMap.has (idx s f) (swarmKey f r ih) = false then 1 else 0)) :
    RInv s' ∧ ∀ ih' f', view s' ih' f' = if ih = ih' ∧ f = f' then u (view s ih f) else view s ih' f' := by
  have hgrow : ∀ f' k, AMap.has (idx s f') k = true → AMap.has (idx s' f') k = true := by
    intro f' k hk
    rw [hidx]
    split
    · rename_i e; subst e; exact has_set_of_has _ _ _ _ hk
    · exact hk
  have hreg : AMap.has (idx s' f) (swarmKey f r ih) = true := by
    rw [hidx]; simp only [if_true]; exact has_set_self _ _ _
  have hold : ∀ r', (if r' then (view s ih f).seeders else (view s ih f).leechers) ≠ [] →
      AMap.has (idx s' f) (swarmKey f r' ih) = true := by
    intro r' hne
    have : hget s (swarmKey f r' ih) ≠ [] := by cases r' <;> simpa [view] using hne
    obtain ⟨f0, r0, ih0, hk0, hhas⟩ := h.cov _ this
    obtain ⟨e1, _, _⟩ := swarmKey_inj _ _ _ _ _ _ hk0
    subst e1
    exact hgrow _ _ hhas
  apply step_inv s s' h ih f u hu hwf hget' hsum
  · intro f'
    rw [hidx]
    split
    · exact wf_set _ (h.wfI f) _ _
    · exact h.wfI f'
  · intro f' k hk
    rw [hidx] at hk
    split at hk
    · rename_i e; subst e
      simp only [AMap.has, get_set] at hk
      split at hk
      · rename_i e; exact ⟨r, ih, e.symm⟩
      · exact h.idxF _ _ hk
    · exact h.idxF _ _ hk
  · intro f' k hk; exact Or.inl (hgrow f' k hk)
  · intro hne
    cases r
    · simp only [Bool.false_eq_true, if_false] at hother
      exact hold true (by simpa using hother hne)
    · exact hreg
  · intro hne
    cases r
    · exact hreg
    · simp only [if_true] at hother
      exact hold false (by simpa using hother hne)
  · exact hcntS
  · exact hcntL
  · intro f'
    rw [hcih, h.cih, hidx]
    by_cases hf : f' = f
    · subst hf
      simp only [if_true, true_and]
      have := sumW_set wSeed (idx s f') (swarmKey f' r ih) now
      rw [wOld_wSeed] at this
      simp only [keyIsSeeder_swarmKey, wSeed] at this ⊢
      cases r <;> cases hh : AMap.has (idx s f') (swarmKey f' _ ih) <;> simp [hh] at this ⊢ <;> omega
    · simp [hf]

/-! ## the operations -/

theorem idxSet_hashes (s : RState) (f : Fam) (k : Bytes) (v : Int) : (idxSet s f k v).1.hashes = s.hashes := setIdx_hashes _ _ _
theorem idxSet_c (s : RState) (f : Fam) (k : Bytes) (v : Int) : (idxSet s f k v).1.c = s.c := setIdx_c _ _ _
theorem idxSet_idx (s : RState) (f : Fam) (k : Bytes) (v : Int) (f' : Fam) :
    idx (idxSet s f k v).1 f' = if f' = f then AMap.set (idx s f) k v else idx s f' := idx_setIdx _ _ _ _
theorem idxSet_reply (s : RState) (f : Fam) (k : Bytes) (v : Int) :
    (idxSet s f k v).2 = if AMap.has (idx s f) k then 0 else 1 := rfl

theorem putSeeder_def (s : RState) (ih : Bytes) (p : Peer) (now : Int) :
    putSeeder s ih p now =
      let h0 := hset s (swarmKey p.fam true ih) (peerKey p) now
      let h1 := idxSet h0.1 p.fam (swarmKey p.fam true ih) now
      let h2 := hdel h1.1 (swarmKey p.fam false ih) (peerKey p)
      addIf (h1.2 == 1) (addIf (h0.2 == 1) (addIf (h2.2 == 1) h2.1 p.fam .l (-1)) p.fam .s 1) p.fam .ih 1 := rfl

theorem HRepl.idx {s s' : RState} {k : Bytes} {m : PMap} (h : HRepl s s' k m) (f : Fam) : idx s' f = idx s f :=
  idx_congr h.idx4 h.idx6 f

theorem idx_addIf (b : Bool) (s : RState) (f : Fam) (k : CKind) (d : Int) (f' : Fam) : idx (addIf b s f k d) f' = idx s f' :=
  idx_congr (addIf_idx4 b s f k d) (addIf_idx6 b s f k d) f'

theorem hget_addIf (b : Bool) (s : RState) (f : Fam) (k : CKind) (d : Int) (k' : Bytes) : hget (addIf b s f k d) k' = hget s k' :=
  hget_congr (addIf_hashes b s f k d) k'

theorem hget_idxSet (s : RState) (f : Fam) (k : Bytes) (v : Int) (k' : Bytes) : hget (idxSet s f k v).1 k' = hget s k' :=
  hget_congr (idxSet_hashes s f k v) k'

structure CoreEff (s : RState) (f : Fam) (kA kB pk : Bytes) (now : Int) (x : RState × Nat × Nat × Nat) : Prop where
  wf : WF x.1.hashes
  get : ∀ k', hget x.1 k' = if k' = kA then AMap.set (hget s kA) pk now else if k' = kB then AMap.erase (hget s kB) pk else hget s k'
  idx : ∀ f', idx x.1 f' = if f' = f then AMap.set (idx s f) kA now else idx s f'
  cc : x.1.c = s.c
  sum : ∀ w : Bytes → PMap → Nat, (∀ k, w k [] = 0) → (sumW w x.1.hashes : Int) =
      sumW w s.hashes - w kA (hget s kA) + w kA (AMap.set (hget s kA) pk now) - w kB (hget s kB) + w kB (AMap.erase (hget s kB) pk)
  r0 : x.2.1 = if AMap.has (hget s kA) pk then 0 else 1
  r1 : x.2.2.1 = if AMap.has (RedisStore.idx s f) kA then 0 else 1
  r2 : x.2.2.2 = if AMap.has (hget s kB) pk then 1 else 0

theorem core_eff (s : RState) (hwf : WF s.hashes) (f : Fam) (kA kB pk : Bytes) (now : Int) (hne : kA ≠ kB) :
    CoreEff s f kA kB pk now (core s f kA kB pk now) := by
  have hne' : kB ≠ kA := fun e => hne e.symm
  unfold core
  simp only []
  have ra := hset_repl s hwf kA pk now
  have hA2 := hset_reply s kA pk now
  generalize hset s kA pk now = A at ra hA2 ⊢
  have hBh := idxSet_hashes A.1 f kA now
  have hBc := idxSet_c A.1 f kA now
  have hBi := idxSet_idx A.1 f kA now
  have hB2 := idxSet_reply A.1 f kA now
  generalize idxSet A.1 f kA now = B at hBh hBc hBi hB2 ⊢
  have hBwf : WF B.1.hashes := by rw [hBh]; exact ra.wf
  have rc := hdel_repl B.1 hBwf kB pk
  have hC2 := hdel_reply B.1 kB pk
  generalize hdel B.1 kB pk = C at rc hC2 ⊢
  have hBget : ∀ k, hget B.1 k = if kA = k then AMap.set (hget s kA) pk now else hget s k := fun k => by
    rw [hget_congr hBh, ra.get]
  have hBkB : hget B.1 kB = hget s kB := by rw [hBget]; simp [hne]
  refine ⟨rc.wf, ?_, ?_, ?_, ?_, ?_, ?_, ?_⟩
  · intro k'
    rw [rc.get, hBkB, hBget]
    by_cases h1 : k' = kA
    · subst h1; simp [hne']
    · have h1' : ¬ kA = k' := fun e => h1 e.symm
      by_cases h2 : k' = kB
      · subst h2; simp [h1]
      · have h2' : ¬ kB = k' := fun e => h2 e.symm
        simp [h1, h1', h2, h2']
  · intro f'
    rw [rc.idx, hBi, ra.idx]
    split
    · rfl
    · exact ra.idx f'
  · rw [rc.c, hBc, ra.c]
  · intro w hw
    have e1 := rc.sum w hw
    have e2 := ra.sum w hw
    rw [hBkB, hBh] at e1
    show (sumW w C.1.hashes : Int) = _
    omega
  · exact hA2
  · show B.2 = _
    rw [hB2, ra.idx]
  · show C.2 = _
    rw [hC2, hBkB]

theorem core2_eff (s : RState) (hwf : WF s.hashes) (f : Fam) (kA kB pk : Bytes) (now : Int) (hne : kA ≠ kB) :
    CoreEff s f kA kB pk now (core2 s f kA kB pk now) := by
  have hne' : kB ≠ kA := fun e => hne e.symm
  unfold core2
  simp only []
  have ra := hdel_repl s hwf kB pk
  have hA2 := hdel_reply s kB pk
  generalize hdel s kB pk = A at ra hA2 ⊢
  have rb := hset_repl A.1 ra.wf kA pk now
  have hB2 := hset_reply A.1 kA pk now
  generalize hset A.1 kA pk now = B at rb hB2 ⊢
  have hCh := idxSet_hashes B.1 f kA now
  have hCc := idxSet_c B.1 f kA now
  have hCi := idxSet_idx B.1 f kA now
  have hC2 := idxSet_reply B.1 f kA now
  generalize idxSet B.1 f kA now = C at hCh hCc hCi hC2 ⊢
  have hAkA : hget A.1 kA = hget s kA := by rw [ra.get]; simp [hne']
  refine ⟨by rw [hCh]; exact rb.wf, ?_, ?_, ?_, ?_, ?_, ?_, ?_⟩
  · intro k'
    rw [hget_congr hCh, rb.get, hAkA, ra.get]
    by_cases h1 : k' = kA
    · subst h1; simp
    · have h1' : ¬ kA = k' := fun e => h1 e.symm
      by_cases h2 : k' = kB
      · subst h2; simp [h1, h1']
      · have h2' : ¬ kB = k' := fun e => h2 e.symm
        simp [h1, h1', h2, h2']
  · intro f'
    show idx C.1 f' = _
    rw [hCi, rb.idx, ra.idx]
    split
    · rfl
    · rw [rb.idx, ra.idx]
  · rw [hCc, rb.c, ra.c]
  · intro w hw
    have e1 := rb.sum w hw
    have e2 := ra.sum w hw
    rw [hAkA] at e1
    show (sumW w C.1.hashes : Int) = _
    rw [hCh]
    omega
  · show B.2 = _
    rw [hB2, hAkA]
  · show C.2 = _
    rw [hC2, rb.idx, ra.idx]
  · exact hA2


theorem view_seeders (s : RState) (ih : Bytes) (f : Fam) : (view s ih f).seeders = hget s (swarmKey f true ih) := rfl
theorem view_leechers (s : RState) (ih : Bytes) (f : Fam) : (view s ih f).leechers = hget s (swarmKey f false ih) := rfl

/-- a put of a seeder, from the effect of its command group and the reply-driven counter updates -/
theorem putS_of_core (s : RState) (h : RInv s) (ih : Bytes) (f : Fam) (pk : Bytes) (now : Int) (x : RState × Nat × Nat × Nat)
    (hx : CoreEff s f (swarmKey f true ih) (swarmKey f false ih) pk now x) (fin : RState)
    (hfh : fin.hashes = x.1.hashes) (hf4 : fin.idx4 = x.1.idx4) (hf6 : fin.idx6 = x.1.idx6)
    (hC : ∀ f' k', getC fin.c f' k' = getC s.c f' k'
        + (if x.2.1 = 1 ∧ f = f' ∧ CKind.s = k' then 1 else 0)
        + (if x.2.2.2 = 1 ∧ f = f' ∧ CKind.l = k' then -1 else 0)
        + (if x.2.2.1 = 1 ∧ f = f' ∧ CKind.ih = k' then 1 else 0)) :
    RInv fin ∧ ∀ ih' f', view fin ih' f' =
      if ih = ih' ∧ f = f' then fPutSeeder pk now (view s ih f) else view s ih' f' := by
  apply put_step s fin h ih f true now (fPutSeeder pk now)
  · exact MemStore.fPutSeeder_ok _ _ _ (h.ok ih f)
  · rw [hfh]; exact hx.wf
  · intro k'
    rw [hget_congr hfh, hx.get]
    rfl
  · intro w hw
    rw [hfh, hx.sum w hw]
    rfl
  · intro f'
    rw [idx_congr hf4 hf6, hx.idx]
  · simp only [if_true, fPutSeeder]
    intro hne'
    exact has_of_ne_nil_erase _ _ hne'
  · intro f'
    rw [hC, hx.r0, hx.r1, hx.r2]
    simp only [fPutSeeder, view_seeders, length_set_int]
    by_cases hf : f' = f
    · subst hf; cases AMap.has (hget s (swarmKey f' true ih)) pk <;> simp <;> omega
    · have : ¬ f = f' := fun e => hf e.symm
      simp [hf, this]
  · intro f'
    rw [hC, hx.r0, hx.r1, hx.r2]
    simp only [fPutSeeder, view_leechers, length_erase_int]
    by_cases hf : f' = f
    · subst hf; cases AMap.has (hget s (swarmKey f' false ih)) pk <;> simp <;> omega
    · have : ¬ f = f' := fun e => hf e.symm
      simp [hf, this]
  · intro f'
    rw [hC, hx.r0, hx.r1, hx.r2]
    by_cases hf : f' = f
    · subst hf; cases AMap.has (idx s f') (swarmKey f' true ih) <;> simp
    · have : ¬ f = f' := fun e => hf e.symm
      simp [hf, this]


theorem putL_of_core (s : RState) (h : RInv s) (ih : Bytes) (f : Fam) (pk : Bytes) (now : Int) (x : RState × Nat × Nat × Nat)
    (hx : CoreEff s f (swarmKey f false ih) (swarmKey f true ih) pk now x) (fin : RState)
    (hfh : fin.hashes = x.1.hashes) (hf4 : fin.idx4 = x.1.idx4) (hf6 : fin.idx6 = x.1.idx6)
    (hC : ∀ f' k', getC fin.c f' k' = getC s.c f' k'
        + (if x.2.1 = 1 ∧ f = f' ∧ CKind.l = k' then 1 else 0)
        + (if x.2.2.2 = 1 ∧ f = f' ∧ CKind.s = k' then -1 else 0)) :
    RInv fin ∧ ∀ ih' f', view fin ih' f' =
      if ih = ih' ∧ f = f' then fPutLeecher pk now (view s ih f) else view s ih' f' := by
  have hne : swarmKey f true ih ≠ swarmKey f false ih := swarmKey_role_ne f ih
  apply put_step s fin h ih f false now (fPutLeecher pk now)
  · exact MemStore.fPutLeecher_ok _ _ _ (h.ok ih f)
  · rw [hfh]; exact hx.wf
  · intro k'
    rw [hget_congr hfh, hx.get]
    simp only [fPutLeecher, view_seeders, view_leechers]
    by_cases h1 : k' = swarmKey f true ih
    · subst h1; simp [hne]
    · simp [h1]
  · intro w hw
    have := hx.sum w hw
    rw [hfh]
    simp only [fPutLeecher, view_seeders, view_leechers]
    omega
  · intro f'
    rw [idx_congr hf4 hf6, hx.idx]
  · simp only [Bool.false_eq_true, if_false, fPutLeecher]
    intro hne'
    exact has_of_ne_nil_erase _ _ hne'
  · intro f'
    rw [hC, hx.r0, hx.r2]
    simp only [fPutLeecher, view_seeders, length_erase_int]
    by_cases hf : f' = f
    · subst hf; cases AMap.has (hget s (swarmKey f' true ih)) pk <;> simp <;> omega
    · have : ¬ f = f' := fun e => hf e.symm
      simp [hf, this]
  · intro f'
    rw [hC, hx.r0, hx.r2]
    simp only [fPutLeecher, view_leechers, length_set_int]
    by_cases hf : f' = f
    · subst hf; cases AMap.has (hget s (swarmKey f' false ih)) pk <;> simp <;> omega
    · have : ¬ f = f' := fun e => hf e.symm
      simp [hf, this]
  · intro f'
    rw [hC]
    simp

theorem putSeeder_eq (s : RState) (ih : Bytes) (p : Peer) (now : Int) :
    putSeeder s ih p now =
      let x := core s p.fam (swarmKey p.fam true ih) (swarmKey p.fam false ih) (peerKey p) now
      addIf (x.2.2.1 == 1) (addIf (x.2.1 == 1) (addIf (x.2.2.2 == 1) x.1 p.fam .l (-1)) p.fam .s 1) p.fam .ih 1 := rfl

theorem putLeecher_eq (s : RState) (ih : Bytes) (p : Peer) (now : Int) :
    putLeecher s ih p now =
      let x := core s p.fam (swarmKey p.fam false ih) (swarmKey p.fam true ih) (peerKey p) now
      addIf (x.2.1 == 1) (addIf (x.2.2.2 == 1) x.1 p.fam .s (-1)) p.fam .l 1 := rfl

theorem graduate_eq (s : RState) (ih : Bytes) (p : Peer) (now : Int) :
    graduate s ih p now =
      let x := core2 s p.fam (swarmKey p.fam true ih) (swarmKey p.fam false ih) (peerKey p) now
      addIf (x.2.2.1 == 1) (addIf (x.2.1 == 1) (addIf (x.2.2.2 == 1) x.1 p.fam .l (-1)) p.fam .s 1) p.fam .ih 1 := rfl

theorem putS_fin (s : RState) (h : RInv s) (ih : Bytes) (f : Fam) (pk : Bytes) (now : Int) (x : RState × Nat × Nat × Nat)
    (hx : CoreEff s f (swarmKey f true ih) (swarmKey f false ih) pk now x) :
    let fin := addIf (x.2.2.1 == 1) (addIf (x.2.1 == 1) (addIf (x.2.2.2 == 1) x.1 f .l (-1)) f .s 1) f .ih 1
    RInv fin ∧ ∀ ih' f', view fin ih' f' =
      if ih = ih' ∧ f = f' then fPutSeeder pk now (view s ih f) else view s ih' f' := by
  intro fin
  apply putS_of_core s h ih f pk now x hx fin
  · simp only [fin, addIf_hashes]
  · simp only [fin, addIf_idx4]
  · simp only [fin, addIf_idx6]
  · intro f' k'
    simp only [fin, getC_addIf, hx.cc]
    cases f <;> cases f' <;> cases k' <;> simp <;> omega

theorem putSeeder_step (s : RState) (h : RInv s) (ih : Bytes) (p : Peer) (now : Int) :
    RInv (putSeeder s ih p now) ∧ ∀ ih' f', view (putSeeder s ih p now) ih' f' =
      if ih = ih' ∧ p.fam = f' then fPutSeeder (peerKey p) now (view s ih p.fam) else view s ih' f' := by
  rw [putSeeder_eq]
  exact putS_fin s h ih p.fam (peerKey p) now _ (core_eff s h.wfH _ _ _ _ _ (swarmKey_role_ne _ _))

theorem graduate_step (s : RState) (h : RInv s) (ih : Bytes) (p : Peer) (now : Int) :
    RInv (graduate s ih p now) ∧ ∀ ih' f', view (graduate s ih p now) ih' f' =
      if ih = ih' ∧ p.fam = f' then fPutSeeder (peerKey p) now (view s ih p.fam) else view s ih' f' := by
  rw [graduate_eq]
  exact putS_fin s h ih p.fam (peerKey p) now _ (core2_eff s h.wfH _ _ _ _ _ (swarmKey_role_ne _ _))

theorem putLeecher_step (s : RState) (h : RInv s) (ih : Bytes) (p : Peer) (now : Int) :
    RInv (putLeecher s ih p now) ∧ ∀ ih' f', view (putLeecher s ih p now) ih' f' =
      if ih = ih' ∧ p.fam = f' then fPutLeecher (peerKey p) now (view s ih p.fam) else view s ih' f' := by
  rw [putLeecher_eq]
  have hx := core_eff s h.wfH p.fam (swarmKey p.fam false ih) (swarmKey p.fam true ih) (peerKey p) now (fun e => swarmKey_role_ne _ _ e.symm)
  generalize core s p.fam (swarmKey p.fam false ih) (swarmKey p.fam true ih) (peerKey p) now = x at hx
  apply putL_of_core s h ih p.fam (peerKey p) now x hx
  · simp only [addIf_hashes]
  · simp only [addIf_idx4]
  · simp only [addIf_idx6]
  · intro f' k'
    simp only [getC_addIf, hx.cc]
    cases p.fam <;> cases f' <;> cases k' <;> simp <;> omega


/-! ## single-hash steps (deletes, the collector) -/

/-- replace the hash of role `r` in a swarm -/
def setRole (r : Bool) (m' : PMap) (sw : Swarm) : Swarm := if r then ⟨m', sw.leechers⟩ else ⟨sw.seeders, m'⟩

def roleOf (r : Bool) (sw : Swarm) : PMap := if r then sw.seeders else sw.leechers

theorem roleOf_view (s : RState) (ih : Bytes) (f : Fam) (r : Bool) : roleOf r (view s ih f) = hget s (swarmKey f r ih) := by
  cases r <;> rfl

theorem setRole_ok (r : Bool) (m' : PMap) (sw : Swarm) (hsw : SwarmOK sw) (hwf : WF m')
    (hsub : ∀ k, AMap.has m' k = true → AMap.has (roleOf r sw) k = true) : SwarmOK (setRole r m' sw) := by
  obtain ⟨h1, h2, h3⟩ := hsw
  cases r
  · refine ⟨h1, hwf, fun k hk => h3 k ⟨hk.1, hsub k hk.2⟩⟩
  · refine ⟨hwf, h2, fun k hk => h3 k ⟨hsub k hk.1, hk.2⟩⟩

/-- common part of the two single-hash steps -/
theorem single_step (s s' : RState) (h : RInv s) (ih : Bytes) (f : Fam) (r : Bool) (m' : PMap)
    (hwf : WF s'.hashes)
    (hget' : ∀ k', hget s' k' = if swarmKey f r ih = k' then m' else hget s k')
    (hsum : ∀ w : Bytes → PMap → Nat, (∀ k, w k [] = 0) → (sumW w s'.hashes : Int) =
        sumW w s.hashes - w (swarmKey f r ih) (hget s (swarmKey f r ih)) + w (swarmKey f r ih) m')
    (hm'wf : WF m') (hsub : ∀ k, AMap.has m' k = true → AMap.has (hget s (swarmKey f r ih)) k = true)
    (hwfI : ∀ f', WF (idx s' f'))
    (hidxsub : ∀ f' k, AMap.has (idx s' f') k = true → AMap.has (idx s f') k = true)
    (hidxkeep : ∀ f' k, AMap.has (idx s f') k = true → AMap.has (idx s' f') k = true ∨ (k = swarmKey f r ih ∧ m' = []))
    (hcnt : ∀ f' r', getC s'.c f' (roleKind r') = getC s.c f' (roleKind r') +
        (if f' = f ∧ r' = r then (m'.length : Int) - (hget s (swarmKey f r ih)).length else 0))
    (hcih : ∀ f', getC s'.c f' .ih = sumW wSeed (idx s' f')) :
    RInv s' ∧ ∀ ih' f', view s' ih' f' = if ih = ih' ∧ f = f' then setRole r m' (view s ih f) else view s ih' f' := by
  have hne : swarmKey f true ih ≠ swarmKey f false ih := swarmKey_role_ne f ih
  have hne' : swarmKey f false ih ≠ swarmKey f true ih := fun e => hne e.symm
  have hnil : m' ≠ [] → hget s (swarmKey f r ih) ≠ [] := by
    intro hm e
    cases m' with
    | nil => exact hm rfl
    | cons a t =>
      have := hsub a.1 (by simp [AMap.has, AMap.get])
      rw [e] at this
      simp [AMap.has] at this
  have hcovX : ∀ r', roleOf r' (setRole r m' (view s ih f)) ≠ [] → AMap.has (idx s' f) (swarmKey f r' ih) = true := by
    intro r' hne0
    have hold : hget s (swarmKey f r' ih) ≠ [] := by
      by_cases hr : r' = r
      · subst hr
        apply hnil
        cases r' <;> simpa [roleOf, setRole] using hne0
      · have : roleOf r' (setRole r m' (view s ih f)) = hget s (swarmKey f r' ih) := by
          cases r <;> cases r' <;> simp_all [roleOf, setRole, view]
        rwa [this] at hne0
    obtain ⟨f0, r0, ih0, hk0, hhas⟩ := h.cov _ hold
    obtain ⟨e1, e2, e3⟩ := swarmKey_inj _ _ _ _ _ _ hk0
    subst e1
    rcases hidxkeep _ _ hhas with h1 | ⟨h1, h2⟩
    · exact h1
    · obtain ⟨_, e2', _⟩ := swarmKey_inj _ _ _ _ _ _ h1
      subst e2'
      exfalso
      apply hne0
      cases r' <;> simp [roleOf, setRole, h2]
  apply step_inv s s' h ih f (setRole r m') ?_ hwf ?_ ?_ hwfI ?_ ?_ ?_ ?_ ?_ ?_ hcih
  · exact setRole_ok r m' _ (h.ok ih f) hm'wf (by rw [roleOf_view]; exact hsub)
  · intro k'
    rw [hget']
    cases r
    · simp only [setRole, Bool.false_eq_true, if_false, view]
      by_cases h1 : k' = swarmKey f true ih
      · subst h1; simp [hne']
      · by_cases h2 : k' = swarmKey f false ih
        · subst h2; simp [hne']
        · have : ¬ swarmKey f false ih = k' := fun e => h2 e.symm
          simp [h1, h2, this]
    · simp only [setRole, if_true, view]
      by_cases h1 : k' = swarmKey f true ih
      · subst h1; simp
      · have h1' : ¬ swarmKey f true ih = k' := fun e => h1 e.symm
        by_cases h2 : k' = swarmKey f false ih
        · subst h2; simp [hne, hne']
        · simp [h1, h1', h2]
  · intro w hw
    have := hsum w hw
    cases r <;> simp only [setRole, view, Bool.false_eq_true, if_false, if_true] at this ⊢ <;> omega
  · intro f' k hk
    exact h.idxF f' k (hidxsub f' k hk)
  · intro f' k hk
    rcases hidxkeep f' k hk with h1 | ⟨h1, h2⟩
    · exact Or.inl h1
    · right; rw [hget', h1]; simp [h2]
  · intro hne0; exact hcovX true hne0
  · intro hne0; exact hcovX false hne0
  · intro f'
    have := hcnt f' true
    simp only [roleKind, if_true] at this
    rw [this]
    cases r
    · simp [setRole]
    · simp only [setRole, if_true, view, and_true]
  · intro f'
    have := hcnt f' false
    simp only [roleKind, Bool.false_eq_true, if_false] at this
    rw [this]
    cases r
    · simp only [setRole, Bool.false_eq_true, if_false, view, and_true]
    · simp [setRole]


theorem setRole_true (m' : PMap) (sw : Swarm) : setRole true m' sw = ⟨m', sw.leechers⟩ := rfl
theorem setRole_false (m' : PMap) (sw : Swarm) : setRole false m' sw = ⟨sw.seeders, m'⟩ := rfl

theorem has_erase_sub (m : PMap) (hm : WF m) (k k' : Bytes) (h : AMap.has (AMap.erase m k) k' = true) : AMap.has m k' = true :=
  MemStore.has_erase_imp m hm k k' h

theorem deleteSeeder_eq (s : RState) (ih : Bytes) (p : Peer) :
    deleteSeeder s ih p =
      let x := hdel s (swarmKey p.fam true ih) (peerKey p)
      if x.2 == 0 then (s, false) else (addC x.1 p.fam .s (-1), true) := rfl

theorem deleteLeecher_eq (s : RState) (ih : Bytes) (p : Peer) :
    deleteLeecher s ih p =
      let x := hdel s (swarmKey p.fam false ih) (peerKey p)
      if x.2 == 0 then (s, false) else (addC x.1 p.fam .l (-1), true) := rfl

/-- a delete of role `r`, from the HDEL and the counter update -/
theorem del_core (s : RState) (h : RInv s) (ih : Bytes) (f : Fam) (r : Bool) (pk : Bytes) :
    let x := hdel s (swarmKey f r ih) pk
    let res := if x.2 == 0 then (s, false) else (addC x.1 f (roleKind r) (-1), true)
    RInv res.1 ∧
    (∀ ih' f', view res.1 ih' f' = if ih = ih' ∧ f = f' then setRole r (AMap.erase (hget s (swarmKey f r ih)) pk) (view s ih f) else view s ih' f') ∧
    res.2 = AMap.has (hget s (swarmKey f r ih)) pk := by
  intro x res
  have rx := hdel_repl s h.wfH (swarmKey f r ih) pk
  have hx2 := hdel_reply s (swarmKey f r ih) pk
  have hSwf : WF (hget s (swarmKey f r ih)) := by
    have := h.ok ih f
    cases r
    · exact this.2.1
    · exact this.1
  by_cases hhas : AMap.has (hget s (swarmKey f r ih)) pk = true
  · have hx2' : x.2 = 1 := by show (hdel _ _ _).2 = 1; rw [hx2]; simp [hhas]
    have hres : res = (addC x.1 f (roleKind r) (-1), true) := by simp [res, hx2']
    rw [hres]
    refine ⟨?_, ?_, by simp [hhas]⟩ <;>
    · have key := single_step s (addC x.1 f (roleKind r) (-1)) h ih f r (AMap.erase (hget s (swarmKey f r ih)) pk)
        (by rw [addC_hashes]; exact rx.wf)
        (fun k' => by rw [hget_congr (addC_hashes _ _ _ _)]; exact rx.get k')
        (fun w hw => by rw [addC_hashes]; exact rx.sum w hw)
        (wf_erase _ hSwf _)
        (fun k hk => has_erase_sub _ hSwf _ _ hk)
        (fun f' => by rw [idx_congr (addC_idx4 _ _ _ _) (addC_idx6 _ _ _ _), rx.idx]; exact h.wfI f')
        (fun f' k hk => by rwa [idx_congr (addC_idx4 _ _ _ _) (addC_idx6 _ _ _ _), rx.idx] at hk)
        (fun f' k hk => Or.inl (by rwa [idx_congr (addC_idx4 _ _ _ _) (addC_idx6 _ _ _ _), rx.idx]))
        (fun f' r' => by
          rw [getC_addC, rx.c, length_erase_int, hhas]
          by_cases hc : f' = f ∧ r' = r
          · obtain ⟨rfl, rfl⟩ := hc; simp; omega
          · have : ¬ (f = f' ∧ roleKind r = roleKind r') := by
              intro ⟨a, b⟩; apply hc; refine ⟨a.symm, ?_⟩
              cases r <;> cases r' <;> simp [roleKind] at b ⊢
            simp [hc, this])
        (fun f' => by
          rw [getC_addC, rx.c, idx_congr (addC_idx4 _ _ _ _) (addC_idx6 _ _ _ _), rx.idx, h.cih]
          cases r <;> simp [roleKind])
      first | exact key.1 | exact key.2
  · have hx2' : x.2 = 0 := by show (hdel _ _ _).2 = 0; rw [hx2]; simp [hhas]
    have hres : res = (s, false) := by simp [res, hx2']
    rw [hres]
    have hn : AMap.get (hget s (swarmKey f r ih)) pk = none := by
      simp only [AMap.has] at hhas
      cases hg : AMap.get (hget s (swarmKey f r ih)) pk <;> simp_all
    refine ⟨h, ?_, by simp [hhas]⟩
    intro ih' f'
    rw [erase_of_not_has _ _ hn]
    split
    · rename_i hc; obtain ⟨rfl, rfl⟩ := hc
      cases r <;> rfl
    · rfl

/-! ## the collector -/

theorem HRepl.trans {s a b : RState} {k : Bytes} {m1 m2 : PMap} (h1 : HRepl s a k m1) (h2 : HRepl a b k m2) : HRepl s b k m2 := by
  have hak : hget a k = m1 := by rw [h1.get]; simp
  refine ⟨h2.wf, fun k' => ?_, h2.idx4.trans h1.idx4, h2.idx6.trans h1.idx6, h2.c.trans h1.c, fun w hw => ?_⟩
  · rw [h2.get, h1.get]; split <;> rfl
  · have e1 := h1.sum w hw
    have e2 := h2.sum w hw
    rw [hak] at e2
    omega

theorem fold_hdel (es : List (Bytes × Int)) (s : RState) (hwf : WF s.hashes) (k : Bytes) :
    HRepl s (es.foldl (fun acc e => (hdel acc k e.1).1) s) k (es.foldl (fun m e => AMap.erase m e.1) (hget s k)) := by
  induction es generalizing s with
  | nil => exact hrepl_same s hwf k
  | cons e rest ih =>
    simp only [List.foldl_cons]
    have h1 := hdel_repl s hwf k e.1
    have h2 := ih (hdel s k e.1).1 h1.wf
    have hk : hget (hdel s k e.1).1 k = AMap.erase (hget s k) e.1 := by rw [h1.get]; simp
    rw [hk] at h2
    exact h1.trans h2

theorem fold_erase_cons (es : List (Bytes × Int)) (k0 : Bytes) (v0 : Int) (acc : PMap) (h : ∀ e ∈ es, k0 ≠ e.1) :
    es.foldl (fun m e => AMap.erase m e.1) ((k0, v0) :: acc) = (k0, v0) :: es.foldl (fun m e => AMap.erase m e.1) acc := by
  induction es generalizing acc with
  | nil => rfl
  | cons e rest ih =>
    simp only [List.foldl_cons]
    have : k0 ≠ e.1 := h e (by simp)
    simp only [AMap.erase, this, if_false]
    exact ih _ (fun e' he' => h e' (by simp [he']))

theorem fold_erase_filter (m : PMap) (hm : WF m) (p : Bytes × Int → Bool) :
    (m.filter p).foldl (fun acc e => AMap.erase acc e.1) m = m.filter (fun e => !p e) := by
  induction m with
  | nil => rfl
  | cons a r ih =>
    obtain ⟨k0, v0⟩ := a
    have hr : WF r := by simp only [WF, keys, List.map_cons, List.nodup_cons] at hm; exact hm.2
    have hk0 : k0 ∉ keys r := by simp only [WF, keys, List.map_cons, List.nodup_cons] at hm; exact hm.1
    by_cases hp : p (k0, v0) = true
    · simp only [List.filter_cons, hp, if_true, List.foldl_cons, AMap.erase, Bool.not_true, Bool.false_eq_true, if_false]
      exact ih hr
    · simp only [Bool.not_eq_true] at hp
      simp only [List.filter_cons, hp, Bool.false_eq_true, if_false, Bool.not_false, if_true]
      rw [fold_erase_cons, ih hr]
      intro e he
      have : e ∈ r := (List.mem_filter.mp he).1
      intro e0
      apply hk0
      rw [e0]
      exact List.mem_map.mpr ⟨e, this, rfl⟩

theorem length_filter_compl (m : PMap) (p : Bytes × Int → Bool) :
    (m.filter p).length + (m.filter (fun e => !p e)).length = m.length := by
  induction m with
  | nil => rfl
  | cons a r ih =>
    by_cases hp : p a = true
    · simp [List.filter_cons, hp]; omega
    · simp only [Bool.not_eq_true] at hp
      simp [List.filter_cons, hp]; omega

theorem filter_fresh (m : PMap) (cutoff : Int) :
    m.filter (fun e => !decide (e.2 ≤ cutoff)) = m.filter (fun e => decide (e.2 > cutoff)) := by
  apply List.filter_congr
  intro e _
  by_cases h : e.2 ≤ cutoff
  · have : ¬ e.2 > cutoff := by omega
    simp [h, this]
  · have : e.2 > cutoff := by omega
    simp [h, this]


theorem isEmpty_iff_nil (m : PMap) : m.isEmpty = true ↔ m = [] := by cases m <;> simp

theorem has_filter_sub (m : PMap) (p : Bytes × Int → Bool) (k : Bytes) (h : AMap.has (m.filter p) k = true) : AMap.has m k = true :=
  MemStore.has_filter_imp m p k h

theorem has_erase_ne (m : PMap) (hm : WF m) (k k' : Bytes) (hne : k' ≠ k) : AMap.has (AMap.erase m k) k' = AMap.has m k' := by
  simp only [AMap.has, get_erase m hm]
  have : ¬ k = k' := fun e => hne e.symm
  simp [this]

/-- one key of the collector's pass -/
theorem gcKey_step (s : RState) (h : RInv s) (f : Fam) (r : Bool) (ih : Bytes) (cutoff : Int)
    (hk : AMap.has (idx s f) (swarmKey f r ih) = true) :
    RInv (gcKey s f (swarmKey f r ih) cutoff) ∧
    (∀ ih' f', view (gcKey s f (swarmKey f r ih) cutoff) ih' f' =
      if ih = ih' ∧ f = f' then setRole r ((hget s (swarmKey f r ih)).filter (fun e => decide (e.2 > cutoff))) (view s ih f) else view s ih' f') ∧
    (∀ f' k', AMap.has (idx (gcKey s f (swarmKey f r ih) cutoff) f') k' = true → AMap.has (idx s f') k' = true) ∧
    (∀ f' k', k' ≠ swarmKey f r ih → AMap.has (idx s f') k' = true → AMap.has (idx (gcKey s f (swarmKey f r ih) cutoff) f') k' = true) := by
  generalize hkX : swarmKey f r ih = kX at *
  have hmwf : WF (hget s kX) := by
    have := h.ok ih f
    rw [← hkX]
    cases r
    · exact this.2.1
    · exact this.1
  have hseed : keyIsSeeder kX = r := by rw [← hkX]; exact keyIsSeeder_swarmKey f r ih
  unfold gcKey gcKeyApply gcIdx gcHashApply gcKeyRead
  simp only [hseed]
  generalize hstale : (hget s kX).filter (fun e => decide (e.2 ≤ cutoff)) = stale
  have rs1 : HRepl s (stale.foldl (fun acc e => (hdel acc kX e.1).1) s) kX ((hget s kX).filter (fun e => decide (e.2 > cutoff))) := by
    have := fold_hdel stale s h.wfH kX
    rw [← hstale, fold_erase_filter _ hmwf, filter_fresh] at this
    rw [← hstale]; exact this
  have hlen : (stale.length : Int) = (hget s kX).length - ((hget s kX).filter (fun e => decide (e.2 > cutoff))).length := by
    have := length_filter_compl (hget s kX) (fun e => decide (e.2 ≤ cutoff))
    rw [filter_fresh, hstale] at this
    omega
  generalize stale.foldl (fun acc e => (hdel acc kX e.1).1) s = s1 at rs1
  generalize hm' : (hget s kX).filter (fun e => decide (e.2 > cutoff)) = m' at rs1 hlen
  have hm'wf : WF m' := by rw [← hm']; exact MemStore.wf_filter _ hmwf _
  have hm'sub : ∀ k, AMap.has m' k = true → AMap.has (hget s kX) k = true := by
    intro k hk'; rw [← hm'] at hk'; exact has_filter_sub _ _ _ hk'
  generalize hs2 : (if stale.length > 0 then addC s1 f (if r = true then CKind.s else CKind.l) (-(stale.length : Int)) else s1) = s2
  have h2h : s2.hashes = s1.hashes := by rw [← hs2]; split <;> rfl
  have h24 : s2.idx4 = s1.idx4 := by rw [← hs2]; split <;> rfl
  have h26 : s2.idx6 = s1.idx6 := by rw [← hs2]; split <;> rfl
  have h2c : ∀ f' k', getC s2.c f' k' = getC s.c f' k' + (if f = f' ∧ roleKind r = k' then -(stale.length : Int) else 0) := by
    intro f' k'
    rw [← hs2]
    by_cases hpos : stale.length > 0
    · simp only [hpos, if_true, getC_addC, rs1.c]; rfl
    · have : stale.length = 0 := by omega
      simp [hpos, this, rs1.c]
  have h2idx : ∀ f', idx s2 f' = idx s f' := fun f' => by rw [idx_congr h24 h26, rs1.idx]
  have h2get : ∀ k', hget s2 k' = if kX = k' then m' else hget s k' := fun k' => by rw [hget_congr h2h]; exact rs1.get k'
  have h2X : hget s2 kX = m' := by rw [h2get]; simp
  rw [h2X]
  have hcnt : ∀ (fin : RState), fin.c = s2.c ∨ (r = true ∧ fin.c = (addC s2 f .ih (-1)).c) →
      ∀ f' r', getC fin.c f' (roleKind r') = getC s.c f' (roleKind r') +
        (if f' = f ∧ r' = r then (m'.length : Int) - (hget s kX).length else 0) := by
    intro fin hfin f' r'
    have base : getC s2.c f' (roleKind r') = getC s.c f' (roleKind r') +
        (if f' = f ∧ r' = r then (m'.length : Int) - (hget s kX).length else 0) := by
      rw [h2c]
      by_cases hc : f' = f ∧ r' = r
      · obtain ⟨rfl, rfl⟩ := hc; simp; omega
      · have : ¬ (f = f' ∧ roleKind r = roleKind r') := by
          intro ⟨a, b⟩; apply hc; refine ⟨a.symm, ?_⟩
          cases r <;> cases r' <;> simp [roleKind] at b ⊢
        simp [hc, this]
    rcases hfin with e | ⟨_, e⟩
    · rw [e]; exact base
    · rw [e, getC_addC, base]
      cases r' <;> simp [roleKind]
  by_cases hemp : m' = []
  · -- the hash is gone: the index entry is removed, the infohash counter follows for a seeder key
    have hisE : m'.isEmpty = true := (isEmpty_iff_nil _).mpr hemp
    simp only [hisE, if_true]
    have hreg : AMap.has (idx s2 f) kX = true := by rw [h2idx]; exact hk
    simp only [hreg, Bool.and_true]
    generalize hs3 : setIdx s2 f (AMap.erase (idx s2 f) kX) = s3
    have h3h : s3.hashes = s2.hashes := by rw [← hs3]; exact setIdx_hashes _ _ _
    have h3c : s3.c = s2.c := by rw [← hs3]; exact setIdx_c _ _ _
    have h3idx : ∀ f', idx s3 f' = if f' = f then AMap.erase (idx s f) kX else idx s f' := by
      intro f'; rw [← hs3, idx_setIdx, h2idx]; split <;> simp [h2idx]
    generalize hfin : (if r = true then addC s3 f CKind.ih (-1) else s3) = fin
    have hfh : fin.hashes = s1.hashes := by rw [← hfin]; split <;> simp [addC_hashes, h3h, h2h]
    have hfidx : ∀ f', idx fin f' = if f' = f then AMap.erase (idx s f) kX else idx s f' := by
      intro f'; rw [← hfin, ← h3idx]; split
      · exact idx_congr (addC_idx4 _ _ _ _) (addC_idx6 _ _ _ _) f'
      · rfl
    have hfc : fin.c = s2.c ∨ (r = true ∧ fin.c = (addC s2 f .ih (-1)).c) := by
      rw [← hfin]
      cases r
      · left; simp [h3c]
      · right; refine ⟨rfl, ?_⟩; simp only [if_true]; show (addC s3 f .ih (-1)).c = _; simp only [addC, h3c]
    have hsubidx : ∀ f' k', AMap.has (idx fin f') k' = true → AMap.has (idx s f') k' = true := by
      intro f' k' hk'
      rw [hfidx] at hk'
      split at hk'
      · rename_i e; subst e; exact MemStore.has_erase_imp _ (h.wfI _) _ _ hk'
      · exact hk'
    have hkeep : ∀ f' k', k' ≠ kX → AMap.has (idx s f') k' = true → AMap.has (idx fin f') k' = true := by
      intro f' k' hne hk'
      rw [hfidx]
      split
      · rename_i e; subst e; rw [has_erase_ne _ (h.wfI _) _ _ hne]; exact hk'
      · exact hk'
    have key := single_step s fin h ih f r m' (by rw [hfh]; exact rs1.wf)
      (fun k' => by rw [hget_congr hfh, hkX]; exact rs1.get k')
      (fun w hw => by rw [hfh, hkX]; exact rs1.sum w hw)
      hm'wf (by rw [hkX]; exact hm'sub)
      (fun f' => by rw [hfidx]; split; exact wf_erase _ (h.wfI _) _; exact h.wfI _)
      hsubidx
      (fun f' k' hk' => by
        by_cases hne : k' = kX
        · right; rw [hkX]; exact ⟨hne, hemp⟩
        · left; exact hkeep f' k' hne hk')
      (by rw [hkX]; exact hcnt fin hfc)
      (fun f' => by
        rw [hfidx]
        rcases hfc with e | ⟨hr, e⟩
        · rw [e, h2c, h.cih]
          by_cases hf : f' = f
          · subst hf
            have := sumW_erase wSeed (idx s f') kX
            rw [wOld_wSeed, hk, hseed] at this
            have hr : r = false := by
              cases r
              · rfl
              · exfalso
                rw [← hfin] at e
                simp only [if_true] at e
                have := congrArg (fun c => getC c f' .ih) e
                simp only [getC_addC, h3c] at this
                simp at this
                omega
            subst hr
            simp [roleKind] at this ⊢
            omega
          · have : ¬ f = f' := fun e => hf e.symm
            simp [hf, this]
        · subst hr
          rw [e, getC_addC, h2c, h.cih]
          by_cases hf : f' = f
          · subst hf
            have := sumW_erase wSeed (idx s f') kX
            rw [wOld_wSeed, hk, hseed] at this
            simp [roleKind] at this ⊢
            omega
          · have : ¬ f = f' := fun e => hf e.symm
            simp [hf, this])
    exact ⟨key.1, key.2, hsubidx, hkeep⟩
  · have hisE : m'.isEmpty = false := by
      cases hq : m'.isEmpty
      · rfl
      · exact absurd ((isEmpty_iff_nil _).mp hq) hemp
    simp only [hisE, Bool.false_eq_true, if_false]
    have key := single_step s s2 h ih f r m' (by rw [h2h]; exact rs1.wf)
      (fun k' => by rw [hkX]; exact h2get k')
      (fun w hw => by rw [h2h, hkX]; exact rs1.sum w hw)
      hm'wf (by rw [hkX]; exact hm'sub)
      (fun f' => by rw [h2idx]; exact h.wfI _)
      (fun f' k' hk' => by rwa [h2idx] at hk')
      (fun f' k' hk' => Or.inl (by rwa [h2idx]))
      (by rw [hkX]; exact hcnt s2 (Or.inl rfl))
      (fun f' => by rw [h2c, h2idx, h.cih]; cases r <;> simp [roleKind])
    exact ⟨key.1, key.2, fun f' k' hk' => by rwa [h2idx] at hk', fun f' k' _ hk' => by rwa [h2idx]⟩


/-- the first half of the collector's work on one key (removal of the expired fields and `DECRBY`), on
its own: it needs no registration of the key, and leaves the index alone -/
theorem gcHash_step (s : RState) (h : RInv s) (f : Fam) (r : Bool) (ih : Bytes) (cutoff : Int) :
    RInv (gcHash s f (swarmKey f r ih) cutoff) ∧
    (∀ ih' f', view (gcHash s f (swarmKey f r ih) cutoff) ih' f' =
      if ih = ih' ∧ f = f' then setRole r ((hget s (swarmKey f r ih)).filter (fun e => decide (e.2 > cutoff))) (view s ih f) else view s ih' f') ∧
    (∀ f', idx (gcHash s f (swarmKey f r ih) cutoff) f' = idx s f') := by
  generalize hkX : swarmKey f r ih = kX at *
  have hmwf : WF (hget s kX) := by
    have := h.ok ih f
    rw [← hkX]
    cases r
    · exact this.2.1
    · exact this.1
  have hseed : keyIsSeeder kX = r := by rw [← hkX]; exact keyIsSeeder_swarmKey f r ih
  unfold gcHash gcHashApply gcKeyRead
  simp only [hseed]
  generalize hstale : (hget s kX).filter (fun e => decide (e.2 ≤ cutoff)) = stale
  have rs1 : HRepl s (stale.foldl (fun acc e => (hdel acc kX e.1).1) s) kX ((hget s kX).filter (fun e => decide (e.2 > cutoff))) := by
    have := fold_hdel stale s h.wfH kX
    rw [← hstale, fold_erase_filter _ hmwf, filter_fresh] at this
    rw [← hstale]; exact this
  have hlen : (stale.length : Int) = (hget s kX).length - ((hget s kX).filter (fun e => decide (e.2 > cutoff))).length := by
    have := length_filter_compl (hget s kX) (fun e => decide (e.2 ≤ cutoff))
    rw [filter_fresh, hstale] at this
    omega
  generalize stale.foldl (fun acc e => (hdel acc kX e.1).1) s = s1 at rs1
  generalize hm' : (hget s kX).filter (fun e => decide (e.2 > cutoff)) = m' at rs1 hlen
  have hm'wf : WF m' := by rw [← hm']; exact MemStore.wf_filter _ hmwf _
  have hm'sub : ∀ k, AMap.has m' k = true → AMap.has (hget s kX) k = true := by
    intro k hk'; rw [← hm'] at hk'; exact has_filter_sub _ _ _ hk'
  generalize hs2 : (if stale.length > 0 then addC s1 f (if r = true then CKind.s else CKind.l) (-(stale.length : Int)) else s1) = s2
  have h2h : s2.hashes = s1.hashes := by rw [← hs2]; split <;> rfl
  have h24 : s2.idx4 = s1.idx4 := by rw [← hs2]; split <;> rfl
  have h26 : s2.idx6 = s1.idx6 := by rw [← hs2]; split <;> rfl
  have h2c : ∀ f' k', getC s2.c f' k' = getC s.c f' k' + (if f = f' ∧ roleKind r = k' then -(stale.length : Int) else 0) := by
    intro f' k'
    rw [← hs2]
    by_cases hpos : stale.length > 0
    · simp only [hpos, if_true, getC_addC, rs1.c]; rfl
    · have : stale.length = 0 := by omega
      simp [this, rs1.c]
  have h2idx : ∀ f', idx s2 f' = idx s f' := fun f' => by rw [idx_congr h24 h26, rs1.idx]
  have h2get : ∀ k', hget s2 k' = if kX = k' then m' else hget s k' := fun k' => by rw [hget_congr h2h]; exact rs1.get k'
  have hcnt : ∀ f' r', getC s2.c f' (roleKind r') = getC s.c f' (roleKind r') +
      (if f' = f ∧ r' = r then (m'.length : Int) - (hget s kX).length else 0) := by
    intro f' r'
    rw [h2c]
    by_cases hc : f' = f ∧ r' = r
    · obtain ⟨rfl, rfl⟩ := hc; simp; omega
    · have : ¬ (f = f' ∧ roleKind r = roleKind r') := by
        intro ⟨a, b⟩; apply hc; refine ⟨a.symm, ?_⟩
        cases r <;> cases r' <;> simp [roleKind] at b ⊢
      simp [hc, this]
  have key := single_step s s2 h ih f r m' (by rw [h2h]; exact rs1.wf)
    (fun k' => by rw [hkX]; exact h2get k')
    (fun w hw => by rw [h2h, hkX]; exact rs1.sum w hw)
    hm'wf (by rw [hkX]; exact hm'sub)
    (fun f' => by rw [h2idx]; exact h.wfI _)
    (fun f' k' hk' => by rwa [h2idx] at hk')
    (fun f' k' hk' => Or.inl (by rwa [h2idx]))
    (by rw [hkX]; exact hcnt)
    (fun f' => by rw [h2c, h2idx, h.cih]; cases r <;> simp [roleKind])
  exact ⟨key.1, key.2, h2idx⟩

theorem gcKey_eq (s : RState) (f : Fam) (k : Bytes) (cutoff : Int) :
    gcKey s f k cutoff = gcIdx (gcHash s f k cutoff) f k := rfl

theorem setIdx_self (s : RState) (f : Fam) : setIdx s f (idx s f) = s := by cases f <;> rfl

/-- the second half (unregistering an empty swarm hash), on its own: the view does not change -/
theorem gcIdx_step (s : RState) (h : RInv s) (f : Fam) (r : Bool) (ih : Bytes) :
    RInv (gcIdx s f (swarmKey f r ih)) ∧ (∀ ih' f', view (gcIdx s f (swarmKey f r ih)) ih' f' = view s ih' f') := by
  by_cases hemp : hget s (swarmKey f r ih) = []
  · by_cases hreg : AMap.has (idx s f) (swarmKey f r ih) = true
    · -- registered and empty: this is the whole `gcKey` with nothing to expire
      have e : gcIdx s f (swarmKey f r ih) = gcKey s f (swarmKey f r ih) 0 := by
        rw [gcKey_eq]
        have : gcHash s f (swarmKey f r ih) 0 = s := by
          simp [gcHash, gcHashApply, gcKeyRead, hemp]
        rw [this]
      rw [e]
      obtain ⟨a, b, _, _⟩ := gcKey_step s h f r ih 0 hreg
      refine ⟨a, fun ih' f' => ?_⟩
      rw [b]
      split
      · rename_i hc
        obtain ⟨rfl, rfl⟩ := hc
        rw [hemp]
        have hro : roleOf r (view s ih f) = [] := by rw [roleOf_view]; exact hemp
        cases r
        · simp only [setRole, roleOf] at hro ⊢
          simp only [Bool.false_eq_true, if_false, List.filter_nil]
          cases hv : view s ih f with
          | mk S L => rw [hv] at hro; simp at hro; simp [hro]
        · simp only [setRole, roleOf] at hro ⊢
          simp only [if_true, List.filter_nil]
          cases hv : view s ih f with
          | mk S L => rw [hv] at hro; simp at hro; simp [hro]
      · rfl
    · -- empty and not registered: nothing changes
      have hnone : AMap.get (idx s f) (swarmKey f r ih) = none := by
        cases hg : AMap.get (idx s f) (swarmKey f r ih) with
        | none => rfl
        | some v => exact absurd (by simp [AMap.has, hg]) hreg
      have : gcIdx s f (swarmKey f r ih) = s := by
        unfold gcIdx
        have hf : AMap.has (idx s f) (swarmKey f r ih) = false := by
          cases hq : AMap.has (idx s f) (swarmKey f r ih)
          · rfl
          · exact absurd hq hreg
        simp only [hemp, List.isEmpty_nil, if_true, hf, Bool.and_false, Bool.false_eq_true, if_false,
          AMap.erase_of_not_has _ _ hnone, setIdx_self]
      rw [this]
      exact ⟨h, fun _ _ => rfl⟩
  · have : gcIdx s f (swarmKey f r ih) = s := by
      unfold gcIdx
      have : (hget s (swarmKey f r ih)).isEmpty = false := by
        cases hq : (hget s (swarmKey f r ih)).isEmpty
        · rfl
        · exact absurd ((isEmpty_iff_nil _).mp hq) hemp
      simp [this]
    rw [this]
    exact ⟨h, fun _ _ => rfl⟩


def fresh (cutoff : Int) (m : PMap) : PMap := m.filter (fun e => decide (e.2 > cutoff))

/-- the view after the collector has processed the keys `ks` -/
def viewAfter (ks : List Bytes) (cutoff : Int) (s : RState) (ih : Bytes) (f : Fam) : Swarm :=
  ⟨if swarmKey f true ih ∈ ks then fresh cutoff (view s ih f).seeders else (view s ih f).seeders,
   if swarmKey f false ih ∈ ks then fresh cutoff (view s ih f).leechers else (view s ih f).leechers⟩

theorem fold_gcKey (ks : List Bytes) (hnd : ks.Nodup) (s : RState) (h : RInv s) (f : Fam) (cutoff : Int)
    (hin : ∀ k ∈ ks, AMap.has (idx s f) k = true) :
    RInv (ks.foldl (fun acc k => gcKey acc f k cutoff) s) ∧
    ∀ ih' f', view (ks.foldl (fun acc k => gcKey acc f k cutoff) s) ih' f' = viewAfter ks cutoff s ih' f' := by
  induction ks generalizing s with
  | nil => exact ⟨h, fun _ _ => by simp [viewAfter]⟩
  | cons k rest ihr =>
    simp only [List.nodup_cons] at hnd
    simp only [List.foldl_cons]
    have hk := hin k (by simp)
    obtain ⟨r, ih, hkf⟩ := h.idxF f k hk
    subst hkf
    obtain ⟨ha, hva, _, hkeep⟩ := gcKey_step s h f r ih cutoff hk
    have hin' : ∀ k' ∈ rest, AMap.has (idx (gcKey s f (swarmKey f r ih) cutoff) f) k' = true := by
      intro k' hk'
      apply hkeep f k' (fun e => hnd.1 (e ▸ hk')) (hin k' (by simp [hk']))
    obtain ⟨h1, h2⟩ := ihr hnd.2 _ ha hin'
    refine ⟨h1, fun ih' f' => ?_⟩
    rw [h2]
    unfold viewAfter
    rw [hva]
    by_cases hc : ih = ih' ∧ f = f'
    · obtain ⟨rfl, rfl⟩ := hc
      simp only [and_self, if_true, List.mem_cons]
      cases r
      · have hne : swarmKey f true ih ≠ swarmKey f false ih := swarmKey_role_ne f ih
        simp only [setRole_false, hne, false_or, true_or, if_true, hnd.1, if_false]
        rfl
      · have hne : swarmKey f false ih ≠ swarmKey f true ih := fun e => swarmKey_role_ne f ih e.symm
        simp only [setRole_true, hne, false_or, true_or, if_true, hnd.1, if_false]
        rfl
    · have h1 : swarmKey f' true ih' ≠ swarmKey f r ih := fun e => hc ⟨(swarmKey_inj _ _ _ _ _ _ e).2.2.symm, (swarmKey_inj _ _ _ _ _ _ e).1.symm⟩
      have h2 : swarmKey f' false ih' ≠ swarmKey f r ih := fun e => hc ⟨(swarmKey_inj _ _ _ _ _ _ e).2.2.symm, (swarmKey_inj _ _ _ _ _ _ e).1.symm⟩
      simp only [hc, if_false, List.mem_cons, h1, h2, false_or]

theorem fExpire_eq (cutoff : Int) (sw : Swarm) : fExpire cutoff sw = ⟨fresh cutoff sw.seeders, fresh cutoff sw.leechers⟩ := rfl

theorem gcFam_step (s : RState) (h : RInv s) (f : Fam) (cutoff : Int) :
    RInv (gcFam s f cutoff) ∧
    ∀ ih' f', view (gcFam s f cutoff) ih' f' = if f' = f then fExpire cutoff (view s ih' f') else view s ih' f' := by
  have hnd : (keys (idx s f)).Nodup := h.wfI f
  have hin : ∀ k ∈ keys (idx s f), AMap.has (idx s f) k = true := fun k hk => (mem_keys_iff _ _).mp hk
  obtain ⟨h1, h2⟩ := fold_gcKey _ hnd s h f cutoff hin
  refine ⟨h1, fun ih' f' => ?_⟩
  show view (List.foldl _ _ _) ih' f' = _
  rw [h2]
  unfold viewAfter
  have hrole : ∀ r', (if swarmKey f' r' ih' ∈ keys (idx s f) then fresh cutoff (hget s (swarmKey f' r' ih')) else hget s (swarmKey f' r' ih'))
      = if f' = f then fresh cutoff (hget s (swarmKey f' r' ih')) else hget s (swarmKey f' r' ih') := by
    intro r'
    by_cases hf : f' = f
    · subst hf
      simp only [if_true]
      split
      · rfl
      · rename_i hnot
        by_cases he : hget s (swarmKey f' r' ih') = []
        · rw [he]; rfl
        · obtain ⟨f0, r0, ih0, hk0, hhas⟩ := h.cov _ he
          obtain ⟨e1, _, _⟩ := swarmKey_inj _ _ _ _ _ _ hk0
          subst e1
          exact absurd ((mem_keys_iff _ _).mpr hhas) hnot
    · simp only [hf, if_false]
      split
      · rename_i hmem
        obtain ⟨r0, ih0, hk0⟩ := h.idxF f _ ((mem_keys_iff _ _).mp hmem)
        exact absurd (swarmKey_inj _ _ _ _ _ _ hk0).1 hf
      · rfl
  have hS := hrole true
  have hL := hrole false
  simp only [view_seeders, view_leechers]
  rw [hS, hL]
  split
  · rw [fExpire_eq]; rfl
  · rfl

theorem gc_step (s : RState) (h : RInv s) (cutoff : Int) :
    RInv (gc s cutoff) ∧ ∀ ih f, view (gc s cutoff) ih f = fExpire cutoff (view s ih f) := by
  obtain ⟨h1, v1⟩ := gcFam_step s h .v4 cutoff
  obtain ⟨h2, v2⟩ := gcFam_step _ h1 .v6 cutoff
  refine ⟨h2, fun ih f => ?_⟩
  show view (gcFam (gcFam s .v4 cutoff) .v6 cutoff) ih f = _
  rw [v2, v1]
  cases f <;> simp

end RedisStore
