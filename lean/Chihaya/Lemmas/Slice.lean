import Chihaya.Model.Udp
/-! Slicing nested appends; used with `simp [slice_append_ge, slice_append_prefix, …lengths]`. -/
namespace Udp
open Bytes

theorem slice_append_ge (a b : Bytes) (i j : Nat) (h : a.length ≤ i) :
    slice (a ++ b) i j = slice b (i - a.length) (j - a.length) := by
  unfold slice
  have hd : List.drop i (a ++ b) = List.drop (i - a.length) b := by
    rw [List.drop_append, List.drop_of_length_le h]; simp
  rw [hd]
  congr 1
  omega

theorem slice_append_prefix (a b : Bytes) (j : Nat) (h : j = a.length) : slice (a ++ b) 0 j = a := by
  unfold slice; subst h; simp

theorem slice_exact (a : Bytes) (j : Nat) (h : j = a.length) : slice a 0 j = a := by
  unfold slice; subst h; simp

theorem slice_length (b : Bytes) (i j : Nat) (h : j ≤ b.length) : (slice b i j).length = j - i := by
  unfold slice; simp; omega

@[simp] theorem be32_length (n : Nat) : (be32 n).length = 4 := by simp [be32]
@[simp] theorem be16_length (n : Nat) : (be16 n).length = 2 := by simp [be16]
@[simp] theorem be64_length (n : Nat) : (be64 n).length = 8 := by simp [be64]

theorem toNatBE_be16 (n : Nat) : toNatBE (be16 n) = n % 2^16 := by
  unfold be16; rw [toNatBE_beN]
theorem toNatBE_be32' (n : Nat) : toNatBE (be32 n) = n % 2^32 := by
  unfold be32; rw [toNatBE_beN]
theorem toNatBE_be64 (n : Nat) : toNatBE (be64 n) = n % 2^64 := by
  unfold be64; rw [toNatBE_beN]

end Udp
