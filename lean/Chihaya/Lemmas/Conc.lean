/-! Prototype: lock-bracketed micro-step semantics is linearizable in acquire order. -/
namespace Conc

variable {S L R : Type}

abbrev MStep (S L : Type) := L → S → L × S

structure CritOp (S L R : Type) where
  shard  : Nat
  write  : Bool
  init   : L
  steps  : List (MStep S L)
  result : L → R

def runSteps : List (MStep S L) → L → S → L × S
  | [], l, s => (l, s)
  | st :: rest, l, s => runSteps rest (st l s).1 (st l s).2

def ReadOnly (o : CritOp S L R) : Prop := o.write = false → ∀ st ∈ o.steps, ∀ l s, (st l s).2 = s

theorem runSteps_readonly (steps : List (MStep S L)) (h : ∀ st ∈ steps, ∀ l s, (st l s).2 = s) (l : L) (s : S) :
    (runSteps steps l s).2 = s := by
  induction steps generalizing l with
  | nil => rfl
  | cons st rest ih =>
    simp only [runSteps]
    rw [h st List.mem_cons_self l s]
    exact ih (fun st' hst' => h st' (List.mem_cons_of_mem _ hst')) _

inductive Status (S L R : Type) where
  | idle
  | holding (o : CritOp S L R) (rest : List (MStep S L)) (l : L)

structure Thread (S L R : Type) where
  todo : List (CritOp S L R)
  st   : Status S L R
  done : List R

def upd {α : Type} (f : Nat → α) (i : Nat) (a : α) : Nat → α := fun j => if j = i then a else f j

@[simp] theorem upd_same {α} (f : Nat → α) (i : Nat) (a : α) : upd f i a i = a := by simp [upd]
theorem upd_other {α} (f : Nat → α) {i j : Nat} (a : α) (h : j ≠ i) : upd f i a j = f j := by simp [upd, h]

structure Config (S L R : Type) where
  σ       : Nat → S
  threads : Nat → Thread S L R
  log     : List (Nat × CritOp S L R)     -- ghost: operations in acquire order

/-- compatible: thread `t` may acquire `o` given everybody else's status -/
def CanAcquire (c : Config S L R) (t : Nat) (o : CritOp S L R) : Prop :=
  ∀ u, u ≠ t → ∀ o' rest l, (c.threads u).st = .holding o' rest l → o'.shard = o.shard →
    o'.write = false ∧ o.write = false

inductive Step : Config S L R → Config S L R → Prop where
  | acq (c : Config S L R) (t : Nat) (o : CritOp S L R) (todo' : List (CritOp S L R))
      (hidle : (c.threads t).st = .idle) (htodo : (c.threads t).todo = o :: todo')
      (hcan : CanAcquire c t o) :
      Step c { σ := c.σ,
               threads := upd c.threads t { todo := todo', st := .holding o o.steps o.init, done := (c.threads t).done },
               log := c.log ++ [(t, o)] }
  | step (c : Config S L R) (t : Nat) (o : CritOp S L R) (st : MStep S L) (rest : List (MStep S L)) (l : L)
      (hh : (c.threads t).st = .holding o (st :: rest) l) :
      Step c { σ := upd c.σ o.shard (st l (c.σ o.shard)).2,
               threads := upd c.threads t { (c.threads t) with st := .holding o rest (st l (c.σ o.shard)).1 },
               log := c.log }
  | rel (c : Config S L R) (t : Nat) (o : CritOp S L R) (l : L)
      (hh : (c.threads t).st = .holding o [] l) :
      Step c { σ := c.σ,
               threads := upd c.threads t { (c.threads t) with st := .idle, done := (c.threads t).done ++ [o.result l] },
               log := c.log }

inductive Reach (c₀ : Config S L R) : Config S L R → Prop where
  | refl : Reach c₀ c₀
  | tail {c c'} : Reach c₀ c → Step c c' → Reach c₀ c'

/-- atomic replay of a log -/
def replay (σ : Nat → S) (res : Nat → List R) : List (Nat × CritOp S L R) → (Nat → S) × (Nat → List R)
  | [] => (σ, res)
  | (t, o) :: rest =>
    let r := runSteps o.steps o.init (σ o.shard)
    replay (upd σ o.shard r.2) (upd res t (res t ++ [o.result r.1])) rest

theorem replay_append (σ : Nat → S) (res : Nat → List R) (l₁ l₂ : List (Nat × CritOp S L R)) :
    replay σ res (l₁ ++ l₂) = replay (replay σ res l₁).1 (replay σ res l₁).2 l₂ := by
  induction l₁ generalizing σ res with
  | nil => rfl
  | cons a l₁ ih => obtain ⟨t, o⟩ := a; simp [replay, ih]

def Init (σ₀ : Nat → S) (progs : Nat → List (CritOp S L R)) : Config S L R :=
  { σ := σ₀, threads := fun t => { todo := progs t, st := .idle, done := [] }, log := [] }

/-- every operation still to run or running is read-only if it is a reader -/
def AllRO (c : Config S L R) : Prop :=
  (∀ t o, o ∈ (c.threads t).todo → ReadOnly o) ∧
  (∀ t o rest l, (c.threads t).st = .holding o rest l → ReadOnly o ∧ ∃ pre, o.steps = pre ++ rest)

def pending (σ : Nat → S) : Status S L R → List R
  | .idle => []
  | .holding o rest l => [o.result (runSteps rest l (σ o.shard)).1]

@[simp] theorem pending_idle (σ : Nat → S) : pending σ (Status.idle : Status S L R) = [] := rfl
@[simp] theorem pending_holding (σ : Nat → S) (o : CritOp S L R) rest l :
    pending σ (.holding o rest l) = [o.result (runSteps rest l (σ o.shard)).1] := rfl

abbrev absS (σ₀ : Nat → S) (c : Config S L R) : Nat → S := (replay σ₀ (fun _ => []) c.log).1
abbrev absR (σ₀ : Nat → S) (c : Config S L R) : Nat → List R := (replay σ₀ (fun _ => []) c.log).2

structure Inv (σ₀ : Nat → S) (c : Config S L R) : Prop where
  ro : AllRO c
  mutex : ∀ t u o o' rest rest' l l', t ≠ u →
      (c.threads t).st = .holding o rest l → (c.threads u).st = .holding o' rest' l' →
      o.shard = o'.shard → o.write = false ∧ o'.write = false
  wr : ∀ t o rest l, (c.threads t).st = .holding o rest l → o.write = true →
      absS σ₀ c o.shard = (runSteps rest l (c.σ o.shard)).2
  rd : ∀ i, (∀ t o rest l, (c.threads t).st = .holding o rest l → o.shard = i → o.write = false) →
      absS σ₀ c i = c.σ i
  res : ∀ t, absR σ₀ c t = (c.threads t).done ++ pending c.σ (c.threads t).st


theorem inv_init (σ₀ : Nat → S) (progs : Nat → List (CritOp S L R))
    (hro : ∀ t o, o ∈ progs t → ReadOnly o) : Inv σ₀ (Init σ₀ progs) := by
  refine ⟨⟨fun t o h => hro t o h, ?_⟩, ?_, ?_, ?_, ?_⟩ <;> simp [Init, absS, absR, replay]

theorem replay_snoc (σ : Nat → S) (res : Nat → List R) (lg : List (Nat × CritOp S L R)) (t : Nat) (o : CritOp S L R) :
    replay σ res (lg ++ [(t, o)]) =
      (upd (replay σ res lg).1 o.shard (runSteps o.steps o.init ((replay σ res lg).1 o.shard)).2,
       upd (replay σ res lg).2 t ((replay σ res lg).2 t ++
          [o.result (runSteps o.steps o.init ((replay σ res lg).1 o.shard)).1])) := by
  rw [replay_append]; simp [replay]

theorem inv_acq {σ₀ : Nat → S} {c c' : Config S L R} (h : Inv σ₀ c) (t : Nat) (o : CritOp S L R)
    (todo' : List (CritOp S L R)) (hidle : (c.threads t).st = .idle) (htodo : (c.threads t).todo = o :: todo')
    (hcan : CanAcquire c t o)
    (e1 : c'.σ = c.σ)
    (e2 : c'.threads = upd c.threads t { todo := todo', st := .holding o o.steps o.init, done := (c.threads t).done })
    (e3 : c'.log = c.log ++ [(t, o)]) : Inv σ₀ c' := by
  have hσ : absS σ₀ c o.shard = c.σ o.shard := by
    apply h.rd
    intro u o' rest l hu hs
    have hut : u ≠ t := by intro e; subst e; rw [hidle] at hu; cases hu
    exact (hcan u hut o' rest l hu hs).1
  have hROo : ReadOnly o := h.ro.1 t o (by rw [htodo]; exact List.mem_cons_self)
  have hA : absS σ₀ c' = upd (absS σ₀ c) o.shard (runSteps o.steps o.init (c.σ o.shard)).2 := by
    simp only [absS, e3, replay_snoc]; rw [← hσ]
  have hR : absR σ₀ c' = upd (absR σ₀ c) t (absR σ₀ c t ++ [o.result (runSteps o.steps o.init (c.σ o.shard)).1]) := by
    simp only [absR, e3, replay_snoc]; rw [← hσ]
  refine ⟨⟨?_, ?_⟩, ?_, ?_, ?_, ?_⟩
  · intro u o' ho'
    rw [e2] at ho'
    by_cases hu : u = t
    · subst hu; simp at ho'; exact h.ro.1 u o' (by rw [htodo]; exact List.mem_cons_of_mem _ ho')
    · rw [upd_other _ _ hu] at ho'; exact h.ro.1 u o' ho'
  · intro u o' rest l hu
    rw [e2] at hu
    by_cases hut : u = t
    · subst hut; simp at hu; obtain ⟨rfl, rfl, rfl⟩ := hu; exact ⟨hROo, [], rfl⟩
    · rw [upd_other _ _ hut] at hu; exact h.ro.2 u o' rest l hu
  · intro a b oa ob ra rb la lb hab ha hb hs
    rw [e2] at ha hb
    by_cases hat : a = t
    · subst hat
      have hbt : b ≠ a := fun e => hab e.symm
      simp at ha; obtain ⟨rfl, rfl, rfl⟩ := ha
      rw [upd_other _ _ hbt] at hb
      have := hcan b hbt ob rb lb hb hs.symm
      exact ⟨this.2, this.1⟩
    · rw [upd_other _ _ hat] at ha
      by_cases hbt : b = t
      · subst hbt; simp at hb; obtain ⟨rfl, rfl, rfl⟩ := hb
        exact hcan a hat oa ra la ha hs
      · rw [upd_other _ _ hbt] at hb; exact h.mutex a b oa ob ra rb la lb hab ha hb hs
  · intro a oa ra la ha hw
    rw [hA, e1]; rw [e2] at ha
    by_cases hat : a = t
    · subst hat; simp at ha; obtain ⟨rfl, rfl, rfl⟩ := ha; simp
    · rw [upd_other _ _ hat] at ha
      have hne : oa.shard ≠ o.shard := by
        intro e
        have := (hcan a hat oa ra la ha e).1
        rw [hw] at this; cases this
      rw [upd_other _ _ hne]; exact h.wr a oa ra la ha hw
  · intro j hj
    rw [hA, e1]
    by_cases hji : j = o.shard
    · subst hji
      have how : o.write = false := hj t o o.steps o.init (by rw [e2]; simp) rfl
      simp
      exact runSteps_readonly _ (hROo how) _ _
    · rw [upd_other _ _ hji]
      apply h.rd
      intro u o' rest l hu hs
      have hut : u ≠ t := by intro e; subst e; rw [hidle] at hu; cases hu
      exact hj u o' rest l (by rw [e2, upd_other _ _ hut]; exact hu) hs
  · intro a
    rw [hR, e1, e2]
    by_cases hat : a = t
    · subst hat; simp; rw [h.res a, hidle]; simp
    · rw [upd_other _ _ hat, upd_other _ _ hat]; exact h.res a


theorem inv_mstep {σ₀ : Nat → S} {c c' : Config S L R} (h : Inv σ₀ c) (t : Nat) (o : CritOp S L R)
    (st : MStep S L) (rest : List (MStep S L)) (l : L)
    (hh : (c.threads t).st = .holding o (st :: rest) l)
    (e1 : c'.σ = upd c.σ o.shard (st l (c.σ o.shard)).2)
    (e2 : c'.threads = upd c.threads t { (c.threads t) with st := .holding o rest (st l (c.σ o.shard)).1 })
    (e3 : c'.log = c.log) : Inv σ₀ c' := by
  have hA : absS σ₀ c' = absS σ₀ c := by simp only [absS, e3]
  have hR : absR σ₀ c' = absR σ₀ c := by simp only [absR, e3]
  obtain ⟨hROo, pre, hpre⟩ := h.ro.2 t o (st :: rest) l hh
  -- a reader's micro-step leaves the shard unchanged
  have hrd : o.write = false → (st l (c.σ o.shard)).2 = c.σ o.shard := fun how =>
    hROo how st (by rw [hpre]; simp) _ _
  -- status of another thread is unchanged
  have hoth : ∀ u, u ≠ t → c'.threads u = c.threads u := fun u hu => by rw [e2, upd_other _ _ hu]
  have hself : (c'.threads t).st = .holding o rest (st l (c.σ o.shard)).1 := by rw [e2]; simp
  refine ⟨⟨?_, ?_⟩, ?_, ?_, ?_, ?_⟩
  · intro u o' ho'
    by_cases hu : u = t
    · subst hu; rw [e2] at ho'; simp at ho'; exact h.ro.1 u o' ho'
    · rw [hoth u hu] at ho'; exact h.ro.1 u o' ho'
  · intro u o' rest' l' hu
    by_cases hut : u = t
    · subst hut; rw [hself] at hu; cases hu
      exact ⟨hROo, pre ++ [st], by rw [hpre]; simp⟩
    · rw [hoth u hut] at hu; exact h.ro.2 u o' rest' l' hu
  · intro a b oa ob ra rb la lb hab ha hb hs
    by_cases hat : a = t
    · subst hat
      have hbt : b ≠ a := fun e => hab e.symm
      rw [hself] at ha; cases ha
      rw [hoth b hbt] at hb
      exact h.mutex a b o ob _ rb _ lb hab hh hb hs
    · rw [hoth a hat] at ha
      by_cases hbt : b = t
      · subst hbt; rw [hself] at hb; cases hb
        exact h.mutex a b oa o ra _ la _ hab ha hh hs
      · rw [hoth b hbt] at hb; exact h.mutex a b oa ob ra rb la lb hab ha hb hs
  · intro a oa ra la ha hw
    rw [hA, e1]
    by_cases hat : a = t
    · subst hat; rw [hself] at ha; cases ha
      simp; exact h.wr a o (st :: rest) l hh hw
    · rw [hoth a hat] at ha
      have hne : oa.shard ≠ o.shard := by
        intro e
        have := (h.mutex a t oa o ra _ la _ hat ha hh e).1
        rw [hw] at this; cases this
      rw [upd_other _ _ hne]; exact h.wr a oa ra la ha hw
  · intro j hj
    rw [hA, e1]
    have hold : ∀ u o' rest' l', (c.threads u).st = .holding o' rest' l' → o'.shard = j → o'.write = false := by
      intro u o' rest' l' hu hs
      by_cases hut : u = t
      · subst hut; rw [hh] at hu; cases hu; exact hj u o _ _ hself hs
      · exact hj u o' rest' l' (by rw [hoth u hut]; exact hu) hs
    by_cases hji : j = o.shard
    · subst hji
      have how : o.write = false := hj t o _ _ hself rfl
      simp; rw [hrd how]; exact h.rd _ hold
    · rw [upd_other _ _ hji]; exact h.rd j hold
  · intro a
    rw [hR, e1]
    by_cases hat : a = t
    · subst hat; rw [hself]; rw [e2]; simp
      rw [h.res a, hh]; simp [runSteps]
    · rw [hoth a hat, h.res a]
      congr 1
      cases hst : (c.threads a).st with
      | idle => rfl
      | holding oa ra la =>
        simp only [pending_holding]
        by_cases hs : oa.shard = o.shard
        · have := (h.mutex a t oa o ra _ la _ hat hst hh hs).2
          rw [hs]; simp; rw [hrd this]
        · rw [upd_other _ _ hs]

theorem inv_rel {σ₀ : Nat → S} {c c' : Config S L R} (h : Inv σ₀ c) (t : Nat) (o : CritOp S L R) (l : L)
    (hh : (c.threads t).st = .holding o [] l)
    (e1 : c'.σ = c.σ)
    (e2 : c'.threads = upd c.threads t { (c.threads t) with st := .idle, done := (c.threads t).done ++ [o.result l] })
    (e3 : c'.log = c.log) : Inv σ₀ c' := by
  have hA : absS σ₀ c' = absS σ₀ c := by simp only [absS, e3]
  have hR : absR σ₀ c' = absR σ₀ c := by simp only [absR, e3]
  have hoth : ∀ u, u ≠ t → c'.threads u = c.threads u := fun u hu => by rw [e2, upd_other _ _ hu]
  have hself : (c'.threads t).st = .idle := by rw [e2]; simp
  refine ⟨⟨?_, ?_⟩, ?_, ?_, ?_, ?_⟩
  · intro u o' ho'
    by_cases hu : u = t
    · subst hu; rw [e2] at ho'; simp at ho'; exact h.ro.1 u o' ho'
    · rw [hoth u hu] at ho'; exact h.ro.1 u o' ho'
  · intro u o' rest' l' hu
    by_cases hut : u = t
    · subst hut; rw [hself] at hu; cases hu
    · rw [hoth u hut] at hu; exact h.ro.2 u o' rest' l' hu
  · intro a b oa ob ra rb la lb hab ha hb hs
    by_cases hat : a = t
    · subst hat; rw [hself] at ha; cases ha
    · by_cases hbt : b = t
      · subst hbt; rw [hself] at hb; cases hb
      · rw [hoth a hat] at ha; rw [hoth b hbt] at hb
        exact h.mutex a b oa ob ra rb la lb hab ha hb hs
  · intro a oa ra la ha hw
    rw [hA, e1]
    by_cases hat : a = t
    · subst hat; rw [hself] at ha; cases ha
    · rw [hoth a hat] at ha; exact h.wr a oa ra la ha hw
  · intro j hj
    rw [hA, e1]
    by_cases hw : o.write = true ∧ o.shard = j
    · obtain ⟨hw, rfl⟩ := hw
      have := h.wr t o [] l hh hw
      simpa [runSteps] using this
    · apply h.rd
      intro u o' rest' l' hu hs
      by_cases hut : u = t
      · subst hut; rw [hh] at hu; cases hu
        cases hwo : o.write with
        | false => rfl
        | true => exact absurd ⟨hwo, hs⟩ hw
      · exact hj u o' rest' l' (by rw [hoth u hut]; exact hu) hs
  · intro a
    rw [hR, e1]
    by_cases hat : a = t
    · subst hat; rw [hself, e2]; simp
      rw [h.res a, hh]; simp [runSteps]
    · rw [hoth a hat]; exact h.res a

theorem inv_step' {σ₀ : Nat → S} {c c' : Config S L R} (h : Inv σ₀ c) (hs : Step c c') : Inv σ₀ c' := by
  cases hs with
  | acq t o todo' hidle htodo hcan => exact inv_acq h t o todo' hidle htodo hcan rfl rfl rfl
  | step t o st rest l hh => exact inv_mstep h t o st rest l hh rfl rfl rfl
  | rel t o l hh => exact inv_rel h t o l hh rfl rfl rfl

theorem inv_reach {σ₀ : Nat → S} {progs : Nat → List (CritOp S L R)}
    (hro : ∀ t o, o ∈ progs t → ReadOnly o) {c : Config S L R}
    (hr : Reach (Init σ₀ progs) c) : Inv σ₀ c := by
  induction hr with
  | refl => exact inv_init σ₀ progs hro
  | tail _ hs ih => exact inv_step' ih hs

/-- Linearizability: in any quiescent reachable configuration the shared state and every thread's
results are those of executing the operations atomically, one at a time, in acquire order. -/
theorem linearizable {σ₀ : Nat → S} {progs : Nat → List (CritOp S L R)}
    (hro : ∀ t o, o ∈ progs t → ReadOnly o) {c : Config S L R}
    (hr : Reach (Init σ₀ progs) c) (hq : ∀ t, (c.threads t).st = .idle) :
    replay σ₀ (fun _ => []) c.log = (c.σ, fun t => (c.threads t).done) := by
  have h := inv_reach hro hr
  have h1 : absS σ₀ c = c.σ := funext fun i => h.rd i (fun t o rest l ht _ => by rw [hq t] at ht; cases ht)
  have h2 : absR σ₀ c = fun t => (c.threads t).done := funext fun t => by rw [h.res t, hq t]; simp
  exact Prod.ext h1 h2

end Conc
