import Chihaya.Model.HttpParse

namespace Sanitize

theorem to4_length (ip ip4 : Bytes) (h : to4 ip = some ip4) : ip4.length = 4 := by
  unfold to4 at h
  split at h
  · cases h; assumption
  · split at h
    · cases h; rename_i h16; simp [h16.1]
    · cases h

theorem capNumWant_spec (p : Bool) (nw mx df : Nat) :
    (p = false → capNumWant p nw mx df = df) ∧ (p = true → capNumWant p nw mx df = min nw mx) := by
  unfold capNumWant
  cases p <;> simp
  split <;> omega

/-- post-condition of `SanitizeAnnounce` -/
theorem announce_post (r r' : AnnReq) (mx df : Nat) (h : announce r mx df = .ok r') :
    r'.peer.port = r.peer.port ∧ r'.peer.port ≠ 0 ∧
    (r.numWantProvided = false → r'.numWant = df) ∧
    (r.numWantProvided = true → r'.numWant = min r.numWant mx) ∧
    ((r'.peer.fam = .v4 ∧ r'.peer.ip.length = 4) ∨ (r'.peer.fam = .v6 ∧ r'.peer.ip.length = 16 ∧ to4 r'.peer.ip = none)) ∧
    r'.infoHash = r.infoHash ∧ r'.peer.id = r.peer.id ∧ r'.left = r.left ∧ r'.downloaded = r.downloaded ∧
    r'.uploaded = r.uploaded ∧ r'.event = r.event ∧ r'.compact = r.compact ∧ r'.numWantProvided = r.numWantProvided ∧
    r'.ipProvided = r.ipProvided ∧ r'.eventProvided = r.eventProvided := by
  have hnw := capNumWant_spec r.numWantProvided r.numWant mx df
  unfold announce at h
  by_cases hport : r.peer.port = 0
  · simp [hport] at h
  · simp only [hport, if_false] at h
    cases hto : to4 r.peer.ip with
    | some ip4 =>
      simp only [hto] at h
      cases h
      have := to4_length _ _ hto
      simp_all
    | none =>
      simp only [hto] at h
      by_cases h16 : r.peer.ip.length = 16
      · simp only [h16, if_true] at h
        cases h
        simp_all
      · simp [h16] at h

end Sanitize

namespace Query

/-- `get` only looks at entries with that key -/
theorem get_append_other (ps qs : List (Bytes × Bytes)) (k : Bytes) (h : ∀ p ∈ qs, p.1 ≠ k) :
    get (ps ++ qs) k = get ps k := by
  unfold get
  rw [List.reverse_append, List.find?_append]
  have : qs.reverse.find? (fun p => decide (p.1 = k)) = none := by
    rw [List.find?_eq_none]
    intro p hp
    have := h p (List.mem_reverse.mp hp)
    simpa using this
  simp [this]

theorem get_cons_other (p : Bytes × Bytes) (ps : List (Bytes × Bytes)) (k : Bytes) (h : p.1 ≠ k) :
    get (p :: ps) k = get ps k := by
  unfold get
  rw [List.reverse_cons, List.find?_append]
  cases hf : ps.reverse.find? (fun p => decide (p.1 = k)) with
  | some x => simp
  | none => simp [h]

/-- the last value wins -/
theorem get_append_last (ps : List (Bytes × Bytes)) (k v : Bytes) : get (ps ++ [(k, v)]) k = some v := by
  unfold get
  simp

end Query

namespace Query

theorem parseSegment_ihs (lower : Bytes → Bytes) (seg : Bytes) (acc acc' : List (Bytes × Bytes) × List Bytes)
    (h : parseSegment lower seg acc = .ok acc') (hacc : ∀ x ∈ acc.2, x.length = 20) : ∀ x ∈ acc'.2, x.length = 20 := by
  unfold parseSegment at h
  split at h
  · cases h; exact hacc
  · simp only at h
    split at h
    · cases h
    · split at h
      · cases h
      · split at h
        · split at h
          · cases h
          · cases h
            rename_i hlen
            intro x hx
            simp only [List.mem_append, List.mem_singleton] at hx
            rcases hx with hx | hx
            · exact hacc x hx
            · subst hx; simpa using hlen
        · cases h; exact hacc

theorem parseSegments_ihs (lower : Bytes → Bytes) (segs : List Bytes) (acc acc' : List (Bytes × Bytes) × List Bytes)
    (h : parseSegments lower segs acc = .ok acc') (hacc : ∀ x ∈ acc.2, x.length = 20) : ∀ x ∈ acc'.2, x.length = 20 := by
  induction segs generalizing acc with
  | nil => simp [parseSegments] at h; subst h; exact hacc
  | cons s ss ih =>
    simp only [parseSegments] at h
    cases hs : parseSegment lower s acc with
    | error e => simp [hs] at h
    | ok a =>
      simp only [hs] at h
      exact ih a h (parseSegment_ihs lower s acc a hs hacc)

/-- every collected infohash is 20 bytes long -/
theorem parseURLData_ihs (lower : Bytes → Bytes) (u : Bytes) (qp : Parsed) (h : parseURLData lower u = .ok qp) :
    ∀ x ∈ qp.infoHashes, x.length = 20 := by
  unfold parseURLData at h
  simp only at h
  split at h
  · cases h
  · rename_i ps ihs hseg
    cases h
    exact parseSegments_ihs lower _ ([], []) (ps, ihs) hseg (by simp)

theorem parseUint_lt (bits : Nat) (s : Bytes) (n : Nat) (h : Decimal.parseUint bits s = some n) : n < 2 ^ bits := by
  unfold Decimal.parseUint at h
  cases hn : Decimal.parseNat s with
  | none => simp [hn] at h
  | some m =>
    simp only [hn, Option.bind_some] at h
    split at h
    · cases h; assumption
    · cases h

theorem uint_ok_lt (ps : List (Bytes × Bytes)) (k : Bytes) (bits n : Nat) (h : uint ps k bits = .ok n) : n < 2 ^ bits := by
  unfold uint at h
  split at h
  · cases h
  · split at h
    · rename_i hp
      cases h
      exact parseUint_lt _ _ _ hp
    · cases h

end Query

namespace HttpParse
open Query

theorem reqUint_ok (ps : List (Bytes × Bytes)) (k : Bytes) (bits : Nat) (name : String) (n : Nat)
    (h : reqUint ps k bits name = .ok n) : uint ps k bits = .ok n ∧ n < 2 ^ bits := by
  unfold reqUint at h
  split at h
  · cases h; rename_i hu; exact ⟨hu, uint_ok_lt _ _ _ _ hu⟩
  · cases h

theorem peerIDOf_ok (ps : List (Bytes × Bytes)) (pid : Bytes) (h : peerIDOf ps = .ok pid) :
    get ps kPeerID = some pid ∧ pid.length = 20 := by
  unfold peerIDOf at h
  split at h
  · cases h
  · split at h
    · cases h
    · cases h; rename_i hg hl; exact ⟨hg, by simpa using hl⟩

theorem singleInfoHash_ok (l : List Bytes) (ih : Bytes) (h : singleInfoHash l = .ok ih) : l = [ih] := by
  unfold singleInfoHash at h
  split at h
  · cases h
  · cases h; rfl
  · cases h

theorem numWantOf_ok (ps : List (Bytes × Bytes)) (nw : Bool × Nat) (h : numWantOf ps = .ok nw) :
    (nw.1 = true → uint ps kNumwant 32 = .ok nw.2 ∧ nw.2 < 2^32) ∧ (nw.1 = false → uint ps kNumwant 32 = .notFound ∧ nw.2 = 0) := by
  unfold numWantOf at h
  split at h
  · cases h; rename_i hu; exact ⟨fun _ => ⟨hu, uint_ok_lt _ _ _ _ hu⟩, fun hh => by simp at hh⟩
  · cases h; rename_i hu; exact ⟨fun hh => by simp at hh, fun _ => ⟨hu, rfl⟩⟩
  · cases h

/-- everything a successful `ParseAnnounce` went through -/
theorem parseAnnounce_inv (env : Env) (uri : Bytes) (opts : ParseOpts) (r : AnnReq)
    (h : parseAnnounce env uri opts = .ok r) :
    ∃ qp ev ih pid left dl ul nw port ip,
      parseURLData env.lower uri = .ok qp ∧ eventOf qp.params = .ok ev ∧ singleInfoHash qp.infoHashes = .ok ih ∧
      peerIDOf qp.params = .ok pid ∧ reqUint qp.params kLeft 64 "left" = .ok left ∧
      reqUint qp.params kDownloaded 64 "downloaded" = .ok dl ∧ reqUint qp.params kUploaded 64 "uploaded" = .ok ul ∧
      numWantOf qp.params = .ok nw ∧ reqUint qp.params kPort 16 "port" = .ok port ∧ ipOf env qp.params opts = .ok ip ∧
      Sanitize.announce
        { event := ev, eventProvided := (get qp.params kEvent).isSome, infoHash := ih, compact := compactOf qp.params,
          numWantProvided := nw.1, ipProvided := ip.2, numWant := nw.2, left := left,
          downloaded := dl, uploaded := ul,
          peer := { id := pid, port := port, ip := ip.1, fam := .v4 }, params := qp.params }
        opts.maxNumWant opts.defaultNumWant = .ok r := by
  unfold parseAnnounce at h
  obtain ⟨qp, hqp, h⟩ := Except.bind_ok h
  obtain ⟨ev, hev, h⟩ := Except.bind_ok h
  obtain ⟨ih, hih, h⟩ := Except.bind_ok h
  obtain ⟨pid, hpid, h⟩ := Except.bind_ok h
  obtain ⟨left, hleft, h⟩ := Except.bind_ok h
  obtain ⟨dl, hdl, h⟩ := Except.bind_ok h
  obtain ⟨ul, hul, h⟩ := Except.bind_ok h
  obtain ⟨nw, hnw, h⟩ := Except.bind_ok h
  obtain ⟨port, hport, h⟩ := Except.bind_ok h
  obtain ⟨ip, hip, h⟩ := Except.bind_ok h
  exact ⟨qp, ev, ih, pid, left, dl, ul, nw, port, ip, hqp, hev, hih, hpid, hleft, hdl, hul, hnw, hport, hip, h⟩

/-- and conversely: if every step succeeds, that is the result -/
theorem parseAnnounce_of (env : Env) (uri : Bytes) (opts : ParseOpts) (qp : Parsed) (ev : Event) (ih pid : Bytes)
    (left dl ul : Nat) (nw : Bool × Nat) (port : Nat) (ip : Bytes × Bool)
    (h1 : parseURLData env.lower uri = .ok qp) (h2 : eventOf qp.params = .ok ev) (h3 : singleInfoHash qp.infoHashes = .ok ih)
    (h4 : peerIDOf qp.params = .ok pid) (h5 : reqUint qp.params kLeft 64 "left" = .ok left)
    (h6 : reqUint qp.params kDownloaded 64 "downloaded" = .ok dl) (h7 : reqUint qp.params kUploaded 64 "uploaded" = .ok ul)
    (h8 : numWantOf qp.params = .ok nw) (h9 : reqUint qp.params kPort 16 "port" = .ok port) (h10 : ipOf env qp.params opts = .ok ip) :
    parseAnnounce env uri opts =
      Sanitize.announce
        { event := ev, eventProvided := (get qp.params kEvent).isSome, infoHash := ih, compact := compactOf qp.params,
          numWantProvided := nw.1, ipProvided := ip.2, numWant := nw.2, left := left,
          downloaded := dl, uploaded := ul,
          peer := { id := pid, port := port, ip := ip.1, fam := .v4 }, params := qp.params }
        opts.maxNumWant opts.defaultNumWant := by
  unfold parseAnnounce
  simp only [h1, h2, h3, h4, h5, h6, h7, h8, h9, h10, bind, Except.bind]

end HttpParse
