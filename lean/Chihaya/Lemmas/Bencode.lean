import Chihaya.Model.Bencode

namespace Bencode
open Decimal

theorem splitAtByte_append (t : UInt8) (p r : Bytes) (h : t ∉ p) :
    splitAtByte t (p ++ t :: r) = some (p, r) := by
  induction p with
  | nil => simp [splitAtByte]
  | cons c cs ih =>
    have hc : c ≠ t := fun e => h (by simp [e])
    have hcs : t ∉ cs := fun e => h (by simp [e])
    simp [splitAtByte, hc, ih hcs]

theorem not_digit_colon : isDigit cColon = false := by decide
theorem not_digit_e : isDigit cE = false := by decide

theorem term_not_in_showInt (t : UInt8) (ht : isDigit t = false) (ht' : t ≠ 45) (i : Int) : t ∉ showInt i := by
  intro hm
  rcases showInt_chars i t hm with h | h
  · rw [ht] at h; exact Bool.noConfusion h
  · exact ht' h

theorem showInt_ne_nil (i : Int) : showInt i ≠ [] := by
  unfold showInt; split
  · simp
  · exact natDigits_ne_nil _

theorem readTerminatedInt_showInt (t : UInt8) (ht : isDigit t = false) (ht' : t ≠ 45)
    (i : Int) (hi : Int64 i) (r : Bytes) :
    readTerminatedInt t (showInt i ++ t :: r) = .ok (i, r) := by
  unfold readTerminatedInt
  rw [splitAtByte_append t _ r (term_not_in_showInt t ht ht' i)]
  have hlen := showInt_length_le i hi
  have hne := showInt_ne_nil i
  have hb : ¬ bufSize ≤ (showInt i).length := by unfold bufSize; omega
  have he : (showInt i).isEmpty = false := by
    cases hs : showInt i with
    | nil => exact absurd hs hne
    | cons c cs => rfl
  simp only [hb, he, if_false, parseInt64_showInt i hi, Bool.false_eq_true]

-- well-formed values: ints fit int64, dictionary keys are distinct
mutual
def WF : BVal → Prop
  | .int i => Int64 i
  | .str _ => True
  | .list l => WFList l
  | .dict d => WFDict d ∧ (d.map (·.1)).Nodup
def WFList : List BVal → Prop
  | [] => True
  | v :: vs => WF v ∧ WFList vs
def WFDict : List (Bytes × BVal) → Prop
  | [] => True
  | (_, v) :: r => WF v ∧ WFDict r
end

-- recursion depth the decoder needs
mutual
def cost : BVal → Nat
  | .int _ => 1
  | .str _ => 1
  | .list l => 1 + costList l
  | .dict d => 1 + costDict d
def costList : List BVal → Nat
  | [] => 1
  | v :: vs => 1 + max (cost v) (costList vs)
def costDict : List (Bytes × BVal) → Nat
  | [] => 1
  | (_, v) :: r => 1 + max 1 (max (cost v) (costDict r))
end

theorem insert_not_mem (k : Bytes) (v : BVal) (acc : List (Bytes × BVal)) (h : k ∉ acc.map (·.1)) :
    insert k v acc = acc ++ [(k, v)] := by
  induction acc with
  | nil => rfl
  | cons p ps ih =>
    obtain ⟨k', v'⟩ := p
    simp only [List.map_cons, List.mem_cons, not_or] at h
    have : k' ≠ k := fun e => h.1 e.symm
    simp [insert, this, ih h.2]

theorem foldl_insert_nodup (d acc : List (Bytes × BVal))
    (h : ((acc ++ d).map (·.1)).Nodup) :
    d.foldl (fun acc p => insert p.1 p.2 acc) acc = acc ++ d := by
  induction d generalizing acc with
  | nil => simp
  | cons p ps ih =>
    obtain ⟨k, v⟩ := p
    simp only [List.foldl_cons]
    have hk : k ∉ acc.map (·.1) := by
      simp only [List.map_append, List.map_cons] at h
      have := (List.nodup_append.mp h).2.2
      intro hm
      exact this k hm k (by simp) rfl
    rw [insert_not_mem k v acc hk]
    have : ((acc ++ [(k, v)] ++ ps).map (·.1)).Nodup := by
      simpa [List.append_assoc] using h
    rw [ih _ this]
    simp

theorem normalize_nodup (d : List (Bytes × BVal)) (h : (d.map (·.1)).Nodup) : normalize d = d := by
  unfold normalize
  simpa using foldl_insert_nodup d [] (by simpa using h)

theorem natDigits_head (n : Nat) : ∃ c cs, natDigits n = c :: cs ∧ isDigit c = true :=
  natDigits_head_digit n

theorem digit_ne_tokens {c : UInt8} (h : isDigit c = true) : c ≠ cI ∧ c ≠ cL ∧ c ≠ cD ∧ c ≠ cE := by
  simp only [isDigit, Bool.and_eq_true, decide_eq_true_eq] at h
  refine ⟨?_, ?_, ?_, ?_⟩ <;> (intro e; subst e; revert h; decide)

theorem showNat_eq_showInt (n : Nat) : showNat n = showInt (n : Int) := by
  unfold showNat showInt
  have : ¬ ((n : Int) < 0) := by omega
  simp [this]

/-- decoding an encoded string, at any positive fuel -/
theorem dec_encStr (s : Bytes) (hs : s.length < 2^63) (f : Nat) (rest : Bytes) :
    dec (f+1) (encStr s ++ rest) = .ok (.str s, rest) := by
  unfold encStr
  obtain ⟨c, cs, hcs, hd⟩ := natDigits_head s.length
  have htok := digit_ne_tokens hd
  have hshow : showNat s.length = c :: cs := hcs
  rw [hshow]
  simp only [List.cons_append, dec, htok.1, htok.2.1, htok.2.2.1, if_false]
  have hrt := readTerminatedInt_showInt cColon not_digit_colon (by decide) (s.length : Int)
    (by unfold Decimal.Int64; omega) (s ++ rest)
  rw [← showNat_eq_showInt, hshow] at hrt
  simp only [List.cons_append, List.append_assoc] at hrt ⊢
  rw [hrt]
  have h1 : ¬ ((s.length : Int) < 0) := by omega
  have h2 : ¬ (s ++ rest).length < s.length := by simp
  simp only [h1, h2, if_false, Int.toNat_natCast, List.take_left', List.drop_left']

mutual
theorem dec_enc (v : BVal) (hv : WF v) (f : Nat) (rest : Bytes) (hf : cost v ≤ f)
    (hsz : (enc v).length < 2^63) :
    dec f (enc v ++ rest) = .ok (v, rest) := by
  match v with
  | .int i =>
    match f with
    | 0 => simp [cost] at hf
    | f+1 =>
      simp only [enc, List.cons_append, List.append_assoc, List.nil_append, dec, if_true]
      rw [readTerminatedInt_showInt cE not_digit_e (by decide) i (by simpa [WF] using hv)]
  | .str s =>
    match f with
    | 0 => simp [cost] at hf
    | f+1 =>
      simp only [enc]
      apply dec_encStr
      simp only [enc, encStr, List.length_append, List.length_cons] at hsz
      omega
  | .list l =>
    match f with
    | 0 => simp [cost] at hf
    | f+1 =>
      simp only [enc, List.cons_append, List.append_assoc, List.nil_append, dec]
      have hne : cL ≠ cI := by decide
      simp only [hne, if_false, if_true]
      have hsz' : (encList l).length < 2^63 := by
        simp only [enc, List.length_cons, List.length_append] at hsz; omega
      rw [decList_enc l (by simpa [WF] using hv) f rest (by simp only [cost] at hf; omega) hsz']
  | .dict d =>
    match f with
    | 0 => simp [cost] at hf
    | f+1 =>
      simp only [enc, List.cons_append, List.append_assoc, List.nil_append, dec]
      have hne : cD ≠ cI := by decide
      have hne' : cD ≠ cL := by decide
      simp only [hne, hne', if_false, if_true]
      have hw : WFDict d ∧ (d.map (·.1)).Nodup := by simpa [WF] using hv
      have hsz' : (encDict d).length < 2^63 := by
        simp only [enc, List.length_cons, List.length_append] at hsz; omega
      rw [decDict_enc d hw.1 f rest (by simp only [cost] at hf; omega) hsz']
      simp only [normalize_nodup d hw.2]
theorem decList_enc (l : List BVal) (hl : WFList l) (f : Nat) (rest : Bytes) (hf : costList l ≤ f)
    (hsz : (encList l).length < 2^63) :
    decList f (encList l ++ cE :: rest) = .ok (l, rest) := by
  match l with
  | [] =>
    match f with
    | 0 => simp [costList] at hf
    | f+1 => simp [encList, decList]
  | v :: vs =>
    match f with
    | 0 => simp [costList] at hf
    | f+1 =>
      simp only [costList] at hf
      have hw : WF v ∧ WFList vs := by simpa [WFList] using hl
      simp only [encList, List.length_append] at hsz
      have h1 := dec_enc v hw.1 f (encList vs ++ cE :: rest) (by omega) (by omega)
      have h2 := decList_enc vs hw.2 f rest (by omega) (by omega)
      -- the first byte of `enc v` is not 'e'
      have hhead : ∃ c cs, enc v ++ (encList vs ++ cE :: rest) = c :: cs ∧ c ≠ cE := enc_head v _
      obtain ⟨c, cs, hcs, hce⟩ := hhead
      simp only [encList, List.append_assoc]
      rw [hcs]
      simp only [decList, hce, if_false]
      rw [← hcs, h1]
      simp only [h2]
theorem decDict_enc (d : List (Bytes × BVal)) (hd : WFDict d) (f : Nat) (rest : Bytes) (hf : costDict d ≤ f)
    (hsz : (encDict d).length < 2^63) :
    decDict f (encDict d ++ cE :: rest) = .ok (d, rest) := by
  match d with
  | [] =>
    match f with
    | 0 => simp [costDict] at hf
    | f+1 => simp [encDict, decDict]
  | (k, v) :: r =>
    match f with
    | 0 => simp [costDict] at hf
    | f+1 =>
      simp only [costDict] at hf
      have hw : WF v ∧ WFDict r := by simpa [WFDict] using hd
      simp only [encDict, List.length_append] at hsz
      have hklen : k.length < 2^63 := by
        have : k.length ≤ (encStr k).length := by simp [encStr]; omega
        omega
      match f, hf with
      | 0, hf => omega
      | f+1, hf =>
        have h0 := dec_encStr k hklen f (enc v ++ (encDict r ++ cE :: rest))
        have h1 := dec_enc v hw.1 (f+1) (encDict r ++ cE :: rest) (by omega) (by omega)
        have h2 := decDict_enc r hw.2 (f+1) rest (by omega) (by omega)
        obtain ⟨c, cs, hcs, hce⟩ := encStr_head k (enc v ++ (encDict r ++ cE :: rest))
        simp only [encDict, List.append_assoc]
        rw [hcs]
        simp only [decDict, hce, if_false]
        rw [← hcs, h0]
        simp only [h1, h2]
/-- first byte of an encoding is never `e` -/
theorem enc_head (v : BVal) (rest : Bytes) : ∃ c cs, enc v ++ rest = c :: cs ∧ c ≠ cE := by
  match v with
  | .int i => exact ⟨cI, showInt i ++ [cE] ++ rest, by simp [enc], by decide⟩
  | .str s => exact encStr_head s rest
  | .list l => exact ⟨cL, encList l ++ [cE] ++ rest, by simp [enc], by decide⟩
  | .dict d => exact ⟨cD, encDict d ++ [cE] ++ rest, by simp [enc], by decide⟩
theorem encStr_head (s : Bytes) (rest : Bytes) : ∃ c cs, encStr s ++ rest = c :: cs ∧ c ≠ cE := by
  obtain ⟨c, cs, hcs, hd⟩ := natDigits_head s.length
  refine ⟨c, cs ++ cColon :: s ++ rest, ?_, (digit_ne_tokens hd).2.2.2⟩
  simp [encStr, showNat, hcs]
end

/-! ## the depth-limited decoder (D21) against the grammar decoder -/

/-- the limited decoder does what the grammar decoder does, or refuses (the nesting bound) -/
def DepthRel {α : Type} (a b : Res α) : Prop := a = b ∨ a = .error .syntax

mutual
theorem decD_rel (k f : Nat) (inp : Bytes) : DepthRel (decD k f inp) (dec f inp) := by
  match f, inp with
  | 0, _ => left; simp [decD, dec]
  | _+1, [] => left; simp [decD, dec]
  | f+1, c :: rest =>
    simp only [decD, dec]
    by_cases h1 : c = cI
    · simp only [h1, if_true]; left; rfl
    · simp only [h1, if_false]
      by_cases h2 : c = cL
      · simp only [h2, if_true]
        match k with
        | 0 => right; rfl
        | k+1 =>
          rcases decListD_rel k f rest with e | e
          · left; simp only [e]
          · right; simp only [e]
      · simp only [h2, if_false]
        by_cases h3 : c = cD
        · simp only [h3, if_true]
          match k with
          | 0 => right; rfl
          | k+1 =>
            rcases decDictD_rel k f rest with e | e
            · left; simp only [e]
            · right; simp only [e]
        · simp only [h3, if_false]; left; trivial
theorem decListD_rel (k f : Nat) (inp : Bytes) : DepthRel (decListD k f inp) (decList f inp) := by
  match f, inp with
  | 0, _ => left; simp [decListD, decList]
  | _+1, [] => left; simp [decListD, decList]
  | f+1, c :: rest =>
    simp only [decListD, decList]
    by_cases h1 : c = cE
    · simp only [h1, if_true]; left; trivial
    · simp only [h1, if_false]
      rcases decD_rel k f (c :: rest) with e | e
      · rw [e]
        cases hd : dec f (c :: rest) with
        | error er => left; rfl
        | ok vr =>
          obtain ⟨v, r⟩ := vr
          simp only
          rcases decListD_rel k f r with e2 | e2
          · left; rw [e2]
          · right; rw [e2]
      · right; rw [e]
theorem decDictD_rel (k f : Nat) (inp : Bytes) : DepthRel (decDictD k f inp) (decDict f inp) := by
  match f, inp with
  | 0, _ => left; simp [decDictD, decDict]
  | _+1, [] => left; simp [decDictD, decDict]
  | f+1, c :: rest =>
    simp only [decDictD, decDict]
    by_cases h1 : c = cE
    · simp only [h1, if_true]; left; trivial
    · simp only [h1, if_false]
      rcases decD_rel k f (c :: rest) with e | e
      · rw [e]
        cases hd : dec f (c :: rest) with
        | error er => left; rfl
        | ok vr =>
          obtain ⟨v, r⟩ := vr
          cases v with
          | str key =>
            simp only
            rcases decD_rel k f r with e2 | e2
            · rw [e2]
              cases hd2 : dec f r with
              | error er => left; rfl
              | ok vr2 =>
                obtain ⟨v2, r2⟩ := vr2
                simp only
                rcases decDictD_rel k f r2 with e3 | e3
                · left; rw [e3]
                · right; rw [e3]
            · right; rw [e2]
          | int _ => left; rfl
          | list _ => left; rfl
          | dict _ => left; rfl
      · right; rw [e]
end

theorem decD_encStr (s : Bytes) (hs : s.length < 2^63) (k f : Nat) (rest : Bytes) :
    decD k (f+1) (encStr s ++ rest) = .ok (.str s, rest) := by
  rcases decD_rel k (f+1) (encStr s ++ rest) with e | e
  · rw [e]; exact dec_encStr s hs f rest
  · -- a string never hits the nesting bound: unfold once
    exfalso
    unfold encStr at e
    obtain ⟨c, cs, hcs, hd⟩ := natDigits_head s.length
    have htok := digit_ne_tokens hd
    have hshow : showNat s.length = c :: cs := hcs
    rw [hshow] at e
    simp only [List.cons_append, decD, htok.1, htok.2.1, htok.2.2.1, if_false] at e
    have hrt := readTerminatedInt_showInt cColon not_digit_colon (by decide) (s.length : Int)
      (by unfold Decimal.Int64; omega) (s ++ rest)
    rw [← showNat_eq_showInt, hshow] at hrt
    simp only [List.cons_append, List.append_assoc] at hrt e
    rw [hrt] at e
    have h1 : ¬ ((s.length : Int) < 0) := by omega
    have h2 : ¬ (s ++ rest).length < s.length := by simp
    simp only [h1, h2, if_false, Int.toNat_natCast] at e
    cases e

mutual
theorem decD_enc (v : BVal) (hv : WF v) (k f : Nat) (rest : Bytes) (hf : cost v ≤ f) (hk : depth v ≤ k)
    (hsz : (enc v).length < 2^63) :
    decD k f (enc v ++ rest) = .ok (v, rest) := by
  match v with
  | .int i =>
    match f with
    | 0 => simp [cost] at hf
    | f+1 =>
      simp only [enc, List.cons_append, List.append_assoc, List.nil_append, decD, if_true]
      rw [readTerminatedInt_showInt cE not_digit_e (by decide) i (by simpa [WF] using hv)]
  | .str s =>
    match f with
    | 0 => simp [cost] at hf
    | f+1 =>
      simp only [enc]
      apply decD_encStr
      simp only [enc, encStr, List.length_append, List.length_cons] at hsz
      omega
  | .list l =>
    match f, k with
    | 0, _ => simp [cost] at hf
    | _+1, 0 => simp [depth] at hk
    | f+1, k+1 =>
      simp only [enc, List.cons_append, List.append_assoc, List.nil_append, decD]
      have hne : cL ≠ cI := by decide
      simp only [hne, if_false, if_true]
      have hsz' : (encList l).length < 2^63 := by
        simp only [enc, List.length_cons, List.length_append] at hsz; omega
      rw [decListD_enc l (by simpa [WF] using hv) k f rest (by simp only [cost] at hf; omega)
        (by simp only [depth] at hk; omega) hsz']
  | .dict d =>
    match f, k with
    | 0, _ => simp [cost] at hf
    | _+1, 0 => simp [depth] at hk
    | f+1, k+1 =>
      simp only [enc, List.cons_append, List.append_assoc, List.nil_append, decD]
      have hne : cD ≠ cI := by decide
      have hne' : cD ≠ cL := by decide
      simp only [hne, hne', if_false, if_true]
      have hw : WFDict d ∧ (d.map (·.1)).Nodup := by simpa [WF] using hv
      have hsz' : (encDict d).length < 2^63 := by
        simp only [enc, List.length_cons, List.length_append] at hsz; omega
      rw [decDictD_enc d hw.1 k f rest (by simp only [cost] at hf; omega) (by simp only [depth] at hk; omega) hsz']
      simp only [normalize_nodup d hw.2]
theorem decListD_enc (l : List BVal) (hl : WFList l) (k f : Nat) (rest : Bytes) (hf : costList l ≤ f)
    (hk : depthList l ≤ k) (hsz : (encList l).length < 2^63) :
    decListD k f (encList l ++ cE :: rest) = .ok (l, rest) := by
  match l with
  | [] =>
    match f with
    | 0 => simp [costList] at hf
    | f+1 => simp [encList, decListD]
  | v :: vs =>
    match f with
    | 0 => simp [costList] at hf
    | f+1 =>
      simp only [costList] at hf
      simp only [depthList] at hk
      have hw : WF v ∧ WFList vs := by simpa [WFList] using hl
      simp only [encList, List.length_append] at hsz
      have h1 := decD_enc v hw.1 k f (encList vs ++ cE :: rest) (by omega) (by omega) (by omega)
      have h2 := decListD_enc vs hw.2 k f rest (by omega) (by omega) (by omega)
      obtain ⟨c, cs, hcs, hce⟩ := enc_head v (encList vs ++ cE :: rest)
      simp only [encList, List.append_assoc]
      rw [hcs]
      simp only [decListD, hce, if_false]
      rw [← hcs, h1]
      simp only [h2]
theorem decDictD_enc (d : List (Bytes × BVal)) (hd : WFDict d) (k f : Nat) (rest : Bytes) (hf : costDict d ≤ f)
    (hk : depthDict d ≤ k) (hsz : (encDict d).length < 2^63) :
    decDictD k f (encDict d ++ cE :: rest) = .ok (d, rest) := by
  match d with
  | [] =>
    match f with
    | 0 => simp [costDict] at hf
    | f+1 => simp [encDict, decDictD]
  | (key, v) :: r =>
    match f with
    | 0 => simp [costDict] at hf
    | f+1 =>
      simp only [costDict] at hf
      simp only [depthDict] at hk
      have hw : WF v ∧ WFDict r := by simpa [WFDict] using hd
      simp only [encDict, List.length_append] at hsz
      have hklen : key.length < 2^63 := by
        have : key.length ≤ (encStr key).length := by simp [encStr]; omega
        omega
      match f, hf with
      | 0, hf => omega
      | f+1, hf =>
        have h0 := decD_encStr key hklen k f (enc v ++ (encDict r ++ cE :: rest))
        have h1 := decD_enc v hw.1 k (f+1) (encDict r ++ cE :: rest) (by omega) (by omega) (by omega)
        have h2 := decDictD_enc r hw.2 k (f+1) rest (by omega) (by omega) (by omega)
        obtain ⟨c, cs, hcs, hce⟩ := encStr_head key (enc v ++ (encDict r ++ cE :: rest))
        simp only [encDict, List.append_assoc]
        rw [hcs]
        simp only [decDictD, hce, if_false]
        rw [← hcs, h0]
        simp only [h1, h2]
end

/-- whatever the limited decoder returns as a value, the grammar decoder returns too -/
theorem decD_sound (k f : Nat) (inp : Bytes) (r : BVal × Bytes) (h : decD k f inp = .ok r) : dec f inp = .ok r := by
  rcases decD_rel k f inp with e | e
  · rw [← e]; exact h
  · rw [e] at h; cases h

/-- the limited decoder runs out of fuel only if the grammar decoder does -/
theorem decD_fuel (k f : Nat) (inp : Bytes) (h : decD k f inp = .error .fuel) : dec f inp = .error .fuel := by
  rcases decD_rel k f inp with e | e
  · rw [← e]; exact h
  · rw [e] at h; cases h

/-! ## cost is bounded by the encoded length -/

mutual
theorem cost_le (v : BVal) : cost v ≤ (enc v).length ∧ 1 ≤ (enc v).length := by
  match v with
  | .int i => simp [cost, enc]
  | .str s => simp [cost, enc, encStr]; omega
  | .list l => have := costList_le l; simp only [cost, enc, List.length_cons, List.length_append, List.length_nil]; omega
  | .dict d => have := costDict_le d; simp only [cost, enc, List.length_cons, List.length_append, List.length_nil]; omega
theorem costList_le (l : List BVal) : costList l ≤ (encList l).length + 1 := by
  match l with
  | [] => simp [costList, encList]
  | v :: vs =>
    have h1 := cost_le v
    have h2 := costList_le vs
    simp only [costList, encList, List.length_append]; omega
theorem costDict_le (d : List (Bytes × BVal)) : costDict d ≤ (encDict d).length + 1 := by
  match d with
  | [] => simp [costDict, encDict]
  | (k, v) :: r =>
    have h1 := cost_le v
    have h2 := costDict_le r
    have h3 : 2 ≤ (encStr k).length := by
      have := natDigits_ne_nil k.length
      cases h : natDigits k.length with
      | nil => exact absurd h this
      | cons c cs => simp [encStr, showNat, h]; omega
    simp only [costDict, encDict, List.length_append]; omega
end

/-! ## the fuel `unmarshal` uses is always enough (the decoder terminates) -/

theorem splitAtByte_length (t : UInt8) (inp p r : Bytes) (h : splitAtByte t inp = some (p, r)) :
    r.length < inp.length := by
  induction inp generalizing p with
  | nil => simp [splitAtByte] at h
  | cons c cs ih =>
    simp only [splitAtByte] at h
    split at h
    · simp at h; obtain ⟨_, rfl⟩ := h; simp
    · cases hs : splitAtByte t cs with
      | none => simp [hs] at h
      | some pr =>
        obtain ⟨p', r'⟩ := pr
        simp [hs] at h
        obtain ⟨_, rfl⟩ := h
        have := ih p' hs
        simp; omega

theorem readTerminatedInt_length (t : UInt8) (inp : Bytes) (i : Int) (r : Bytes)
    (h : readTerminatedInt t inp = .ok (i, r)) : r.length < inp.length := by
  unfold readTerminatedInt at h
  cases hs : splitAtByte t inp with
  | none => simp [hs] at h
  | some pr =>
    obtain ⟨p, r'⟩ := pr
    simp only [hs] at h
    split at h
    · cases h
    · split at h
      · cases h
      · cases hp : parseInt64 p with
        | none => simp [hp] at h
        | some j =>
          simp [hp] at h
          obtain ⟨_, rfl⟩ := h
          exact splitAtByte_length t inp p _ hs

theorem readTerminatedInt_ne_fuel (t : UInt8) (inp : Bytes) : readTerminatedInt t inp ≠ .error .fuel := by
  unfold readTerminatedInt
  cases splitAtByte t inp with
  | none => simp
  | some pr =>
    obtain ⟨p, r⟩ := pr
    simp only
    split
    · simp
    · split
      · simp
      · cases parseInt64 p <;> simp

def FuelOK (f : Nat) : Prop :=
  (∀ inp : Bytes, 2 * inp.length < f →
      dec f inp ≠ .error .fuel ∧ ∀ v r, dec f inp = .ok (v, r) → r.length < inp.length) ∧
  (∀ inp : Bytes, 2 * inp.length + 1 < f →
      decList f inp ≠ .error .fuel ∧ ∀ l r, decList f inp = .ok (l, r) → r.length < inp.length) ∧
  (∀ inp : Bytes, 2 * inp.length + 1 < f →
      decDict f inp ≠ .error .fuel ∧ ∀ l r, decDict f inp = .ok (l, r) → r.length < inp.length)

theorem fuelOK (f : Nat) : FuelOK f := by
  induction f with
  | zero => exact ⟨fun _ h => by omega, fun _ h => by omega, fun _ h => by omega⟩
  | succ f ih =>
    obtain ⟨ihD, ihL, ihM⟩ := ih
    refine ⟨?_, ?_, ?_⟩
    · intro inp hlen
      cases inp with
      | nil => simp [dec]
      | cons c rest =>
        simp only [List.length_cons] at hlen
        simp only [dec]
        split
        · -- int
          cases hr : readTerminatedInt cE rest with
          | error e =>
            have := readTerminatedInt_ne_fuel cE rest
            rw [hr] at this
            simp only [ne_eq, Except.error.injEq] at this ⊢
            exact ⟨this, by intro v r h; cases h⟩
          | ok ir =>
            obtain ⟨i, r⟩ := ir
            have := readTerminatedInt_length cE rest i r hr
            simp only [ne_eq, reduceCtorEq, not_false_eq_true, Except.ok.injEq, Prod.mk.injEq, true_and]
            intro v r' h; obtain ⟨_, rfl⟩ := h; simp; omega
        · split
          · -- list
            have hL := ihL rest (by omega)
            cases hr : decList f rest with
            | error e =>
              have h1 := hL.1; rw [hr] at h1
              simp only [ne_eq, Except.error.injEq] at h1 ⊢
              exact ⟨h1, by intro v r h; cases h⟩
            | ok lr =>
              obtain ⟨l, r⟩ := lr
              have := hL.2 l r hr
              simp only [ne_eq, reduceCtorEq, not_false_eq_true, Except.ok.injEq, Prod.mk.injEq, true_and]
              intro v r' h; obtain ⟨_, rfl⟩ := h; simp; omega
          · split
            · -- dict
              have hM := ihM rest (by omega)
              cases hr : decDict f rest with
              | error e =>
                have h1 := hM.1; rw [hr] at h1
                simp only [ne_eq, Except.error.injEq] at h1 ⊢
                exact ⟨h1, by intro v r h; cases h⟩
              | ok lr =>
                obtain ⟨l, r⟩ := lr
                have := hM.2 l r hr
                simp only [ne_eq, reduceCtorEq, not_false_eq_true, Except.ok.injEq, Prod.mk.injEq, true_and]
                intro v r' h; obtain ⟨_, rfl⟩ := h; simp; omega
            · -- string
              cases hr : readTerminatedInt cColon (c :: rest) with
              | error e => simp
              | ok ir =>
                obtain ⟨len, r⟩ := ir
                have hl := readTerminatedInt_length cColon (c :: rest) len r hr
                simp only
                split
                · simp
                · split
                  · simp
                  · simp only [ne_eq, reduceCtorEq, not_false_eq_true, Except.ok.injEq, Prod.mk.injEq, true_and]
                    intro v r' h; obtain ⟨_, rfl⟩ := h
                    simp only [List.length_drop]; omega
    · intro inp hlen
      cases inp with
      | nil => simp [decList]
      | cons c rest =>
        simp only [List.length_cons] at hlen
        simp only [decList]
        split
        · simp
        · have hD := ihD (c :: rest) (by simp only [List.length_cons]; omega)
          cases hr : dec f (c :: rest) with
          | error e =>
            have h1 := hD.1; rw [hr] at h1
            simp only [ne_eq, Except.error.injEq] at h1 ⊢
            exact ⟨h1, by intro v r h; cases h⟩
          | ok vr =>
            obtain ⟨v, r⟩ := vr
            have hr1 := hD.2 v r hr
            simp only [List.length_cons] at hr1
            have hL := ihL r (by omega)
            simp only
            cases hr2 : decList f r with
            | error e =>
              have h1 := hL.1; rw [hr2] at h1
              simp only [ne_eq, Except.error.injEq] at h1 ⊢
              exact ⟨h1, by intro v r h; cases h⟩
            | ok lr =>
              obtain ⟨l, r'⟩ := lr
              have := hL.2 l r' hr2
              simp only [ne_eq, reduceCtorEq, not_false_eq_true, Except.ok.injEq, Prod.mk.injEq, true_and]
              intro l' r'' h; obtain ⟨_, rfl⟩ := h; simp only [List.length_cons]; omega
    · intro inp hlen
      cases inp with
      | nil => simp [decDict]
      | cons c rest =>
        simp only [List.length_cons] at hlen
        simp only [decDict]
        split
        · simp
        · have hD := ihD (c :: rest) (by simp only [List.length_cons]; omega)
          cases hr : dec f (c :: rest) with
          | error e =>
            have h1 := hD.1; rw [hr] at h1
            simp only [ne_eq, Except.error.injEq] at h1 ⊢
            exact ⟨h1, by intro v r h; cases h⟩
          | ok vr =>
            obtain ⟨v, r⟩ := vr
            have hr1 := hD.2 v r hr
            simp only [List.length_cons] at hr1
            cases v with
            | int i => simp
            | list l => simp
            | dict d => simp
            | str k =>
              simp only
              have hD2 := ihD r (by omega)
              cases hr2 : dec f r with
              | error e =>
                have h1 := hD2.1; rw [hr2] at h1
                simp only [ne_eq, Except.error.injEq] at h1 ⊢
                exact ⟨h1, by intro v r h; cases h⟩
              | ok vr2 =>
                obtain ⟨v2, r2⟩ := vr2
                have hr3 := hD2.2 v2 r2 hr2
                have hM := ihM r2 (by omega)
                simp only
                cases hr4 : decDict f r2 with
                | error e =>
                  have h1 := hM.1; rw [hr4] at h1
                  simp only [ne_eq, Except.error.injEq] at h1 ⊢
                  exact ⟨h1, by intro v r h; cases h⟩
                | ok lr =>
                  obtain ⟨l, r'⟩ := lr
                  have := hM.2 l r' hr4
                  simp only [ne_eq, reduceCtorEq, not_false_eq_true, Except.ok.injEq, Prod.mk.injEq, true_and]
                  intro l' r'' h; obtain ⟨_, rfl⟩ := h; simp only [List.length_cons]; omega

end Bencode

namespace Bencode

/-! ## allocation is bounded by the bytes actually consumed -/

theorem allocDict_insert (k : Bytes) (v : BVal) (acc : List (Bytes × BVal)) :
    allocDict (insert k v acc) ≤ allocDict acc + k.length + allocOf v := by
  induction acc with
  | nil => simp [insert, allocDict]
  | cons p ps ih =>
    obtain ⟨k', v'⟩ := p
    simp only [insert]
    split
    · simp only [allocDict]; omega
    · simp only [allocDict]; omega

theorem allocDict_foldl (d acc : List (Bytes × BVal)) :
    allocDict (d.foldl (fun acc p => insert p.1 p.2 acc) acc) ≤ allocDict acc + allocDict d := by
  induction d generalizing acc with
  | nil => simp [allocDict]
  | cons p ps ih =>
    obtain ⟨k, v⟩ := p
    simp only [List.foldl_cons, allocDict]
    have h1 := ih (insert k v acc)
    have h2 := allocDict_insert k v acc
    omega

theorem allocDict_normalize (d : List (Bytes × BVal)) : allocDict (normalize d) ≤ allocDict d := by
  have := allocDict_foldl d []
  simpa [normalize, allocDict] using this

def AllocOK (f : Nat) : Prop :=
  (∀ (inp : Bytes) v r, dec f inp = .ok (v, r) → allocOf v + r.length ≤ inp.length) ∧
  (∀ (inp : Bytes) l r, decList f inp = .ok (l, r) → allocList l + r.length ≤ inp.length) ∧
  (∀ (inp : Bytes) l r, decDict f inp = .ok (l, r) → allocDict l + r.length ≤ inp.length)

theorem allocOK (f : Nat) : AllocOK f := by
  induction f with
  | zero => exact ⟨fun _ _ _ h => by simp [dec] at h, fun _ _ _ h => by simp [decList] at h,
      fun _ _ _ h => by simp [decDict] at h⟩
  | succ f ih =>
    obtain ⟨ihD, ihL, ihM⟩ := ih
    refine ⟨?_, ?_, ?_⟩
    · intro inp v r h
      cases inp with
      | nil => simp [dec] at h
      | cons c rest =>
        simp only [dec] at h
        split at h
        · cases hr : readTerminatedInt cE rest with
          | error e => simp [hr] at h
          | ok ir =>
            obtain ⟨i, r0⟩ := ir
            have := readTerminatedInt_length cE rest i r0 hr
            simp only [hr, Except.ok.injEq, Prod.mk.injEq] at h
            obtain ⟨rfl, rfl⟩ := h
            simp only [allocOf, List.length_cons]; omega
        · split at h
          · cases hr : decList f rest with
            | error e => simp [hr] at h
            | ok lr =>
              obtain ⟨l, r0⟩ := lr
              have := ihL rest l r0 hr
              simp only [hr, Except.ok.injEq, Prod.mk.injEq] at h
              obtain ⟨rfl, rfl⟩ := h
              simp only [allocOf, List.length_cons]; omega
          · split at h
            · cases hr : decDict f rest with
              | error e => simp [hr] at h
              | ok lr =>
                obtain ⟨l, r0⟩ := lr
                have := ihM rest l r0 hr
                have hn := allocDict_normalize l
                simp only [hr, Except.ok.injEq, Prod.mk.injEq] at h
                obtain ⟨rfl, rfl⟩ := h
                simp only [allocOf, List.length_cons]; omega
            · cases hr : readTerminatedInt cColon (c :: rest) with
              | error e => simp [hr] at h
              | ok ir =>
                obtain ⟨len, r0⟩ := ir
                have hl := readTerminatedInt_length cColon (c :: rest) len r0 hr
                simp only [hr] at h
                split at h
                · cases h
                · split at h
                  · cases h
                  · simp only [Except.ok.injEq, Prod.mk.injEq] at h
                    obtain ⟨rfl, rfl⟩ := h
                    simp only [allocOf, List.length_take, List.length_drop, List.length_cons] at hl ⊢
                    omega
    · intro inp l r h
      cases inp with
      | nil => simp [decList] at h
      | cons c rest =>
        simp only [decList] at h
        split at h
        · simp only [Except.ok.injEq, Prod.mk.injEq] at h
          obtain ⟨rfl, rfl⟩ := h
          simp [allocList]
        · cases hr : dec f (c :: rest) with
          | error e => simp [hr] at h
          | ok vr =>
            obtain ⟨v, r0⟩ := vr
            have h1 := ihD (c :: rest) v r0 hr
            simp only [hr] at h
            cases hr2 : decList f r0 with
            | error e => simp [hr2] at h
            | ok lr =>
              obtain ⟨l0, r1⟩ := lr
              have h2 := ihL r0 l0 r1 hr2
              simp only [hr2, Except.ok.injEq, Prod.mk.injEq] at h
              obtain ⟨rfl, rfl⟩ := h
              simp only [allocList]; omega
    · intro inp l r h
      cases inp with
      | nil => simp [decDict] at h
      | cons c rest =>
        simp only [decDict] at h
        split at h
        · simp only [Except.ok.injEq, Prod.mk.injEq] at h
          obtain ⟨rfl, rfl⟩ := h
          simp [allocDict]
        · cases hr : dec f (c :: rest) with
          | error e => simp [hr] at h
          | ok vr =>
            obtain ⟨v, r0⟩ := vr
            have h1 := ihD (c :: rest) v r0 hr
            simp only [hr] at h
            cases v with
            | int i => simp at h
            | list l => simp at h
            | dict d => simp at h
            | str k =>
              simp only at h
              cases hr2 : dec f r0 with
              | error e => simp [hr2] at h
              | ok vr2 =>
                obtain ⟨v2, r2⟩ := vr2
                have h2 := ihD r0 v2 r2 hr2
                simp only [hr2] at h
                cases hr4 : decDict f r2 with
                | error e => simp [hr4] at h
                | ok lr =>
                  obtain ⟨l0, r3⟩ := lr
                  have h3 := ihM r2 l0 r3 hr4
                  simp only [hr4, Except.ok.injEq, Prod.mk.injEq] at h
                  obtain ⟨rfl, rfl⟩ := h
                  simp only [allocDict, allocOf] at h1 ⊢; omega

/-! ## the limited decoder never returns (hence never descends into) more than `k` nested containers -/

theorem depthDict_insert (k : Bytes) (v : BVal) (acc : List (Bytes × BVal)) :
    depthDict (insert k v acc) ≤ max (depth v) (depthDict acc) := by
  induction acc with
  | nil => simp [insert, depthDict]
  | cons p ps ih =>
    obtain ⟨k', v'⟩ := p
    simp only [insert]
    split
    · simp only [depthDict]; omega
    · simp only [depthDict]; omega

theorem depthDict_foldl (d acc : List (Bytes × BVal)) :
    depthDict (d.foldl (fun acc p => insert p.1 p.2 acc) acc) ≤ max (depthDict acc) (depthDict d) := by
  induction d generalizing acc with
  | nil => simp [depthDict]
  | cons p ps ih =>
    obtain ⟨k, v⟩ := p
    simp only [List.foldl_cons, depthDict]
    have h1 := ih (insert k v acc)
    have h2 := depthDict_insert k v acc
    omega

theorem depthDict_normalize (d : List (Bytes × BVal)) : depthDict (normalize d) ≤ depthDict d := by
  have := depthDict_foldl d []
  simpa [normalize, depthDict] using this

mutual
theorem decD_depth (k f : Nat) (inp : Bytes) (v : BVal) (r : Bytes) (h : decD k f inp = .ok (v, r)) : depth v ≤ k := by
  match f, inp with
  | 0, _ => simp [decD] at h
  | _+1, [] => simp [decD] at h
  | f+1, c :: rest =>
    simp only [decD] at h
    by_cases h1 : c = cI
    · simp only [h1, if_true] at h
      split at h
      · cases h
      · cases h; simp [depth]
    · simp only [h1, if_false] at h
      by_cases h2 : c = cL
      · simp only [h2, if_true] at h
        match k with
        | 0 => simp at h
        | k+1 =>
          simp only at h
          split at h
          · cases h
          · rename_i l r' hl
            cases h
            have := decListD_depth k f rest l _ hl
            simp only [depth]; omega
      · simp only [h2, if_false] at h
        by_cases h3 : c = cD
        · simp only [h3, if_true] at h
          match k with
          | 0 => simp at h
          | k+1 =>
            simp only at h
            split at h
            · cases h
            · rename_i d r' hd
              cases h
              have := decDictD_depth k f rest d _ hd
              have := depthDict_normalize d
              simp only [depth]; omega
        · simp only [h3, if_false] at h
          split at h
          · cases h
          · split at h
            · cases h
            · split at h
              · cases h
              · cases h; simp [depth]
theorem decListD_depth (k f : Nat) (inp : Bytes) (l : List BVal) (r : Bytes) (h : decListD k f inp = .ok (l, r)) : depthList l ≤ k := by
  match f, inp with
  | 0, _ => simp [decListD] at h
  | _+1, [] => simp [decListD] at h
  | f+1, c :: rest =>
    simp only [decListD] at h
    by_cases h1 : c = cE
    · simp only [h1, if_true] at h; cases h; simp [depthList]
    · simp only [h1, if_false] at h
      split at h
      · cases h
      · rename_i v r1 hv
        split at h
        · cases h
        · rename_i vs r2 hvs
          cases h
          have a := decD_depth k f (c :: rest) v r1 hv
          have b := decListD_depth k f r1 vs _ hvs
          simp only [depthList]; omega
theorem decDictD_depth (k f : Nat) (inp : Bytes) (d : List (Bytes × BVal)) (r : Bytes) (h : decDictD k f inp = .ok (d, r)) : depthDict d ≤ k := by
  match f, inp with
  | 0, _ => simp [decDictD] at h
  | _+1, [] => simp [decDictD] at h
  | f+1, c :: rest =>
    simp only [decDictD] at h
    by_cases h1 : c = cE
    · simp only [h1, if_true] at h; cases h; simp [depthDict]
    · simp only [h1, if_false] at h
      split at h
      · cases h
      · rename_i key r1 hk
        split at h
        · cases h
        · rename_i v r2 hv
          split at h
          · cases h
          · rename_i ps r3 hps
            cases h
            have a := decD_depth k f r1 v r2 hv
            have b := decDictD_depth k f r2 ps _ hps
            simp only [depthDict]; omega
      · cases h
end

end Bencode
