import Chihaya.Props.C12
import Chihaya.Props.C08
import Chihaya.Props.C10
import Chihaya.Props.C09
/-!
# C13 — no request can crash or wedge the tracker

Every function on the request path is a total Lean function (termination is checked by the
kernel; the only recursion with fuel is the bencode decoder, not on this path, and the BEP 41
option loop whose fuel `|packet|+1` always suffices because every iteration consumes a byte).
Go panics are modelled as explicit outcomes: `Udp.Result.panic` (the two `panic("udp: invalid IP")`
sites), `HttpWrite.writeAnnounce = none` (`compact4`/`compact6`), and the 20-byte constructors
(guarded by length tests the parser models reproduce). The theorems say these outcomes are
unreachable and that a well-formed request gets exactly one response.
-/
set_option linter.unusedSimpArgs false
namespace Udp

theorem famOf_some_of_len (src : Bytes) (h : src.length = 4 ∨ src.length = 16) : ∃ f, Sanitize.famOf src = some f := by
  unfold Sanitize.famOf
  cases ht : Sanitize.to4 src with
  | some x => exact ⟨_, rfl⟩
  | none =>
    rcases h with h | h
    · simp [Sanitize.to4, h] at ht
    · simp [h]

/-- **UDP never panics**: for a source address of 4 or 16 bytes (what the socket layer delivers),
every packet, every configuration, every logic behaviour and every clock. -/
theorem parseScrape_not_internal (pkt src : Bytes) (opts : ParseOpts) (f : Fam) (hf : Sanitize.famOf src = some f) (m : String) :
    parseScrape pkt src opts ≠ .error (.internal m) := by
  intro he
  unfold parseScrape at he
  by_cases h1 : pkt.length < 36
  · rw [if_pos h1] at he; cases he
  · rw [if_neg h1] at he
    simp only at he
    split at he
    · cases he
    · rw [hf] at he; cases he

theorem C13_udp_no_panic (mac : Mac) (lower : Bytes → Bytes) (cfg : Cfg) (logic : Logic) (now : Int) (pkt src : Bytes)
    (hsrc : src.length = 4 ∨ src.length = 16) :
    (handleRequest mac lower cfg logic now pkt src).panic = false := by
  obtain ⟨f, hf⟩ := famOf_some_of_len src hsrc
  unfold handleRequest
  by_cases hl : pkt.length < 16
  · simp [hl]
  · simp only [hl, if_false]
    by_cases hv : (Bytes.toNatBE (slice pkt 8 12) ≠ 0 ∧ (!validate mac cfg.key (slice pkt 0 8) src now cfg.skewNs) = true)
    · rw [if_pos hv]
    · rw [if_neg hv]
      by_cases ha0 : Bytes.toNatBE (slice pkt 8 12) = 0
      · rw [if_pos ha0]
        by_cases hm : slice pkt 0 8 ≠ initialConnectionID
        · rw [if_pos hm]
        · rw [if_neg hm]; simp [hf]
      · rw [if_neg ha0]
        by_cases ha : (Bytes.toNatBE (slice pkt 8 12) = 1 ∨ Bytes.toNatBE (slice pkt 8 12) = 4)
        · rw [if_pos ha]
          cases parseAnnounce lower pkt src (decide (Bytes.toNatBE (slice pkt 8 12) = 4)) cfg.opts with
          | error e => rfl
          | ok req => simp only; cases logic.announce req <;> rfl
        · rw [if_neg ha]
          by_cases h2 : Bytes.toNatBE (slice pkt 8 12) = 2
          · rw [if_pos h2]
            cases hp : parseScrape pkt src cfg.opts with
            | error e =>
              cases e with
              | client m => rfl
              | internal m => exact absurd hp (parseScrape_not_internal pkt src cfg.opts f hf m)
            | ok req => simp only; cases logic.scrape req <;> rfl
          · rw [if_neg h2]

/-- **At most one response** is a property of the type (`out : Option Bytes`); **exactly one** for
well-formed requests: a connect with the protocol magic … -/
theorem C13_connect_answered (mac : Mac) (lower : Bytes → Bytes) (cfg : Cfg) (logic : Logic) (now : Int) (pkt src : Bytes)
    (hlen : 16 ≤ pkt.length) (hact : Bytes.toNatBE (slice pkt 8 12) = 0) (hmagic : slice pkt 0 8 = initialConnectionID)
    (hsrc : src.length = 4 ∨ src.length = 16) :
    (handleRequest mac lower cfg logic now pkt src).out.isSome = true := by
  obtain ⟨f, hf⟩ := famOf_some_of_len src hsrc
  rw [C10_connect mac lower cfg logic now pkt src hlen hact hmagic f hf]; rfl

/-- … and every announce or scrape that carries a valid connection ID (whether it then parses,
is rejected by a hook, or is served): one datagram, never silence. -/
theorem C13_valid_id_answered (mac : Mac) (lower : Bytes → Bytes) (cfg : Cfg) (logic : Logic) (now : Int) (pkt src : Bytes)
    (hlen : 16 ≤ pkt.length) (hact : Bytes.toNatBE (slice pkt 8 12) ≠ 0)
    (hsrc : src.length = 4 ∨ src.length = 16) :
    (handleRequest mac lower cfg logic now pkt src).out.isSome = true := by
  obtain ⟨f, hf⟩ := famOf_some_of_len src hsrc
  unfold handleRequest
  have hl : ¬ pkt.length < 16 := by omega
  simp only [hl, if_false]
  by_cases hv : (Bytes.toNatBE (slice pkt 8 12) ≠ 0 ∧ (!validate mac cfg.key (slice pkt 0 8) src now cfg.skewNs) = true)
  · rw [if_pos hv]; rfl
  · rw [if_neg hv, if_neg hact]
    by_cases ha : (Bytes.toNatBE (slice pkt 8 12) = 1 ∨ Bytes.toNatBE (slice pkt 8 12) = 4)
    · rw [if_pos ha]
      cases parseAnnounce lower pkt src (decide (Bytes.toNatBE (slice pkt 8 12) = 4)) cfg.opts with
      | error e => rfl
      | ok req => simp only; cases logic.announce req <;> rfl
    · rw [if_neg ha]
      by_cases h2 : Bytes.toNatBE (slice pkt 8 12) = 2
      · rw [if_pos h2]
        cases hp : parseScrape pkt src cfg.opts with
        | error e =>
          cases e with
          | client m => rfl
          | internal m => exact absurd hp (parseScrape_not_internal pkt src cfg.opts f hf m)
        | ok req => simp only; cases logic.scrape req <;> rfl
      · rw [if_neg h2]; rfl

/-- **D32 at the request level**: the datagram a served announce is answered with can always be sent — it never
exceeds the largest UDP payload, however many peers the logic hands back (given only that their addresses have a form
of the list's family, which `SanitizeAnnounce` and both stores guarantee: `Props/C13Store.lean`). Together with
`C13_valid_id_answered`: the request gets one datagram *and the datagram fits*. -/
theorem C13_udp_announce_datagram_fits (mac : Mac) (lower : Bytes → Bytes) (cfg : Cfg) (logic : Logic) (now : Int) (pkt src : Bytes)
    (hlen : 16 ≤ pkt.length) (hact : Bytes.toNatBE (slice pkt 8 12) = 1 ∨ Bytes.toNatBE (slice pkt 8 12) = 4)
    (hvalid : validate mac cfg.key (slice pkt 0 8) src now cfg.skewNs = true)
    (req : AnnReq) (resp : AnnResp)
    (hparse : parseAnnounce lower pkt src (decide (Bytes.toNatBE (slice pkt 8 12) = 4)) cfg.opts = .ok req)
    (hlogic : logic.announce req = .ok resp)
    (hp : ∀ p ∈ (if decide (req.peer.fam = .v6) then resp.v6peers else resp.v4peers),
        if decide (req.peer.fam = .v6) then p.ip.length = 4 ∨ p.ip.length = 16 else Sanitize.to4 p.ip ≠ none) :
    ∃ b, (handleRequest mac lower cfg logic now pkt src).out = some b ∧ b.length ≤ maxPayload := by
  unfold handleRequest
  have hl : ¬ pkt.length < 16 := by omega
  have h0 : ¬ Bytes.toNatBE (slice pkt 8 12) = 0 := by omega
  have hv : ¬ (Bytes.toNatBE (slice pkt 8 12) ≠ 0 ∧ (!validate mac cfg.key (slice pkt 0 8) src now cfg.skewNs) = true) := by
    simp [hvalid]
  simp only [hl, if_false]
  rw [if_neg hv, if_neg h0, if_pos hact]
  simp only [hparse, hlogic]
  have htx : (slice pkt 12 16).length = 4 := by rw [Udp.slice_length _ _ _ hlen]
  exact ⟨_, rfl, (C09_announce_wire (slice pkt 12 16) resp _ _ htx hp).2⟩

end Udp

namespace Tracker
open Logic HttpWrite
variable {σ : Type}

/-- **HTTP never panics in the writer**: if the peers the store hands out have addresses of their
family's length (the store invariant, C01/C03), every accepted announce is answered with a body;
rejected ones always are. -/
theorem C13_http_body (env : HttpParse.Env) (opts : ParseOpts) (cfg : Logic.Config) (ops : StoreOps σ) (hooks : Hooks)
    (ipText : Bytes → Bytes) (st : σ) (uri : Bytes)
    (hstore : ∀ req ctx resp, (handleAnnounce cfg ops hooks.preAnn st req).2 = .ok (ctx, resp) →
        (∀ p ∈ resp.v4peers, p.ip.length = 4) ∧ (∀ p ∈ resp.v6peers, p.ip.length = 16)) :
    (httpAnnounce env opts cfg ops hooks ipText st uri).body.isSome = true := by
  unfold httpAnnounce
  cases hp : HttpParse.parseAnnounce env uri opts with
  | error e => rfl
  | ok req =>
    simp only
    cases hh : handleAnnounce cfg ops hooks.preAnn st req with
    | mk log res =>
      cases res with
      | error e => rfl
      | ok cr =>
        obtain ⟨c, r⟩ := cr
        simp only
        have hs := hstore req c r (by rw [hh])
        unfold writeAnnounce
        split
        · rw [mapM'_compact4 _ hs.1, mapM'_compact6 _ hs.2]; rfl
        · rfl

end Tracker
