import Chihaya.Props.C06
import Chihaya.Props.C07
/-!
# C11 — peers are registered under their transport source address unless spoofing is on
-/
set_option linter.unusedSimpArgs false

namespace HttpParse
open Query

/-- the transport-level source of an HTTP request: the configured trusted proxy header if present,
else the connection's remote address -/
def sourceIP (env : Env) (opts : ParseOpts) : Option Bytes :=
  match (if opts.realIPHeaderSet then env.hdr else none) with
  | some h => env.parseIP h
  | none => env.parseIP env.remoteHost

/-- Spoofing disabled: whatever `ip` / `ipv4` / `ipv6` parameters the client sends, the address
is the source address and is never marked as client-provided. -/
theorem C11_http_no_spoof (env : Env) (ps : List (Bytes × Bytes)) (opts : ParseOpts) (h : opts.allowIPSpoofing = false) :
    requestedIP env ps opts = (sourceIP env opts, false) := by
  unfold requestedIP sourceIP
  simp only [h, Bool.false_eq_true, if_false]
  cases (if opts.realIPHeaderSet = true then env.hdr else none) <;> rfl

/-- Spoofing enabled: the first of `ip`, `ipv4`, `ipv6` that is present and not the unspecified address is used
verbatim (an unparsable one gives no address, i.e. the request is rejected); a zero address counts as absent; if none
is left the source is used. -/
theorem C11_http_spoof (env : Env) (ps : List (Bytes × Bytes)) (opts : ParseOpts) (h : opts.allowIPSpoofing = true) :
    requestedIP env ps opts =
      (match spoofParam env ps kIP with
       | some r => (r, true)
       | none => match spoofParam env ps kIPv4 with
         | some r => (r, true)
         | none => match spoofParam env ps kIPv6 with
           | some r => (r, true)
           | none => (sourceIP env opts, false)) := by
  unfold requestedIP sourceIP
  simp only [h, if_true]
  cases spoofParam env ps kIP with
  | some v => rfl
  | none =>
    cases spoofParam env ps kIPv4 with
    | some v => rfl
    | none =>
      cases spoofParam env ps kIPv6 with
      | some v => rfl
      | none => simp only; cases (if opts.realIPHeaderSet = true then env.hdr else none) <;> rfl

/-- a parameter counts exactly when it is present and its value is not a zero address -/
theorem spoofParam_none_iff (env : Env) (ps : List (Bytes × Bytes)) (k : Bytes) :
    spoofParam env ps k = none ↔ get ps k = none ∨ ∃ v ip, get ps k = some v ∧ env.parseIP v = some ip ∧ isUnspecified ip = true := by
  unfold spoofParam
  cases hg : get ps k with
  | none => simp
  | some v =>
    cases hp : env.parseIP v with
    | none => simp [hp]
    | some ip =>
      by_cases hz : isUnspecified ip = true
      · simp [hp, hz]
      · simp [hp, hz]

/-- **C11, the zero address over HTTP (D20)**: with spoofing enabled, when every supplied `ip`/`ipv4`/`ipv6` value is a
zero address (0.0.0.0, ::) or absent, the peer is registered under the source address and not marked as
client-provided — an unspecified address is never registered -/
theorem C11_http_zero_means_source (env : Env) (ps : List (Bytes × Bytes)) (opts : ParseOpts)
    (h1 : spoofParam env ps kIP = none) (h2 : spoofParam env ps kIPv4 = none) (h3 : spoofParam env ps kIPv6 = none) :
    requestedIP env ps opts = (sourceIP env opts, false) := by
  by_cases h : opts.allowIPSpoofing = true
  · rw [C11_http_spoof env ps opts h, h1, h2, h3]
  · have : opts.allowIPSpoofing = false := by cases hh : opts.allowIPSpoofing <;> simp_all
    exact C11_http_no_spoof env ps opts this

theorem C11_http_never_unspecified_param (env : Env) (ps : List (Bytes × Bytes)) (k : Bytes) (ip : Bytes)
    (h : spoofParam env ps k = some (some ip)) : isUnspecified ip = false := by
  unfold spoofParam at h
  cases hg : get ps k with
  | none => simp [hg] at h
  | some v =>
    cases hp : env.parseIP v with
    | none => simp [hg, hp] at h
    | some ip' =>
      simp only [hg, hp] at h
      split at h
      · cases h
      · rename_i hz; cases h; simpa using hz

/-- The accepted request's address is that address, in canonical form (v4-mapped folded to 4 bytes). -/
theorem C11_http_registered (env : Env) (uri : Bytes) (opts : ParseOpts) (r : AnnReq)
    (h : parseAnnounce env uri opts = .ok r) :
    ∃ qp ip, parseURLData env.lower uri = .ok qp ∧ requestedIP env qp.params opts = (some ip, r.ipProvided) ∧
      r.peer.ip = (Sanitize.to4 ip).getD ip := by
  obtain ⟨qp, ev, ih, pid, left, dl, ul, nw, port, ip, hqp, hev, hih, hpid, hleft, hdl, hul, hnw, hport, hip, hs⟩ :=
    parseAnnounce_inv env uri opts r h
  refine ⟨qp, ip.1, hqp, ?_, ?_⟩
  · unfold ipOf at hip
    split at hip
    · cases hip
    · cases hip
      rename_i heq
      have hp := Sanitize.announce_post _ _ _ _ hs
      simp only at hp
      rw [hp.2.2.2.2.2.2.2.2.2.2.2.2.2.1]
      exact heq
  · unfold Sanitize.announce at hs
    simp only at hs
    split at hs
    · cases hs
    · split at hs
      · cases hs; rename_i ip4 h4; simp [h4]
      · rename_i hno
        split at hs
        · cases hs; simp [hno]
        · cases hs

end HttpParse

namespace Udp

/-- Spoofing disabled: the packet's IP field is irrelevant — two announces differing only in that
field are handled identically (the source address is used, never marked client-provided). -/
theorem C11_udp_no_spoof (lower : Bytes → Bytes) (v6 : Bool) (f : AnnFields) (g : Bytes) (hf : f.WF v6)
    (hg : g.length = f.ipField.length) (optBytes src : Bytes) (opts : ParseOpts) (h : opts.allowIPSpoofing = false) :
    parseAnnounce lower (buildAnnounce (if v6 then 4 else 1) f ++ optBytes) src v6 opts =
    parseAnnounce lower (buildAnnounce (if v6 then 4 else 1) { f with ipField := g } ++ optBytes) src v6 opts := by
  have hf' : AnnFields.WF v6 { f with ipField := g } := by
    unfold AnnFields.WF at hf ⊢
    simp only
    rw [hg]; exact hf
  rw [C07_parse_build lower v6 f hf, C07_parse_build lower v6 _ hf']
  simp only [h, Bool.false_and, Bool.false_eq_true, if_false]

/-- Spoofing enabled, non-zero field: that address, as given, in its own family (4 bytes for
action 1, 16 for action 4), marked client-provided. Zero field: the source address. -/
theorem C11_udp_spoof (lower : Bytes → Bytes) (v6 : Bool) (f : AnnFields) (hf : f.WF v6) (optBytes src : Bytes)
    (opts : ParseOpts) (h : opts.allowIPSpoofing = true) (ev : Event) (hev : eventOfCode f.evCode = some ev)
    (params : List (Bytes × Bytes)) (hp : handleOptionalParameters lower optBytes = .ok params) (hsrc : src ≠ []) :
    parseAnnounce lower (buildAnnounce (if v6 then 4 else 1) f ++ optBytes) src v6 opts =
      Sanitize.announce
        { event := ev, eventProvided := true, infoHash := f.ih, compact := false, numWantProvided := f.nw != 4294967295,
          ipProvided := !allZero f.ipField, numWant := f.nw, left := f.left, downloaded := f.dl, uploaded := f.ul,
          peer := { id := f.pid, port := f.port, ip := if allZero f.ipField then src else f.ipField, fam := .v4 }, params := params }
        opts.maxNumWant opts.defaultNumWant := by
  rw [C07_parse_build lower v6 f hf]
  simp only [hev, h, Bool.true_and, hp]
  have hne : f.ipField ≠ [] := by
    have := hf.2.2.2.2.2.2.2.2.1
    intro he; rw [he] at this; cases v6 <;> simp at this
  cases hz : allZero f.ipField
  · simp [hne]
  · simp [hsrc]

/-- **D24, the consequence**: whatever non-zero packet field is used as the peer's address, what
`SanitizeAnnounce` makes of it is never the unspecified address (`0.0.0.0` as 4 bytes, `::` as 16):
the zero test knows every form that folds to it, including `::ffff:0.0.0.0`. -/
theorem C11_udp_field_never_unspecified (r r' : AnnReq) (mx df : Nat) (hz : allZero r.peer.ip = false)
    (h : Sanitize.announce r mx df = .ok r') :
    r'.peer.ip ≠ [0, 0, 0, 0] ∧ r'.peer.ip ≠ List.replicate 16 0 := by
  unfold Sanitize.announce at h
  split at h
  · cases h
  · simp only at h
    cases h4 : Sanitize.to4 r.peer.ip with
    | some ip4 =>
      rw [h4] at h
      simp only [Except.ok.injEq] at h
      subst h
      simp only
      unfold Sanitize.to4 at h4
      split at h4
      · rename_i hl
        cases h4
        constructor
        · intro e; rw [e] at hz; revert hz; decide
        · intro e; rw [e] at hl; revert hl; decide
      · split at h4
        · rename_i hm
          cases h4
          obtain ⟨hl, h10, h2⟩ := hm
          constructor
          · intro e
            have hd : r.peer.ip.drop 10 = (r.peer.ip.drop 10).take 2 ++ (r.peer.ip.drop 10).drop 2 := (List.take_append_drop 2 _).symm
            have : r.peer.ip = List.replicate 10 0 ++ [255, 255, 0, 0, 0, 0] := by
              rw [← List.take_append_drop 10 r.peer.ip, h10, hd, h2, List.drop_drop]
              simp [e]
            rw [this] at hz; revert hz; decide
          · intro e
            have : (r.peer.ip.drop 12).length = 4 := by simp [hl]
            rw [e] at this; revert this; decide
        · cases h4
    | none =>
      rw [h4] at h
      simp only at h
      split at h
      · rename_i hl
        simp only [Except.ok.injEq] at h
        subst h
        simp only
        constructor
        · intro e; rw [e] at hl; revert hl; decide
        · intro e; rw [e] at hz; revert hz; decide
      · cases h

end Udp
