import Chihaya.Props.C06
import Chihaya.Props.C07
/-!
# C11 — peers are registered under their transport source address unless spoofing is on
-/
set_option linter.unusedSimpArgs false

namespace HttpParse
open Query

/-- the transport-level source of an HTTP request: the configured trusted proxy header if present,
else the connection's remote address -/
def sourceIP (env : Env) (opts : ParseOpts) : Option Bytes :=
  match (if opts.realIPHeaderSet then env.hdr else none) with
  | some h => env.parseIP h
  | none => env.parseIP env.remoteHost

/-- Spoofing disabled: whatever `ip` / `ipv4` / `ipv6` parameters the client sends, the address
is the source address and is never marked as client-provided. -/
theorem C11_http_no_spoof (env : Env) (ps : List (Bytes × Bytes)) (opts : ParseOpts) (h : opts.allowIPSpoofing = false) :
    requestedIP env ps opts = (sourceIP env opts, false) := by
  unfold requestedIP sourceIP
  simp only [h, Bool.false_eq_true, if_false]
  cases (if opts.realIPHeaderSet = true then env.hdr else none) <;> rfl

/-- Spoofing enabled: the first present of `ip`, `ipv4`, `ipv6` is used verbatim (an unparsable
one gives no address, i.e. the request is rejected); if none is present the source is used. -/
theorem C11_http_spoof (env : Env) (ps : List (Bytes × Bytes)) (opts : ParseOpts) (h : opts.allowIPSpoofing = true) :
    requestedIP env ps opts =
      (match get ps kIP with
       | some v => (env.parseIP v, true)
       | none => match get ps kIPv4 with
         | some v => (env.parseIP v, true)
         | none => match get ps kIPv6 with
           | some v => (env.parseIP v, true)
           | none => (sourceIP env opts, false)) := by
  unfold requestedIP sourceIP
  simp only [h, if_true]
  cases get ps kIP with
  | some v => rfl
  | none =>
    cases get ps kIPv4 with
    | some v => rfl
    | none =>
      cases get ps kIPv6 with
      | some v => rfl
      | none => simp only; cases (if opts.realIPHeaderSet = true then env.hdr else none) <;> rfl

/-- The accepted request's address is that address, in canonical form (v4-mapped folded to 4 bytes). -/
theorem C11_http_registered (env : Env) (uri : Bytes) (opts : ParseOpts) (r : AnnReq)
    (h : parseAnnounce env uri opts = .ok r) :
    ∃ qp ip, parseURLData env.lower uri = .ok qp ∧ requestedIP env qp.params opts = (some ip, r.ipProvided) ∧
      r.peer.ip = (Sanitize.to4 ip).getD ip := by
  obtain ⟨qp, ev, ih, pid, left, dl, ul, nw, port, ip, hqp, hev, hih, hpid, hleft, hdl, hul, hnw, hport, hip, hs⟩ :=
    parseAnnounce_inv env uri opts r h
  refine ⟨qp, ip.1, hqp, ?_, ?_⟩
  · unfold ipOf at hip
    split at hip
    · cases hip
    · cases hip
      rename_i heq
      have hp := Sanitize.announce_post _ _ _ _ hs
      simp only at hp
      rw [hp.2.2.2.2.2.2.2.2.2.2.2.2.2.1]
      exact heq
  · unfold Sanitize.announce at hs
    simp only at hs
    split at hs
    · cases hs
    · split at hs
      · cases hs; rename_i ip4 h4; simp [h4]
      · rename_i hno
        split at hs
        · cases hs; simp [hno]
        · cases hs

end HttpParse

namespace Udp

/-- Spoofing disabled: the packet's IP field is irrelevant — two announces differing only in that
field are handled identically (the source address is used, never marked client-provided). -/
theorem C11_udp_no_spoof (lower : Bytes → Bytes) (v6 : Bool) (f : AnnFields) (g : Bytes) (hf : f.WF v6)
    (hg : g.length = f.ipField.length) (optBytes src : Bytes) (opts : ParseOpts) (h : opts.allowIPSpoofing = false) :
    parseAnnounce lower (buildAnnounce (if v6 then 4 else 1) f ++ optBytes) src v6 opts =
    parseAnnounce lower (buildAnnounce (if v6 then 4 else 1) { f with ipField := g } ++ optBytes) src v6 opts := by
  have hf' : AnnFields.WF v6 { f with ipField := g } := by
    unfold AnnFields.WF at hf ⊢
    simp only
    rw [hg]; exact hf
  rw [C07_parse_build lower v6 f hf, C07_parse_build lower v6 _ hf']
  simp only [h, Bool.false_and, Bool.false_eq_true, if_false]

/-- Spoofing enabled, non-zero field: that address, as given, in its own family (4 bytes for
action 1, 16 for action 4), marked client-provided. Zero field: the source address. -/
theorem C11_udp_spoof (lower : Bytes → Bytes) (v6 : Bool) (f : AnnFields) (hf : f.WF v6) (optBytes src : Bytes)
    (opts : ParseOpts) (h : opts.allowIPSpoofing = true) (ev : Event) (hev : eventOfCode f.evCode = some ev)
    (params : List (Bytes × Bytes)) (hp : handleOptionalParameters lower optBytes = .ok params) (hsrc : src ≠ []) :
    parseAnnounce lower (buildAnnounce (if v6 then 4 else 1) f ++ optBytes) src v6 opts =
      Sanitize.announce
        { event := ev, eventProvided := true, infoHash := f.ih, compact := false, numWantProvided := true,
          ipProvided := !allZero f.ipField, numWant := f.nw, left := f.left, downloaded := f.dl, uploaded := f.ul,
          peer := { id := f.pid, port := f.port, ip := if allZero f.ipField then src else f.ipField, fam := .v4 }, params := params }
        opts.maxNumWant opts.defaultNumWant := by
  rw [C07_parse_build lower v6 f hf]
  simp only [hev, h, Bool.true_and, hp]
  have hne : f.ipField ≠ [] := by
    have := hf.2.2.2.2.2.2.2.2.1
    intro he; rw [he] at this; cases v6 <;> simp at this
  cases hz : allZero f.ipField
  · simp [hne]
  · simp [hsrc]

end Udp
