import Chihaya.Model.Lifecycle
/-!
# C16 — Stop completes, leaves nothing running, and reload keeps the swarm data
-/
namespace Lifecycle

/-- a stop group reports every member's errors (all of them, in member order) -/
theorem C16_group_reports_all (members : List (List String)) : groupStop members = members.flatten := rfl

theorem C16_group_none_lost (members : List (List String)) (m : List String) (e : String) (hm : m ∈ members) (he : e ∈ m) :
    e ∈ groupStop members := by
  simp only [groupStop, List.mem_flatten]; exact ⟨m, hm, he⟩

/-! ### UDP -/

def Udp.Good (s : Udp) : Prop :=
  (s.stopPhase = 2 → s.socketOpen = false ∧ s.serving = false ∧ s.handlers = 0 ∧ s.posthooks = 0 ∧ s.closing = true) ∧
  (s.stopPhase ≥ 1 → s.closing = true) ∧
  (s.serving = true → s.served = true)

theorem Udp.good_step (s s' : Udp) (e : UEv) (h : s.Good) (hs : s.step e = some s') : s'.Good := by
  obtain ⟨h1, h2, h3⟩ := h
  cases e with
  | serveStart =>
    simp only [Udp.step] at hs
    split at hs
    · cases hs
    · split at hs
      · cases hs; rename_i hc; refine ⟨fun hp => ?_, fun hp => h2 hp, fun hsv => rfl⟩; simpa using h1 hp
      · cases hs; rename_i hc
        refine ⟨fun hp => ?_, fun hp => h2 hp, fun _ => rfl⟩
        have := (h1 hp).2.2.2.2; simp [this] at hc
  | packet =>
    simp only [Udp.step] at hs
    split at hs
    · cases hs; rename_i hc
      simp only [Bool.and_eq_true] at hc
      refine ⟨fun hp => ?_, fun hp => h2 hp, h3⟩
      have := (h1 hp).2.1; simp [this] at hc
    · cases hs
  | handlerDone post =>
    simp only [Udp.step] at hs
    split at hs
    · cases hs
    · cases hs; rename_i hc
      refine ⟨fun hp => ?_, fun hp => h2 hp, h3⟩
      have := (h1 hp).2.2.1; exact absurd this hc
  | postDone =>
    simp only [Udp.step] at hs
    split at hs
    · cases hs
    · cases hs; rename_i hc
      refine ⟨fun hp => ?_, fun hp => h2 hp, h3⟩
      have := (h1 hp).2.2.2.1; exact absurd this hc
  | serveExit =>
    simp only [Udp.step] at hs
    split at hs
    · cases hs
      refine ⟨fun hp => ?_, fun hp => h2 hp, fun hsv => by simp at hsv⟩
      have := h1 hp; simp_all
    · cases hs
  | stopBegin =>
    simp only [Udp.step] at hs
    split at hs
    · cases hs; exact ⟨fun hp => by simp at hp, fun _ => rfl, h3⟩
    · cases hs
  | stopFinish =>
    simp only [Udp.step] at hs
    split at hs
    · cases hs; rename_i hc
      obtain ⟨hp1, hwg⟩ := hc
      have hcl := h2 (by omega)
      simp only [Udp.wg] at hwg
      have hh0 : s.handlers = 0 := by omega
      have hp0 : s.posthooks = 0 := by omega
      refine ⟨fun _ => ⟨rfl, ?_, hh0, hp0, hcl⟩, fun _ => hcl, h3⟩
      cases hsv : s.serving <;> simp_all
    · cases hs

theorem Udp.good_run (evs : List UEv) : ∀ (s0 : Udp), s0.Good → ∀ s1, s0.run evs = some s1 → s1.Good := by
  induction evs with
  | nil => intro s0 h0 s1 h; simp [Udp.run] at h; subst h; exact h0
  | cons e es ih =>
    intro s0 h0 s1 h
    simp only [Udp.run] at h
    cases hs : s0.step e with
    | none => simp [hs] at h
    | some s' => rw [hs] at h; exact ih s' (Udp.good_step s0 s' e h0 hs) s1 h

/-- **For every interleaving** of start-up, traffic, handler and post-hook completions and `Stop`:
once `Stop` has completed the socket is closed, the serve loop has exited and no handler and no
post-response hook is in flight. -/
theorem C16_udp_stop_leaves_nothing (evs : List UEv) (s : Udp) (h : ({} : Udp).run evs = some s) (hp : s.stopPhase = 2) :
    s.socketOpen = false ∧ s.serving = false ∧ s.handlers = 0 ∧ s.posthooks = 0 := by
  have hg := Udp.good_run evs {} (by simp [Udp.Good]) s h
  have := hg.1 hp
  exact ⟨this.1, this.2.1, this.2.2.1, this.2.2.2.1⟩

/-- … and nothing can start afterwards: no packet is accepted once `Stop` has completed -/
theorem C16_udp_nothing_starts_after (s : Udp) (hg : s.Good) (hp : s.stopPhase = 2) : s.step .packet = none := by
  have := (hg.1 hp).2.1
  simp [Udp.step, this]

/-- `Stop` can always complete: from any state in which it is waiting, letting the running
goroutines finish (a finite number of steps) enables `stopFinish` — the wait is never circular. -/
theorem C16_udp_stop_terminates_served (s : Udp) (hp : s.stopPhase = 1) (hc : s.closing = true) (hsd : s.served = true) :
    ∃ evs s', s.run evs = some s' ∧ s'.stopPhase = 2 := by
  -- drain: serve exits, every handler returns without a post-hook, every post-hook returns
  have drainPost : ∀ n (s : Udp), s.posthooks = n → s.handlers = 0 → s.serving = false → s.stopPhase = 1 → s.served = true →
      ∃ evs s', s.run evs = some s' ∧ s'.stopPhase = 2 := by
    intro n
    induction n with
    | zero =>
      intro s h0 hh hs hp hsd
      refine ⟨[.stopFinish], { s with socketOpen := false, stopPhase := 2 }, ?_, rfl⟩
      simp [Udp.run, Udp.step, Udp.wg, hp, h0, hh, hs, hsd]
    | succ n ih =>
      intro s h0 hh hs hp hsd
      obtain ⟨evs, s', h1, h2⟩ := ih { s with posthooks := s.posthooks - 1 } (by simp [h0]) hh hs hp hsd
      refine ⟨.postDone :: evs, s', ?_, h2⟩
      have hne : ¬ s.posthooks = 0 := by omega
      simp only [Udp.run, Udp.step, hne, if_false]
      exact h1
  have drainH : ∀ n (s : Udp), s.handlers = n → s.serving = false → s.stopPhase = 1 → s.served = true →
      ∃ evs s', s.run evs = some s' ∧ s'.stopPhase = 2 := by
    intro n
    induction n with
    | zero => intro s hh hs hp hsd; exact drainPost s.posthooks s rfl hh hs hp hsd
    | succ n ih =>
      intro s hh hs hp hsd
      obtain ⟨evs, s', h1, h2⟩ := ih { s with handlers := s.handlers - 1 } (by simp [hh]) hs hp hsd
      refine ⟨.handlerDone false :: evs, s', ?_, h2⟩
      have hne : ¬ s.handlers = 0 := by omega
      simp only [Udp.run, Udp.step, hne, if_false, Bool.false_eq_true]
      exact h1
  cases hsv : s.serving with
  | false => exact drainH s.handlers s rfl hsv hp hsd
  | true =>
    obtain ⟨evs, s', h1, h2⟩ := drainH s.handlers { s with serving := false } rfl rfl hp hsd
    refine ⟨.serveExit :: evs, s', ?_, h2⟩
    simp only [Udp.run, Udp.step, hsv, hc, Bool.and_self, if_true]
    rw [← hc]; exact h1

/-- `Stop` can always complete: from any state in which it is waiting, letting the running
goroutines finish (a finite number of steps) enables `stopFinish` — the wait is never circular. A serving
goroutine that has not reached `serve()` yet gets there, finds `closing` closed and returns. -/
theorem C16_udp_stop_terminates (s : Udp) (hp : s.stopPhase = 1) (hc : s.closing = true) :
    ∃ evs s', s.run evs = some s' ∧ s'.stopPhase = 2 := by
  cases hsd : s.served with
  | true => exact C16_udp_stop_terminates_served s hp hc hsd
  | false =>
    obtain ⟨cl, sv, sd, hn, ph, so, sp⟩ := s
    simp only at hp hc hsd
    subst hc hsd
    obtain ⟨evs, s', h1, h2⟩ := C16_udp_stop_terminates_served ⟨true, sv, true, hn, ph, so, sp⟩ hp rfl rfl
    exact ⟨.serveStart :: evs, s', by simpa [Udp.run, Udp.step] using h1, h2⟩

/-- … and the goroutine `NewFrontend` started has come and gone: it is not about to enter `serve()` (repair D19) -/
theorem C16_udp_serving_goroutine_gone (evs : List UEv) (s : Udp) (h : ({} : Udp).run evs = some s) (hp : s.stopPhase = 2) :
    s.served = true := by
  have step : ∀ (s s' : Udp) (e : UEv), (s.stopPhase = 2 → s.served = true) → s.step e = some s' → (s'.stopPhase = 2 → s'.served = true) := by
    intro s s' e hi hs
    cases e <;> simp only [Udp.step] at hs
    · split at hs
      · cases hs
      · split at hs <;> (cases hs; intro _; rfl)
    · split at hs
      · cases hs; exact hi
      · cases hs
    · split at hs
      · cases hs
      · cases hs; exact hi
    · split at hs
      · cases hs
      · cases hs; exact hi
    · split at hs
      · cases hs; exact hi
      · cases hs
    · split at hs
      · cases hs; intro h2; simp at h2
      · cases hs
    · split at hs
      · rename_i hc
        cases hs
        intro _
        have hw := hc.2
        simp only [Udp.wg] at hw
        cases hsv : s.served with
        | true => rfl
        | false => simp [hsv] at hw
      · cases hs
  have key : ∀ (evs : List UEv) (s0 s1 : Udp), (s0.stopPhase = 2 → s0.served = true) → s0.run evs = some s1 → (s1.stopPhase = 2 → s1.served = true) := by
    intro evs
    induction evs with
    | nil => intro s0 s1 hi hr; simp only [Udp.run, Option.some.injEq] at hr; subst hr; exact hi
    | cons e rest ih =>
      intro s0 s1 hi hr
      simp only [Udp.run] at hr
      split at hr
      · cases hr
      · rename_i s' hs'; exact ih s' s1 (step s0 s' e hi hs') hr
  exact key evs {} s (by intro h2; simp at h2) h hp

/-- before the repair D19: `Stop` right after `NewFrontend` completes although the serving goroutine has not even
reached `serve()` — it is still to run (observed by `life.udp_race` as one start/stop pair in 1500) -/
theorem C16_udp_preD19_counterexample :
    ∃ s, UdpPreD19.run {} [.stopBegin, .stopFinish] = some s ∧ s.stopPhase = 2 ∧ s.served = false ∧
      (s.step .serveStart).isSome = true := by
  exact ⟨_, rfl, rfl, rfl, rfl⟩

/-- The protocol before the repair violates the statement: `Stop` completes while a post-response
hook is still running (which then uses the store after it may have been stopped). -/
theorem C16_udp_old_counterexample :
    ∃ s, UdpOld.run {} [.serveStart, .packet, .handlerDone true, .stopBegin, .serveExit, .stopFinish] = some s ∧
      s.stopPhase = 2 ∧ s.posthooks = 1 := by
  exact ⟨_, rfl, rfl, rfl⟩

/-! ### HTTP -/

def Http.Good (s : Http) : Prop :=
  s.srvCreated = true ∧
  (s.stopPhase ≥ 1 → s.shutdown = true ∧ s.listenerOpen = false) ∧
  (s.stopPhase = 2 → s.handlers = 0 ∧ s.posthooks = 0 ∧ s.serveRunning = false)

theorem Http.good_step (s s' : Http) (e : HEv) (h : s.Good) (hs : s.step e = some s') : s'.Good := by
  obtain ⟨h0, h1, h2⟩ := h
  cases e with
  | serveStart =>
    simp only [Http.step] at hs
    split at hs
    · cases hs
    · cases hs; exact ⟨h0, h1, h2⟩
  | request =>
    simp only [Http.step] at hs
    split at hs
    · cases hs; rename_i hc
      simp only [Bool.and_eq_true, Bool.not_eq_true'] at hc
      refine ⟨h0, h1, fun hp => ?_⟩
      have hp' : s.stopPhase = 2 := hp
      have := (h1 (by omega)).1; simp [this] at hc
    · cases hs
  | handlerDone post =>
    simp only [Http.step] at hs
    split at hs
    · cases hs
    · cases hs; rename_i hc
      refine ⟨h0, h1, fun hp => ?_⟩
      exact absurd (h2 hp).1 hc
  | postDone =>
    simp only [Http.step] at hs
    split at hs
    · cases hs
    · cases hs; rename_i hc
      refine ⟨h0, h1, fun hp => ?_⟩
      exact absurd (h2 hp).2.1 hc
  | serveExit =>
    simp only [Http.step] at hs
    split at hs
    · cases hs
      refine ⟨h0, fun hp => ⟨(h1 hp).1, rfl⟩, fun hp => ?_⟩
      have := h2 hp; exact ⟨this.1, this.2.1, rfl⟩
    · cases hs
  | stopBegin =>
    simp only [Http.step] at hs
    split at hs
    · cases hs
    · cases hs
      refine ⟨h0, fun _ => ⟨h0, by simp [h0]⟩, fun hp => by simp at hp⟩
  | stopFinish =>
    simp only [Http.step] at hs
    split at hs
    · cases hs; rename_i hc
      exact ⟨h0, fun _ => h1 (by omega), fun _ => ⟨hc.2.1, hc.2.2.1, hc.2.2.2⟩⟩
    · cases hs

theorem Http.good_run (evs : List HEv) : ∀ (s0 : Http), s0.Good → ∀ s1, s0.run evs = some s1 → s1.Good := by
  induction evs with
  | nil => intro s0 h0 s1 h; simp [Http.run] at h; subst h; exact h0
  | cons e es ih =>
    intro s0 h0 s1 h
    simp only [Http.run] at h
    cases hs : s0.step e with
    | none => simp [hs] at h
    | some s' => rw [hs] at h; exact ih s' (Http.good_step s0 s' e h0 hs) s1 h

/-- **HTTP, every interleaving** (including `Stop` racing with start-up): when `Stop` has completed
the listener is closed, the serving goroutine has returned, and no handler or post-response hook is
in flight; no request can be accepted afterwards. -/
theorem C16_http_stop_leaves_nothing (evs : List HEv) (s : Http) (h : Http.init.run evs = some s) (hp : s.stopPhase = 2) :
    s.listenerOpen = false ∧ s.serveRunning = false ∧ s.handlers = 0 ∧ s.posthooks = 0 ∧ s.step .request = none := by
  have hg := Http.good_run evs Http.init (by simp [Http.Good, Http.init]) s h
  have a := hg.2.1 (by omega)
  have b := hg.2.2 hp
  refine ⟨a.2, b.2.2, b.1, b.2.1, ?_⟩
  simp [Http.step, a.2]

/-- The protocol before the repair violates the statement twice: `Stop` right after start-up finds
no server, completes at once and leaves the listener open … -/
theorem C16_http_old_counterexample_start_race :
    ∃ s, HttpOld.run HttpOld.init [.stopBegin, .stopFinish, .serveStart] = some s ∧ s.stopPhase = 2 ∧ s.listenerOpen = true ∧ s.serveRunning = true := by
  exact ⟨_, rfl, rfl, rfl, rfl⟩

/-- … and `Stop` completes while a post-response hook is still running. -/
theorem C16_http_old_counterexample_posthook :
    ∃ s, HttpOld.run HttpOld.init [.serveStart, .request, .handlerDone true, .stopBegin, .stopFinish] = some s ∧ s.stopPhase = 2 ∧ s.posthooks = 1 := by
  exact ⟨_, rfl, rfl, rfl⟩

/-! ### stop order and reload -/

/-- stopping goes frontends → logic → store, and the store is stopped last or not at all: once it
has been stopped nothing above it is still up to use it -/
theorem C16_stop_order {σ : Type} (r : Run σ) (keep : Bool) :
    (r.stop keep).2 = ["frontends", "logic"] ++ (if keep then [] else ["store"]) ∧
    (r.stop keep).1.frontendsUp = false ∧ (r.stop keep).1.logicUp = false := ⟨rfl, rfl, rfl⟩

/-- a reload serves the same swarm contents as before -/
theorem C16_reload_keeps_store {σ : Type} (r : Run σ) : r.reload.store = r.store ∧ r.reload.storeUp = r.storeUp := by
  simp [Run.reload, Run.stop, Run.start]

/-! ## the signal loop -/

def countUsr1 : List SigEv → Nat
  | [] => 0
  | .usr1 :: r => countUsr1 r + 1
  | _ :: r => countUsr1 r

/-- with the re-armed context, the loop never reloads more often than reload signals were delivered … -/
theorem C16_reloads_le_signals (evs : List SigEv) (s : SigLoop) :
    (SigLoop.run true s evs).reloads + (if (SigLoop.run true s evs).reloadDone then 1 else 0) ≤
      s.reloads + (if s.reloadDone then 1 else 0) + countUsr1 evs := by
  induction evs generalizing s with
  | nil => simp [SigLoop.run, countUsr1]; exact Nat.le_refl _
  | cons e rest ih =>
    have h := ih (SigLoop.step true s e)
    simp only [SigLoop.run, List.foldl_cons] at h ⊢
    refine Nat.le_trans h ?_
    cases e <;> simp only [SigLoop.step, countUsr1]
    · by_cases hx : s.exited <;> by_cases hd : s.reloadDone <;> simp [hx, hd] <;> omega
    · by_cases hx : s.exited <;> simp [hx]
    · by_cases hx : s.exited <;> by_cases hd : s.reloadDone <;> by_cases ht : s.termDone <;> simp [hx, hd, ht] <;> omega

/-- … and a signal that is followed by an iteration of the loop causes exactly one reload; further iterations none -/
theorem C16_one_reload_per_signal (k : Nat) :
    (SigLoop.run true {} (.usr1 :: List.replicate (k + 1) .select)).reloads = 1 := by
  induction k with
  | zero => rfl
  | succ k ih =>
    have : List.replicate (k + 1 + 1) SigEv.select = List.replicate (k + 1) .select ++ [.select] := by
      simp [List.replicate_succ']
    simp only [SigLoop.run] at ih ⊢
    rw [this, ← List.cons_append, List.foldl_append]
    generalize hs : List.foldl (SigLoop.step true) {} (SigEv.usr1 :: List.replicate (k + 1) .select) = st at ih ⊢
    have hnd : st.reloadDone = false ∧ st.exited = false ∧ st.termDone = false := by
      rw [← hs]
      clear hs ih this
      induction k with
      | zero => decide
      | succ k ihk =>
        have : List.replicate (k + 1 + 1) SigEv.select = List.replicate (k + 1) .select ++ [.select] := by
          simp [List.replicate_succ']
        rw [this, ← List.cons_append, List.foldl_append]
        generalize List.foldl (SigLoop.step true) {} (SigEv.usr1 :: List.replicate (k + 1) .select) = t at ihk ⊢
        obtain ⟨a, b, c⟩ := ihk
        simp [SigLoop.step, a, b, c]
    simp [SigLoop.step, hnd.1, hnd.2.1, hnd.2.2, ih]

/-- D15, the loop as it was (no re-arming): one signal, and every later iteration reloads again -/
theorem C16_old_loop_reloads_forever (k : Nat) :
    (SigLoop.run false {} (.usr1 :: List.replicate k .select)).reloads = k ∧
    (SigLoop.run false {} (.usr1 :: List.replicate k .select)).reloadDone = true ∧
    (SigLoop.run false {} (.usr1 :: List.replicate k .select)).exited = false := by
  induction k with
  | zero => exact ⟨rfl, rfl, rfl⟩
  | succ k ih =>
    have : List.replicate (k + 1) SigEv.select = List.replicate k .select ++ [.select] := by simp [List.replicate_succ']
    simp only [SigLoop.run] at ih ⊢
    rw [this, ← List.cons_append, List.foldl_append]
    generalize List.foldl (SigLoop.step false) {} (SigEv.usr1 :: List.replicate k .select) = st at ih ⊢
    obtain ⟨h1, h2, h3⟩ := ih
    simp [SigLoop.step, h1, h2, h3]

/-- shutdown still works: once the reload has been handled, a termination signal ends the loop -/
example : (SigLoop.run true {} [.usr1, .select, .term, .select]).exited = true ∧
          (SigLoop.run true {} [.usr1, .select, .term, .select]).reloads = 1 := by decide

/-! ## the metrics server (D17) -/

/-- the invariant of the repaired protocol: once Stop has completed the serving goroutine has returned -/
def Metrics.Good (s : Metrics) : Prop := s.stopDone = true → s.phase = .returned

theorem Metrics.good_step (s s' : Metrics) (e : MEv) (h : s.Good) (hs : s.step true e = some s') : s'.Good := by
  cases e with
  | goroutine =>
    simp only [Metrics.step] at hs
    intro hd
    split at hs
    all_goals first
      | (cases hs; have := h hd; simp_all)
      | (split at hs <;> first | (cases hs; have := h hd; simp_all) | cases hs)
      | cases hs
  | shutdown =>
    simp only [Metrics.step] at hs
    split at hs
    · cases hs
    · cases hs; exact h
  | complete =>
    simp only [Metrics.step] at hs
    split at hs
    · cases hs
      rename_i hc
      intro _
      simp only [Bool.not_true, Bool.false_or, Bool.and_eq_true, decide_eq_true_eq] at hc
      exact hc.2
    · cases hs

/-- **C16 for the metrics server, every interleaving**: whenever Stop has completed, the serving goroutine has
returned and the address is not bound — however Stop raced with start-up -/
theorem C16_metrics_stop_leaves_nothing (evs : List MEv) (s : Metrics)
    (h : ({} : Metrics).run true evs = some s) (hd : s.stopDone = true) : s.phase = .returned ∧ s.bound = false := by
  have key : ∀ (evs : List MEv) (s0 s1 : Metrics), s0.Good → s0.run true evs = some s1 → s1.Good := by
    intro evs
    induction evs with
    | nil => intro s0 s1 hg hr; simp only [Metrics.run, Option.some.injEq] at hr; subst hr; exact hg
    | cons e rest ih =>
      intro s0 s1 hg hr
      simp only [Metrics.run] at hr
      split at hr
      · rename_i s' hs'; exact ih s' s1 (Metrics.good_step s0 s' e hg hs') hr
      · cases hr
  have hg := key evs {} s (by intro hd; cases hd) h
  have hp := hg hd
  exact ⟨hp, by simp [Metrics.bound, hp]⟩

/-- … and Stop can always complete: from any state in which Shutdown has run, the goroutine reaches `returned`
in at most three of its own steps -/
theorem C16_metrics_stop_terminates (s : Metrics) (hs : s.shutdown = true) (hd : s.stopDone = false) :
    ∃ evs s', evs.length ≤ 4 ∧ s.run true evs = some s' ∧ s'.stopDone = true := by
  obtain ⟨ph, sd, dn⟩ := s
  simp only at hs hd
  subst hs hd
  cases ph
  · exact ⟨[.goroutine, .complete], _, by simp, rfl, rfl⟩
  · exact ⟨[.goroutine, .goroutine, .complete], _, by simp, rfl, rfl⟩
  · exact ⟨[.goroutine, .complete], _, by simp, rfl, rfl⟩
  · exact ⟨[.goroutine, .complete], _, by simp, rfl, rfl⟩
  · exact ⟨[.complete], _, by simp, rfl, rfl⟩

/-- the server as it was (Stop does not wait): the goroutine passes the shutdown check, Shutdown runs and Stop
completes, then the goroutine binds the address — bound after Stop has completed (what `life.metrics immediate=1`
observed as `free_at_stop=0`, and what killed a restart on the same address with "address already in use") -/
theorem C16_metrics_old_counterexample :
    ∃ s, ({} : Metrics).run false [.goroutine, .shutdown, .complete, .goroutine] = some s ∧ s.stopDone = true ∧ s.bound = true := by
  exact ⟨_, rfl, rfl, rfl⟩

/-! ## requests that reach a handler while the HTTP frontend is being stopped (D36) -/

def HLate.Good (s : HLate) : Prop := s.orphans = 0 ∧ (s.stopDone = true → s.stopBegun = true ∧ s.tracked = 0)

theorem HLate.good_step (s s' : HLate) (e : LEv) (h : s.Good) (hs : s.step true e = some s') : s'.Good := by
  obtain ⟨sb, tr, orp, sd⟩ := s
  obtain ⟨ho, hd⟩ := h
  simp only at ho hd
  subst ho
  cases e with
  | request late =>
    simp only [HLate.step, if_true] at hs
    split at hs
    · cases hs
    · rename_i hb
      cases hs
      refine ⟨rfl, ?_⟩
      intro hsd
      have := (hd hsd).1
      simp_all
  | done orphan =>
    simp only [HLate.step] at hs
    split at hs
    · simp at hs
    · split at hs
      · cases hs
      · cases hs
        refine ⟨rfl, ?_⟩
        intro hsd
        have := hd hsd
        exact ⟨this.1, by simp only [this.2]⟩
  | stopBegin =>
    simp only [HLate.step] at hs
    split at hs
    · cases hs
    · cases hs
      exact ⟨rfl, fun hsd => ⟨rfl, (hd hsd).2⟩⟩
  | stopFinish =>
    simp only [HLate.step] at hs
    split at hs
    · rename_i hc
      cases hs
      simp only [Bool.and_eq_true, decide_eq_true_eq] at hc
      exact ⟨rfl, fun _ => ⟨hc.1.1, hc.2⟩⟩
    · cases hs

/-- **D36**: in the repaired frontend, whatever requests arrive at whatever moment — including those on connections
`Shutdown` has written off — once Stop has completed no handler is running, and none can start -/
theorem C16_http_gate_nothing_after_stop (evs : List LEv) (s : HLate)
    (h : ({} : HLate).run true evs = some s) (hd : s.stopDone = true) :
    s.tracked = 0 ∧ s.orphans = 0 ∧ ∀ late, s.step true (.request late) = none := by
  have key : ∀ (evs : List LEv) (s0 s1 : HLate), s0.Good → s0.run true evs = some s1 → s1.Good := by
    intro evs
    induction evs with
    | nil => intro s0 s1 hg hr; simp only [HLate.run, Option.some.injEq] at hr; subst hr; exact hg
    | cons e rest ih =>
      intro s0 s1 hg hr
      simp only [HLate.run] at hr
      split at hr
      · rename_i s' hs'; exact ih s' s1 (HLate.good_step s0 s' e hg hs') hr
      · cases hr
  have hg := key evs {} s ⟨rfl, by intro hd; cases hd⟩ h
  have := hg.2 hd
  refine ⟨this.2, hg.1, ?_⟩
  intro late
  simp [HLate.step, this.1]

/-- … and the frontend as it was: Stop begins, a request arrives on a connection `Shutdown` has written off, Stop
completes — with that request's handler still running (what `life.http_late` observed) -/
theorem C16_http_late_request_counterexample :
    ∃ s, ({} : HLate).run false [.stopBegin, .request true, .stopFinish] = some s ∧ s.stopDone = true ∧ s.orphans = 1 := by
  exact ⟨_, rfl, rfl, rfl⟩

/-- **D37**: with the deadline, `Shutdown` returns whatever the clients do — from every state, within two steps -/
theorem C16_metrics_shutdown_returns (c : MConns) (h : c.shutdownReturned = false) :
    ∃ evs c', evs.length ≤ 2 ∧ c.run true evs = some c' ∧ c'.shutdownReturned = true := by
  refine ⟨[.deadline, .returns], { c with active := 0, stalled := 0, shutdownReturned := true }, by simp, ?_, rfl⟩
  simp [MConns.run, MConns.step, h]

/-- … and without it (the server as it was) one stalled connection is enough: no sequence of events makes
`Shutdown` return (what `life.metrics_stalled` observed as `stop_terminated=0`) -/
theorem C16_metrics_unbounded_shutdown_hangs (evs : List CEv) (c c' : MConns)
    (hst : 0 < c.stalled ∧ c.stalled ≤ c.active) (hr : c.shutdownReturned = false)
    (h : c.run false evs = some c') : c'.shutdownReturned = false := by
  induction evs generalizing c with
  | nil => simp only [MConns.run, Option.some.injEq] at h; subst h; exact hr
  | cons e rest ih =>
    simp only [MConns.run] at h
    split at h
    · rename_i c1 hc1
      cases e <;> simp only [MConns.step] at hc1
      · split at hc1
        · rename_i hlt
          cases hc1
          exact ih { c with active := c.active - 1 } ⟨hst.1, by show c.stalled ≤ c.active - 1; omega⟩ hr h
        · cases hc1
      · simp at hc1
      · split at hc1
        · rename_i ha; simp only [Bool.and_eq_true, decide_eq_true_eq] at ha; omega
        · cases hc1
    · cases h

/-! ## the JWT hook's refresh loop (D18) -/

/-- invariant of the repaired loop: once Stop has completed the goroutine has returned and the key set is the one
Stop left -/
def JwtLoop.Good (s : JwtLoop) : Prop := s.stopDone = true → s.phase = .returned ∧ s.swaps = s.swapsAtStop

theorem JwtLoop.good_step (s s' : JwtLoop) (e : JEv) (h : s.Good) (hs : s.step true e = some s') : s'.Good := by
  obtain ⟨ph, cl, sd, sw, sa⟩ := s
  cases e <;> simp only [JwtLoop.step] at hs
  · -- tick
    split at hs
    · cases hs; intro hd; have := h hd; simp_all
    · cases hs
  · -- answer
    split at hs
    · split at hs <;> (cases hs; intro hd; have := h hd; simp_all)
    · cases hs
  · -- notice
    split at hs
    · cases hs; intro hd; have := h hd; simp_all
    · cases hs
  · -- stop
    split at hs
    · cases hs
    · cases hs; exact h
  · -- complete
    split at hs
    · cases hs
      rename_i hc
      intro _
      simp only [Bool.not_true, Bool.false_or, Bool.and_eq_true, decide_eq_true_eq] at hc
      exact ⟨hc.2, rfl⟩
    · cases hs

/-- **C16 for the JWT hook, every interleaving** of update ticks, endpoint answers and Stop: when Stop has completed
the refresh goroutine has returned, and the key set is never replaced afterwards -/
theorem C16_jwt_stop_leaves_nothing (evs : List JEv) (s : JwtLoop)
    (h : ({} : JwtLoop).run true evs = some s) (hd : s.stopDone = true) : s.phase = .returned ∧ s.swaps = s.swapsAtStop := by
  have key : ∀ (evs : List JEv) (s0 s1 : JwtLoop), s0.Good → s0.run true evs = some s1 → s1.Good := by
    intro evs
    induction evs with
    | nil => intro s0 s1 hg hr; simp only [JwtLoop.run, Option.some.injEq] at hr; subst hr; exact hg
    | cons e rest ih =>
      intro s0 s1 hg hr
      simp only [JwtLoop.run] at hr
      split at hr
      · rename_i s' hs'; exact ih s' s1 (JwtLoop.good_step s0 s' e hg hs') hr
      · cases hr
  exact key evs {} s (by intro hd; cases hd) h hd

/-- the hook as it was: a fetch is in flight, Stop closes the channel and completes, then the endpoint answers and
the key set is replaced — after Stop (what `jwt.lifecycle` observed as `goroutines_left=1`) -/
theorem C16_jwt_old_counterexample :
    ∃ s, ({} : JwtLoop).run false [.tick, .stop, .complete, .answer] = some s ∧
      s.stopDone = true ∧ s.phase ≠ .returned ∧ s.swaps = s.swapsAtStop + 1 := by
  exact ⟨_, rfl, rfl, by decide, rfl⟩

end Lifecycle
