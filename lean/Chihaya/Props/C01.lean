import Chihaya.Props.C17
import Chihaya.Model.Logic
/-!
# C01 — swarm membership and counts follow the announce history exactly (memory store)

Specification: a swarm state is a function `(infohash, family) ↦ (seeders, leechers)`; every
operation acts on exactly one such pair by a simple function on the two maps. The store model
(shards, Go maps, counters, dropping of empty swarms) *refines* this specification: after any
history the view of the store is the fold of the specification over that history.
-/
namespace MemStore

abbrev View := Bytes → Fam → Swarm

def specUpd (σ : View) (ih : Bytes) (f : Fam) (u : Swarm → Swarm) : View :=
  fun ih' f' => if ih = ih' ∧ f = f' then u (σ ih f) else σ ih' f'

/-- the specification of each store operation -/
def Op.spec : Op → View → View
  | .putSeeder ih p now, σ => specUpd σ ih p.fam (fPutSeeder (peerKey p) now)
  | .putLeecher ih p now, σ => specUpd σ ih p.fam (fPutLeecher (peerKey p) now)
  | .graduate ih p now, σ => specUpd σ ih p.fam (fPutSeeder (peerKey p) now)
  | .deleteSeeder ih p, σ => specUpd σ ih p.fam (fDelSeeder (peerKey p))
  | .deleteLeecher ih p, σ => specUpd σ ih p.fam (fDelLeecher (peerKey p))
  | .gc cutoff, σ => fun ih f => fExpire cutoff (σ ih f)

theorem fDelSeeder_absent (pk : Bytes) (sw : Swarm) (h : AMap.has sw.seeders pk = false) : fDelSeeder pk sw = sw := by
  unfold fDelSeeder
  have : AMap.get sw.seeders pk = none := by
    simp only [AMap.has] at h; cases hg : AMap.get sw.seeders pk <;> simp_all
  rw [AMap.erase_of_not_has _ _ this]

theorem fDelLeecher_absent (pk : Bytes) (sw : Swarm) (h : AMap.has sw.leechers pk = false) : fDelLeecher pk sw = sw := by
  unfold fDelLeecher
  have : AMap.get sw.leechers pk = none := by
    simp only [AMap.has] at h; cases hg : AMap.get sw.leechers pk <;> simp_all
  rw [AMap.erase_of_not_has _ _ this]

theorem update_id (s : Shard) (hs : s.Inv) (ih : Bytes) (u : Swarm → Swarm) (hu : u (s.swarm ih) = s.swarm ih) (ih' : Bytes) :
    (s.update ih u).swarm ih' = s.swarm ih' := by
  rw [Shard.swarm_update _ hs.wf]; split
  · rename_i h; subst h; exact hu
  · rfl

/-- **Refinement**: every store operation changes the view exactly as its specification says
(any shard count, any state satisfying the invariant). -/
theorem C01_refines (m : Mem) (hm : m.Inv) (op : Op) : (m.apply op).view = op.spec m.view := by
  funext ih' f'
  cases op with
  | putSeeder ih p now =>
    show (m.onShard ih p.fam (·.putSeeder ih (peerKey p) now)).view ih' f' = _
    have : (fun s : Shard => s.putSeeder ih (peerKey p) now) = (·.update ih (fPutSeeder (peerKey p) now)) := by
      funext s; exact putSeeder_eq_update s _ _ _
    rw [this, view_onShard_update m hm]; rfl
  | putLeecher ih p now =>
    show (m.onShard ih p.fam (·.putLeecher ih (peerKey p) now)).view ih' f' = _
    have : (fun s : Shard => s.putLeecher ih (peerKey p) now) = (·.update ih (fPutLeecher (peerKey p) now)) := by
      funext s; exact putLeecher_eq_update s _ _ _
    rw [this, view_onShard_update m hm]; rfl
  | graduate ih p now =>
    show (m.onShard ih p.fam (·.graduate ih (peerKey p) now)).view ih' f' = _
    have : (fun s : Shard => s.graduate ih (peerKey p) now) = (·.update ih (fPutSeeder (peerKey p) now)) := by
      funext s; exact graduate_eq_update s _ _ _
    rw [this, view_onShard_update m hm]; rfl
  | deleteSeeder ih p =>
    show (m.deleteSeeder ih p).1.view ih' f' = specUpd m.view ih p.fam (fDelSeeder (peerKey p)) ih' f'
    have hi := shardIndex_lt m.n hm.npos ih p.fam
    have hsh := hm.shards _ hi
    cases hhas : AMap.has ((m.shard (shardIndex m.n ih p.fam)).swarm ih).seeders (peerKey p)
    · -- absent: the store is unchanged and so is the specification
      have e : (m.deleteSeeder ih p).1 = m.setShard (shardIndex m.n ih p.fam) (m.shard (shardIndex m.n ih p.fam)) := by
        simp only [Mem.deleteSeeder, (deleteSeeder_spec _ ih (peerKey p)).2, hhas, Bool.false_eq_true, if_false]
      have e2 : (m.deleteSeeder ih p).1.view ih' f' = m.view ih' f' := by
        rw [e]
        show ((m.setShard _ _).shard (shardIndex m.n ih' f')).swarm ih' = (m.shard (shardIndex m.n ih' f')).swarm ih'
        rw [shard_setShard _ _ _ _ (by rw [hm.len]; exact hi)]
        split
        · rename_i h; rw [← h]
        · rfl
      rw [e2]
      unfold specUpd
      split
      · rename_i h; obtain ⟨h1, h2⟩ := h; subst h1; subst h2
        exact (fDelSeeder_absent _ _ hhas).symm
      · rfl
    · have e : (m.deleteSeeder ih p).1 = m.onShard ih p.fam (·.update ih (fDelSeeder (peerKey p))) := by
        simp only [Mem.deleteSeeder, Mem.onShard, (deleteSeeder_spec _ ih (peerKey p)).2, hhas, if_true]
      rw [e, view_onShard_update m hm]; rfl
  | deleteLeecher ih p =>
    show (m.deleteLeecher ih p).1.view ih' f' = specUpd m.view ih p.fam (fDelLeecher (peerKey p)) ih' f'
    have hi := shardIndex_lt m.n hm.npos ih p.fam
    cases hhas : AMap.has ((m.shard (shardIndex m.n ih p.fam)).swarm ih).leechers (peerKey p)
    · have e : (m.deleteLeecher ih p).1 = m.setShard (shardIndex m.n ih p.fam) (m.shard (shardIndex m.n ih p.fam)) := by
        simp only [Mem.deleteLeecher, (deleteLeecher_spec _ ih (peerKey p)).2, hhas, Bool.false_eq_true, if_false]
      have e2 : (m.deleteLeecher ih p).1.view ih' f' = m.view ih' f' := by
        rw [e]
        show ((m.setShard _ _).shard (shardIndex m.n ih' f')).swarm ih' = (m.shard (shardIndex m.n ih' f')).swarm ih'
        rw [shard_setShard _ _ _ _ (by rw [hm.len]; exact hi)]
        split
        · rename_i h; rw [← h]
        · rfl
      rw [e2]
      unfold specUpd
      split
      · rename_i h; obtain ⟨h1, h2⟩ := h; subst h1; subst h2
        exact (fDelLeecher_absent _ _ hhas).symm
      · rfl
    · have e : (m.deleteLeecher ih p).1 = m.onShard ih p.fam (·.update ih (fDelLeecher (peerKey p))) := by
        simp only [Mem.deleteLeecher, Mem.onShard, (deleteLeecher_spec _ ih (peerKey p)).2, hhas, if_true]
      rw [e, view_onShard_update m hm]; rfl
  | gc cutoff => exact (Mem.gc_spec m hm cutoff).2 ih' f'

/-- the result of a delete: `ErrResourceDoesNotExist` exactly when the peer is not a member in that role -/
theorem C01_delete_result (m : Mem) (ih : Bytes) (p : Peer) :
    (m.deleteSeeder ih p).2 = AMap.has (m.view ih p.fam).seeders (peerKey p) ∧
    (m.deleteLeecher ih p).2 = AMap.has (m.view ih p.fam).leechers (peerKey p) :=
  ⟨(deleteSeeder_spec _ ih (peerKey p)).1, (deleteLeecher_spec _ ih (peerKey p)).1⟩

/-- **Histories**: for every finite operation sequence and every shard count ≥ 1, the store's view
is the fold of the specification (and the invariant holds). -/
theorem C01_history (n : Nat) (hn : 0 < n) (ops : List Op) :
    (ops.foldl Mem.apply (init n)).view = ops.foldl (fun σ op => op.spec σ) (fun _ _ => emptySwarm) := by
  have key : ∀ (m : Mem), m.Inv → (ops.foldl Mem.apply m).view = ops.foldl (fun σ op => op.spec σ) m.view := by
    induction ops with
    | nil => intro m _; rfl
    | cons op rest ih =>
      intro m hm
      simp only [List.foldl_cons]
      rw [ih _ (C17_step m hm op), C01_refines m hm op]
  rw [key _ (init_inv n hn)]
  congr 1
  funext ih f
  have hi := shardIndex_lt n hn ih f
  simp only [Mem.view, init, Mem.shard, List.getD_eq_getElem?_getD, List.getElem?_replicate]
  split <;> rfl

/-- scrape counts are exactly the sizes of the two sets of the view -/
theorem C01_scrape (m : Mem) (ih : Bytes) (f : Fam) :
    m.scrape ih f = ((m.view ih f).seeders.length, (m.view ih f).leechers.length) := rfl

/-- a swarm is unknown (`ErrResourceDoesNotExist`) exactly when it has no members -/
theorem C01_unknown_iff_empty (m : Mem) (hm : m.Inv) (ih : Bytes) (f : Fam) :
    m.swarm? ih f = none ↔ ((m.view ih f).seeders = [] ∧ (m.view ih f).leechers = []) := by
  have hi := shardIndex_lt m.n hm.npos ih f
  unfold Mem.swarm? Mem.view Shard.swarm
  cases hg : AMap.get (m.shard (shardIndex m.n ih f)).swarms ih with
  | none => simp [emptySwarm]
  | some sw =>
    have := ((hm.shards _ hi).ok _ (mem_of_get _ _ _ hg)).2
    simp only [Option.getD_some]
    constructor
    · intro h; cases h
    · intro h; exact absurd h this

/-! ## roles: what an announce does to the swarm -/
open Logic

/-- the role an accepted announce implies: `stopped` ⇒ no membership; `completed` or nothing left ⇒
seeder; otherwise leecher -/
def roleUpdate (req : AnnReq) (now : Int) : Swarm → Swarm :=
  let pk := peerKey req.peer
  match req.event with
  | .stopped => fun sw => fDelLeecher pk (fDelSeeder pk sw)
  | .completed => fPutSeeder pk now
  | _ => if req.left = 0 then fPutSeeder pk now else fPutLeecher pk now

theorem specUpd_specUpd (σ : View) (ih : Bytes) (f : Fam) (u v : Swarm → Swarm) :
    specUpd (specUpd σ ih f u) ih f v = specUpd σ ih f (v ∘ u) := by
  funext ih' f'
  unfold specUpd
  by_cases h : ih = ih' ∧ f = f' <;> simp [h]

/-- **An announce applied to the swarm** (the post-hook `swarmInteraction` on the memory store)
changes exactly the announced swarm of the announcer's family, by `roleUpdate`. -/
theorem C01_announce (m : Mem) (hm : m.Inv) (req : AnnReq) (now : Int) :
    (swarmInteraction (memOps now) m {} req).Inv ∧
    (swarmInteraction (memOps now) m {} req).view = specUpd m.view req.infoHash req.peer.fam (roleUpdate req now) := by
  unfold swarmInteraction roleUpdate
  simp only [Bool.false_eq_true, if_false, memOps]
  cases hev : req.event with
  | stopped =>
    simp only
    have h1 := C17_step m hm (.deleteSeeder req.infoHash req.peer)
    have r1 := C01_refines m hm (.deleteSeeder req.infoHash req.peer)
    have h2 := C17_step _ h1 (.deleteLeecher req.infoHash req.peer)
    have r2 := C01_refines _ h1 (.deleteLeecher req.infoHash req.peer)
    refine ⟨h2, ?_⟩
    show ((m.apply (.deleteSeeder _ _)).apply (.deleteLeecher _ _)).view = _
    rw [r2, r1]
    simp only [Op.spec]
    rw [specUpd_specUpd]; rfl
  | completed =>
    exact ⟨C17_step m hm (.graduate req.infoHash req.peer now), C01_refines m hm (.graduate req.infoHash req.peer now)⟩
  | none =>
    simp only
    split
    · exact ⟨C17_step m hm (.putSeeder req.infoHash req.peer now), C01_refines m hm (.putSeeder req.infoHash req.peer now)⟩
    · exact ⟨C17_step m hm (.putLeecher req.infoHash req.peer now), C01_refines m hm (.putLeecher req.infoHash req.peer now)⟩
  | started =>
    simp only
    split
    · exact ⟨C17_step m hm (.putSeeder req.infoHash req.peer now), C01_refines m hm (.putSeeder req.infoHash req.peer now)⟩
    · exact ⟨C17_step m hm (.putLeecher req.infoHash req.peer now), C01_refines m hm (.putLeecher req.infoHash req.peer now)⟩

/-- **Exactly one role**: after an announce the peer is a seeder (and not a leecher) if it sent
`completed` or has nothing left, a leecher (and not a seeder) if it has data left, and neither
after `stopped`; its last-announce time is the clock. -/
theorem C01_single_role (sw : Swarm) (hsw : SwarmOK sw) (req : AnnReq) (now : Int) :
    let sw' := roleUpdate req now sw
    let pk := peerKey req.peer
    SwarmOK sw' ∧
    (req.event = .stopped → AMap.has sw'.seeders pk = false ∧ AMap.has sw'.leechers pk = false) ∧
    (req.event ≠ .stopped → (req.event = .completed ∨ req.left = 0) →
        AMap.get sw'.seeders pk = some now ∧ AMap.has sw'.leechers pk = false) ∧
    (req.event ≠ .stopped → ¬ (req.event = .completed ∨ req.left = 0) →
        AMap.get sw'.leechers pk = some now ∧ AMap.has sw'.seeders pk = false) := by
  intro sw' pk
  obtain ⟨w1, w2, w3⟩ := hsw
  have seederCase : AMap.get (fPutSeeder pk now sw).seeders pk = some now ∧ AMap.has (fPutSeeder pk now sw).leechers pk = false :=
    ⟨by simp [fPutSeeder, AMap.get_set], by simp only [fPutSeeder]; exact has_erase_self _ w2 _⟩
  have leecherCase : AMap.get (fPutLeecher pk now sw).leechers pk = some now ∧ AMap.has (fPutLeecher pk now sw).seeders pk = false :=
    ⟨by simp [fPutLeecher, AMap.get_set], by simp only [fPutLeecher]; exact has_erase_self _ w1 _⟩
  cases hev : req.event with
  | stopped =>
    have : sw' = fDelLeecher pk (fDelSeeder pk sw) := by simp only [sw', roleUpdate, hev]; rfl
    rw [this]
    refine ⟨fDelLeecher_ok _ _ (fDelSeeder_ok _ _ ⟨w1, w2, w3⟩), fun _ => ?_, fun h => absurd rfl h, fun h => absurd rfl h⟩
    simp only [fDelLeecher, fDelSeeder]
    exact ⟨has_erase_self _ w1 _, has_erase_self _ w2 _⟩
  | completed =>
    have : sw' = fPutSeeder pk now sw := by simp only [sw', roleUpdate, hev]; rfl
    rw [this]
    exact ⟨fPutSeeder_ok _ _ _ ⟨w1, w2, w3⟩, (fun h => by cases h), fun _ _ => seederCase, fun _ h => absurd (Or.inl rfl) h⟩
  | none =>
    by_cases hl : req.left = 0
    · have : sw' = fPutSeeder pk now sw := by simp only [sw', roleUpdate, hev, hl, if_true]; rfl
      rw [this]
      exact ⟨fPutSeeder_ok _ _ _ ⟨w1, w2, w3⟩, (fun h => by cases h), fun _ _ => seederCase, fun _ h => absurd (Or.inr hl) h⟩
    · have : sw' = fPutLeecher pk now sw := by simp only [sw', roleUpdate, hev, hl, if_false]; rfl
      rw [this]
      exact ⟨fPutLeecher_ok _ _ _ ⟨w1, w2, w3⟩, (fun h => by cases h),
        (fun _ h => by rcases h with h | h <;> first | cases h | exact absurd h hl), fun _ _ => leecherCase⟩
  | started =>
    by_cases hl : req.left = 0
    · have : sw' = fPutSeeder pk now sw := by simp only [sw', roleUpdate, hev, hl, if_true]; rfl
      rw [this]
      exact ⟨fPutSeeder_ok _ _ _ ⟨w1, w2, w3⟩, (fun h => by cases h), fun _ _ => seederCase, fun _ h => absurd (Or.inr hl) h⟩
    · have : sw' = fPutLeecher pk now sw := by simp only [sw', roleUpdate, hev, hl, if_false]; rfl
      rw [this]
      exact ⟨fPutLeecher_ok _ _ _ ⟨w1, w2, w3⟩, (fun h => by cases h),
        (fun _ h => by rcases h with h | h <;> first | cases h | exact absurd h hl), fun _ _ => leecherCase⟩

end MemStore
