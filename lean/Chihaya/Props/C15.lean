import Chihaya.Model.Jwt
/-!
# C15 — the JWT hook admits an announce only with a currently valid token for it
(cryptography uninterpreted; boundary instants `now = exp`, `now = nbf` follow the library: accepted)
-/
namespace Jwt

/-- **Exact characterisation**: an announce passes iff its token parses, issuer and audience match the
configuration, the infohash claim is the announced infohash in hex, the `kid` selects a currently
published key, the algorithm is RS256, the signature verifies under *that* key, and the token is
inside its `exp` / `nbf` validity period. -/
theorem C15_accept_iff (cfg : Cfg) (ks : KeySet) (ih : String) (now : Int) (t : Token) :
    handleAnnounce cfg ks ih now (some t) = .accept ↔
      t.parses = true ∧ t.iss = some cfg.issuer ∧ (∃ l, t.aud = some l ∧ cfg.audience ∈ l) ∧ t.infohashClaim = some ih ∧
      (∃ kid k, t.kid = some kid ∧ lookupKey ks kid = some k ∧ t.algRS256 = true ∧ t.sigOK k = true) ∧
      (∀ e, t.exp = some e → now ≤ e) ∧ (∀ n, t.nbf = some n → n ≤ now) ∧
      t.expMalformed = false ∧ t.nbfMalformed = false := by
  unfold handleAnnounce
  simp only
  constructor
  · intro h
    have hv : valid cfg ks ih now t = true := by
      by_cases hv : valid cfg ks ih now t = true
      · exact hv
      · simp [hv] at h
    unfold valid at hv
    simp only [Bool.and_eq_true, beq_iff_eq] at hv
    obtain ⟨⟨⟨⟨⟨⟨⟨⟨h1, h2⟩, h3⟩, h4⟩, h5⟩, h6⟩, h7⟩, h8⟩, h9⟩ := hv
    refine ⟨h1, h2, ?_, h4, ?_, ?_, ?_, by simpa using h8, by simpa using h9⟩
    · cases ha : t.aud with
      | none => simp [ha] at h3
      | some l => simp only [ha] at h3; exact ⟨l, rfl, by simpa using h3⟩
    · cases hk : t.kid with
      | none => simp [hk] at h5
      | some kid =>
        simp only [hk] at h5
        cases hl : lookupKey ks kid with
        | none => simp [hl] at h5
        | some k => simp only [hl, Bool.and_eq_true] at h5; exact ⟨kid, k, rfl, hl, h5.1, h5.2⟩
    · intro e he; simp only [he, decide_eq_true_eq] at h6; exact h6
    · intro n hn; simp only [hn, decide_eq_true_eq] at h7; exact h7
  · intro ⟨h1, h2, ⟨l, hl, hmem⟩, h4, ⟨kid, k, hk, hlk, halg, hsig⟩, h6, h7, h8, h9⟩
    have : valid cfg ks ih now t = true := by
      unfold valid
      have e6 : (match t.exp with | none => true | some e => decide (now ≤ e)) = true := by
        cases he : t.exp with
        | none => rfl
        | some e => simp only [decide_eq_true_eq]; exact h6 e he
      have e7 : (match t.nbf with | none => true | some n => decide (n ≤ now)) = true := by
        cases hn : t.nbf with
        | none => rfl
        | some n => simp only [decide_eq_true_eq]; exact h7 n hn
      simp [h1, h2, hl, h4, hk, hlk, halg, hsig, h8, h9, hmem]
      exact ⟨e6, e7⟩
    simp [this]

/-- any single failing aspect ⇒ the one fixed client error; no token ⇒ the other fixed error; scrapes pass -/
theorem C15_reject (cfg : Cfg) (ks : KeySet) (ih : String) (now : Int) (t : Token) :
    handleAnnounce cfg ks ih now (some t) = .accept ∨ handleAnnounce cfg ks ih now (some t) = .invalid := by
  unfold handleAnnounce; simp only; split <;> simp

theorem C15_missing (cfg : Cfg) (ks : KeySet) (ih : String) (now : Int) : handleAnnounce cfg ks ih now none = .missing := rfl
theorem C15_scrape : handleScrape = .accept := rfl

/-- expired and not-yet-valid tokens are refused whatever else holds -/
theorem C15_validity_period (cfg : Cfg) (ks : KeySet) (ih : String) (now : Int) (t : Token)
    (h : (∃ e, t.exp = some e ∧ e < now) ∨ (∃ n, t.nbf = some n ∧ now < n)) :
    handleAnnounce cfg ks ih now (some t) = .invalid := by
  rcases C15_reject cfg ks ih now t with ha | hi
  · have := (C15_accept_iff cfg ks ih now t).mp ha
    rcases h with ⟨e, he, hlt⟩ | ⟨n, hn, hlt⟩
    · have := this.2.2.2.2.2.1 e he; omega
    · have := this.2.2.2.2.2.2.1 n hn; omega
  · exact hi

/-- **D35**: a token whose `exp` or `nbf` claim is there but is no NumericDate — the number in quotes, `1e19`, `null` —
has no validity period to be within and is refused, whatever else holds (the library's own check looks at
numbers only and reads one beyond `int64` as a date in the distant past) -/
theorem C15_malformed_period (cfg : Cfg) (ks : KeySet) (ih : String) (now : Int) (t : Token)
    (h : t.expMalformed = true ∨ t.nbfMalformed = true) :
    handleAnnounce cfg ks ih now (some t) = .invalid := by
  rcases C15_reject cfg ks ih now t with ha | hi
  · have := (C15_accept_iff cfg ks ih now t).mp ha
    rcases h with h | h
    · rw [this.2.2.2.2.2.2.2.1] at h; cases h
    · rw [this.2.2.2.2.2.2.2.2] at h; cases h
  · exact hi

/-- **Refreshes**: with key-set refreshes interleaved at operation granularity, every validation is
decided against exactly one published key set — the one of the latest successful refresh before it
(never a mixture of old and new); a failed refresh changes nothing. -/
def keysAt (ks : KeySet) : List Ev → KeySet
  | [] => ks
  | .refresh ks' :: es => keysAt ks' es
  | _ :: es => keysAt ks es

theorem C15_refresh (cfg : Cfg) (ks : KeySet) (before : List Ev) (ih : String) (now : Int) (tok : Option Token) (after : List Ev) :
    run cfg ks (before ++ .announce ih now tok :: after) =
      run cfg ks before ++ handleAnnounce cfg (keysAt ks before) ih now tok :: run cfg (keysAt ks before) after := by
  induction before generalizing ks with
  | nil => simp [run, keysAt]
  | cons e es ih' =>
    cases e with
    | refresh ks' => simp only [List.cons_append, run, keysAt]; exact ih' ks'
    | refreshFailed => simp only [List.cons_append, run, keysAt]; exact ih' ks
    | announce i n t => simp only [List.cons_append, run, keysAt]; rw [ih' ks]

/-- **D34**: entries of a fetched set that do not decode to a key do not matter — the set publishes exactly its
usable keys, wherever the unusable entries stand: what a token is verified against is the same with and
without them (before D34 one such entry made the whole refresh fail, so a withdrawn key kept admitting
announces and the newly published ones were refused). -/
theorem C15_unusable_entries_do_not_matter (a b : List (String × Option Nat)) (kid : String) :
    publish (a ++ (kid, none) :: b) = publish (a ++ b) := by
  simp [publish, List.filterMap_append]

/-- … and a usable entry is published under its kid -/
theorem C15_usable_entry_published (es : List (String × Option Nat)) (kid : String) (k : Nat)
    (h : (kid, some k) ∈ es) : (kid, k) ∈ publish es := by
  simp only [publish, List.mem_filterMap]
  exact ⟨(kid, some k), h, rfl⟩

/-- non-vacuity: a rotation to `k9` published next to an Ed25519 entry takes effect -/
example : let t : Token := { parses := true, iss := some "iss", aud := some ["aud"], infohashClaim := some "00ff", kid := some "k9",
                               algRS256 := true, sigOK := fun k => k == 9, exp := none, nbf := none }
    handleAnnounce ⟨"iss", "aud"⟩ (publish [("kx", none), ("k9", some 9)]) "00ff" 50 (some t) = .accept := by decide

/-- non-vacuity: a token that is accepted, and the same token after key rotation -/
example : let t : Token := { parses := true, iss := some "iss", aud := some ["a", "aud"], infohashClaim := some "00ff", kid := some "k1",
                               algRS256 := true, sigOK := fun k => k == 7, exp := some 100, nbf := some 10 }
    handleAnnounce ⟨"iss", "aud"⟩ [("k1", 7)] "00ff" 50 (some t) = .accept ∧
    handleAnnounce ⟨"iss", "aud"⟩ [("k1", 8)] "00ff" 50 (some t) = .invalid ∧
    handleAnnounce ⟨"iss", "aud"⟩ [("k1", 7)] "00ff" 101 (some t) = .invalid := by decide

end Jwt
