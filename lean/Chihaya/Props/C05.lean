import Chihaya.Props.C01
/-!
# C05 — expiry removes exactly the stale peers and never a freshly announced one (memory store)

Sequential statement proved here. The concurrent statement rests on C04: each per-swarm step of
the pass runs under the shard's write lock and is the pointwise update `fExpire`, so it composes
with concurrent puts exactly as in a sequential order of the steps. Boundary (reading R6): a
membership whose last announce is *exactly* at the cutoff is removed (`mtime ≤ cutoff`).
-/
namespace MemStore

theorem get_filter (m : PMap) (hm : AMap.WF m) (p : Bytes × Int → Bool) (k : Bytes) :
    AMap.get (m.filter p) k = (AMap.get m k).bind (fun v => if p (k, v) then some v else none) := by
  induction m with
  | nil => simp
  | cons e r ih =>
    obtain ⟨k0, v0⟩ := e
    have hr : AMap.WF r := by simp only [AMap.WF, AMap.keys, List.map_cons, List.nodup_cons] at hm; exact hm.2
    have hk0 : AMap.get r k0 = none := by
      simp only [AMap.WF, AMap.keys, List.map_cons, List.nodup_cons] at hm
      exact (AMap.get_none_iff r k0).mpr hm.1
    simp only [List.filter_cons]
    by_cases hk : k0 = k
    · subst hk
      by_cases hp : p (k0, v0) = true
      · simp [hp, AMap.get]
      · simp only [hp, Bool.false_eq_true, if_false, AMap.get, if_true, Option.bind_some]
        rw [ih hr, hk0]; rfl
    · by_cases hp : p (k0, v0) = true
      · simp [hp, AMap.get, hk, ih hr]
      · simp [hp, AMap.get, hk, ih hr]

/-- **Exactly the stale ones**: after a pass with cutoff `T`, in every swarm of every family a peer
is a seeder (leecher) with time `t` iff it was one before with that time and `t > T`. -/
theorem C05_expire_exact (m : Mem) (hm : m.Inv) (T : Int) (ih : Bytes) (f : Fam) (pk : Bytes) (t : Int) :
    (AMap.get ((m.gc T).view ih f).seeders pk = some t ↔ AMap.get (m.view ih f).seeders pk = some t ∧ t > T) ∧
    (AMap.get ((m.gc T).view ih f).leechers pk = some t ↔ AMap.get (m.view ih f).leechers pk = some t ∧ t > T) := by
  have hi := shardIndex_lt m.n hm.npos ih f
  have hok : SwarmOK (m.view ih f) := (hm.shards _ hi).swarm_ok ih
  rw [(Mem.gc_spec m hm T).2 ih f]
  simp only [fExpire]
  constructor
  · rw [get_filter _ hok.1]
    cases hg : AMap.get (m.view ih f).seeders pk with
    | none => simp
    | some v =>
      simp only [Option.bind_some, decide_eq_true_eq]
      split
      · rename_i h; constructor
        · intro e; cases e; exact ⟨rfl, h⟩
        · intro ⟨e, _⟩; exact e
      · rename_i h; constructor
        · intro e; cases e
        · intro ⟨e, ht⟩; cases e; exact absurd ht h
  · rw [get_filter _ hok.2.1]
    cases hg : AMap.get (m.view ih f).leechers pk with
    | none => simp
    | some v =>
      simp only [Option.bind_some, decide_eq_true_eq]
      split
      · rename_i h; constructor
        · intro e; cases e; exact ⟨rfl, h⟩
        · intro ⟨e, _⟩; exact e
      · rename_i h; constructor
        · intro e; cases e
        · intro ⟨e, ht⟩; cases e; exact absurd ht h

/-- swarms left without members disappear: later requests see them as unknown -/
theorem C05_empty_swarm_unknown (m : Mem) (hm : m.Inv) (T : Int) (ih : Bytes) (f : Fam)
    (hS : ∀ e ∈ (m.view ih f).seeders, e.2 ≤ T) (hL : ∀ e ∈ (m.view ih f).leechers, e.2 ≤ T) :
    (m.gc T).swarm? ih f = none ∧ (m.gc T).scrape ih f = (0, 0) := by
  have hg := Mem.gc_spec m hm T
  have hv : (m.gc T).view ih f = emptySwarm := by
    rw [hg.2 ih f]
    simp only [fExpire, emptySwarm]
    congr 1
    · rw [List.filter_eq_nil_iff]; intro e he; have := hS e he; simp; omega
    · rw [List.filter_eq_nil_iff]; intro e he; have := hL e he; simp; omega
  refine ⟨(C01_unknown_iff_empty _ hg.1 ih f).mpr (by rw [hv]; exact ⟨rfl, rfl⟩), ?_⟩
  rw [C01_scrape, hv]; rfl

/-- a re-announce restarts the peer's lifetime: after an announce at clock `now` no pass with a
cutoff before `now` removes the membership it created -/
theorem C05_reannounce_restarts (m : Mem) (hm : m.Inv) (req : AnnReq) (now T : Int) (hT : T < now) (hns : req.event ≠ .stopped) :
    let m' := Logic.swarmInteraction (Logic.memOps now) m {} req
    let v := (m'.gc T).view req.infoHash req.peer.fam
    AMap.get v.seeders (peerKey req.peer) = some now ∨ AMap.get v.leechers (peerKey req.peer) = some now := by
  intro m' v
  obtain ⟨hinv, hview⟩ := C01_announce m hm req now
  have hi := shardIndex_lt m.n hm.npos req.infoHash req.peer.fam
  have hsw : SwarmOK (m.view req.infoHash req.peer.fam) := (hm.shards _ hi).swarm_ok _
  have hrole := C01_single_role _ hsw req now
  simp only at hrole
  have hv' : m'.view req.infoHash req.peer.fam = roleUpdate req now (m.view req.infoHash req.peer.fam) := by
    show (Logic.swarmInteraction (Logic.memOps now) m {} req).view _ _ = _
    rw [hview]; simp [specUpd]
  have hex := C05_expire_exact m' hinv T req.infoHash req.peer.fam (peerKey req.peer) now
  by_cases hs : req.event = .completed ∨ req.left = 0
  · left
    exact hex.1.mpr ⟨by rw [hv']; exact (hrole.2.2.1 hns hs).1, hT⟩
  · right
    exact hex.2.mpr ⟨by rw [hv']; exact (hrole.2.2.2 hns hs).1, hT⟩

/-- **The stores' own expiry loop** (D25): a tick at the tracker's clock `c` keeps a membership
stamped `t` exactly when less than the lifetime has passed on that clock since the stamp -/
theorem C05_loop_exact (m : Mem) (hm : m.Inv) (c life : Int) (ih : Bytes) (f : Fam) (pk : Bytes) (t : Int) :
    (AMap.get ((m.loopTick c life).view ih f).seeders pk = some t ↔ AMap.get (m.view ih f).seeders pk = some t ∧ c - t < life) ∧
    (AMap.get ((m.loopTick c life).view ih f).leechers pk = some t ↔ AMap.get (m.view ih f).leechers pk = some t ∧ c - t < life) := by
  have h := C05_expire_exact m hm (loopCutoff c life) ih f pk t
  have e : t > loopCutoff c life ↔ c - t < life := by unfold loopCutoff; omega
  unfold Mem.loopTick
  rw [h.1, h.2, e]; exact ⟨Iff.rfl, Iff.rfl⟩

/-- … so a peer stays listed for its whole lifetime after its last announce, whatever ticks of the
loop fall in between: announced at clock `now`, still there after a tick at any clock `c` with
`c - now < life` -/
theorem C05_loop_keeps_for_lifetime (m : Mem) (hm : m.Inv) (req : AnnReq) (now c life : Int) (hc : c - now < life) (hns : req.event ≠ .stopped) :
    let m' := Logic.swarmInteraction (Logic.memOps now) m {} req
    let v := (m'.loopTick c life).view req.infoHash req.peer.fam
    AMap.get v.seeders (peerKey req.peer) = some now ∨ AMap.get v.leechers (peerKey req.peer) = some now :=
  C05_reannounce_restarts m hm req now (loopCutoff c life) (by unfold loopCutoff; omega) hns

/-- **In real time.** The cached clock `clk` lags the wall clock by less than its refresh period `P`
(`t - P < clk t ≤ t`). A membership announced at wall time `A` (so stamped `clk A`) survives every tick
of the loop at a wall time `R` with `R - A ≤ life - P`, and no tick at a wall time `R` with
`R - A ≥ life + P` keeps it: the lifetime a client gets is the configured one up to one refresh period
either way. (Before D25 the cutoff came from the wall clock and the lower bound was `life - P` only in
the sense that `P` could be lost on top of it.) -/
theorem C05_loop_real_time (m : Mem) (hm : m.Inv) (clk : Int → Int) (P life A R : Int)
    (hlag : ∀ t, t - P < clk t ∧ clk t ≤ t) (ih : Bytes) (f : Fam) (pk : Bytes)
    (hmem : AMap.get (m.view ih f).seeders pk = some (clk A)) :
    (R - A ≤ life - P → AMap.get ((m.loopTick (clk R) life).view ih f).seeders pk = some (clk A)) ∧
    (R - A ≥ life + P → AMap.get ((m.loopTick (clk R) life).view ih f).seeders pk ≠ some (clk A)) := by
  have h := (C05_loop_exact m hm (clk R) life ih f pk (clk A)).1
  have hA := hlag A; have hR := hlag R
  constructor
  · intro hle
    exact h.mpr ⟨hmem, by omega⟩
  · intro hge hk
    have := (h.mp hk).2
    omega

/-- each per-swarm step of the pass (the unit that interleaves with other requests) removes only
stale entries: whatever it keeps it had, and whatever it drops has `mtime ≤ cutoff` -/
theorem C05_step_never_removes_fresh (sw : Swarm) (T : Int) (e : Bytes × Int) :
    (e ∈ sw.seeders → e.2 > T → e ∈ (fExpire T sw).seeders) ∧ (e ∈ sw.leechers → e.2 > T → e ∈ (fExpire T sw).leechers) := by
  simp only [fExpire, List.mem_filter, decide_eq_true_eq]
  exact ⟨fun h1 h2 => ⟨h1, h2⟩, fun h1 h2 => ⟨h1, h2⟩⟩

end MemStore
