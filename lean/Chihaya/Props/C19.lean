import Chihaya.Lemmas.Bencode
/-!
# C19 — Bencode encode/decode round-trips and the decoder rejects garbage safely

Statements only; proofs cite `Lemmas/Bencode.lean`.
-/
namespace Bencode

/-- Full statement, part 1 (round trip): decoding the encoding of any supported value —
int64 integers, byte strings, lists, dictionaries with distinct keys, nested up to the decoder's bound of
`maxNesting` = 10000 containers (D21; the grammar decoder `dec`, with no bound, round-trips every nesting: second
conjunct), of any size below 2^63 bytes, followed by arbitrary further bytes — yields exactly that value and
leaves exactly those further bytes. Dictionary entry order is the order of the association
list, so the theorem covers every emission order of a Go map. -/
def C19_roundtrip_Statement : Prop :=
  ∀ (v : BVal) (rest : Bytes), WF v → (enc v ++ rest).length < 2^63 →
    (depth v ≤ maxNesting →
      decD maxNesting (2 * (enc v ++ rest).length + 2) (enc v ++ rest) = .ok (v, rest) ∧
      unmarshal (enc v ++ rest) = .ok v) ∧
    dec (2 * (enc v ++ rest).length + 2) (enc v ++ rest) = .ok (v, rest)

theorem C19_roundtrip : C19_roundtrip_Statement := by
  intro v rest hv hsz
  have hc := (cost_le v).1
  have hlen : (enc v).length < 2^63 := by simp only [List.length_append] at hsz; omega
  have hfuel : cost v ≤ 2 * (enc v ++ rest).length + 2 := by simp only [List.length_append]; omega
  refine ⟨fun hk => ?_, dec_enc v hv _ rest hfuel hlen⟩
  have h := decD_enc v hv maxNesting (2 * (enc v ++ rest).length + 2) rest hfuel hk hlen
  refine ⟨h, ?_⟩
  unfold unmarshal
  rw [h]

/-- Full statement, part 2 (safety on arbitrary input): for every byte string the decoder
returns a value or a genuine decoding error — the model has no crash outcome, the recursion
always terminates within the fuel `Unmarshal` is given (`.fuel` is unreachable) — and the
bytes it asks the allocator for never exceed the bytes it actually consumed. -/
def C19_safe_Statement : Prop :=
  ∀ (inp : Bytes),
    unmarshal inp ≠ .error .fuel ∧
    ∀ v r, decD maxNesting (2 * inp.length + 2) inp = .ok (v, r) → allocOf v + r.length ≤ inp.length

theorem C19_safe : C19_safe_Statement := by
  intro inp
  have hf := (fuelOK (2 * inp.length + 2)).1 inp (by omega)
  refine ⟨?_, fun v r h => (allocOK _).1 inp v r (decD_sound _ _ _ _ h)⟩
  unfold unmarshal
  cases h : decD maxNesting (2 * inp.length + 2) inp with
  | error e =>
    intro he
    simp only [Except.error.injEq] at he
    subst he
    have := decD_fuel _ _ _ h
    have h1 := hf.1
    rw [this] at h1
    simp at h1
  | ok vr => simp

/-- **D21**: whatever `Unmarshal` returns nests at most `maxNesting` containers — the decoder, which recurses once per
nesting level, never goes deeper; a value nested deeper than that is refused (an error, not a stack exhaustion) -/
theorem C19_nesting_bounded (inp : Bytes) (v : BVal) (h : unmarshal inp = .ok v) : depth v ≤ maxNesting := by
  unfold unmarshal at h
  cases hd : decD maxNesting (2 * inp.length + 2) inp with
  | error e => rw [hd] at h; cases h
  | ok vr =>
    obtain ⟨v', r⟩ := vr
    rw [hd] at h
    simp only [Except.ok.injEq] at h
    subst h
    exact decD_depth _ _ _ _ _ hd

theorem C19_deeper_refused (v : BVal) (rest : Bytes) (hv : WF v) (hsz : (enc v ++ rest).length < 2^63)
    (hdeep : maxNesting < depth v) : ∃ e, unmarshal (enc v ++ rest) = .error e := by
  cases h : unmarshal (enc v ++ rest) with
  | error e => exact ⟨e, rfl⟩
  | ok v' =>
    exfalso
    have hb := C19_nesting_bounded _ _ h
    unfold unmarshal at h
    cases hd : decD maxNesting (2 * (enc v ++ rest).length + 2) (enc v ++ rest) with
    | error e => rw [hd] at h; cases h
    | ok vr =>
      obtain ⟨v'', r⟩ := vr
      rw [hd] at h
      simp only [Except.ok.injEq] at h
      subst h
      have hs := decD_sound _ _ _ _ hd
      have hg := (C19_roundtrip v rest hv hsz).2
      rw [hg] at hs
      simp only [Except.ok.injEq, Prod.mk.injEq] at hs
      rw [← hs.1] at hb
      omega

/-- rejections the statement names: a negative length prefix is an error, not a crash,
whatever follows and whatever the fuel -/
theorem C19_negative_length (f : Nat) (rest : Bytes) :
    dec (f+1) (45 :: 49 :: 58 :: rest) = .error .syntax := by
  have h1 : ((45 : UInt8) = cI) = False := by decide
  have h2 : ((45 : UInt8) = cL) = False := by decide
  have h3 : ((45 : UInt8) = cD) = False := by decide
  have hs : splitAtByte cColon (45 :: 49 :: 58 :: rest) = some ([45, 49], rest) := by
    simp [splitAtByte, cColon]
  have hp : Decimal.parseInt64 [45, 49] = some (-1) := by decide
  simp only [dec, h1, h2, h3, if_false, readTerminatedInt, hs, hp, bufSize]
  simp

/-- a length prefix larger than what was received is an error (`2^63-1:abc`) -/
example : unmarshal [57,50,50,51,51,55,50,48,51,54,56,53,52,55,55,53,56,48,55, 58, 97,98,99] = .error .eof := by
  rfl

/-- non-vacuity of the round trip: a nested value satisfying `WF` -/
example : WF (.dict [([97], .list [.int (-5), .str [1,2,3]]), ([98], .dict [])]) := by
  simp [WF, WFList, WFDict, Decimal.Int64]

example : unmarshal [100, 49,58,97, 108, 105,45,53,101, 51,58,1,2,3, 101, 49,58,98, 100,101, 101]
    = .ok (.dict [([97], .list [.int (-5), .str [1,2,3]]), ([98], .dict [])]) := by
  rfl

/-- **Streams**: the encodings of any values (nested within the bound) written back to back (followed by anything)
are read back as exactly those values, in order, leaving exactly what followed -/
theorem C19_stream (vs : List BVal) (hwf : ∀ v ∈ vs, WF v) (hd : ∀ v ∈ vs, depth v ≤ maxNesting) (rest : Bytes)
    (hsz : ((vs.map enc).flatten ++ rest).length < 2^63) :
    decStream vs.length ((vs.map enc).flatten ++ rest) = (vs, rest) := by
  induction vs with
  | nil => rfl
  | cons v tl ih =>
    simp only [List.map_cons, List.flatten_cons, List.append_assoc, List.length_cons] at hsz ⊢
    have h := ((C19_roundtrip v ((tl.map enc).flatten ++ rest) (hwf v (by simp)) hsz).1 (hd v (by simp))).1
    simp only [decStream, h]
    have htl : ((tl.map enc).flatten ++ rest).length < 2^63 := by
      simp only [List.length_append] at hsz ⊢; omega
    rw [ih (fun x hx => hwf x (by simp [hx])) (fun x hx => hd x (by simp [hx])) htl]

end Bencode
