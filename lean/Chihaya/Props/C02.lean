import Chihaya.Model.Select
import Chihaya.Props.C01
import Chihaya.Lemmas.HttpParse
/-!
# C02 — announce peer lists honour numwant, role preference and self-exclusion

`validSelection` is the executable form of the statement (it is what the harness evaluates on the
lists the real stores return); the theorem says the selection loop satisfies it for *every*
iteration order of the two Go maps / Redis replies.
-/
namespace Select

theorem all_mem_of_subset (a b : List Bytes) (h : ∀ x ∈ a, x ∈ b) : a.all (· ∈ b) = true := by
  simp only [List.all_eq_true, decide_eq_true_eq]; exact h

/-- For every iteration order (`S'`, `L'` any permutations of the seeder and leecher keys), every
numwant and every announcer (member or not), the selected list is valid: no repeats, only members
of the announced swarm; a seeder gets `min numwant |L|` leechers; a leecher gets `min numwant |S|`
seeders first and then `min (numwant − that) |L \ {self}|` other leechers, never itself. -/
theorem C02_selection (S L S' L' : List Bytes) (hS : S'.Perm S) (hL : L'.Perm L) (nS : S.Nodup) (nL : L.Nodup)
    (hdisj : ∀ x, x ∈ S → x ∉ L) (seeder : Bool) (numWant : Nat) (self : Bytes) :
    validSelection S L seeder numWant self (selectKeys S' L' seeder numWant self) = true := by
  have nS' : S'.Nodup := hS.nodup_iff.mpr nS
  have nL' : L'.Nodup := hL.nodup_iff.mpr nL
  have lenS : S'.length = S.length := hS.length_eq
  have lenL : L'.length = L.length := hL.length_eq
  unfold validSelection selectKeys
  cases seeder with
  | true =>
    simp only [if_true, Bool.and_eq_true, decide_eq_true_eq, beq_iff_eq]
    refine ⟨(List.take_sublist _ _).nodup nL', ?_, ?_⟩
    · exact all_mem_of_subset _ _ (fun x hx => hL.mem_iff.mp (List.mem_of_mem_take hx))
    · rw [List.length_take, lenL]
  | false =>
    simp only [Bool.false_eq_true, if_false, Bool.and_eq_true, decide_eq_true_eq, beq_iff_eq]
    have hk : (S'.take numWant).length = min numWant S.length := by rw [List.length_take, lenS]
    have hfl : (L'.filter (· ≠ self)).length = (L.filter (· ≠ self)).length := (hL.filter _).length_eq
    have htake : (S'.take numWant ++ (L'.filter (· ≠ self)).take (numWant - (S'.take numWant).length)).take (min numWant S.length) = S'.take numWant := by
      rw [← hk]; exact List.take_left' rfl
    have hdrop : (S'.take numWant ++ (L'.filter (· ≠ self)).take (numWant - (S'.take numWant).length)).drop (min numWant S.length) =
        (L'.filter (· ≠ self)).take (numWant - (S'.take numWant).length) := by
      rw [← hk]; exact List.drop_left' rfl
    rw [htake, hdrop]
    refine ⟨?_, ⟨⟨hk, ?_⟩, ?_⟩, ?_⟩
    · -- no repeats
      rw [List.nodup_append]
      refine ⟨(List.take_sublist _ _).nodup nS', ((List.take_sublist _ _).trans List.filter_sublist).nodup nL', ?_⟩
      intro a ha b hb hab
      subst hab
      have h1 : a ∈ S := hS.mem_iff.mp (List.mem_of_mem_take ha)
      have h2 : a ∈ L := hL.mem_iff.mp (List.mem_filter.mp (List.mem_of_mem_take hb)).1
      exact hdisj a h1 h2
    · exact all_mem_of_subset _ _ (fun x hx => hS.mem_iff.mp (List.mem_of_mem_take hx))
    · simp only [List.all_eq_true, Bool.and_eq_true, decide_eq_true_eq, bne_iff_ne, ne_eq]
      intro x hx
      have hf := List.mem_of_mem_take hx
      rw [List.mem_filter] at hf
      exact ⟨hL.mem_iff.mp hf.1, by simpa using hf.2⟩
    · rw [List.length_take, hk, hfl]

/-- what the stored swarm offers: with the single-role invariant the two key lists are duplicate
free and disjoint, so `C02_selection` applies to every reachable state -/
theorem keys_of_swarmOK (sw : MemStore.Swarm) (h : MemStore.SwarmOK sw) :
    (AMap.keys sw.seeders).Nodup ∧ (AMap.keys sw.leechers).Nodup ∧ ∀ x, x ∈ AMap.keys sw.seeders → x ∉ AMap.keys sw.leechers := by
  refine ⟨h.1, h.2.1, fun x hs hl => h.2.2 x ⟨(AMap.mem_keys_iff _ _).mp hs, (AMap.mem_keys_iff _ _).mp hl⟩⟩

/-- the memory store's `AnnouncePeers` on any state satisfying the invariant returns a valid selection -/
theorem C02_memory (m : MemStore.Mem) (hm : m.Inv) (ih : Bytes) (seeder : Bool) (numWant : Nat) (p : Peer) (out : List Bytes)
    (h : m.announcePeers ih seeder numWant p = some out) :
    validSelection (AMap.keys (m.view ih p.fam).seeders) (AMap.keys (m.view ih p.fam).leechers) seeder numWant (MemStore.peerKey p) out = true := by
  unfold MemStore.Mem.announcePeers at h
  cases hs : m.swarm? ih p.fam with
  | none => simp [hs] at h
  | some sw =>
    simp only [hs, Option.map_some, Option.some.injEq] at h
    have hv : m.view ih p.fam = sw := by
      unfold MemStore.Mem.swarm? at hs
      simp [MemStore.Mem.view, MemStore.Shard.swarm, hs]
    have hi := MemStore.shardIndex_lt m.n hm.npos ih p.fam
    have hok : MemStore.SwarmOK sw := by rw [← hv]; exact (hm.shards _ hi).swarm_ok ih
    obtain ⟨k1, k2, k3⟩ := keys_of_swarmOK sw hok
    rw [hv, ← h, selectPeers_eq]
    exact C02_selection _ _ _ _ (List.Perm.refl _) (List.Perm.refl _) k1 k2 k3 seeder numWant _

end Select

namespace Logic
open MemStore

/-- numwant handed to the store: the configured default when absent, an explicit value capped at
the configured maximum (`SanitizeAnnounce`, shared by both frontends) -/
theorem C02_numwant (provided : Bool) (nw mx df : Nat) :
    (provided = false → Sanitize.capNumWant provided nw mx df = df) ∧
    (provided = true → Sanitize.capNumWant provided nw mx df = min nw mx) :=
  Sanitize.capNumWant_spec provided nw mx df

/-- When the selection is empty (unknown swarm, numwant 0, or nobody else to offer) the response
contains just the announcer itself; otherwise exactly the selection — in the list of the
announcer's address family, the other list untouched. -/
theorem C02_response_peers {σ : Type} (ops : StoreOps σ) (st : σ) (ctx : Ctx) (req : AnnReq) (resp : AnnResp) (h : ctx.skipResponse = false)
    (hup : ops.down st = false) :
    ∃ ctx' resp', responseAnnounce ops st ctx req resp = .ok (ctx', resp') ∧ ctx' = ctx ∧
      let sel := (ops.announcePeers st req.infoHash (req.left = 0) req.numWant req.peer).getD []
      let peers := if sel.isEmpty then [req.peer] else sel
      (req.peer.fam = .v4 → resp'.v4peers = peers ∧ resp'.v6peers = resp.v6peers) ∧
      (req.peer.fam = .v6 → resp'.v6peers = peers ∧ resp'.v4peers = resp.v4peers) := by
  unfold responseAnnounce
  simp only [h, hup, Bool.false_eq_true, if_false]
  refine ⟨_, _, rfl, rfl, ?_⟩
  constructor
  · intro hf; rw [hf]; simp only; split <;> simp
  · intro hf; rw [hf]; simp only; split <;> simp

end Logic
