import Chihaya.Model.HttpWrite
import Chihaya.Props.C19
/-!
# C08 — HTTP responses are well-formed bencode carrying exactly the computed answer

The body is `Bencode.enc v'` where `v'` is the response value with its dictionary entries in
*some* order (Go map iteration). C19 gives: any BitTorrent client decoding those bytes gets `v'`
back with nothing left over; the theorems here say `v'` is well-formed, that lookups do not depend
on the order, and what each key holds.
-/
set_option linter.unusedSimpArgs false
namespace HttpWrite
open Bencode Bytes

def lookup (key : Bytes) : List (Bytes × BVal) → Option BVal
  | [] => none
  | (k', v) :: r => if k' = key then some v else lookup key r

theorem WFDict_iff (d : List (Bytes × BVal)) : WFDict d ↔ ∀ p ∈ d, WF p.2 := by
  induction d with
  | nil => simp [WFDict]
  | cons p ps ih =>
    obtain ⟨k, v⟩ := p
    simp only [WFDict, ih, List.mem_cons, forall_eq_or_imp]

/-- a dictionary stays well-formed under any reordering of its entries -/
theorem WF_dict_perm (d d' : List (Bytes × BVal)) (hp : d'.Perm d) (h : WF (.dict d)) : WF (.dict d') := by
  simp only [WF] at h ⊢
  obtain ⟨hw, hn⟩ := h
  constructor
  · rw [WFDict_iff] at hw ⊢
    intro p hp'; exact hw p (hp.mem_iff.mp hp')
  · exact (hp.map _).nodup_iff.mpr hn

theorem lookup_none_of_not_mem (key : Bytes) (d : List (Bytes × BVal)) (h : key ∉ d.map (·.1)) : lookup key d = none := by
  induction d with
  | nil => rfl
  | cons p ps ih =>
    obtain ⟨k', v⟩ := p
    simp only [List.map_cons, List.mem_cons, not_or] at h
    simp [lookup, Ne.symm h.1, ih h.2]

/-- with distinct keys, what a client finds under a key does not depend on the entry order -/
theorem lookup_perm (key : Bytes) (d d' : List (Bytes × BVal)) (hp : d'.Perm d) (hn : (d.map (·.1)).Nodup) :
    lookup key d' = lookup key d := by
  induction hp with
  | nil => rfl
  | cons x _ ih =>
    obtain ⟨k', v⟩ := x
    simp only [List.map_cons, List.nodup_cons] at hn
    simp only [lookup, ih hn.2]
  | swap x y l =>
    obtain ⟨kx, vx⟩ := x
    obtain ⟨ky, vy⟩ := y
    simp only [List.map_cons, List.nodup_cons, List.mem_cons, not_or] at hn
    simp only [lookup]
    by_cases h1 : ky = key
    · by_cases h2 : kx = key
      · exact absurd (h2.trans h1.symm) hn.1.1
      · simp [h1, h2]
    · simp [h1]
  | trans h1 h2 ih1 ih2 =>
    rw [ih1 ((h2.map _).nodup_iff.mpr hn), ih2 hn]

/-- C19 round trip specialised to "a response value, entries in any order" -/
theorem decode_any_order (d d' : List (Bytes × BVal)) (hp : d'.Perm d) (h : WF (.dict d))
    (hsz : (enc (.dict d')).length < 2^63) :
    decodeAll (enc (.dict d')) = some (.dict d') ∧ ∀ key, lookup key d' = lookup key d := by
  have hw := WF_dict_perm d d' hp h
  have hrt := (C19_roundtrip (.dict d') [] hw (by simpa using hsz)).2
  constructor
  · unfold decodeAll
    simp only [List.append_nil] at hrt
    rw [hrt]
  · intro key
    have : (d.map (·.1)).Nodup := by simp only [WF] at h; exact h.2
    exact lookup_perm key d d' hp this

/-! ## announce responses -/

structure RespOK (r : AnnResp) : Prop where
  complete : r.complete < 2^32
  incomplete : r.incomplete < 2^32
  interval : -(2^63 : Int) ≤ r.interval ∧ r.interval < 2^63
  minInterval : -(2^63 : Int) ≤ r.minInterval ∧ r.minInterval < 2^63
  v4 : ∀ p ∈ r.v4peers, p.ip.length = 4 ∧ p.id.length = 20
  v6 : ∀ p ∈ r.v6peers, p.ip.length = 16 ∧ p.id.length = 20

theorem seconds_int64 (d : Int) (h : -(2^63 : Int) ≤ d ∧ d < 2^63) : Decimal.Int64 (seconds d) := by
  unfold seconds Decimal.Int64
  have h1 := Int.tdiv_le_self (a := d) (b := 1000000000)
  constructor
  · by_cases hd : 0 ≤ d
    · have := Int.tdiv_nonneg hd (show (0:Int) ≤ 1000000000 by decide); omega
    · have : -d ≥ 0 := by omega
      have h2 : (-d).tdiv 1000000000 ≤ -d := Int.tdiv_le_self (b := 1000000000) (by omega)
      rw [Int.neg_tdiv] at h2
      omega
  · by_cases hd : 0 ≤ d
    · have := h1 hd; omega
    · have : d.tdiv 1000000000 ≤ 0 := by
        have h3 : 0 ≤ (-d).tdiv 1000000000 := Int.tdiv_nonneg (by omega) (by decide)
        rw [Int.neg_tdiv] at h3; omega
      omega

theorem mapM'_compact4 (l : List Peer) (h : ∀ p ∈ l, p.ip.length = 4) :
    mapM' compact4 l = some (l.map fun p => p.ip ++ be16 (p.port % 2^16)) := by
  induction l with
  | nil => rfl
  | cons p ps ih =>
    have hp := h p List.mem_cons_self
    have : compact4 p = some (p.ip ++ be16 (p.port % 2^16)) := by simp [compact4, Sanitize.to4, hp]
    simp [mapM', this, ih (fun q hq => h q (List.mem_cons_of_mem _ hq))]

theorem mapM'_compact6 (l : List Peer) (h : ∀ p ∈ l, p.ip.length = 16) :
    mapM' compact6 l = some (l.map fun p => p.ip ++ be16 (p.port % 2^16)) := by
  induction l with
  | nil => rfl
  | cons p ps ih =>
    have hp := h p List.mem_cons_self
    have : compact6 p = some (p.ip ++ be16 (p.port % 2^16)) := by simp [compact6, to16, hp]
    simp [mapM', this, ih (fun q hq => h q (List.mem_cons_of_mem _ hq))]

/-- client-side reading of a compact peer string: entries of `w` address bytes + 2 port bytes -/
def uncompact (w : Nat) : Nat → Bytes → List (Bytes × Nat)
  | 0, _ => []
  | n+1, b => if b.length < w + 2 then [] else (b.take w, toNatBE ((b.drop w).take 2)) :: uncompact w n (b.drop (w + 2))

theorem uncompact_flatten (w : Nat) (l : List Peer) (h : ∀ p ∈ l, p.ip.length = w) (n : Nat) (hn : l.length ≤ n) :
    uncompact w n ((l.map fun p => p.ip ++ be16 (p.port % 2^16)).flatten) = l.map fun p => (p.ip, p.port % 2^16) := by
  induction l generalizing n with
  | nil => cases n <;> simp [uncompact]
  | cons p ps ih =>
    have hp := h p List.mem_cons_self
    match n, hn with
    | n+1, hn =>
      simp only [List.map_cons, List.flatten_cons, uncompact, List.append_assoc, List.length_append]
      have hbe : (be16 (p.port % 2^16)).length = 2 := by simp [be16]
      have : ¬ (p.ip.length + ((be16 (p.port % 2^16)).length + (ps.map fun p => p.ip ++ be16 (p.port % 2^16)).flatten.length) < w + 2) := by
        rw [hbe, hp]; omega
      rw [if_neg this]
      rw [List.take_append_of_le_length (by omega), List.take_of_length_le (by omega)]
      rw [List.drop_append_of_le_length (by omega), List.drop_of_length_le (by omega)]
      simp only [List.nil_append]
      rw [List.take_append_of_le_length (by omega), List.take_of_length_le (by omega)]
      have hd : List.drop (w + 2) (p.ip ++ (be16 (p.port % 2^16) ++ (ps.map fun p => p.ip ++ be16 (p.port % 2^16)).flatten)) =
          (ps.map fun p => p.ip ++ be16 (p.port % 2^16)).flatten := by
        rw [← List.append_assoc]; apply List.drop_left'; simp [hp, hbe]
      rw [hd, ih (fun q hq => h q (List.mem_cons_of_mem _ hq)) n (by simpa using hn)]
      congr 2
      unfold be16; rw [toNatBE_beN]; simp

theorem flatten_entries_length (w : Nat) (l : List Peer) (h : ∀ p ∈ l, p.ip.length = w) :
    ((l.map fun p => p.ip ++ be16 (p.port % 2^16)).flatten).length = (w + 2) * l.length := by
  induction l with
  | nil => simp
  | cons p ps ih =>
    have hp := h p List.mem_cons_self
    simp only [List.map_cons, List.flatten_cons, List.length_append, List.length_cons]
    rw [ih (fun q hq => h q (List.mem_cons_of_mem _ hq)), hp]
    simp [be16, Nat.mul_add]; omega

theorem base_wf (r : AnnResp) (hr : RespOK r) :
    WF (.int r.complete) ∧ WF (.int r.incomplete) ∧ WF (.int (seconds r.interval)) ∧ WF (.int (seconds r.minInterval)) := by
  have h1 := hr.complete
  have h2 := hr.incomplete
  refine ⟨?_, ?_, seconds_int64 _ hr.interval, seconds_int64 _ hr.minInterval⟩ <;> simp only [WF, Decimal.Int64] <;> omega

/-- Compact announce responses: a well-formed dictionary with distinct keys holding the counts,
the intervals in whole seconds, `peers` = the IPv4 peers as 6-byte entries and `peers6` = the IPv6
peers as 18-byte entries (each key present iff that list is non-empty) — and nothing else. -/
theorem C08_announce_compact (ipText : Bytes → Bytes) (r : AnnResp) (hr : RespOK r) (hc : r.compact = true) :
    ∃ d, writeAnnounce ipText r = some (.dict d) ∧ WF (.dict d) ∧
      lookup kComplete d = some (.int r.complete) ∧ lookup kIncomplete d = some (.int r.incomplete) ∧
      lookup kInterval d = some (.int (seconds r.interval)) ∧ lookup kMinInterval d = some (.int (seconds r.minInterval)) ∧
      (r.v4peers = [] → lookup kPeers d = none) ∧
      (r.v4peers ≠ [] → ∃ s, lookup kPeers d = some (.str s) ∧ s.length = 6 * r.v4peers.length ∧
          uncompact 4 r.v4peers.length s = r.v4peers.map fun p => (p.ip, p.port % 2^16)) ∧
      (r.v6peers = [] → lookup kPeers6 d = none) ∧
      (r.v6peers ≠ [] → ∃ s, lookup kPeers6 d = some (.str s) ∧ s.length = 18 * r.v6peers.length ∧
          uncompact 16 r.v6peers.length s = r.v6peers.map fun p => (p.ip, p.port % 2^16)) ∧
      d.length ≤ 6 := by
  have h4 : ∀ p ∈ r.v4peers, p.ip.length = 4 := fun p hp => (hr.v4 p hp).1
  have h6 : ∀ p ∈ r.v6peers, p.ip.length = 16 := fun p hp => (hr.v6 p hp).1
  obtain ⟨w1, w2, w3, w4⟩ := base_wf r hr
  have l4 := flatten_entries_length 4 r.v4peers h4
  have l6 := flatten_entries_length 16 r.v6peers h6
  have u4 := uncompact_flatten 4 r.v4peers h4 r.v4peers.length (Nat.le_refl _)
  have u6 := uncompact_flatten 16 r.v6peers h6 r.v6peers.length (Nat.le_refl _)
  unfold writeAnnounce
  simp only [hc, if_true, mapM'_compact4 _ h4, mapM'_compact6 _ h6]
  generalize hs4 : (r.v4peers.map fun p => p.ip ++ be16 (p.port % 2^16)).flatten = s4 at l4 u4 ⊢
  generalize hs6 : (r.v6peers.map fun p => p.ip ++ be16 (p.port % 2^16)).flatten = s6 at l6 u6 ⊢
  have n4 : s4 = [] ↔ r.v4peers = [] := by
    rw [← List.length_eq_zero_iff, ← List.length_eq_zero_iff, l4]; omega
  have n6 : s6 = [] ↔ r.v6peers = [] := by
    rw [← List.length_eq_zero_iff, ← List.length_eq_zero_iff, l6]; omega
  have kn1 : ([kComplete, kIncomplete, kInterval, kMinInterval] : List Bytes).Nodup := by decide
  have kn2 : ([kComplete, kIncomplete, kInterval, kMinInterval, kPeers] : List Bytes).Nodup := by decide
  have kn3 : ([kComplete, kIncomplete, kInterval, kMinInterval, kPeers6] : List Bytes).Nodup := by decide
  have kn4 : ([kComplete, kIncomplete, kInterval, kMinInterval, kPeers, kPeers6] : List Bytes).Nodup := by decide
  have ne1 : (kComplete = kIncomplete) = False := by simp; decide
  have ne2 : (kComplete = kInterval) = False := by simp; decide
  have ne3 : (kComplete = kMinInterval) = False := by simp; decide
  have ne4 : (kComplete = kPeers) = False := by simp; decide
  have ne5 : (kComplete = kPeers6) = False := by simp; decide
  have ne6 : (kIncomplete = kComplete) = False := by simp; decide
  have ne7 : (kIncomplete = kInterval) = False := by simp; decide
  have ne8 : (kIncomplete = kMinInterval) = False := by simp; decide
  have ne9 : (kIncomplete = kPeers) = False := by simp; decide
  have ne10 : (kIncomplete = kPeers6) = False := by simp; decide
  have ne11 : (kInterval = kComplete) = False := by simp; decide
  have ne12 : (kInterval = kIncomplete) = False := by simp; decide
  have ne13 : (kInterval = kMinInterval) = False := by simp; decide
  have ne14 : (kInterval = kPeers) = False := by simp; decide
  have ne15 : (kInterval = kPeers6) = False := by simp; decide
  have ne16 : (kMinInterval = kComplete) = False := by simp; decide
  have ne17 : (kMinInterval = kIncomplete) = False := by simp; decide
  have ne18 : (kMinInterval = kInterval) = False := by simp; decide
  have ne19 : (kMinInterval = kPeers) = False := by simp; decide
  have ne20 : (kMinInterval = kPeers6) = False := by simp; decide
  have ne21 : (kPeers = kComplete) = False := by simp; decide
  have ne22 : (kPeers = kIncomplete) = False := by simp; decide
  have ne23 : (kPeers = kInterval) = False := by simp; decide
  have ne24 : (kPeers = kMinInterval) = False := by simp; decide
  have ne25 : (kPeers = kPeers6) = False := by simp; decide
  have ne26 : (kPeers6 = kComplete) = False := by simp; decide
  have ne27 : (kPeers6 = kIncomplete) = False := by simp; decide
  have ne28 : (kPeers6 = kInterval) = False := by simp; decide
  have ne29 : (kPeers6 = kMinInterval) = False := by simp; decide
  have ne30 : (kPeers6 = kPeers) = False := by simp; decide
  cases h4e : s4 with
  | nil =>
    have v4e := n4.mp h4e
    cases h6e : s6 with
    | nil =>
      have v6e := n6.mp h6e
      refine ⟨_, rfl, ?_, ?_⟩
      · simp only [List.isEmpty_nil, if_true, List.append_nil, WF, WFDict, List.map_cons, List.map_nil]
        exact ⟨⟨w1, w2, w3, w4, trivial⟩, kn1⟩
      · simp [lookup, ne1, ne2, ne3, ne4, ne5, ne6, ne7, ne8, ne9, ne10, ne11, ne12, ne13, ne14, ne15, ne16, ne17, ne18, ne19, ne20, ne21, ne22, ne23, ne24, ne25, ne26, ne27, ne28, ne29, ne30, v4e, v6e]
    | cons c cs =>
      have v6ne : r.v6peers ≠ [] := fun h => by have := n6.mpr h; rw [h6e] at this; cases this
      refine ⟨_, rfl, ?_, ?_⟩
      · simp only [List.isEmpty_nil, List.isEmpty_cons, if_true, if_false, List.append_nil, List.cons_append, List.nil_append, WF, WFDict,
          List.map_cons, List.map_nil, Bool.false_eq_true]
        exact ⟨⟨w1, w2, w3, w4, trivial, trivial⟩, kn3⟩
      · rw [h6e] at l6 u6
        simp [lookup, ne1, ne2, ne3, ne4, ne5, ne6, ne7, ne8, ne9, ne10, ne11, ne12, ne13, ne14, ne15, ne16, ne17, ne18, ne19, ne20, ne21, ne22, ne23, ne24, ne25, ne26, ne27, ne28, ne29, ne30, v4e, v6ne]
        exact ⟨by simpa using l6, u6⟩
  | cons b bs =>
    have v4ne : r.v4peers ≠ [] := fun h => by have := n4.mpr h; rw [h4e] at this; cases this
    rw [h4e] at l4 u4
    cases h6e : s6 with
    | nil =>
      have v6e := n6.mp h6e
      refine ⟨_, rfl, ?_, ?_⟩
      · simp only [List.isEmpty_nil, List.isEmpty_cons, if_true, if_false, List.append_nil, List.cons_append, List.nil_append, WF, WFDict,
          List.map_cons, List.map_nil, Bool.false_eq_true]
        exact ⟨⟨w1, w2, w3, w4, trivial, trivial⟩, kn2⟩
      · simp [lookup, ne1, ne2, ne3, ne4, ne5, ne6, ne7, ne8, ne9, ne10, ne11, ne12, ne13, ne14, ne15, ne16, ne17, ne18, ne19, ne20, ne21, ne22, ne23, ne24, ne25, ne26, ne27, ne28, ne29, ne30, v4ne, v6e]
        exact ⟨by simpa using l4, u4⟩
    | cons c cs =>
      have v6ne : r.v6peers ≠ [] := fun h => by have := n6.mpr h; rw [h6e] at this; cases this
      rw [h6e] at l6 u6
      refine ⟨_, rfl, ?_, ?_⟩
      · simp only [List.isEmpty_nil, List.isEmpty_cons, if_true, if_false, List.append_nil, List.cons_append, List.nil_append, WF, WFDict,
          List.map_cons, List.map_nil, Bool.false_eq_true]
        exact ⟨⟨w1, w2, w3, w4, trivial, trivial, trivial⟩, kn4⟩
      · simp [lookup, ne1, ne2, ne3, ne4, ne5, ne6, ne7, ne8, ne9, ne10, ne11, ne12, ne13, ne14, ne15, ne16, ne17, ne18, ne19, ne20, ne21, ne22, ne23, ne24, ne25, ne26, ne27, ne28, ne29, ne30, v4ne, v6ne]
        exact ⟨⟨by simpa using l4, u4⟩, ⟨by simpa using l6, u6⟩⟩

/-! ## dictionary (non-compact) form -/

theorem peerDict_wf (ipText : Bytes → Bytes) (p : Peer) : WF (peerDict ipText p) := by
  have kn : ([kPeerID, kIP, kPort] : List Bytes).Nodup := by decide
  simp only [peerDict, WF, WFDict, List.map_cons, List.map_nil, Decimal.Int64]
  refine ⟨⟨trivial, trivial, ?_, trivial⟩, kn⟩
  have : p.port % 2^16 < 2^16 := Nat.mod_lt _ (by decide)
  omega

theorem peerDicts_wf (ipText : Bytes → Bytes) (l : List Peer) : WFList (l.map (peerDict ipText)) := by
  induction l with
  | nil => simp [WFList]
  | cons p ps ih => simp only [List.map_cons, WFList]; exact ⟨peerDict_wf ipText p, ih⟩

/-- Dictionary-form announce responses: `peers` is the list of (peer id, textual address of the
peer's own 4- or 16-byte address, port) dictionaries of the IPv4 peers followed by the IPv6 peers. -/
theorem C08_announce_dict (ipText : Bytes → Bytes) (r : AnnResp) (hr : RespOK r) (hc : r.compact = false) :
    ∃ d, writeAnnounce ipText r = some (.dict d) ∧ WF (.dict d) ∧
      lookup kComplete d = some (.int r.complete) ∧ lookup kIncomplete d = some (.int r.incomplete) ∧
      lookup kInterval d = some (.int (seconds r.interval)) ∧ lookup kMinInterval d = some (.int (seconds r.minInterval)) ∧
      lookup kPeers d = some (.list ((r.v4peers ++ r.v6peers).map (peerDict ipText))) ∧ lookup kPeers6 d = none := by
  obtain ⟨w1, w2, w3, w4⟩ := base_wf r hr
  have kn2 : ([kComplete, kIncomplete, kInterval, kMinInterval, kPeers] : List Bytes).Nodup := by decide
  unfold writeAnnounce
  simp only [hc, Bool.false_eq_true, if_false]
  refine ⟨_, rfl, ?_, ?_⟩
  · simp only [List.cons_append, List.nil_append, WF, WFDict, List.map_cons, List.map_nil]
    exact ⟨⟨w1, w2, w3, w4, peerDicts_wf ipText _, trivial⟩, kn2⟩
  · have e1 : (kComplete = kIncomplete) = False := by simp; decide
    have e2 : (kComplete = kInterval) = False := by simp; decide
    have e3 : (kIncomplete = kInterval) = False := by simp; decide
    have e4 : (kComplete = kMinInterval) = False := by simp; decide
    have e5 : (kIncomplete = kMinInterval) = False := by simp; decide
    have e6 : (kInterval = kMinInterval) = False := by simp; decide
    have e7 : (kComplete = kPeers) = False := by simp; decide
    have e8 : (kIncomplete = kPeers) = False := by simp; decide
    have e9 : (kInterval = kPeers) = False := by simp; decide
    have e10 : (kMinInterval = kPeers) = False := by simp; decide
    have e11 : (kComplete = kPeers6) = False := by simp; decide
    have e12 : (kIncomplete = kPeers6) = False := by simp; decide
    have e13 : (kInterval = kPeers6) = False := by simp; decide
    have e14 : (kMinInterval = kPeers6) = False := by simp; decide
    have e15 : (kPeers = kPeers6) = False := by simp; decide
    simp [lookup, e1, e2, e3, e4, e5, e6, e7, e8, e9, e10, e11, e12, e13, e14, e15]

/-! ## scrape responses -/

theorem lookup_insert (key k : Bytes) (v : BVal) (acc : List (Bytes × BVal)) :
    lookup key (Bencode.insert k v acc) = if k = key then some v else lookup key acc := by
  induction acc with
  | nil => simp [Bencode.insert, lookup]
  | cons p ps ih =>
    obtain ⟨k', v'⟩ := p
    simp only [Bencode.insert]
    by_cases h : k' = k
    · subst h; simp only [if_true, lookup]; split <;> rfl
    · simp only [h, if_false, lookup, ih]
      by_cases h2 : k' = key
      · have : ¬ k = key := fun e => h (h2.trans e.symm)
        simp [h2, this]
      · simp [h2]

theorem insert_keys_nodup (k : Bytes) (v : BVal) (acc : List (Bytes × BVal)) (h : (acc.map (·.1)).Nodup) :
    ((Bencode.insert k v acc).map (·.1)).Nodup ∧ ∀ x, x ∈ (Bencode.insert k v acc).map (·.1) ↔ x = k ∨ x ∈ acc.map (·.1) := by
  induction acc with
  | nil => simp [Bencode.insert]
  | cons p ps ih =>
    obtain ⟨k', v'⟩ := p
    simp only [List.map_cons, List.nodup_cons] at h
    have := ih h.2
    simp only [Bencode.insert]
    by_cases hk : k' = k
    · subst hk
      simp only [if_true, List.map_cons, List.nodup_cons, List.mem_cons]
      refine ⟨h, fun x => ?_⟩
      constructor
      · intro hx; rcases hx with hx | hx
        · exact Or.inl hx
        · exact Or.inr (Or.inr hx)
      · intro hx; rcases hx with hx | hx | hx
        · exact Or.inl hx
        · exact Or.inl hx
        · exact Or.inr hx
    · simp only [hk, if_false, List.map_cons, List.nodup_cons, List.mem_cons]
      refine ⟨⟨?_, this.1⟩, ?_⟩
      · intro hm; rcases (this.2 k').mp hm with e | e
        · exact hk e
        · exact h.1 e
      · intro x; rw [this.2 x]; constructor
        · intro hx; rcases hx with hx | hx | hx <;> simp [hx]
        · intro hx; rcases hx with hx | hx | hx <;> simp [hx]

theorem insert_wfdict (k : Bytes) (v : BVal) (acc : List (Bytes × BVal)) (hv : WF v) (h : WFDict acc) :
    WFDict (Bencode.insert k v acc) := by
  induction acc with
  | nil => simp [Bencode.insert, WFDict, hv]
  | cons p ps ih =>
    obtain ⟨k', v'⟩ := p
    simp only [WFDict] at h
    simp only [Bencode.insert]
    split
    · simp [WFDict, hv, h.2]
    · simp [WFDict, h.1, ih h.2]

def filesDict (files : List Scrape) : List (Bytes × BVal) :=
  files.foldl (fun acc s => Bencode.insert s.infoHash (scrapeEntry s) acc) []

theorem scrapeEntry_wf (s : Scrape) (h : s.complete < 2^32 ∧ s.incomplete < 2^32) : WF (scrapeEntry s) := by
  have kn : ([kComplete, kIncomplete] : List Bytes).Nodup := by decide
  simp only [scrapeEntry, WF, WFDict, List.map_cons, List.map_nil, Decimal.Int64]
  exact ⟨⟨by omega, by omega, trivial⟩, kn⟩

theorem foldl_files (files : List Scrape) (acc : List (Bytes × BVal)) (hn : (acc.map (·.1)).Nodup) (hw : WFDict acc)
    (hf : ∀ s ∈ files, s.complete < 2^32 ∧ s.incomplete < 2^32) :
    let d := files.foldl (fun acc s => Bencode.insert s.infoHash (scrapeEntry s) acc) acc
    (d.map (·.1)).Nodup ∧ WFDict d ∧
    ∀ key, lookup key d = match files.reverse.find? (·.infoHash = key) with
      | some s => some (scrapeEntry s)
      | none => lookup key acc := by
  induction files generalizing acc with
  | nil => simp only [List.foldl_nil, List.reverse_nil, List.find?_nil]; exact ⟨hn, hw, fun _ => trivial⟩
  | cons s ss ih =>
    have hs := hf s List.mem_cons_self
    have hi := insert_keys_nodup s.infoHash (scrapeEntry s) acc hn
    have hwi := insert_wfdict s.infoHash (scrapeEntry s) acc (scrapeEntry_wf s hs) hw
    have := ih (Bencode.insert s.infoHash (scrapeEntry s) acc) hi.1 hwi (fun x hx => hf x (List.mem_cons_of_mem _ hx))
    simp only [List.foldl_cons]
    refine ⟨this.1, this.2.1, ?_⟩
    intro key
    rw [this.2.2 key, List.reverse_cons, List.find?_append]
    cases hfind : ss.reverse.find? (·.infoHash = key) with
    | some x => simp
    | none =>
      simp only [Option.none_or, lookup_insert, List.find?_cons, List.find?_nil]
      by_cases hk : s.infoHash = key
      · simp [hk]
      · simp [hk]

/-- Scrape responses: `files` maps each *distinct* requested infohash (raw 20 bytes as the key) to
its counts; a repeated infohash collapses to one entry holding the counts of its last occurrence
(equal to the others, the store being asked the same question). -/
theorem C08_scrape (r : ScrapeResp) (hf : ∀ s ∈ r.files, s.complete < 2^32 ∧ s.incomplete < 2^32) :
    writeScrape r = .dict [(kFiles, .dict (filesDict r.files))] ∧ WF (writeScrape r) ∧
    ∀ key, lookup key (filesDict r.files) = (r.files.reverse.find? (·.infoHash = key)).map scrapeEntry := by
  have h := foldl_files r.files [] (by simp) (by simp [WFDict]) hf
  simp only at h
  refine ⟨rfl, ?_, ?_⟩
  · simp only [writeScrape, WF, WFDict, List.map_cons, List.map_nil]
    exact ⟨⟨⟨h.2.1, h.1⟩, trivial⟩, by simp⟩
  · intro key
    have := h.2.2 key
    unfold filesDict
    rw [this]
    cases r.files.reverse.find? (·.infoHash = key) <;> simp [lookup]

/-! ## failures -/

/-- Failures: a single `failure reason`. A client error carries its own message; anything else one
fixed generic message — the body is the same for every internal error and independent of the request. -/
theorem C08_error (e : ErrClass) :
    WF (writeError e) ∧
    (∀ m, e = .client m → writeError e = .dict [(kFailure, .str (Bytes.ofString m))]) ∧
    (∀ m, e = .internal m → writeError e = .dict [(kFailure, .str genericInternal)]) := by
  refine ⟨?_, ?_, ?_⟩
  · simp [writeError, WF, WFDict]
  · intro m h; subst h; rfl
  · intro m h; subst h; rfl

theorem C08_internal_errors_indistinguishable (m1 m2 : String) : writeError (.internal m1) = writeError (.internal m2) := rfl

/-- non-vacuity -/
example : RespOK { compact := true, complete := 3, incomplete := 1, interval := 1800000000000, minInterval := 900000000000,
                   v4peers := [{ id := List.replicate 20 65, port := 6881, ip := [10,0,0,1], fam := .v4 }], v6peers := [] } := by
  constructor <;> simp

end HttpWrite
