import Chihaya.Props.Redis
/-!
# C04 / C05 / C17 (Redis): every interleaving of the round trips of concurrent operations

The Redis store is not protected by a lock: a store operation is a *sequence of round trips* to the
server, and the round trips of concurrently running operations — of one tracker instance or of several
sharing the Redis — interleave freely. What the code relies on (and what the source fact
`redis_command_groups` re-extracts on every run) is the shape

  * first round trip: the operation's whole membership change, as one atomic command group
    (`MULTI … EXEC` for PutSeeder / PutLeecher / GraduateLeecher, the single `HDEL` of the deletes,
    the two optimistic `WATCH … MULTI … EXEC` groups of the collector per swarm key);
  * then zero or more `INCR`/`DECR`/`DECRBY` round trips on the counter keys, decided by the replies
    of the first round trip alone.

This file gives that semantics (threads, each running a program of operations; a step is ONE round
trip of ONE thread) and proves, for every number of threads, every program and every schedule:

  at every configuration in which no operation is in flight, the Redis state is *exactly* the state
  the sequential model reaches by running the operations one at a time in the order of their first
  round trips; every operation returned what it returns in that sequential run; each thread's
  operations appear in program order; and an operation that finished before another started
  precedes it.

Hence all sequential theorems (refinement to the memory store's specification, single role, totals =
recount, expiry removes exactly the entries not after the cutoff) hold at quiescent points of every
concurrent execution, expiry passes of any number of instances included. Before the repairs D4 and D16
the collector was not of this shape (`D4_gc_race_witness`: read and removal were separate round trips
on the membership; D16: the infohash count was decremented inside the group, whether or not the group
removed anything).
-/
namespace RedisConc
open RedisStore
open MemStore (Op peerKey)

/-- the announce-path operations as operations of the sequential model -/
def AOp.toOp? : AOp → Option Op
  | .putSeeder ih p now => some (.putSeeder ih p now)
  | .putLeecher ih p now => some (.putLeecher ih p now)
  | .graduate ih p now => some (.graduate ih p now)
  | .deleteSeeder ih p => some (.deleteSeeder ih p)
  | .deleteLeecher ih p => some (.deleteLeecher ih p)
  | _ => none

/-- the sequential meaning of an operation: `RedisStore.apply` for the announce path, the two halves
of `RedisStore.gcKey` for the collector's groups -/
def AOp.seq (s : RState) : AOp → RState
  | .putSeeder ih p now => apply s (.putSeeder ih p now)
  | .putLeecher ih p now => apply s (.putLeecher ih p now)
  | .graduate ih p now => apply s (.graduate ih p now)
  | .deleteSeeder ih p => apply s (.deleteSeeder ih p)
  | .deleteLeecher ih p => apply s (.deleteLeecher ih p)
  | .gcHash f r ih cutoff => RedisStore.gcHash s f (swarmKey f r ih) cutoff
  | .gcIdx f r ih => RedisStore.gcIdx s f (swarmKey f r ih)

theorem applyDeltas_dIf (b : Bool) (s : RState) (f : Fam) (k : CKind) (d : Int) :
    applyDeltas s (dIf b f k d) = addIf b s f k d := by
  cases b <;> rfl

theorem applyDeltas_append (s : RState) (a b : List Delta) :
    applyDeltas s (a ++ b) = applyDeltas (applyDeltas s a) b := by
  simp [applyDeltas, List.foldl_append]

/-- an operation run alone is the operation of the sequential model -/
theorem seqOp_eq_seq (s : RState) (o : AOp) : seqOp s o = o.seq s := by
  cases o with
  | putSeeder ih p now =>
    show _ = putSeeder s ih p now
    rw [putSeeder_eq]
    simp only [seqOp, first, applyDeltas_append, applyDeltas_dIf]
  | putLeecher ih p now =>
    show _ = putLeecher s ih p now
    rw [putLeecher_eq]
    simp only [seqOp, first, applyDeltas_append, applyDeltas_dIf]
  | graduate ih p now =>
    show _ = graduate s ih p now
    rw [graduate_eq]
    simp only [seqOp, first, applyDeltas_append, applyDeltas_dIf]
  | deleteSeeder ih p =>
    show _ = (deleteSeeder s ih p).1
    rw [deleteSeeder_eq]
    simp only [seqOp, first]
    split <;> rfl
  | deleteLeecher ih p =>
    show _ = (deleteLeecher s ih p).1
    rw [deleteLeecher_eq]
    simp only [seqOp, first]
    split <;> rfl
  | gcHash f r ih cutoff =>
    show _ = RedisStore.gcHash s f (swarmKey f r ih) cutoff
    simp only [seqOp, first, RedisStore.gcHash, gcHashApply, applyDeltas_dIf, addIf]
    by_cases h : (gcKeyRead s (swarmKey f r ih) cutoff).length > 0 <;> simp [h]
  | gcIdx f r ih =>
    show _ = RedisStore.gcIdx s f (swarmKey f r ih)
    simp only [seqOp, first, RedisStore.gcIdx]
    split
    · simp only [applyDeltas_dIf, addIf]
    · rfl

theorem seqOp_eq_apply (s : RState) (o : AOp) (op : Op) (h : o.toOp? = some op) : seqOp s o = apply s op := by
  rw [seqOp_eq_seq]
  cases o <;> simp only [AOp.toOp?, Option.some.injEq] at h <;> first | (subst h; rfl) | cases h

/-- and returns what the sequential model's operation returns -/
theorem first_result (s : RState) (o : AOp) :
    (first s o).2.2 = match o with
      | .deleteSeeder ih p => (deleteSeeder s ih p).2
      | .deleteLeecher ih p => (deleteLeecher s ih p).2
      | _ => true := by
  cases o with
  | deleteSeeder ih p => simp only [first, deleteSeeder_eq]; split <;> rfl
  | deleteLeecher ih p => simp only [first, deleteLeecher_eq]; split <;> rfl
  | gcIdx f r ih => simp only [first]; split <;> rfl
  | _ => rfl

/-! ## the first round trip never looks at the counters -/

def withC (s : RState) (c : Counters) : RState := { s with c := c }

theorem withC_self (s : RState) : withC s s.c = s := rfl
theorem withC_withC (s : RState) (c c' : Counters) : withC (withC s c) c' = withC s c' := rfl
theorem withC_c (s : RState) (c : Counters) : (withC s c).c = c := rfl

theorem hset_withC (s : RState) (c : Counters) (k fld : Bytes) (v : Int) :
    hset (withC s c) k fld v = (withC (hset s k fld v).1 c, (hset s k fld v).2) := by
  rfl

theorem hdel_withC (s : RState) (c : Counters) (k fld : Bytes) :
    hdel (withC s c) k fld = (withC (hdel s k fld).1 c, (hdel s k fld).2) := by
  unfold hdel
  rw [show hget (withC s c) k = hget s k from rfl]
  by_cases h : AMap.has (hget s k) fld = true
  · rw [if_pos h, if_pos h]; rfl
  · rw [if_neg h, if_neg h]

theorem idxSet_withC (s : RState) (c : Counters) (f : Fam) (k : Bytes) (v : Int) :
    idxSet (withC s c) f k v = (withC (idxSet s f k v).1 c, (idxSet s f k v).2) := by
  cases f <;> rfl

theorem core_withC (s : RState) (c : Counters) (f : Fam) (kA kB pk : Bytes) (now : Int) :
    core (withC s c) f kA kB pk now = (withC (core s f kA kB pk now).1 c, (core s f kA kB pk now).2) := by
  simp only [core, hset_withC, idxSet_withC, hdel_withC]

theorem core2_withC (s : RState) (c : Counters) (f : Fam) (kA kB pk : Bytes) (now : Int) :
    core2 (withC s c) f kA kB pk now = (withC (core2 s f kA kB pk now).1 c, (core2 s f kA kB pk now).2) := by
  simp only [core2, hset_withC, idxSet_withC, hdel_withC]

theorem fold_hdel_withC (stale : List (Bytes × Int)) (s : RState) (c : Counters) (k : Bytes) :
    stale.foldl (fun acc e => (hdel acc k e.1).1) (withC s c) = withC (stale.foldl (fun acc e => (hdel acc k e.1).1) s) c := by
  induction stale generalizing s with
  | nil => rfl
  | cons e rest ih =>
    simp only [List.foldl_cons, hdel_withC]
    exact ih _

theorem setIdx_withC (s : RState) (c : Counters) (f : Fam) (m : MemStore.PMap) :
    setIdx (withC s c) f m = withC (setIdx s f m) c := by cases f <;> rfl

theorem first_withC (s : RState) (c : Counters) (o : AOp) :
    first (withC s c) o = (withC (first s o).1 c, (first s o).2) := by
  cases o with
  | putSeeder ih p now => simp only [first, core_withC]
  | putLeecher ih p now => simp only [first, core_withC]
  | graduate ih p now => simp only [first, core2_withC]
  | deleteSeeder ih p => simp only [first, hdel_withC]; split <;> rfl
  | deleteLeecher ih p => simp only [first, hdel_withC]; split <;> rfl
  | gcHash f r ih cutoff =>
    simp only [first]
    rw [show gcKeyRead (withC s c) (swarmKey f r ih) cutoff = gcKeyRead s (swarmKey f r ih) cutoff from rfl, fold_hdel_withC]
  | gcIdx f r ih =>
    simp only [first]
    rw [show hget (withC s c) (swarmKey f r ih) = hget s (swarmKey f r ih) from rfl,
      show idx (withC s c) f = idx s f from by cases f <;> rfl, setIdx_withC]
    split <;> rfl

/-- the membership part of the server state: everything but the counters -/
def mem (s : RState) : RState := withC s {}

theorem mem_withC (s : RState) (c : Counters) : mem (withC s c) = mem s := rfl
theorem mem_applyDelta (s : RState) (δ : Delta) : mem (applyDelta s δ) = mem s := rfl
theorem mem_applyDeltas (s : RState) (ds : List Delta) : mem (applyDeltas s ds) = mem s := by
  induction ds generalizing s with
  | nil => rfl
  | cons δ ds ih => exact (ih _).trans (mem_applyDelta s δ)

theorem eq_of_mem_c {s s' : RState} (hm : mem s = mem s') (hc : s.c = s'.c) : s = s' := by
  have : withC (mem s) s.c = withC (mem s') s'.c := by rw [hm, hc]
  exact this

/-- two states with the same membership part: the first round trip does the same to the membership
part, asks for the same counter round trips, returns the same result, and leaves the counters alone -/
theorem first_congr {s s' : RState} (hm : mem s = mem s') (o : AOp) :
    mem (first s o).1 = mem (first s' o).1 ∧ (first s o).2 = (first s' o).2 ∧ (first s o).1.c = s.c := by
  have e1 : first s o = (withC (first (mem s) o).1 s.c, (first (mem s) o).2) := by
    have := first_withC (mem s) s.c o
    rwa [show withC (mem s) s.c = s from rfl] at this
  have e2 : first s' o = (withC (first (mem s') o).1 s'.c, (first (mem s') o).2) := by
    have := first_withC (mem s') s'.c o
    rwa [show withC (mem s') s'.c = s' from rfl] at this
  rw [e1, e2, hm]
  exact ⟨rfl, rfl, rfl⟩

/-! ## counters -/

/-- what a list of pending counter round trips will add to counter `(f, k)` -/
def owed (f : Fam) (k : CKind) : List Delta → Int
  | [] => 0
  | δ :: ds => (if δ.f = f ∧ δ.k = k then δ.d else 0) + owed f k ds

theorem getC_applyDelta (s : RState) (δ : Delta) (f : Fam) (k : CKind) :
    getC (applyDelta s δ).c f k = getC s.c f k + (if δ.f = f ∧ δ.k = k then δ.d else 0) :=
  getC_addC s δ.f δ.k δ.d f k

theorem getC_applyDeltas (s : RState) (ds : List Delta) (f : Fam) (k : CKind) :
    getC (applyDeltas s ds).c f k = getC s.c f k + owed f k ds := by
  induction ds generalizing s with
  | nil => simp [applyDeltas, owed]
  | cons δ ds ih =>
    show getC (applyDeltas (applyDelta s δ) ds).c f k = _
    rw [ih, getC_applyDelta]
    simp only [owed]
    omega

theorem counters_ext {c c' : Counters} (h : ∀ f k, getC c f k = getC c' f k) : c = c' := by
  have a := h .v4 .ih; have b := h .v4 .s; have d := h .v4 .l
  have e := h .v6 .ih; have g := h .v6 .s; have i := h .v6 .l
  simp only [getC] at a b d e g i
  cases c; cases c'
  simp_all

/-! ## threads, configurations, steps -/

/-- one round trip of one thread -/
inductive Step : Config → Config → Prop where
  | first (c : Config) (t : Nat) (o : AOp) (rest : List AOp) (h : c.thr t = ⟨[], o :: rest⟩) :
      Step c ⟨(first c.s o).1, upd c.thr t ⟨(first c.s o).2.1, rest⟩, c.log ++ [(t, o, (first c.s o).2.2)]⟩
  | delta (c : Config) (t : Nat) (δ : Delta) (ds : List Delta) (todo : List AOp) (h : c.thr t = ⟨δ :: ds, todo⟩) :
      Step c ⟨applyDelta c.s δ, upd c.thr t ⟨ds, todo⟩, c.log⟩

inductive Reach (c₀ : Config) : Config → Prop where
  | refl : Reach c₀ c₀
  | step {c c'} : Reach c₀ c → Step c c' → Reach c₀ c'

def opsOf (c : Config) : List AOp := c.log.map (·.2.1)

/-- the sequential run of the logged operations: final state and results -/
def seqRun (s₀ : RState) (ops : List AOp) : RState := ops.foldl seqOp s₀
def seqResults (s₀ : RState) : List AOp → List Bool
  | [] => []
  | o :: rest => (first s₀ o).2.2 :: seqResults (seqOp s₀ o) rest

theorem seqResults_append (s₀ : RState) (a b : List AOp) :
    seqResults s₀ (a ++ b) = seqResults s₀ a ++ seqResults (seqRun s₀ a) b := by
  induction a generalizing s₀ with
  | nil => rfl
  | cons o rest ih => simp [seqResults, seqRun, ih]

/-- counter round trips still owed by threads `0 … n-1` -/
def owedAll (thr : Nat → Thread) (f : Fam) (k : CKind) : Nat → Int
  | 0 => 0
  | n + 1 => owedAll thr f k n + owed f k (thr n).pending

theorem owedAll_upd (thr : Nat → Thread) (f : Fam) (k : CKind) (t : Nat) (a : Thread) (n : Nat) :
    owedAll (upd thr t a) f k n =
      owedAll thr f k n + (if t < n then owed f k a.pending - owed f k (thr t).pending else 0) := by
  induction n with
  | zero => simp [owedAll]
  | succ n ih =>
    simp only [owedAll, ih, upd]
    by_cases h1 : n = t
    · subst h1; simp; omega
    · have : ¬ (t = n) := fun e => h1 e.symm
      by_cases h2 : t < n
      · have : t < n + 1 := by omega
        simp [h1, h2, this]; omega
      · have : ¬ t < n + 1 := by omega
        simp [h1, h2, this]

def logOf (c : Config) (t : Nat) : List AOp := (c.log.filter (·.1 = t)).map (·.2.1)

/-- the invariant tying a reachable configuration to the sequential run of its log -/
structure Inv (n : Nat) (s₀ : RState) (progs : Nat → List AOp) (c : Config) : Prop where
  mem : mem c.s = mem (seqRun s₀ (opsOf c))
  cnt : ∀ f k, getC c.s.c f k + owedAll c.thr f k n = getC (seqRun s₀ (opsOf c)).c f k
  res : c.log.map (·.2.2) = seqResults s₀ (opsOf c)
  idle : ∀ t, n ≤ t → c.thr t = ⟨[], []⟩
  prog : ∀ t, logOf c t ++ (c.thr t).todo = progs t

theorem owedAll_idle (thr : Nat → Thread) (f : Fam) (k : CKind) (n : Nat) (h : ∀ t, t < n → (thr t).pending = []) :
    owedAll thr f k n = 0 := by
  induction n with
  | zero => rfl
  | succ n ih =>
    simp only [owedAll]
    rw [ih (fun t ht => h t (by omega)), h n (by omega)]
    rfl

theorem inv_init (n : Nat) (s₀ : RState) (progs : Nat → List AOp) (hn : ∀ t, n ≤ t → progs t = []) :
    Inv n s₀ progs (Init s₀ progs) where
  mem := rfl
  cnt := by
    intro f k
    rw [owedAll_idle _ _ _ _ (fun _ _ => rfl)]
    simp [Init, opsOf, seqRun]
  res := rfl
  idle := by intro t ht; simp [Init, hn t ht]
  prog := by intro t; simp [Init, logOf]

theorem inv_step {n : Nat} {s₀ : RState} {progs : Nat → List AOp} {c c' : Config}
    (h : Inv n s₀ progs c) (hs : Step c c') : Inv n s₀ progs c' := by
  cases hs with
  | first t o rest ht =>
    have htn : t < n := by
      by_cases hlt : t < n
      · exact hlt
      · have := h.idle t (by omega); rw [ht] at this; cases this
    have hops : opsOf ⟨(first c.s o).1, upd c.thr t ⟨(first c.s o).2.1, rest⟩, c.log ++ [(t, o, (first c.s o).2.2)]⟩ = opsOf c ++ [o] := by
      simp [opsOf]
    have hrun : seqRun s₀ (opsOf c ++ [o]) = seqOp (seqRun s₀ (opsOf c)) o := by
      simp [seqRun, List.foldl_append]
    obtain ⟨cm, cd, cc⟩ := first_congr h.mem o
    refine ⟨?_, ?_, ?_, ?_, ?_⟩
    · rw [hops, hrun]
      show RedisConc.mem (first c.s o).1 = _
      rw [cm]; exact (mem_applyDeltas _ _).symm
    · intro f k
      rw [hops, hrun]
      show getC (first c.s o).1.c f k + owedAll (upd c.thr t ⟨(first c.s o).2.1, rest⟩) f k n = _
      rw [owedAll_upd, cc, seqOp, getC_applyDeltas, ← cd, (first_congr h.mem.symm o).2.2, ← h.cnt f k, ht]
      simp only [htn, if_true, owed]
      omega
    · rw [hops, seqResults_append]
      show (c.log ++ [(t, o, (first c.s o).2.2)]).map (·.2.2) = _
      rw [List.map_append, h.res]
      simp only [List.map_cons, List.map_nil, seqResults]
      rw [cd]
    · intro t' ht'
      have : t' ≠ t := by omega
      show upd c.thr t _ t' = _
      simp only [upd, this, if_false]
      exact h.idle t' ht'
    · intro t'
      show logOf ⟨_, _, c.log ++ [(t, o, (first c.s o).2.2)]⟩ t' ++ (upd c.thr t ⟨(first c.s o).2.1, rest⟩ t').todo = _
      have hp := h.prog t'
      by_cases e : t' = t
      · subst e
        rw [ht] at hp
        simp only [logOf, upd, if_true, List.filter_append, List.map_append] at hp ⊢
        simp [← hp]
      · simp only [logOf, upd, e, if_false, List.filter_append, List.map_append] at hp ⊢
        have : ¬ (t = t') := fun x => e x.symm
        simp [this, hp]
  | delta t δ ds todo ht =>
    have htn : t < n := by
      by_cases hlt : t < n
      · exact hlt
      · have := h.idle t (by omega); rw [ht] at this; cases this
    refine ⟨?_, ?_, ?_, ?_, ?_⟩
    · exact h.mem
    · intro f k
      show getC (applyDelta c.s δ).c f k + owedAll (upd c.thr t ⟨ds, todo⟩) f k n = getC (seqRun s₀ (opsOf c)).c f k
      rw [owedAll_upd, getC_applyDelta, ← h.cnt f k, ht]
      simp only [htn, if_true, owed]
      omega
    · exact h.res
    · intro t' ht'
      have : t' ≠ t := by omega
      show upd c.thr t _ t' = _
      simp only [upd, this, if_false]
      exact h.idle t' ht'
    · intro t'
      have hp := h.prog t'
      show logOf c t' ++ (upd c.thr t ⟨ds, todo⟩ t').todo = _
      by_cases e : t' = t
      · subst e; rw [ht] at hp; simpa [upd] using hp
      · simpa [upd, e] using hp

theorem inv_reach {n : Nat} {s₀ : RState} {progs : Nat → List AOp} (hn : ∀ t, n ≤ t → progs t = [])
    {c : Config} (hr : Reach (Init s₀ progs) c) : Inv n s₀ progs c := by
  induction hr with
  | refl => exact inv_init n s₀ progs hn
  | step _ hs ih => exact inv_step ih hs

/-- nothing in flight: no thread owes a counter round trip -/
def Quiescent (c : Config) : Prop := ∀ t, (c.thr t).pending = []

/-- **C04 (Redis), every schedule**: at every reachable configuration with no operation in flight the
server state is exactly the sequential model's state after the logged operations (the order of their
first round trips), every operation returned what it returns in that sequential run, and every thread's
operations appear in its program order. -/
theorem Redis_quiescent_sequential {n : Nat} {s₀ : RState} {progs : Nat → List AOp}
    (hn : ∀ t, n ≤ t → progs t = []) {c : Config} (hr : Reach (Init s₀ progs) c) (hq : Quiescent c) :
    c.s = (opsOf c).foldl (fun s o => o.seq s) s₀ ∧
    c.log.map (·.2.2) = seqResults s₀ (opsOf c) ∧
    ∀ t, logOf c t ++ (c.thr t).todo = progs t := by
  have h := inv_reach hn hr
  refine ⟨?_, h.res, h.prog⟩
  have e : (opsOf c).foldl (fun s o => o.seq s) s₀ = seqRun s₀ (opsOf c) := by
    simp only [seqRun]
    congr 1
    funext s o
    exact (seqOp_eq_seq s o).symm
  rw [e]
  apply eq_of_mem_c h.mem
  apply counters_ext
  intro f k
  have := h.cnt f k
  rw [owedAll_idle _ _ _ _ (fun t _ => hq t)] at this
  omega

/-- the log only grows: an operation whose first round trip has happened keeps its place, so an
operation that finished before another started precedes it in the sequential order -/
theorem log_prefix {c₁ c₂ : Config} (hr : Reach c₁ c₂) : ∃ later, c₂.log = c₁.log ++ later := by
  induction hr with
  | refl => exact ⟨[], by simp⟩
  | step _ hs ih =>
    obtain ⟨l, hl⟩ := ih
    cases hs with
    | first t o rest ht =>
      rename_i c _
      refine ⟨l ++ [(t, o, (first c.s o).2.2)], ?_⟩
      show c.log ++ [_] = _
      rw [hl, List.append_assoc]
    | delta t δ ds todo ht => exact ⟨l, hl⟩

/-- when every thread has run to completion, all the issued operations are in the log: the final
state is a sequential run of *all* of them -/
theorem Redis_all_done {n : Nat} {s₀ : RState} {progs : Nat → List AOp}
    (hn : ∀ t, n ≤ t → progs t = []) {c : Config} (hr : Reach (Init s₀ progs) c)
    (hd : ∀ t, c.thr t = ⟨[], []⟩) :
    c.s = (opsOf c).foldl (fun s o => o.seq s) s₀ ∧ ∀ t, logOf c t = progs t := by
  have hq : Quiescent c := fun t => by rw [hd t]
  obtain ⟨a, _, b⟩ := Redis_quiescent_sequential hn hr hq
  refine ⟨a, fun t => ?_⟩
  have := b t
  rw [hd t] at this
  simpa using this

/-! ## what the sequential run means: the specification -/

open MemStore (View SwarmOK)

/-- the effect of an operation on the view: the memory store's specification for the announce path;
the collector's removal group keeps, in one role of one swarm, exactly the entries after the cutoff;
unregistering an empty hash is invisible -/
def AOp.spec : AOp → View → View
  | .putSeeder ih p now => (Op.putSeeder ih p now).spec
  | .putLeecher ih p now => (Op.putLeecher ih p now).spec
  | .graduate ih p now => (Op.graduate ih p now).spec
  | .deleteSeeder ih p => (Op.deleteSeeder ih p).spec
  | .deleteLeecher ih p => (Op.deleteLeecher ih p).spec
  | .gcHash f r ih cutoff => fun σ ih' f' =>
      if ih = ih' ∧ f = f' then setRole r ((roleOf r (σ ih f)).filter (fun e => decide (e.2 > cutoff))) (σ ih f) else σ ih' f'
  | .gcIdx _ _ _ => id

/-- every operation, run alone from a state satisfying the invariant, keeps the invariant and acts on
the view by its specification -/
theorem seq_refines (s : RState) (h : RInv s) (o : AOp) : RInv (o.seq s) ∧ view (o.seq s) = o.spec (view s) := by
  cases o with
  | putSeeder ih p now => exact ⟨Redis_step s h (.putSeeder ih p now), Redis_refines s h (.putSeeder ih p now)⟩
  | putLeecher ih p now => exact ⟨Redis_step s h (.putLeecher ih p now), Redis_refines s h (.putLeecher ih p now)⟩
  | graduate ih p now => exact ⟨Redis_step s h (.graduate ih p now), Redis_refines s h (.graduate ih p now)⟩
  | deleteSeeder ih p => exact ⟨Redis_step s h (.deleteSeeder ih p), Redis_refines s h (.deleteSeeder ih p)⟩
  | deleteLeecher ih p => exact ⟨Redis_step s h (.deleteLeecher ih p), Redis_refines s h (.deleteLeecher ih p)⟩
  | gcHash f r ih cutoff =>
    obtain ⟨a, b, _⟩ := gcHash_step s h f r ih cutoff
    refine ⟨a, ?_⟩
    funext ih' f'
    show view (RedisStore.gcHash s f (swarmKey f r ih) cutoff) ih' f' = _
    rw [b]
    simp only [AOp.spec, roleOf_view]
  | gcIdx f r ih =>
    obtain ⟨a, b⟩ := gcIdx_step s h f r ih
    exact ⟨a, by funext ih' f'; exact b ih' f'⟩

theorem seqFold_refines (ops : List AOp) (s : RState) (h : RInv s) :
    RInv (ops.foldl (fun s o => o.seq s) s) ∧
    view (ops.foldl (fun s o => o.seq s) s) = ops.foldl (fun σ o => o.spec σ) (view s) := by
  induction ops generalizing s with
  | nil => exact ⟨h, rfl⟩
  | cons o rest ih =>
    obtain ⟨a, b⟩ := seq_refines s h o
    have := ih (o.seq s) a
    simp only [List.foldl_cons]
    rw [← b]
    exact this

/-- **corollary (C01/C05/C17 for Redis under concurrency)**: started from a state satisfying the
invariant (the empty server, say), at every quiescent point of every schedule — announces, deletes and
the collector groups of any number of expiry passes interleaved at will — the view is the
specification's fold over the logged operations, the invariant of the sequential model holds (single
role, every non-empty swarm registered) and the exported totals are the recount. -/
theorem Redis_quiescent_spec {n : Nat} {s₀ : RState} (h₀ : RInv s₀) {progs : Nat → List AOp}
    (hn : ∀ t, n ≤ t → progs t = []) {c : Config} (hr : Reach (Init s₀ progs) c) (hq : Quiescent c) :
    view c.s = (opsOf c).foldl (fun σ o => o.spec σ) (view s₀) ∧
    RInv c.s ∧
    totals c.s = (((sumW wSeed c.s.idx4 + sumW wSeed c.s.idx6 : Nat) : Int),
                  ((sumW (wLen .v4 true) c.s.hashes + sumW (wLen .v6 true) c.s.hashes : Nat) : Int),
                  ((sumW (wLen .v4 false) c.s.hashes + sumW (wLen .v6 false) c.s.hashes : Nat) : Int)) := by
  have e := (Redis_quiescent_sequential hn hr hq).1
  obtain ⟨a, b⟩ := seqFold_refines (opsOf c) s₀ h₀
  rw [e]
  exact ⟨b, a, totals_of_inv _ a⟩

theorem roleOf_setRole (r : Bool) (m : MemStore.PMap) (sw : MemStore.Swarm) : roleOf r (setRole r m sw) = m := by
  cases r <;> rfl

theorem roleOf_setRole_other (r : Bool) (m : MemStore.PMap) (sw : MemStore.Swarm) : roleOf (!r) (setRole r m sw) = roleOf (!r) sw := by
  cases r <;> rfl

/-- **C05 under concurrency**: the collector's removal group, wherever it falls in the sequential order,
removes from the role it works on exactly the entries whose time is not after the cutoff — an entry
announced (again) after the cutoff before the group commits is kept — and touches nothing else: not the
other role, not another swarm, not the other family. -/
theorem gcHash_exact (σ : View) (f : Fam) (r : Bool) (ih : Bytes) (T : Int) (hok : SwarmOK (σ ih f)) (pk : Bytes) (t : Int) :
    (AMap.get (roleOf r ((AOp.gcHash f r ih T).spec σ ih f)) pk = some t ↔ AMap.get (roleOf r (σ ih f)) pk = some t ∧ t > T) ∧
    roleOf (!r) ((AOp.gcHash f r ih T).spec σ ih f) = roleOf (!r) (σ ih f) ∧
    (∀ ih' f', ¬ (ih = ih' ∧ f = f') → (AOp.gcHash f r ih T).spec σ ih' f' = σ ih' f') := by
  have hwf : AMap.WF (roleOf r (σ ih f)) := by cases r; exact hok.2.1; exact hok.1
  refine ⟨?_, ?_, ?_⟩
  · simp only [AOp.spec, and_self, if_true, roleOf_setRole]
    rw [MemStore.get_filter _ hwf]
    cases hg : AMap.get (roleOf r (σ ih f)) pk with
    | none => simp
    | some v =>
      simp only [Option.bind_some, decide_eq_true_eq]
      split
      · rename_i h; constructor
        · intro e; cases e; exact ⟨rfl, h⟩
        · intro ⟨e, _⟩; exact e
      · rename_i h; constructor
        · intro e; cases e
        · intro ⟨e, ht⟩; cases e; exact absurd ht h
  · simp only [AOp.spec, and_self, if_true, roleOf_setRole_other]
  · intro ih' f' hne
    simp only [AOp.spec, hne, if_false]

/-! ## an executable scheduler, and a real interleaving (non-vacuity) -/

theorem stepThread_reach {c₀ c : Config} (h : Reach c₀ c) (t : Nat) : Reach c₀ (stepThread c t) := by
  unfold stepThread
  split
  · rename_i δ ds todo ht; exact .step h (.delta c t δ ds todo ht)
  · rename_i o rest ht; exact .step h (.first c t o rest ht)
  · exact h

theorem run_reach {c₀ c : Config} (h : Reach c₀ c) (sched : List Nat) : Reach c₀ (run c sched) := by
  induction sched generalizing c with
  | nil => exact h
  | cons t rest ih => exact ih (stepThread_reach h t)

/-- with the idle bound, completion only has to be checked for the threads that exist -/
theorem done_of_bounded {n : Nat} {s₀ : RState} {progs : Nat → List AOp}
    (hn : ∀ t, n ≤ t → progs t = []) {c : Config} (hr : Reach (Init s₀ progs) c)
    (hd : ∀ t, t < n → c.thr t = ⟨[], []⟩) : ∀ t, c.thr t = ⟨[], []⟩ := by
  intro t
  by_cases h : t < n
  · exact hd t h
  · exact (inv_reach hn hr).idle t (by omega)

/-- two threads on the same swarm and the same peer: thread 0 announces the peer as a leecher and then
graduates it, thread 1 deletes the leecher. In this schedule thread 1's `HDEL` and its `DECR` land
between thread 0's first `EXEC` and its `INCR` (so the leecher counter is momentarily -1), and thread
0's graduation starts before thread 1 has finished. All three operations succeed, the run is complete,
and the state is the sequential one for the order put, delete, graduate: one seeder, no leecher. -/
example :
    let ih : Bytes := List.replicate 20 1
    let p : Peer := ⟨List.replicate 20 2, 6881, [10, 0, 0, 1], .v4⟩
    let progs : Nat → List AOp := fun t =>
      if t = 0 then [.putLeecher ih p 5, .graduate ih p 7] else if t = 1 then [.deleteLeecher ih p] else []
    let mid := run (Init {} progs) [0, 1, 1]
    let c := run (Init {} progs) [0, 1, 1, 0, 0, 0, 0]
    (totals mid.s).2.2 = -1 ∧ ¬ Quiescent mid ∧
    (∀ t, t < 2 → c.thr t = ⟨[], []⟩) ∧ c.log.map (·.2.2) = [true, true, true] ∧ c.log.map (·.1) = [0, 1, 0] ∧
    totals c.s = (1, 1, 0) := by
  refine ⟨by decide, ?_, by decide, by decide, by decide, by decide⟩
  intro h
  exact absurd (h 0) (by decide)

/-- **What holds of the counters at every instant** (quiescent or not): each counter differs from its
value in the sequential run of the logged operations by exactly what the operations in flight have
still to send. C17's "never negative" for Redis is proved at quiescent points only
(`Redis_quiescent_spec` with `totals_of_inv`); in between it is false of model and code alike — finding
D26, witness below. -/
theorem C17_redis_counters_every_instant_partial {n : Nat} {s₀ : RState} {progs : Nat → List AOp}
    (hn : ∀ t, n ≤ t → progs t = []) {c : Config} (hr : Reach (Init s₀ progs) c) (f : Fam) (k : CKind) :
    getC c.s.c f k = getC (seqRun s₀ (opsOf c)).c f k - owedAll c.thr f k n := by
  have := (inv_reach hn hr).cnt f k
  omega

/-- **D26 (known finding), the witness**: a seeder's put has had its membership round trip (thread 0),
the same peer's delete runs both of its round trips (thread 1) before the put's `INCR`: the seeder
total is −1 at that point, and 0 again once the `INCR` has landed (the emptied swarm stays registered
until the next expiry pass, hence the 1). Replayed on the real store by the
fixed schedules at the head of the C04 stream (`st.redis_sched … sched=0,1,1`). -/
theorem D26_transient_negative_witness :
    let ih : Bytes := List.replicate 20 1
    let p : Peer := ⟨List.replicate 20 2, 6881, [10, 0, 0, 1], .v4⟩
    let progs : Nat → List AOp := fun t =>
      if t = 0 then [.putSeeder ih p 5] else if t = 1 then [.deleteSeeder ih p] else []
    let mid := run (Init {} progs) [0, 1, 1]
    let fin := run (Init {} progs) [0, 1, 1, 0, 0]
    (totals mid.s).2.1 = -1 ∧ (mid.thr 0).pending ≠ [] ∧
    (∀ t, t < 2 → fin.thr t = ⟨[], []⟩) ∧ totals fin.s = (1, 0, 0) := by
  decide

/-- the D4 situation under the repaired collector: a seeder announced at 5; a pass with cutoff 6 runs
its two groups on the swarm (thread 1) while the peer announces again at 10 (thread 2). Whether the
re-announce lands before the removal group (first schedule: the group finds nothing to remove) or after
it (second schedule: removed, then stored again), the peer is a seeder with time 10 in the end, the
swarm is registered and the totals are (1, 1, 0). -/
example :
    let ih : Bytes := List.replicate 20 1
    let p : Peer := ⟨List.replicate 20 2, 6881, [10, 0, 0, 1], .v4⟩
    let s₀ := RedisStore.putSeeder {} ih p 5
    let progs : Nat → List AOp := fun t =>
      if t = 1 then [.gcHash .v4 true ih 6, .gcIdx .v4 true ih] else if t = 2 then [.putSeeder ih p 10] else []
    let a := run (Init s₀ progs) [2, 1, 1, 2, 2, 1, 1, 2]
    let b := run (Init s₀ progs) [1, 1, 1, 1, 1, 2, 2, 2, 2]
    (∀ t, t < 3 → a.thr t = ⟨[], []⟩) ∧ (∀ t, t < 3 → b.thr t = ⟨[], []⟩) ∧
    a.log.map (·.1) = [2, 1, 1] ∧ b.log.map (·.1) = [1, 1, 2] ∧
    AMap.get (view a.s ih .v4).seeders (peerKey p) = some 10 ∧ AMap.get (view b.s ih .v4).seeders (peerKey p) = some 10 ∧
    totals a.s = (1, 1, 0) ∧ totals b.s = (1, 1, 0) := by
  decide

end RedisConc
