import Chihaya.Model.Tracker
/-!
# C12 — a pre-hook rejection discloses no peers and leaves the swarm unchanged

Hooks are arbitrary functions; the theorems hold for every chain of any length.
-/
namespace Logic

variable {σ : Type}

theorem range_shift (n i0 : Nat) :
    (List.range (n + 1)).map (· + i0) = i0 :: (List.range n).map (· + (i0 + 1)) := by
  rw [List.range_succ_eq_map]
  simp only [List.map_cons, List.map_map, Nat.zero_add, List.cons.injEq, true_and]
  apply List.map_congr_left; intro x _; simp; omega

/-- the hooks of a chain that precede the first failing one all succeeded, the log is exactly
`0..i`, and nothing after it runs -/
theorem runAnn_go_spec (hooks : List AnnHook) (req : AnnReq) (i0 : Nat) (ctx : Ctx) (resp : AnnResp) :
    (∃ e k, (runAnn.go req hooks i0 ctx resp) = ((List.range (k + 1)).map (· + i0), .error e) ∧ k < hooks.length) ∨
    (∃ ctx' resp', (runAnn.go req hooks i0 ctx resp) = ((List.range hooks.length).map (· + i0), .ok (ctx', resp'))) := by
  induction hooks generalizing i0 ctx resp with
  | nil => right; exact ⟨ctx, resp, by simp [runAnn.go]⟩
  | cons h rest ih =>
    simp only [runAnn.go]
    cases hh : h ctx req resp with
    | error e => left; exact ⟨e, 0, by simp, by simp⟩
    | ok cr =>
      obtain ⟨c1, r1⟩ := cr
      simp only
      rcases ih (i0 + 1) c1 r1 with ⟨e, k, hk, hlt⟩ | ⟨c2, r2, hk⟩
      · left
        refine ⟨e, k + 1, ?_, by simp; omega⟩
        rw [hk]
        simp only [Prod.mk.injEq, and_true]
        exact (range_shift (k + 1) i0).symm
      · right
        refine ⟨c2, r2, ?_⟩
        rw [hk]
        simp only [List.length_cons, Prod.mk.injEq, and_true]
        exact (range_shift rest.length i0).symm

/-- **Rejection**: if `HandleAnnounce` fails, the hooks that ran are exactly `0..k` for some `k`
(the failing one last — no later hook ran), the error is returned and there is no response. -/
theorem C12_reject_log (cfg : Config) (ops : StoreOps σ) (pre : List AnnHook) (st : σ) (req : AnnReq) (e : ErrClass)
    (h : (handleAnnounce cfg ops pre st req).2 = .error e) :
    ∃ k, k ≤ pre.length ∧ (handleAnnounce cfg ops pre st req).1 = List.range (k + 1) := by
  unfold handleAnnounce runAnn at h ⊢
  rcases runAnn_go_spec (pre ++ [responseAnnounce ops st]) req 0 {} _ with ⟨e', k, hk, hlt⟩ | ⟨c, r, hk⟩
  · rw [hk]; refine ⟨k, by simp at hlt; omega, by simp⟩
  · rw [hk] at h; cases h

/-- while the store can be reached the built-in response hook never fails: a rejection always comes from
one of the configured pre-hooks -/
theorem responseAnnounce_ok (ops : StoreOps σ) (st : σ) (ctx : Ctx) (req : AnnReq) (resp : AnnResp) (hup : ops.down st = false) :
    ∃ r, responseAnnounce ops st ctx req resp = .ok (ctx, r) := by
  unfold responseAnnounce
  split
  · exact ⟨_, rfl⟩
  · simp only [hup, Bool.false_eq_true, if_false]
    exact ⟨_, rfl⟩

/-- with the store unreachable the response hook fails with an internal error (unless a pre-hook asked to
skip it): the client gets the fixed message, nothing of the store's error -/
theorem responseAnnounce_down (ops : StoreOps σ) (st : σ) (ctx : Ctx) (req : AnnReq) (resp : AnnResp)
    (hdown : ops.down st = true) (hskip : ctx.skipResponse = false) :
    responseAnnounce ops st ctx req resp = .error (.internal "storage failure") := by
  simp [responseAnnounce, hdown, hskip]

/-- running a chain that ends with the response hook: if a configured pre-hook fails the response
hook is never reached; otherwise it runs last, on the context and response the pre-hooks produced
(so peers are selected after every pre-hook has accepted) -/
theorem runAnn_append_response (pre : List AnnHook) (ops : StoreOps σ) (st : σ) (req : AnnReq) (i0 : Nat) (ctx : Ctx) (resp : AnnResp) :
    runAnn.go req (pre ++ [responseAnnounce ops st]) i0 ctx resp =
      match runAnn.go req pre i0 ctx resp with
      | (log, .error e) => (log, .error e)
      | (log, .ok (ctx', resp')) =>
        match responseAnnounce ops st ctx' req resp' with
        | .ok cr => (log ++ [i0 + pre.length], .ok cr)
        | .error e => (log ++ [i0 + pre.length], .error e) := by
  induction pre generalizing i0 ctx resp with
  | nil =>
    simp only [List.nil_append, runAnn.go, List.length_nil, Nat.add_zero]
    cases responseAnnounce ops st ctx req resp <;> simp
  | cons h rest ih =>
    simp only [List.cons_append, runAnn.go]
    cases hh : h ctx req resp with
    | error e => rfl
    | ok cr =>
      obtain ⟨c1, r1⟩ := cr
      simp only
      rw [ih (i0 + 1) c1 r1]
      cases hr : runAnn.go req rest (i0 + 1) c1 r1 with
      | mk log res =>
        cases res with
        | error e => rfl
        | ok cr2 =>
          obtain ⟨c2, r2⟩ := cr2
          simp only [List.length_cons]
          have : i0 + 1 + rest.length = i0 + (rest.length + 1) := by omega
          rw [this]
          cases responseAnnounce ops st c2 req r2 <;> rfl

/-- **No disclosure**: when a pre-hook rejects, the outcome (error *and* log) is the same whatever
the store contains — in particular the store is never consulted, so no peer information can flow
into what the client receives. -/
theorem C12_reject_independent_of_store (cfg : Config) (ops : StoreOps σ) (pre : List AnnHook) (st st' : σ) (req : AnnReq) (e : ErrClass)
    (hup : ops.down st = false)
    (h : (handleAnnounce cfg ops pre st req).2 = .error e) :
    handleAnnounce cfg ops pre st' req = handleAnnounce cfg ops pre st req := by
  unfold handleAnnounce runAnn at h ⊢
  rw [runAnn_append_response] at h ⊢
  rw [runAnn_append_response]
  cases hr : runAnn.go req pre 0 {} _ with
  | mk log res =>
    cases res with
    | error e' => rfl
    | ok cr =>
      obtain ⟨c, r⟩ := cr
      rw [hr] at h
      obtain ⟨r', hr'⟩ := responseAnnounce_ok ops st c req r hup
      simp only [hr'] at h
      cases h

/-- **Accepted requests**: the response is the response hook applied after all pre-hooks, and the
log is `0..|pre|` (every pre-hook once, in order, then the response hook). -/
theorem C12_accept (cfg : Config) (ops : StoreOps σ) (pre : List AnnHook) (st : σ) (req : AnnReq) (ctx : Ctx) (resp : AnnResp)
    (h : (handleAnnounce cfg ops pre st req).2 = .ok (ctx, resp)) :
    (handleAnnounce cfg ops pre st req).1 = List.range (pre.length + 1) ∧
    ∃ ctx0 resp0, (runAnn pre req 0 {} (initResp cfg req)).2 = .ok (ctx0, resp0) ∧
      responseAnnounce ops st ctx0 req resp0 = .ok (ctx, resp) := by
  unfold handleAnnounce runAnn at h ⊢
  rcases runAnn_go_spec (pre ++ [responseAnnounce ops st]) req 0 {} _ with ⟨e', k, hk, hlt⟩ | ⟨c, r, hk⟩
  · rw [hk] at h; cases h
  · refine ⟨by rw [hk]; simp, ?_⟩
    rw [runAnn_append_response] at h
    cases hr : runAnn.go req pre 0 {} _ with
    | mk log res =>
      rw [hr] at h
      cases res with
      | error e => cases h
      | ok cr =>
        obtain ⟨c0, r0⟩ := cr
        refine ⟨c0, r0, rfl, ?_⟩
        simp only at h
        cases hra : responseAnnounce ops st c0 req r0 with
        | error e => rw [hra] at h; cases h
        | ok cr' => rw [hra] at h; simp only at h; rw [h]

theorem runPost_log (req : AnnReq) (resp : AnnResp) (post : List AnnHook) (i : Nat) (ctx : Ctx) :
    (runPost req resp post i ctx).1 = (List.range post.length).map (· + i) := by
  induction post generalizing i ctx with
  | nil => simp [runPost]
  | cons h rest ih =>
    simp only [runPost, ih, List.length_cons, List.range_succ_eq_map, List.map_cons, List.map_map, Nat.zero_add]
    congr 1
    apply List.map_congr_left
    intro a _
    simp only [Function.comp]
    omega

/-- **Applied exactly once, whatever the post-hooks do** (repair D28; the reading R3 "a failing post-hook stops the
chain, swarm interaction included" is withdrawn): every post-hook runs, in order, then the swarm interaction runs
exactly once — for every chain of accepting and failing post-hooks — and it leaves the store alone exactly when the
context it sees carries the skip flag. A post-hook that fails does not change the context. -/
theorem C12_after (ops : StoreOps σ) (post : List AnnHook) (st : σ) (ctx : Ctx) (req : AnnReq) (resp : AnnResp) :
    (afterAnnounce ops post st ctx req resp).1 = List.range (post.length + 1) ∧
    (afterAnnounce ops post st ctx req resp).2 = swarmInteraction ops st (runPost req resp post 0 ctx).2 req ∧
    ((runPost req resp post 0 ctx).2.skipSwarmInteraction = true → (afterAnnounce ops post st ctx req resp).2 = st) := by
  refine ⟨?_, rfl, fun hs => by simp [afterAnnounce, swarmInteraction, hs]⟩
  simp only [afterAnnounce, runPost_log, Nat.add_zero, List.map_id']
  rw [List.range_succ]

/-- post-hooks that all fail change nothing about what is applied: the swarm sees the announce as the pre-phase
left it -/
theorem C12_failing_posthooks_do_not_matter (ops : StoreOps σ) (post : List AnnHook) (st : σ) (ctx : Ctx) (req : AnnReq) (resp : AnnResp)
    (hfail : ∀ h ∈ post, ∀ c, ∃ e, h c req resp = .error e) :
    (afterAnnounce ops post st ctx req resp).2 = swarmInteraction ops st ctx req := by
  have key : ∀ (post : List AnnHook) (i : Nat), (∀ h ∈ post, ∀ c, ∃ e, h c req resp = .error e) →
      (runPost req resp post i ctx).2 = ctx := by
    intro post
    induction post with
    | nil => intro i _; rfl
    | cons h rest ih =>
      intro i hf
      obtain ⟨e, he⟩ := hf h (by simp) ctx
      simp only [runPost, he]
      exact ih (i + 1) (fun h' hh c => hf h' (by simp [hh]) c)
  simp only [afterAnnounce, key post 0 hfail]

/-- **Storage failure**: with the store unreachable, an announce that every pre-hook accepts (and that no
pre-hook marked to skip the response) fails with the internal error after the whole chain has run — whatever the
request, whatever the store last held -/
theorem C12_storage_failure (cfg : Config) (ops : StoreOps σ) (pre : List AnnHook) (st : σ) (req : AnnReq) (ctx0 : Ctx) (resp0 : AnnResp)
    (hdown : ops.down st = true)
    (hpre : (runAnn pre req 0 {} (initResp cfg req)).2 = .ok (ctx0, resp0)) (hskip : ctx0.skipResponse = false) :
    (handleAnnounce cfg ops pre st req).2 = .error (.internal "storage failure") := by
  unfold runAnn at hpre
  unfold handleAnnounce runAnn
  rw [runAnn_append_response]
  cases hr : runAnn.go req pre 0 {} (initResp cfg req) with
  | mk log res =>
    rw [hr] at hpre
    simp only at hpre
    subst hpre
    simp only [responseAnnounce_down ops st ctx0 req resp0 hdown hskip]

/-- … and whatever the post-hooks decide, nothing is written: the swarm interaction is a no-op -/
theorem swarmInteraction_down (ops : StoreOps σ) (st : σ) (ctx : Ctx) (req : AnnReq) (hdown : ops.down st = true) :
    swarmInteraction ops st ctx req = st := by
  unfold swarmInteraction
  split
  · rfl
  · simp [hdown]

/-- a scrape during a storage failure reports nothing for every requested infohash (and is not an error) -/
theorem responseScrape_down (ops : StoreOps σ) (st : σ) (ctx : Ctx) (req : ScrapeReq) (resp : ScrapeResp)
    (hdown : ops.down st = true) (hskip : ctx.skipResponse = false) :
    responseScrape ops st ctx req resp =
      .ok (ctx, { files := resp.files ++ req.infoHashes.map fun ih => { infoHash := ih, snatches := 0, complete := 0, incomplete := 0 } }) := by
  simp [responseScrape, hdown, hskip]

/-- `SkipResponseHookKey`: the response is left exactly as the pre-hooks produced it -/
theorem C12_skip_response (ops : StoreOps σ) (st : σ) (ctx : Ctx) (req : AnnReq) (resp : AnnResp) (h : ctx.skipResponse = true) :
    responseAnnounce ops st ctx req resp = .ok (ctx, resp) := by
  simp [responseAnnounce, h]

end Logic

namespace Tracker
open Logic
variable {σ : Type}

/-- **Through the HTTP frontend**: a rejected announce (by the parser or by a pre-hook) gets only
the error body, never starts the post-response hooks, and leaves the store as it was. -/
theorem C12_http_reject (env : HttpParse.Env) (opts : ParseOpts) (cfg : Logic.Config) (ops : StoreOps σ) (hooks : Hooks)
    (ipText : Bytes → Bytes) (st : σ) (uri : Bytes) (h : (httpAnnounce env opts cfg ops hooks ipText st uri).isError = true) :
    (httpAnnounce env opts cfg ops hooks ipText st uri).store = st ∧
    (httpAnnounce env opts cfg ops hooks ipText st uri).after = false ∧
    (httpAnnounce env opts cfg ops hooks ipText st uri).postLog = [] ∧
    ∃ e, (httpAnnounce env opts cfg ops hooks ipText st uri).body = some (HttpWrite.writeError e) := by
  unfold httpAnnounce at h ⊢
  cases hp : HttpParse.parseAnnounce env uri opts with
  | error e => simp only [hp]; exact ⟨by first | rfl | trivial, by first | rfl | trivial, by first | rfl | trivial, e, by first | rfl | trivial⟩
  | ok req =>
    simp only [hp] at h ⊢
    cases hh : handleAnnounce cfg ops hooks.preAnn st req with
    | mk log res =>
      cases res with
      | error e => simp only [hh]; exact ⟨by first | rfl | trivial, by first | rfl | trivial, by first | rfl | trivial, e, by first | rfl | trivial⟩
      | ok cr => obtain ⟨c, r⟩ := cr; simp only [hh] at h; cases h

/-- **Through the UDP frontend**: when the logic rejects, the datagram is the error datagram only and
the post-response hooks are not started. -/
theorem C12_udp_reject (mac : Udp.Mac) (lower : Bytes → Bytes) (ucfg : Udp.Cfg) (cfg : Logic.Config) (ops : StoreOps σ) (hooks : Hooks)
    (st : σ) (now : Int) (pkt src : Bytes) (req : AnnReq) (e : ErrClass)
    (hcall : (Udp.handleRequest mac lower ucfg (udpLogic cfg ops hooks st) now pkt src).call = some (.announce req))
    (hrej : (handleAnnounce cfg ops hooks.preAnn st req).2 = .error e) :
    (Udp.handleRequest mac lower ucfg (udpLogic cfg ops hooks st) now pkt src).after = false ∧
    (Udp.handleRequest mac lower ucfg (udpLogic cfg ops hooks st) now pkt src).out = some (Udp.writeError (Udp.slice pkt 12 16) e) := by
  unfold Udp.handleRequest at hcall ⊢
  by_cases hl : pkt.length < 16
  · simp [hl] at hcall
  · simp only [hl, if_false] at hcall ⊢
    split at hcall
    · simp at hcall
    · rename_i hv
      simp only [hv, if_false]
      split at hcall
      · split at hcall
        · simp at hcall
        · split at hcall <;> simp at hcall
      · rename_i ha0
        simp only [ha0, if_false]
        split at hcall
        · rename_i ha
          simp only [ha, if_true]
          cases hp : Udp.parseAnnounce lower pkt src (decide (Bytes.toNatBE (Udp.slice pkt 8 12) = 4)) ucfg.opts with
          | error e' => simp [hp] at hcall
          | ok req' =>
            simp only [hp] at hcall ⊢
            have hreq : req' = req := by
              cases hl' : (udpLogic cfg ops hooks st).announce req' <;> simp [hl'] at hcall <;> exact hcall
            subst hreq
            have : (udpLogic cfg ops hooks st).announce req' = .error e := by
              simp [udpLogic, hrej]
            simp [this]
        · rename_i ha
          split at hcall
          · split at hcall
            · simp at hcall
            · simp at hcall
            · split at hcall <;> simp at hcall
          · simp at hcall

end Tracker
