import Chihaya.Lemmas.HttpParse
/-!
# C06 — HTTP announce/scrape parsing is total and faithful to the query

The parser model is a total function into `Except ErrClass _`: every URI / header / remote
address is either rejected with a client-visible reason or accepted. (Panics of the 20-byte
constructors are unreachable because their call sites are guarded by the length tests the
model reproduces; the harness observes the real code under `recover` — see C13.)
-/
set_option linter.unusedSimpArgs false
namespace HttpParse
open Query

/-- Accepted announces: non-zero port; numwant = the default when absent, otherwise the supplied
value capped at the maximum; IP byte length matches its family; 20-byte infohash and peer id;
all counters within their Go types. For every URI, header, remote address and option set. -/
theorem C06_accept_post (env : Env) (uri : Bytes) (opts : ParseOpts) (r : AnnReq)
    (h : parseAnnounce env uri opts = .ok r) :
    r.peer.port ≠ 0 ∧ r.peer.port < 2^16 ∧
    (r.numWantProvided = false → r.numWant = opts.defaultNumWant) ∧
    (r.numWantProvided = true → r.numWant ≤ opts.maxNumWant) ∧
    ((r.peer.fam = .v4 ∧ r.peer.ip.length = 4) ∨ (r.peer.fam = .v6 ∧ r.peer.ip.length = 16 ∧ Sanitize.to4 r.peer.ip = none)) ∧
    r.infoHash.length = 20 ∧ r.peer.id.length = 20 ∧ r.left < 2^64 ∧ r.downloaded < 2^64 ∧ r.uploaded < 2^64 := by
  obtain ⟨qp, ev, ih, pid, left, dl, ul, nw, port, ip, hqp, hev, hih, hpid, hleft, hdl, hul, hnw, hport, hip, hs⟩ :=
    parseAnnounce_inv env uri opts r h
  have hp := Sanitize.announce_post _ _ _ _ hs
  simp only at hp
  obtain ⟨hp1, hp2, hp3, hp4, hp5, hp6, hp7, hp8, hp9, hp10, hp11, hp12, hp13, hp14, hp15⟩ := hp
  have hihs := parseURLData_ihs _ _ _ hqp
  have hl := singleInfoHash_ok _ _ hih
  refine ⟨hp2, ?_, ?_, ?_, hp5, ?_, ?_, ?_, ?_, ?_⟩
  · rw [hp1]; exact (reqUint_ok _ _ _ _ _ hport).2
  · intro hf; rw [hp13] at hf; exact hp3 hf
  · intro ht; rw [hp13] at ht; rw [hp4 ht]; exact Nat.min_le_right _ _
  · rw [hp6]; exact hihs ih (by rw [hl]; simp)
  · rw [hp7]; exact (peerIDOf_ok _ _ hpid).2
  · rw [hp8]; exact (reqUint_ok _ _ _ _ _ hleft).2
  · rw [hp9]; exact (reqUint_ok _ _ _ _ _ hdl).2
  · rw [hp10]; exact (reqUint_ok _ _ _ _ _ hul).2

/-- Faithfulness: an accepted announce carries exactly the percent-decoded values supplied —
the single `info_hash`, and for every other field the *last* value stored under its key. -/
theorem C06_accept_fields (env : Env) (uri : Bytes) (opts : ParseOpts) (r : AnnReq)
    (h : parseAnnounce env uri opts = .ok r) :
    ∃ qp, parseURLData env.lower uri = .ok qp ∧
      qp.infoHashes = [r.infoHash] ∧
      get qp.params kPeerID = some r.peer.id ∧
      uint qp.params kLeft 64 = .ok r.left ∧ uint qp.params kDownloaded 64 = .ok r.downloaded ∧
      uint qp.params kUploaded 64 = .ok r.uploaded ∧ uint qp.params kPort 16 = .ok r.peer.port ∧
      eventOf qp.params = .ok r.event ∧ r.compact = compactOf qp.params ∧
      r.eventProvided = (get qp.params kEvent).isSome ∧
      (r.numWantProvided = true → ∃ n, uint qp.params kNumwant 32 = .ok n ∧ r.numWant = min n opts.maxNumWant) ∧
      (r.numWantProvided = false → uint qp.params kNumwant 32 = .notFound) := by
  obtain ⟨qp, ev, ih, pid, left, dl, ul, nw, port, ip, hqp, hev, hih, hpid, hleft, hdl, hul, hnw, hport, hip, hs⟩ :=
    parseAnnounce_inv env uri opts r h
  have hp := Sanitize.announce_post _ _ _ _ hs
  simp only at hp
  obtain ⟨hp1, hp2, hp3, hp4, hp5, hp6, hp7, hp8, hp9, hp10, hp11, hp12, hp13, hp14, hp15⟩ := hp
  have hnw' := numWantOf_ok _ _ hnw
  refine ⟨qp, hqp, ?_, ?_, ?_, ?_, ?_, ?_, ?_, hp12, hp15, ?_, ?_⟩
  · rw [hp6]; exact singleInfoHash_ok _ _ hih
  · rw [hp7]; exact (peerIDOf_ok _ _ hpid).1
  · rw [hp8]; exact (reqUint_ok _ _ _ _ _ hleft).1
  · rw [hp9]; exact (reqUint_ok _ _ _ _ _ hdl).1
  · rw [hp10]; exact (reqUint_ok _ _ _ _ _ hul).1
  · rw [hp1]; exact (reqUint_ok _ _ _ _ _ hport).1
  · rw [hp11]; exact hev
  · intro ht; rw [hp13] at ht
    exact ⟨nw.2, (hnw'.1 ht).1, hp4 ht⟩
  · intro hf; rw [hp13] at hf
    exact (hnw'.2 hf).1

/-- Only the consulted values matter: two URIs whose parsed queries agree on the infohash list and
on the last value of every consulted key are treated identically (same rejection or same request,
up to the raw parameter list it carries). Hence the independence from the order of distinct
parameters, from escaping style and from unrelated parameters (see `get_append_other`,
`get_cons_other`, `get_append_last`, and the escaping lemmas below). -/
def consulted : List Bytes := [kEvent, kCompact, kPeerID, kLeft, kDownloaded, kUploaded, kNumwant, kPort, kIP, kIPv4, kIPv6]

def core (r : AnnReq) : AnnReq := { r with params := [] }

theorem announce_core (r : AnnReq) (p : List (Bytes × Bytes)) (mx df : Nat) :
    (Sanitize.announce r mx df).map core = (Sanitize.announce { r with params := p } mx df).map core := by
  unfold Sanitize.announce
  by_cases hp : r.peer.port = 0
  · simp [hp, Except.map]
  · simp only [hp, if_false]
    cases Sanitize.to4 r.peer.ip with
    | some ip4 => simp [Except.map, core]
    | none =>
      simp only
      by_cases h16 : r.peer.ip.length = 16
      · simp [h16, Except.map, core]
      · simp [h16, Except.map]

theorem C06_only_consulted (env : Env) (u1 u2 : Bytes) (opts : ParseOpts) (q1 q2 : Parsed)
    (h1 : parseURLData env.lower u1 = .ok q1) (h2 : parseURLData env.lower u2 = .ok q2)
    (hih : q1.infoHashes = q2.infoHashes) (hk : ∀ k ∈ consulted, get q1.params k = get q2.params k) :
    (parseAnnounce env u1 opts).map core = (parseAnnounce env u2 opts).map core := by
  have e1 : eventOf q1.params = eventOf q2.params := by simp [eventOf, hk kEvent (by simp [consulted])]
  have e2 : peerIDOf q1.params = peerIDOf q2.params := by simp [peerIDOf, hk kPeerID (by simp [consulted])]
  have e3 : ∀ k ∈ consulted, ∀ b n, reqUint q1.params k b n = reqUint q2.params k b n := by
    intro k hk' b n; simp [reqUint, uint, hk k hk']
  have e4 : numWantOf q1.params = numWantOf q2.params := by simp [numWantOf, uint, hk kNumwant (by simp [consulted])]
  have e5 : ipOf env q1.params opts = ipOf env q2.params opts := by
    simp [ipOf, requestedIP, spoofParam, hk kIP (by simp [consulted]), hk kIPv4 (by simp [consulted]), hk kIPv6 (by simp [consulted])]
  have e6 : compactOf q1.params = compactOf q2.params := by simp [compactOf, hk kCompact (by simp [consulted])]
  have e7 : (get q1.params kEvent).isSome = (get q2.params kEvent).isSome := by rw [hk kEvent (by simp [consulted])]
  unfold parseAnnounce
  simp only [h1, h2, bind, Except.bind, hih, e1, e2, e4, e5, e6, e7,
    e3 kLeft (by simp [consulted]), e3 kDownloaded (by simp [consulted]), e3 kUploaded (by simp [consulted]),
    e3 kPort (by simp [consulted])]
  cases eventOf q2.params <;> simp only [Except.map]
  cases singleInfoHash q2.infoHashes <;> simp only [Except.map]
  cases peerIDOf q2.params <;> simp only [Except.map]
  cases reqUint q2.params kLeft 64 "left" <;> simp only [Except.map]
  cases reqUint q2.params kDownloaded 64 "downloaded" <;> simp only [Except.map]
  cases reqUint q2.params kUploaded 64 "uploaded" <;> simp only [Except.map]
  cases numWantOf q2.params <;> simp only [Except.map]
  cases reqUint q2.params kPort 16 "port" <;> simp only [Except.map]
  cases ipOf env q2.params opts <;> simp only [Except.map]
  rename_i ev ih pid left dl ul nw port ip
  let r0 : AnnReq :=
    { event := ev, eventProvided := (get q2.params kEvent).isSome, infoHash := ih, compact := compactOf q2.params,
      numWantProvided := nw.1, ipProvided := ip.2, numWant := nw.2, left := left, downloaded := dl, uploaded := ul,
      peer := { id := pid, port := port, ip := ip.1, fam := .v4 }, params := [] }
  have a1 := announce_core r0 q1.params opts.maxNumWant opts.defaultNumWant
  have a2 := announce_core r0 q2.params opts.maxNumWant opts.defaultNumWant
  exact a1.symm.trans a2

/-- Scrapes: the first `min k max` supplied infohashes, in order, each 20 bytes; never more than
the configured limit. -/
theorem C06_scrape (env : Env) (uri : Bytes) (opts : ParseOpts) (ok : Bool) (r : ScrapeReq)
    (h : parseScrape env uri opts ok = .ok r) :
    ∃ qp, parseURLData env.lower uri = .ok qp ∧ r.infoHashes = qp.infoHashes.take opts.maxScrapeInfoHashes ∧
      r.infoHashes.length ≤ opts.maxScrapeInfoHashes ∧ (∀ x ∈ r.infoHashes, x.length = 20) := by
  unfold parseScrape at h
  cases hq : parseURLData env.lower uri with
  | error e => simp [hq] at h
  | ok qp =>
    have hihs := parseURLData_ihs _ _ _ hq
    simp only [hq] at h
    have key : (Sanitize.scrape { fam := .v4, infoHashes := qp.infoHashes, params := qp.params } opts.maxScrapeInfoHashes).infoHashes
        = qp.infoHashes.take opts.maxScrapeInfoHashes := by
      unfold Sanitize.scrape
      split
      · rfl
      · rename_i hle
        simp only at hle ⊢
        rw [List.take_of_length_le (by omega)]
    split at h
    · cases h
    · split at h
      · cases h
      · split at h
        · cases h
        · split at h
          · cases h
          · cases h
            refine ⟨qp, rfl, key, ?_, ?_⟩
            · simp only; rw [key]; simp [List.length_take]; omega
            · simp only; rw [key]; intro x hx; exact hihs x (List.mem_of_mem_take hx)

/-! ## Escaping: every way of writing a byte decodes to that byte -/

/-- one source byte as it may be written in a query: literally (when it is not `%`, `+`, and —
for the renderer — not a separator), as `%XX` with hex digits of either case, or a space as `+` -/
inductive Piece where
  | lit (c : UInt8)
  | pct (c : UInt8) (up1 up2 : Bool)
  | plus

def hexDig (n : Nat) (upper : Bool) : UInt8 :=
  if n < 10 then UInt8.ofNat (48 + n) else if upper then UInt8.ofNat (55 + n) else UInt8.ofNat (87 + n)

def Piece.render : Piece → Bytes
  | .lit c => [c]
  | .pct c u1 u2 => [37, hexDig (c.toNat / 16) u1, hexDig (c.toNat % 16) u2]
  | .plus => [43]

def Piece.value : Piece → UInt8
  | .lit c => c
  | .pct c _ _ => c
  | .plus => 32

def Piece.ok : Piece → Prop
  | .lit c => c ≠ 37 ∧ c ≠ 43
  | _ => True

theorem hexDig_isHex (n : Nat) (u : Bool) (h : n < 16) : isHex (hexDig n u) = true ∧ unhex (hexDig n u) = n := by
  unfold hexDig isHex unhex
  have : n = 0 ∨ n = 1 ∨ n = 2 ∨ n = 3 ∨ n = 4 ∨ n = 5 ∨ n = 6 ∨ n = 7 ∨ n = 8 ∨ n = 9 ∨ n = 10 ∨ n = 11 ∨
      n = 12 ∨ n = 13 ∨ n = 14 ∨ n = 15 := by omega
  rcases this with h | h | h | h | h | h | h | h | h | h | h | h | h | h | h | h <;> subst h <;> cases u <;> decide

theorem unescape_lit (c : UInt8) (rest : Bytes) (h : c ≠ 37) :
    unescape (c :: rest) = (unescape rest).map ((if c = 43 then 32 else c) :: ·) := by
  cases rest with
  | nil => simp [unescape, h]
  | cons a t =>
    cases t with
    | nil => by_cases ha : a = 37 <;> simp [unescape, h, ha]
    | cons b t' => simp only [unescape, h, if_false]; cases unescape (a :: b :: t') <;> rfl

theorem unescape_pct (a b : UInt8) (rest : Bytes) (ha : isHex a = true) (hb : isHex b = true) :
    unescape (37 :: a :: b :: rest) = (unescape rest).map (UInt8.ofNat (unhex a * 16 + unhex b) :: ·) := by
  simp only [unescape, if_true, ha, hb, Bool.and_self]
  cases unescape rest <;> rfl

/-- `unescape` inverts every escaping: whatever mixture of literal bytes, `%XX` (either case) and
`+` is used, decoding yields exactly the intended bytes. -/
theorem C06_unescape_render (ps : List Piece) (hok : ∀ p ∈ ps, p.ok) :
    unescape (ps.flatMap Piece.render) = some (ps.map Piece.value) := by
  induction ps with
  | nil => simp [unescape]
  | cons p rest ih =>
    have ih' := ih (fun q hq => hok q (List.mem_cons_of_mem _ hq))
    have hp := hok p List.mem_cons_self
    cases p with
    | lit c =>
      simp only [Piece.ok] at hp
      simp only [List.flatMap_cons, Piece.render, List.singleton_append, List.map_cons, Piece.value]
      rw [unescape_lit _ _ hp.1, ih']
      simp [hp.2]
    | plus =>
      simp only [List.flatMap_cons, Piece.render, List.singleton_append, List.map_cons, Piece.value]
      rw [unescape_lit _ _ (by decide), ih']
      simp
    | pct c u1 u2 =>
      simp only [List.flatMap_cons, Piece.render, List.cons_append, List.nil_append, List.map_cons, Piece.value]
      have h1 := hexDig_isHex (c.toNat / 16) u1 (by have := c.toNat_lt; omega)
      have h2 := hexDig_isHex (c.toNat % 16) u2 (by omega)
      rw [unescape_pct _ _ _ h1.1 h2.1, ih', h1.2, h2.2]
      simp only [Option.map_some]
      congr 2
      apply UInt8.toNat.inj
      simp [UInt8.toNat_ofNat']
      have := c.toNat_lt
      omega

/-! ### Which keys reach a consulted parameter (D27) -/

theorem asciiLowerByte_ascii (c : UInt8) (h : (asciiLowerByte c).toNat < 128) : c.toNat < 128 := by
  unfold asciiLowerByte at h
  split at h
  · omega
  · exact h

/-- ASCII lower-casing never turns a key with a byte ≥ 0x80 into an ASCII key … -/
theorem asciiLower_isASCII (k : Bytes) (h : isASCII (asciiLower k) = true) : isASCII k = true := by
  unfold isASCII asciiLower at *
  rw [List.all_eq_true] at *
  intro c hc
  have := h (asciiLowerByte c) (List.mem_map_of_mem hc)
  simp only [decide_eq_true_eq] at *
  exact asciiLowerByte_ascii c this

/-- … and a key it maps to `c` is `c` up to the case of ASCII letters: same length, every byte either
the one of `c` or its upper-case form -/
theorem asciiLower_eq_inv (k c : Bytes) (h : asciiLower k = c) :
    k.length = c.length ∧ ∀ i (hi : i < k.length) (hc : i < c.length),
      k[i] = c[i] ∨ (65 ≤ k[i].toNat ∧ k[i].toNat ≤ 90 ∧ k[i] + 32 = c[i]) := by
  subst h
  refine ⟨by simp [asciiLower], ?_⟩
  intro i hi hc
  simp only [asciiLower, List.getElem_map, asciiLowerByte]
  split
  · rename_i hr; right; exact ⟨hr.1, hr.2, rfl⟩
  · left; trivial

/-- every consulted key is ASCII -/
theorem consulted_ascii : ∀ c ∈ consulted, isASCII c = true := by decide

/-- **Unrelated parameters stay unrelated** (the sentence D27 violated): with the key normalisation of
the repaired `parseQuery`, a parameter whose percent-decoded key contains a byte ≥ 0x80 — `peer_İd`,
`İp`, the Kelvin sign for `k` — is stored under a key that no consulted parameter is looked up by,
wherever it stands in the query: every consulted lookup sees what it saw without it. -/
theorem C06_nonascii_key_unrelated (ps qs : List (Bytes × Bytes)) (k v : Bytes) (hk : isASCII k = false) :
    ∀ c ∈ consulted, get (ps ++ (asciiLower k, v) :: qs) c = get (ps ++ qs) c := by
  intro c hc
  have hne : asciiLower k ≠ c := by
    intro e
    have := asciiLower_isASCII k (by rw [e]; exact consulted_ascii c hc)
    rw [this] at hk; cases hk
  unfold Query.get
  simp only [List.reverse_append, List.reverse_cons, List.find?_append, List.append_assoc]
  have : List.find? (fun p : Bytes × Bytes => decide (p.1 = c)) [(asciiLower k, v)] = none := by simp [hne]
  simp [this]

/-- the same for any key that is not a case variant of a consulted one -/
theorem C06_other_key_unrelated (ps qs : List (Bytes × Bytes)) (k v : Bytes) (hk : asciiLower k ∉ consulted) :
    ∀ c ∈ consulted, get (ps ++ (asciiLower k, v) :: qs) c = get (ps ++ qs) c := by
  intro c hc
  have hne : asciiLower k ≠ c := fun e => hk (e ▸ hc)
  unfold Query.get
  simp only [List.reverse_append, List.reverse_cons, List.find?_append, List.append_assoc]
  have : List.find? (fun p : Bytes × Bytes => decide (p.1 = c)) [(asciiLower k, v)] = none := by simp [hne]
  simp [this]

/-- non-vacuity / the D27 input: `peer_İd` (bytes `70 65 65 72 5f c4 b0 64`) is not ASCII, so it is such a key -/
example : isASCII [0x70, 0x65, 0x65, 0x72, 0x5f, 0xc4, 0xb0, 0x64] = false ∧
    asciiLower [0x70, 0x65, 0x65, 0x72, 0x5f, 0xc4, 0xb0, 0x64] ≠ kPeerID := by decide

/-- non-vacuity: an accepted announce exists -/
example : ∃ r, parseAnnounce
    { lower := asciiLower, parseIP := fun _ => some ([0,0,0,0,0,0,0,0,0,0,255,255,10,1,2,3]), hdr := none, remoteHost := [] }
    -- /announce?info_hash=aaaaaaaaaaaaaaaaaaaa&peer_id=bbbbbbbbbbbbbbbbbbbb&left=0&downloaded=0&uploaded=0&port=6881
    [47,97,110,110,111,117,110,99,101,63,105,110,102,111,95,104,97,115,104,61,97,97,97,97,97,97,97,97,97,97,97,97,97,97,97,97,97,97,97,97,38,112,101,101,114,95,105,100,61,98,98,98,98,98,98,98,98,98,98,98,98,98,98,98,98,98,98,98,98,38,108,101,102,116,61,48,38,100,111,119,110,108,111,97,100,101,100,61,48,38,117,112,108,111,97,100,101,100,61,48,38,112,111,114,116,61,54,56,56,49]
    { allowIPSpoofing := false, realIPHeaderSet := false, maxNumWant := 100, defaultNumWant := 50, maxScrapeInfoHashes := 50 }
    = .ok r := ⟨_, by rfl⟩

end HttpParse
