import Chihaya.Model.Approval
/-!
# C14 — client and torrent approval decide exactly by list membership
-/
namespace Approval

/-- the client ID is peer-ID bytes 1–6 for IDs starting with '-', bytes 0–5 otherwise -/
theorem C14_clientID (pid : Bytes) (h : pid.length = 20) :
    (pid[0]! = 45 → clientID pid = (pid.drop 1).take 6 ∧ (clientID pid).length = 6) ∧
    (pid[0]! ≠ 45 → clientID pid = pid.take 6 ∧ (clientID pid).length = 6) := by
  match pid, h with
  | c :: rest, h =>
    simp only [List.length_cons] at h
    constructor
    · intro hc
      have : c = 45 := by simpa using hc
      subst this
      simp [clientID]; omega
    · intro hc
      have : c ≠ 45 := by simpa using hc
      simp [clientID, this]; omega

/-- whitelist configured: accepted iff the key is on the list -/
theorem C14_whitelist (h : Hook) (key : Bytes) (hw : h.approved ≠ []) (hb : h.unapproved = []) :
    accepts h key = true ↔ key ∈ h.approved := by
  cases ha : h.approved with
  | nil => exact absurd ha hw
  | cons a as => simp [accepts, ha, hb]

/-- blacklist configured: accepted iff the key is not on the list -/
theorem C14_blacklist (h : Hook) (key : Bytes) (hw : h.approved = []) (hb : h.unapproved ≠ []) :
    accepts h key = true ↔ key ∉ h.unapproved := by
  cases hu : h.unapproved with
  | nil => exact absurd hu hb
  | cons a as => simp [accepts, hw, hu]

/-- no list configured: everything is accepted -/
theorem C14_nolist (h : Hook) (key : Bytes) (hw : h.approved = []) (hb : h.unapproved = []) :
    accepts h key = true := by
  simp [accepts, hw, hb]

/-- scrapes are never blocked -/
theorem C14_scrape (h : Hook) : scrapeAccepts h = true := rfl

/-- a hook that exists never has both lists (so exactly one of the three cases above applies) -/
theorem C14_not_both_client (w b : List Bytes) (h : Hook) (hn : newClientHook w b = some h) :
    h.approved = [] ∨ h.unapproved = [] := by
  unfold newClientHook at hn
  split at hn
  · cases hn
  · split at hn
    · cases hn
      cases w <;> cases b <;> simp_all
    · cases hn

/-- configurations naming both lists are refused -/
theorem C14_both_refused (w b : List Bytes) (hw : w ≠ []) (hb : b ≠ []) :
    newClientHook w b = none ∧ newTorrentHook w b = none := by
  cases w with
  | nil => exact absurd rfl hw
  | cons x xs => cases b with
    | nil => exact absurd rfl hb
    | cons y ys => simp [newClientHook, newTorrentHook]

/-- client entries of the wrong length are refused -/
theorem C14_client_entry_length (w b : List Bytes) (e : Bytes) (he : e ∈ w ∨ e ∈ b) (hl : e.length ≠ 6) :
    newClientHook w b = none := by
  unfold newClientHook
  split
  · rfl
  · have : (w.all (·.length = 6) && b.all (·.length = 6)) = false := by
      rcases he with he | he
      · have : w.all (·.length = 6) = false := by
          simp only [List.all_eq_false]; exact ⟨e, he, by simpa using hl⟩
        simp [this]
      · have : b.all (·.length = 6) = false := by
          simp only [List.all_eq_false]; exact ⟨e, he, by simpa using hl⟩
        simp [this]
    simp [this]

/-- an accepted client hook stores exactly the configured entries (duplicates are irrelevant
because only membership is consulted) -/
theorem C14_client_lists (w b : List Bytes) (h : Hook) (hn : newClientHook w b = some h) :
    h.approved = w ∧ h.unapproved = b := by
  unfold newClientHook at hn
  split at hn
  · cases hn
  · split at hn
    · cases hn; exact ⟨rfl, rfl⟩
    · cases hn

theorem decodeAll20_spec (l out : List Bytes) (h : decodeAll20 l = some out) :
    out.length = l.length ∧ ∀ b ∈ out, b.length = 20 := by
  induction l generalizing out with
  | nil => simp [decodeAll20] at h; subst h; simp
  | cons s rest ih =>
    simp only [decodeAll20] at h
    cases hd : hexDecode s with
    | none => simp [hd] at h
    | some b =>
      simp only [hd] at h
      split at h
      · cases hr : decodeAll20 rest with
        | none => simp [hr] at h
        | some r =>
          simp [hr] at h; subst h
          have := ih r hr
          rename_i hb
          simp only [List.length_cons, List.mem_cons]
          exact ⟨by omega, fun x hx => by rcases hx with rfl | hx; exact hb; exact this.2 x hx⟩
      · cases h

/-- torrent entries that are not 40 hex digits are refused -/
theorem C14_torrent_entry (w b : List Bytes) (e : Bytes) (he : e ∈ w ∨ e ∈ b)
    (hbad : hexDecode e = none ∨ ∃ d, hexDecode e = some d ∧ d.length ≠ 20) :
    newTorrentHook w b = none := by
  have key : ∀ l : List Bytes, e ∈ l → decodeAll20 l = none := by
    intro l
    induction l with
    | nil => intro h; cases h
    | cons s rest ih =>
      intro hm
      simp only [decodeAll20]
      rcases List.mem_cons.mp hm with rfl | hm
      · rcases hbad with h | ⟨d, h, hl⟩
        · simp [h]
        · simp [h, hl]
      · cases hexDecode s with
        | none => rfl
        | some b' =>
          simp only
          split
          · simp [ih hm]
          · rfl
  unfold newTorrentHook
  split
  · rfl
  · rcases he with he | he
    · simp [key w he]
    · rw [key b he]
      cases decodeAll20 w <;> rfl

/-- non-vacuity: a whitelist hook and a matching / non-matching peer ID -/
example : ∃ h, newClientHook [[65,66,67,68,69,70]] [] = some h ∧
    clientAccepts h (45 :: [65,66,67,68,69,70] ++ List.replicate 13 48) = true ∧
    clientAccepts h ([65,66,67,68,69,70] ++ List.replicate 14 48) = true ∧
    clientAccepts h (48 :: [65,66,67,68,69,70] ++ List.replicate 13 48) = false :=
  ⟨_, rfl, by decide, by decide, by decide⟩

end Approval
