import Chihaya.Props.C01
import Chihaya.Props.C13
import Chihaya.Lemmas.HttpParse
import Chihaya.Lemmas.Slice
import Chihaya.Props.Redis
/-!
# C13, composed: no HTTP announce line can crash the writer in any reachable state (both stores)

`C13_http_body` assumed that the store only hands out peers whose address has the length of its
family. Here that assumption is discharged for the whole request path: the parsers +
`SanitizeAnnounce` give every announcing peer a 20-byte ID and a 4- or 16-byte address
(`parseAnnounce_peerOK`, `udp_parseAnnounce_peerOK`), every store operation keeps "all keys of family f
are 22 + |f| bytes" (`viewKeysOK_spec`, stated on the specification both stores refine), the response
hook decodes what it is handed, and therefore for every history of HTTP request lines, UDP datagrams
and expiry passes the next request line is answered (`http_always_answered`, for any `StoreModel`;
instantiated with the memory store for every shard count — `C13_http_always_answered` — and with the
Redis store — `C13_http_always_answered_redis`).
-/
namespace Tracker
open MemStore (Swarm PMap Op View specUpd fPutSeeder fPutLeecher fDelSeeder fDelLeecher fExpire peerKey Mem)
open Logic AMap

def famLen : Fam → Nat
  | .v4 => 4
  | .v6 => 16

/-- what `SanitizeAnnounce` and the parsers guarantee about the announcing peer -/
def PeerOK (p : Peer) : Prop := p.id.length = 20 ∧ p.ip.length = famLen p.fam

theorem peerKey_length (p : Peer) (h : PeerOK p) : (peerKey p).length = 22 + famLen p.fam := by
  unfold peerKey Bytes.be16
  simp [h.1, h.2]
  omega

theorem mem_keys_set (m : PMap) (k k' : Bytes) (v : Int) (h : k' ∈ keys (AMap.set m k v)) : k' = k ∨ k' ∈ keys m := by
  rw [keys_set] at h
  split at h
  · exact Or.inr h
  · simp only [List.mem_append, List.mem_singleton] at h
    rcases h with h | h
    · exact Or.inr h
    · exact Or.inl h

theorem mem_keys_erase (m : PMap) (k k' : Bytes) (h : k' ∈ keys (AMap.erase m k)) : k' ∈ keys m :=
  (keys_erase_sublist m k).subset h

theorem mem_keys_filter (m : PMap) (p : Bytes × Int → Bool) (k' : Bytes) (h : k' ∈ keys (m.filter p)) : k' ∈ keys m := by
  simp only [keys, List.mem_map] at h ⊢
  obtain ⟨e, he, rfl⟩ := h
  exact ⟨e, (List.mem_filter.mp he).1, rfl⟩

def Op.PeerOK : Op → Prop
  | .putSeeder _ p _ | .putLeecher _ p _ | .graduate _ p _ | .deleteSeeder _ p | .deleteLeecher _ p => Tracker.PeerOK p
  | .gc _ => True

/-- every stored key of family `f` satisfies `P f` -/
def ViewKeysSat (P : Fam → Bytes → Prop) (σ : View) : Prop :=
  ∀ ih f k, (k ∈ keys (σ ih f).seeders ∨ k ∈ keys (σ ih f).leechers) → P f k

def Op.peer? : Op → Option Peer
  | .putSeeder _ p _ | .putLeecher _ p _ | .graduate _ p _ | .deleteSeeder _ p | .deleteLeecher _ p => some p
  | .gc _ => none

/-- a key enters a swarm of family `f` only as the key of the operation's own peer, whose family is `f` -/
theorem viewKeysSat_spec (P : Fam → Bytes → Prop) (σ : View) (h : ViewKeysSat P σ) (op : Op)
    (hop : ∀ p, Op.peer? op = some p → P p.fam (peerKey p)) : ViewKeysSat P (op.spec σ) := by
  intro ih f k hk
  cases op with
  | putSeeder ih0 p now =>
    simp only [MemStore.Op.spec, specUpd] at hk
    split at hk
    · rename_i hc; obtain ⟨rfl, rfl⟩ := hc
      simp only [fPutSeeder] at hk
      rcases hk with hk | hk
      · rcases mem_keys_set _ _ _ _ hk with e | hk
        · rw [e]; exact hop p rfl
        · exact h _ _ _ (Or.inl hk)
      · exact h _ _ _ (Or.inr (mem_keys_erase _ _ _ hk))
    · exact h _ _ _ hk
  | graduate ih0 p now =>
    simp only [MemStore.Op.spec, specUpd] at hk
    split at hk
    · rename_i hc; obtain ⟨rfl, rfl⟩ := hc
      simp only [fPutSeeder] at hk
      rcases hk with hk | hk
      · rcases mem_keys_set _ _ _ _ hk with e | hk
        · rw [e]; exact hop p rfl
        · exact h _ _ _ (Or.inl hk)
      · exact h _ _ _ (Or.inr (mem_keys_erase _ _ _ hk))
    · exact h _ _ _ hk
  | putLeecher ih0 p now =>
    simp only [MemStore.Op.spec, specUpd] at hk
    split at hk
    · rename_i hc; obtain ⟨rfl, rfl⟩ := hc
      simp only [fPutLeecher] at hk
      rcases hk with hk | hk
      · exact h _ _ _ (Or.inl (mem_keys_erase _ _ _ hk))
      · rcases mem_keys_set _ _ _ _ hk with e | hk
        · rw [e]; exact hop p rfl
        · exact h _ _ _ (Or.inr hk)
    · exact h _ _ _ hk
  | deleteSeeder ih0 p =>
    simp only [MemStore.Op.spec, specUpd] at hk
    split at hk
    · rename_i hc; obtain ⟨rfl, rfl⟩ := hc
      simp only [fDelSeeder] at hk
      rcases hk with hk | hk
      · exact h _ _ _ (Or.inl (mem_keys_erase _ _ _ hk))
      · exact h _ _ _ (Or.inr hk)
    · exact h _ _ _ hk
  | deleteLeecher ih0 p =>
    simp only [MemStore.Op.spec, specUpd] at hk
    split at hk
    · rename_i hc; obtain ⟨rfl, rfl⟩ := hc
      simp only [fDelLeecher] at hk
      rcases hk with hk | hk
      · exact h _ _ _ (Or.inl hk)
      · exact h _ _ _ (Or.inr (mem_keys_erase _ _ _ hk))
    · exact h _ _ _ hk
  | gc cutoff =>
    simp only [MemStore.Op.spec, fExpire] at hk
    rcases hk with hk | hk
    · exact h _ _ _ (Or.inl (mem_keys_filter _ _ _ hk))
    · exact h _ _ _ (Or.inr (mem_keys_filter _ _ _ hk))

/-- every stored peer key of family `f` is 20 + 2 + (4 | 16) bytes long -/
def ViewKeysOK (σ : View) : Prop := ViewKeysSat (fun f k => k.length = 22 + famLen f) σ

/-- the specification of every store operation keeps the key-length invariant, when the peer it is
given is one a frontend can produce -/
theorem viewKeysOK_spec (σ : View) (h : ViewKeysOK σ) (op : Op) (hop : Op.PeerOK op) : ViewKeysOK (op.spec σ) := by
  apply viewKeysSat_spec _ σ h op
  intro p hp
  cases op <;> simp only [Op.peer?, Option.some.injEq] at hp <;> first | (subst hp; exact peerKey_length _ hop) | cases hp

/-! ## what the memory store hands out -/

theorem selectPeers_subset (sw : Swarm) (seeder : Bool) (nw : Nat) (self : Bytes) :
    ∀ k ∈ MemStore.selectPeers sw seeder nw self, k ∈ keys sw.seeders ∨ k ∈ keys sw.leechers := by
  intro k hk
  unfold MemStore.selectPeers at hk
  split at hk
  · exact Or.inr (List.mem_of_mem_take hk)
  · simp only [List.mem_append] at hk
    rcases hk with hk | hk
    · exact Or.inl (List.mem_of_mem_take hk)
    · exact Or.inr (List.mem_filter.mp (List.mem_of_mem_take hk)).1

theorem decodePeerKey_ip (f : Fam) (pk : Bytes) (h : pk.length = 22 + famLen f) :
    (decodePeerKey f pk).ip.length = famLen f ∧ (decodePeerKey f pk).fam = f := by
  simp [decodePeerKey, h]

theorem view_of_swarm? (m : Mem) (ih : Bytes) (f : Fam) (sw : Swarm) (h : m.swarm? ih f = some sw) : m.view ih f = sw := by
  unfold Mem.swarm? at h
  unfold Mem.view MemStore.Shard.swarm
  rw [h]; rfl

theorem memOps_announcePeers_ok (now : Int) (m : Mem) (hk : ViewKeysOK m.view) (ih : Bytes) (seeder : Bool) (nw : Nat) (p : Peer)
    (out : List Peer) (h : (memOps now).announcePeers m ih seeder nw p = some out) :
    ∀ q ∈ out, q.ip.length = famLen p.fam := by
  simp only [memOps, Mem.announcePeers, Option.map_map] at h
  cases hs : m.swarm? ih p.fam with
  | none => simp [hs] at h
  | some sw =>
    simp only [hs, Option.map_some, Option.some.injEq, Function.comp] at h
    subst h
    intro q hq
    obtain ⟨k, hk', rfl⟩ := List.mem_map.mp hq
    have hv := view_of_swarm? m ih p.fam sw hs
    have := selectPeers_subset sw seeder nw (peerKey p) k hk'
    rw [← hv] at this
    exact (decodePeerKey_ip p.fam k (hk ih p.fam k this)).1

/-! ## the response -/

def RespPeersOK (resp : AnnResp) : Prop :=
  (∀ p ∈ resp.v4peers, p.ip.length = 4) ∧ (∀ p ∈ resp.v6peers, p.ip.length = 16)

/-- hooks that leave the peer lists alone (all the stock ones: approval, JWT, interval variation) -/
def PeersPreserving (h : AnnHook) : Prop :=
  ∀ ctx req resp ctx' resp', h ctx req resp = .ok (ctx', resp') → resp'.v4peers = resp.v4peers ∧ resp'.v6peers = resp.v6peers

theorem runAnn_go_peers (pre : List AnnHook) (last : AnnHook) (req : AnnReq)
    (hpre : ∀ h ∈ pre, PeersPreserving h)
    (hlast : ∀ ctx resp ctx' resp', resp.v4peers = [] → resp.v6peers = [] → last ctx req resp = .ok (ctx', resp') → RespPeersOK resp')
    (i : Nat) (ctx : Ctx) (resp : AnnResp) (h4 : resp.v4peers = []) (h6 : resp.v6peers = [])
    (c : Ctx) (r : AnnResp) (h : (runAnn.go req (pre ++ [last]) i ctx resp).2 = .ok (c, r)) : RespPeersOK r := by
  induction pre generalizing i ctx resp with
  | nil =>
    simp only [List.nil_append, runAnn.go] at h
    cases hl : last ctx req resp with
    | error e => simp [hl] at h
    | ok cr =>
      obtain ⟨c', r'⟩ := cr
      simp only [hl, Except.ok.injEq, Prod.mk.injEq] at h
      obtain ⟨rfl, rfl⟩ := h
      exact hlast ctx resp _ _ h4 h6 hl
  | cons hk rest ih =>
    simp only [List.cons_append, runAnn.go] at h
    cases hh : hk ctx req resp with
    | error e => simp [hh] at h
    | ok cr =>
      obtain ⟨c', r'⟩ := cr
      simp only [hh] at h
      have hp := hpre hk (by simp) ctx req resp c' r' hh
      exact ih (fun h' hh' => hpre h' (by simp [hh'])) (i + 1) c' r' (hp.1.trans h4) (hp.2.trans h6) h

/-! ## a store, as far as this argument needs it -/

/-- what the composition needs from a store: an invariant every operation keeps (for peers a frontend
can produce) and under which what it hands out has addresses of the requester's family -/
structure StoreModel (σ : Type) where
  ops : Int → StoreOps σ
  gc : σ → Int → σ
  Good : σ → Prop
  hands_out : ∀ now s, Good s → ∀ ih seeder nw p out, (ops now).announcePeers s ih seeder nw p = some out →
    ∀ q ∈ out, q.ip.length = famLen p.fam
  putSeeder : ∀ now s ih p, Good s → PeerOK p → Good ((ops now).putSeeder s ih p)
  putLeecher : ∀ now s ih p, Good s → PeerOK p → Good ((ops now).putLeecher s ih p)
  graduate : ∀ now s ih p, Good s → PeerOK p → Good ((ops now).graduate s ih p)
  deleteSeeder : ∀ now s ih p, Good s → PeerOK p → Good ((ops now).deleteSeeder s ih p).1
  deleteLeecher : ∀ now s ih p, Good s → PeerOK p → Good ((ops now).deleteLeecher s ih p).1
  gcGood : ∀ s cutoff, Good s → Good (gc s cutoff)

variable {σ : Type}

theorem responseAnnounce_peers (M : StoreModel σ) (now : Int) (m : σ) (hg : M.Good m) (req : AnnReq) (hreq : PeerOK req.peer)
    (ctx : Ctx) (resp : AnnResp) (ctx' : Ctx) (resp' : AnnResp) (h4 : resp.v4peers = []) (h6 : resp.v6peers = [])
    (h : responseAnnounce (M.ops now) m ctx req resp = .ok (ctx', resp')) : RespPeersOK resp' := by
  unfold responseAnnounce at h
  split at h
  · simp only [Except.ok.injEq, Prod.mk.injEq] at h
    obtain ⟨_, rfl⟩ := h
    exact ⟨by simp [h4], by simp [h6]⟩
  · split at h
    · cases h
    simp only [Except.ok.injEq, Prod.mk.injEq] at h
    obtain ⟨_, rfl⟩ := h
    have hout : ∀ q ∈ ((M.ops now).announcePeers m req.infoHash (decide (req.left = 0)) req.numWant req.peer).getD [], q.ip.length = famLen req.peer.fam := by
      cases ha : (M.ops now).announcePeers m req.infoHash (decide (req.left = 0)) req.numWant req.peer with
      | none => simp
      | some out => simpa using M.hands_out now m hg _ _ _ _ out ha
    have hall : ∀ q ∈ (if (((M.ops now).announcePeers m req.infoHash (decide (req.left = 0)) req.numWant req.peer).getD []).isEmpty then [req.peer]
        else ((M.ops now).announcePeers m req.infoHash (decide (req.left = 0)) req.numWant req.peer).getD []), q.ip.length = famLen req.peer.fam := by
      split
      · intro q hq; simp only [List.mem_singleton] at hq; rw [hq]; exact hreq.2
      · exact hout
    cases hf : req.peer.fam with
    | v4 =>
      simp only [hf, famLen] at hall ⊢
      refine ⟨?_, by simp [h6]⟩
      intro p hp
      apply hall p
      split <;> simp_all
    | v6 =>
      simp only [hf, famLen] at hall ⊢
      refine ⟨by simp [h4], ?_⟩
      intro p hp
      apply hall p
      split <;> simp_all

/-! ## the announcing peer a frontend hands to the logic -/

theorem parseAnnounce_peerOK (env : HttpParse.Env) (uri : Bytes) (opts : ParseOpts) (r : AnnReq)
    (h : HttpParse.parseAnnounce env uri opts = .ok r) : PeerOK r.peer := by
  obtain ⟨qp, ev, ih, pid, left, dl, ul, nw, port, ip, _, _, _, hpid, _, _, _, _, _, _, hs⟩ := HttpParse.parseAnnounce_inv env uri opts r h
  have hp := Sanitize.announce_post _ _ _ _ hs
  have hid := (HttpParse.peerIDOf_ok _ _ hpid).2
  obtain ⟨_, _, _, _, hfam, _, hidEq, _⟩ := hp
  refine ⟨by rw [hidEq]; exact hid, ?_⟩
  rcases hfam with ⟨hf, hl⟩ | ⟨hf, hl, _⟩ <;> simp [hf, hl, famLen]

/-! ## one request against a store -/

theorem good_swarmInteraction (M : StoreModel σ) (now : Int) (m : σ) (hg : M.Good m) (ctx : Ctx) (req : AnnReq) (hreq : PeerOK req.peer) :
    M.Good (swarmInteraction (M.ops now) m ctx req) := by
  unfold swarmInteraction
  split
  · exact hg
  · split
    · exact hg
    split
    · exact M.deleteLeecher now _ _ _ (M.deleteSeeder now m _ _ hg hreq) hreq
    · exact M.graduate now m _ _ hg hreq
    · split
      · exact M.putSeeder now m _ _ hg hreq
      · exact M.putLeecher now m _ _ hg hreq

theorem http_body_of_parsed {σ : Type} (env : HttpParse.Env) (opts : ParseOpts) (cfg : Logic.Config) (ops : StoreOps σ) (hooks : Hooks)
    (ipText : Bytes → Bytes) (st : σ) (uri : Bytes)
    (hstore : ∀ req, HttpParse.parseAnnounce env uri opts = .ok req → ∀ ctx resp,
        (handleAnnounce cfg ops hooks.preAnn st req).2 = .ok (ctx, resp) → RespPeersOK resp) :
    (httpAnnounce env opts cfg ops hooks ipText st uri).body.isSome = true := by
  unfold httpAnnounce
  cases hp : HttpParse.parseAnnounce env uri opts with
  | error e => rfl
  | ok req =>
    simp only
    cases hh : handleAnnounce cfg ops hooks.preAnn st req with
    | mk log res =>
      cases res with
      | error e => rfl
      | ok cr =>
        obtain ⟨c, r⟩ := cr
        simp only
        have hs := hstore req hp c r (by rw [hh])
        unfold HttpWrite.writeAnnounce
        split
        · rw [HttpWrite.mapM'_compact4 _ hs.1, HttpWrite.mapM'_compact6 _ hs.2]; rfl
        · rfl

structure GoodHooks (hooks : Hooks) : Prop where
  pre : ∀ h ∈ hooks.preAnn, PeersPreserving h

/-- **One HTTP announce against a store**: whatever the request line, the response has a body (the
writer does not panic), and the store keeps its invariants -/
theorem http_step (M : StoreModel σ) (env : HttpParse.Env) (opts : ParseOpts) (cfg : Logic.Config) (hooks : Hooks) (hh : GoodHooks hooks)
    (ipText : Bytes → Bytes) (now : Int) (m : σ) (hg : M.Good m) (uri : Bytes) :
    (httpAnnounce env opts cfg (M.ops now) hooks ipText m uri).body.isSome = true ∧
    M.Good (httpAnnounce env opts cfg (M.ops now) hooks ipText m uri).store := by
  refine ⟨?_, ?_⟩
  · apply http_body_of_parsed
    intro req hp ctx resp h
    have hreq := parseAnnounce_peerOK env uri opts req hp
    unfold handleAnnounce runAnn at h
    exact runAnn_go_peers hooks.preAnn (responseAnnounce (M.ops now) m) req hh.pre
      (fun ctx resp ctx' resp' h4 h6 hl => responseAnnounce_peers M now m hg req hreq ctx resp ctx' resp' h4 h6 hl)
      0 {} (initResp cfg req) rfl rfl ctx resp h
  · unfold httpAnnounce
    cases hp : HttpParse.parseAnnounce env uri opts with
    | error e => exact hg
    | ok req =>
      simp only
      cases hha : handleAnnounce cfg (M.ops now) hooks.preAnn m req with
      | mk log res =>
        cases res with
        | error e => exact hg
        | ok cr =>
          obtain ⟨ctx, resp⟩ := cr
          simp only
          unfold afterAnnounce
          exact good_swarmInteraction M now m hg _ req (parseAnnounce_peerOK env uri opts req hp)

theorem udp_parseAnnounce_peerOK (lower : Bytes → Bytes) (pkt src : Bytes) (v6 : Bool) (opts : ParseOpts) (r : AnnReq)
    (h : Udp.parseAnnounce lower pkt src v6 opts = .ok r) : PeerOK r.peer := by
  unfold Udp.parseAnnounce at h
  simp only [bind, Except.bind] at h
  by_cases hlen : pkt.length < 84 + (if v6 = true then 16 else 4) + 10
  · simp [hlen, throw, throwThe, MonadExceptOf.throw] at h
  · simp only [hlen, if_false] at h
    have h56 : 56 ≤ pkt.length := by
      cases v6 <;> simp at hlen <;> omega
    generalize (if (opts.allowIPSpoofing && !Udp.allZero (Udp.slice pkt 84 (84 + if v6 = true then 16 else 4))) = true
        then (Udp.slice pkt 84 (84 + if v6 = true then 16 else 4), true) else (src, false)) = ipp at h
    cases hev : Udp.eventOfCode (Udp.slice pkt 80 84).toNatBE with
    | none => simp [hev, throw, throwThe, MonadExceptOf.throw] at h
    | some e =>
      simp only [hev, pure, Except.pure] at h
      by_cases hemp : ipp.1.isEmpty = true
      · simp [hemp, throw, throwThe, MonadExceptOf.throw] at h
      · simp only [hemp, Bool.false_eq_true, if_false] at h
        cases hop : Udp.handleOptionalParameters lower (List.drop (84 + (if v6 = true then 16 else 4) + 10) pkt) with
        | error er => simp [hop] at h
        | ok ps =>
          simp only [hop] at h
          obtain ⟨_, _, _, _, hfam, _, hidEq, _⟩ := Sanitize.announce_post _ _ _ _ h
          refine ⟨?_, ?_⟩
          · rw [hidEq]; simp only; rw [Udp.slice_length _ _ _ h56]
          · rcases hfam with ⟨hf, hl⟩ | ⟨hf, hl, _⟩ <;> simp [hf, hl, famLen]


theorem udp_call_parsed (mac : Udp.Mac) (lower : Bytes → Bytes) (ucfg : Udp.Cfg) (logic : Udp.Logic) (now : Int) (pkt src : Bytes) (req : AnnReq)
    (h : (Udp.handleRequest mac lower ucfg logic now pkt src).call = some (.announce req)) :
    ∃ v6, Udp.parseAnnounce lower pkt src v6 ucfg.opts = .ok req := by
  unfold Udp.handleRequest at h
  by_cases h16 : pkt.length < 16
  · simp [h16] at h
  · simp only [h16, if_false] at h
    split at h
    · simp at h
    · split at h
      · split at h
        · simp at h
        · split at h <;> simp at h
      · split at h
        · cases hp : Udp.parseAnnounce lower pkt src (decide (Bytes.toNatBE (Udp.slice pkt 8 12) = 4)) ucfg.opts with
          | error e => simp [hp] at h
          | ok rq =>
            simp only [hp] at h
            cases hl : logic.announce rq with
            | error e => simp only [hl] at h; simp at h; exact ⟨_, by rw [hp, h]⟩
            | ok resp => simp only [hl] at h; simp at h; exact ⟨_, by rw [hp, h]⟩
        · split at h
          · split at h
            · simp at h
            · simp at h
            · split at h <;> simp at h
          · simp at h


/-- one datagram against a store keeps the store's invariants -/
theorem udp_step (M : StoreModel σ) (mac : Udp.Mac) (lower : Bytes → Bytes) (ucfg : Udp.Cfg) (cfg : Logic.Config) (hooks : Hooks)
    (now : Int) (m : σ) (hg : M.Good m) (pkt src : Bytes) :
    M.Good (udpStoreAfter cfg (M.ops now) hooks m (Udp.handleRequest mac lower ucfg (udpLogic cfg (M.ops now) hooks m) now pkt src)).1 := by
  unfold udpStoreAfter
  split
  · rename_i req hafter hcall
    obtain ⟨v6, hp⟩ := udp_call_parsed mac lower ucfg _ now pkt src req hcall
    have hreq := udp_parseAnnounce_peerOK lower pkt src v6 ucfg.opts req hp
    split
    · rename_i ctx resp _
      simp only
      unfold afterAnnounce
      exact good_swarmInteraction M now m hg _ req hreq
    · exact hg
  · exact hg

/-! ## every history -/

inductive Ev where
  | httpAnnounce (now : Int) (uri : Bytes)
  | udp (now : Int) (pkt src : Bytes)
  | gc (cutoff : Int)

/-- the tracker's fixed configuration -/
structure Setup where
  env : HttpParse.Env
  opts : ParseOpts
  cfg : Logic.Config
  hooks : Hooks
  ipText : Bytes → Bytes
  mac : Udp.Mac
  ucfg : Udp.Cfg

def stepEv (M : StoreModel σ) (s : Setup) (m : σ) : Ev → σ
  | .httpAnnounce now uri => (httpAnnounce s.env s.opts s.cfg (M.ops now) s.hooks s.ipText m uri).store
  | .udp now pkt src =>
    (udpStoreAfter s.cfg (M.ops now) s.hooks m
      (Udp.handleRequest s.mac s.env.lower s.ucfg (udpLogic s.cfg (M.ops now) s.hooks m) now pkt src)).1
  | .gc cutoff => M.gc m cutoff

theorem good_history (M : StoreModel σ) (m0 : σ) (h0 : M.Good m0) (s : Setup) (hh : GoodHooks s.hooks) (evs : List Ev) :
    M.Good (evs.foldl (stepEv M s) m0) := by
  induction evs generalizing m0 with
  | nil => exact h0
  | cons e rest ih =>
    simp only [List.foldl_cons]
    apply ih
    cases e with
    | httpAnnounce now uri => exact (http_step M s.env s.opts s.cfg s.hooks hh s.ipText now m0 h0 uri).2
    | udp now pkt src => exact udp_step M s.mac s.env.lower s.ucfg s.cfg s.hooks now m0 h0 pkt src
    | gc cutoff => exact M.gcGood m0 cutoff h0

/-- **No HTTP announce can make the writer panic, in any reachable state of a store**: for every history of
HTTP request lines and UDP datagrams (arbitrary bytes, any source, any clock) and expiry passes, every
pre-hook chain that leaves the peer lists alone and every post-hook chain whatsoever, the next request
line — whatever it is — is answered with a body. -/
theorem http_always_answered (M : StoreModel σ) (m0 : σ) (h0 : M.Good m0) (s : Setup) (hh : GoodHooks s.hooks) (evs : List Ev) (now : Int) (uri : Bytes) :
    (httpAnnounce s.env s.opts s.cfg (M.ops now) s.hooks s.ipText (evs.foldl (stepEv M s) m0) uri).body.isSome = true :=
  (http_step M s.env s.opts s.cfg s.hooks hh s.ipText now _ (good_history M m0 h0 s hh evs) uri).1

/-! ## the memory store is such a store -/

def GoodMem (m : Mem) : Prop := m.Inv ∧ ViewKeysOK m.view

theorem goodMem_apply (m : Mem) (hg : GoodMem m) (op : Op) (hop : Op.PeerOK op) : GoodMem (m.apply op) :=
  ⟨MemStore.C17_step m hg.1 op, by rw [MemStore.C01_refines m hg.1 op]; exact viewKeysOK_spec _ hg.2 op hop⟩

theorem goodMem_init (n : Nat) (hn : 0 < n) : GoodMem (MemStore.init n) := by
  refine ⟨MemStore.init_inv n hn, ?_⟩
  intro ih f k hk
  have : (MemStore.init n).view ih f = MemStore.emptySwarm := by
    have hi := MemStore.shardIndex_lt n hn ih f
    simp only [Mem.view, MemStore.init, Mem.shard, List.getD_eq_getElem?_getD, List.getElem?_replicate]
    split <;> rfl
  rw [this] at hk
  simp [MemStore.emptySwarm, keys] at hk

def memModel : StoreModel Mem where
  ops := memOps
  gc := fun m c => m.gc c
  Good := GoodMem
  hands_out := fun now s hg ih seeder nw p out h => memOps_announcePeers_ok now s hg.2 ih seeder nw p out h
  putSeeder := fun now s ih p hg hp => goodMem_apply s hg (.putSeeder ih p now) hp
  putLeecher := fun now s ih p hg hp => goodMem_apply s hg (.putLeecher ih p now) hp
  graduate := fun now s ih p hg hp => goodMem_apply s hg (.graduate ih p now) hp
  deleteSeeder := fun _ s ih p hg hp => goodMem_apply s hg (.deleteSeeder ih p) hp
  deleteLeecher := fun _ s ih p hg hp => goodMem_apply s hg (.deleteLeecher ih p) hp
  gcGood := fun s c hg => goodMem_apply s hg (.gc c) trivial

/-- C13 over the memory store, for every shard count -/
theorem C13_http_always_answered (n : Nat) (hn : 0 < n) (s : Setup) (hh : GoodHooks s.hooks) (evs : List Ev) (now : Int) (uri : Bytes) :
    (httpAnnounce s.env s.opts s.cfg (memOps now) s.hooks s.ipText (evs.foldl (stepEv memModel s) (MemStore.init n)) uri).body.isSome = true :=
  http_always_answered memModel _ (goodMem_init n hn) s hh evs now uri

/-- the stored peers of a reachable state decode to addresses of their family's length -/
theorem C13_store_hands_out_family_addresses (n : Nat) (hn : 0 < n) (s : Setup) (hh : GoodHooks s.hooks) (evs : List Ev)
    (now : Int) (ih : Bytes) (seeder : Bool) (nw : Nat) (p : Peer) (out : List Peer)
    (h : (memOps now).announcePeers (evs.foldl (stepEv memModel s) (MemStore.init n)) ih seeder nw p = some out) :
    ∀ q ∈ out, q.ip.length = famLen p.fam :=
  memOps_announcePeers_ok now _ (good_history memModel _ (goodMem_init n hn) s hh evs).2 ih seeder nw p out h

/-! ## and so is the Redis store -/

/-- the Redis store behind the tracker logic (decoding the hash fields it reads, like `decodePeerKey`) -/
def redisOps (now : Int) : StoreOps RedisStore.RState where
  putSeeder s ih p := RedisStore.putSeeder s ih p now
  putLeecher s ih p := RedisStore.putLeecher s ih p now
  graduate s ih p := RedisStore.graduate s ih p now
  deleteSeeder s ih p := RedisStore.deleteSeeder s ih p
  deleteLeecher s ih p := RedisStore.deleteLeecher s ih p
  scrape s ih f := RedisStore.scrape s ih f
  announcePeers s ih seeder nw p := (RedisStore.announcePeers s ih seeder nw p).map (·.map (decodePeerKey p.fam))

def GoodRedis (s : RedisStore.RState) : Prop := RedisStore.RInv s ∧ ViewKeysOK (RedisStore.view s)

theorem goodRedis_apply (s : RedisStore.RState) (hg : GoodRedis s) (op : Op) (hop : Op.PeerOK op) : GoodRedis (RedisStore.apply s op) :=
  ⟨RedisStore.Redis_step s hg.1 op, by rw [RedisStore.Redis_refines s hg.1 op]; exact viewKeysOK_spec _ hg.2 op hop⟩

theorem goodRedis_init : GoodRedis {} := by
  refine ⟨RedisStore.init_inv, ?_⟩
  intro ih f k hk
  simp [RedisStore.view, RedisStore.hget, keys] at hk

theorem redisOps_announcePeers_ok (now : Int) (s : RedisStore.RState) (hk : ViewKeysOK (RedisStore.view s)) (ih : Bytes) (seeder : Bool) (nw : Nat) (p : Peer)
    (out : List Peer) (h : (redisOps now).announcePeers s ih seeder nw p = some out) :
    ∀ q ∈ out, q.ip.length = famLen p.fam := by
  simp only [redisOps, RedisStore.Redis_announce] at h
  split at h
  · simp at h
  · simp only [Option.map_some, Option.some.injEq] at h
    subst h
    intro q hq
    obtain ⟨k, hk', rfl⟩ := List.mem_map.mp hq
    have := selectPeers_subset _ seeder nw (peerKey p) k hk'
    exact (decodePeerKey_ip p.fam k (hk ih p.fam k this)).1

def redisModel : StoreModel RedisStore.RState where
  ops := redisOps
  gc := RedisStore.gc
  Good := GoodRedis
  hands_out := fun now s hg ih seeder nw p out h => redisOps_announcePeers_ok now s hg.2 ih seeder nw p out h
  putSeeder := fun now s ih p hg hp => goodRedis_apply s hg (.putSeeder ih p now) hp
  putLeecher := fun now s ih p hg hp => goodRedis_apply s hg (.putLeecher ih p now) hp
  graduate := fun now s ih p hg hp => goodRedis_apply s hg (.graduate ih p now) hp
  deleteSeeder := fun _ s ih p hg hp => goodRedis_apply s hg (.deleteSeeder ih p) hp
  deleteLeecher := fun _ s ih p hg hp => goodRedis_apply s hg (.deleteLeecher ih p) hp
  gcGood := fun s c hg => goodRedis_apply s hg (.gc c) trivial

/-- C13 over the Redis store (sequential command groups) -/
theorem C13_http_always_answered_redis (s : Setup) (hh : GoodHooks s.hooks) (evs : List Ev) (now : Int) (uri : Bytes) :
    (httpAnnounce s.env s.opts s.cfg (redisOps now) s.hooks s.ipText (evs.foldl (stepEv redisModel s) {}) uri).body.isSome = true :=
  http_always_answered redisModel _ goodRedis_init s hh evs now uri

/-! ## provenance (C03) -/

/-- **Provenance** (C03, on the specification both stores refine): after any history, every key listed in
a swarm of family `f` — hence every peer a request of family `f` can be handed — is the key of a peer
that some operation of the history carried with that very family. A peer announced under one family is
never listed under the other. -/
theorem provenance (ops : List Op) (ih : Bytes) (f : Fam) (k : Bytes)
    (hk : k ∈ keys ((ops.foldl (fun σ op => op.spec σ) (fun _ _ => MemStore.emptySwarm)) ih f).seeders ∨
          k ∈ keys ((ops.foldl (fun σ op => op.spec σ) (fun _ _ => MemStore.emptySwarm)) ih f).leechers) :
    ∃ op ∈ ops, ∃ p, Op.peer? op = some p ∧ p.fam = f ∧ peerKey p = k := by
  let P : Fam → Bytes → Prop := fun f k => ∃ op ∈ ops, ∃ p, Op.peer? op = some p ∧ p.fam = f ∧ peerKey p = k
  have key : ∀ (done : List Op) (σ : View), (∀ op ∈ done, op ∈ ops) → ViewKeysSat P σ →
      ViewKeysSat P (done.foldl (fun σ op => op.spec σ) σ) := by
    intro done
    induction done with
    | nil => intro σ _ h; exact h
    | cons op rest ih' =>
      intro σ hsub h
      simp only [List.foldl_cons]
      apply ih' _ (fun o ho => hsub o (by simp [ho]))
      exact viewKeysSat_spec P σ h op (fun p hp => ⟨op, hsub op (by simp), p, hp, rfl, rfl⟩)
  have h0 : ViewKeysSat P (fun _ _ => MemStore.emptySwarm) := by
    intro ih f k hk; simp [MemStore.emptySwarm, keys] at hk
  exact key ops _ (fun _ h => h) h0 ih f k hk

/-- the same for the memory store itself, any shard count … -/
theorem provenance_memory (n : Nat) (hn : 0 < n) (ops : List Op) (ih : Bytes) (f : Fam) (k : Bytes)
    (hk : k ∈ keys ((ops.foldl Mem.apply (MemStore.init n)).view ih f).seeders ∨ k ∈ keys ((ops.foldl Mem.apply (MemStore.init n)).view ih f).leechers) :
    ∃ op ∈ ops, ∃ p, Op.peer? op = some p ∧ p.fam = f ∧ peerKey p = k := by
  rw [MemStore.C01_history n hn ops] at hk
  exact provenance ops ih f k hk

/-- … and for the Redis store -/
theorem provenance_redis (ops : List Op) (ih : Bytes) (f : Fam) (k : Bytes)
    (hk : k ∈ keys (RedisStore.view (ops.foldl RedisStore.apply {}) ih f).seeders ∨ k ∈ keys (RedisStore.view (ops.foldl RedisStore.apply {}) ih f).leechers) :
    ∃ op ∈ ops, ∃ p, Op.peer? op = some p ∧ p.fam = f ∧ peerKey p = k := by
  rw [RedisStore.Redis_history ops] at hk
  exact provenance ops ih f k hk

/-- non-vacuity: the empty hook chains are good, and so is a chain of hooks that only touch the intervals -/
example : GoodHooks ⟨[], [], [], []⟩ := ⟨by simp⟩
example : PeersPreserving (fun ctx _ resp => .ok (ctx, { resp with interval := resp.interval + 1 })) := by
  intro ctx req resp ctx' resp' h
  simp only [Except.ok.injEq, Prod.mk.injEq] at h
  obtain ⟨_, rfl⟩ := h
  exact ⟨rfl, rfl⟩

end Tracker
