import Chihaya.Gen.Validate
import Chihaya.Model.Config
import Chihaya.Model.VarInterval
import Chihaya.Props.C10
/-!
# C20 — configuration defaulting is total, range-safe and idempotent

`Gen.Validate.*` is regenerated from the four `Config.Validate` methods on every check.
The governed fields are listed here *by hand*: if a defaulting branch disappears from the
source, the field disappears from the generated structure (or stays unguarded) and these
statements no longer elaborate / no longer prove.
-/
open Gen.Validate

namespace C20

/-! ## HTTP -/
def HTTP.Valid (c : HTTP.Cfg) : Prop :=
  0 < c.ReadTimeout ∧ 0 < c.WriteTimeout ∧ 0 < c.IdleTimeout ∧ 0 < c.MaxNumWant ∧ 0 < c.DefaultNumWant ∧ 0 < c.MaxScrapeInfoHashes

theorem http_range (c : HTTP.Cfg) : HTTP.Valid (HTTP.validate c) := by
  simp only [HTTP.Valid, HTTP.validate, HTTP.defaultReadTimeout, HTTP.defaultWriteTimeout, HTTP.defaultIdleTimeout,
    HTTP.defaultMaxNumWant, HTTP.defaultDefaultNumWant, HTTP.defaultMaxScrapeInfoHashes]
  refine ⟨?_, ?_, ?_, ?_, ?_, ?_⟩ <;> split <;> omega

theorem http_preserved (c : HTTP.Cfg) (h : HTTP.Valid c) : HTTP.validate c = c := by
  cases c
  simp only [HTTP.Valid] at h
  simp only [HTTP.validate, HTTP.Cfg.mk.injEq]
  refine ⟨?_, ?_, ?_, ?_, ?_, ?_⟩ <;> first | (split <;> omega) | simp [h.1] | rfl

theorem http_idempotent (c : HTTP.Cfg) : HTTP.validate (HTTP.validate c) = HTTP.validate c :=
  http_preserved _ (http_range c)

/-! ## UDP -/
def UDP.Valid (c : UDP.Cfg) : Prop :=
  c.PrivateKey_empty = false ∧ 0 < c.MaxNumWant ∧ 0 < c.DefaultNumWant ∧ 0 < c.MaxScrapeInfoHashes ∧ 0 ≤ c.MaxClockSkew

theorem udp_range (c : UDP.Cfg) : UDP.Valid (UDP.validate c) := by
  simp only [UDP.Valid, UDP.validate, UDP.defaultMaxNumWant, UDP.defaultDefaultNumWant, UDP.defaultMaxScrapeInfoHashes]
  refine ⟨?_, ?_, ?_, ?_, ?_⟩
  · cases c.PrivateKey_empty <;> simp
  all_goals (split <;> omega)

theorem udp_preserved (c : UDP.Cfg) (h : UDP.Valid c) : UDP.validate c = c := by
  cases c
  simp only [UDP.Valid] at h
  simp only [UDP.validate, UDP.Cfg.mk.injEq]
  refine ⟨?_, ?_, ?_, ?_, ?_⟩ <;> first | (split <;> omega) | simp [h.1] | rfl

theorem udp_idempotent (c : UDP.Cfg) : UDP.validate (UDP.validate c) = UDP.validate c :=
  udp_preserved _ (udp_range c)

/-- **D30**: whatever clock skew is configured — negative values included — the frontend is built from
the validated configuration, whose skew is not negative, so it accepts every connection ID it issues
throughout the ID's lifetime (`C10_issued_is_accepted` needs `0 ≤ skew`; before D30 a configured
`max_clock_skew: -10s` made the tracker refuse each ID for the first ten seconds of its life). -/
theorem udp_any_configured_skew_issued_accepted (c : UDP.Cfg) (mac : Udp.Mac) (key ip : Bytes) (t0 now : Int)
    (h0 : 0 ≤ t0) (h32 : t0 / 1000000000 < 2^32) (hafter : t0 ≤ now)
    (hlife : now ≤ (t0 / 1000000000) * 1000000000 + Udp.ttlNs) :
    Udp.validate mac key (Udp.generate mac key ip t0) ip now (UDP.validate c).MaxClockSkew = true :=
  Udp.C10_issued_is_accepted mac key ip t0 now _ h0 h32 (udp_range c).2.2.2.2 hafter hlife

/-! ## memory store -/
def Memory.Valid (c : Memory.Cfg) : Prop :=
  0 < c.ShardCount ∧ c.ShardCount ≤ 9223372036854775807 / 2 ∧
  0 < c.GarbageCollectionInterval ∧ 0 < c.PrometheusReportingInterval ∧ 0 < c.PeerLifetime

theorem memory_range (c : Memory.Cfg) : Memory.Valid (Memory.validate c) := by
  simp only [Memory.Valid, Memory.validate, Memory.defaultShardCount, Memory.defaultGarbageCollectionInterval,
    Memory.defaultPrometheusReportingInterval, Memory.defaultPeerLifetime]
  refine ⟨?_, ?_, ?_, ?_, ?_⟩ <;> split <;> omega

/-- the shard count can be doubled without overflowing Go's `int` -/
theorem memory_shards_double (c : Memory.Cfg) :
    0 < 2 * (Memory.validate c).ShardCount ∧ 2 * (Memory.validate c).ShardCount ≤ 9223372036854775807 := by
  have := memory_range c
  simp only [Memory.Valid] at this
  omega

theorem memory_preserved (c : Memory.Cfg) (h : Memory.Valid c) : Memory.validate c = c := by
  cases c
  simp only [Memory.Valid] at h
  simp only [Memory.validate, Memory.Cfg.mk.injEq]
  refine ⟨?_, ?_, ?_, ?_⟩ <;> first | (split <;> omega) | simp [h.1] | rfl

theorem memory_idempotent (c : Memory.Cfg) : Memory.validate (Memory.validate c) = Memory.validate c :=
  memory_preserved _ (memory_range c)

/-! ## Redis store -/
def Redis.Valid (c : Redis.Cfg) : Prop :=
  c.RedisBroker_empty = false ∧ 0 < c.RedisReadTimeout ∧ 0 < c.RedisWriteTimeout ∧ 0 < c.RedisConnectTimeout ∧
  0 < c.GarbageCollectionInterval ∧ 0 < c.PrometheusReportingInterval ∧ 0 < c.PeerLifetime

theorem redis_range (c : Redis.Cfg) : Redis.Valid (Redis.validate c) := by
  simp only [Redis.Valid, Redis.validate, Redis.defaultRedisReadTimeout, Redis.defaultRedisWriteTimeout,
    Redis.defaultRedisConnectTimeout, Redis.defaultGarbageCollectionInterval, Redis.defaultPrometheusReportingInterval,
    Redis.defaultPeerLifetime]
  refine ⟨?_, ?_, ?_, ?_, ?_, ?_, ?_⟩
  · cases c.RedisBroker_empty <;> simp
  all_goals (split <;> omega)

theorem redis_preserved (c : Redis.Cfg) (h : Redis.Valid c) : Redis.validate c = c := by
  cases c
  simp only [Redis.Valid] at h
  simp only [Redis.validate, Redis.Cfg.mk.injEq]
  refine ⟨?_, ?_, ?_, ?_, ?_, ?_, ?_⟩ <;> first | (split <;> omega) | simp [h.1] | rfl

theorem redis_idempotent (c : Redis.Cfg) : Redis.validate (Redis.validate c) = Redis.validate c :=
  redis_preserved _ (redis_range c)

/-! ## registries and option ranges -/

/-- unknown hook / storage names are refused -/
theorem unknown_driver_refused (registered : List String) (name : String) (h : name ∉ registered) :
    Config.lookup registered name = .driverDoesNotExist := by
  simp [Config.lookup, h]

/-- interval-variation options outside their documented ranges are refused (see also C18) -/
theorem varinterval_options_refused (c : VarInterval.Cfg)
    (h : c.pn ≤ 0 ∨ (c.pd : Int) < c.pn ∨ c.maxDelta ≤ 0 ∨ 2147483647 < c.maxDelta) :
    VarInterval.checkConfig c = false := by
  cases hc : VarInterval.checkConfig c with
  | false => rfl
  | true =>
    unfold VarInterval.checkConfig VarInterval.maxDeltaLimit at hc
    simp only [Bool.and_eq_true, decide_eq_true_eq] at hc
    omega

/-- a Redis URL whose scheme is not `redis`, or whose database segment is not a number, is refused -/
theorem redis_url_scheme (path : Bytes) : Config.parseRedisURL false path = .error := by
  simp [Config.parseRedisURL]

/-- non-vacuity -/
example : Memory.Valid { GarbageCollectionInterval := 1, PeerLifetime := 1, PrometheusReportingInterval := 1, ShardCount := 4611686018427387903 } := by
  simp [Memory.Valid]
example : ¬ Memory.Valid (({ GarbageCollectionInterval := 1, PeerLifetime := 1, PrometheusReportingInterval := 1, ShardCount := 4611686018427387904 } : Memory.Cfg)) := by
  simp [Memory.Valid]

/-! ## frontends: which configurations are refused, and what a refusal leaves behind -/

/-- an HTTP frontend is built exactly for: at least one address, routes, a TLS key pair that loads whenever both
paths are given, TLS configured iff an HTTPS address is, and every given port free -/
theorem http_frontend_built_iff (a h : Config.AddrKind) (t : Config.TlsKind) (r : Bool) :
    Config.httpNewFrontend a h t r = .built ↔
      (a ≠ .absent ∨ h ≠ .absent) ∧ r = true ∧ t ≠ .unloadable ∧ (h ≠ .absent ↔ t = .good) ∧ a ≠ .busy ∧ h ≠ .busy := by
  cases a <;> cases h <;> cases t <;> cases r <;> simp [Config.httpNewFrontend]

/-- no refusal leaves the HTTP listener bound (in particular not the one taken before the HTTPS port turned out busy) -/
theorem http_frontend_refusal_leaves_nothing (a h : Config.AddrKind) (t : Config.TlsKind) (r : Bool) :
    Config.httpNewFrontend a h t r ≠ .refused true := by
  cases a <;> cases h <;> cases t <;> cases r <;> simp [Config.httpNewFrontend]

theorem udp_frontend_built_iff (a : Config.AddrKind) : Config.udpNewFrontend a = .built ↔ a ≠ .busy := by
  cases a <;> simp [Config.udpNewFrontend]

end C20
