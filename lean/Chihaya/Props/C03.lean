import Chihaya.Props.C02
import Chihaya.Props.C08
import Chihaya.Props.C09
/-!
# C03 — IPv4 and IPv6 swarms never mix, in storage or on the wire

Storage: an operation for family `f` leaves every view of the other family untouched, even for the
same infohash, peer ID and port (frame lemma, from the refinement theorem of C01); scrapes and peer
selections for `f` are functions of the `f`-view only. Wire: the response hook puts the selected
peers into the list of the requester's family only (`C02_response_peers`); the writers emit 6-byte
entries under `peers` / 18-byte entries under `peers6` (`C08_announce_compact`), the textual
address of the peer's own bytes in dictionary form (`C08_announce_dict`), and 6- or 18-byte
entries chosen by the requester's family over UDP (`C09_announce`).
-/
namespace MemStore

def Op.fam? : Op → Option Fam
  | .putSeeder _ p _ | .putLeecher _ p _ | .graduate _ p _ | .deleteSeeder _ p | .deleteLeecher _ p => some p.fam
  | .gc _ => none

/-- an announce-derived operation for one family never changes what the other family sees — for
any infohash, in particular the same one -/
theorem C03_isolation (m : Mem) (hm : m.Inv) (op : Op) (f f' : Fam) (hop : op.fam? = some f) (hne : f ≠ f') (ih' : Bytes) :
    (m.apply op).view ih' f' = m.view ih' f' ∧ (m.apply op).scrape ih' f' = m.scrape ih' f' := by
  have hv : (m.apply op).view ih' f' = m.view ih' f' := by
    rw [C01_refines m hm op]
    cases op <;> simp only [Op.fam?, Option.some.injEq] at hop <;> simp only [Op.spec, specUpd] <;>
      first
      | (rw [hop]; simp [hne])
      | cases hop
  exact ⟨hv, by rw [C01_scrape, C01_scrape, hv]⟩

/-- what a request of family `f` is answered depends only on the `f`-view of its infohash -/
theorem C03_answers_from_own_family (m m' : Mem) (ih : Bytes) (f : Fam) (h : m.view ih f = m'.view ih f) :
    m.scrape ih f = m'.scrape ih f := by
  rw [C01_scrape, C01_scrape, h]

/-- expiry treats both families alike and independently -/
theorem C03_gc_per_family (m : Mem) (hm : m.Inv) (T : Int) (ih : Bytes) (f : Fam) :
    (m.gc T).view ih f = fExpire T (m.view ih f) := (Mem.gc_spec m hm T).2 ih f

end MemStore
