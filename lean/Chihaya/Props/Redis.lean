import Chihaya.Props.C01
import Chihaya.Props.C05
import Chihaya.Props.C03
import Chihaya.Lemmas.RedisStore
/-!
# The Redis store refines the same specification as the memory store (C01, C02, C03, C05, C17)

`RedisStore.view` is what a request for `(infohash, family)` reads from the two swarm hashes. Every
operation of `storage/redis/peer_store.go` (as its sequence of Redis commands: HSET/HDEL in
MULTI…EXEC, reply-driven INCR/DECR, the collector's HGETALL/HDEL/DECRBY/index removal) acts on that
view by the *same* swarm function as the memory store's operation (`MemStore.Op.spec`), and keeps
the invariant `RInv`: no peer in both roles, every non-empty swarm hash registered in its family's
index (so the collector reaches it), the six counters equal to what is stored.

Sequential semantics (each operation's command group runs to completion). The concurrent
collector-versus-announce interleaving is the known finding D4 (see DESIGN §6).
-/
namespace RedisStore
open MemStore (Swarm PMap SwarmOK Op View specUpd fPutSeeder fPutLeecher fDelSeeder fDelLeecher fExpire peerKey emptySwarm)
open AMap

def apply (s : RState) : Op → RState
  | .putSeeder ih p now => putSeeder s ih p now
  | .putLeecher ih p now => putLeecher s ih p now
  | .graduate ih p now => graduate s ih p now
  | .deleteSeeder ih p => (deleteSeeder s ih p).1
  | .deleteLeecher ih p => (deleteLeecher s ih p).1
  | .gc cutoff => gc s cutoff

theorem deleteSeeder_step (s : RState) (h : RInv s) (ih : Bytes) (p : Peer) :
    RInv (deleteSeeder s ih p).1 ∧
    (∀ ih' f', view (deleteSeeder s ih p).1 ih' f' = if ih = ih' ∧ p.fam = f' then fDelSeeder (peerKey p) (view s ih p.fam) else view s ih' f') ∧
    (deleteSeeder s ih p).2 = AMap.has (view s ih p.fam).seeders (peerKey p) := by
  rw [deleteSeeder_eq]
  exact del_core s h ih p.fam true (peerKey p)

theorem deleteLeecher_step (s : RState) (h : RInv s) (ih : Bytes) (p : Peer) :
    RInv (deleteLeecher s ih p).1 ∧
    (∀ ih' f', view (deleteLeecher s ih p).1 ih' f' = if ih = ih' ∧ p.fam = f' then fDelLeecher (peerKey p) (view s ih p.fam) else view s ih' f') ∧
    (deleteLeecher s ih p).2 = AMap.has (view s ih p.fam).leechers (peerKey p) := by
  rw [deleteLeecher_eq]
  exact del_core s h ih p.fam false (peerKey p)

/-- every operation preserves the invariant -/
theorem Redis_step (s : RState) (h : RInv s) (op : Op) : RInv (apply s op) := by
  cases op with
  | putSeeder ih p now => exact (putSeeder_step s h ih p now).1
  | putLeecher ih p now => exact (putLeecher_step s h ih p now).1
  | graduate ih p now => exact (graduate_step s h ih p now).1
  | deleteSeeder ih p => exact (deleteSeeder_step s h ih p).1
  | deleteLeecher ih p => exact (deleteLeecher_step s h ih p).1
  | gc cutoff => exact (gc_step s h cutoff).1

/-- **Refinement**: every Redis store operation changes the view exactly as the specification of
the corresponding memory-store operation says -/
theorem Redis_refines (s : RState) (h : RInv s) (op : Op) : view (apply s op) = op.spec (view s) := by
  funext ih' f'
  cases op with
  | putSeeder ih p now => exact (putSeeder_step s h ih p now).2 ih' f'
  | putLeecher ih p now => exact (putLeecher_step s h ih p now).2 ih' f'
  | graduate ih p now => exact (graduate_step s h ih p now).2 ih' f'
  | deleteSeeder ih p => exact (deleteSeeder_step s h ih p).2.1 ih' f'
  | deleteLeecher ih p => exact (deleteLeecher_step s h ih p).2.1 ih' f'
  | gc cutoff => exact (gc_step s h cutoff).2 ih' f'

/-- in every reachable state the invariant holds -/
theorem Redis_reachable (ops : List Op) : RInv (ops.foldl apply {}) := by
  have key : ∀ s, RInv s → RInv (ops.foldl apply s) := by
    induction ops with
    | nil => intro s h; exact h
    | cons op rest ih => intro s h; exact ih _ (Redis_step s h op)
  exact key _ init_inv

/-- **Histories**: after any operation sequence the Redis store's view is the fold of the specification -/
theorem Redis_history (ops : List Op) :
    view (ops.foldl apply {}) = ops.foldl (fun σ op => op.spec σ) (fun _ _ => emptySwarm) := by
  have key : ∀ s, RInv s → view (ops.foldl apply s) = ops.foldl (fun σ op => op.spec σ) (view s) := by
    induction ops with
    | nil => intro s _; rfl
    | cons op rest ih =>
      intro s h
      simp only [List.foldl_cons]
      rw [ih _ (Redis_step s h op), Redis_refines s h op]
  rw [key _ init_inv]
  rfl

/-- **Both stores present the same swarms**: for every shard count and every history, what any
request sees in the memory store and in the Redis store is the same pair of peer maps (same peers,
same roles, same timestamps, same order) -/
theorem stores_agree (n : Nat) (hn : 0 < n) (ops : List Op) :
    (ops.foldl MemStore.Mem.apply (MemStore.init n)).view = view (ops.foldl apply {}) := by
  rw [MemStore.C01_history n hn ops, Redis_history ops]

/-- C01 (Redis): a peer is never a seeder and a leecher of the same swarm -/
theorem Redis_single_role (ops : List Op) (ih : Bytes) (f : Fam) (pk : Bytes) :
    ¬ (AMap.has (view (ops.foldl apply {}) ih f).seeders pk = true ∧ AMap.has (view (ops.foldl apply {}) ih f).leechers pk = true) :=
  ((Redis_reachable ops).ok ih f).2.2 pk

/-- C01 (Redis): `ErrResourceDoesNotExist` exactly when the peer is not a member in that role -/
theorem Redis_delete_result (ops : List Op) (ih : Bytes) (p : Peer) :
    (deleteSeeder (ops.foldl apply {}) ih p).2 = AMap.has (view (ops.foldl apply {}) ih p.fam).seeders (peerKey p) ∧
    (deleteLeecher (ops.foldl apply {}) ih p).2 = AMap.has (view (ops.foldl apply {}) ih p.fam).leechers (peerKey p) :=
  ⟨(deleteSeeder_step _ (Redis_reachable ops) ih p).2.2, (deleteLeecher_step _ (Redis_reachable ops) ih p).2.2⟩

/-- scrape counts are the sizes of the two sets of the view -/
theorem Redis_scrape (s : RState) (ih : Bytes) (f : Fam) :
    scrape s ih f = ((view s ih f).seeders.length, (view s ih f).leechers.length) := rfl

/-- C02 (Redis): `AnnouncePeers` is the same selection function applied to the view; unknown exactly
when the swarm has no members -/
theorem Redis_announce (s : RState) (ih : Bytes) (seeder : Bool) (numWant : Nat) (p : Peer) :
    announcePeers s ih seeder numWant p =
      if (view s ih p.fam).seeders.isEmpty && (view s ih p.fam).leechers.isEmpty then none
      else some (MemStore.selectPeers (view s ih p.fam) seeder numWant (peerKey p)) := by
  unfold announcePeers swarm?
  simp only [view]
  split <;> simp_all

/-- C03 (Redis): an operation of one family never changes what the other family sees -/
theorem Redis_isolation (s : RState) (h : RInv s) (op : Op) (f f' : Fam) (hop : op.fam? = some f) (hne : f ≠ f') (ih' : Bytes) :
    view (apply s op) ih' f' = view s ih' f' := by
  rw [Redis_refines s h op]
  cases op <;> simp only [MemStore.Op.fam?, Option.some.injEq] at hop <;> simp only [MemStore.Op.spec, specUpd] <;>
    first
    | (rw [hop]; simp [hne])
    | cases hop

/-- C05 (Redis): after a pass with cutoff `T` a peer is a seeder (leecher) with time `t` iff it was
one before with that time and `t > T` — in every swarm of every family, because every non-empty
swarm hash is registered in the index the collector walks -/
theorem Redis_expire_exact (s : RState) (h : RInv s) (T : Int) (ih : Bytes) (f : Fam) (pk : Bytes) (t : Int) :
    (AMap.get (view (gc s T) ih f).seeders pk = some t ↔ AMap.get (view s ih f).seeders pk = some t ∧ t > T) ∧
    (AMap.get (view (gc s T) ih f).leechers pk = some t ↔ AMap.get (view s ih f).leechers pk = some t ∧ t > T) := by
  have hok := h.ok ih f
  rw [(gc_step s h T).2 ih f]
  simp only [fExpire]
  constructor
  · rw [MemStore.get_filter _ hok.1]
    cases hg : AMap.get (view s ih f).seeders pk with
    | none => simp
    | some v =>
      simp only [Option.bind_some, decide_eq_true_eq]
      split
      · rename_i h; constructor
        · intro e; cases e; exact ⟨rfl, h⟩
        · intro ⟨e, _⟩; exact e
      · rename_i h; constructor
        · intro e; cases e
        · intro ⟨e, ht⟩; cases e; exact absurd ht h
  · rw [MemStore.get_filter _ hok.2.1]
    cases hg : AMap.get (view s ih f).leechers pk with
    | none => simp
    | some v =>
      simp only [Option.bind_some, decide_eq_true_eq]
      split
      · rename_i h; constructor
        · intro e; cases e; exact ⟨rfl, h⟩
        · intro ⟨e, _⟩; exact e
      · rename_i h; constructor
        · intro e; cases e
        · intro ⟨e, ht⟩; cases e; exact absurd ht h

/-- C05 (Redis), the store's own expiry loop (D25): same rule on the same clock as the memory store -/
theorem Redis_loop_exact (s : RState) (h : RInv s) (c life : Int) (ih : Bytes) (f : Fam) (pk : Bytes) (t : Int) :
    (AMap.get (view (loopTick s c life) ih f).seeders pk = some t ↔ AMap.get (view s ih f).seeders pk = some t ∧ c - t < life) ∧
    (AMap.get (view (loopTick s c life) ih f).leechers pk = some t ↔ AMap.get (view s ih f).leechers pk = some t ∧ c - t < life) := by
  have h' := Redis_expire_exact s h (MemStore.loopCutoff c life) ih f pk t
  have e : t > MemStore.loopCutoff c life ↔ c - t < life := by unfold MemStore.loopCutoff; omega
  unfold loopTick
  rw [h'.1, h'.2, e]; exact ⟨Iff.rfl, Iff.rfl⟩

/-- **D4 (repaired in /repo, `fix:` commit c71408d), as a theorem about the collector as it was**:
`Redis_expire_exact` is about a collector pass that runs without anything in between. The pass was
several round trips per swarm key, the read and the removal being different ones; when an announce
of the same peer lands between the collector's read (`gcKeyRead`: HGETALL and the decision what is
stale) and its removal (`gcKeyApply`: HDEL of those fields, whatever their current value), a peer whose
most recent announce is *after* the cutoff is removed. Concrete witness (replayed on the real store by
the harness scenario `st.redis_gc_race`, see known_findings.json): put at 5, collector reads with
cutoff 6, re-announce at 10, collector applies. The repaired collector WATCHes the hash while it reads
and removes in one `MULTI … EXEC`: a removal that goes through acts on the hash it has read
(`D4_repaired_commit`), which makes it an atomic step of `Props/RedisConc.lean`. -/
theorem D4_gc_race_witness :
    let ih : Bytes := List.replicate 20 1
    let p : Peer := ⟨List.replicate 20 2, 6881, [10, 0, 0, 1], .v4⟩
    let s0 := putSeeder {} ih p 5
    let stale := gcKeyRead s0 (swarmKey .v4 true ih) 6          -- the collector's HGETALL: p is stale (5 ≤ 6)
    let s1 := putSeeder s0 ih p 10                               -- p announces again: mtime 10 > 6
    let s2 := gcKeyApply s1 .v4 (swarmKey .v4 true ih) stale     -- the collector's HDEL
    AMap.get (view s1 ih .v4).seeders (peerKey p) = some 10 ∧ (view s2 ih .v4).seeders = [] := by
  decide

/-- the repaired collector: when the hash has not changed between the read and the `EXEC` (the only
case in which Redis lets the `EXEC` go through), removing what was decided at the read is the atomic
`gcHash` of the state at the `EXEC` — whatever else has happened to other keys and to the counters -/
theorem D4_repaired_commit (sRead sExec : RState) (f : Fam) (k : Bytes) (cutoff : Int)
    (hunchanged : hget sExec k = hget sRead k) :
    gcHashApply sExec f k (gcKeyRead sRead k cutoff) = gcHash sExec f k cutoff := by
  simp only [gcHash, gcKeyRead, hunchanged]

/-- C17 (Redis): in every state satisfying the invariant the exported totals are (registered seeder
sets, stored seeder memberships, stored leecher memberships), summed over the two families — as
integers, so they are never negative -/
theorem totals_of_inv (s : RState) (h : RInv s) :
    totals s = (((sumW wSeed s.idx4 + sumW wSeed s.idx6 : Nat) : Int),
                ((sumW (wLen .v4 true) s.hashes + sumW (wLen .v6 true) s.hashes : Nat) : Int),
                ((sumW (wLen .v4 false) s.hashes + sumW (wLen .v6 false) s.hashes : Nat) : Int)) := by
  have c4 := h.cih .v4; have c6 := h.cih .v6
  have s4 := h.cnt .v4 true; have s6 := h.cnt .v6 true
  have l4 := h.cnt .v4 false; have l6 := h.cnt .v6 false
  simp only [getC, roleKind, idx, if_true, Bool.false_eq_true, if_false] at c4 c6 s4 s6 l4 l6
  show (s.c.ih4 + s.c.ih6, s.c.s4 + s.c.s6, s.c.l4 + s.c.l6) = _
  simp only [Int.natCast_add]
  rw [c4, c6, s4, s6, l4, l6]

/-- … in particular in every reachable state -/
theorem Redis_totals (ops : List Op) :
    let s := ops.foldl apply {}
    totals s = (((sumW wSeed s.idx4 + sumW wSeed s.idx6 : Nat) : Int),
                ((sumW (wLen .v4 true) s.hashes + sumW (wLen .v6 true) s.hashes : Nat) : Int),
                ((sumW (wLen .v4 false) s.hashes + sumW (wLen .v6 false) s.hashes : Nat) : Int)) :=
  totals_of_inv _ (Redis_reachable ops)

/-- the weight used for the seeder/leecher totals really is "number of entries of the swarm hashes
of that family and role" -/
theorem wLen_is_membership_count (f f' : Fam) (r r' : Bool) (ih : Bytes) (m : PMap) :
    wLen f r (swarmKey f' r' ih) m = if f' = f ∧ r' = r then m.length else 0 := wLen_swarmKey f f' r r' ih m

/-- non-vacuity: a non-trivial reachable state with both roles, both families and an expiry -/
example :
    let p4 : Peer := ⟨List.replicate 20 2, 6881, [10, 0, 0, 1], .v4⟩
    let p6 : Peer := ⟨List.replicate 20 3, 6882, List.replicate 16 1, .v6⟩
    let s := [Op.putLeecher (List.replicate 20 1) p4 5, Op.putSeeder (List.replicate 20 1) p6 6,
              Op.graduate (List.replicate 20 1) p4 7, Op.gc 6].foldl apply {}
    totals s = (1, 1, 0) ∧ scrape s (List.replicate 20 1) .v4 = (1, 0) ∧ scrape s (List.replicate 20 1) .v6 = (0, 0) := by
  decide

end RedisStore
