import Chihaya.Lemmas.Conc
import Chihaya.Lemmas.MemStore
/-!
# C04 — concurrent requests behave as if processed one at a time (memory store)

`Lemmas/Conc.lean` proves, for *any* state type, any number of threads, any programs and any
schedule: a micro-step execution in which every access to shared cell `i` happens inside a
critical section of the readers/writer lock of cell `i` (writers exclusive, readers shared, readers
do not write) is — in every quiescent configuration — equal in final state and in every thread's
results to executing the operations atomically in the order of their lock acquisitions. Acquisition
order respects real time (an operation that released before another acquired precedes it in the
log) and each thread's operations appear in program order.

This file instantiates the cells with the memory store's shards and the operations with the
lock-delimited steps of the store: an announce is three of them (count read, peer selection,
membership update), an expiry pass is one snapshot per shard and one step per swarm. The hypothesis
"every shard access is inside a critical section of that shard, read sections do not write" is the
*fact* the go/ast extractor checks on `storage/memory/peer_store.go` on every run.
-/
namespace Conc
variable {S L R : Type}

/-- the operations thread `t` has started, in log (acquire) order -/
def logOf (c : Config S L R) (t : Nat) : List (CritOp S L R) := (c.log.filter (·.1 = t)).map (·.2)

/-- **Program order**: in every reachable configuration, what a thread has started (in the order
the log records it) followed by what it still has to do is exactly its program. -/
theorem program_order {σ₀ : Nat → S} {progs : Nat → List (CritOp S L R)} {c : Config S L R}
    (hr : Reach (Init σ₀ progs) c) (t : Nat) : logOf c t ++ (c.threads t).todo = progs t := by
  induction hr with
  | refl => simp [logOf, Init]
  | tail _ hs ih =>
    cases hs with
    | acq t' o todo' hidle htodo hcan =>
      simp only [logOf, List.filter_append, List.map_append]
      by_cases ht : t = t'
      · subst ht
        simp only [upd_same, List.filter_cons, List.filter_nil, decide_true, if_true, List.map_cons, List.map_nil, List.append_assoc,
          List.singleton_append]
        rw [← htodo]; exact ih
      · have : ¬ t' = t := fun e => ht e.symm
        simp only [upd_other _ _ ht, List.filter_cons, List.filter_nil, this, decide_false, Bool.false_eq_true, if_false, List.map_nil,
          List.append_nil]
        exact ih
    | step t' o st rest l hh =>
      by_cases ht : t = t'
      · subst ht; simp only [logOf, upd_same]; exact ih
      · simp only [logOf, upd_other _ _ ht]; exact ih
    | rel t' o l hh =>
      by_cases ht : t = t'
      · subst ht; simp only [logOf, upd_same]; exact ih
      · simp only [logOf, upd_other _ _ ht]; exact ih

/-- the log only grows at its end: operations are linearized in the order of their acquisitions and
an entry never moves -/
theorem log_prefix {c1 c2 : Config S L R} (hr : Reach c1 c2) : ∃ later, c2.log = c1.log ++ later := by
  induction hr with
  | refl => exact ⟨[], by simp⟩
  | tail _ hs ih =>
    obtain ⟨later, hl⟩ := ih
    cases hs with
    | acq t o todo' hidle htodo hcan => exact ⟨later ++ [(t, o)], by simp [hl]⟩
    | step t o st rest l hh => exact ⟨later, hl⟩
    | rel t o l hh => exact ⟨later, hl⟩

/-- a thread inside a critical section has that operation in the log -/
theorem holding_in_log {σ₀ : Nat → S} {progs : Nat → List (CritOp S L R)} {c : Config S L R}
    (hr : Reach (Init σ₀ progs) c) (t : Nat) (o : CritOp S L R) (rest : List (MStep S L)) (l : L)
    (h : (c.threads t).st = .holding o rest l) : (t, o) ∈ c.log := by
  induction hr generalizing rest l with
  | refl => simp [Init] at h
  | tail _ hs ih =>
    cases hs with
    | acq t' o' todo' hidle htodo hcan =>
      by_cases ht : t = t'
      · subst ht
        simp only [upd_same] at h
        cases h
        simp
      · simp only [upd_other _ _ ht] at h
        simp only [List.mem_append]
        exact Or.inl (ih _ _ h)
    | step t' o' st rest' l' hh =>
      by_cases ht : t = t'
      · subst ht
        simp only [upd_same] at h
        cases h
        exact ih _ _ hh
      · simp only [upd_other _ _ ht] at h
        exact ih _ _ h
    | rel t' o' l' hh =>
      by_cases ht : t = t'
      · subst ht
        simp only [upd_same] at h
        cases h
      · simp only [upd_other _ _ ht] at h
        exact ih _ _ h

/-- **Real-time order**: if operation `a` of thread `t` has reached the end of its critical section at
`c₁` (its release — hence its response — can only come later than its acquisition), and at some later
configuration `c₃` thread `u` acquires `b` (its invocation can only be earlier than that), then `a`
stands before `b` in the linearization order. -/
theorem real_time_order {σ₀ : Nat → S} {progs : Nat → List (CritOp S L R)} {c₁ c₃ : Config S L R}
    (hr1 : Reach (Init σ₀ progs) c₁) (t : Nat) (a : CritOp S L R) (l : L)
    (hrel : (c₁.threads t).st = .holding a [] l)
    (hr2 : Reach c₁ c₃) (u : Nat) (b : CritOp S L R) :
    ∃ l1 l2, c₃.log ++ [(u, b)] = l1 ++ (t, a) :: l2 ++ [(u, b)] := by
  have hin := holding_in_log hr1 t a [] l hrel
  obtain ⟨later, hl⟩ := log_prefix hr2
  obtain ⟨l1, l2, hsplit⟩ := List.append_of_mem hin
  refine ⟨l1, l2 ++ later, ?_⟩
  rw [hl, hsplit]
  simp

end Conc

namespace MemStore.Concurrent
open Conc MemStore

/-- results of the lock-delimited steps -/
inductive Res where
  | unit
  | found (b : Bool)
  | counts (c i : Nat)
  | peers (l : Option (List Bytes))
  | snapshot (ihs : List Bytes)
  deriving Repr

abbrev Step := CritOp Shard Res Res

def wr (shard : Nat) (f : Shard → Shard × Res) : Step :=
  { shard := shard, write := true, init := .unit, steps := [fun _ s => ((f s).2, (f s).1)], result := id }

def rd (shard : Nat) (f : Shard → Res) : Step :=
  { shard := shard, write := false, init := .unit, steps := [fun _ s => (f s, s)], result := id }

/-- the lock-delimited steps of the store, for a store with `n` shards per family -/
def putSeeder (n : Nat) (ih : Bytes) (p : Peer) (now : Int) : Step :=
  wr (shardIndex n ih p.fam) fun s => (s.putSeeder ih (peerKey p) now, .unit)
def putLeecher (n : Nat) (ih : Bytes) (p : Peer) (now : Int) : Step :=
  wr (shardIndex n ih p.fam) fun s => (s.putLeecher ih (peerKey p) now, .unit)
def graduate (n : Nat) (ih : Bytes) (p : Peer) (now : Int) : Step :=
  wr (shardIndex n ih p.fam) fun s => (s.graduate ih (peerKey p) now, .unit)
def deleteSeeder (n : Nat) (ih : Bytes) (p : Peer) : Step :=
  wr (shardIndex n ih p.fam) fun s => ((s.deleteSeeder ih (peerKey p)).1, .found (s.deleteSeeder ih (peerKey p)).2)
def deleteLeecher (n : Nat) (ih : Bytes) (p : Peer) : Step :=
  wr (shardIndex n ih p.fam) fun s => ((s.deleteLeecher ih (peerKey p)).1, .found (s.deleteLeecher ih (peerKey p)).2)
def scrape (n : Nat) (ih : Bytes) (f : Fam) : Step :=
  rd (shardIndex n ih f) fun s => .counts (s.swarm ih).seeders.length (s.swarm ih).leechers.length
def announcePeers (n : Nat) (ih : Bytes) (seeder : Bool) (numWant : Nat) (p : Peer) : Step :=
  rd (shardIndex n ih p.fam) fun s => .peers ((AMap.get s.swarms ih).map (selectPeers · seeder numWant (peerKey p)))
def gcSnapshot (i : Nat) : Step := rd i fun s => .snapshot (AMap.keys s.swarms)
def gcSwarm (i : Nat) (ih : Bytes) (cutoff : Int) : Step := wr i fun s => (s.gcSwarm ih cutoff, .unit)

/-- all of them -/
inductive IsStoreStep (n : Nat) : Step → Prop where
  | putSeeder (ih p now) : IsStoreStep n (putSeeder n ih p now)
  | putLeecher (ih p now) : IsStoreStep n (putLeecher n ih p now)
  | graduate (ih p now) : IsStoreStep n (graduate n ih p now)
  | deleteSeeder (ih p) : IsStoreStep n (deleteSeeder n ih p)
  | deleteLeecher (ih p) : IsStoreStep n (deleteLeecher n ih p)
  | scrape (ih f) : IsStoreStep n (scrape n ih f)
  | announcePeers (ih s nw p) : IsStoreStep n (announcePeers n ih s nw p)
  | gcSnapshot (i) : IsStoreStep n (gcSnapshot i)
  | gcSwarm (i ih c) : IsStoreStep n (gcSwarm i ih c)

theorem rd_readonly (i : Nat) (f : Shard → Res) : ReadOnly (rd i f) := by
  intro _ st hst l s
  simp only [rd, List.mem_singleton] at hst
  subst hst; rfl

theorem wr_readonly (i : Nat) (f : Shard → Shard × Res) : ReadOnly (wr i f) := by
  intro h; simp [wr] at h

theorem store_steps_readonly (n : Nat) (o : Step) (h : IsStoreStep n o) : ReadOnly o := by
  cases h <;> first | exact rd_readonly _ _ | exact wr_readonly _ _

/-- **Linearizability of the memory store**: whatever the number of goroutines, whatever sequences
of store steps they run (announces = three steps, scrapes, expiry passes = snapshot + per-swarm
steps, on the same swarm and the same peer or not) and whatever the interleaving of their
lock-delimited steps, once all have finished the shards and every goroutine's results are exactly
those of running the steps one at a time in the order they acquired their locks. -/
theorem C04_memory_linearizable (n : Nat) (σ₀ : Nat → Shard) (progs : Nat → List Step)
    (hprogs : ∀ t o, o ∈ progs t → IsStoreStep n o)
    (c : Config Shard Res Res) (hr : Reach (Init σ₀ progs) c) (hq : ∀ t, (c.threads t).st = .idle) :
    replay σ₀ (fun _ => []) c.log = (c.σ, fun t => (c.threads t).done) :=
  linearizable (fun t o ho => store_steps_readonly n o (hprogs t o ho)) hr hq

/-- the atomic effect of each write step is the sequential store operation of the model the
refinement and invariant theorems (C01, C05, C17) are about -/
theorem C04_step_is_sequential_op (n : Nat) (ih : Bytes) (p : Peer) (now : Int) (s : Shard) :
    (runSteps (putSeeder n ih p now).steps (putSeeder n ih p now).init s).2 = s.putSeeder ih (peerKey p) now ∧
    (runSteps (putLeecher n ih p now).steps (putLeecher n ih p now).init s).2 = s.putLeecher ih (peerKey p) now ∧
    (runSteps (graduate n ih p now).steps (graduate n ih p now).init s).2 = s.graduate ih (peerKey p) now ∧
    (runSteps (deleteSeeder n ih p).steps (deleteSeeder n ih p).init s).2 = (s.deleteSeeder ih (peerKey p)).1 ∧
    (runSteps (deleteLeecher n ih p).steps (deleteLeecher n ih p).init s).2 = (s.deleteLeecher ih (peerKey p)).1 :=
  ⟨rfl, rfl, rfl, rfl, rfl⟩

end MemStore.Concurrent
