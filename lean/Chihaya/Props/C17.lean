import Chihaya.Lemmas.MemStore
/-!
# C17 — reported seeder, leecher and swarm totals equal the stored reality (memory store)

`Shard.Inv` contains, per shard, `nS = Σ |seeders|` and `nL = Σ |leechers|` as *integers*: the
`uint64` counters of the code therefore never pass below zero and never wrap. The invariant holds
initially and is preserved by every operation, hence in every reachable state; `totals`
(`populateProm`) is the sum over the shards. (Redis: `RedisStore.Redis_totals` in Props/Redis.lean.)
-/
namespace MemStore

inductive Op where
  | putSeeder (ih : Bytes) (p : Peer) (now : Int)
  | putLeecher (ih : Bytes) (p : Peer) (now : Int)
  | graduate (ih : Bytes) (p : Peer) (now : Int)
  | deleteSeeder (ih : Bytes) (p : Peer)
  | deleteLeecher (ih : Bytes) (p : Peer)
  | gc (cutoff : Int)

def Mem.apply (m : Mem) : Op → Mem
  | .putSeeder ih p now => m.putSeeder ih p now
  | .putLeecher ih p now => m.putLeecher ih p now
  | .graduate ih p now => m.graduate ih p now
  | .deleteSeeder ih p => (m.deleteSeeder ih p).1
  | .deleteLeecher ih p => (m.deleteLeecher ih p).1
  | .gc cutoff => m.gc cutoff

theorem deleteSeeder_as_onShard (m : Mem) (ih : Bytes) (p : Peer) :
    (m.deleteSeeder ih p).1 = m.onShard ih p.fam (fun s => (s.deleteSeeder ih (peerKey p)).1) := rfl
theorem deleteLeecher_as_onShard (m : Mem) (ih : Bytes) (p : Peer) :
    (m.deleteLeecher ih p).1 = m.onShard ih p.fam (fun s => (s.deleteLeecher ih (peerKey p)).1) := rfl

/-- every operation preserves the invariant (repeated puts, deletes of absent peers, graduation,
expiry of whole swarms included) -/
theorem C17_step (m : Mem) (hm : m.Inv) (op : Op) : (m.apply op).Inv := by
  cases op with
  | putSeeder ih p now =>
    show (m.onShard ih p.fam (·.putSeeder ih (peerKey p) now)).Inv
    exact onShard_inv m hm ih p.fam _ (fun s hs => by
      show (s.putSeeder ih (peerKey p) now).Inv
      rw [putSeeder_eq_update]; exact Shard.update_inv s hs _ _ (fPutSeeder_ok _ _ _))
  | putLeecher ih p now =>
    show (m.onShard ih p.fam (·.putLeecher ih (peerKey p) now)).Inv
    exact onShard_inv m hm ih p.fam _ (fun s hs => by
      show (s.putLeecher ih (peerKey p) now).Inv
      rw [putLeecher_eq_update]; exact Shard.update_inv s hs _ _ (fPutLeecher_ok _ _ _))
  | graduate ih p now =>
    show (m.onShard ih p.fam (·.graduate ih (peerKey p) now)).Inv
    exact onShard_inv m hm ih p.fam _ (fun s hs => by
      show (s.graduate ih (peerKey p) now).Inv
      rw [graduate_eq_update]; exact Shard.update_inv s hs _ _ (fPutSeeder_ok _ _ _))
  | deleteSeeder ih p =>
    show (m.deleteSeeder ih p).1.Inv
    rw [deleteSeeder_as_onShard]
    exact onShard_inv m hm ih p.fam _ (fun s hs => by
      show (s.deleteSeeder ih (peerKey p)).1.Inv
      rw [(deleteSeeder_spec s ih (peerKey p)).2]
      split
      · exact Shard.update_inv s hs _ _ (fDelSeeder_ok _ _)
      · exact hs)
  | deleteLeecher ih p =>
    show (m.deleteLeecher ih p).1.Inv
    rw [deleteLeecher_as_onShard]
    exact onShard_inv m hm ih p.fam _ (fun s hs => by
      show (s.deleteLeecher ih (peerKey p)).1.Inv
      rw [(deleteLeecher_spec s ih (peerKey p)).2]
      split
      · exact Shard.update_inv s hs _ _ (fDelLeecher_ok _ _)
      · exact hs)
  | gc cutoff => exact (Mem.gc_spec m hm cutoff).1

/-- in every reachable state (any shard count ≥ 1, any operation history) … -/
theorem C17_reachable (n : Nat) (hn : 0 < n) (ops : List Op) : (ops.foldl Mem.apply (init n)).Inv := by
  have : ∀ (m : Mem), m.Inv → (ops.foldl Mem.apply m).Inv := by
    induction ops with
    | nil => intro m hm; exact hm
    | cons op rest ih => intro m hm; exact ih _ (C17_step m hm op)
  exact this _ (init_inv n hn)

theorem apply_n (m : Mem) (op : Op) : (m.apply op).n = m.n := by cases op <;> rfl

theorem foldl_n (ops : List Op) (m0 : Mem) : (ops.foldl Mem.apply m0).n = m0.n := by
  induction ops generalizing m0 with
  | nil => rfl
  | cons op rest ih => simp only [List.foldl_cons]; rw [ih, apply_n]

/-- … each shard's counters equal the number of seeder / leecher memberships it stores, as integers
(so they are never negative and the `uint64` never wraps) -/
theorem C17_counters (n : Nat) (hn : 0 < n) (ops : List Op) (i : Nat) (hi : i < 2 * n) :
    let m := ops.foldl Mem.apply (init n)
    (m.shard i).nS = sumBy (·.seeders.length) (m.shard i).swarms ∧
    (m.shard i).nL = sumBy (·.leechers.length) (m.shard i).swarms ∧
    0 ≤ (m.shard i).nS ∧ 0 ≤ (m.shard i).nL := by
  intro m
  have hinv := C17_reachable n hn ops
  have hn' : m.n = n := foldl_n ops (init n)
  have hs := hinv.shards i (by rw [hn']; exact hi)
  exact ⟨hs.cS, hs.cL, by rw [hs.cS]; omega, by rw [hs.cL]; omega⟩

/-- the exported totals are the sums over the shards of (tracked swarms, seeder counter, leecher counter) -/
theorem C17_totals (m : Mem) :
    m.totals = ((m.shards.map fun s => (s.swarms.length : Int)).sum, (m.shards.map (·.nS)).sum, (m.shards.map (·.nL)).sum) := by
  unfold Mem.totals
  have : ∀ (l : List Shard) (a : Int × Int × Int),
      l.foldl (fun (a : Int × Int × Int) s => (a.1 + s.swarms.length, a.2.1 + s.nS, a.2.2 + s.nL)) a =
      (a.1 + (l.map fun s => (s.swarms.length : Int)).sum, a.2.1 + (l.map (·.nS)).sum, a.2.2 + (l.map (·.nL)).sum) := by
    intro l
    induction l with
    | nil => intro a; simp
    | cons s rest ih =>
      intro a
      simp only [List.foldl_cons, ih, List.map_cons, List.sum_cons]
      ext <;> simp <;> omega
  rw [this]; simp

/-- non-vacuity: a non-trivial reachable state -/
example : ((([Op.putLeecher (List.replicate 20 1) ⟨List.replicate 20 2, 6881, [10,0,0,1], .v4⟩ 5,
             Op.putSeeder (List.replicate 20 1) ⟨List.replicate 20 2, 6881, [10,0,0,1], .v4⟩ 6] : List Op).foldl Mem.apply (init 2)).shard 1).nS = 1 := by
  decide

end MemStore
