import Chihaya.Model.Udp
/-!
# C10 — UDP announces and scrapes are processed only with a valid connection ID

`mac` (HMAC-SHA256) is uninterpreted: the theorems hold for every function; that a tag cannot be
guessed is the cryptographic assumption, not proved here. Timestamps are `uint32` seconds: the
completeness statement assumes the clock is before 2106.
-/
namespace Udp
open Bytes

/-- Exact characterisation of `Validate`: inside the window (not older than two minutes, not
further in the future than the skew) and carrying the tag HMAC(key, timestamp ‖ source IP). -/
theorem C10_validate_iff (mac : Mac) (key id ip : Bytes) (now skew : Int) :
    validate mac key id ip now skew = true ↔
      (now ≤ (toNatBE (id.take 4) : Int) * 1000000000 + ttlNs ∧
       (toNatBE (id.take 4) : Int) * 1000000000 ≤ now + skew ∧
       (mac key (id.take 4 ++ ip)).take 4 = id.drop 4) := by
  unfold validate
  simp only
  split
  · rename_i h
    constructor
    · intro hf; cases hf
    · intro ⟨h1, h2, _⟩; omega
  · rename_i h
    constructor
    · intro he
      refine ⟨by omega, by omega, ?_⟩
      simpa using he
    · intro ⟨_, _, h3⟩
      simpa using h3

/-- Soundness: an accepted 8-byte ID is *the* ID this key issues for this source address and the
timestamp it carries — any other address, key, or flipped bit changes the required tag. -/
theorem C10_accepted_is_issued (mac : Mac) (key id ip : Bytes) (now skew : Int)
    (h : validate mac key id ip now skew = true) :
    id = id.take 4 ++ (mac key (id.take 4 ++ ip)).take 4 := by
  have := ((C10_validate_iff mac key id ip now skew).mp h).2.2
  rw [this]; simp

theorem toNatBE_be32 (n : Nat) (h : n < 2^32) : toNatBE (be32 n) = n := by
  unfold be32
  exact toNatBE_beN_of_lt (by simpa using h)

/-- Completeness: every ID issued at time `t0` is accepted from the same address throughout its
lifetime (until 120 s after the second it was issued in), on any instance with the same key. -/
theorem C10_issued_is_accepted (mac : Mac) (key ip : Bytes) (t0 now skew : Int)
        (h0 : 0 ≤ t0) (h32 : t0 / 1000000000 < 2^32) (hskew : 0 ≤ skew)
    (hafter : t0 ≤ now) (hlife : now ≤ (t0 / 1000000000) * 1000000000 + ttlNs) :
    validate mac key (generate mac key ip t0) ip now skew = true := by
  rw [C10_validate_iff]
  have hsec : 0 ≤ t0 / 1000000000 := Int.ediv_nonneg h0 (by decide)
  have hmod : (t0 / 1000000000) % 2^32 = t0 / 1000000000 := Int.emod_eq_of_lt hsec h32
  have hts : ((t0 / 1000000000) % 2^32).toNat < 2^32 := by rw [hmod]; omega
  have hlen : (be32 ((t0 / 1000000000) % 2^32).toNat).length = 4 := by simp [be32]
  have htake : (generate mac key ip t0).take 4 = be32 ((t0 / 1000000000) % 2^32).toNat := by
    unfold generate; simp only; rw [List.take_append_of_le_length (by omega)]; rw [List.take_of_length_le (by omega)]
  have hdrop : (generate mac key ip t0).drop 4 = (mac key (be32 ((t0 / 1000000000) % 2^32).toNat ++ ip)).take 4 := by
    unfold generate; simp only
    rw [List.drop_append_of_le_length (by omega), List.drop_of_length_le (by omega)]; simp
  rw [htake, hdrop, toNatBE_be32 _ hts, hmod]
  have : ((t0 / 1000000000).toNat : Int) = t0 / 1000000000 := Int.toNat_of_nonneg hsec
  rw [this]
  refine ⟨hlife, ?_, rfl⟩
  have : (t0 / 1000000000) * 1000000000 ≤ t0 := by
    have := Int.ediv_mul_le t0 (show (1000000000 : Int) ≠ 0 by decide)
    omega
  omega

/-- Gating: a non-connect datagram whose connection ID does not validate produces exactly one short
error datagram and nothing else — the tracker logic is never invoked (so the swarm is untouched),
whatever the action code and whatever the rest of the packet. -/
theorem C10_gating (mac : Mac) (lower : Bytes → Bytes) (cfg : Cfg) (logic : Logic) (now : Int) (pkt src : Bytes)
    (hlen : 16 ≤ pkt.length) (hact : toNatBE (slice pkt 8 12) ≠ 0)
    (hbad : validate mac cfg.key (slice pkt 0 8) src now cfg.skewNs = false) :
    handleRequest mac lower cfg logic now pkt src =
      { out := some (writeError (slice pkt 12 16) errBadConnectionID), call := none, after := false } := by
  unfold handleRequest
  have : ¬ pkt.length < 16 := by omega
  simp [this, hact, hbad]

/-- Conversely the logic is reached only through a validated ID: any call implies validation succeeded. -/
theorem C10_call_implies_valid (mac : Mac) (lower : Bytes → Bytes) (cfg : Cfg) (logic : Logic) (now : Int) (pkt src : Bytes)
    (h : (handleRequest mac lower cfg logic now pkt src).call.isSome = true) :
    validate mac cfg.key (slice pkt 0 8) src now cfg.skewNs = true := by
  unfold handleRequest at h
  by_cases hl : pkt.length < 16
  · simp [hl] at h
  · simp only [hl, if_false] at h
    cases hv : validate mac cfg.key (slice pkt 0 8) src now cfg.skewNs with
    | true => rfl
    | false =>
      by_cases ha : toNatBE (slice pkt 8 12) = 0
      · simp only [ha, ne_eq, not_true_eq_false, false_and, if_false, if_true] at h
        split at h
        · simp at h
        · split at h <;> simp at h
      · simp [ha, hv] at h

/-- A connect request (protocol magic) is answered with the ID `generate` issues for the source. -/
theorem C10_connect (mac : Mac) (lower : Bytes → Bytes) (cfg : Cfg) (logic : Logic) (now : Int) (pkt src : Bytes)
    (hlen : 16 ≤ pkt.length) (hact : toNatBE (slice pkt 8 12) = 0) (hmagic : slice pkt 0 8 = initialConnectionID)
    (f : Fam) (hsrc : Sanitize.famOf src = some f) :
    handleRequest mac lower cfg logic now pkt src =
      { out := some (writeConnectionID (slice pkt 12 16) (generate mac cfg.key src now)), call := none, after := false } := by
  unfold handleRequest
  have : ¬ pkt.length < 16 := by omega
  simp [this, hact, hmagic, hsrc]

/-- non-vacuity: an issued ID validates (toy MAC) and a damaged one does not -/
example : let mac : Mac := fun _ m => m.reverse
    validate mac [] (generate mac [] [10,1,2,3] 1700000000000000000) [10,1,2,3] 1700000060000000000 0 = true ∧
    validate mac [] (generate mac [] [10,1,2,3] 1700000000000000000) [10,1,2,4] 1700000060000000000 0 = false ∧
    validate mac [] (generate mac [] [10,1,2,3] 1700000000000000000) [10,1,2,3] 1700000121000000000 0 = false := by
  decide

end Udp
