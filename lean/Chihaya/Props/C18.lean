import Chihaya.Model.VarInterval
/-!
# C18 — interval variation only ever lengthens intervals, within the configured bound

`Gen.Random.*` is regenerated from `middleware/pkg/random` on every check; these theorems
are therefore re-proved against the current source each time.
-/
namespace VarInterval
open Gen.Random

/-- `Intn` never panics for positive `n` and returns `0 ≤ k < n` — for *every* generator
state (including sums that wrap around and the outputs 0, 2^63−1, 2^63, 2^64−1). -/
theorem C18_intn_range (s0 s1 n : BitVec 64) (hn : BitVec.slt 0#64 n = true) :
    ∃ k a b, intn s0 s1 n = some (k, a, b) ∧ 0 ≤ k.toInt ∧ k.toInt < n.toInt := by
  have h1 : n.toNat < 2^63 ∧ 0 < n.toNat := by
    simp only [BitVec.slt, BitVec.toInt_eq_toNat_cond] at hn
    simp at hn
    omega
  have hsle : BitVec.sle n 0#64 = false := by
    simp only [BitVec.sle, BitVec.toInt_eq_toNat_cond]
    simp
    omega
  unfold intn
  simp only [hsle, Bool.false_eq_true, if_false]
  refine ⟨_, _, _, rfl, ?_⟩
  have h2 : ∀ v : BitVec 64, (v % n).toNat < n.toNat := by
    intro v; rw [BitVec.toNat_umod]; exact Nat.mod_lt _ h1.2
  have := h2 (generateAndAdvance s0 s1).1
  simp only [BitVec.toInt_eq_toNat_cond]
  omega

theorem wrap64_id (x : Int) (h1 : -2^63 ≤ x) (h2 : x < 2^63) : wrap64 x = x := by
  unfold wrap64; omega

/-- what the hypotheses of the statement buy: the second draw and both sums stay inside `int64` -/
theorem no_wrap (c : Cfg) (k iv : Int) (hd : c.maxDelta ≤ maxDeltaLimit) (hlo : 0 ≤ k) (hhi : k < c.maxDelta)
    (h0 : 0 ≤ iv) (h1 : iv ≤ intervalLimit) :
    wrap64 (iv + wrap64 ((k + 1) * second)) = iv + (k + 1) * second := by
  simp only [maxDeltaLimit, intervalLimit, second] at *
  rw [wrap64_id ((k + 1) * 1000000000) (by omega) (by omega)]
  exact wrap64_id _ (by omega) (by omega)

/-- Full statement: with a configuration `checkConfig` accepts, and configured intervals that leave
room for the largest accepted delta (`intervalLimit`, about 224 years), every announce gets
`interval + d` seconds with `d = 0 ∨ 1 ≤ d ≤ max_increase_delta` — computed in `int64` as the code
does; min interval follows by the same `d` iff configured. `d` is a function of infohash, peer ID and
configuration only (`handle` is a function). -/
def C18_Statement : Prop :=
  ∀ (c : Cfg) (ih pid : Bytes) (iv miv : Int), checkConfig c = true →
    0 ≤ iv → iv ≤ intervalLimit → 0 ≤ miv → miv ≤ intervalLimit →
    ∃ d : Int, (d = 0 ∨ (1 ≤ d ∧ d ≤ c.maxDelta)) ∧
      handle c ih pid iv miv = some (iv + d * second, if c.modifyMin then miv + d * second else miv)

theorem C18_interval : C18_Statement := by
  intro c ih pid iv miv hc hiv0 hiv1 hmiv0 hmiv1
  simp only [checkConfig, Bool.and_eq_true, decide_eq_true_eq] at hc
  obtain ⟨⟨⟨hp0, hp1⟩, hd⟩, hdl⟩ := hc
  have hmax : c.maxDelta < 2^63 := by simp only [maxDeltaLimit] at hdl; omega
  unfold handle
  obtain ⟨k, a, b, hk, _, _⟩ := C18_intn_range (deriveEntropyFromRequest ih pid).1
    (deriveEntropyFromRequest ih pid).2 (BitVec.ofNat 64 (2^24)) (by decide)
  simp only [hk]
  split
  · -- modified
    have hm : (BitVec.ofNat 64 c.maxDelta.toNat).toInt = c.maxDelta := by
      simp only [BitVec.toInt_eq_toNat_cond, BitVec.toNat_ofNat]
      have : c.maxDelta.toNat % 2^64 = c.maxDelta.toNat := Nat.mod_eq_of_lt (by omega)
      rw [this]
      omega
    have hpos : BitVec.slt 0#64 (BitVec.ofNat 64 c.maxDelta.toNat) = true := by
      simp only [BitVec.slt, hm]
      simp
      omega
    obtain ⟨k2, a2, b2, hk2, hlo, hhi⟩ := C18_intn_range a b (BitVec.ofNat 64 c.maxDelta.toNat) hpos
    simp only [hk2]
    rw [hm] at hhi
    refine ⟨k2.toInt + 1, Or.inr ⟨by omega, by omega⟩, ?_⟩
    rw [no_wrap c k2.toInt iv hdl hlo hhi hiv0 hiv1, no_wrap c k2.toInt miv hdl hlo hhi hmiv0 hmiv1]
  · exact ⟨0, Or.inl rfl, by simp⟩

/-- the first draw is `(s0 + s1) mod 2^24` of the request-derived state -/
theorem firstDraw (s0 s1 : BitVec 64) :
    intn s0 s1 (BitVec.ofNat 64 (2^24)) =
      some ((s0 + s1) % BitVec.ofNat 64 (2^24), (generateAndAdvance s0 s1).2.1, (generateAndAdvance s0 s1).2.2) := by
  unfold intn generateAndAdvance
  simp

/-- Which requests are modified: exactly those whose first draw `r = (s0+s1) mod 2^24`
satisfies `r/2^24 < p` (or all, when `p = 1`): otherwise the response is untouched … -/
theorem C18_unmodified (c : Cfg) (ih pid : Bytes) (iv miv : Int) :
    let s := deriveEntropyFromRequest ih pid
    let r := ((s.1 + s.2) % BitVec.ofNat 64 (2^24)).toInt
    ¬ (c.pn = (c.pd : Int) ∨ r * (c.pd : Int) < c.pn * 2^24) → handle c ih pid iv miv = some (iv, miv) := by
  intro s r h
  unfold handle
  simp only [firstDraw]
  split
  · rename_i h'; exact absurd h' h
  · rfl

/-- … and if it does, the interval grows by at least one second (and at most the bound). -/
theorem C18_modified (c : Cfg) (ih pid : Bytes) (iv miv : Int) (hc : checkConfig c = true)
    (hiv0 : 0 ≤ iv) (hiv1 : iv ≤ intervalLimit) (hmiv0 : 0 ≤ miv) (hmiv1 : miv ≤ intervalLimit) :
    let s := deriveEntropyFromRequest ih pid
    let r := ((s.1 + s.2) % BitVec.ofNat 64 (2^24)).toInt
    (c.pn = (c.pd : Int) ∨ r * (c.pd : Int) < c.pn * 2^24) →
      ∃ d : Int, 1 ≤ d ∧ d ≤ c.maxDelta ∧
        handle c ih pid iv miv = some (iv + d * second, if c.modifyMin then miv + d * second else miv) := by
  intro s r h
  simp only [checkConfig, Bool.and_eq_true, decide_eq_true_eq] at hc
  obtain ⟨⟨⟨hp0, hp1⟩, hd⟩, hdl⟩ := hc
  have hmax : c.maxDelta < 2^63 := by simp only [maxDeltaLimit] at hdl; omega
  unfold handle
  simp only [firstDraw]
  rw [if_pos h]
  have hm : (BitVec.ofNat 64 c.maxDelta.toNat).toInt = c.maxDelta := by
    simp only [BitVec.toInt_eq_toNat_cond, BitVec.toNat_ofNat]
    have : c.maxDelta.toNat % 2^64 = c.maxDelta.toNat := Nat.mod_eq_of_lt (by omega)
    rw [this]
    omega
  have hpos : BitVec.slt 0#64 (BitVec.ofNat 64 c.maxDelta.toNat) = true := by
    simp only [BitVec.slt, hm]
    simp
    omega
  obtain ⟨k2, a2, b2, hk2, hlo, hhi⟩ := C18_intn_range (generateAndAdvance s.1 s.2).2.1
    (generateAndAdvance s.1 s.2).2.2 (BitVec.ofNat 64 c.maxDelta.toNat) hpos
  simp only [s] at hk2
  simp only [hk2]
  rw [hm] at hhi
  refine ⟨k2.toInt + 1, by omega, by omega, ?_⟩
  rw [no_wrap c k2.toInt iv hdl hlo hhi hiv0 hiv1, no_wrap c k2.toInt miv hdl hlo hhi hmiv0 hmiv1]

/-- Across clients: for a fixed peer-derived half of the state, the first draw hits every
64-bit value exactly once as the infohash-derived half ranges over all values, so each residue
mod 2^24 is equally frequent and the modified fraction is ⌈p·2^24⌉ / 2^24.
(`_partial`: the cardinality statement itself is not formalised; what is proved is the
bijection it follows from.) -/
theorem C18_fraction_partial (s1 t : BitVec 64) : ∃ s0 : BitVec 64, s0 + s1 = t ∧ ∀ s0', s0' + s1 = t → s0' = s0 := by
  refine ⟨t - s1, by simp [BitVec.sub_add_cancel], ?_⟩
  intro s0' h
  rw [← h]; simp [BitVec.add_sub_cancel]

/-- `checkConfig` accepts iff `0 < p ≤ 1 ∧ 0 < max_increase_delta ≤ math.MaxInt32` -/
theorem C18_checkConfig (c : Cfg) :
    checkConfig c = true ↔ (0 < c.pn ∧ c.pn ≤ (c.pd : Int)) ∧ 0 < c.maxDelta ∧ c.maxDelta ≤ 2147483647 := by
  unfold checkConfig maxDeltaLimit
  simp only [Bool.and_eq_true, decide_eq_true_eq, and_assoc]

/-- **D29, why the upper bound is there**: whatever `max_increase_delta` above 9223372035 the old
`checkConfig` let through, a second draw at the top of its range makes the added duration wrap around
`int64` — the "interval plus d seconds" comes out shorter than the interval (here: a delta of 10^10,
a draw of 9223372036, thirty minutes become a negative duration). With the bound no draw does
(`no_wrap`). -/
theorem D29_unbounded_delta_wraps :
    checkConfigPreD29 { pn := 1, pd := 1, maxDelta := 10000000000, modifyMin := false } = true ∧
    wrap64 (1800 * second + wrap64 ((9223372036 + 1) * second)) < 0 := by
  decide

/-- non-vacuity: a configuration and intervals satisfying the hypotheses -/
example : checkConfig { pn := 1, pd := 2, maxDelta := 60, modifyMin := true } = true ∧
    (0 : Int) ≤ 1800 * second ∧ 1800 * second ≤ intervalLimit := by
  decide

end VarInterval
