import Chihaya.Lemmas.Slice
/-!
# C07 — UDP (BEP 15/41) request parsing is total and faithful to the packet

Specification side: client-side packet builders written from BEP 15 (announce, opentracker IPv6
announce) and BEP 41 (options). The parser model is total (`Except`), the theorems say it
reads back exactly what a client wrote, and rejects what is truncated or inconsistent.
-/
set_option linter.unusedSimpArgs false
namespace Udp
open Bytes

structure AnnFields where
  connID : Bytes
  tx : Bytes
  ih : Bytes
  pid : Bytes
  dl : Nat
  left : Nat
  ul : Nat
  evCode : Nat
  ipField : Bytes
  key : Nat
  nw : Nat
  port : Nat

/-- BEP 15 announce request (action 1: 4-byte IP field; action 4: 16-byte IP field) -/
def buildAnnounce (action : Nat) (f : AnnFields) : Bytes :=
  f.connID ++ (be32 action ++ (f.tx ++ (f.ih ++ (f.pid ++ (be64 f.dl ++ (be64 f.left ++ (be64 f.ul ++
    (be32 f.evCode ++ (f.ipField ++ (be32 f.key ++ (be32 f.nw ++ be16 f.port)))))))))))

def AnnFields.WF (v6 : Bool) (f : AnnFields) : Prop :=
  f.connID.length = 8 ∧ f.tx.length = 4 ∧ f.ih.length = 20 ∧ f.pid.length = 20 ∧
  f.dl < 2^64 ∧ f.left < 2^64 ∧ f.ul < 2^64 ∧ f.evCode < 2^32 ∧ f.ipField.length = (if v6 then 16 else 4) ∧
  f.nw < 2^32 ∧ f.port < 2^16

theorem toNatBE_be32_lt (n : Nat) (h : n < 2^32) : toNatBE (be32 n) = n := by
  rw [toNatBE_be32', Nat.mod_eq_of_lt h]
theorem toNatBE_be64_lt (n : Nat) (h : n < 2^64) : toNatBE (be64 n) = n := by
  rw [toNatBE_be64, Nat.mod_eq_of_lt h]
theorem toNatBE_be16_lt (n : Nat) (h : n < 2^16) : toNatBE (be16 n) = n := by
  rw [toNatBE_be16, Nat.mod_eq_of_lt h]

/-- Round trip, action 1 and action 4: every field is read at the offset BEP 15 defines (the event
through the code table over the whole 32-bit field, numwant and port *after* the IP field, the key
skipped), the options are handed to the BEP 41 reader, and the request is then sanitised. -/
theorem C07_parse_build (lower : Bytes → Bytes) (v6 : Bool) (f : AnnFields) (hf : f.WF v6) (optBytes src : Bytes) (opts : ParseOpts) :
    parseAnnounce lower (buildAnnounce (if v6 then 4 else 1) f ++ optBytes) src v6 opts =
      (match eventOfCode f.evCode with
       | none => .error errMalformedEvent
       | some ev =>
         let ipsel := if opts.allowIPSpoofing && !allZero f.ipField then (f.ipField, true) else (src, false)
         if ipsel.1.isEmpty then .error errMalformedIP else
         match handleOptionalParameters lower optBytes with
         | .error e => .error e
         | .ok params =>
           Sanitize.announce
             { event := ev, eventProvided := true, infoHash := f.ih, compact := false, numWantProvided := f.nw != 4294967295,
               ipProvided := ipsel.2, numWant := f.nw, left := f.left, downloaded := f.dl, uploaded := f.ul,
               peer := { id := f.pid, port := f.port, ip := ipsel.1, fam := .v4 }, params := params }
             opts.maxNumWant opts.defaultNumWant) := by
  obtain ⟨h1, h2, h3, h4, h5, h6, h7, h8, h9, h10, h11⟩ := hf
  cases v6
  · -- action 1
    simp only [if_false, Bool.false_eq_true] at h9 ⊢
    have hlen : ¬ (buildAnnounce 1 f ++ optBytes).length < 84 + 4 + 10 := by
      simp [buildAnnounce, h1, h2, h3, h4, h9]; omega
    unfold parseAnnounce
    simp only [if_false, Bool.false_eq_true, hlen, bind, Except.bind, pure, Except.pure]
    have s_ev : slice (buildAnnounce 1 f ++ optBytes) 80 84 = be32 f.evCode := by
      simp [buildAnnounce, slice_append_ge, slice_append_prefix, h1, h2, h3, h4, h9]
    have s_ip : slice (buildAnnounce 1 f ++ optBytes) 84 (84 + 4) = f.ipField := by
      simp [buildAnnounce, slice_append_ge, slice_append_prefix, h1, h2, h3, h4, h9]
    have s_ih : slice (buildAnnounce 1 f ++ optBytes) 16 36 = f.ih := by
      simp [buildAnnounce, slice_append_ge, slice_append_prefix, h1, h2, h3, h4, h9]
    have s_pid : slice (buildAnnounce 1 f ++ optBytes) 36 56 = f.pid := by
      simp [buildAnnounce, slice_append_ge, slice_append_prefix, h1, h2, h3, h4, h9]
    have s_dl : slice (buildAnnounce 1 f ++ optBytes) 56 64 = be64 f.dl := by
      simp [buildAnnounce, slice_append_ge, slice_append_prefix, h1, h2, h3, h4, h9]
    have s_left : slice (buildAnnounce 1 f ++ optBytes) 64 72 = be64 f.left := by
      simp [buildAnnounce, slice_append_ge, slice_append_prefix, h1, h2, h3, h4, h9]
    have s_ul : slice (buildAnnounce 1 f ++ optBytes) 72 80 = be64 f.ul := by
      simp [buildAnnounce, slice_append_ge, slice_append_prefix, h1, h2, h3, h4, h9]
    have s_nw : slice (buildAnnounce 1 f ++ optBytes) (84 + 4 + 4) (84 + 4 + 8) = be32 f.nw := by
      simp [buildAnnounce, slice_append_ge, slice_append_prefix, h1, h2, h3, h4, h9]
    have s_port : slice (buildAnnounce 1 f ++ optBytes) (84 + 4 + 8) (84 + 4 + 10) = be16 f.port := by
      simp [buildAnnounce, slice_append_ge, slice_append_prefix, h1, h2, h3, h4, h9]
    have s_opt : List.drop (84 + 4 + 10) (buildAnnounce 1 f ++ optBytes) = optBytes := by
      apply List.drop_left'
      simp [buildAnnounce, h1, h2, h3, h4, h9]
    rw [s_ev, s_ip, s_ih, s_pid, s_dl, s_left, s_ul, s_nw, s_port, s_opt,
      toNatBE_be32_lt _ h8, toNatBE_be32_lt _ h10, toNatBE_be64_lt _ h5, toNatBE_be64_lt _ h6, toNatBE_be64_lt _ h7, toNatBE_be16_lt _ h11]
    generalize handleOptionalParameters lower optBytes = hop
    cases eventOfCode f.evCode with
    | none => rfl
    | some ev =>
      simp only [throw, throwThe, MonadExceptOf.throw]
      cases hop <;> split <;> (try split) <;> rfl
  · -- action 4 (opentracker IPv6 layout)
    simp only [if_true] at h9 ⊢
    have hlen : ¬ (buildAnnounce 4 f ++ optBytes).length < 84 + 16 + 10 := by
      simp [buildAnnounce, h1, h2, h3, h4, h9]; omega
    unfold parseAnnounce
    simp only [if_true, hlen, if_false, bind, Except.bind, pure, Except.pure]
    have s_ev : slice (buildAnnounce 4 f ++ optBytes) 80 84 = be32 f.evCode := by
      simp [buildAnnounce, slice_append_ge, slice_append_prefix, h1, h2, h3, h4, h9]
    have s_ip : slice (buildAnnounce 4 f ++ optBytes) 84 (84 + 16) = f.ipField := by
      simp [buildAnnounce, slice_append_ge, slice_append_prefix, h1, h2, h3, h4, h9]
    have s_ih : slice (buildAnnounce 4 f ++ optBytes) 16 36 = f.ih := by
      simp [buildAnnounce, slice_append_ge, slice_append_prefix, h1, h2, h3, h4, h9]
    have s_pid : slice (buildAnnounce 4 f ++ optBytes) 36 56 = f.pid := by
      simp [buildAnnounce, slice_append_ge, slice_append_prefix, h1, h2, h3, h4, h9]
    have s_dl : slice (buildAnnounce 4 f ++ optBytes) 56 64 = be64 f.dl := by
      simp [buildAnnounce, slice_append_ge, slice_append_prefix, h1, h2, h3, h4, h9]
    have s_left : slice (buildAnnounce 4 f ++ optBytes) 64 72 = be64 f.left := by
      simp [buildAnnounce, slice_append_ge, slice_append_prefix, h1, h2, h3, h4, h9]
    have s_ul : slice (buildAnnounce 4 f ++ optBytes) 72 80 = be64 f.ul := by
      simp [buildAnnounce, slice_append_ge, slice_append_prefix, h1, h2, h3, h4, h9]
    have s_nw : slice (buildAnnounce 4 f ++ optBytes) (84 + 16 + 4) (84 + 16 + 8) = be32 f.nw := by
      simp [buildAnnounce, slice_append_ge, slice_append_prefix, h1, h2, h3, h4, h9]
    have s_port : slice (buildAnnounce 4 f ++ optBytes) (84 + 16 + 8) (84 + 16 + 10) = be16 f.port := by
      simp [buildAnnounce, slice_append_ge, slice_append_prefix, h1, h2, h3, h4, h9]
    have s_opt : List.drop (84 + 16 + 10) (buildAnnounce 4 f ++ optBytes) = optBytes := by
      apply List.drop_left'
      simp [buildAnnounce, h1, h2, h3, h4, h9]
    rw [s_ev, s_ip, s_ih, s_pid, s_dl, s_left, s_ul, s_nw, s_port, s_opt,
      toNatBE_be32_lt _ h8, toNatBE_be32_lt _ h10, toNatBE_be64_lt _ h5, toNatBE_be64_lt _ h6, toNatBE_be64_lt _ h7, toNatBE_be16_lt _ h11]
    generalize handleOptionalParameters lower optBytes = hop
    cases eventOfCode f.evCode with
    | none => rfl
    | some ev =>
      simp only [throw, throwThe, MonadExceptOf.throw]
      cases hop <;> split <;> (try split) <;> rfl

/-- the BEP 15 event code table, over the whole 32-bit field -/
theorem C07_event_table (c : Nat) :
    eventOfCode c = (if c = 0 then some .none else if c = 1 then some .completed else if c = 2 then some .started
      else if c = 3 then some .stopped else none) := by
  match c with
  | 0 => rfl
  | 1 => rfl
  | 2 => rfl
  | 3 => rfl
  | n+4 => simp [eventOfCode]

/-- truncated announces are rejected, never partially interpreted -/
theorem C07_short_announce (lower : Bytes → Bytes) (pkt src : Bytes) (v6 : Bool) (opts : ParseOpts)
    (h : pkt.length < 84 + (if v6 then 16 else 4) + 10) :
    parseAnnounce lower pkt src v6 opts = .error errMalformedPacket := by
  unfold parseAnnounce
  simp only [h, if_true, bind, Except.bind, throw, throwThe, MonadExceptOf.throw]

/-- scrapes: a body that is not a positive multiple of 20 bytes is rejected -/
theorem C07_scrape_reject (pkt src : Bytes) (opts : ParseOpts) (h : pkt.length < 36 ∨ (pkt.length - 16) % 20 ≠ 0) :
    parseScrape pkt src opts = .error errMalformedPacket := by
  unfold parseScrape
  rcases h with h | h
  · simp [h]
  · by_cases h36 : pkt.length < 36
    · simp [h36]
    · simp [h36, h]

theorem chunks20_flatten (ihs : List Bytes) (h : ∀ x ∈ ihs, x.length = 20) (n : Nat) (hn : ihs.length ≤ n) :
    chunks20 n ihs.flatten = ihs := by
  induction ihs generalizing n with
  | nil => cases n <;> simp [chunks20]
  | cons x xs ih =>
    have hx := h x List.mem_cons_self
    match n, hn with
    | n+1, hn =>
      simp only [chunks20, List.flatten_cons, List.length_append]
      have : ¬ (x.length + xs.flatten.length < 20) := by omega
      rw [if_neg this, List.take_append_of_le_length (by omega), List.take_of_length_le (by omega),
        List.drop_append_of_le_length (by omega), List.drop_of_length_le (by omega)]
      simp only [List.nil_append]
      rw [ih (fun y hy => h y (List.mem_cons_of_mem _ hy)) n (by simpa using hn)]

theorem flatten_length20 (ihs : List Bytes) (h : ∀ x ∈ ihs, x.length = 20) : ihs.flatten.length = ihs.length * 20 := by
  induction ihs with
  | nil => rfl
  | cons x xs ih =>
    simp only [List.flatten_cons, List.length_append, List.length_cons]
    rw [ih (fun y hy => h y (List.mem_cons_of_mem _ hy)), h x List.mem_cons_self]; omega

/-- scrapes: 16 header bytes followed by k ≥ 1 infohashes are read back in order (repeats included),
capped at the configured limit -/
theorem C07_scrape_build (hdr : Bytes) (ihs : List Bytes) (src : Bytes) (opts : ParseOpts) (f : Fam)
    (hh : hdr.length = 16) (hi : ∀ x ∈ ihs, x.length = 20) (hne : ihs ≠ []) (hs : Sanitize.famOf src = some f) :
    parseScrape (hdr ++ ihs.flatten) src opts =
      .ok { fam := f, infoHashes := ihs.take (if ihs.length > opts.maxScrapeInfoHashes then opts.maxScrapeInfoHashes else ihs.length), params := [] } := by
  have hl := flatten_length20 ihs hi
  have hpos : 0 < ihs.length := List.length_pos_iff.mpr hne
  unfold parseScrape
  have h1 : ¬ (hdr ++ ihs.flatten).length < 36 := by simp [hh, hl]; omega
  have hd : List.drop 16 (hdr ++ ihs.flatten) = ihs.flatten := List.drop_left' hh
  simp only [h1, if_false, hd, hl, Nat.mul_mod_left, ne_eq, not_true_eq_false]
  rw [chunks20_flatten ihs hi _ (by omega), hs]
  simp only [Sanitize.scrape]
  split
  · rfl
  · rename_i hle
    simp only [gt_iff_lt] at hle
    simp [List.take_of_length_le]

/-- packets shorter than a header are dropped silently, without touching the logic -/
theorem C07_short_silent (mac : Mac) (lower : Bytes → Bytes) (cfg : Cfg) (logic : Logic) (now : Int) (pkt src : Bytes)
    (h : pkt.length < 16) :
    handleRequest mac lower cfg logic now pkt src = { out := none, call := none, after := false } := by
  unfold handleRequest; simp [h]

/-- connects without the protocol magic are dropped silently -/
theorem C07_connect_no_magic (mac : Mac) (lower : Bytes → Bytes) (cfg : Cfg) (logic : Logic) (now : Int) (pkt src : Bytes)
    (hl : 16 ≤ pkt.length) (ha : toNatBE (slice pkt 8 12) = 0) (hm : slice pkt 0 8 ≠ initialConnectionID) :
    handleRequest mac lower cfg logic now pkt src = { out := none, call := none, after := false } := by
  unfold handleRequest
  have : ¬ pkt.length < 16 := by omega
  simp [this, ha, hm]

/-- unknown actions (with a valid connection ID) get an error and nothing else -/
theorem C07_unknown_action (mac : Mac) (lower : Bytes → Bytes) (cfg : Cfg) (logic : Logic) (now : Int) (pkt src : Bytes)
    (hl : 16 ≤ pkt.length) (ha : toNatBE (slice pkt 8 12) ∉ [0, 1, 2, 4])
    (hv : validate mac cfg.key (slice pkt 0 8) src now cfg.skewNs = true) :
    handleRequest mac lower cfg logic now pkt src =
      { out := some (writeError (slice pkt 12 16) errUnknownAction), call := none, after := false } := by
  unfold handleRequest
  have : ¬ pkt.length < 16 := by omega
  simp only [List.mem_cons, List.mem_nil_iff, or_false, not_or] at ha
  simp [this, ha.1, ha.2.1, ha.2.2.1, ha.2.2.2, hv]

/-! ## BEP 41 options -/

inductive Opt where
  | nop
  | url (d : Bytes)

def Opt.render : Opt → Bytes
  | .nop => [1]
  | .url d => 2 :: UInt8.ofNat d.length :: d

def Opt.data : Opt → Bytes
  | .nop => []
  | .url d => d

def Opt.ok : Opt → Prop
  | .nop => True
  | .url d => d.length ≤ 255

/-- URL data is reassembled from the URLData options in order, whatever the segmentation, with
NOPs anywhere; reading stops at EndOfOptions (bytes after it are ignored) or at the end. -/
theorem C07_options (os : List Opt) (hok : ∀ o ∈ os, o.ok) (tail acc : Bytes) (ht : tail = [] ∨ ∃ junk, tail = 0 :: junk)
    (fuel : Nat) (hfuel : os.length < fuel) :
    optionsLoop fuel (os.flatMap Opt.render ++ tail) acc = .ok (acc ++ os.flatMap Opt.data) := by
  induction os generalizing acc fuel with
  | nil =>
    match fuel, hfuel with
    | fuel+1, _ =>
      rcases ht with rfl | ⟨junk, rfl⟩
      · simp [optionsLoop]
      · simp [optionsLoop]
  | cons o rest ih =>
    match fuel, hfuel with
    | fuel+1, hfuel =>
      have hrest := ih (fun p hp => hok p (List.mem_cons_of_mem _ hp))
      have ho := hok o List.mem_cons_self
      cases o with
      | nop =>
        simp only [List.flatMap_cons, Opt.render, List.singleton_append, List.cons_append, List.nil_append, optionsLoop, Opt.data]
        have e1 : ((1 : UInt8) = 0) = False := by decide
        simp only [e1, if_false, if_true]
        rw [hrest acc fuel (by simpa using hfuel)]
      | url d =>
        simp only [Opt.ok] at ho
        simp only [List.flatMap_cons, Opt.render, List.cons_append, optionsLoop, Opt.data]
        have e1 : ((2 : UInt8) = 0) = False := by decide
        have e2 : ((2 : UInt8) = 1) = False := by decide
        simp only [e1, e2, if_false, if_true]
        have hlen : (UInt8.ofNat d.length).toNat = d.length := by
          simp [UInt8.toNat_ofNat']; omega
        rw [hlen]
        have hnot : ¬ (d ++ (rest.flatMap Opt.render ++ tail)).length < d.length := by simp
        rw [List.append_assoc] 
        rw [if_neg hnot, List.drop_left' rfl, List.take_left' rfl, hrest (acc ++ d) fuel (by simpa using hfuel)]
        simp [List.append_assoc]

/-- an unknown option type is rejected -/
theorem C07_option_unknown (fuel : Nat) (t : UInt8) (rest acc : Bytes) (ht : t ≠ 0 ∧ t ≠ 1 ∧ t ≠ 2) :
    optionsLoop (fuel+1) (t :: rest) acc = .error errUnknownOptionType := by
  simp [optionsLoop, ht.1, ht.2.1, ht.2.2]

/-- a URLData length byte running past the end of the packet (or missing) is rejected -/
theorem C07_option_overrun (fuel : Nat) (len : UInt8) (rest acc : Bytes) (h : rest.length < len.toNat) :
    optionsLoop (fuel+1) (2 :: len :: rest) acc = .error errMalformedPacket ∧
    optionsLoop (fuel+1) [2] acc = .error errMalformedPacket := by
  have e1 : ((2 : UInt8) = 0) = False := by decide
  have e2 : ((2 : UInt8) = 1) = False := by decide
  simp [optionsLoop, e1, e2, h]

/-- non-vacuity: a well-formed field record -/
example : AnnFields.WF false
    { connID := List.replicate 8 1, tx := [1,2,3,4], ih := List.replicate 20 7, pid := List.replicate 20 9,
      dl := 5, left := 0, ul := 2^64-1, evCode := 2, ipField := [0,0,0,0], key := 77, nw := 50, port := 6881 } := by
  simp [AnnFields.WF]

/-- **BEP 15 `num_want` (D23)**: the value -1 (`0xFFFFFFFF`) asks for the configured default; any other value is explicit
and capped at the configured maximum — this is what `C07_parse_build` hands to `SanitizeAnnounce` -/
theorem C07_numwant (nw mx df : Nat) :
    Sanitize.capNumWant (nw != 4294967295) nw mx df = if nw = 4294967295 then df else if nw > mx then mx else nw := by
  unfold Sanitize.capNumWant
  by_cases h : nw = 4294967295
  · simp [h]
  · simp [h]

end Udp
