import Chihaya.Lemmas.Slice
/-!
# C09 — UDP responses follow BEP 15 layout, echo the transaction, keep scrape order

The specification is a *client-side* decoder written from BEP 15; the theorems say that what it
reads from the bytes the tracker writes is exactly the computed answer.
-/
set_option linter.unusedSimpArgs false
namespace Udp
open Bytes

/-- `n` consecutive chunks of width `w` -/
def chunksW (w : Nat) : Nat → Bytes → List Bytes
  | 0, _ => []
  | n+1, b => b.take w :: chunksW w n (b.drop w)

structure AnnDecoded where
  action : Nat
  tx : Bytes
  interval : Nat
  leechers : Nat
  seeders : Nat
  peers : List (Bytes × Nat)       -- (address bytes, port)
  deriving DecidableEq, Repr

/-- BEP 15 client: announce response with peer entries of width `w` (6 for IPv4, 18 for IPv6) -/
def decodeAnnounce (w : Nat) (b : Bytes) : Option AnnDecoded :=
  if b.length < 20 ∨ (b.length - 20) % w ≠ 0 then none
  else some { action := toNatBE (slice b 0 4), tx := slice b 4 8, interval := toNatBE (slice b 8 12),
              leechers := toNatBE (slice b 12 16), seeders := toNatBE (slice b 16 20),
              peers := (chunksW w ((b.length - 20) / w) (b.drop 20)).map fun c => (c.take (w - 2), toNatBE (c.drop (w - 2))) }

/-- BEP 15 client: scrape response = (action, tx, [(seeders, completed, leechers)]) -/
def decodeScrape (b : Bytes) : Option (Nat × Bytes × List (Nat × Nat × Nat)) :=
  if b.length < 8 ∨ (b.length - 8) % 12 ≠ 0 then none
  else some (toNatBE (slice b 0 4), slice b 4 8,
    (chunksW 12 ((b.length - 8) / 12) (b.drop 8)).map fun c => (toNatBE (slice c 0 4), toNatBE (slice c 4 8), toNatBE (slice c 8 12)))

/-- BEP 15 client: error response = (action, tx, message without the terminating NUL) -/
def decodeError (b : Bytes) : Option (Nat × Bytes × Bytes) :=
  if b.length < 9 ∨ b.getLast? ≠ some 0 then none
  else some (toNatBE (slice b 0 4), slice b 4 8, (b.drop 8).dropLast)

theorem chunksW_flatMap {α : Type} (w : Nat) (f : α → Bytes) (l : List α) (hw : ∀ x ∈ l, (f x).length = w) :
    chunksW w l.length (l.flatMap f) = l.map f := by
  induction l with
  | nil => rfl
  | cons x xs ih =>
    have hx := hw x List.mem_cons_self
    simp only [List.length_cons, chunksW, List.flatMap_cons, List.map_cons]
    rw [List.take_append_of_le_length (by omega), List.take_of_length_le (by omega),
      List.drop_append_of_le_length (by omega), List.drop_of_length_le (by omega)]
    simp only [List.nil_append]
    rw [ih (fun y hy => hw y (List.mem_cons_of_mem _ hy))]

theorem flatMap_length_const {α : Type} (w : Nat) (f : α → Bytes) (l : List α) (hw : ∀ x ∈ l, (f x).length = w) :
    (l.flatMap f).length = l.length * w := by
  induction l with
  | nil => simp
  | cons x xs ih =>
    simp only [List.flatMap_cons, List.length_append, List.length_cons]
    rw [ih (fun y hy => hw y (List.mem_cons_of_mem _ hy)), hw x List.mem_cons_self, Nat.add_mul]; omega

/-- Announce responses: action matching the request (1, or 4 for the opentracker IPv6 action), the
request's transaction ID, interval (seconds, as uint32), leechers, seeders, then exactly the peers
of the requester's family as fixed-size entries (address ‖ big-endian port), in order. -/
theorem C09_announce (w : Nat) (tx : Bytes) (r : AnnResp) (v6a v6p : Bool) (htx : tx.length = 4) (hw : 0 < w)
    (hp : ∀ p ∈ (wirePeers r v6p), p.ip.length + 2 = w) :
    decodeAnnounce w (writeAnnounce tx r v6a v6p) =
      some { action := if v6a then 4 else 1, tx := tx,
             interval := ((Int.tdiv r.interval 1000000000) % 2^32).toNat, leechers := r.incomplete % 2^32, seeders := r.complete % 2^32,
             peers := (wirePeers r v6p).map fun p => (p.ip, p.port % 2^16) } := by
  have hpb : ∀ p ∈ (wirePeers r v6p), (peerBytes p).length = w := by
    intro p hpm; have := hp p hpm; simp [peerBytes]; omega
  have hlen := flatMap_length_const w peerBytes _ hpb
  have hiv : ((Int.tdiv r.interval 1000000000) % 2^32).toNat < 2^32 := by
    have : (Int.tdiv r.interval 1000000000) % 2^32 < 2^32 := Int.emod_lt_of_pos _ (by decide)
    have : 0 ≤ (Int.tdiv r.interval 1000000000) % 2^32 := Int.emod_nonneg _ (by decide)
    omega
  unfold decodeAnnounce writeAnnounce header
  simp only [List.append_assoc, List.length_append, be32_length, htx, hlen]
  have h1 : ¬ (4 + (4 + (4 + (4 + (4 + (wirePeers r v6p).length * w)))) < 20 ∨
      (4 + (4 + (4 + (4 + (4 + (wirePeers r v6p).length * w)))) - 20) % w ≠ 0) := by
    intro h
    rcases h with h | h
    · omega
    · apply h
      have : 4 + (4 + (4 + (4 + (4 + (wirePeers r v6p).length * w)))) - 20 =
          (wirePeers r v6p).length * w := by omega
      rw [this]; exact Nat.mul_mod_left _ _
  rw [if_neg h1]
  have hq : (4 + (4 + (4 + (4 + (4 + (wirePeers r v6p).length * w)))) - 20) / w =
      (wirePeers r v6p).length := by
    have : 4 + (4 + (4 + (4 + (4 + (wirePeers r v6p).length * w)))) - 20 =
        (wirePeers r v6p).length * w := by omega
    rw [this]; exact Nat.mul_div_cancel _ hw
  rw [hq]
  simp only [slice_append_ge, slice_append_prefix, be32_length, htx, Nat.le_refl, Nat.sub_self, Nat.reduceSub, Nat.reduceLeDiff,
    Nat.zero_le, toNatBE_be32', Nat.mod_mod]
  have hdrop : List.drop 20 (be32 (if v6a = true then 4 else 1) ++ (tx ++ (be32 ((Int.tdiv r.interval 1000000000) % 2^32).toNat ++
      (be32 (r.incomplete % 2^32) ++ (be32 (r.complete % 2^32) ++ List.flatMap peerBytes (wirePeers r v6p))))))
      = List.flatMap peerBytes (wirePeers r v6p) := by
    rw [← List.append_assoc, ← List.append_assoc, ← List.append_assoc, ← List.append_assoc]
    apply List.drop_left'
    simp [htx]
  rw [hdrop, chunksW_flatMap w peerBytes _ hpb]
  simp only [Option.some.injEq, AnnDecoded.mk.injEq]
  refine ⟨?_, trivial, ?_, trivial, trivial, ?_⟩
  · cases v6a <;> simp
  · exact Nat.mod_eq_of_lt hiv
  · rw [List.map_map]
    apply List.map_congr_left
    intro p hpm
    have := hp p hpm
    simp only [Function.comp, peerBytes]
    rw [List.take_append_of_le_length (by omega), List.take_of_length_le (by omega),
      List.drop_append_of_le_length (by omega), List.drop_of_length_le (by omega)]
    simp [toNatBE_be16]

/-- D31: the entries have their family's fixed size whatever form the response value holds the
addresses in — an IPv4 peer given as 4 bytes or as the 16-byte IPv4-mapped form is a 4-byte address
on the wire, an IPv6-list peer given as 16 (or 4) bytes a 16-byte one -/
theorem entryIP_length (v6 : Bool) (ip : Bytes)
    (h : if v6 then ip.length = 4 ∨ ip.length = 16 else Sanitize.to4 ip ≠ none) :
    (entryIP v6 ip).length = if v6 then 16 else 4 := by
  unfold entryIP
  cases v6
  · simp only [Bool.false_eq_true, if_false] at h ⊢
    cases h4 : Sanitize.to4 ip with
    | none => exact absurd h4 h
    | some ip4 =>
      simp only
      unfold Sanitize.to4 at h4
      split at h4
      · rename_i hl; cases h4; exact hl
      · split at h4
        · rename_i hm; cases h4; simp [hm.1]
        · cases h4
  · simp only [if_true] at h ⊢
    rcases h with h | h
    · simp [h]
    · simp [h]

/-- D32: never more entries than one datagram holds -/
theorem wirePeers_length (r : AnnResp) (v6 : Bool) : (wirePeers r v6).length ≤ maxEntries v6 := by
  simp only [wirePeers, List.length_map, List.length_take]
  exact Nat.min_le_left _ _

/-- … and all of them when they fit -/
theorem wirePeers_all (r : AnnResp) (v6 : Bool) (h : (if v6 then r.v6peers else r.v4peers).length ≤ maxEntries v6) :
    wirePeers r v6 = (if v6 then r.v6peers else r.v4peers).map fun p => { p with ip := entryIP v6 p.ip } := by
  simp only [wirePeers, List.take_of_length_le h]

/-- **The announce response as a client reads it, for every response value** whose addresses have a
form of their list's family: action, transaction, interval, counts, and the peers of the requester's
family in order as 6-byte (18-byte) entries — all of them up to what one datagram holds — and the
datagram never exceeds the largest UDP payload, so it can always be sent (D32). -/
theorem C09_announce_wire (tx : Bytes) (r : AnnResp) (v6a v6p : Bool) (htx : tx.length = 4)
    (hp : ∀ p ∈ (if v6p then r.v6peers else r.v4peers), if v6p then p.ip.length = 4 ∨ p.ip.length = 16 else Sanitize.to4 p.ip ≠ none) :
    decodeAnnounce (if v6p then 18 else 6) (writeAnnounce tx r v6a v6p) =
      some { action := if v6a then 4 else 1, tx := tx,
             interval := ((Int.tdiv r.interval 1000000000) % 2^32).toNat, leechers := r.incomplete % 2^32, seeders := r.complete % 2^32,
             peers := (wirePeers r v6p).map fun p => (p.ip, p.port % 2^16) } ∧
    (writeAnnounce tx r v6a v6p).length ≤ maxPayload := by
  have hw : ∀ p ∈ wirePeers r v6p, p.ip.length + 2 = (if v6p then 18 else 6) := by
    intro p hpm
    simp only [wirePeers, List.mem_map] at hpm
    obtain ⟨q, hq, rfl⟩ := hpm
    have := entryIP_length v6p q.ip (hp q (List.mem_of_mem_take hq))
    simp only [this]
    cases v6p <;> rfl
  refine ⟨C09_announce _ tx r v6a v6p htx (by cases v6p <;> decide) hw, ?_⟩
  have hpb : ∀ p ∈ wirePeers r v6p, (peerBytes p).length = (if v6p then 18 else 6) := by
    intro p hpm; have := hw p hpm; simp [peerBytes]; omega
  have hlen := flatMap_length_const _ peerBytes _ hpb
  have hn := wirePeers_length r v6p
  unfold writeAnnounce header
  simp only [List.length_append, be32_length, htx, hlen]
  unfold maxEntries maxPayload at *
  cases v6p
  · simp only [Bool.false_eq_true, if_false] at *; omega
  · simp only [if_true] at *; omega

/-- Scrape responses: action 2, the transaction ID, then one (seeders, completed, leechers) triple
per entry of the response, in order (the response hook produces one entry per requested infohash in
request order, repeats included — see `Hooks.responseScrape` under C01/C12). -/
theorem C09_scrape (tx : Bytes) (r : ScrapeResp) (htx : tx.length = 4) :
    decodeScrape (writeScrape tx r) =
      some (2, tx, r.files.map fun s => (s.complete % 2^32, s.snatches % 2^32, s.incomplete % 2^32)) := by
  have hf : ∀ s ∈ r.files, (scrapeBytes s).length = 12 := by intro s _; simp [scrapeBytes]
  have hlen := flatMap_length_const 12 scrapeBytes r.files hf
  unfold decodeScrape writeScrape header
  simp only [List.append_assoc, List.length_append, be32_length, htx, hlen]
  have h1 : ¬ (4 + (4 + r.files.length * 12) < 8 ∨ (4 + (4 + r.files.length * 12) - 8) % 12 ≠ 0) := by
    intro h; rcases h with h | h
    · omega
    · apply h; have : 4 + (4 + r.files.length * 12) - 8 = r.files.length * 12 := by omega
      rw [this]; exact Nat.mul_mod_left _ _
  rw [if_neg h1]
  have hq : (4 + (4 + r.files.length * 12) - 8) / 12 = r.files.length := by
    have : 4 + (4 + r.files.length * 12) - 8 = r.files.length * 12 := by omega
    rw [this]; exact Nat.mul_div_cancel _ (by decide)
  rw [hq]
  have hdrop : List.drop 8 (be32 2 ++ (tx ++ List.flatMap scrapeBytes r.files)) = List.flatMap scrapeBytes r.files := by
    rw [← List.append_assoc]; apply List.drop_left'; simp [htx]
  rw [hdrop, chunksW_flatMap 12 scrapeBytes _ hf]
  simp only [slice_append_ge, slice_append_prefix, be32_length, htx, Nat.le_refl, Nat.sub_self, Nat.reduceSub, Nat.reduceLeDiff,
    toNatBE_be32', Option.some.injEq, Prod.mk.injEq]
  refine ⟨by decide, ?_, ?_⟩
  · first | trivial | (rw [slice_exact]; simp [htx])
  · rw [List.map_map]
    apply List.map_congr_left
    intro s _
    simp only [Function.comp, scrapeBytes, List.append_assoc, slice_append_ge, slice_append_prefix, be32_length, Nat.le_refl, Nat.sub_self,
      Nat.reduceSub, Nat.reduceLeDiff, toNatBE_be32', Nat.mod_mod]
    rw [slice_exact _ _ (by simp)]
    simp [toNatBE_be32']

theorem decodeError_msg (tx m : Bytes) (htx : tx.length = 4) :
    decodeError (header 3 tx ++ m ++ [0]) = some (3, tx, m) := by
  unfold decodeError header
  have hlen : ¬ ((be32 3 ++ tx ++ m ++ [0]).length < 9 ∨ (be32 3 ++ tx ++ m ++ [0]).getLast? ≠ some 0) := by
    intro h; rcases h with h | h
    · simp [htx] at h; omega
    · exact h (by simp)
  rw [if_neg hlen]
  simp only [List.append_assoc, slice_append_ge, slice_append_prefix, be32_length, htx, Nat.le_refl, Nat.sub_self, Nat.reduceSub,
    Nat.reduceLeDiff, toNatBE_be32', Option.some.injEq, Prod.mk.injEq]
  refine ⟨by decide, ?_, ?_⟩
  · first | trivial | simp [slice_append_prefix, htx]
  · rw [← List.append_assoc, List.drop_left' (by simp [htx])]
    simp

/-- Error responses: action 3, the transaction ID, the message, a terminating NUL. A client error
carries its own message; anything else carries one fixed message — the datagram is the same for
every internal error (no detail can leak). -/
theorem C09_error (tx : Bytes) (e : ErrClass) (htx : tx.length = 4) :
    decodeError (writeError tx e) =
      some (3, tx, match e with | .client m => Bytes.ofString m | .internal _ => genericInternal) := by
  cases e <;> exact decodeError_msg tx _ htx

theorem C09_internal_errors_indistinguishable (tx : Bytes) (m1 m2 : String) :
    writeError tx (.internal m1) = writeError tx (.internal m2) := rfl

/-- Every response `handleRequest` sends echoes the request's transaction ID (bytes 12..16). -/
theorem C09_echo_tx (mac : Mac) (lower : Bytes → Bytes) (cfg : Cfg) (logic : Logic) (now : Int) (pkt src b : Bytes)
    (h : (handleRequest mac lower cfg logic now pkt src).out = some b) :
    16 ≤ pkt.length ∧ slice b 4 8 = slice pkt 12 16 := by
  have key : ∀ (a : Nat) (rest : Bytes), 16 ≤ pkt.length → slice (header a (slice pkt 12 16) ++ rest) 4 8 = slice pkt 12 16 := by
    intro a rest hl
    have : (slice pkt 12 16).length = 4 := by rw [slice_length _ _ _ hl]
    unfold header
    simp [slice_append_ge, slice_append_prefix, this]
  unfold handleRequest at h
  by_cases hl : pkt.length < 16
  · simp [hl] at h
  · have hl' : 16 ≤ pkt.length := by omega
    refine ⟨hl', ?_⟩
    simp only [hl, if_false] at h
    have kE : ∀ e, slice (writeError (slice pkt 12 16) e) 4 8 = slice pkt 12 16 := by
      intro e; unfold writeError; rw [List.append_assoc]; exact key 3 _ hl'
    split at h
    · cases h; exact kE _
    · split at h
      · split at h
        · cases h
        · split at h
          · cases h
          · cases h; unfold writeConnectionID; exact key 0 _ hl'
      · split at h
        · split at h
          · cases h; exact kE _
          · split at h
            · cases h; exact kE _
            · cases h; unfold writeAnnounce
              simp only [List.append_assoc]
              exact key _ _ hl'
        · split at h
          · split at h
            · cases h
            · cases h; exact kE _
            · split at h
              · cases h; exact kE _
              · cases h; unfold writeScrape; exact key 2 _ hl'
          · cases h; exact kE _

end Udp
