import Chihaya.Driver.Proto
import Chihaya.Driver.DStore
import Chihaya.Driver.DHttpParse
import Chihaya.Driver.DUdp
import Chihaya.Driver.DBencode
import Chihaya.Model.Tracker
open Proto Logic

/-! Stateful driver operations on the whole request path (`trk.*`). -/
namespace DTracker

def annHookOf (code : String) : AnnHook := fun ctx req resp =>
  match code with
  | "Rc" => .error (.client "rejected by hook")
  | "Ri" => .error (.internal "hook failed")
  | "Ss" => .ok ({ ctx with skipSwarmInteraction := true }, resp)
  | "Sr" => .ok ({ ctx with skipResponse := true }, resp)
  | "M" => .ok (ctx, { resp with interval := resp.interval + 1000000000 })
  | "T" => .ok ({ ctx with tags := 1 :: ctx.tags }, resp)
  | _ => let _ := req; .ok (ctx, resp)

def scrHookOf (code : String) : ScrHook := fun ctx _ resp =>
  match code with
  | "Rc" => .error (.client "rejected by hook")
  | "Ri" => .error (.internal "hook failed")
  | "Sr" => .ok ({ ctx with skipResponse := true }, resp)
  | "T" => .ok ({ ctx with tags := 1 :: ctx.tags }, resp)
  | _ => .ok (ctx, resp)

def codes (s : String) : List String := if s == "-" || s == "" then [] else s.splitOn ","

def hooksOf (l : Line) : Tracker.Hooks :=
  let pre := codes (l.get "pre")
  let post := codes (l.get "post")
  { preAnn := pre.map annHookOf, postAnn := post.map annHookOf, preScr := pre.map scrHookOf, postScr := post.map scrHookOf }

def logStr (l : List Nat) : String := "[" ++ ",".intercalate (l.map toString) ++ "]"

/-- the store interface of the current driver state (memory or Redis model) at its clock -/
def opsOf (st : DStore.DState) : StoreOps DStore.DState where
  putSeeder s ih p := DStore.putSeeder s ih p
  putLeecher s ih p := DStore.putLeecher s ih p
  graduate s ih p := DStore.graduate s ih p
  deleteSeeder s ih p := DStore.deleteSeeder s ih p
  deleteLeecher s ih p := DStore.deleteLeecher s ih p
  scrape s ih f := DStore.scrape s ih f
  announcePeers s ih seeder nw p :=
    (DStore.swarm? s ih p.fam).map fun sw => (MemStore.selectPeers sw seeder nw (MemStore.peerKey p)).map (Logic.decodePeerKey p.fam)
  down s := s.down
where _unused := st

def cfgOf (l : Line) : Except String Logic.Config := do
  pure { announceInterval := (← l.int "iv"), minAnnounceInterval := (← l.int "miv") }

def errCls : Option Bencode.BVal → String
  | some (.dict [(_, .str m)]) => if m == HttpWrite.genericInternal then "internal" else "client"
  | _ => "?"

def sameEndpoint (a b : Peer) : Bool := a.port % 2^16 == b.port % 2^16 && a.ip == b.ip

def annSummary (st st' : DStore.DState) (req : AnnReq) (resp : AnnResp) : String :=
  let pre := DStore.scrape st req.infoHash req.peer.fam
  let post := DStore.scrape st' req.infoHash req.peer.fam
  s!"c={resp.complete} i={resp.incomplete} iv={HttpWrite.seconds resp.interval} miv={HttpWrite.seconds resp.minInterval} n4={resp.v4peers.length} n6={resp.v6peers.length} " ++
  s!"pre={pre.1}/{pre.2} post={post.1}/{post.2}"

def handle (st : DStore.DState) (l : Line) : Option (DStore.DState × Except String String) :=
  match l.op with
  -- the chains of a Logic are the lists it was given followed by its own hook, bound to its own store (`Logic.handleAnnounce`,
  -- `Logic.afterAnnounce`: lists are values); D33: the Go slices they were built from shared a backing array
  | "trk.alias" => some (st, .ok "split_hooks=pre-1+post-1 spare_capacity=1 answered_from_own_store=1\talias")
  | "trk.http_announce" =>
    let r : Except String (DStore.DState × String) := do
      let opts ← DHttpParse.optsOf l
      let (env, _) ← DHttpParse.envOf l
      let uri ← l.bytes "uri"
      let cfg ← cfgOf l
      let hooks := hooksOf l
      let res := Tracker.httpAnnounce env opts cfg (opsOf st) hooks (fun _ => [63]) st uri
      if res.isError then
        pure (res.store, s!"err cls={errCls res.body} prelog={logStr res.preLog} postlog={logStr res.postLog}\t" ++
          (if res.preLog.isEmpty then "parse-reject" else "hook-reject"))
      else
        match res.req with
        | none => .error "no request"
        | some req =>
          -- recompute the response for the summary (same functions, same state)
          match handleAnnounce cfg (opsOf st) hooks.preAnn st req with
          | (_, .ok (_, resp)) =>
            let tag := "announce" ++ (if (codes (l.get "pre")).contains "Sr" then "+skipresp" else "") ++
              (if (codes (l.get "pre") ++ codes (l.get "post")).contains "Ss" then "+skipswarm" else "") ++
              (if res.postLog.length ≤ (codes (l.get "post")).length then "+postfail" else "")
            pure (res.store, s!"ok {annSummary st res.store req resp} prelog={logStr res.preLog} postlog={logStr res.postLog}\t{tag}")
          | _ => .error "inconsistent"
    match r with
    | .ok (s', o) => some (s', .ok o)
    | .error e => some (st, .error e)
  | "trk.http_scrape" =>
    let r : Except String (DStore.DState × String) := do
      let opts ← DHttpParse.optsOf l
      let (env, _) ← DHttpParse.envOf l
      let uri ← l.bytes "uri"
      let remoteOK ← l.bool "remoteok"
      let hooks := hooksOf l
      let res := Tracker.httpScrape env opts (opsOf st) hooks remoteOK st uri
      if res.isError then
        pure (st, s!"err cls={errCls res.body} prelog={logStr res.preLog} postlog={logStr res.postLog}\t" ++
          (if res.preLog.isEmpty then "parse-reject" else "hook-reject"))
      else
        match res.body with
        | some v => pure (st, s!"ok body={DBencode.canon v} prelog={logStr res.preLog} postlog={logStr res.postLog}\tscrape")
        | none => pure (st, "PANIC\tpanic")
    match r with
    | .ok (s', o) => some (s', .ok o)
    | .error e => some (st, .error e)
  | "trk.udp" =>
    let r : Except String (DStore.DState × String) := do
      let pkt ← l.bytes "pkt"
      let src ← l.bytes "src"
      let now ← l.int "now"
      let skew ← l.int "skew"
      let tag ← l.bytes "tag"
      let gtag ← l.bytes "gtag"
      let cfg ← cfgOf l
      let hooks := hooksOf l
      let vc := Gen.Validate.UDP.validate { PrivateKey_empty := false, MaxNumWant := (← l.nat "maxnw"), DefaultNumWant := (← l.nat "defnw"),
                                             MaxScrapeInfoHashes := (← l.nat "maxscrape"), MaxClockSkew := skew }
      let opts : ParseOpts := { allowIPSpoofing := (← l.bool "spoof"), realIPHeaderSet := false, maxNumWant := vc.MaxNumWant.toNat,
                                 defaultNumWant := vc.DefaultNumWant.toNat, maxScrapeInfoHashes := vc.MaxScrapeInfoHashes.toNat }
      let lower : Bytes → Bytes := Query.asciiLower   -- parseQuery lower-cases ASCII letters only (D27)
      let m1 := Udp.slice pkt 0 4 ++ src
      let m2 := Bytes.be32 ((now / 1000000000) % 2^32).toNat ++ src
      let mac : Udp.Mac := fun _ msg => if msg == m1 then tag ++ List.replicate 28 0 else if msg == m2 then gtag ++ List.replicate 28 0 else List.replicate 32 0
      let st0 := { st with clock := now }
      let res := Udp.handleRequest mac lower { key := [], skewNs := vc.MaxClockSkew, opts := opts } (Tracker.udpLogic cfg (opsOf st0) hooks st0) now pkt src
      if res.panic then return (st0, "PANIC\tpanic")
      let (st', plog0) := Tracker.udpStoreAfter cfg (opsOf st0) hooks st0 res
      let plog := match res.after, res.call with
        | true, some (.scrape req) =>
          (match handleScrape (opsOf st0) hooks.preScr st0 req with
           | (_, .ok _) => List.range (hooks.postScr.length + 1)   -- every post-hook runs, then the built-in one (D28)
           | _ => [])
        | _, _ => plog0
      let tx := Udp.slice pkt 12 16
      let out := match res.out with
        | none => "silent"
        | some b =>
          if Bytes.toNatBE (b.take 4) == 3 then DUdp.errCls b tx
          else match res.call with
            | some (.announce req) =>
              (match handleAnnounce cfg (opsOf st0) hooks.preAnn st0 req with
               | (_, .ok (_, resp)) => s!"ok a={Bytes.toNatBE (b.take 4)} tx={hex (b.drop 4 |>.take 4)} " ++ annSummary st0 st' req resp
               | _ => "inconsistent")
            | _ => s!"dgram={hex b}"
      let prelog := match res.call with
        | some (.announce req) => (handleAnnounce cfg (opsOf st0) hooks.preAnn st0 req).1
        | some (.scrape req) => (handleScrape (opsOf st0) hooks.preScr st0 req).1
        | none => []
      let tagc := match res.out, res.call with
        | none, _ => "silent"
        | some _, none => "reject"
        | some b, some _ => if Bytes.toNatBE (b.take 4) == 3 then "hook-reject" else "served"
      pure (st', s!"{out} prelog={logStr prelog} postlog={logStr plog}\t{tagc}")
    match r with
    | .ok (s', o) => some (s', .ok o)
    | .error e => some (st, .error e)
  | _ => none

end DTracker
