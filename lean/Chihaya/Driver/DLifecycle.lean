import Chihaya.Driver.Proto
import Chihaya.Model.Lifecycle
open Proto Lifecycle

namespace DLifecycle

/-- member spec: `n<k>` delivers k errors, `a` = AlreadyStopped, `z` = Done() without error -/
def memberErrs (i : Nat) (spec : String) : List String :=
  if spec.startsWith "n" then
    match (spec.drop 1).toString.toNat? with
    | some k => (List.range k).map fun j => s!"m{i}.e{j}"
    | none => []
  else []

def opGroup (l : Line) : Except String String := do
  let spec := l.get "members"
  let ms := if spec == "-" || spec == "" then [] else spec.splitOn ","
  let errs := groupStop (ms.zipIdx.map fun (m, i) => memberErrs i m)
  pure ((if errs.isEmpty then "errs=-" else "errs=" ++ ",".intercalate errs) ++ "\t" ++ (if errs.isEmpty then "quiet" else "errors"))

def opHttp (l : Line) : Except String String := do
  let sc := l.get "scenario"
  let pre : List HEv := if sc == "immediate" then [] else [.serveStart, .request, .handlerDone true]
  match Http.init.run (pre ++ [.stopBegin]) with
  | none => .error "model: schedule not enabled"
  | some s1 =>
    -- may Stop return now, while the post-response hook (gated scenario) is still running?
    let early := (s1.step .stopFinish).isSome && s1.posthooks > 0
    let rest : List HEv := (if sc == "immediate" then [.serveStart] else [.postDone]) ++ [.serveExit, .stopFinish]
    match s1.run rest with
    | none => .error "model: stop cannot complete"
    | some s2 =>
      pure (s!"stopped={b01 (s2.stopPhase == 2)} errs=0 listening={b01 s2.listenerOpen} stop_returned_while_posthook_running={b01 early} served={if sc == "immediate" then 0 else 1} store_used_after_stop=0 goroutines_left={(if s2.serveRunning then 1 else 0) + s2.handlers + s2.posthooks}\t{sc}")

def opUdp (l : Line) : Except String String := do
  let sc := l.get "scenario"
  let pre : List UEv := if sc == "immediate" then [] else [.serveStart, .packet, .handlerDone false, .packet, .handlerDone true]
  match ({} : Udp).run (pre ++ [.stopBegin]) with
  | none => .error "model: schedule not enabled"
  | some s1 =>
    let early := (s1.step .stopFinish).isSome && s1.posthooks > 0
    let rest : List UEv := (if sc == "immediate" then [.serveStart] else [.postDone, .serveExit]) ++ [.stopFinish]
    match s1.run rest with
    | none => .error "model: stop cannot complete"
    | some s2 =>
      -- a second Stop finds `closing` closed: AlreadyStopped
      pure (s!"stopped={b01 (s2.stopPhase == 2)} errs=0 listening={b01 s2.socketOpen} stop_returned_while_posthook_running={b01 early} served={if sc == "immediate" then 0 else 1} second_stop={b01 s2.closing} store_used_after_stop=0 goroutines_left={s2.wg}\t{sc}")

def opReload (l : Line) : Except String String := do
  let n ← l.nat "peers"
  -- peers i = 0..n-1 announce with left = i mod 2: even ones are seeders
  let r : Run (Nat × Nat) := { frontendsUp := true, logicUp := true, storeUp := true, store := ((n + 1) / 2, n / 2) }
  let r' := r.reload
  pure (s!"same={b01 (r'.store == r.store && r'.storeUp)} c={r'.store.1} i={r'.store.2}\treload")

/-- `udp.served seq=<kinds>`: what a serving UDP frontend answers to each datagram of a sequence — silence for
runts, empty datagrams and connects without the magic; an error for a bad connection ID or an unknown
action; the matching response for every well-formed request, wherever it stands in the sequence -/
def opServed (l : Line) : Except String String := do
  let ks := (l.get "seq").splitOn ","
  let ans := ks.map fun k =>
    if k == "E" || k == "S" || k == "M" then "none"
    else if k == "G" || k == "U" then "error"
    else if k == "C" then "connect"
    else if k == "A" then "announce"
    else if k == "X" then "scrape"
    else "?"
  pure ("answers=" ++ ",".intercalate ans ++ "\tserved")

/-- `life.binary scenario=…`: the real executable. Configurations naming an unknown hook or store, or hook options
outside their ranges, are refused at start-up; a good one serves, keeps its swarm over a reload (`Run.reload`:
the store is kept), is steady afterwards (exactly one reload per signal), and stops cleanly. -/
def opBinary (l : Line) : Except String String := do
  let sc := l.get "scenario"
  if sc.startsWith "bad-" then pure "refused\trefused"
  else
    let r : Run (Nat × Nat) := { frontendsUp := true, logicUp := true, storeUp := true, store := (0, 1) }
    let r' := r.reload
    -- with a metrics address the metrics server is a member of the stop group: up before and after the reload, gone at exit
    let m := if sc == "good-metrics" then "1/1/1" else "-/-/-"
    pure (s!"served=1 before={r.store.1}/{r.store.2} after_reload={r'.store.1}/{r'.store.2} steady_after_reload=1 reloads=1 exit=0 port_closed=1 metrics={m}\tbinary")

def handle (l : Line) : Option (Except String String) :=
  match l.op with
  | "life.binary" => some (opBinary l)
  | "life.metrics" => some (do   -- the metrics server: a stop-group member like a frontend; stopped means the port is closed
      let imm ← l.bool "immediate"
      pure (s!"served={if imm then "-" else "1"} stopped=1 errs=0 free_at_stop=1 goroutines_left=0 second_cycle=1 listening=0\tmetrics"))
  -- Stop while an accepted request is inside the tracker logic: the handler holds a wait-group count (UDP) / is an
  -- active connection of the server (HTTP), so `stopFinish` is not enabled (`C16_udp_stop_leaves_nothing`,
  -- `C16_http_stop_leaves_nothing`); after the handler and its post-response hook it is, and nothing is left
  | "life.handler_gate" => some (pure "entered=1 stop_pending_while_handler_runs=1 answered=1 stopped=1 after_done_at_stop=1 goroutines_left=0\thandlergate")
  -- Stop waits for a request in flight (`Shutdown`), but no longer than its deadline of 5 s (D37): a longer one is cut
  | "life.metrics_inflight" => some (match l.nat "secs" with
      | .ok secs => if secs > 4 then pure "request_running_at_stop=1 stopped=1 request_cut=1 handler_gone=1\tmetricsinflight-cut"
                    else pure "request_running_at_stop=1 stopped=1 request_ok=1 stop_completed_before_request=0\tmetricsinflight"
      | .error e => .error e)
  -- `C16_metrics_shutdown_returns`: whatever the client does, Stop completes; nothing of the server is left
  -- `C16_http_gate_nothing_after_stop`: a request that reaches a handler after Stop has begun is turned away at the door
  | "life.http_late" => some (pure "in_flight_when_stop_completed=0 post_hooks_started_after_stop=0\thttplate")
  | "life.metrics_stalled" => some (pure "stop_terminated=1 port_free=1 conn_goroutines_left=0\tmetricsstalled")
  | "life.udp_race" => some (do
      let n ← l.nat "n"
      pure (s!"serve_goroutine_gone_at_stop={n}/{n} stop_pending=0\tudprace"))
  | "life.metrics_race" => some (do   -- `C16_metrics_stop_leaves_nothing`, at every distance between NewServer and Stop
      let n ← l.nat "n"
      pure (s!"free_at_stop={n}/{n} stop_pending=0 goroutines_left=0\tmetricsrace"))
  | "clock.stall" => some (pure "fresh_before=1 unix_consistent=1 held=1 caught_up_after=1\tclock")   -- the cached clock is the wall time of its last tick
  | "life.store_stop" => some (pure (if l.get "kind" == "redis" then "stopped=1 goroutines_left=0\tstore"
      else "stop_pending_while_pass_parked=1 stopped=1 goroutines_left=0\tstore"))   -- the store's Stop waits for its expiry pass
  | "udp.served" => some (opServed l)
  | "udp.overlap" => some (do let b ← l.nat "burst"; pure s!"connects_ok={b} bad=0 announce_answered_with_its_tx=1\toverlap")
  | "grp.stop" => some (opGroup l)
  | "life.logic_stop" => some (opGroup l)   -- Logic.Stop is a stop group of the stoppable hooks: plain hooks (`p`) contribute nothing
  | "life.http" => some (opHttp l)
  | "life.udp" => some (opUdp l)
  | "life.reload" => some (opReload l)
  | _ => none

end DLifecycle
