import Chihaya.Driver.Proto
import Chihaya.Model.Approval
open Proto Approval

namespace DApproval

/-- `appr.client white=<hexlist> black=<hexlist> pid=<hex> scrape=<0|1>` → `refused|accept|reject` -/
def opClient (l : Line) : Except String String := do
  let w ← l.bytesList "white"
  let b ← l.bytesList "black"
  let pid ← l.bytes "pid"
  let scrape ← l.bool "scrape"
  match newClientHook w b with
  | none => pure "refused\trefused"
  | some h =>
    if scrape then pure (if scrapeAccepts h then "accept\tscrape" else "reject\tscrape")
    else
      let tag := (if w.isEmpty && b.isEmpty then "nolist" else if b.isEmpty then "white" else "black") ++
        (if pid.head? == some 45 then "-dash" else "")
      pure ((if clientAccepts h pid then "accept" else "reject") ++ "\t" ++ tag)

/-- `appr.torrent white=<hexlist of ascii entries> black=… ih=<hex> scrape=` -/
def opTorrent (l : Line) : Except String String := do
  let w ← l.bytesList "white"
  let b ← l.bytesList "black"
  let ih ← l.bytes "ih"
  let scrape ← l.bool "scrape"
  match newTorrentHook w b with
  | none => pure "refused\trefused"
  | some h =>
    if scrape then pure (if scrapeAccepts h then "accept\tscrape" else "reject\tscrape")
    else
      let tag := if w.isEmpty && b.isEmpty then "nolist" else if b.isEmpty then "white" else "black"
      pure ((if accepts h ih then "accept" else "reject") ++ "\t" ++ tag)

def handle (l : Line) : Option (Except String String) :=
  match l.op with
  | "appr.client" => some (opClient l)
  | "appr.torrent" => some (opTorrent l)
  | _ => none

end DApproval
