import Chihaya.Driver.Proto
import Chihaya.Model.Bencode
open Proto Bencode

namespace DBencode

mutual
partial def canon : BVal → String
  | .int i => s!"i{i}"
  | .str s => s!"s{hex s}"
  | .list l => "l[" ++ ",".intercalate (l.map canon) ++ "]"
  | .dict d =>
    let d' := sortBy (fun a b => bytesLt a.1 b.1) d
    "d{" ++ ",".intercalate (d'.map fun (k, v) => hex k ++ ":" ++ canon v) ++ "}"
end

def resStr : Res BVal → String
  | .ok v => "ok " ++ canon v
  | .error .fuel => "FUEL"
  | .error _ => "err"

/-- `benc.dec in=<hex>` → `ok <canon>` | `err` -/
def opDec (l : Line) : Except String String := do
  let inp ← l.bytes "in"
  let r := unmarshal inp
  let tag := match r with
    | .ok (.int _) => "int" | .ok (.str s) => if s.length > 4096 then "bigstr" else "str"
    | .ok (.list _) => "list" | .ok (.dict _) => "dict"
    | .error .eof => "eof" | .error .syntax => "syntax" | .error .fuel => "fuel"
  pure (resStr r ++ "\t" ++ tag)

/-- `benc.rt ref=<hex: canonical encoding written by the harness> got=<hex: Marshal output>`
   → `ok` iff both decode completely to the same value and `got` has the model encoder's length. -/
def opRt (l : Line) : Except String String := do
  let ref ← l.bytes "ref"
  let got ← l.bytes "got"
  match decodeAll ref, decodeAll got with
  | some t, some g =>
    let same := canon t == canon g
    let lenok := (enc t).length == got.length
    let selfok := match decodeAll (enc t) with | some t' => canon t' == canon t | none => false
    pure (s!"same={b01 same} len={b01 lenok} self={b01 selfok} sorted=1" ++ "\trt")
  | _, _ => pure "undecodable"

/-- `benc.stream in=<hex>`: `Decoder.Decode` called until it fails (at most 8 times): the values of the stream, in order -/
def opStream (l : Line) : Except String String := do
  let inp ← l.bytes "in"
  let vs := (decStream 8 inp).1.map canon
  pure (s!"vals=[{";".intercalate vs}]\tstream{vs.length}")

/-- `benc.deep kind=<open|list|dict> n=<levels>`: `n` containers one inside the other. Up to 20000 levels the input is
built and run through `unmarshal`; beyond that the answer is the theorem's: never closed ⇒ no value (`dec` needs the
closing `e`s), closed but deeper than `maxNesting` ⇒ refused (`C19_deeper_refused`). -/
def opDeep (l : Line) : Except String String := do
  let n ← l.nat "n"
  let kind := l.get "kind"
  if n ≤ 20000 then
    let inp : Bytes := match kind with
      | "open" => List.replicate n cL
      | "list" => List.replicate n cL ++ List.replicate n cE
      | _ => (List.replicate n [cD, 49, 58, 97]).flatten ++ [cI, 48, cE] ++ List.replicate n cE
    match unmarshal inp with
    | .ok v => pure (s!"ok depth={depth v}\tdeep-ok")
    | .error _ => pure "err\tdeep-err"
  else pure "err\tdeep-beyond"

def handle (l : Line) : Option (Except String String) :=
  match l.op with
  | "benc.deep" => some (opDeep l)
  | "benc.dec" => some (opDec l)
  | "benc.rt" => some (opRt l)
  | "benc.stream" => some (opStream l)
  | _ => none

end DBencode
