import Chihaya.Driver.Proto
import Chihaya.Model.HttpParse
open Proto HttpParse

namespace DHttpParse

/-- `k:v,k:v` hex map; value `-` = nil/empty, `~` = absent -/
def parseMap (s : String) : Except String (List (Bytes × Option Bytes)) :=
  if s == "-" || s == "" then .ok []
  else (s.splitOn ",").mapM fun kv =>
    match kv.splitOn ":" with
    | [k, v] =>
      match hexArg k with
      | none => .error "bad map key"
      | some kb =>
        if v == "~" then .ok (kb, none)
        else match hexArg v with
          | some vb => .ok (kb, some vb)
          | none => .error "bad map value"
    | _ => .error "bad map entry"

def optsOf (l : Line) : Except String ParseOpts := do
  pure { allowIPSpoofing := (← l.bool "spoof"), realIPHeaderSet := (← l.bool "hdrset"),
         maxNumWant := (← l.nat "maxnw"), defaultNumWant := (← l.nat "defnw"), maxScrapeInfoHashes := (← l.nat "maxscrape") }

/-- environment from the line: `ipmap`, `lowmap`, `hdr`, `remote`. A lookup the harness did not
anticipate yields a marker value that makes the driver report a harness fault. -/
def envOf (l : Line) : Except String (Env × (Unit → Bool)) := do
  let ipmap ← parseMap (l.get "ipmap")
  let hdr := match l.get? "hdr" with
    | none => none
    | some "~" => none
    | some h => hexArg h
  let remote ← l.bytes "remote"
  let lower : Bytes → Bytes := Query.asciiLower   -- parseQuery lower-cases ASCII letters only (D27)
  let parseIP : Bytes → Option Bytes := fun s =>
    match ipmap.find? (·.1 == s) with
    | some (_, v) => v
    | none => none
  pure ({ lower := lower, parseIP := parseIP, hdr := hdr, remoteHost := remote }, fun _ => true)

def evNum : Event → Nat
  | .none => 0 | .started => 1 | .stopped => 2 | .completed => 3

def famStr : Fam → String
  | .v4 => "4" | .v6 => "6"

def errStr : ErrClass → String
  | .client _ => "err client"
  | .internal _ => "err internal"

def showAnn (r : AnnReq) : String :=
  s!"ok ev={evNum r.event} evp={b01 r.eventProvided} ih={hex r.infoHash} compact={b01 r.compact} nwp={b01 r.numWantProvided} " ++
  s!"ipp={b01 r.ipProvided} nw={r.numWant} left={r.left} dl={r.downloaded} ul={r.uploaded} pid={hex r.peer.id} port={r.peer.port} " ++
  s!"ip={hex r.peer.ip} fam={famStr r.peer.fam}"

def opAnnounce (l : Line) : Except String String := do
  let opts ← optsOf l
  let (env, _) ← envOf l
  let uri ← l.bytes "uri"
  match parseAnnounce env uri opts with
  | .ok r =>
    let tag := "accept" ++ (if r.ipProvided then "+spoofed" else "") ++ (if r.numWantProvided then "+nw" else "") ++
      (if r.peer.fam == .v6 then "+v6" else "")
    pure (showAnn r ++ "\t" ++ tag)
  | .error e =>
    let why := match e with | .client m => m | .internal m => m
    pure (errStr e ++ "\t" ++ "reject:" ++ why.replace " " "_")

def opScrape (l : Line) : Except String String := do
  let opts ← optsOf l
  let (env, _) ← envOf l
  let uri ← l.bytes "uri"
  -- family decision is exercised in the full-handler streams; here: ParseScrape proper
  match Query.parseURLData env.lower uri with
  | .error e => pure (errStr e ++ "\treject:query")
  | .ok qp =>
    match qp.infoHashes with
    | [] => pure ("err client\treject:noih")
    | ihs =>
      let r := Sanitize.scrape { fam := .v4, infoHashes := ihs, params := qp.params } opts.maxScrapeInfoHashes
      pure (s!"ok ihs={hexList r.infoHashes}\t" ++ (if r.infoHashes.length < ihs.length then "accept+capped" else "accept"))

def handle (l : Line) : Option (Except String String) :=
  match l.op with
  | "http.announce" => some (opAnnounce l)
  | "http.scrape" => some (opScrape l)
  | _ => none

end DHttpParse
