import Chihaya.Driver.Proto
import Chihaya.Driver.DHttpParse
import Chihaya.Model.Udp
import Chihaya.Gen.Validate
open Proto Udp

namespace DUdp

def natList (s : String) : List Nat :=
  if s == "-" || s == "" then [] else (s.splitOn ",").filterMap String.toNat?

/-- an entry of `p4=` / `p6=`: the address as the response value holds it (4 or 16 bytes) ++ 2-byte port -/
def peersOf (fam : Fam) (l : List Bytes) : List Peer :=
  l.map fun b => { id := [], port := Bytes.toNatBE (b.drop (b.length - 2)), ip := b.take (b.length - 2), fam := fam }

/-- the i-th generated peer of `p4gen=` / `p6gen=` (the harness's `genPeer`) -/
def genPeer (fam : Fam) (i : Nat) : Peer :=
  let tail : Bytes := [UInt8.ofNat (i / 65536 % 256), UInt8.ofNat (i / 256 % 256), UInt8.ofNat (i % 256)]
  { id := [], port := i % 65535 + 1, fam := fam,
    ip := match fam with
      | .v4 => [10] ++ tail
      | .v6 => [0x20, 0x01, 0x0d, 0xb8, 0, 0, 0, 0, 0, 0, 0, 0, 0] ++ tail }

def logicOf (l : Line) : Except String Logic := do
  let kind := l.get "logic"
  let mkErr : ErrClass := if kind == "client" || kind == "wrapped" then .client "injected client error" else .internal "injected"
  if kind == "ok" then
    let interval ← l.int "interval"
    let complete ← l.nat "complete"
    let incomplete ← l.nat "incomplete"
    let p4 ← l.bytesList "p4"
    let p6 ← l.bytesList "p6"
    let p4g := (l.get? "p4gen").bind String.toNat? |>.getD 0
    let p6g := (l.get? "p6gen").bind String.toNat? |>.getD 0
    let c0 ← l.nat "c0"
    let s0 ← l.nat "s0"
    let i0 ← l.nat "i0"
    pure { announce := fun _ => .ok { compact := false, complete := complete, incomplete := incomplete, interval := interval,
                                       minInterval := 0, v4peers := peersOf .v4 p4 ++ (List.range p4g).map (genPeer .v4), v6peers := peersOf .v6 p6 ++ (List.range p6g).map (genPeer .v6) },
           scrape := fun r => .ok { files := (List.range r.infoHashes.length).map fun i =>
             { infoHash := r.infoHashes.getD i [], complete := (c0 + i) % 2^32, snatches := (s0 + 3 * i) % 2^32, incomplete := (i0 + 7 * i) % 2^32 } } }
  else
    pure { announce := fun _ => .error mkErr, scrape := fun _ => .error mkErr }

def errCls (b : Bytes) (tx : Bytes) : String :=
  -- error datagram: action 3, tx, message, NUL. class by message
  let msg := (b.drop 8).dropLast
  let cls := if msg == Udp.genericInternal then "internal" else "client"
  s!"error tx={hex tx} cls={cls} nul={b01 (b.getLast? == some 0)}"

def showOut (tx : Bytes) : Option Bytes → String
  | none => "silent"
  | some b => if Bytes.toNatBE (b.take 4) == 3 then errCls b tx else s!"dgram={hex b}"

def showCall (probes : List Bytes) : Option Call → String
  | none => "call=-"
  | some (.announce r) =>
    let pv := probes.map fun k => match Query.get r.params k with | some v => hex v | none => "~"
    "call=ann " ++ DHttpParse.showAnn r ++ " pv=" ++ (if pv.isEmpty then "-" else ",".intercalate pv)
  | some (.scrape r) => s!"call=scr fam={DHttpParse.famStr r.fam} ihs={hexList r.infoHashes}"

/-- `udp.handle pkt= src= now= skew= spoof= maxnw= defnw= maxscrape= tag= gtag= logic= … probe= lowmap=` -/
def opHandle (l : Line) : Except String String := do
  let pkt ← l.bytes "pkt"
  let src ← l.bytes "src"
  let now ← l.int "now"
  let skew ← l.int "skew"
  let tag ← l.bytes "tag"
  let gtag ← l.bytes "gtag"
  let probes ← l.bytesList "probe"
  -- the frontend is built from the *validated* configuration (Gen.Validate.UDP, regenerated from source)
  let vc := Gen.Validate.UDP.validate { PrivateKey_empty := false, MaxNumWant := (← l.nat "maxnw"), DefaultNumWant := (← l.nat "defnw"),
                                         MaxScrapeInfoHashes := (← l.nat "maxscrape"), MaxClockSkew := skew }
  let opts : ParseOpts := { allowIPSpoofing := (← l.bool "spoof"), realIPHeaderSet := false, maxNumWant := vc.MaxNumWant.toNat,
                             defaultNumWant := vc.DefaultNumWant.toNat, maxScrapeInfoHashes := vc.MaxScrapeInfoHashes.toNat }
  let logic ← logicOf l
  let lower : Bytes → Bytes := Query.asciiLower   -- parseQuery lower-cases ASCII letters only (D27)
  -- the HMAC is supplied by the harness for the two messages the model can ask about
  let m1 := slice pkt 0 4 ++ src
  let m2 := Bytes.be32 ((now / 1000000000) % 2^32).toNat ++ src
  let mac : Mac := fun _ msg => if msg == m1 then tag ++ List.replicate 28 0 else if msg == m2 then gtag ++ List.replicate 28 0 else List.replicate 32 0
  let r := handleRequest mac lower { key := [], skewNs := vc.MaxClockSkew, opts := opts } logic now pkt src
  let tx := slice pkt 12 16
  if r.panic then return "PANIC\tpanic"
  let action := Bytes.toNatBE (slice pkt 8 12)
  let tag := match r.out, r.call with
    | none, _ => "silent"
    | some b, none => if Bytes.toNatBE (b.take 4) == 3 then
        (if action != 0 && !validate mac [] (slice pkt 0 8) src now vc.MaxClockSkew then "badconn" else "reject") else "connect"
    | some b, some (.announce q) => if Bytes.toNatBE (b.take 4) == 3 then "logicerr" else
        "announce" ++ (if action == 4 then "+a4" else "") ++ (if q.peer.fam == .v6 then "+v6" else "") ++ (if q.ipProvided then "+spoofed" else "") ++ (if q.params.isEmpty then "" else "+params")
    | some b, some (.scrape _) => if Bytes.toNatBE (b.take 4) == 3 then "logicerr" else "scrape"
  pure (showOut tx r.out ++ " " ++ showCall probes r.call ++ s!" after={b01 r.after}" ++ "\t" ++ tag)

/-- `udp.echo …`: the logic answers with a function of the request (interval from `left`, counts from
`downloaded`/`uploaded`, the announcer as the only peer); only the datagram is reported -/
def opEcho (l : Line) : Except String String := do
  let pkt ← l.bytes "pkt"
  let src ← l.bytes "src"
  let now ← l.int "now"
  let skew ← l.int "skew"
  let tag ← l.bytes "tag"
  let gtag ← l.bytes "gtag"
  let vc := Gen.Validate.UDP.validate { PrivateKey_empty := false, MaxNumWant := (← l.nat "maxnw"), DefaultNumWant := (← l.nat "defnw"),
                                         MaxScrapeInfoHashes := (← l.nat "maxscrape"), MaxClockSkew := skew }
  let opts : ParseOpts := { allowIPSpoofing := false, realIPHeaderSet := false, maxNumWant := vc.MaxNumWant.toNat,
                             defaultNumWant := vc.DefaultNumWant.toNat, maxScrapeInfoHashes := vc.MaxScrapeInfoHashes.toNat }
  let lower : Bytes → Bytes := Query.asciiLower   -- parseQuery lower-cases ASCII letters only (D27)
  let m1 := slice pkt 0 4 ++ src
  let m2 := Bytes.be32 ((now / 1000000000) % 2^32).toNat ++ src
  let mac : Mac := fun _ msg => if msg == m1 then tag ++ List.replicate 28 0 else if msg == m2 then gtag ++ List.replicate 28 0 else List.replicate 32 0
  let logic : Logic :=
    { announce := fun req => .ok { compact := false, complete := req.downloaded % 2^32, incomplete := req.uploaded % 2^32,
                                    interval := ((req.left % 1000 + 1 : Nat) : Int) * 1000000000, minInterval := 0,
                                    v4peers := [req.peer], v6peers := [req.peer] },
      scrape := fun _ => .ok { files := [] } }
  let r := handleRequest mac lower { key := [], skewNs := vc.MaxClockSkew, opts := opts } logic now pkt src
  if r.panic then return "PANIC\tpanic"
  pure (showOut (slice pkt 12 16) r.out ++ "\t" ++ (match r.out with | none => "silent" | some b => if Bytes.toNatBE (b.take 4) == 3 then "reject" else "echo"))

def handle (l : Line) : Option (Except String String) :=
  match l.op with
  | "udp.echo" => some (opEcho l)
  | "udp.handle" => some (opHandle l)
  | _ => none

end DUdp
