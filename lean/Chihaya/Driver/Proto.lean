import Chihaya.Base.Bytes
import Chihaya.Base.Decimal
/-! Line protocol helpers for `modeldrv` (not part of the trusted model; part of the tie). -/

namespace Proto

structure Line where
  op   : String
  args : List (String × String)

def parseLine (s : String) : Line :=
  match (s.trimAscii.toString.splitOn " ").filter (· ≠ "") with
  | [] => { op := "", args := [] }
  | op :: rest =>
    { op := op,
      args := rest.map fun kv =>
        match kv.splitOn "=" with
        | [k] => (k, "")
        | k :: vs => (k, "=".intercalate vs)
        | [] => ("", "") }

def Line.get? (l : Line) (k : String) : Option String := (l.args.find? (·.1 == k)).map (·.2)
def Line.get (l : Line) (k : String) : String := (l.get? k).getD ""
def Line.has (l : Line) (k : String) : Bool := (l.get? k).isSome

/-- `-` denotes the empty byte string -/
def hexArg (s : String) : Option Bytes := if s == "-" || s == "" then some [] else Bytes.ofHex s

def Line.bytes (l : Line) (k : String) : Except String Bytes :=
  match l.get? k with
  | none => .error s!"missing {k}"
  | some v => match hexArg v with
    | some b => .ok b
    | none => .error s!"bad hex {k}"

def Line.nat (l : Line) (k : String) : Except String Nat :=
  match l.get? k with
  | none => .error s!"missing {k}"
  | some v => match v.toNat? with
    | some n => .ok n
    | none => .error s!"bad nat {k}"

def Line.int (l : Line) (k : String) : Except String Int :=
  match l.get? k with
  | none => .error s!"missing {k}"
  | some v => match v.toInt? with
    | some n => .ok n
    | none => .error s!"bad int {k}"

def Line.bool (l : Line) (k : String) : Except String Bool :=
  match l.get? k with
  | some "1" => .ok true
  | some "0" => .ok false
  | _ => .error s!"bad bool {k}"

/-- comma separated hex list; `-` = empty list -/
def Line.bytesList (l : Line) (k : String) : Except String (List Bytes) :=
  match l.get? k with
  | none => .error s!"missing {k}"
  | some v =>
    if v == "-" || v == "" then .ok []
    else (v.splitOn ",").mapM fun h => match hexArg h with
      | some b => .ok b
      | none => .error s!"bad hex in {k}"

def hex (b : Bytes) : String := if b.isEmpty then "-" else Bytes.toHex b
def hexList (l : List Bytes) : String := if l.isEmpty then "-" else ",".intercalate (l.map hex)
def b01 (b : Bool) : String := if b then "1" else "0"

/-- lexicographic order on byte strings (for canonical printing only) -/
def bytesLt : Bytes → Bytes → Bool
  | [], [] => false
  | [], _ :: _ => true
  | _ :: _, [] => false
  | a :: as, b :: bs => if a < b then true else if b < a then false else bytesLt as bs

def insertSorted {α} (lt : α → α → Bool) (x : α) : List α → List α
  | [] => [x]
  | y :: ys => if lt x y then x :: y :: ys else y :: insertSorted lt x ys

def sortBy {α} (lt : α → α → Bool) (l : List α) : List α := l.foldr (insertSorted lt) []

end Proto
