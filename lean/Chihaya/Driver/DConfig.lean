import Chihaya.Driver.Proto
import Chihaya.Gen.Validate
import Chihaya.Model.Config
import Chihaya.Model.VarInterval
open Proto Gen.Validate

namespace DConfig

def showHTTP (c : HTTP.Cfg) : String :=
  s!"ReadTimeout={c.ReadTimeout} WriteTimeout={c.WriteTimeout} IdleTimeout={c.IdleTimeout} MaxNumWant={c.MaxNumWant} DefaultNumWant={c.DefaultNumWant} MaxScrapeInfoHashes={c.MaxScrapeInfoHashes}"
def showUDP (c : UDP.Cfg) : String :=
  s!"PrivateKeyEmpty={b01 c.PrivateKey_empty} MaxNumWant={c.MaxNumWant} DefaultNumWant={c.DefaultNumWant} MaxScrapeInfoHashes={c.MaxScrapeInfoHashes} MaxClockSkew={c.MaxClockSkew}"
def showMem (c : Memory.Cfg) : String :=
  s!"ShardCount={c.ShardCount} GarbageCollectionInterval={c.GarbageCollectionInterval} PrometheusReportingInterval={c.PrometheusReportingInterval} PeerLifetime={c.PeerLifetime}"
def showRedis (c : Redis.Cfg) : String :=
  s!"RedisBrokerEmpty={b01 c.RedisBroker_empty} RedisReadTimeout={c.RedisReadTimeout} RedisWriteTimeout={c.RedisWriteTimeout} RedisConnectTimeout={c.RedisConnectTimeout} GarbageCollectionInterval={c.GarbageCollectionInterval} PrometheusReportingInterval={c.PrometheusReportingInterval} PeerLifetime={c.PeerLifetime}"

/-- `cfg.validate pkg=<http|udp|memory|redis> <Field>=<int>…` → validated fields, printed twice-validated too -/
def opValidate (l : Line) : Except String String := do
  match l.get "pkg" with
  | "http" =>
    let c : HTTP.Cfg := { ReadTimeout := (← l.int "ReadTimeout"), WriteTimeout := (← l.int "WriteTimeout"), IdleTimeout := (← l.int "IdleTimeout"), MaxNumWant := (← l.int "MaxNumWant"), DefaultNumWant := (← l.int "DefaultNumWant"), MaxScrapeInfoHashes := (← l.int "MaxScrapeInfoHashes") }
    let v := HTTP.validate c
    pure (showHTTP v ++ s!" idem={b01 (HTTP.validate v == v)}" ++ "\t" ++ (if v == c then "kept" else "defaulted"))
  | "udp" =>
    let c : UDP.Cfg := { PrivateKey_empty := (← l.bool "PrivateKeyEmpty"), MaxNumWant := (← l.int "MaxNumWant"), DefaultNumWant := (← l.int "DefaultNumWant"), MaxScrapeInfoHashes := (← l.int "MaxScrapeInfoHashes"), MaxClockSkew := (← l.int "MaxClockSkew") }
    let v := UDP.validate c
    pure (showUDP v ++ s!" idem={b01 (UDP.validate v == v)}" ++ "\t" ++ (if v == c then "kept" else "defaulted"))
  | "memory" =>
    let c : Memory.Cfg := { ShardCount := (← l.int "ShardCount"), GarbageCollectionInterval := (← l.int "GarbageCollectionInterval"), PrometheusReportingInterval := (← l.int "PrometheusReportingInterval"), PeerLifetime := (← l.int "PeerLifetime") }
    let v := Memory.validate c
    pure (showMem v ++ s!" idem={b01 (Memory.validate v == v)}" ++ "\t" ++ (if v == c then "kept" else "defaulted"))
  | "redis" =>
    let c : Redis.Cfg := { RedisBroker_empty := (← l.bool "RedisBrokerEmpty"), RedisReadTimeout := (← l.int "RedisReadTimeout"), RedisWriteTimeout := (← l.int "RedisWriteTimeout"), RedisConnectTimeout := (← l.int "RedisConnectTimeout"), GarbageCollectionInterval := (← l.int "GarbageCollectionInterval"), PrometheusReportingInterval := (← l.int "PrometheusReportingInterval"), PeerLifetime := (← l.int "PeerLifetime") }
    let v := Redis.validate c
    pure (showRedis v ++ s!" idem={b01 (Redis.validate v == v)}" ++ "\t" ++ (if v == c then "kept" else "defaulted"))
  | p => .error s!"unknown pkg {p}"

/-- `cfg.new kind=<hook|store> known=<0|1>` → `built` | `driver-does-not-exist` -/
def opNew (l : Line) : Except String String := do
  let known ← l.bool "known"
  match Config.lookup (if known then ["x"] else []) "x" with
  | .built => pure "built\tknown"
  | .driverDoesNotExist => pure "driver-does-not-exist\tunknown"

/-- `cfg.redisurl parse_ok=<0|1> scheme_redis=<0|1> path=<hex>` → `ok db=<n>` | `err` -/
def opRedisURL (l : Line) : Except String String := do
  let pok ← l.bool "parse_ok"
  if !pok then return "err\turlparse"
  let sr ← l.bool "scheme_redis"
  let path ← l.bytes "path"
  match Config.parseRedisURL sr path with
  | .error => pure ("err\t" ++ (if sr then "baddb" else "scheme"))
  | .ok db => pure (s!"ok db={db}\t" ++ (if db == 0 then "db0" else "db"))

/-- `cfg.store_uses_validated kind=<memory|redis> …` → the store built from any configuration works (`put=ok`) -/
def opStoreNew (_ : Line) : Except String String := pure "put=ok\tnew"

/-- `cfg.hooks list=<entries>`: `HooksFromHookConfigs` builds the hooks in order and stops at the first entry that is
refused. Entries: `unknown` (no such driver), `ca:<ok|both|badlen>`, `ta:<ok|both|badhex>`,
`vi:<pn>:<pd>:<delta>` (interval variation with probability pn/pd and that delta). -/
def entryOK (e : String) : Bool :=
  match e.splitOn ":" with
  | ["ca", "ok"] | ["ta", "ok"] => true
  | ["vi", pn, pd, d] =>
    match pn.toInt?, pd.toNat?, d.toInt? with
    | some pn, some pd, some d => VarInterval.checkConfig { pn := pn, pd := pd, maxDelta := d, modifyMin := true }
    | _, _, _ => false
  | _ => false

/-- `cfg.store_bg kind= life=<ns> gci=<ns>`: after a few expiry ticks a fresh peer is still there iff the *validated*
peer lifetime (default 30 min when the configured one is not positive) exceeds the second or so that has passed -/
def opStoreBG (l : Line) : Except String String := do
  let life ← l.int "life"
  let life' : Int := if life ≤ 0 then 30 * 60 * 1000000000 else life
  pure (s!"kept={b01 (decide (life' ≥ 1000000000))}\tbg")

def opHooks (l : Line) : Except String String := do
  let spec := l.get "list"
  let es := if spec == "-" || spec == "" then [] else spec.splitOn ","
  match (es.zipIdx.find? fun (e, _) => !entryOK e) with
  | some (_, i) => pure s!"refused at={i}\trefused"
  | none => pure s!"built n={es.length}\tbuilt"

/-- `cfg.frontend proto= addr= https= tls= routes=` -/
def opFrontend (l : Line) : Except String String := do
  let ak (s : String) : Config.AddrKind := if s == "free" then .free else if s == "busy" then .busy else .absent
  let tk : Config.TlsKind := match l.get "tls" with
    | "good" => .good | "cert-only" => .oneOfTwo | "missing-file" => .unloadable | _ => .none
  let routes ← l.bool "routes"
  let r := if l.get "proto" == "udp" then Config.udpNewFrontend (ak (l.get "addr"))
           else Config.httpNewFrontend (ak (l.get "addr")) (ak (l.get "https")) tk routes
  match r with
  | .built => pure "built stopped=1\tbuilt"
  | .refused left =>
    if l.get "proto" == "udp" then pure "refused\trefused"
    else pure (s!"refused http_port_released={if l.get "addr" == "free" then (if left then "0" else "1") else "-"}\trefused")

def handle (l : Line) : Option (Except String String) :=
  match l.op with
  | "cfg.validate" => some (opValidate l)
  | "cfg.frontend" => some (opFrontend l)
  -- both servers of the HTTP frontend get the validated idle timeout (D38): a keep-alive connection idle for less is kept
  | "cfg.idle" => some (pure "first=1 second_on_same_connection=1\tidle")
  -- the store connects with what `parseRedisURL` extracted: without the right password nothing works and nothing is
  -- stored; with it the membership lands in the database the URL names (`Config.parseRedisURL … = .ok db`)
  | "cfg.redis_conn" => some (match l.nat "db" with
      | .ok db => .ok (s!"no_password=err wrong_password=err stored_without_auth=- right_password=ok stored_in_db={db}\tredisconn")
      | .error e => .error e)
  | "cfg.new" => some (opNew l)
  | "cfg.hooks" => some (opHooks l)
  | "cfg.store_bg" => some (opStoreBG l)
  | "cfg.redisurl" => some (opRedisURL l)
  | "cfg.store_new" => some (opStoreNew l)
  | _ => none

end DConfig
