import Chihaya.Driver.Proto
import Chihaya.Model.Select
import Chihaya.Model.Logic
import Chihaya.Model.RedisStore
open Proto MemStore

/-! Stateful driver operations on the store models (`st.*`). -/
namespace DStore

structure DState where
  redis : Bool := false
  mem : Mem := MemStore.init 1
  red : RedisStore.RState := {}
  clock : Int := 0
  down : Bool := false   -- the Redis behind the store has been switched off (`st.fail on=1`)
  deriving Inhabited

/-- uniform view of the two store models -/
def putSeeder (st : DState) (ih : Bytes) (p : Peer) : DState :=
  if st.redis then { st with red := RedisStore.putSeeder st.red ih p st.clock } else { st with mem := st.mem.putSeeder ih p st.clock }
def putLeecher (st : DState) (ih : Bytes) (p : Peer) : DState :=
  if st.redis then { st with red := RedisStore.putLeecher st.red ih p st.clock } else { st with mem := st.mem.putLeecher ih p st.clock }
def graduate (st : DState) (ih : Bytes) (p : Peer) : DState :=
  if st.redis then { st with red := RedisStore.graduate st.red ih p st.clock } else { st with mem := st.mem.graduate ih p st.clock }
def deleteSeeder (st : DState) (ih : Bytes) (p : Peer) : DState × Bool :=
  if st.redis then let r := RedisStore.deleteSeeder st.red ih p; ({ st with red := r.1 }, r.2)
  else let r := st.mem.deleteSeeder ih p; ({ st with mem := r.1 }, r.2)
def deleteLeecher (st : DState) (ih : Bytes) (p : Peer) : DState × Bool :=
  if st.redis then let r := RedisStore.deleteLeecher st.red ih p; ({ st with red := r.1 }, r.2)
  else let r := st.mem.deleteLeecher ih p; ({ st with mem := r.1 }, r.2)
def scrape (st : DState) (ih : Bytes) (f : Fam) : Nat × Nat :=
  if st.down then (0, 0)   -- `ScrapeSwarm` logs the error and reports nothing
  else if st.redis then RedisStore.scrape st.red ih f else st.mem.scrape ih f
def swarm? (st : DState) (ih : Bytes) (f : Fam) : Option Swarm :=
  if st.redis then RedisStore.swarm? st.red ih f else st.mem.swarm? ih f
def gc (st : DState) (cutoff : Int) : DState :=
  if st.redis then { st with red := RedisStore.gc st.red cutoff } else { st with mem := st.mem.gc cutoff }
def totals (st : DState) : Int × Int × Int :=
  if st.redis then RedisStore.totals st.red else st.mem.totals

def famOfKey (pk : Bytes) : Fam := if pk.length == 38 then .v6 else .v4
def peerOfKey (pk : Bytes) : Peer := Logic.decodePeerKey (famOfKey pk) pk

def showPMap (m : PMap) : String :=
  let l := sortBy (fun a b => bytesLt a.1 b.1) m
  "{" ++ ",".intercalate (l.map fun (k, t) => s!"{hex k}@{t}") ++ "}"

/-- canonical dump: every swarm (family, infohash) with both maps, sorted; then per-shard counters -/
def dump (m : Mem) : String :=
  let entries : List (String × String) := (List.range m.shards.length).flatMap fun i =>
    let sh := m.shard i
    let fam := if i < m.n then "v4" else "v6"
    sh.swarms.map fun (ih, sw) => (s!"{fam}:{hex ih}", s!"S={showPMap sw.seeders} L={showPMap sw.leechers}")
  let sorted := sortBy (fun a b => a.1 < b.1) entries
  let counters := (List.range m.shards.length).map fun i =>
    let sh := m.shard i
    s!"{sh.swarms.length}/{sh.nS}/{sh.nL}"
  "swarms=[" ++ " ".intercalate (sorted.map fun (k, v) => k ++ " " ++ v) ++ "] shards=[" ++ ",".intercalate counters ++ "]"

def swarmKeyStr (k : Bytes) : String :=
  (if k.getD 0 0 == 6 then "v6" else "v4") ++ (if RedisStore.keyIsSeeder k then "S" else "L") ++ ":" ++ hex (k.drop 2)

/-- canonical dump of the Redis model: swarm hashes, index hashes (keys), counters -/
def dumpRedis (r : RedisStore.RState) : String :=
  let hs := sortBy (fun a b => a.1 < b.1) (r.hashes.map fun (k, m) => (swarmKeyStr k, showPMap m))
  let ix := fun (m : PMap) => ",".intercalate (sortBy (fun a b => a < b) (m.map fun (k, _) => swarmKeyStr k))
  "hashes=[" ++ " ".intercalate (hs.map fun (k, v) => k ++ "=" ++ v) ++ "] idx4=[" ++ ix r.idx4 ++ "] idx6=[" ++ ix r.idx6 ++
  s!"] counters=[{r.c.ih4},{r.c.s4},{r.c.l4},{r.c.ih6},{r.c.s6},{r.c.l6}]"


/-! ### `st.redis_sched`: a schedule of Redis round trips (the concurrent semantics of `RedisConc`) -/

def parseAOp (ih : Bytes) (now : Int) (s : String) : Option RedisConc.AOp :=
  match s.splitOn ":" with
  | [k, pkhex] =>
    match hexArg pkhex with
    | some pk =>
      let p := peerOfKey pk
      match k with
      | "ps" => some (.putSeeder ih p now)
      | "pl" => some (.putLeecher ih p now)
      | "gr" => some (.graduate ih p now)
      | "ds" => some (.deleteSeeder ih p)
      | "dl" => some (.deleteLeecher ih p)
      | _ => none
    | none => none
  | _ => none

/-- a thread's program: announce-path operations, or one expiry pass (`gc:<cutoff>`), which the model does not
schedule by itself: the trace says which of its command groups went through, and when -/
inductive Prog where
  | ops (l : List RedisConc.AOp)
  | gc (cutoff : Int)

/-- `-` = the empty program; operations separated by `;`, threads by `|` -/
def parseProgs (ih : Bytes) (now : Int) (s : String) : Option (List Prog) :=
  (s.splitOn "|").mapM fun t =>
    if t == "-" || t == "" then some (.ops [])
    else if t.startsWith "gc:" then (t.drop 3).toString.toInt?.map .gc
    else ((t.splitOn ";").mapM (parseAOp ih now)).map .ops

/-- `v4S:<hex>` -/
def parseSwarmKey (s : String) : Option (Fam × Bool × Bytes) :=
  match s.splitOn ":" with
  | [h, x] =>
    match h.toList, hexArg x with
    | ['v', f, r], some ih => some (if f == '6' then .v6 else .v4, r == 'S', ih)
    | _, _ => none
  | _ => none

inductive TStep where
  | next (t : Nat)                                  -- the next round trip of an announce-path thread
  | delta (t : Nat)                                 -- a collector's DECRBY / DECR
  | hash (t : Nat) (f : Fam) (r : Bool) (ih : Bytes)   -- a collector's removal group went through
  | idx (t : Nat) (f : Fam) (r : Bool) (ih : Bytes)    -- a collector's unregistering group went through
  | mid

def parseTStep (s : String) : Option TStep :=
  if s == "|" then some .mid else
  match s.splitOn ":" with
  | [t] => t.toNat?.map .next
  | [t, "d"] => t.toNat?.map .delta
  | [t, k, h, x] =>
    match t.toNat?, parseSwarmKey (h ++ ":" ++ x) with
    | some t, some (f, r, ih) => if k == "H" then some (.hash t f r ih) else if k == "I" then some (.idx t f r ih) else none
    | _, _ => none
  | _ => none

def parseTrace (s : String) : Option (List TStep) :=
  if s == "-" || s == "" then some [] else (s.splitOn ",").mapM parseTStep

structure TraceSt where
  c : RedisConc.Config
  mid : Option RedisStore.RState := none
  bad : Option String := none

/-- a command group of a collector going through: it must not owe a counter round trip (the code issues the
DECRBY before it looks at the next key); then it is the atomic step of the model at the current state -/
def commitGroup (c : RedisConc.Config) (t : Nat) (o : RedisConc.AOp) : Except String RedisConc.Config :=
  let th := c.thr t
  if !th.pending.isEmpty then .error "collector commits a group while it owes a counter command"
  else .ok (RedisConc.stepThread { c with thr := RedisConc.upd c.thr t ⟨[], o :: th.todo⟩ } t)

def traceStep (progs : List Prog) (ts : TraceSt) (e : TStep) : TraceSt :=
  if ts.bad.isSome then ts else
  let cut (t : Nat) : Option Int := match progs[t]? with | some (.gc k) => some k | _ => none
  match e with
  | .mid => { ts with mid := some ts.c.s }
  | .next t =>
    match cut t with
    | some _ => { ts with bad := some "plain step of a collector" }
    | none => { ts with c := RedisConc.stepThread ts.c t }
  | .delta t =>
    if (ts.c.thr t).pending.isEmpty then { ts with bad := some "counter command nobody owes" }
    else { ts with c := RedisConc.stepThread ts.c t }
  | .hash t f r ih =>
    match cut t with
    | none => { ts with bad := some "group of a thread that is no collector" }
    | some k => match commitGroup ts.c t (.gcHash f r ih k) with
      | .ok c => { ts with c := c }
      | .error m => { ts with bad := some m }
  | .idx t f r ih =>
    match cut t with
    | none => { ts with bad := some "group of a thread that is no collector" }
    | some _ => match commitGroup ts.c t (.gcIdx f r ih) with
      | .ok c => { ts with c := c }
      | .error m => { ts with bad := some m }

def handle (st : DState) (l : Line) : Option (DState × Except String String) :=
  let ret (s : DState) (r : Except String String) := some (s, r)
  match l.op with
  | "st.reset" =>
    match l.nat "n" with
    | .ok n => ret { st with redis := l.get "kind" == "redis", mem := MemStore.init n, red := {}, down := false } (.ok "ok\ttrivial")
    | .error e => ret st (.error e)
  | "st.fail" =>
    if st.redis then ret { st with down := l.get "on" == "1" } (.ok "ok\ttrivial") else ret st (.ok "n/a\ttrivial")
  | "st.clock" =>
    match l.int "t" with
    | .ok t => ret { st with clock := t } (.ok "ok\ttrivial")
    | .error e => ret st (.error e)
  | "st.put_seeder" | "st.put_leecher" | "st.graduate" =>
    match l.bytes "ih", l.bytes "pk" with
    | .ok ih, .ok pk =>
      let p := peerOfKey pk
      let before := scrape st ih p.fam
      let st' := match l.op with
        | "st.put_seeder" => putSeeder st ih p
        | "st.put_leecher" => putLeecher st ih p
        | _ => graduate st ih p
      let after := scrape st' ih p.fam
      let tag := if before.1 + before.2 == after.1 + after.2 then (if before == after then "refresh" else "rolechange") else "join"
      ret st' (.ok ("ok\t" ++ tag))
    | _, _ => ret st (.error "bad args")
  | "st.del_seeder" | "st.del_leecher" =>
    match l.bytes "ih", l.bytes "pk" with
    | .ok ih, .ok pk =>
      let p := peerOfKey pk
      let (st', ok) := if l.op == "st.del_seeder" then deleteSeeder st ih p else deleteLeecher st ih p
      let gone := (swarm? st' ih p.fam).isNone
      ret st' (.ok (if ok then "ok\t" ++ (if gone then "lastleft" else "left") else "notexist\tnotexist"))
    | _, _ => ret st (.error "bad args")
  | "st.scrape" =>
    match l.bytes "ih", l.nat "fam" with
    | .ok ih, .ok f =>
      let (c, i) := scrape st ih (if f == 6 then .v6 else .v4)
      ret st (.ok (s!"c={c} i={i}\t" ++ (if c + i == 0 then "empty" else "counted")))
    | _, _ => ret st (.error "bad args")
  | "st.announce" =>
    match l.bytes "ih", l.bool "seeder", l.nat "nw", l.bytes "pk" with
    | .ok ih, .ok seeder, .ok nw, .ok pk =>
      let p := peerOfKey pk
      match swarm? st ih p.fam with
      | none => ret st (.ok "notexist\tnotexist")
      | some sw =>
        if l.get "got" == "ERR" then ret st (.ok "valid-but-impl-said-notexist\tmismatch") else
        match l.bytesList "got" with
        | .error e => ret st (.error e)
        | .ok got =>
          let S := AMap.keys sw.seeders
          let L := AMap.keys sw.leechers
          let ok := Select.validSelection S L seeder nw pk got
          let cut := (if seeder then L.length else S.length + (L.filter (· ≠ pk)).length) > nw
          let tag := (if seeder then "seeder" else "leecher") ++ (if cut then "+cap" else "") ++ (if !seeder && L.contains pk then "+selfexcl" else "") ++
            (if !seeder && !S.isEmpty && !L.isEmpty then "+both" else "")
          ret st (.ok ((if ok then s!"valid n={got.length}" else s!"INVALID selection S={hexList S} L={hexList L}") ++ "\t" ++ tag))
    | _, _, _, _ => ret st (.error "bad args")
  | "st.gc" =>
    match l.int "cutoff" with
    | .ok c =>
      let st' := gc st c
      let removed := ((totals st).2.1 + (totals st).2.2) - ((totals st').2.1 + (totals st').2.2)
      ret st' (.ok ("ok\t" ++ (if removed > 0 then "expired" else "nothing")))
    | .error e => ret st (.error e)
  | "st.bg_loop" =>
    -- the store's own expiry loop on a fresh store: one membership stamped at the (cached) clock `c`; ticks while
    -- that clock stands still, then at c + life/2, then at c + life
    match l.int "life", l.int "c" with
    | .ok life, .ok c =>
      let redis := l.get "kind" == "redis"
      let p : Peer := peerOfKey (List.replicate 20 1 ++ [26, 225, 10, 0, 0, 1])
      let ih : Bytes := List.replicate 20 7
      let s0 : DState := { redis := redis, mem := MemStore.init 2, clock := c }
      let s1 := putSeeder s0 ih p
      let tick (s : DState) (clock : Int) : DState :=
        if s.redis then { s with red := RedisStore.loopTick s.red clock life } else { s with mem := s.mem.loopTick clock life }
      let k (s : DState) : Nat := (scrape s ih .v4).1
      let a := tick s1 c
      let b := tick a (c + life / 2)
      let d := tick b (c + life)
      ret st (.ok (s!"frozen_kept={k a} half_kept={k b} full_kept={k d}\tbgloop"))
    | _, _ => ret st (.error "bad args")
  | "st.redis_gc_race" =>
    -- Any sequential order of {expiry pass with cutoff T, re-announce at a clock after T} keeps the peer:
    -- put-then-pass leaves mtime > T; pass-then-put re-adds it. The model applies them in that order.
    match l.bytes "ih", l.bytes "pk" with
    | .ok ih, .ok pk =>
      let p := peerOfKey pk
      let st1 := putSeeder st ih p
      let st2 := gc { st1 with clock := st.clock + 1000000000 } (st.clock + 500000000)
      let st3 := putSeeder st2 ih p
      ret st3 (.ok (s!"reannounced_during_pass=1 kept={(scrape st3 ih p.fam).1}\tgcrace"))
    | _, _ => ret st (.error "bad args")
  | "st.redis_sched" =>
    if !st.redis then ret st (.ok "n/a\ttrivial") else
    match l.bytes "ih" with
    | .error e => ret st (.error e)
    | .ok ih =>
      match parseProgs ih st.clock (l.get "progs"), parseTrace (l.get "trace") with
      | some progs, some trace =>
        let c0 := RedisConc.Init st.red (fun t => match progs[t]? with | some (.ops l) => l | _ => [])
        let fin := trace.foldl (traceStep progs) { c := c0 }
        match fin.bad with
        | some m => ret st (.ok (s!"TRACE-NOT-A-MODEL-TRACE: {m}\tbadtrace"))
        | none =>
          let unfinished := ((List.range progs.length).filter fun t => !(fin.c.thr t).pending.isEmpty || !(fin.c.thr t).todo.isEmpty).length
          let mid := fin.mid.getD fin.c.s
          let isAnn (o : RedisConc.AOp) : Bool := match o with | .gcHash .. => false | .gcIdx .. => false | _ => true
          let lg := ",".intercalate ((fin.c.log.filter fun e => isAnn e.2.1).map fun (t, _, r) => s!"{t}:{if r then "ok" else "notexist"}")
          let groups := (fin.c.log.filter fun e => !isAnn e.2.1).length
          ret { st with red := fin.c.s }
            (.ok (s!"mid={dumpRedis mid} log=[{lg}]" ++ (if unfinished > 0 then s!" UNFINISHED={unfinished}" else "") ++ "\t" ++
                  (if groups > 0 then s!"collector-groups{groups}" else "announce-only")))
      | _, _ => ret st (.error "bad args")
  | "st.redis_gc_double" =>
    -- two expiry passes of two instances overlapping on an emptied swarm: in any sequential order the first
    -- unregisters it and decrements the infohash count, the second finds nothing to do
    match l.bytes "ih", l.bytes "pk" with
    | .ok ih, .ok pk =>
      let p := peerOfKey pk
      let st1 := putSeeder st ih p
      let st2 := (deleteSeeder st1 ih p).1
      let st3 := gc (gc st2 st.clock) st.clock
      ret st3 (.ok (s!"second_pass_inside_first=1 infohashes={(totals st3).1}\tgcdouble"))
    | _, _ => ret st (.error "bad args")
  | "st.dump" => ret st (.ok ((if st.redis then dumpRedis st.red else dump st.mem) ++ "\tdump"))
  | "st.totals" =>
    let (a, b, c) := totals st
    ret st (.ok (s!"ih={a} s={b} l={c}\ttotals"))
  | _ => none

end DStore
