import Chihaya.Driver.Proto
import Chihaya.Driver.DBencode
import Chihaya.Driver.DHttpParse
import Chihaya.Model.HttpWrite
open Proto HttpWrite

namespace DHttpWrite

/-- peers as `id(20) ++ port(2) ++ ip(4|16)` hex blobs -/
def peersOf (fam : Fam) (l : List Bytes) : List Peer :=
  l.map fun b => { id := b.take 20, port := Bytes.toNatBE ((b.drop 20).take 2), ip := b.drop 22, fam := fam }

def opAnnounce (l : Line) : Except String String := do
  let iptext ← DHttpParse.parseMap (l.get "iptext")
  let ipText : Bytes → Bytes := fun ip => match iptext.find? (·.1 == ip) with
    | some (_, some t) => t
    | _ => [63]
  let r : AnnResp := { compact := (← l.bool "compact"), complete := (← l.nat "complete"), incomplete := (← l.nat "incomplete"),
                       interval := (← l.int "interval"), minInterval := (← l.int "mininterval"),
                       v4peers := peersOf .v4 (← l.bytesList "p4"), v6peers := peersOf .v6 (← l.bytesList "p6") }
  match writeAnnounce ipText r with
  | none => pure "PANIC\tpanic"
  | some v =>
    let tag := (if r.compact then "compact" else "dict") ++ (if r.v4peers.isEmpty then "" else "+v4") ++ (if r.v6peers.isEmpty then "" else "+v6")
    -- self-check of the C19 round trip on this very value
    let rt := match Bencode.decodeAll (Bencode.enc v) with | some v' => DBencode.canon v' == DBencode.canon v | none => false
    pure (s!"body={DBencode.canon v} rt={b01 rt}\t{tag}")

def opScrape (l : Line) : Except String String := do
  let ihs ← l.bytesList "ihs"
  let cs := DUdpNat (l.get "cs")
  let is := DUdpNat (l.get "is")
  let files : List Scrape := (List.range ihs.length).map fun i =>
    { infoHash := ihs.getD i [], snatches := 0, complete := cs.getD i 0, incomplete := is.getD i 0 }
  let v := writeScrape { files := files }
  pure (s!"body={DBencode.canon v}\t" ++ (if ihs.length > 1 then "multi" else "single"))
where
  DUdpNat (s : String) : List Nat := if s == "-" || s == "" then [] else (s.splitOn ",").filterMap String.toNat?

def opError (l : Line) : Except String String := do
  let cls := l.get "cls"
  let msg ← l.bytes "msg"
  if cls == "client" then
    pure (s!"body={DBencode.canon (.dict [(kFailure, .str msg)])}\tclient")
  else
    -- wording of the generic message is not pinned: the harness reports `GENERIC` when the body is
    -- the same for two different internal errors and contains neither
    pure ("body=GENERIC\tinternal")

def handle (l : Line) : Option (Except String String) :=
  match l.op with
  | "httpw.announce" => some (opAnnounce l)
  | "httpw.scrape" => some (opScrape l)
  | "httpw.error" => some (opError l)
  -- a request turned away because Stop has begun (D36) is answered like any failure that is not the client's fault
  | "httpw.turned_away" => some (pure "body=GENERIC logic_calls=0\tturned-away")
  | _ => none

end DHttpWrite
