import Chihaya.Driver.Proto
import Chihaya.Model.VarInterval
open Proto VarInterval

namespace DVarInterval

def cfgOf (l : Line) : Except String Cfg := do
  pure { pn := ← l.int "pn", pd := ← l.nat "pd", maxDelta := ← l.int "delta", modifyMin := ← l.bool "mm" }

/-- `vi.handle ih= pid= pn= pd= delta= mm= iv= miv=` → `iv=<ns> miv=<ns>` | `PANIC` -/
def opHandle (l : Line) : Except String String := do
  let c ← cfgOf l
  let ih ← l.bytes "ih"
  let pid ← l.bytes "pid"
  let iv ← l.int "iv"
  let miv ← l.int "miv"
  if !checkConfig c then pure "refused\trefuse" else   -- `NewHook` refuses the configuration
  match handle c ih pid iv miv with
  | none => pure "PANIC\tpanic"
  | some (a, b) =>
    let tag := if a == iv then "unmodified" else if b == miv then "modified" else "modified+min"
    pure (s!"iv={a} miv={b}\t{tag}")

/-- `vi.check pn= pd= delta= mm=` → `ok` | `refused` -/
def opCheck (l : Line) : Except String String := do
  let c ← cfgOf l
  pure (if checkConfig c then "ok\taccept" else "refused\trefuse")

def handle' (l : Line) : Option (Except String String) :=
  match l.op with
  | "vi.handle" => some (opHandle l)
  | "vi.check" => some (opCheck l)
  | _ => none

end DVarInterval
