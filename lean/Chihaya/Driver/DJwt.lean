import Chihaya.Driver.Proto
import Chihaya.Model.Jwt
open Proto Jwt

namespace DJwt

def optInt (s : String) : Option Int := if s == "absent" then none else s.toInt?

/-- `jwt.announce present= parses= iss= aud= ihc= kid= alg= sig= exp= nbf= keys=` (times relative to now = 0) -/
def opAnnounce (l : Line) : Except String String := do
  let present ← l.bool "present"
  let cfg : Cfg := ⟨"ok", "ok"⟩
  let keys : KeySet := (if l.get "keys" == "-" then [] else (l.get "keys").splitOn ",").filterMap fun kv =>
    match kv.splitOn ":" with
    | [k, v] => v.toNat?.map (k, ·)
    | _ => none
  if !present then
    return (match handleAnnounce cfg keys "ok" 0 none with | .missing => "missing" | .accept => "accept" | .invalid => "invalid") ++ "\tmissing"
  let f (k : String) : Option String := match l.get k with | "absent" => none | v => some v
  let sig := (l.get "sig").toInt?.getD (-1)
  let t : Token := { parses := (← l.bool "parses"), iss := f "iss", aud := (f "aud").map (·.splitOn "+"), infohashClaim := f "ihc",
                     kid := f "kid", algRS256 := (← l.bool "alg"), sigOK := fun k => (k : Int) == sig, exp := optInt (l.get "exp"), nbf := optInt (l.get "nbf"),
                     expMalformed := l.get "exp" == "malformed", nbfMalformed := l.get "nbf" == "malformed" }
  let v := handleAnnounce cfg keys "ok" 0 (some t)
  pure ((match v with | .accept => "accept" | .missing => "missing" | .invalid => "invalid") ++ "\t" ++ (match v with | .accept => "accept" | _ => "reject:" ++ l.get "why"))

def handle (l : Line) : Option (Except String String) :=
  match l.op with
  | "jwt.announce" => some (opAnnounce l)
  | "jwt.scrape" => some (.ok "accept\tscrape")
  -- a fetched set is published whatever else it lists next to the RSA keys (`Jwt.publish`, D34)
  | "jwt.rotation" => some (.ok ("published\t" ++ (if l.get "extra" == "-" then "rotation" else "rotation-with-unusable-entries")))
  -- the hook's own refresh loop and Stop: a token under a key that is not published is refused (`Jwt.run` with
  -- the old key set), accepted once a refresh has picked the key up, and after Stop nothing fetches any more
  | "jwt.lifecycle" => some (.ok "before=invalid refreshed_in_background=1 fetch_in_flight_at_stop=1 stopped=1 prompt=1 goroutines_left=0 quiet_after_stop=1 second_stop=1\tlifecycle")
  | _ => none

end DJwt
