import Chihaya.Model.Core
import Chihaya.Model.Bencode
/-!
# Model of `frontend/http/writer.go`

Responses are modelled as the `BVal` handed to the bencode encoder (the encoder itself is
`Bencode.enc`, C19); Go map iteration order = any permutation of the dictionary entries
(`BEquiv`). `net.IP.String` is a parameter (`ipText`).
-/
namespace HttpWrite
open Bencode Bytes

def k (s : String) : Bytes := Bytes.ofString s

def kComplete : Bytes := [99,111,109,112,108,101,116,101]
def kIncomplete : Bytes := [105,110,99,111,109,112,108,101,116,101]
def kInterval : Bytes := [105,110,116,101,114,118,97,108]
def kMinInterval : Bytes := [109,105,110,32,105,110,116,101,114,118,97,108]
def kPeers : Bytes := [112,101,101,114,115]
def kPeers6 : Bytes := [112,101,101,114,115,54]
def kPeerID : Bytes := [112,101,101,114,32,105,100]
def kIP : Bytes := [105,112]
def kPort : Bytes := [112,111,114,116]
def kFiles : Bytes := [102,105,108,101,115]
def kFailure : Bytes := [102,97,105,108,117,114,101,32,114,101,97,115,111,110]

def v4InV6Prefix : Bytes := [0,0,0,0,0,0,0,0,0,0,255,255]

/-- `net.IP.To16` -/
def to16 (ip : Bytes) : Option Bytes :=
  if ip.length = 16 then some ip else if ip.length = 4 then some (v4InV6Prefix ++ ip) else none

/-- `compact4`: panics on a non-IPv4 address -/
def compact4 (p : Peer) : Option Bytes := (Sanitize.to4 p.ip).map (· ++ be16 (p.port % 2^16))
/-- `compact6`: panics on an address that is neither 4 nor 16 bytes -/
def compact6 (p : Peer) : Option Bytes := (to16 p.ip).map (· ++ be16 (p.port % 2^16))

def mapM' {α β : Type} (f : α → Option β) : List α → Option (List β)
  | [] => some []
  | x :: xs => match f x, mapM' f xs with
    | some y, some ys => some (y :: ys)
    | _, _ => none

def peerDict (ipText : Bytes → Bytes) (p : Peer) : BVal :=
  .dict [(kPeerID, .str p.id), (kIP, .str (ipText p.ip)), (kPort, .int (p.port % 2^16))]

def seconds (d : Int) : Int := Int.tdiv d 1000000000

/-- `WriteAnnounceResponse`; `none` = a `compact4`/`compact6` panic -/
def writeAnnounce (ipText : Bytes → Bytes) (r : AnnResp) : Option BVal :=
  let base : List (Bytes × BVal) :=
    [(kComplete, .int r.complete), (kIncomplete, .int r.incomplete), (kInterval, .int (seconds r.interval)),
     (kMinInterval, .int (seconds r.minInterval))]
  if r.compact then
    match mapM' compact4 r.v4peers, mapM' compact6 r.v6peers with
    | some c4, some c6 =>
      let p4 := c4.flatten
      let p6 := c6.flatten
      some (.dict (base ++ (if p4.isEmpty then [] else [(kPeers, .str p4)]) ++ (if p6.isEmpty then [] else [(kPeers6, .str p6)])))
    | _, _ => none
  else
    some (.dict (base ++ [(kPeers, .list ((r.v4peers ++ r.v6peers).map (peerDict ipText)))]))

def scrapeEntry (s : Scrape) : BVal := .dict [(kComplete, .int s.complete), (kIncomplete, .int s.incomplete)]

/-- `WriteScrapeResponse`: a Go map keyed by the raw infohash — a repeated infohash overwrites -/
def writeScrape (r : ScrapeResp) : BVal :=
  .dict [(kFiles, .dict (r.files.foldl (fun acc s => Bencode.insert s.infoHash (scrapeEntry s) acc) []))]

def genericInternal : Bytes := Bytes.ofString "internal server error"

/-- `WriteError` -/
def writeError (e : ErrClass) : BVal :=
  .dict [(kFailure, .str (match e with | .client m => Bytes.ofString m | .internal _ => genericInternal))]

end HttpWrite
