import Chihaya.Model.Core
import Chihaya.Base.AMap
/-!
# Model of `storage/memory/peer_store.go`

`2·n` shards (first half IPv4, second half IPv6), each a Go map infohash ↦ swarm, a swarm being two
Go maps peer-key ↦ mtime, plus the two per-shard counters. Maps are association lists (`AMap`);
list order = Go's iteration order, so every theorem covers every order.

Single-role repair (DESIGN §6 D1): `PutSeeder` removes the peer's leecher entry and `PutLeecher`
its seeder entry, adjusting the counters.

Counters are `Int` although the code uses `uint64`: the theorem that they equal list lengths shows
they never go negative, i.e. the `uint64` never wraps.
-/
namespace MemStore
open Bytes

abbrev PMap := List (Bytes × Int)

structure Swarm where
  seeders : PMap
  leechers : PMap
  deriving Repr, Inhabited

structure Shard where
  swarms : List (Bytes × Swarm)
  nS : Int
  nL : Int
  deriving Repr, Inhabited

structure Mem where
  n : Nat                -- configured shard count (per family)
  shards : List Shard    -- length 2·n
  deriving Repr, Inhabited

def emptySwarm : Swarm := ⟨[], []⟩
def emptyShard : Shard := ⟨[], 0, 0⟩

def init (n : Nat) : Mem := { n := n, shards := List.replicate (2 * n) emptyShard }

/-- `newPeerKey`: id ‖ big-endian port ‖ ip -/
def peerKey (p : Peer) : Bytes := p.id ++ be16 p.port ++ p.ip

/-- `shardIndex` -/
def shardIndex (n : Nat) (ih : Bytes) (f : Fam) : Nat :=
  toNatBE (ih.take 4) % n + (if f = .v6 then n else 0)

def Mem.shard (m : Mem) (i : Nat) : Shard := m.shards.getD i emptyShard
def Mem.setShard (m : Mem) (i : Nat) (s : Shard) : Mem := { m with shards := m.shards.set i s }

def Shard.swarm (s : Shard) (ih : Bytes) : Swarm := (AMap.get s.swarms ih).getD emptySwarm

/-- store a swarm back, dropping it when it became empty (`len(seeders)|len(leechers) == 0`) -/
def Shard.storeOrDrop (swarms : List (Bytes × Swarm)) (ih : Bytes) (sw : Swarm) : List (Bytes × Swarm) :=
  if sw.seeders.isEmpty && sw.leechers.isEmpty then AMap.erase swarms ih else AMap.set swarms ih sw

def Shard.putSeeder (s : Shard) (ih pk : Bytes) (now : Int) : Shard :=
  let sw := s.swarm ih
  let wasL := AMap.has sw.leechers pk
  let wasS := AMap.has sw.seeders pk
  { swarms := AMap.set s.swarms ih ⟨AMap.set sw.seeders pk now, if wasL then AMap.erase sw.leechers pk else sw.leechers⟩,
    nS := if wasS then s.nS else s.nS + 1,
    nL := if wasL then s.nL - 1 else s.nL }

def Shard.putLeecher (s : Shard) (ih pk : Bytes) (now : Int) : Shard :=
  let sw := s.swarm ih
  let wasL := AMap.has sw.leechers pk
  let wasS := AMap.has sw.seeders pk
  { swarms := AMap.set s.swarms ih ⟨if wasS then AMap.erase sw.seeders pk else sw.seeders, AMap.set sw.leechers pk now⟩,
    nS := if wasS then s.nS - 1 else s.nS,
    nL := if wasL then s.nL else s.nL + 1 }

/-- `GraduateLeecher` -/
def Shard.graduate (s : Shard) (ih pk : Bytes) (now : Int) : Shard := s.putSeeder ih pk now

/-- `DeleteSeeder`: `false` = `ErrResourceDoesNotExist` -/
def Shard.deleteSeeder (s : Shard) (ih pk : Bytes) : Shard × Bool :=
  match AMap.get s.swarms ih with
  | none => (s, false)
  | some sw =>
    if !AMap.has sw.seeders pk then (s, false)
    else ({ swarms := Shard.storeOrDrop s.swarms ih ⟨AMap.erase sw.seeders pk, sw.leechers⟩, nS := s.nS - 1, nL := s.nL }, true)

def Shard.deleteLeecher (s : Shard) (ih pk : Bytes) : Shard × Bool :=
  match AMap.get s.swarms ih with
  | none => (s, false)
  | some sw =>
    if !AMap.has sw.leechers pk then (s, false)
    else ({ swarms := Shard.storeOrDrop s.swarms ih ⟨sw.seeders, AMap.erase sw.leechers pk⟩, nS := s.nS, nL := s.nL - 1 }, true)

/-- one per-swarm step of `collectGarbage` (under the shard's write lock) -/
def Shard.gcSwarm (s : Shard) (ih : Bytes) (cutoff : Int) : Shard :=
  match AMap.get s.swarms ih with
  | none => s                                   -- `stillExists` re-check
  | some sw =>
    let l' := sw.leechers.filter (fun e => decide (e.2 > cutoff))
    let s' := sw.seeders.filter (fun e => decide (e.2 > cutoff))
    { swarms := Shard.storeOrDrop s.swarms ih ⟨s', l'⟩,
      nS := s.nS - ((sw.seeders.length : Int) - s'.length),
      nL := s.nL - ((sw.leechers.length : Int) - l'.length) }

/-- the pass over one shard: snapshot of the infohashes, then one step per infohash -/
def Shard.gc (s : Shard) (cutoff : Int) : Shard :=
  (AMap.keys s.swarms).foldl (fun acc ih => acc.gcSwarm ih cutoff) s

/-! ## store-level operations -/

def Mem.onShard (m : Mem) (ih : Bytes) (f : Fam) (g : Shard → Shard) : Mem :=
  let i := shardIndex m.n ih f
  m.setShard i (g (m.shard i))

def Mem.putSeeder (m : Mem) (ih : Bytes) (p : Peer) (now : Int) : Mem := m.onShard ih p.fam (·.putSeeder ih (peerKey p) now)
def Mem.putLeecher (m : Mem) (ih : Bytes) (p : Peer) (now : Int) : Mem := m.onShard ih p.fam (·.putLeecher ih (peerKey p) now)
def Mem.graduate (m : Mem) (ih : Bytes) (p : Peer) (now : Int) : Mem := m.onShard ih p.fam (·.graduate ih (peerKey p) now)

def Mem.deleteSeeder (m : Mem) (ih : Bytes) (p : Peer) : Mem × Bool :=
  let i := shardIndex m.n ih p.fam
  let r := (m.shard i).deleteSeeder ih (peerKey p)
  (m.setShard i r.1, r.2)

def Mem.deleteLeecher (m : Mem) (ih : Bytes) (p : Peer) : Mem × Bool :=
  let i := shardIndex m.n ih p.fam
  let r := (m.shard i).deleteLeecher ih (peerKey p)
  (m.setShard i r.1, r.2)

def Mem.gc (m : Mem) (cutoff : Int) : Mem := { m with shards := m.shards.map (·.gc cutoff) }

/-- the cutoff the stores' own expiry loops pass at a tick: the tracker's (cached) clock, which is
the clock memberships are stamped with, minus the validated peer lifetime -/
def loopCutoff (clock life : Int) : Int := clock - life

/-- one tick of the memory store's background expiry loop at cached clock `clock` -/
def Mem.loopTick (m : Mem) (clock life : Int) : Mem := m.gc (loopCutoff clock life)

/-- `ScrapeSwarm`: (complete, incomplete) -/
def Mem.scrape (m : Mem) (ih : Bytes) (f : Fam) : Nat × Nat :=
  let sw := (m.shard (shardIndex m.n ih f)).swarm ih
  (sw.seeders.length, sw.leechers.length)

/-- the swarm a request for `(ih, f)` sees; `none` = not tracked (`ErrResourceDoesNotExist`) -/
def Mem.swarm? (m : Mem) (ih : Bytes) (f : Fam) : Option Swarm := AMap.get (m.shard (shardIndex m.n ih f)).swarms ih

/-- `AnnouncePeers` on the lists in their stored (iteration) order -/
def selectPeers (sw : Swarm) (seeder : Bool) (numWant : Nat) (self : Bytes) : List Bytes :=
  if seeder then (AMap.keys sw.leechers).take numWant
  else
    let s := (AMap.keys sw.seeders).take numWant
    s ++ ((AMap.keys sw.leechers).filter (· ≠ self)).take (numWant - s.length)

def Mem.announcePeers (m : Mem) (ih : Bytes) (seeder : Bool) (numWant : Nat) (p : Peer) : Option (List Bytes) :=
  (m.swarm? ih p.fam).map (selectPeers · seeder numWant (peerKey p))

/-- `populateProm`: (infohashes, seeders, leechers) summed over all shards -/
def Mem.totals (m : Mem) : Int × Int × Int :=
  m.shards.foldl (fun (a : Int × Int × Int) s => (a.1 + s.swarms.length, a.2.1 + s.nS, a.2.2 + s.nL)) (0, 0, 0)

end MemStore
