import Chihaya.Model.Core
import Chihaya.Base.Decimal
/-!
# Model of `bittorrent/params.go` (`ParseURLData`, `parseQuery`, `QueryParams`)

External functions are parameters:
* `lower : Bytes → Bytes` — the normalisation of parameter keys. Since the repair D27 `parseQuery`
  lower-cases ASCII letters only and leaves every other byte alone: `asciiLower`, which is what the
  driver instantiates it with for every key (before D27 it was `strings.ToLower`, whose Unicode case
  folding maps U+0130 to `i` and U+212A to `k`, and the driver used the mapping the harness observed —
  a tie that could not see the aliasing). Most theorems hold for any `lower`; those that are about
  which keys reach a consulted parameter are stated for `asciiLower` (`Props/C06.lean`).
-/
namespace Query

def isHex (c : UInt8) : Bool :=
  (48 ≤ c.toNat && c.toNat ≤ 57) || (97 ≤ c.toNat && c.toNat ≤ 102) || (65 ≤ c.toNat && c.toNat ≤ 70)

def unhex (c : UInt8) : Nat :=
  if 48 ≤ c.toNat ∧ c.toNat ≤ 57 then c.toNat - 48
  else if 97 ≤ c.toNat ∧ c.toNat ≤ 102 then c.toNat - 87
  else c.toNat - 55

/-- `url.QueryUnescape`: `%XX` ↦ byte, `+` ↦ space; any `%` not followed by two hex digits is an error -/
def unescape : Bytes → Option Bytes
  | [] => some []
  | c :: rest =>
    if c = 37 then
      match rest with
      | a :: b :: rest' =>
        if isHex a && isHex b then
          match unescape rest' with
          | some r => some (UInt8.ofNat (unhex a * 16 + unhex b) :: r)
          | none => none
        else none
      | _ => none
    else
      match unescape rest with
      | some r => some ((if c = 43 then 32 else c) :: r)
      | none => none

def asciiLowerByte (c : UInt8) : UInt8 := if 65 ≤ c.toNat ∧ c.toNat ≤ 90 then c + 32 else c
def asciiLower (s : Bytes) : Bytes := s.map asciiLowerByte
def isASCII (s : Bytes) : Bool := s.all (·.toNat < 128)

/-- split at every `sep`-class byte -/
def splitOn (p : UInt8 → Bool) : Bytes → List Bytes
  | [] => [[]]
  | c :: rest =>
    match splitOn p rest with
    | [] => [[c]]
    | s :: ss => if p c then [] :: s :: ss else (c :: s) :: ss

/-- cut at the first byte satisfying `p`: (before, after) or `none` if there is none -/
def cutAt (p : UInt8 → Bool) : Bytes → Option (Bytes × Bytes)
  | [] => none
  | c :: rest => if p c then some ([], rest) else
      match cutAt p rest with
      | some (a, b) => some (c :: a, b)
      | none => none

structure Parsed where
  path : Bytes
  query : Bytes
  params : List (Bytes × Bytes)     -- in input order, keys lower-cased; lookup takes the last
  infoHashes : List Bytes
  deriving Repr, Inhabited

def errInvalidInfohash : ErrClass := .client "provided invalid infohash"
def errInvalidQueryEscape : ErrClass := .client "invalid query escape"

def infoHashKey : Bytes := [105, 110, 102, 111, 95, 104, 97, 115, 104]   -- "info_hash"

/-- one `key[=value]` segment -/
def parseSegment (lower : Bytes → Bytes) (seg : Bytes) (acc : List (Bytes × Bytes) × List Bytes) :
    Except ErrClass (List (Bytes × Bytes) × List Bytes) :=
  if seg.isEmpty then .ok acc else
  let (k, v) := match cutAt (· = 61) seg with
    | some (k, v) => (k, v)
    | none => (seg, [])
  match unescape k with
  | none => .error errInvalidQueryEscape
  | some k' =>
    match unescape v with
    | none => .error errInvalidQueryEscape
    | some v' =>
      if k' = infoHashKey then
        if v'.length ≠ 20 then .error errInvalidInfohash else .ok (acc.1, acc.2 ++ [v'])
      else .ok (acc.1 ++ [(lower k', v')], acc.2)

def parseSegments (lower : Bytes → Bytes) : List Bytes → List (Bytes × Bytes) × List Bytes →
    Except ErrClass (List (Bytes × Bytes) × List Bytes)
  | [], acc => .ok acc
  | s :: ss, acc =>
    match parseSegment lower s acc with
    | .error e => .error e
    | .ok acc' => parseSegments lower ss acc'

/-- `ParseURLData` -/
def parseURLData (lower : Bytes → Bytes) (urlData : Bytes) : Except ErrClass Parsed :=
  let (path, query) := match cutAt (· = 63) urlData with
    | some (p, q) => (p, q)
    | none => (urlData, [])
  match parseSegments lower (splitOn (fun c => c = 38 || c = 59) query) ([], []) with
  | .error e => .error e
  | .ok (ps, ihs) => .ok { path := path, query := query, params := ps, infoHashes := ihs }

/-- `QueryParams.String`: the last value stored under the key -/
def get (ps : List (Bytes × Bytes)) (k : Bytes) : Option Bytes :=
  (ps.reverse.find? (·.1 = k)).map (·.2)

inductive UintResult where
  | notFound | bad | ok (n : Nat)
  deriving DecidableEq, Repr

/-- `QueryParams.Uint(key, bits)` -/
def uint (ps : List (Bytes × Bytes)) (k : Bytes) (bits : Nat) : UintResult :=
  match get ps k with
  | none => .notFound
  | some s => match Decimal.parseUint bits s with
    | some n => .ok n
    | none => .bad

end Query
