import Chihaya.Base.Bytes
/-!
# Model of `middleware/clientapproval`, `middleware/torrentapproval`, `bittorrent.NewClientID`
-/
namespace Approval

/-- `bittorrent.NewClientID` on a 20-byte peer ID -/
def clientID (pid : Bytes) : Bytes :=
  if pid.head? = some 45 then (pid.drop 1).take 6 else pid.take 6

/-- `encoding/hex` digit value -/
def hexNibble (c : UInt8) : Option Nat :=
  if 48 ≤ c.toNat ∧ c.toNat ≤ 57 then some (c.toNat - 48)
  else if 97 ≤ c.toNat ∧ c.toNat ≤ 102 then some (c.toNat - 87)
  else if 65 ≤ c.toNat ∧ c.toNat ≤ 70 then some (c.toNat - 55)
  else none

/-- `hex.DecodeString`: even length, hex digits of either case -/
def hexDecode : Bytes → Option Bytes
  | [] => some []
  | [_] => none
  | a :: b :: rest =>
    match hexNibble a, hexNibble b, hexDecode rest with
    | some x, some y, some r => some (UInt8.ofNat (x * 16 + y) :: r)
    | _, _, _ => none

structure Hook where
  approved : List Bytes
  unapproved : List Bytes

/-- `clientapproval.NewHook`: both lists ⇒ refused; every entry must be 6 bytes -/
def newClientHook (white black : List Bytes) : Option Hook :=
  if !white.isEmpty && !black.isEmpty then none
  else if white.all (·.length = 6) && black.all (·.length = 6) then some ⟨white, black⟩
  else none

def decodeAll20 : List Bytes → Option (List Bytes)
  | [] => some []
  | s :: rest =>
    match hexDecode s with
    | none => none
    | some b => if b.length = 20 then (decodeAll20 rest).map (b :: ·) else none

/-- `torrentapproval.NewHook`: both lists ⇒ refused; every entry must be 40 hex digits -/
def newTorrentHook (white black : List Bytes) : Option Hook :=
  if !white.isEmpty && !black.isEmpty then none
  else match decodeAll20 white, decodeAll20 black with
    | some w, some b => some ⟨w, b⟩
    | _, _ => none

/-- `HandleAnnounce` of either hook on the key it looks up (client ID / infohash): accept? -/
def accepts (h : Hook) (key : Bytes) : Bool :=
  (h.approved.isEmpty || h.approved.contains key) && (h.unapproved.isEmpty || !h.unapproved.contains key)

def clientAccepts (h : Hook) (pid : Bytes) : Bool := accepts h (clientID pid)

/-- `HandleScrape` of either hook -/
def scrapeAccepts (_ : Hook) : Bool := true

end Approval
