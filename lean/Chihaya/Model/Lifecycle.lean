/-!
# Life-cycle models: `pkg/stop` groups, the UDP and HTTP frontends' start/serve/stop protocols,
and the stop / reload sequence of `cmd/chihaya`.

Goroutines, channels and wait-groups are abstracted to counters and phases; every transition is
one atomic protocol step; theorems quantify over all interleavings (all event sequences).
`net/http.Server.Shutdown` is assumed to close the listeners and wait for in-flight handlers;
`(*UDPConn).SetReadDeadline` to make the serve loop observe `closing`.

The frontends are modelled with the repairs of DESIGN §6 D5: post-response hooks are tracked by the
wait-group `Stop` waits for, and the HTTP servers exist before `NewFrontend` returns; the protocols
as they were before the repair are kept as `…Old` with their counter-example traces.
-/
namespace Lifecycle

/-! ## stop groups -/

/-- `Channel.Done(errs...)`: the error slice is delivered iff its first element is non-nil -/
def done (errs : List (Option String)) : List (Option String) :=
  match errs with
  | some _ :: _ => errs
  | _ => []

/-- `Group.Stop().Wait()`: every member's `Stop` is called once, in order; the result is the
concatenation of the non-empty error slices they deliver, delivered through `Done` again -/
def groupStop (members : List (List String)) : List String :=
  let all := members.flatten
  all

/-! ## UDP frontend -/

structure Udp where
  closing : Bool := false        -- `closing` channel closed
  serving : Bool := false        -- serve loop running (holds one wait-group count)
  served : Bool := false         -- the serve goroutine has started (and possibly exited)
  handlers : Nat := 0            -- request handler goroutines (one count each)
  posthooks : Nat := 0           -- post-response hook goroutines (one count each, tracked)
  socketOpen : Bool := true
  stopPhase : Nat := 0           -- 0 not requested; 1 closing, waiting for the wait-group; 2 socket closed, result delivered
  deriving DecidableEq, Repr

inductive UEv where
  | serveStart                   -- the goroutine started by NewFrontend reaches `serve()`
  | packet                       -- `ReadFromUDP` returned a datagram; a handler goroutine is started
  | handlerDone (post : Bool)    -- a handler returns; `post`: it answered successfully and started the post-response hook
  | postDone                     -- a post-response hook returns
  | serveExit                    -- the serve loop observes `closing` and returns
  | stopBegin                    -- `Stop()`: close(closing), SetReadDeadline
  | stopFinish                   -- wait-group reached zero: socket.Close(), result delivered
  deriving DecidableEq, Repr

/-- the wait-group count: the serving goroutine holds one from `NewFrontend` on (repair D19: it is counted before it
is started) until it returns — so also while it has not reached `serve()` yet —, every handler and every
post-response hook one each -/
def Udp.wg (s : Udp) : Nat := (if !s.served || s.serving then 1 else 0) + s.handlers + s.posthooks

/-- one protocol step; `none` = not enabled in this state -/
def Udp.step (s : Udp) : UEv → Option Udp
  | .serveStart => if s.served then none else some (if s.closing then { s with served := true } else { s with served := true, serving := true })
  | .packet => if s.serving && s.socketOpen then some { s with handlers := s.handlers + 1 } else none
  | .handlerDone post =>
    if s.handlers = 0 then none
    else some { s with handlers := s.handlers - 1, posthooks := if post then s.posthooks + 1 else s.posthooks }
  | .postDone => if s.posthooks = 0 then none else some { s with posthooks := s.posthooks - 1 }
  | .serveExit => if s.serving && s.closing then some { s with serving := false } else none
  | .stopBegin => if s.stopPhase = 0 then some { s with closing := true, stopPhase := 1 } else none
  | .stopFinish => if s.stopPhase = 1 ∧ s.wg = 0 then some { s with socketOpen := false, stopPhase := 2 } else none

def Udp.run (s : Udp) : List UEv → Option Udp
  | [] => some s
  | e :: es => match s.step e with
    | none => none
    | some s' => Udp.run s' es

/-- the protocol before the repair D19: the serving goroutine registers with the wait-group only inside `serve()`,
so a `Stop` that comes first finds nothing to wait for -/
def UdpPreD19.step (s : Udp) : UEv → Option Udp
  | .stopFinish => if s.stopPhase = 1 ∧ (if s.serving then 1 else 0) + s.handlers + s.posthooks = 0 then some { s with socketOpen := false, stopPhase := 2 } else none
  | e => s.step e

def UdpPreD19.run (s : Udp) : List UEv → Option Udp
  | [] => some s
  | e :: es => match UdpPreD19.step s e with
    | none => none
    | some s' => UdpPreD19.run s' es

/-- the protocol before the repair: post-response hooks are not counted by the wait-group -/
def UdpOld.step (s : Udp) : UEv → Option Udp
  | .stopFinish => if s.stopPhase = 1 ∧ (if s.serving then 1 else 0) + s.handlers = 0 then some { s with socketOpen := false, stopPhase := 2 } else none
  | e => s.step e

def UdpOld.run (s : Udp) : List UEv → Option Udp
  | [] => some s
  | e :: es => match UdpOld.step s e with
    | none => none
    | some s' => UdpOld.run s' es

/-! ## HTTP frontend -/

structure Http where
  srvCreated : Bool := false     -- `f.srv` assigned
  serveStarted : Bool := false   -- the serving goroutine called `srv.Serve`
  serveRunning : Bool := false   -- … and has not returned (one wait-group count)
  listenerOpen : Bool := true
  handlers : Nat := 0            -- in-flight handlers (http.Server tracks them)
  posthooks : Nat := 0           -- post-response hook goroutines (wait-group)
  shutdown : Bool := false       -- Shutdown called on the server
  stopPhase : Nat := 0           -- 0 none; 1 Shutdown issued (if a server exists) and waiting; 2 completed
  sawServer : Bool := false      -- whether Stop found `f.srv != nil`
  deriving DecidableEq, Repr

inductive HEv where
  | serveStart                   -- the serving goroutine runs
  | request                      -- a connection is accepted and a handler starts
  | handlerDone (post : Bool)
  | postDone
  | serveExit                    -- Serve returns http.ErrServerClosed (listener closed by then)
  | stopBegin
  | stopFinish
  deriving DecidableEq, Repr

/-- repaired protocol: the server is created (and counted) by NewFrontend before it returns -/
def Http.init : Http := { srvCreated := true, serveRunning := true }

def Http.step (s : Http) : HEv → Option Http
  | .serveStart => if s.serveStarted then none else some { s with serveStarted := true }
  | .request => if s.serveStarted && s.serveRunning && s.listenerOpen && !s.shutdown then some { s with handlers := s.handlers + 1 } else none
  | .handlerDone post =>
    if s.handlers = 0 then none
    else some { s with handlers := s.handlers - 1, posthooks := if post then s.posthooks + 1 else s.posthooks }
  | .postDone => if s.posthooks = 0 then none else some { s with posthooks := s.posthooks - 1 }
  | .serveExit => if s.serveStarted && s.serveRunning && s.shutdown then some { s with serveRunning := false, listenerOpen := false } else none
  | .stopBegin =>
    if s.stopPhase ≠ 0 then none
    else some { s with stopPhase := 1, sawServer := s.srvCreated, shutdown := s.srvCreated, listenerOpen := if s.srvCreated then false else s.listenerOpen }
  | .stopFinish =>
    -- Shutdown returned (no in-flight handler), then the wait-group (serving goroutine + post-hooks) reached zero
    if s.stopPhase = 1 ∧ s.handlers = 0 ∧ s.posthooks = 0 ∧ (s.serveRunning = false) then some { s with stopPhase := 2 } else none

def Http.run (s : Http) : List HEv → Option Http
  | [] => some s
  | e :: es => match s.step e with
    | none => none
    | some s' => Http.run s' es

/-- protocol before the repair: the server is assigned on the serving goroutine; Stop does not wait
for post-hooks nor for the serving goroutine -/
def HttpOld.init : Http := { serveRunning := true }

def HttpOld.step (s : Http) : HEv → Option Http
  | .serveStart => if s.serveStarted then none else some { s with serveStarted := true, srvCreated := true }
  | .stopFinish => if s.stopPhase = 1 ∧ (s.sawServer = false ∨ s.handlers = 0) then some { s with stopPhase := 2 } else none
  | e => s.step e

def HttpOld.run (s : Http) : List HEv → Option Http
  | [] => some s
  | e :: es => match HttpOld.step s e with
    | none => none
    | some s' => HttpOld.run s' es

/-! ## stop / reload sequence of `cmd/chihaya` -/

structure Run (σ : Type) where
  frontendsUp : Bool
  logicUp : Bool
  storeUp : Bool
  store : σ

/-- `Run.Stop(keepPeerStore)`: frontends (and metrics), then the logic, then the store unless kept -/
def Run.stop {σ : Type} (r : Run σ) (keep : Bool) : Run σ × List String :=
  ({ r with frontendsUp := false, logicUp := false, storeUp := r.storeUp && keep }, ["frontends", "logic"] ++ (if keep then [] else ["store"]))

/-- `Run.Start(ps)`: the given store is used as is -/
def Run.start {σ : Type} (r : Run σ) : Run σ := { r with frontendsUp := true, logicUp := true }

def Run.reload {σ : Type} (r : Run σ) : Run σ := (r.stop true).1.start

/-! ## the signal loop of `cmd/chihaya` (`RootRunCmdFunc`)

`reloadDone` is the state of the reload context's `Done()` channel. `signal.NotifyContext` closes it when
the first signal arrives and it stays closed; the repaired loop arms a fresh context before it handles a
reload (`rearm := true`), the original did not. -/
structure SigLoop where
  reloadDone : Bool := false
  termDone : Bool := false
  reloads : Nat := 0
  exited : Bool := false
  deriving Repr, DecidableEq

inductive SigEv where
  | usr1      -- the reload signal is delivered
  | term      -- SIGINT / SIGTERM is delivered
  | select    -- one iteration of the loop's `select` (the reload case is taken when both are ready)
  deriving Repr, DecidableEq

def SigLoop.step (rearm : Bool) (s : SigLoop) : SigEv → SigLoop
  | .usr1 => if s.exited then s else { s with reloadDone := true }
  | .term => if s.exited then s else { s with termDone := true }
  | .select =>
    if s.exited then s
    else if s.reloadDone then { s with reloadDone := !rearm, reloads := s.reloads + 1 }
    else if s.termDone then { s with exited := true }
    else s

def SigLoop.run (rearm : Bool) (s : SigLoop) (evs : List SigEv) : SigLoop := evs.foldl (SigLoop.step rearm) s

/-! ### Requests that reach a handler while the HTTP frontend is being stopped (D36)

`Http` above takes `http.Server.Shutdown` at its word: it waits for the handlers in flight. It does not wait for all
of them: it closes every connection that is *idle* at the instant it looks and forgets it, and a kept-alive connection
(or one that is more than five seconds old and has not sent anything) stays "idle" until net/http has read the whole
next request — which is then handed to the handler all the same (`late`). Since D36 the frontend counts every handler
itself, under a lock, unless Stop has begun; then the request is turned away. -/

structure HLate where
  stopBegun : Bool := false
  tracked : Nat := 0      -- handlers (and their post-hooks) Stop waits for
  orphans : Nat := 0      -- handlers running that nothing waits for
  stopDone : Bool := false
  deriving DecidableEq, Repr

inductive LEv where
  | request (late : Bool)     -- a handler is entered; `late`: on a connection Shutdown has written off
  | done (orphan : Bool)      -- a handler (with its post-response hook) finishes
  | stopBegin
  | stopFinish
  deriving DecidableEq, Repr

/-- `gate = true`: the repaired frontend (handlers count themselves in unless Stop has begun) -/
def HLate.step (gate : Bool) (s : HLate) : LEv → Option HLate
  | .request late =>
    if gate then (if s.stopBegun then none else some { s with tracked := s.tracked + 1 })
    else if !s.stopBegun then some { s with tracked := s.tracked + 1 }
    else if late then some { s with orphans := s.orphans + 1 }   -- Shutdown does not know of it, the wait group not yet
    else none
  | .done orphan =>
    if orphan then (if s.orphans = 0 then none else some { s with orphans := s.orphans - 1 })
    else (if s.tracked = 0 then none else some { s with tracked := s.tracked - 1 })
  | .stopBegin => if s.stopBegun then none else some { s with stopBegun := true }
  | .stopFinish => if s.stopBegun && !s.stopDone && s.tracked = 0 then some { s with stopDone := true } else none

def HLate.run (gate : Bool) (s : HLate) : List LEv → Option HLate
  | [] => some s
  | e :: rest => match s.step gate e with
    | some s' => s'.run gate rest
    | none => none

/-! ## The metrics server (`pkg/metrics/server.go`)

`NewServer` starts one goroutine running `ListenAndServe`: check "shutting down?" → bind → `Serve` (which, finding the
server shut down, closes its listener and returns). `Stop` runs `Shutdown` (marks the server, closes the listeners
`Serve` has registered) and — since the repair D17 — waits for that goroutine. -/

/-- where the serving goroutine is -/
inductive MPhase where
  | start      -- not yet at ListenAndServe's shutdown check
  | checked    -- passed the check (the server was not shutting down then), not yet bound
  | bound      -- address bound, `Serve` not yet entered
  | serving    -- listener registered with the server
  | returned   -- goroutine has returned, its listener (if any) closed
  deriving DecidableEq, Repr

structure Metrics where
  phase : MPhase := .start
  shutdown : Bool := false      -- `Shutdown` has run
  stopDone : Bool := false      -- `Stop` has completed
  deriving DecidableEq, Repr

inductive MEv where
  | goroutine        -- the serving goroutine takes its next step
  | shutdown         -- Stop's goroutine runs `Shutdown`
  | complete         -- Stop completes
  deriving DecidableEq, Repr

def Metrics.bound (s : Metrics) : Bool := s.phase = .bound || s.phase = .serving

/-- `waits = true`: Stop completes only after the serving goroutine has returned (the repaired server) -/
def Metrics.step (waits : Bool) (s : Metrics) : MEv → Option Metrics
  | .goroutine =>
    match s.phase with
    | .start => some { s with phase := if s.shutdown then .returned else .checked }
    | .checked => some { s with phase := .bound }
    | .bound => some { s with phase := if s.shutdown then .returned else .serving }   -- `Serve` closes the listener and returns
    | .serving => if s.shutdown then some { s with phase := .returned } else none      -- blocked in Accept until Shutdown
    | .returned => none
  | .shutdown => if s.shutdown then none else some { s with shutdown := true }          -- (closes registered listeners: the goroutine's next step returns)
  | .complete =>
    if s.shutdown && !s.stopDone && (!waits || s.phase = .returned) then some { s with stopDone := true } else none

def Metrics.run (waits : Bool) (s : Metrics) : List MEv → Option Metrics
  | [] => some s
  | e :: rest => match s.step waits e with
    | some s' => s'.run waits rest
    | none => none

/-! ### `Shutdown` and the server's connections (D37)

`Shutdown` returns when no connection is active any more. Whether an active connection ever stops being
active is up to its client (a request body that is announced and never sent, an hour of CPU profile): the
`stalled` ones never do. Since D37 `Stop` gives `Shutdown` a deadline and closes what is left. -/

structure MConns where
  active : Nat := 0            -- connections with a request in progress
  stalled : Nat := 0           -- of those, the ones whose client never lets the request end
  shutdownReturned : Bool := false
  deriving DecidableEq, Repr

inductive CEv where
  | finish       -- an active connection whose client plays along becomes idle (and is closed)
  | deadline     -- the deadline of Stop passes: the remaining connections are closed
  | returns      -- `Shutdown` (or the `Close` after it) returns
  deriving DecidableEq, Repr

/-- `bounded = true`: Stop has the deadline (the repaired server) -/
def MConns.step (bounded : Bool) (c : MConns) : CEv → Option MConns
  | .finish => if c.stalled < c.active then some { c with active := c.active - 1 } else none
  | .deadline => if bounded && !c.shutdownReturned then some { c with active := 0, stalled := 0 } else none
  | .returns => if c.active = 0 && !c.shutdownReturned then some { c with shutdownReturned := true } else none

def MConns.run (bounded : Bool) (c : MConns) : List CEv → Option MConns
  | [] => some c
  | e :: rest => match c.step bounded e with
    | some c' => c'.run bounded rest
    | none => none

/-! ## The JWT hook's refresh loop (`middleware/jwt/jwt.go`)

One goroutine: `select { closing → return; after(interval) → updateKeys }`. `updateKeys` fetches the JWK set and
replaces the key set. `Stop` closes `closing`; since the repair D18 it also cancels the fetch context (a fetch in
flight ends without replacing anything) and waits for the goroutine. -/

inductive JPhase where
  | idle        -- in the select
  | fetching    -- inside updateKeys, the request is in flight
  | returned
  deriving DecidableEq, Repr

structure JwtLoop where
  phase : JPhase := .idle
  closing : Bool := false
  stopDone : Bool := false
  swaps : Nat := 0               -- how many times the key set has been replaced
  swapsAtStop : Nat := 0         -- … of which before Stop completed
  deriving DecidableEq, Repr

inductive JEv where
  | tick          -- the update interval has passed: the goroutine starts a fetch
  | answer        -- the endpoint answers the fetch in flight
  | notice        -- the goroutine, in its select, finds `closing` closed
  | stop          -- Stop closes `closing` (and, repaired, cancels the fetch)
  | complete      -- Stop completes
  deriving DecidableEq, Repr

/-- `repaired = true`: Stop cancels the fetch in flight and completes only after the goroutine has returned -/
def JwtLoop.step (repaired : Bool) (s : JwtLoop) : JEv → Option JwtLoop
  | .tick => if s.phase = .idle ∧ (repaired → s.closing = false) then some { s with phase := .fetching } else none
      -- (unrepaired: the select may still pick the timer although `closing` is closed; repaired: harmless either way,
      --  the fetch context is already cancelled — modelled by not starting it)
  | .answer =>
    if s.phase = .fetching then
      if repaired && s.closing then some { s with phase := .idle }                        -- cancelled: nothing replaced
      else some { s with phase := .idle, swaps := s.swaps + 1 }
    else none
  | .notice => if s.phase = .idle ∧ s.closing then some { s with phase := .returned } else none
  | .stop => if s.closing then none else some { s with closing := true }
  | .complete =>
    if s.closing && !s.stopDone && (!repaired || s.phase = .returned) then some { s with stopDone := true, swapsAtStop := s.swaps } else none

def JwtLoop.run (repaired : Bool) (s : JwtLoop) : List JEv → Option JwtLoop
  | [] => some s
  | e :: rest => match s.step repaired e with
    | some s' => s'.run repaired rest
    | none => none

end Lifecycle
