import Chihaya.Base.Bytes
/-!
# Core request/response types shared by the frontends, the logic and the stores
(`bittorrent/bittorrent.go`, `bittorrent/event.go`, `bittorrent/sanitize.go`)
-/

inductive Fam where | v4 | v6
  deriving DecidableEq, Repr, Inhabited

inductive Event where | none | started | stopped | completed
  deriving DecidableEq, Repr, Inhabited

/-- error classes a handler can end in -/
inductive ErrClass where
  | client (msg : String)     -- `bittorrent.ClientError`: shown to the client verbatim
  | internal (msg : String)   -- anything else: must not be shown
  deriving DecidableEq, Repr, Inhabited

/-- outcome of a step of the request path; `panic` models a Go panic reaching the handler -/
inductive Outcome (α : Type) where
  | ok (a : α)
  | err (e : ErrClass)
  | panic (tag : String)
  deriving Repr

structure Peer where
  id : Bytes
  port : Nat
  ip : Bytes
  fam : Fam
  deriving DecidableEq, Repr, Inhabited

structure AnnReq where
  event : Event
  eventProvided : Bool
  infoHash : Bytes
  compact : Bool
  numWantProvided : Bool
  ipProvided : Bool
  numWant : Nat
  left : Nat
  downloaded : Nat
  uploaded : Nat
  peer : Peer
  params : List (Bytes × Bytes)      -- parsed query parameters (lower-cased keys), in input order
  deriving Repr, Inhabited

structure ScrapeReq where
  fam : Fam
  infoHashes : List Bytes
  params : List (Bytes × Bytes)
  deriving Repr, Inhabited

structure Scrape where
  infoHash : Bytes
  snatches : Nat
  complete : Nat
  incomplete : Nat
  deriving DecidableEq, Repr, Inhabited

structure AnnResp where
  compact : Bool
  complete : Nat
  incomplete : Nat
  interval : Int          -- nanoseconds (time.Duration)
  minInterval : Int
  v4peers : List Peer
  v6peers : List Peer
  deriving Repr, Inhabited

structure ScrapeResp where
  files : List Scrape
  deriving Repr, Inhabited

structure ParseOpts where
  allowIPSpoofing : Bool
  realIPHeaderSet : Bool      -- HTTP only: `RealIPHeader != ""`
  maxNumWant : Nat
  defaultNumWant : Nat
  maxScrapeInfoHashes : Nat
  deriving Repr, Inhabited

namespace Sanitize

/-- `net.IP.To4`: 4 bytes ↦ itself; 16 bytes with the v4-in-v6 prefix ↦ last 4; otherwise nil -/
def to4 (ip : Bytes) : Option Bytes :=
  if ip.length = 4 then some ip
  else if ip.length = 16 ∧ ip.take 10 = List.replicate 10 0 ∧ (ip.drop 10).take 2 = [255, 255] then some (ip.drop 12)
  else none

def errInvalidPort : ErrClass := .client "invalid port"
def errInvalidIP : ErrClass := .client "invalid IP"

/-- numwant: the default when absent, otherwise capped at the maximum -/
def capNumWant (provided : Bool) (nw mx df : Nat) : Nat :=
  if !provided then df else if nw > mx then mx else nw

/-- `bittorrent.SanitizeAnnounce` -/
def announce (r : AnnReq) (maxNumWant defaultNumWant : Nat) : Except ErrClass AnnReq :=
  if r.peer.port = 0 then .error errInvalidPort
  else
    let nw := capNumWant r.numWantProvided r.numWant maxNumWant defaultNumWant
    match to4 r.peer.ip with
    | some ip4 => .ok { r with numWant := nw, peer := { r.peer with ip := ip4, fam := .v4 } }
    | none =>
      if r.peer.ip.length = 16 then .ok { r with numWant := nw, peer := { r.peer with fam := .v6 } }
      else .error errInvalidIP

/-- `bittorrent.SanitizeScrape` -/
def scrape (r : ScrapeReq) (maxScrape : Nat) : ScrapeReq :=
  if r.infoHashes.length > maxScrape then { r with infoHashes := r.infoHashes.take maxScrape } else r

/-- family of a transport address (`r.IP.To4() != nil` / `len == 16`) -/
def famOf (ip : Bytes) : Option Fam :=
  match to4 ip with
  | some _ => some .v4
  | none => if ip.length = 16 then some .v6 else none

end Sanitize

/-- inversion of a successful monadic bind in `Except` -/
theorem Except.bind_ok {ε α β : Type} {x : Except ε α} {f : α → Except ε β} {b : β}
    (h : (x >>= f) = .ok b) : ∃ a, x = .ok a ∧ f a = .ok b := by
  cases x with
  | error e => cases h
  | ok a => exact ⟨a, rfl, h⟩
