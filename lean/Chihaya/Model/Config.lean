import Chihaya.Base.Bytes
import Chihaya.Base.Decimal
/-!
# Hand model of configuration glue that is not `Validate` (that one is `Gen/Validate.lean`)

* driver registries (`middleware.New`, `storage.NewPeerStore`): lookup by name, unknown ⇒ error
* `parseRedisURL`: on the result of `url.Parse` (scheme, path, host, userinfo supplied by the harness)
-/
namespace Config

inductive NewResult where
  | driverDoesNotExist
  | built            -- the driver's constructor was called (its own result is the driver's business)
  deriving DecidableEq, Repr

def lookup (registered : List String) (name : String) : NewResult :=
  if name ∈ registered then .built else .driverDoesNotExist

/-- `strings.Split(path, "/")` on bytes -/
def splitSlash : Bytes → List Bytes
  | [] => [[]]
  | c :: rest =>
    match splitSlash rest with
    | [] => [[c]]                 -- unreachable: splitSlash never returns []
    | p :: ps => if c = 47 then [] :: p :: ps else (c :: p) :: ps

/-- `strconv.Atoi`: ParseInt(s, 10, 0) on a 64-bit platform -/
def atoi (s : Bytes) : Option Int := Decimal.parseInt64 s

inductive URLResult where
  | error
  | ok (db : Int)
  deriving DecidableEq, Repr

/-- `parseRedisURL` after `url.Parse` succeeded with this scheme and path -/
def parseRedisURL (schemeIsRedis : Bool) (path : Bytes) : URLResult :=
  if !schemeIsRedis then .error
  else
    match splitSlash path with
    | [_] => .ok 0
    | _ :: p1 :: _ => match atoi p1 with
      | some db => .ok db
      | none => .error
    | [] => .ok 0

end Config
