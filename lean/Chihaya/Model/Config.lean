import Chihaya.Base.Bytes
import Chihaya.Base.Decimal
/-!
# Hand model of configuration glue that is not `Validate` (that one is `Gen/Validate.lean`)

* driver registries (`middleware.New`, `storage.NewPeerStore`): lookup by name, unknown ⇒ error
* `parseRedisURL`: on the result of `url.Parse` (scheme, path, host, userinfo supplied by the harness)
* `NewFrontend` of the HTTP and UDP frontends: which configurations are refused, and what a refusal leaves bound
-/
namespace Config

inductive NewResult where
  | driverDoesNotExist
  | built            -- the driver's constructor was called (its own result is the driver's business)
  deriving DecidableEq, Repr

def lookup (registered : List String) (name : String) : NewResult :=
  if name ∈ registered then .built else .driverDoesNotExist

/-- `strings.Split(path, "/")` on bytes -/
def splitSlash : Bytes → List Bytes
  | [] => [[]]
  | c :: rest =>
    match splitSlash rest with
    | [] => [[c]]                 -- unreachable: splitSlash never returns []
    | p :: ps => if c = 47 then [] :: p :: ps else (c :: p) :: ps

/-- `strconv.Atoi`: ParseInt(s, 10, 0) on a 64-bit platform -/
def atoi (s : Bytes) : Option Int := Decimal.parseInt64 s

inductive URLResult where
  | error
  | ok (db : Int)
  deriving DecidableEq, Repr

/-- `parseRedisURL` after `url.Parse` succeeded with this scheme and path -/
def parseRedisURL (schemeIsRedis : Bool) (path : Bytes) : URLResult :=
  if !schemeIsRedis then .error
  else
    match splitSlash path with
    | [_] => .ok 0
    | _ :: p1 :: _ => match atoi p1 with
      | some db => .ok db
      | none => .error
    | [] => .ok 0

/-! ## `NewFrontend`: accepted configurations (frontend/http/frontend.go, frontend/udp/frontend.go) -/

/-- how a listening address is given: not at all, a port nobody uses, a port that is taken -/
inductive AddrKind where
  | absent | free | busy
  deriving DecidableEq, Repr

/-- the TLS part of an HTTP frontend configuration: nothing; certificate and key that load; only one of the two
paths; both paths but the files do not load -/
inductive TlsKind where
  | none | good | oneOfTwo | unloadable
  deriving DecidableEq, Repr

inductive FrontendResult where
  | refused (httpListenerLeftBound : Bool)
  | built
  deriving DecidableEq, Repr

/-- HTTP `NewFrontend`, in the order of its checks: an address, routes, the key pair (only consulted when both paths
are given), "https needs TLS", "TLS needs https", then the listeners — HTTP first; when the HTTPS port cannot be
bound the HTTP listener is closed again. No refusal leaves a listener bound. -/
def httpNewFrontend (addr https : AddrKind) (tls : TlsKind) (routes : Bool) : FrontendResult :=
  if addr = .absent ∧ https = .absent then .refused false
  else if !routes then .refused false
  else if tls = .unloadable then .refused false
  else
    let haveTls : Bool := decide (tls = .good)
    if https ≠ .absent ∧ haveTls = false then .refused false
    else if https = .absent ∧ haveTls = true then .refused false
    else if addr = .busy then .refused false
    else if https = .busy then .refused false     -- the HTTP listener, if any, has been closed
    else .built

/-- UDP `NewFrontend`: the socket is bound before the serving goroutine is started -/
def udpNewFrontend (addr : AddrKind) : FrontendResult :=
  match addr with
  | .busy => .refused false
  | _ => .built       -- an empty address is ":0" to `net.ResolveUDPAddr`: any port

end Config
