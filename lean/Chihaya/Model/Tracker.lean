import Chihaya.Model.Logic
import Chihaya.Model.HttpParse
import Chihaya.Model.HttpWrite
import Chihaya.Model.Udp
/-!
# Model of the request path end to end: frontend handler → `Logic` (hooks) → writer → post-hooks

`httpAnnounce` / `httpScrape` model `announceRoute` / `scrapeRoute` of `frontend/http/frontend.go`;
the UDP side is `Udp.handleRequest` with the `Logic` parameter instantiated by the hook chains.
The store is abstract (`StoreOps σ`).
-/
namespace Tracker
open Logic

structure Hooks where
  preAnn : List AnnHook
  postAnn : List AnnHook
  preScr : List ScrHook
  postScr : List ScrHook

/-- outcome of one HTTP request -/
structure HttpResult (σ : Type) where
  body : Option Bencode.BVal        -- `none` = a panic in the writer
  isError : Bool
  preLog : List Nat
  postLog : List Nat
  after : Bool                      -- post-response hooks were started
  store : σ
  req : Option AnnReq

variable {σ : Type}

def httpAnnounce (env : HttpParse.Env) (opts : ParseOpts) (cfg : Logic.Config) (ops : StoreOps σ) (hooks : Hooks)
    (ipText : Bytes → Bytes) (st : σ) (uri : Bytes) : HttpResult σ :=
  match HttpParse.parseAnnounce env uri opts with
  | .error e => { body := some (HttpWrite.writeError e), isError := true, preLog := [], postLog := [], after := false, store := st, req := none }
  | .ok req =>
    match handleAnnounce cfg ops hooks.preAnn st req with
    | (log, .error e) => { body := some (HttpWrite.writeError e), isError := true, preLog := log, postLog := [], after := false, store := st, req := some req }
    | (log, .ok (ctx, resp)) =>
      let (plog, st') := afterAnnounce ops hooks.postAnn st ctx req resp
      { body := HttpWrite.writeAnnounce ipText resp, isError := false, preLog := log, postLog := plog, after := true, store := st', req := some req }

def httpScrape (env : HttpParse.Env) (opts : ParseOpts) (ops : StoreOps σ) (hooks : Hooks) (remoteOK : Bool)
    (st : σ) (uri : Bytes) : HttpResult σ :=
  match HttpParse.parseScrape env uri opts remoteOK with
  | .error e => { body := some (HttpWrite.writeError e), isError := true, preLog := [], postLog := [], after := false, store := st, req := none }
  | .ok req =>
    match handleScrape ops hooks.preScr st req with
    | (log, .error e) => { body := some (HttpWrite.writeError e), isError := true, preLog := log, postLog := [], after := false, store := st, req := none }
    | (log, .ok (ctx, resp)) =>
      -- `Logic.AfterScrape` (repair D28): every post-hook runs whether or not an earlier one failed, then the built-in one
      { body := some (HttpWrite.writeScrape resp), isError := false, preLog := log, postLog := List.range (hooks.postScr.length + 1),
        after := true, store := st, req := none }

/-- the `Udp.Logic` a UDP frontend sees when it sits in front of these hook chains -/
def udpLogic (cfg : Logic.Config) (ops : StoreOps σ) (hooks : Hooks) (st : σ) : Udp.Logic where
  announce req := match (handleAnnounce cfg ops hooks.preAnn st req).2 with
    | .ok (_, resp) => .ok resp
    | .error e => .error e
  scrape req := match (handleScrape ops hooks.preScr st req).2 with
    | .ok (_, resp) => .ok resp
    | .error e => .error e

/-- store after a UDP datagram: the post-hooks run iff the frontend started them -/
def udpStoreAfter (cfg : Logic.Config) (ops : StoreOps σ) (hooks : Hooks) (st : σ) (r : Udp.Result) : σ × List Nat :=
  match r.after, r.call with
  | true, some (.announce req) =>
    match handleAnnounce cfg ops hooks.preAnn st req with
    | (_, .ok (ctx, resp)) => let x := afterAnnounce ops hooks.postAnn st ctx req resp; (x.2, x.1)
    | _ => (st, [])
  | _, _ => (st, [])

end Tracker
