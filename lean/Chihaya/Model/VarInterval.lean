import Chihaya.Base.Bytes
import Chihaya.Gen.Random
/-!
# Model of `middleware/varinterval` (`checkConfig`, `HandleAnnounce`)

The generator (`GenerateAndAdvance`, `Intn`, `DeriveEntropyFromRequest`) is *not* written
here: it is `Chihaya/Gen/Random.lean`, re-emitted from the Go source on every check.

`float32` handling: the configured probability is a float32, i.e. an exact rational `pn/pd`
(`pd` a power of two) which the harness extracts bit-exactly. For `0 ≤ v < 2^24` the value
`float32(v) / (1<<24)` is exact, so `p < prob ⟺ v·pd < pn·2^24` over the integers.
-/
namespace VarInterval
open Gen.Random

structure Cfg where
  pn : Int          -- probability numerator (float32 value = pn / pd)
  pd : Nat          -- probability denominator, > 0
  maxDelta : Int    -- Go `int`
  modifyMin : Bool

/-- the largest `max_increase_delta` `checkConfig` accepts (`math.MaxInt32`, D29) -/
def maxDeltaLimit : Int := 2147483647

/-- `checkConfig`: `0 < p ≤ 1` and `0 < max_increase_delta ≤ math.MaxInt32` -/
def checkConfig (c : Cfg) : Bool :=
  decide (0 < c.pn) && decide (c.pn ≤ (c.pd : Int)) && decide (0 < c.maxDelta) && decide (c.maxDelta ≤ maxDeltaLimit)

/-- `checkConfig` as it was before D29: no upper bound -/
def checkConfigPreD29 (c : Cfg) : Bool :=
  decide (0 < c.pn) && decide (c.pn ≤ (c.pd : Int)) && decide (0 < c.maxDelta)

def second : Int := 1000000000

/-- `time.Duration` is an `int64`: sums and products wrap around -/
def wrap64 (x : Int) : Int := (x + 2^63) % 2^64 - 2^63

/-- the largest interval (in ns) to which `maxDeltaLimit` seconds can be added without wrapping:
about 224 years -/
def intervalLimit : Int := 2^63 - 1 - maxDeltaLimit * second

/-- `HandleAnnounce`: new (Interval, MinInterval) in nanoseconds (`int64` arithmetic, as `time.Duration`);
`none` = `Intn` panicked -/
def handle (c : Cfg) (ih pid : Bytes) (interval minInterval : Int) : Option (Int × Int) :=
  let (s0, s1) := deriveEntropyFromRequest ih pid
  match intn s0 s1 (BitVec.ofNat 64 (2^24)) with
  | none => none
  | some (v, s0', s1') =>
    if c.pn = (c.pd : Int) ∨ v.toInt * (c.pd : Int) < c.pn * 2^24 then
      match intn s0' s1' (BitVec.ofNat 64 c.maxDelta.toNat) with
      | none => none
      | some (v2, _, _) =>
        let d := wrap64 ((v2.toInt + 1) * second)
        some (wrap64 (interval + d), if c.modifyMin then wrap64 (minInterval + d) else minInterval)
    else some (interval, minInterval)

end VarInterval
