import Chihaya.Base.Decimal
/-!
# Model of `frontend/http/bencode` (encoder.go, decoder.go, bencode.go)

`BVal` is the value universe the decoder can return (`int64`, `string`, `List`, `Dict`).
The decoder is written as the code reads: one token byte, `readTerminatedInt` =
`bufio.ReadSlice(term)` (fails when the terminator is not within 4096 bytes) followed by
`strconv.ParseInt`, strings of exactly the announced length, lists and dictionaries
until `e`, dictionary keys must be strings, a repeated key overwrites (Go map assignment).

The string branch is modelled as the code behaves once it no longer trusts the length
prefix (negative length ⇒ error, fewer bytes than announced ⇒ error, allocation = bytes
actually received); see DESIGN §6 D11.

Fuel: every recursive call consumes at least one byte, `fuel = 2·|input| + 2` always
suffices (`Lemmas/Bencode.lean: dec_fuel_enough`).
-/

namespace Bencode

inductive BVal where
  | int  (i : Int)
  | str  (s : Bytes)
  | list (l : List BVal)
  | dict (d : List (Bytes × BVal))
  deriving Inhabited

inductive DErr where
  | eof | syntax | fuel
  deriving DecidableEq, Repr, Inhabited

abbrev Res (α : Type) := Except DErr α

/-- ASCII tokens -/
def cI : UInt8 := 105   -- 'i'
def cL : UInt8 := 108   -- 'l'
def cD : UInt8 := 100   -- 'd'
def cE : UInt8 := 101   -- 'e'
def cColon : UInt8 := 58

/-! ## Encoder (`marshal` on the decoder's value universe) -/

def encStr (s : Bytes) : Bytes := Decimal.showNat s.length ++ cColon :: s

mutual
def enc : BVal → Bytes
  | .int i  => cI :: Decimal.showInt i ++ [cE]
  | .str s  => encStr s
  | .list l => cL :: encList l ++ [cE]
  | .dict d => cD :: encDict d ++ [cE]
def encList : List BVal → Bytes
  | [] => []
  | v :: vs => enc v ++ encList vs
def encDict : List (Bytes × BVal) → Bytes
  | [] => []
  | (k, v) :: r => encStr k ++ enc v ++ encDict r
end

/-! ## Decoder -/

/-- prefix before the first `t`, and what follows it (`bufio.ReadSlice`) -/
def splitAtByte (t : UInt8) : Bytes → Option (Bytes × Bytes)
  | [] => none
  | c :: r => if c = t then some ([], r) else
      match splitAtByte t r with
      | none => none
      | some (p, q) => some (c :: p, q)

/-- size of the `bufio.Reader` buffer: `ReadSlice` fails with `ErrBufferFull` when the
terminator is not among the next 4096 bytes -/
def bufSize : Nat := 4096

def readTerminatedInt (t : UInt8) (inp : Bytes) : Res (Int × Bytes) :=
  match splitAtByte t inp with
  | none => .error .eof
  | some (p, r) =>
    if bufSize ≤ p.length then .error .syntax
    else if p.isEmpty then .error .syntax
    else match Decimal.parseInt64 p with
      | none => .error .syntax
      | some i => .ok (i, r)

/-- Go map assignment `dict[key] = v` on an association list -/
def insert (k : Bytes) (v : BVal) : List (Bytes × BVal) → List (Bytes × BVal)
  | [] => [(k, v)]
  | (k', v') :: r => if k' = k then (k, v) :: r else (k', v') :: insert k v r

def normalize (ps : List (Bytes × BVal)) : List (Bytes × BVal) :=
  ps.foldl (fun acc p => insert p.1 p.2 acc) []

mutual
/-- `unmarshal` -/
def dec : Nat → Bytes → Res (BVal × Bytes)
  | 0, _ => .error .fuel
  | _+1, [] => .error .eof
  | f+1, c :: rest =>
    if c = cI then
      match readTerminatedInt cE rest with
      | .error e => .error e
      | .ok (i, r) => .ok (.int i, r)
    else if c = cL then
      match decList f rest with
      | .error e => .error e
      | .ok (l, r) => .ok (.list l, r)
    else if c = cD then
      match decDict f rest with
      | .error e => .error e
      | .ok (d, r) => .ok (.dict (normalize d), r)
    else
      match readTerminatedInt cColon (c :: rest) with
      | .error _ => .error .syntax
      | .ok (len, r) =>
        if len < 0 then .error .syntax
        else if r.length < len.toNat then .error .eof
        else .ok (.str (r.take len.toNat), r.drop len.toNat)
/-- `readList` after the `l` -/
def decList : Nat → Bytes → Res (List BVal × Bytes)
  | 0, _ => .error .fuel
  | _+1, [] => .error .eof
  | f+1, c :: rest =>
    if c = cE then .ok ([], rest)
    else match dec f (c :: rest) with
      | .error e => .error e
      | .ok (v, r) =>
        match decList f r with
        | .error e => .error e
        | .ok (vs, r') => .ok (v :: vs, r')
/-- `readDict` after the `d`; raw pairs in input order -/
def decDict : Nat → Bytes → Res (List (Bytes × BVal) × Bytes)
  | 0, _ => .error .fuel
  | _+1, [] => .error .eof
  | f+1, c :: rest =>
    if c = cE then .ok ([], rest)
    else match dec f (c :: rest) with
      | .error e => .error e
      | .ok (.str k, r) =>
        (match dec f r with
        | .error e => .error e
        | .ok (v, r') =>
          match decDict f r' with
          | .error e => .error e
          | .ok (ps, r'') => .ok ((k, v) :: ps, r''))
      | .ok (_, _) => .error .syntax
end

/-! ## The decoder as it is since the repair D21: containers nest at most `maxNesting` deep

`dec` above is the grammar (no bound on nesting; its recursion is bounded by the fuel). The code recurses once per
nesting level on the goroutine stack, and a few megabytes of `l` used to exhaust it — a fatal error, not a panic. It
now refuses to open a container below `maxNesting` enclosing ones. `decD k` is that decoder with `k` levels left. -/

def maxNesting : Nat := 10000

mutual
def decD : Nat → Nat → Bytes → Res (BVal × Bytes)
  | _, 0, _ => .error .fuel
  | _, _+1, [] => .error .eof
  | k, f+1, c :: rest =>
    if c = cI then
      match readTerminatedInt cE rest with
      | .error e => .error e
      | .ok (i, r) => .ok (.int i, r)
    else if c = cL then
      match k with
      | 0 => .error .syntax          -- "exceeded max nesting depth"
      | k+1 =>
        match decListD k f rest with
        | .error e => .error e
        | .ok (l, r) => .ok (.list l, r)
    else if c = cD then
      match k with
      | 0 => .error .syntax
      | k+1 =>
        match decDictD k f rest with
        | .error e => .error e
        | .ok (d, r) => .ok (.dict (normalize d), r)
    else
      match readTerminatedInt cColon (c :: rest) with
      | .error _ => .error .syntax
      | .ok (len, r) =>
        if len < 0 then .error .syntax
        else if r.length < len.toNat then .error .eof
        else .ok (.str (r.take len.toNat), r.drop len.toNat)
def decListD : Nat → Nat → Bytes → Res (List BVal × Bytes)
  | _, 0, _ => .error .fuel
  | _, _+1, [] => .error .eof
  | k, f+1, c :: rest =>
    if c = cE then .ok ([], rest)
    else match decD k f (c :: rest) with
      | .error e => .error e
      | .ok (v, r) =>
        match decListD k f r with
        | .error e => .error e
        | .ok (vs, r') => .ok (v :: vs, r')
def decDictD : Nat → Nat → Bytes → Res (List (Bytes × BVal) × Bytes)
  | _, 0, _ => .error .fuel
  | _, _+1, [] => .error .eof
  | k, f+1, c :: rest =>
    if c = cE then .ok ([], rest)
    else match decD k f (c :: rest) with
      | .error e => .error e
      | .ok (.str key, r) =>
        (match decD k f r with
        | .error e => .error e
        | .ok (v, r') =>
          match decDictD k f r' with
          | .error e => .error e
          | .ok (ps, r'') => .ok ((key, v) :: ps, r''))
      | .ok (_, _) => .error .syntax
end

/-! nesting depth of a value: 0 for integers and strings, one more than its deepest element for a container -/
mutual
def depth : BVal → Nat
  | .int _ => 0
  | .str _ => 0
  | .list l => depthList l + 1
  | .dict d => depthDict d + 1
def depthList : List BVal → Nat
  | [] => 0
  | v :: vs => max (depth v) (depthList vs)
def depthDict : List (Bytes × BVal) → Nat
  | [] => 0
  | (_, v) :: r => max (depth v) (depthDict r)
end

/-- `Unmarshal(buf)`: first value of the buffer (trailing bytes are ignored by the code) -/
def unmarshal (inp : Bytes) : Res BVal :=
  match decD maxNesting (2 * inp.length + 2) inp with
  | .error e => .error e
  | .ok (v, _) => .ok v

/-- Decode exactly one value with nothing left over (what a client does with a response body) -/
def decodeAll (inp : Bytes) : Option BVal :=
  match dec (2 * inp.length + 2) inp with
  | .ok (v, []) => some v
  | _ => none

/-! ## Allocation trace: bytes the decoder asks the allocator for, for string payloads -/
mutual
def allocOf : BVal → Nat
  | .int _ => 0
  | .str s => s.length
  | .list l => allocList l
  | .dict d => allocDict d
def allocList : List BVal → Nat
  | [] => 0
  | v :: vs => allocOf v + allocList vs
def allocDict : List (Bytes × BVal) → Nat
  | [] => 0
  | (k, v) :: r => k.length + allocOf v + allocDict r
end

/-- `Decoder.Decode` called up to `n` times on one stream: the values read, and what is left when it
stops (after `n` values or at the first failure) -/
def decStream : Nat → Bytes → List BVal × Bytes
  | 0, inp => ([], inp)
  | n + 1, inp =>
    match decD maxNesting (2 * inp.length + 2) inp with
    | .ok (v, r) => let x := decStream n r; (v :: x.1, x.2)
    | .error _ => ([], inp)

end Bencode
