import Chihaya.Model.Query
/-!
# Model of `frontend/http/parser.go` (`ParseAnnounce`, `ParseScrape`, `requestedIP`) and the
address-family decision of `scrapeRoute`.

`net.ParseIP` is a parameter `parseIP : Bytes → Option Bytes` (the harness reports what the real
function returned for every string the request contains); `net.SplitHostPort(r.RemoteAddr)` is
resolved by the harness (`remoteHost`), the header lookup likewise (`hdr` = value of the configured
real-IP header, if the header is configured and the value is non-empty).
-/
namespace HttpParse
open Query

def s (str : String) : Bytes := Bytes.ofString str

def kEvent : Bytes := [101,118,101,110,116]
def kCompact : Bytes := [99,111,109,112,97,99,116]
def kPeerID : Bytes := [112,101,101,114,95,105,100]
def kLeft : Bytes := [108,101,102,116]
def kDownloaded : Bytes := [100,111,119,110,108,111,97,100,101,100]
def kUploaded : Bytes := [117,112,108,111,97,100,101,100]
def kNumwant : Bytes := [110,117,109,119,97,110,116]
def kPort : Bytes := [112,111,114,116]
def kIP : Bytes := [105,112]
def kIPv4 : Bytes := [105,112,118,52]
def kIPv6 : Bytes := [105,112,118,54]

/-- `bittorrent.NewEvent` (`strings.ToLower` then table lookup; no event name contains a letter
whose Unicode case folding leaves ASCII, so ASCII lower-casing is exact here) -/
def newEvent (str : Bytes) : Option Event :=
  let l := asciiLower str
  if l = [] then some .none
  else if l = [110,111,110,101] then some .none
  else if l = [115,116,97,114,116,101,100] then some .started
  else if l = [115,116,111,112,112,101,100] then some .stopped
  else if l = [99,111,109,112,108,101,116,101,100] then some .completed
  else none

structure Env where
  lower : Bytes → Bytes
  parseIP : Bytes → Option Bytes
  hdr : Option Bytes          -- value of the configured real-IP header (non-empty) if any
  remoteHost : Bytes          -- host part of RemoteAddr ("" if SplitHostPort failed)

/-- `net.IP.IsUnspecified` on what `net.ParseIP` returns (the 16-byte form; 4 bytes are accepted as well) -/
def isUnspecified (ip : Bytes) : Bool :=
  ip == List.replicate 16 0 || ip == List.replicate 10 0 ++ [255, 255, 0, 0, 0, 0] || ip == [0, 0, 0, 0]

/-- one of the `ip` / `ipv4` / `ipv6` parameters under `AllowIPSpoofing`: present and not the unspecified address
(0.0.0.0 or ::, which stands for "the address this request comes from", like a zero IP field over UDP — D20) -/
def spoofParam (env : Env) (ps : List (Bytes × Bytes)) (k : Bytes) : Option (Option Bytes) :=
  match get ps k with
  | none => none
  | some v => match env.parseIP v with
    | some ip => if isUnspecified ip then none else some (some ip)
    | none => some none          -- present but unparsable: the request will be rejected

/-- `requestedIP` -/
def requestedIP (env : Env) (ps : List (Bytes × Bytes)) (opts : ParseOpts) : Option Bytes × Bool :=
  let spoofed : Option (Option Bytes) :=
    if opts.allowIPSpoofing then
      match spoofParam env ps kIP with
      | some r => some r
      | none => match spoofParam env ps kIPv4 with
        | some r => some r
        | none => spoofParam env ps kIPv6
    else none
  match spoofed with
  | some r => (r, true)
  | none =>
    match (if opts.realIPHeaderSet then env.hdr else none) with
    | some h => (env.parseIP h, false)
    | none => (env.parseIP env.remoteHost, false)

def cerr (m : String) : ErrClass := .client m

/-- the `event` parameter -/
def eventOf (ps : List (Bytes × Bytes)) : Except ErrClass Event :=
  match get ps kEvent with
  | none => .ok .none
  | some e => match newEvent e with
    | some ev => .ok ev
    | none => .error (cerr "failed to provide valid client event")

/-- exactly one `info_hash` -/
def singleInfoHash : List Bytes → Except ErrClass Bytes
  | [] => .error (cerr "no info_hash parameter supplied")
  | [ih] => .ok ih
  | _ :: _ :: _ => .error (cerr "multiple info_hash parameters supplied")

def peerIDOf (ps : List (Bytes × Bytes)) : Except ErrClass Bytes :=
  match get ps kPeerID with
  | none => .error (cerr "failed to parse parameter: peer_id")
  | some pid => if pid.length ≠ 20 then .error (cerr "failed to provide valid peer_id") else .ok pid

/-- a required unsigned parameter -/
def reqUint (ps : List (Bytes × Bytes)) (k : Bytes) (bits : Nat) (name : String) : Except ErrClass Nat :=
  match uint ps k bits with
  | .ok n => .ok n
  | _ => .error (cerr ("failed to parse parameter: " ++ name))

/-- the optional `numwant`: (provided, value) -/
def numWantOf (ps : List (Bytes × Bytes)) : Except ErrClass (Bool × Nat) :=
  match uint ps kNumwant 32 with
  | .ok n => .ok (true, n)
  | .notFound => .ok (false, 0)
  | .bad => .error (cerr "failed to parse parameter: numwant")

def ipOf (env : Env) (ps : List (Bytes × Bytes)) (opts : ParseOpts) : Except ErrClass (Bytes × Bool) :=
  match requestedIP env ps opts with
  | (none, _) => .error (cerr "failed to parse peer IP address")
  | (some ip, provided) => .ok (ip, provided)

/-- `compact != "" && compact != "0"` -/
def compactOf (ps : List (Bytes × Bytes)) : Bool :=
  let c := (get ps kCompact).getD []
  c != [] && c != [48]

/-- `ParseAnnounce` -/
def parseAnnounce (env : Env) (uri : Bytes) (opts : ParseOpts) : Except ErrClass AnnReq := do
  let qp ← parseURLData env.lower uri
  let ps := qp.params
  let ev ← eventOf ps
  let ih ← singleInfoHash qp.infoHashes
  let pid ← peerIDOf ps
  let left ← reqUint ps kLeft 64 "left"
  let downloaded ← reqUint ps kDownloaded 64 "downloaded"
  let uploaded ← reqUint ps kUploaded 64 "uploaded"
  let nw ← numWantOf ps
  let port ← reqUint ps kPort 16 "port"
  let ip ← ipOf env ps opts
  Sanitize.announce
    { event := ev, eventProvided := (get ps kEvent).isSome, infoHash := ih, compact := compactOf ps,
      numWantProvided := nw.1, ipProvided := ip.2, numWant := nw.2, left := left,
      downloaded := downloaded, uploaded := uploaded,
      peer := { id := pid, port := port, ip := ip.1, fam := .v4 }, params := ps }
    opts.maxNumWant opts.defaultNumWant

/-- `ParseScrape` followed by the family decision of `scrapeRoute`
(`remoteOK` = `SplitHostPort` succeeded; otherwise the handler reports that error — not a
client error) -/
def parseScrape (env : Env) (uri : Bytes) (opts : ParseOpts) (remoteOK : Bool) : Except ErrClass ScrapeReq :=
  match parseURLData env.lower uri with
  | .error e => .error e
  | .ok qp =>
    match qp.infoHashes with
    | [] => .error (cerr "no info_hash parameter supplied")
    | ihs =>
      let r := Sanitize.scrape { fam := .v4, infoHashes := ihs, params := qp.params } opts.maxScrapeInfoHashes
      if !remoteOK then .error (.internal "SplitHostPort") else
      match env.parseIP env.remoteHost with
      | none => .error Sanitize.errInvalidIP
      | some ip => match Sanitize.famOf ip with
        | none => .error Sanitize.errInvalidIP
        | some f => .ok { r with fam := f }

end HttpParse
