import Chihaya.Model.MemStore
/-!
# Model of `storage/redis/peer_store.go` over a modelled Redis command set

Redis state: swarm hashes `IPv{4,6}_{S,L}_<infohash>` (field = peer key, value = mtime), the two
index hashes `IPv4` / `IPv6` (field = swarm key, value = mtime) and six counters. Commands used:
HSET (reply 1 iff the field is new), HDEL (reply = number removed), HKEYS, HLEN, HGETALL,
INCR/DECR/DECRBY, MULTI…EXEC (atomic group), WATCH (sequentially: always succeeds). An empty hash
does not exist (Redis removes it).

Each store operation is written as the sequence of its round trips (`…Steps`), so that the
concurrent semantics (C04/C05) can interleave them; the sequential operation is their composition.

Repairs modelled: D1 (put removes the opposite role in the same MULTI and adjusts its counter),
D3 (a leecher is never handed its own entry).
-/
namespace RedisStore
open MemStore (PMap)

structure Counters where
  ih4 : Int := 0
  s4 : Int := 0
  l4 : Int := 0
  ih6 : Int := 0
  s6 : Int := 0
  l6 : Int := 0
  deriving Repr, Inhabited, DecidableEq

structure RState where
  hashes : List (Bytes × PMap) := []       -- swarm key ↦ (peer key ↦ mtime); never holds an empty map
  idx4 : PMap := []                         -- swarm key ↦ mtime
  idx6 : PMap := []
  c : Counters := {}
  deriving Repr, Inhabited

def famByte : Fam → UInt8
  | .v4 => 4
  | .v6 => 6

/-- swarm key: family, role ('S' = 83 / 'L' = 76), infohash -/
def swarmKey (f : Fam) (seeder : Bool) (ih : Bytes) : Bytes := famByte f :: (if seeder then 83 else 76) :: ih

def keyIsSeeder (k : Bytes) : Bool := k.getD 1 0 == 83

def hget (s : RState) (k : Bytes) : PMap := (AMap.get s.hashes k).getD []
def hput (s : RState) (k : Bytes) (m : PMap) : RState :=
  { s with hashes := if m.isEmpty then AMap.erase s.hashes k else AMap.set s.hashes k m }

/-- HSET key field value → (state, 1 if new field else 0) -/
def hset (s : RState) (k field : Bytes) (v : Int) : RState × Nat :=
  let m := hget s k
  (hput s k (AMap.set m field v), if AMap.has m field then 0 else 1)

/-- HDEL key field → (state, number removed) -/
def hdel (s : RState) (k field : Bytes) : RState × Nat :=
  let m := hget s k
  if AMap.has m field then (hput s k (AMap.erase m field), 1) else (s, 0)

def idx (s : RState) : Fam → PMap
  | .v4 => s.idx4
  | .v6 => s.idx6
def setIdx (s : RState) (f : Fam) (m : PMap) : RState :=
  match f with
  | .v4 => { s with idx4 := m }
  | .v6 => { s with idx6 := m }

def idxSet (s : RState) (f : Fam) (k : Bytes) (v : Int) : RState × Nat :=
  (setIdx s f (AMap.set (idx s f) k v), if AMap.has (idx s f) k then 0 else 1)

inductive CKind where | ih | s | l
  deriving DecidableEq, Repr

def addC (s : RState) (f : Fam) (k : CKind) (d : Int) : RState :=
  { s with c := match f, k with
    | .v4, .ih => { s.c with ih4 := s.c.ih4 + d }
    | .v4, .s => { s.c with s4 := s.c.s4 + d }
    | .v4, .l => { s.c with l4 := s.c.l4 + d }
    | .v6, .ih => { s.c with ih6 := s.c.ih6 + d }
    | .v6, .s => { s.c with s6 := s.c.s6 + d }
    | .v6, .l => { s.c with l6 := s.c.l6 + d } }

def addIf (b : Bool) (s : RState) (f : Fam) (k : CKind) (d : Int) : RState := if b then addC s f k d else s

/-! ## operations -/

def putSeeder (s : RState) (ih : Bytes) (p : Peer) (now : Int) : RState :=
  let pk := MemStore.peerKey p
  let f := p.fam
  -- MULTI … EXEC
  let (s1, r0) := hset s (swarmKey f true ih) pk now
  let (s2, r1) := idxSet s1 f (swarmKey f true ih) now
  let (s3, r2) := hdel s2 (swarmKey f false ih) pk
  -- reply-driven counter updates, one round trip each
  let s4 := addIf (r2 == 1) s3 f .l (-1)
  let s5 := addIf (r0 == 1) s4 f .s 1
  addIf (r1 == 1) s5 f .ih 1

def putLeecher (s : RState) (ih : Bytes) (p : Peer) (now : Int) : RState :=
  let pk := MemStore.peerKey p
  let f := p.fam
  let (s1, r0) := hset s (swarmKey f false ih) pk now
  let (s2, _) := idxSet s1 f (swarmKey f false ih) now
  let (s3, r2) := hdel s2 (swarmKey f true ih) pk
  let s4 := addIf (r2 == 1) s3 f .s (-1)
  addIf (r0 == 1) s4 f .l 1

def graduate (s : RState) (ih : Bytes) (p : Peer) (now : Int) : RState :=
  let pk := MemStore.peerKey p
  let f := p.fam
  let (s1, r0) := hdel s (swarmKey f false ih) pk
  let (s2, r1) := hset s1 (swarmKey f true ih) pk now
  let (s3, r2) := idxSet s2 f (swarmKey f true ih) now
  let s4 := addIf (r0 == 1) s3 f .l (-1)
  let s5 := addIf (r1 == 1) s4 f .s 1
  addIf (r2 == 1) s5 f .ih 1

def deleteSeeder (s : RState) (ih : Bytes) (p : Peer) : RState × Bool :=
  let (s1, r) := hdel s (swarmKey p.fam true ih) (MemStore.peerKey p)
  if r == 0 then (s, false) else (addC s1 p.fam .s (-1), true)

def deleteLeecher (s : RState) (ih : Bytes) (p : Peer) : RState × Bool :=
  let (s1, r) := hdel s (swarmKey p.fam false ih) (MemStore.peerKey p)
  if r == 0 then (s, false) else (addC s1 p.fam .l (-1), true)

def scrape (s : RState) (ih : Bytes) (f : Fam) : Nat × Nat :=
  ((hget s (swarmKey f true ih)).length, (hget s (swarmKey f false ih)).length)

/-- the two HKEYS replies, as a swarm; `none` when both are empty (`ErrResourceDoesNotExist`) -/
def swarm? (s : RState) (ih : Bytes) (f : Fam) : Option MemStore.Swarm :=
  let S := hget s (swarmKey f true ih)
  let L := hget s (swarmKey f false ih)
  if S.isEmpty && L.isEmpty then none else some ⟨S, L⟩

def announcePeers (s : RState) (ih : Bytes) (seeder : Bool) (numWant : Nat) (p : Peer) : Option (List Bytes) :=
  (swarm? s ih p.fam).map (MemStore.selectPeers · seeder numWant (MemStore.peerKey p))

/-- first round trip of the collector on one swarm key: HGETALL, and the fields it decides to remove -/
def gcKeyRead (s : RState) (k : Bytes) (cutoff : Int) : List (Bytes × Int) :=
  (hget s k).filter (fun e => decide (e.2 ≤ cutoff))

/-- the removal, as one `MULTI … HDEL k f₁ … fₙ … EXEC` group, and the `DECRBY` that follows it.
(HDEL removes a field whatever its current value.) -/
def gcHashApply (s : RState) (f : Fam) (k : Bytes) (stale : List (Bytes × Int)) : RState :=
  let s1 := stale.foldl (fun acc e => (hdel acc k e.1).1) s
  if stale.length > 0 then addC s1 f (if keyIsSeeder k then .s else .l) (-(stale.length : Int)) else s1

/-- the second half of the work on one swarm key: `WATCH k`, `HLEN k`, and when the hash is empty the
`MULTI … HDEL <family> k … EXEC` group that unregisters it, followed by the `DECR` of the infohash count -/
def gcIdx (s : RState) (f : Fam) (k : Bytes) : RState :=
  if (hget s k).isEmpty then
    let s3 := setIdx s f (AMap.erase (idx s f) k)
    -- D16 repaired: the infohash count follows the reply of the HDEL (1 iff the key was registered)
    if keyIsSeeder k && AMap.has (idx s f) k then addC s3 f .ih (-1) else s3
  else s

/-- the remaining round trips after the read: removal of the fields decided on, DECRBY, then the
WATCH/HLEN/MULTI removal of the index entry when the hash is empty. -/
def gcKeyApply (s : RState) (f : Fam) (k : Bytes) (stale : List (Bytes × Int)) : RState :=
  gcIdx (gcHashApply s f k stale) f k

/-- the first half on one swarm key when nothing intervenes between the read and the removal (which is
what the `WATCH` of the repaired collector guarantees for a removal that goes through) -/
def gcHash (s : RState) (f : Fam) (k : Bytes) (cutoff : Int) : RState :=
  gcHashApply s f k (gcKeyRead s k cutoff)

/-- one swarm key of the pass, run without anything in between -/
def gcKey (s : RState) (f : Fam) (k : Bytes) (cutoff : Int) : RState :=
  gcKeyApply s f k (gcKeyRead s k cutoff)

def gcFam (s : RState) (f : Fam) (cutoff : Int) : RState :=
  (AMap.keys (idx s f)).foldl (fun acc k => gcKey acc f k cutoff) s

def gc (s : RState) (cutoff : Int) : RState := gcFam (gcFam s .v4 cutoff) .v6 cutoff

/-- one tick of the Redis store's background expiry loop at cached clock `clock` (same cutoff rule
as the memory store: `MemStore.loopCutoff`) -/
def loopTick (s : RState) (clock life : Int) : RState := gc s (MemStore.loopCutoff clock life)

/-- `populateProm`: (infohashes, seeders, leechers), GET of the six counters -/
def totals (s : RState) : Int × Int × Int := (s.c.ih4 + s.c.ih6, s.c.s4 + s.c.s6, s.c.l4 + s.c.l6)


/-! ## round trips (C04 for Redis: `Props/RedisConc.lean`)

A store operation is a sequence of round trips; those of concurrently running operations interleave.
The first round trip of an announce-path operation is its whole membership change as one atomic
command group; the remaining ones are `INCR`/`DECR` on the counters, decided by the first one's replies. -/

/-- the command group shared by the put-type operations: HSET `pk` in `kA`, register `kA` in the
index of `f`, HDEL `pk` from `kB`; with the three replies -/
def core (s : RState) (f : Fam) (kA kB pk : Bytes) (now : Int) : RState × Nat × Nat × Nat :=
  let h0 := hset s kA pk now
  let h1 := idxSet h0.1 f kA now
  let h2 := hdel h1.1 kB pk
  (h2.1, h0.2, h1.2, h2.2)

def core2 (s : RState) (f : Fam) (kA kB pk : Bytes) (now : Int) : RState × Nat × Nat × Nat :=
  let h0 := hdel s kB pk
  let h1 := hset h0.1 kA pk now
  let h2 := idxSet h1.1 f kA now
  (h2.1, h1.2, h2.2, h0.2)

end RedisStore

namespace RedisConc
open RedisStore
open MemStore (peerKey)

/-- the store operations as units of atomicity: the five announce-path operations, and the two command
groups the (repaired) collector commits per swarm key. A collector pass is a thread whose program is
`gcHash k₁, gcIdx k₁, gcHash k₂, gcIdx k₂, …` for the keys its `HKEYS` returned.

The collector's groups are *optimistic*: it reads the swarm hash under `WATCH` (HGETALL resp. HLEN) and
its `MULTI … EXEC` goes through only if the hash has not changed since — so what it decided from the
read is what it would decide from the hash at the moment of the `EXEC`, and the committed group is this
atomic step. A discarded `EXEC` changes nothing (the collector reads again, or leaves the key to the
next pass) and is not a step of the model. -/
inductive AOp where
  | putSeeder (ih : Bytes) (p : Peer) (now : Int)
  | putLeecher (ih : Bytes) (p : Peer) (now : Int)
  | graduate (ih : Bytes) (p : Peer) (now : Int)
  | deleteSeeder (ih : Bytes) (p : Peer)
  | deleteLeecher (ih : Bytes) (p : Peer)
  | gcHash (f : Fam) (seeder : Bool) (ih : Bytes) (cutoff : Int)
  | gcIdx (f : Fam) (seeder : Bool) (ih : Bytes)
  deriving DecidableEq

/-- one `INCR` / `DECR` round trip -/
structure Delta where
  f : Fam
  k : CKind
  d : Int
  deriving DecidableEq

def applyDelta (s : RState) (δ : Delta) : RState := addC s δ.f δ.k δ.d
def applyDeltas (s : RState) (ds : List Delta) : RState := ds.foldl applyDelta s

def dIf (b : Bool) (f : Fam) (k : CKind) (d : Int) : List Delta := if b then [⟨f, k, d⟩] else []

/-- the first round trip of an operation: the new server state, the counter round trips its replies
call for (in the order the code issues them), and the operation's result (`false` =
`ErrResourceDoesNotExist`) -/
def first (s : RState) : AOp → RState × List Delta × Bool
  | .putSeeder ih p now =>
    let x := core s p.fam (swarmKey p.fam true ih) (swarmKey p.fam false ih) (peerKey p) now
    (x.1, dIf (x.2.2.2 == 1) p.fam .l (-1) ++ dIf (x.2.1 == 1) p.fam .s 1 ++ dIf (x.2.2.1 == 1) p.fam .ih 1, true)
  | .putLeecher ih p now =>
    let x := core s p.fam (swarmKey p.fam false ih) (swarmKey p.fam true ih) (peerKey p) now
    (x.1, dIf (x.2.2.2 == 1) p.fam .s (-1) ++ dIf (x.2.1 == 1) p.fam .l 1, true)
  | .graduate ih p now =>
    let x := core2 s p.fam (swarmKey p.fam true ih) (swarmKey p.fam false ih) (peerKey p) now
    (x.1, dIf (x.2.2.2 == 1) p.fam .l (-1) ++ dIf (x.2.1 == 1) p.fam .s 1 ++ dIf (x.2.2.1 == 1) p.fam .ih 1, true)
  | .deleteSeeder ih p =>
    let x := hdel s (swarmKey p.fam true ih) (peerKey p)
    if x.2 == 0 then (s, [], false) else (x.1, [⟨p.fam, .s, -1⟩], true)
  | .deleteLeecher ih p =>
    let x := hdel s (swarmKey p.fam false ih) (peerKey p)
    if x.2 == 0 then (s, [], false) else (x.1, [⟨p.fam, .l, -1⟩], true)
  | .gcHash f r ih cutoff =>
    let k := swarmKey f r ih
    let stale := gcKeyRead s k cutoff
    (stale.foldl (fun acc e => (hdel acc k e.1).1) s,
     dIf (decide (stale.length > 0)) f (if keyIsSeeder k then .s else .l) (-(stale.length : Int)), true)
  | .gcIdx f r ih =>
    let k := swarmKey f r ih
    if (hget s k).isEmpty then
      (setIdx s f (AMap.erase (idx s f) k), dIf (keyIsSeeder k && AMap.has (idx s f) k) f .ih (-1), true)
    else (s, [], true)

/-- an operation run alone: its first round trip, then its counter round trips -/
def seqOp (s : RState) (o : AOp) : RState := applyDeltas (first s o).1 (first s o).2.1

structure Thread where
  pending : List Delta := []     -- counter round trips of the operation in flight still to be issued
  todo : List AOp := []          -- operations not yet started
  deriving DecidableEq

structure Config where
  s : RState
  thr : Nat → Thread
  log : List (Nat × AOp × Bool) := []    -- (thread, operation, result) in the order of the first round trips

def upd (f : Nat → Thread) (i : Nat) (a : Thread) : Nat → Thread := fun j => if j = i then a else f j

def Init (s₀ : RState) (progs : Nat → List AOp) : Config := ⟨s₀, fun t => ⟨[], progs t⟩, []⟩

/-- the next round trip of thread `t`, if it has one -/
def stepThread (c : Config) (t : Nat) : Config :=
  match c.thr t with
  | ⟨δ :: ds, todo⟩ => ⟨applyDelta c.s δ, upd c.thr t ⟨ds, todo⟩, c.log⟩
  | ⟨[], o :: rest⟩ => ⟨(first c.s o).1, upd c.thr t ⟨(first c.s o).2.1, rest⟩, c.log ++ [(t, o, (first c.s o).2.2)]⟩
  | ⟨[], []⟩ => c

/-- run a schedule: the list of thread numbers whose turn it is -/
def run (c : Config) (sched : List Nat) : Config := sched.foldl stepThread c

end RedisConc
