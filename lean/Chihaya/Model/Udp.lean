import Chihaya.Model.Query
/-!
# Model of `frontend/udp`: `connection_id.go`, `parser.go`, `writer.go`, and `handleRequest` of `frontend.go`

* HMAC-SHA256 is an uninterpreted function `mac : Bytes → Bytes → Bytes` (key, message ↦ 32 bytes).
* The tracker logic behind the frontend is a parameter (`Logic`): what it answers to a request.
* Time is the cached clock in nanoseconds since the epoch (`timecache.Now()`).
* The announce parser is modelled as the code behaves with the repairs of DESIGN §6 D6 (the event
  is the 32-bit field) and D8 (with spoofing enabled a non-zero packet address replaces the source
  address in its own family; a zero address means the source); `WriteError` as repaired per D7
  (non-client errors are reported by one fixed message).
-/
namespace Udp
open Bytes

def slice (b : Bytes) (lo hi : Nat) : Bytes := (b.drop lo).take (hi - lo)

abbrev Mac := Bytes → Bytes → Bytes

/-! ## connection IDs -/

def ttlNs : Int := 120 * 1000000000

/-- `Generate(ip, now)`: 4-byte big-endian `uint32(now.Unix())` ++ first 4 bytes of HMAC(key, ts ++ ip) -/
def generate (mac : Mac) (key ip : Bytes) (nowNs : Int) : Bytes :=
  let ts := be32 ((nowNs / 1000000000) % 2^32).toNat
  ts ++ (mac key (ts ++ ip)).take 4

/-- `Validate(connID, ip, now, maxClockSkew)` for an 8-byte ID -/
def validate (mac : Mac) (key id ip : Bytes) (nowNs skewNs : Int) : Bool :=
  let tsNs : Int := (toNatBE (id.take 4) : Int) * 1000000000
  if nowNs > tsNs + ttlNs ∨ tsNs > nowNs + skewNs then false
  else (mac key (id.take 4 ++ ip)).take 4 == id.drop 4

/-! ## requests -/

def errMalformedPacket : ErrClass := .client "malformed packet"
def errMalformedIP : ErrClass := .client "malformed IP address"
def errMalformedEvent : ErrClass := .client "malformed event ID"
def errUnknownAction : ErrClass := .client "unknown action ID"
def errBadConnectionID : ErrClass := .client "bad connection ID"
def errUnknownOptionType : ErrClass := .client "unknown option type"

/-- BEP 15 event codes -/
def eventOfCode : Nat → Option Event
  | 0 => some .none
  | 1 => some .completed
  | 2 => some .started
  | 3 => some .stopped
  | _ => none

/-- BEP 41 options: concatenated URL data, or an error. `fuel` bounds the loop by the packet length. -/
def optionsLoop : Nat → Bytes → Bytes → Except ErrClass Bytes
  | 0, _, acc => .ok acc
  | _+1, [], acc => .ok acc
  | fuel+1, o :: rest, acc =>
    if o = 0 then .ok acc
    else if o = 1 then optionsLoop fuel rest acc
    else if o = 2 then
      match rest with
      | [] => .error errMalformedPacket
      | len :: rest' =>
        if rest'.length < len.toNat then .error errMalformedPacket
        else optionsLoop fuel (rest'.drop len.toNat) (acc ++ rest'.take len.toNat)
    else .error errUnknownOptionType

/-- `handleOptionalParameters` -/
def handleOptionalParameters (lower : Bytes → Bytes) (pkt : Bytes) : Except ErrClass (List (Bytes × Bytes)) :=
  match optionsLoop (pkt.length + 1) pkt [] with
  | .error e => .error e
  | .ok urlData =>
    match Query.parseURLData lower urlData with
    | .error e => .error e
    | .ok qp => .ok qp.params

/-- the packet's IP field names no address: all zero bytes (0.0.0.0 resp. ::), or — in the 16-byte field of the IPv6
layout — the IPv4-mapped form of 0.0.0.0 (`net.IP.IsUnspecified`; repair D24) -/
def allZero (b : Bytes) : Bool := b.all (· = 0) || b == List.replicate 10 0 ++ [255, 255, 0, 0, 0, 0]

/-- `ParseAnnounce(r, v6Action, opts)`; `src` is the transport source address (4 or 16 bytes; empty = nil) -/
def parseAnnounce (lower : Bytes → Bytes) (pkt src : Bytes) (v6Action : Bool) (opts : ParseOpts) : Except ErrClass AnnReq := do
  let ipEnd := 84 + (if v6Action then 16 else 4)
  if pkt.length < ipEnd + 10 then throw errMalformedPacket
  let code := toNatBE (slice pkt 80 84)
  let ev ← match eventOfCode code with
    | some e => pure e
    | none => throw errMalformedEvent
  let ipbytes := slice pkt 84 ipEnd
  let (ip, provided) := if opts.allowIPSpoofing && !allZero ipbytes then (ipbytes, true) else (src, false)
  if ip.isEmpty then throw errMalformedIP
  let params ← handleOptionalParameters lower (pkt.drop (ipEnd + 10))
  Sanitize.announce
    { event := ev, eventProvided := true, infoHash := slice pkt 16 36, compact := false,
      -- BEP 15: num_want = -1 (0xFFFFFFFF) is "default", i.e. not provided (D23)
      numWantProvided := toNatBE (slice pkt (ipEnd + 4) (ipEnd + 8)) != 4294967295,
      ipProvided := provided, numWant := toNatBE (slice pkt (ipEnd + 4) (ipEnd + 8)),
      left := toNatBE (slice pkt 64 72), downloaded := toNatBE (slice pkt 56 64), uploaded := toNatBE (slice pkt 72 80),
      peer := { id := slice pkt 36 56, port := toNatBE (slice pkt (ipEnd + 8) (ipEnd + 10)), ip := ip, fam := .v4 },
      params := params }
    opts.maxNumWant opts.defaultNumWant

def chunks20 : Nat → Bytes → List Bytes
  | 0, _ => []
  | n+1, b => if b.length < 20 then [] else b.take 20 :: chunks20 n (b.drop 20)

/-- `ParseScrape` followed by the family decision of `handleRequest` -/
def parseScrape (pkt src : Bytes) (opts : ParseOpts) : Except ErrClass ScrapeReq :=
  if pkt.length < 36 then .error errMalformedPacket
  else
    let body := pkt.drop 16
    if body.length % 20 ≠ 0 then .error errMalformedPacket
    else
      let r := Sanitize.scrape { fam := .v4, infoHashes := chunks20 body.length body, params := [] } opts.maxScrapeInfoHashes
      match Sanitize.famOf src with
      | some f => .ok { r with fam := f }
      | none => .error (.internal "PANIC udp: invalid IP")   -- `panic` in the source; unreachable for 4/16-byte sources

/-! ## responses -/

def genericInternal : Bytes := Bytes.ofString "internal error occurred"

def header (action : Nat) (tx : Bytes) : Bytes := be32 action ++ tx

def writeError (tx : Bytes) (e : ErrClass) : Bytes :=
  header 3 tx ++ (match e with
    | .client m => Bytes.ofString m
    | .internal _ => genericInternal) ++ [0]

def peerBytes (p : Peer) : Bytes := p.ip ++ be16 (p.port % 2^16)

/-- the address bytes of a peer entry: the 4-byte form in the IPv4 list (`To4`), the 16-byte form in
the IPv6 list (`To16`) — whatever form the response value holds the address in (D31); an address
that has no such form is written as it is -/
def entryIP (v6 : Bool) (ip : Bytes) : Bytes :=
  if v6 then (if ip.length = 4 then List.replicate 10 0 ++ [255, 255] ++ ip else ip)
  else match Sanitize.to4 ip with
    | some ip4 => ip4
    | none => ip

/-- the largest payload of a UDP datagram -/
def maxPayload : Nat := 65507

/-- how many peer entries fit behind the 20-byte head of an announce response (D32) -/
def maxEntries (v6 : Bool) : Nat := (maxPayload - 20) / (if v6 then 18 else 6)

/-- the peers an announce response carries on the wire: those of the requested list, in order, in
their family's address form, as many as one datagram holds -/
def wirePeers (r : AnnResp) (v6Peers : Bool) : List Peer :=
  ((if v6Peers then r.v6peers else r.v4peers).take (maxEntries v6Peers)).map fun p => { p with ip := entryIP v6Peers p.ip }

/-- `WriteAnnounce(w, txID, resp, v6Action, v6Peers)` -/
def writeAnnounce (tx : Bytes) (r : AnnResp) (v6Action v6Peers : Bool) : Bytes :=
  header (if v6Action then 4 else 1) tx ++
  be32 ((Int.tdiv r.interval 1000000000) % 2^32).toNat ++ be32 (r.incomplete % 2^32) ++ be32 (r.complete % 2^32) ++
  ((wirePeers r v6Peers).flatMap peerBytes)

def scrapeBytes (s : Scrape) : Bytes :=
  be32 (s.complete % 2^32) ++ be32 (s.snatches % 2^32) ++ be32 (s.incomplete % 2^32)

def writeScrape (tx : Bytes) (r : ScrapeResp) : Bytes :=
  header 2 tx ++ r.files.flatMap scrapeBytes

def writeConnectionID (tx connID : Bytes) : Bytes := header 0 tx ++ connID

/-! ## `handleRequest` -/

def initialConnectionID : Bytes := [0, 0, 0x04, 0x17, 0x27, 0x10, 0x19, 0x80]

structure Cfg where
  key : Bytes
  skewNs : Int
  opts : ParseOpts

/-- what the tracker logic behind the frontend answers -/
structure Logic where
  announce : AnnReq → Except ErrClass AnnResp
  scrape : ScrapeReq → Except ErrClass ScrapeResp

inductive Call where
  | announce (r : AnnReq)
  | scrape (r : ScrapeReq)

/-- result of one datagram: the response datagram if any, the call made to the logic if any, and
whether the post-response hooks (`AfterAnnounce` / `AfterScrape`) are started -/
structure Result where
  out : Option Bytes
  call : Option Call
  after : Bool
  panic : Bool := false

def handleRequest (mac : Mac) (lower : Bytes → Bytes) (cfg : Cfg) (logic : Logic) (nowNs : Int) (pkt src : Bytes) : Result :=
  if pkt.length < 16 then { out := none, call := none, after := false }
  else
    let connID := slice pkt 0 8
    let action := toNatBE (slice pkt 8 12)
    let tx := slice pkt 12 16
    if action ≠ 0 ∧ !validate mac cfg.key connID src nowNs cfg.skewNs then
      { out := some (writeError tx errBadConnectionID), call := none, after := false }
    else if action = 0 then
      if connID ≠ initialConnectionID then { out := none, call := none, after := false }
      else match Sanitize.famOf src with
        | none => { out := none, call := none, after := false, panic := true }
        | some _ => { out := some (writeConnectionID tx (generate mac cfg.key src nowNs)), call := none, after := false }
    else if action = 1 ∨ action = 4 then
      match parseAnnounce lower pkt src (action = 4) cfg.opts with
      | .error e => { out := some (writeError tx e), call := none, after := false }
      | .ok req =>
        match logic.announce req with
        | .error e => { out := some (writeError tx e), call := some (.announce req), after := false }
        | .ok resp => { out := some (writeAnnounce tx resp (action = 4) (req.peer.fam = .v6)), call := some (.announce req), after := true }
    else if action = 2 then
      match parseScrape pkt src cfg.opts with
      | .error (.internal _) => { out := none, call := none, after := false, panic := true }
      | .error e => { out := some (writeError tx e), call := none, after := false }
      | .ok req =>
        match logic.scrape req with
        | .error e => { out := some (writeError tx e), call := some (.scrape req), after := false }
        | .ok resp => { out := some (writeScrape tx resp), call := some (.scrape req), after := true }
    else { out := some (writeError tx errUnknownAction), call := none, after := false }

end Udp
