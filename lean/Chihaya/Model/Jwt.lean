/-!
# Model of `middleware/jwt` (`HandleAnnounce`, `validateJWT`, key refresh)

Cryptography and serialisation (RSA, JWS compact form, JSON, base64, JWK decoding) are external:
a token is the record of abstract facts the library reports about it; `sigOK k` = "the RS256
signature verifies under key `k`". The decision logic on top of those facts is what is modelled.
Modelled as repaired per DESIGN §6 D9: `exp` / `nbf` are checked (`Validate`), and a validation
uses one published key set (snapshot taken under the lock).
-/
namespace Jwt

structure Token where
  parses : Bool                 -- `jws.ParseJWT` succeeds
  iss : Option String
  aud : Option (List String)    -- a string audience is a one-element list
  infohashClaim : Option String -- claim "infohash" when it is a JSON string
  kid : Option String           -- protected header "kid" when it is a string
  algRS256 : Bool               -- protected header "alg" is RS256
  sigOK : Nat → Bool            -- signature verifies under key (keys are numbered)
  exp : Option Int              -- seconds (a NumericDate)
  nbf : Option Int
  expMalformed : Bool := false  -- the claim is there and is not a NumericDate a time can hold (a string, 1e19, …)
  nbfMalformed : Bool := false

structure Cfg where
  issuer : String
  audience : String

abbrev KeySet := List (String × Nat)   -- kid ↦ key

def lookupKey (ks : KeySet) (kid : String) : Option Nat := (ks.find? (·.1 = kid)).map (·.2)

/-- `validateJWT` -/
def valid (cfg : Cfg) (ks : KeySet) (ihHex : String) (now : Int) (t : Token) : Bool :=
  t.parses &&
  (t.iss == some cfg.issuer) &&
  (match t.aud with | some l => l.contains cfg.audience | none => false) &&
  (t.infohashClaim == some ihHex) &&
  (match t.kid with
   | none => false
   | some kid => match lookupKey ks kid with
     | none => false
     | some k => t.algRS256 && t.sigOK k) &&
  (match t.exp with | none => true | some e => decide (now ≤ e)) &&
  (match t.nbf with | none => true | some n => decide (n ≤ now)) &&
  !t.expMalformed && !t.nbfMalformed        -- D35: such a token has no validity period to be within

inductive Verdict where
  | accept
  | missing      -- `ErrMissingJWT`
  | invalid      -- `ErrInvalidJWT`
  deriving DecidableEq, Repr

/-- `HandleAnnounce`: `tok = none` when the request carries no `jwt` parameter -/
def handleAnnounce (cfg : Cfg) (ks : KeySet) (ihHex : String) (now : Int) (tok : Option Token) : Verdict :=
  match tok with
  | none => .missing
  | some t => if valid cfg ks ihHex now t then .accept else .invalid

/-- `HandleScrape` -/
def handleScrape : Verdict := .accept

/-! ## key refreshes interleaved with validations (operation granularity) -/

/-- what a fetched JWK set publishes: the entries that decode to a public key; the others (key types the library
does not know, malformed parameters) are passed over (D34) -/
def publish (entries : List (String × Option Nat)) : KeySet :=
  entries.filterMap fun e => e.2.map fun k => (e.1, k)

inductive Ev where
  | refresh (ks : KeySet)                     -- a successful `updateKeys` publishes a whole new set
  | refreshFailed                             -- fetch/decode error: the published set stays
  | announce (ihHex : String) (now : Int) (tok : Option Token)

def run (cfg : Cfg) : KeySet → List Ev → List Verdict
  | _, [] => []
  | _, .refresh ks' :: es => run cfg ks' es
  | ks, .refreshFailed :: es => run cfg ks es
  | ks, .announce ih now tok :: es => handleAnnounce cfg ks ih now tok :: run cfg ks es

end Jwt
