import Chihaya.Model.MemStore
/-!
# Peer selection (`AnnouncePeers`) and its specification `validSelection`

`selectKeys` is the selection loop on explicit key lists (the iteration order of the two Go maps /
Redis HKEYS replies); `validSelection` is the executable statement of C02 on a *returned* list.
-/
namespace Select

/-- the loops of `AnnouncePeers` over the seeders' and leechers' keys in iteration order -/
def selectKeys (sKeys lKeys : List Bytes) (seeder : Bool) (numWant : Nat) (self : Bytes) : List Bytes :=
  if seeder then lKeys.take numWant
  else
    let s := sKeys.take numWant
    s ++ (lKeys.filter (· ≠ self)).take (numWant - s.length)

theorem selectPeers_eq (sw : MemStore.Swarm) (seeder : Bool) (numWant : Nat) (self : Bytes) :
    MemStore.selectPeers sw seeder numWant self = selectKeys (AMap.keys sw.seeders) (AMap.keys sw.leechers) seeder numWant self := rfl

/-- C02 on a returned list `out`, for a swarm with seeder keys `S` and leecher keys `L`:
no repeats; a seeder gets only leechers, as many as available up to numwant; a leecher gets seeders
first (as many as available up to numwant), then other leechers up to the rest, never itself. -/
def validSelection (S L : List Bytes) (seeder : Bool) (numWant : Nat) (self : Bytes) (out : List Bytes) : Bool :=
  out.Nodup &&
  (if seeder then
    out.all (· ∈ L) && out.length == min numWant L.length
  else
    let k := min numWant S.length
    let outS := out.take k
    let outL := out.drop k
    outS.length == k && outS.all (· ∈ S) &&
    outL.all (fun x => x ∈ L && x != self) &&
    outL.length == min (numWant - k) (L.filter (· ≠ self)).length)

end Select
