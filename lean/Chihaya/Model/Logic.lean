import Chihaya.Model.MemStore
/-!
# Model of `middleware/logic.go` and `middleware/hooks.go`

Hooks are arbitrary functions; the two built-in hooks (`responseHook`, appended to the pre-hooks,
and `swarmInteractionHook`, appended to the post-hooks) are written against an abstract store
interface `StoreOps σ`, instantiated by the memory store and the Redis store models.
Every hook invocation is logged (its index in the chain) so that "no later hook runs" is a statement
about the log.
-/
namespace Logic

/-- the part of `context.Context` the built-in hooks read -/
structure Ctx where
  skipSwarmInteraction : Bool := false
  skipResponse : Bool := false
  tags : List Nat := []            -- whatever else hooks put there (opaque)
  deriving Repr, Inhabited, DecidableEq

structure StoreOps (σ : Type) where
  putSeeder : σ → Bytes → Peer → σ
  putLeecher : σ → Bytes → Peer → σ
  graduate : σ → Bytes → Peer → σ
  deleteSeeder : σ → Bytes → Peer → σ × Bool
  deleteLeecher : σ → Bytes → Peer → σ × Bool
  scrape : σ → Bytes → Fam → Nat × Nat
  /-- `none` = `ErrResourceDoesNotExist`; the list is in the store's iteration order -/
  announcePeers : σ → Bytes → Bool → Nat → Peer → Option (List Peer)
  /-- the store cannot be reached (a lost Redis): every operation fails, reads that swallow their error
  report nothing, writes change nothing. The memory store is never down. -/
  down : σ → Bool := fun _ => false

abbrev AnnHook := Ctx → AnnReq → AnnResp → Except ErrClass (Ctx × AnnResp)
abbrev ScrHook := Ctx → ScrapeReq → ScrapeResp → Except ErrClass (Ctx × ScrapeResp)

/-- run a chain; returns the indices of the hooks invoked, and the outcome -/
def runAnn (hooks : List AnnHook) (req : AnnReq) : Nat → Ctx → AnnResp → List Nat × Except ErrClass (Ctx × AnnResp)
  := go hooks
where
  go : List AnnHook → Nat → Ctx → AnnResp → List Nat × Except ErrClass (Ctx × AnnResp)
  | [], _, ctx, resp => ([], .ok (ctx, resp))
  | h :: rest, i, ctx, resp =>
    match h ctx req resp with
    | .error e => ([i], .error e)
    | .ok (ctx', resp') =>
      let r := go rest (i + 1) ctx' resp'
      (i :: r.1, r.2)

def runScr (hooks : List ScrHook) (req : ScrapeReq) : Nat → Ctx → ScrapeResp → List Nat × Except ErrClass (Ctx × ScrapeResp)
  := go hooks
where
  go : List ScrHook → Nat → Ctx → ScrapeResp → List Nat × Except ErrClass (Ctx × ScrapeResp)
  | [], _, ctx, resp => ([], .ok (ctx, resp))
  | h :: rest, i, ctx, resp =>
    match h ctx req resp with
    | .error e => ([i], .error e)
    | .ok (ctx', resp') =>
      let r := go rest (i + 1) ctx' resp'
      (i :: r.1, r.2)

variable {σ : Type}

/-- `responseHook.HandleAnnounce` (reads the store) -/
def responseAnnounce (ops : StoreOps σ) (st : σ) : AnnHook := fun ctx req resp =>
  if ctx.skipResponse then .ok (ctx, resp)
  else if ops.down st then .error (.internal "storage failure")   -- `AnnouncePeers` returns the store's error
  else
    let (complete, incomplete) := ops.scrape st req.infoHash req.peer.fam
    let seeding := req.left = 0
    let peers := (ops.announcePeers st req.infoHash seeding req.numWant req.peer).getD []
    let (peers', complete', incomplete') :=
      if peers.isEmpty then ([req.peer], if seeding then complete + 1 else complete, if seeding then incomplete else incomplete + 1)
      else (peers, complete, incomplete)
    let resp' := { resp with complete := complete' % 2^32, incomplete := incomplete' % 2^32 }
    .ok (ctx, match req.peer.fam with
      | .v4 => { resp' with v4peers := peers' }
      | .v6 => { resp' with v6peers := peers' })

/-- `responseHook.HandleScrape`: one entry per requested infohash, in request order -/
def responseScrape (ops : StoreOps σ) (st : σ) : ScrHook := fun ctx req resp =>
  if ctx.skipResponse then .ok (ctx, resp)
  else .ok (ctx, { files := resp.files ++ req.infoHashes.map fun ih =>
      let (c, i) := if ops.down st then (0, 0) else ops.scrape st ih req.fam   -- `ScrapeSwarm` logs its error and reports nothing
      { infoHash := ih, snatches := 0, complete := c % 2^32, incomplete := i % 2^32 } })

/-- `swarmInteractionHook.HandleAnnounce` as a state transformer -/
def swarmInteraction (ops : StoreOps σ) (st : σ) (ctx : Ctx) (req : AnnReq) : σ :=
  if ctx.skipSwarmInteraction then st
  else if ops.down st then st   -- every write fails: nothing changes
  else match req.event with
    | .stopped => (ops.deleteLeecher (ops.deleteSeeder st req.infoHash req.peer).1 req.infoHash req.peer).1
    | .completed => ops.graduate st req.infoHash req.peer
    | _ => if req.left = 0 then ops.putSeeder st req.infoHash req.peer else ops.putLeecher st req.infoHash req.peer

structure Config where
  announceInterval : Int
  minAnnounceInterval : Int

/-- the response `HandleAnnounce` starts from -/
def initResp (cfg : Config) (req : AnnReq) : AnnResp :=
  { compact := req.compact, complete := 0, incomplete := 0, interval := cfg.announceInterval,
    minInterval := cfg.minAnnounceInterval, v4peers := [], v6peers := [] }

/-- `Logic.HandleAnnounce`: pre-hooks, then the response hook (always last) -/
def handleAnnounce (cfg : Config) (ops : StoreOps σ) (pre : List AnnHook) (st : σ) (req : AnnReq) :
    List Nat × Except ErrClass (Ctx × AnnResp) :=
  runAnn (pre ++ [responseAnnounce ops st]) req 0 {} (initResp cfg req)

/-- the post-hook phase (since the repair D28): every post-hook runs, in order; one that fails is logged and passed
over — the context goes on as it was before it — and the chain continues. Returns the indices that ran and the
context the built-in swarm interaction will see. -/
def runPost (req : AnnReq) (resp : AnnResp) : List AnnHook → Nat → Ctx → List Nat × Ctx
  | [], _, ctx => ([], ctx)
  | h :: rest, i, ctx =>
    let ctx' := match h ctx req resp with
      | .ok (c, _) => c
      | .error _ => ctx
    let x := runPost req resp rest (i + 1) ctx'
    (i :: x.1, x.2)

/-- `Logic.AfterAnnounce`: post-hooks, then the swarm interaction (always last, always run). Returns the post-hook
log and the new store state. -/
def afterAnnounce (ops : StoreOps σ) (post : List AnnHook) (st : σ) (ctx : Ctx) (req : AnnReq) (resp : AnnResp) : List Nat × σ :=
  let x := runPost req resp post 0 ctx
  (x.1 ++ [post.length], swarmInteraction ops st x.2 req)

def handleScrape (ops : StoreOps σ) (pre : List ScrHook) (st : σ) (req : ScrapeReq) :
    List Nat × Except ErrClass (Ctx × ScrapeResp) :=
  runScr (pre ++ [responseScrape ops st]) req 0 {} { files := [] }

/-! ## instantiation: the memory store at clock `now` -/

def decodePeerKey (f : Fam) (pk : Bytes) : Peer :=
  { id := pk.take 20, port := Bytes.toNatBE ((pk.drop 20).take 2), ip := pk.drop 22, fam := f }

def memOps (now : Int) : StoreOps MemStore.Mem where
  putSeeder m ih p := m.putSeeder ih p now
  putLeecher m ih p := m.putLeecher ih p now
  graduate m ih p := m.graduate ih p now
  deleteSeeder m ih p := m.deleteSeeder ih p
  deleteLeecher m ih p := m.deleteLeecher ih p
  scrape m ih f := m.scrape ih f
  announcePeers m ih seeder nw p := (m.announcePeers ih seeder nw p).map (·.map (decodePeerKey p.fam))

end Logic
