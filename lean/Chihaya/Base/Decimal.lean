import Chihaya.Base.Bytes
/-!
# Decimal: Nat/Int ⇄ ASCII, as `strconv.FormatInt/FormatUint/Itoa` write them and as
`strconv.ParseInt(s,10,64)` / `strconv.ParseUint(s,10,bits)` read them.

Modelled (trusted): that Go's strconv behaves as these definitions say — tied by the
correspondence streams of C06/C19, never by a theorem.
-/

namespace Decimal

def isDigit (c : UInt8) : Bool := 48 ≤ c.toNat && c.toNat ≤ 57

def digit (d : Nat) : UInt8 := UInt8.ofNat (48 + d)

/-- big-endian ASCII digits of `n`, no leading zeros (`0` ↦ "0") -/
def natDigits (n : Nat) : Bytes :=
  if n < 10 then [digit n] else natDigits (n / 10) ++ [digit (n % 10)]
decreasing_by omega

/-- accumulate digits; `none` on a non-digit -/
def parseAux : Nat → Bytes → Option Nat
  | acc, [] => some acc
  | acc, c :: rest => if isDigit c then parseAux (acc * 10 + (c.toNat - 48)) rest else none

/-- non-empty all-digit string ↦ its value -/
def parseNat (s : Bytes) : Option Nat :=
  if s.isEmpty then none else parseAux 0 s

theorem parseAux_append (acc : Nat) (a b : Bytes) :
    parseAux acc (a ++ b) = (parseAux acc a).bind (fun x => parseAux x b) := by
  induction a generalizing acc with
  | nil => simp [parseAux]
  | cons c cs ih =>
    simp only [List.cons_append, parseAux]
    split
    · exact ih _
    · simp

theorem digit_isDigit {d : Nat} (h : d < 10) : isDigit (digit d) = true := by
  simp [isDigit, digit, UInt8.toNat_ofNat']
  omega

theorem digit_toNat {d : Nat} (h : d < 10) : (digit d).toNat - 48 = d := by
  simp [digit, UInt8.toNat_ofNat']
  omega

theorem parseAux_digit (acc : Nat) {d : Nat} (h : d < 10) : parseAux acc [digit d] = some (acc * 10 + d) := by
  simp [parseAux, digit_isDigit h, digit_toNat h]

theorem natDigits_ne_nil (n : Nat) : natDigits n ≠ [] := by
  unfold natDigits; split <;> simp

theorem parseAux_natDigits (n : Nat) : parseAux 0 (natDigits n) = some n := by
  induction n using Nat.strongRecOn with
  | ind n ih =>
    unfold natDigits
    split
    · rename_i h; simpa using parseAux_digit 0 h
    · rename_i h
      rw [parseAux_append, ih (n / 10) (by omega)]
      simp only [Option.bind_some]
      rw [parseAux_digit _ (by omega)]
      congr 1; omega

theorem parseNat_natDigits (n : Nat) : parseNat (natDigits n) = some n := by
  unfold parseNat
  have := natDigits_ne_nil n
  cases h : natDigits n with
  | nil => exact absurd h this
  | cons c cs =>
    have := parseAux_natDigits n
    rw [h] at this
    simpa using this

theorem natDigits_all_digit (n : Nat) : ∀ c ∈ natDigits n, isDigit c = true := by
  induction n using Nat.strongRecOn with
  | ind n ih =>
    unfold natDigits
    split
    · rename_i h; intro c hc; simp at hc; subst hc; exact digit_isDigit h
    · intro c hc
      simp only [List.mem_append, List.mem_singleton] at hc
      rcases hc with hc | hc
      · exact ih (n / 10) (by omega) c hc
      · subst hc; exact digit_isDigit (by omega)

/-- number of digits is at most 20 below 2^64 (used for the 4096-byte scan limit) -/
theorem natDigits_length_le (n : Nat) (k : Nat) (h : n < 10 ^ (k+1)) : (natDigits n).length ≤ k + 1 := by
  induction k generalizing n with
  | zero => unfold natDigits; simp at h; simp [h]
  | succ k ih =>
    unfold natDigits
    split
    · simp
    · have : n / 10 < 10 ^ (k+1) := by
        rw [Nat.pow_succ] at h; omega
      have := ih (n / 10) this
      simp; omega

/-- `strconv.FormatInt(i, 10)` -/
def showInt (i : Int) : Bytes :=
  if i < 0 then 45 :: natDigits i.natAbs else natDigits i.natAbs

def showNat (n : Nat) : Bytes := natDigits n

/-- `strconv.ParseInt(s, 10, 64)`: optional sign, non-empty digits, range check. -/
def parseInt64 (s : Bytes) : Option Int :=
  match s with
  | [] => none
  | c :: rest =>
    if c = 43 then
      (parseNat rest).bind fun n => if n < 2^63 then some (Int.ofNat n) else none
    else if c = 45 then
      (parseNat rest).bind fun n => if n ≤ 2^63 then some (- Int.ofNat n) else none
    else
      (parseNat s).bind fun n => if n < 2^63 then some (Int.ofNat n) else none

/-- `strconv.ParseUint(s, 10, bits)`: no sign, non-empty digits, range check. -/
def parseUint (bits : Nat) (s : Bytes) : Option Nat :=
  (parseNat s).bind fun n => if n < 2^bits then some n else none

def Int64 (i : Int) : Prop := -(2^63 : Int) ≤ i ∧ i < 2^63

theorem natDigits_head_digit (n : Nat) : ∃ c cs, natDigits n = c :: cs ∧ isDigit c = true := by
  have hne := natDigits_ne_nil n
  cases h : natDigits n with
  | nil => exact absurd h hne
  | cons c cs =>
    refine ⟨c, cs, rfl, ?_⟩
    have := natDigits_all_digit n c (by rw [h]; simp)
    exact this

theorem isDigit_ne_sign {c : UInt8} (h : isDigit c = true) : c ≠ 43 ∧ c ≠ 45 := by
  simp [isDigit] at h
  constructor <;> (intro hc; subst hc; simp at h)

theorem parseInt64_showInt (i : Int) (h : Int64 i) : parseInt64 (showInt i) = some i := by
  unfold showInt
  split
  · rename_i hneg
    simp only [parseInt64]
    simp only [show ((45 : UInt8) = 43) = False by decide, if_false, if_true]
    rw [parseNat_natDigits]
    simp only [Option.bind_some]
    have : i.natAbs ≤ 2^63 := by unfold Int64 at h; omega
    simp only [this, if_true]
    congr 1
    show -((i.natAbs : Nat) : Int) = i
    omega
  · rename_i hpos
    obtain ⟨c, cs, hcs, hd⟩ := natDigits_head_digit i.natAbs
    have hs := isDigit_ne_sign hd
    rw [hcs]
    simp only [parseInt64, hs.1, hs.2, if_false]
    rw [← hcs, parseNat_natDigits]
    simp only [Option.bind_some]
    have : i.natAbs < 2^63 := by unfold Int64 at h; omega
    simp only [this, if_true]
    congr 1
    show ((i.natAbs : Nat) : Int) = i
    omega

theorem parseUint_showNat (bits n : Nat) (h : n < 2^bits) : parseUint bits (showNat n) = some n := by
  simp [parseUint, showNat, parseNat_natDigits, h]

theorem showInt_length_le (i : Int) (h : Int64 i) : (showInt i).length ≤ 20 := by
  have hn : i.natAbs < 10 ^ 19 := by unfold Int64 at h; omega
  have := natDigits_length_le i.natAbs 18 hn
  unfold showInt; split <;> simp <;> omega

/-- characters of a rendered integer: digits or '-' -/
theorem showInt_chars (i : Int) : ∀ c ∈ showInt i, isDigit c = true ∨ c = 45 := by
  intro c hc
  unfold showInt at hc
  split at hc
  · simp only [List.mem_cons] at hc
    rcases hc with hc | hc
    · exact Or.inr hc
    · exact Or.inl (natDigits_all_digit _ c hc)
  · exact Or.inl (natDigits_all_digit _ c hc)

end Decimal
