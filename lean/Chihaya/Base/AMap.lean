import Chihaya.Base.Bytes
/-!
# AMap: association lists keyed by byte strings, as a model of Go maps

The order of the list models Go's (unspecified) iteration order; theorems quantify over all
states, hence over all orders. The no-duplicate-keys invariant is kept as a separate predicate
(`AMap.WF`), not a subtype.
-/
namespace AMap
variable {α : Type}

def get : List (Bytes × α) → Bytes → Option α
  | [], _ => none
  | (k', v) :: r, k => if k' = k then some v else get r k

def set : List (Bytes × α) → Bytes → α → List (Bytes × α)
  | [], k, v => [(k, v)]
  | (k', v') :: r, k, v => if k' = k then (k, v) :: r else (k', v') :: set r k v

def erase : List (Bytes × α) → Bytes → List (Bytes × α)
  | [], _ => []
  | (k', v') :: r, k => if k' = k then r else (k', v') :: erase r k

def keys (m : List (Bytes × α)) : List Bytes := m.map (·.1)
def WF (m : List (Bytes × α)) : Prop := (keys m).Nodup
def has (m : List (Bytes × α)) (k : Bytes) : Bool := (get m k).isSome

@[simp] theorem get_nil (k : Bytes) : get ([] : List (Bytes × α)) k = none := rfl
@[simp] theorem wf_nil : WF ([] : List (Bytes × α)) := by simp [WF, keys]

theorem mem_keys_iff (m : List (Bytes × α)) (k : Bytes) : k ∈ keys m ↔ (get m k).isSome = true := by
  induction m with
  | nil => simp [keys]
  | cons p r ih =>
    obtain ⟨k', v⟩ := p
    simp only [keys, List.map_cons, List.mem_cons, get]
    by_cases h : k' = k
    · simp [h]
    · have : ¬ k = k' := fun e => h e.symm
      simp only [h, this, if_false, false_or]
      exact ih

theorem get_none_iff (m : List (Bytes × α)) (k : Bytes) : get m k = none ↔ k ∉ keys m := by
  rw [mem_keys_iff]; cases get m k <;> simp

theorem get_set (m : List (Bytes × α)) (k k' : Bytes) (v : α) :
    get (set m k v) k' = if k = k' then some v else get m k' := by
  induction m with
  | nil => simp [set, get]
  | cons p r ih =>
    obtain ⟨k0, v0⟩ := p
    simp only [set]
    by_cases h : k0 = k
    · subst h; simp only [if_true, get]; split <;> rfl
    · simp only [h, if_false, get, ih]
      by_cases h2 : k0 = k'
      · have : ¬ k = k' := fun e => h (h2.trans e.symm)
        simp [h2, this]
      · simp [h2]

theorem get_erase (m : List (Bytes × α)) (hm : WF m) (k k' : Bytes) :
    get (erase m k) k' = if k = k' then none else get m k' := by
  induction m with
  | nil => simp [erase]
  | cons p r ih =>
    obtain ⟨k0, v0⟩ := p
    have hr : WF r := by simp only [WF, keys, List.map_cons, List.nodup_cons] at hm; exact hm.2
    have hk0 : k0 ∉ keys r := by simp only [WF, keys, List.map_cons, List.nodup_cons] at hm; exact hm.1
    simp only [erase]
    by_cases h : k0 = k
    · subst h
      simp only [if_true, get]
      by_cases h2 : k0 = k'
      · subst h2; simp only [if_true]; exact (get_none_iff r k0).mpr hk0
      · simp [h2]
    · simp only [h, if_false, get, ih hr]
      by_cases h2 : k0 = k'
      · have : ¬ k = k' := fun e => h (h2.trans e.symm)
        simp [h2, this]
      · simp [h2]

theorem keys_set (m : List (Bytes × α)) (k : Bytes) (v : α) :
    keys (set m k v) = if k ∈ keys m then keys m else keys m ++ [k] := by
  induction m with
  | nil => simp [set, keys]
  | cons p r ih =>
    obtain ⟨k0, v0⟩ := p
    simp only [set]
    by_cases h : k0 = k
    · subst h; simp [keys]
    · have h' : ¬ k = k0 := fun e => h e.symm
      simp only [h, if_false, keys, List.map_cons, List.mem_cons, h', false_or] at ih ⊢
      show k0 :: List.map (fun x => x.fst) (set r k v) = _
      rw [ih]
      split <;> simp [*]

theorem wf_set (m : List (Bytes × α)) (hm : WF m) (k : Bytes) (v : α) : WF (set m k v) := by
  unfold WF at *
  rw [keys_set]
  split
  · exact hm
  · rename_i h
    rw [List.nodup_append]
    refine ⟨hm, by simp, ?_⟩
    intro a ha b hb
    simp at hb; subst hb
    intro e; subst e; exact h ha

theorem keys_erase_sublist (m : List (Bytes × α)) (k : Bytes) : (keys (erase m k)).Sublist (keys m) := by
  induction m with
  | nil => simp [erase, keys]
  | cons p r ih =>
    obtain ⟨k0, v0⟩ := p
    simp only [erase]
    split
    · simp [keys]
    · simp only [keys, List.map_cons]; exact ih.cons_cons _

theorem wf_erase (m : List (Bytes × α)) (hm : WF m) (k : Bytes) : WF (erase m k) :=
  (keys_erase_sublist m k).nodup hm

theorem length_set (m : List (Bytes × α)) (k : Bytes) (v : α) :
    (set m k v).length = if (get m k).isSome then m.length else m.length + 1 := by
  induction m with
  | nil => simp [set]
  | cons p r ih =>
    obtain ⟨k0, v0⟩ := p
    simp only [set, get]
    by_cases h : k0 = k
    · simp [h]
    · simp only [h, if_false, List.length_cons, ih]; split <;> rfl

theorem length_erase (m : List (Bytes × α)) (k : Bytes) :
    (erase m k).length = if (get m k).isSome then m.length - 1 else m.length := by
  induction m with
  | nil => simp [erase]
  | cons p r ih =>
    obtain ⟨k0, v0⟩ := p
    simp only [erase, get]
    by_cases h : k0 = k
    · simp [h]
    · simp only [h, if_false, List.length_cons, ih]
      split
      · rename_i hs
        have : 0 < r.length := by
          cases r with
          | nil => simp at hs
          | cons _ _ => simp
        omega
      · rfl

theorem erase_of_not_has (m : List (Bytes × α)) (k : Bytes) (h : get m k = none) : erase m k = m := by
  induction m with
  | nil => rfl
  | cons p r ih =>
    obtain ⟨k0, v0⟩ := p
    simp only [get] at h
    by_cases h0 : k0 = k
    · simp [h0] at h
    · simp only [h0, if_false] at h; simp [erase, h0, ih h]

end AMap
