/-!
# Bytes: big-endian integers, hex, small list helpers

Core Lean only. `Bytes := List UInt8`.
-/

abbrev Bytes := List UInt8

theorem List.rev_ind {α} {P : List α → Prop} (hnil : P []) (hsnoc : ∀ l x, P l → P (l ++ [x])) : ∀ l, P l := by
  have h : ∀ l : List α, P l.reverse := by
    intro l
    induction l with
    | nil => simpa using hnil
    | cons x xs ih => rw [List.reverse_cons]; exact hsnoc _ _ ih
  intro l
  have := h l.reverse
  rwa [List.reverse_reverse] at this

namespace Bytes
def beN : Nat → Nat → Bytes
  | 0, _ => []
  | k+1, n => beN k (n / 256) ++ [UInt8.ofNat (n % 256)]

def toNatBE (b : Bytes) : Nat := b.foldl (fun acc x => acc * 256 + x.toNat) 0

@[simp] theorem beN_length (k n : Nat) : (beN k n).length = k := by
  induction k generalizing n with
  | zero => rfl
  | succ k ih => simp [beN, ih]

theorem toNatBE_append_singleton (l : Bytes) (x : UInt8) : toNatBE (l ++ [x]) = toNatBE l * 256 + x.toNat := by
  simp [toNatBE, List.foldl_append]

theorem toNatBE_lt (b : Bytes) : toNatBE b < 256 ^ b.length := by
  induction b using List.rev_ind with
  | hnil => simp [toNatBE]
  | hsnoc l x ih =>
    rw [toNatBE_append_singleton]
    have hx : x.toNat < 256 := x.toNat_lt
    simp only [List.length_append, List.length_cons, List.length_nil, Nat.pow_succ]
    omega

theorem toNatBE_beN (k n : Nat) : toNatBE (beN k n) = n % 256 ^ k := by
  induction k generalizing n with
  | zero => simp [beN, toNatBE, Nat.mod_one]
  | succ k ih =>
    simp only [beN, toNatBE_append_singleton, ih]
    rw [Nat.pow_succ, Nat.mul_comm (256 ^ k) 256, Nat.mod_mul]
    simp
    omega

theorem toNatBE_beN_of_lt {k n : Nat} (h : n < 256 ^ k) : toNatBE (beN k n) = n := by
  rw [toNatBE_beN, Nat.mod_eq_of_lt h]

theorem beN_toNatBE (b : Bytes) : beN b.length (toNatBE b) = b := by
  induction b using List.rev_ind with
  | hnil => rfl
  | hsnoc l x ih =>
    rw [toNatBE_append_singleton]
    simp only [List.length_append, List.length_cons, List.length_nil, beN]
    have hx : x.toNat < 256 := x.toNat_lt
    have h1 : (toNatBE l * 256 + x.toNat) / 256 = toNatBE l := by omega
    have h2 : (toNatBE l * 256 + x.toNat) % 256 = x.toNat := by omega
    rw [h1, h2, ih]
    simp

def be16 (n : Nat) : Bytes := beN 2 n
def be32 (n : Nat) : Bytes := beN 4 n
def be64 (n : Nat) : Bytes := beN 8 n

def ofString (s : String) : Bytes := s.toUTF8.toList

def hexDigit (n : Nat) : Char :=
  if n < 10 then Char.ofNat (48 + n) else Char.ofNat (87 + n)

def toHex (b : Bytes) : String :=
  String.ofList (b.flatMap fun x => [hexDigit (x.toNat / 16), hexDigit (x.toNat % 16)])

def hexVal (c : Char) : Option Nat :=
  if '0' ≤ c ∧ c ≤ '9' then some (c.toNat - 48)
  else if 'a' ≤ c ∧ c ≤ 'f' then some (c.toNat - 87)
  else if 'A' ≤ c ∧ c ≤ 'F' then some (c.toNat - 55)
  else none

def ofHexChars : List Char → Option Bytes
  | [] => some []
  | [_] => none
  | a :: b :: rest => do
    let x ← hexVal a
    let y ← hexVal b
    let r ← ofHexChars rest
    pure (UInt8.ofNat (x * 16 + y) :: r)

def ofHex (s : String) : Option Bytes := ofHexChars s.toList

end Bytes
