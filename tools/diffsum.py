#!/usr/bin/env python3
"""dev helper: tools/diffsum.py <stream> [n] — run one stream (harness vs model) and summarise the differing lines"""
import sys, os, re, subprocess, json, collections
ROOT=os.path.dirname(os.path.dirname(os.path.abspath(__file__)))
stream=sys.argv[1]; n=sys.argv[2] if len(sys.argv)>2 else "3000"
w=os.path.join(ROOT,".work","ds"); os.makedirs(w,exist_ok=True)
env=dict(os.environ,GOFLAGS="-mod=mod",GOPROXY="off",GOSUMDB="off",GOTOOLCHAIN="local",CGO_ENABLED="0",VERIF_REPO=os.environ.get("VERIF_REPO","/repo"))
repl={}
sh=os.path.join(ROOT,"harness","shims")
for dp,_,fs in os.walk(sh):
    for fn in fs:
        if fn.endswith(".go"):
            repl[os.path.join(env["VERIF_REPO"],os.path.relpath(dp,sh),"zz_verif_"+fn)]=os.path.join(dp,fn)
json.dump({"Replace":repl},open(os.path.join(w,"ov.json"),"w"))
subprocess.check_call(["go","build","-tags","verif","-overlay",os.path.join(w,"ov.json"),"-o",os.path.join(w,"hx"),"./hx"],cwd=os.path.join(ROOT,"harness"),env=env)
subprocess.check_call([os.path.join(w,"hx"),"-prop",stream,"-n",n,"-seed",os.environ.get("VERIF_SEED","1"),"-out",w,"-corpus",os.path.join(ROOT,"corpus",stream)],env=env,timeout=900,stderr=subprocess.DEVNULL)
subprocess.check_call(os.path.join(ROOT,"lean/.lake/build/bin/modeldrv")+" < "+os.path.join(w,"ops.txt")+" > "+os.path.join(w,"model.txt"),shell=True)
ops=open(os.path.join(w,"ops.txt")).read().split("\n"); impl=open(os.path.join(w,"impl.txt")).read().split("\n"); model=open(os.path.join(w,"model.txt")).read().split("\n")
def fields(s): return dict(re.findall(r'(\w+)=(\S+)',s))
c=collections.Counter(); ex={}
for o,i,m in zip(ops,impl,model):
    m0=m.split("\t")[0]
    if i!=m0:
        a,b=fields(i),fields(m0)
        diff=tuple(sorted(k for k in set(a)|set(b) if a.get(k)!=b.get(k)))
        key=(diff,i.split(" ")[0][:14],m0.split(" ")[0][:14],m.split("\t")[1] if "\t" in m else "")
        c[key]+=1; ex.setdefault(key,(o,i,m0))
print(len(ops)-1,"lines;",sum(c.values()),"differ")
W=int(os.environ.get("W","150"))
for k,v in c.most_common(int(os.environ.get("TOP","8"))):
    print(v,k); o,i,m=ex[k]; print("   op  ",o[:W]); print("   impl",i[:W]); print("   modl",m[:W])
