#!/usr/bin/env python3
"""Regression of the repairs: every `fix:` commit of /repo, reverted on its own in the working tree, must make the check of
its property report a violation again ("a fixed entry suppresses nothing").  tools/fixrevert.py [commit ...]
Reverts that do not apply on top of the later commits are reported and skipped."""
import os, sys, json, re, subprocess, shutil, time
ROOT = os.path.dirname(os.path.dirname(os.path.abspath(__file__)))
REPO = os.environ.get("VERIF_REPO", "/repo")
ENV = dict(os.environ, GOFLAGS="-mod=mod", GOPROXY="off", GOSUMDB="off", GOTOOLCHAIN="local")
def sh(cmd, cwd=None, timeout=3000):
    p = subprocess.run(cmd, shell=True, cwd=cwd, env=ENV, stdout=subprocess.PIPE, stderr=subprocess.STDOUT, text=True, timeout=timeout)
    return p.returncode, p.stdout
fixed = json.load(open(os.path.join(ROOT, "known_findings.json")))["fixed"]
todo = []
for f in fixed:
    m = re.match(r"fixed: property=(C\d+) ([0-9a-f]{7})", f)
    if m and (not sys.argv[1:] or m.group(2) in sys.argv[1:]):
        todo.append((m.group(2), m.group(1), f))
rc, out = sh("git -C %s status --porcelain" % REPO)
if out.strip():
    sys.exit("refusing: the repository has local changes")
bak = os.path.join(ROOT, ".work", "evidence-bak-fixrevert"); shutil.rmtree(bak, ignore_errors=True); shutil.copytree(os.path.join(ROOT, "evidence"), bak)
res = {}
try:
    for c, prop, text in todo:
        rc, out = sh("git -C %s show %s -- . | git -C %s apply -R" % (REPO, c, REPO))
        if rc != 0:  # later commits touched the same lines: let git merge the reversal, then unstage it
            sh("git -C %s checkout -- ." % REPO)
            rc, out = sh("git -C %s show %s -- . | git -C %s apply -R --3way && git -C %s reset -q" % (REPO, c, REPO, REPO))
        if rc != 0:
            print(c, prop, "REVERT-DOES-NOT-APPLY"); res[c] = "revert does not apply"; sh("git -C %s checkout -- ." % REPO); continue
        rc, b = sh("go build ./...", cwd=REPO)
        if rc != 0:
            print(c, prop, "REVERT-DOES-NOT-BUILD"); res[c] = "revert does not build"; sh("git -C %s checkout -- ." % REPO); continue
        t0 = time.time()
        rc, out = sh("./check %s quick 2>&1 | grep -v 'level=' | cut -c1-300" % prop, cwd=ROOT)
        sh("git -C %s checkout -- ." % REPO)
        viol = [l for l in out.split("\n") if l.startswith("VIOLATION")]
        fi = [l for l in out.split("\n") if "failing input" in l][:1]
        print(c, prop, "REPORTED" if viol else "NOT-REPORTED", (viol[0] if viol else ""), (fi[0].strip()[:200] if fi else ""), "%.0fs" % (time.time() - t0))
        res[c] = dict(property=prop, reported=bool(viol), line=viol[0] if viol else "", failing_input=fi[0].strip()[:300] if fi else "")
finally:
    sh("git -C %s checkout -- ." % REPO)
    sh("./.work/tr random %s lean/Chihaya/Gen/Random.lean && ./.work/tr validate %s lean/Chihaya/Gen/Validate.lean" % (REPO, REPO), cwd=ROOT)
    shutil.rmtree(os.path.join(ROOT, "evidence")); shutil.copytree(bak, os.path.join(ROOT, "evidence")); shutil.rmtree(bak)
path = os.path.join(ROOT, "seeded", "fix-reverts.json")
allres = json.load(open(path)) if os.path.exists(path) else {}
allres.update(res)
json.dump(allres, open(path, "w"), indent=1)
