#!/usr/bin/env python3
"""compile the harness against /repo exactly as ./check does (fresh overlay); prints compiler errors"""
import os, json, subprocess, shutil, sys
ROOT = os.path.dirname(os.path.dirname(os.path.abspath(__file__)))
repo = os.environ.get("VERIF_REPO", "/repo")
w = os.path.join(ROOT, ".work", "buildhx"); os.makedirs(w, exist_ok=True)
open(os.path.join(w, "go.mod"), "w").write(open(os.path.join(ROOT, "harness", "go.mod")).read().replace("=> /repo", "=> " + repo))
shutil.copy(os.path.join(repo, "go.sum"), os.path.join(w, "go.sum"))
repl = {}
sh = os.path.join(ROOT, "harness", "shims")
for dp, _, fs in os.walk(sh):
    for fn in fs:
        if fn.endswith(".go"):
            repl[os.path.join(repo, os.path.relpath(dp, sh), "zz_verif_" + fn)] = os.path.join(dp, fn)
json.dump({"Replace": repl}, open(os.path.join(w, "ov.json"), "w"))
env = dict(os.environ, GOFLAGS="-mod=mod", GOPROXY="off", GOSUMDB="off", GOTOOLCHAIN="local", CGO_ENABLED="0")
p = subprocess.run(["go", "build", "-tags", "verif", "-modfile", os.path.join(w, "go.mod"), "-overlay", os.path.join(w, "ov.json"), "-o", os.path.join(w, "hx"), "./hx"],
                   cwd=os.path.join(ROOT, "harness"), env=env, stdout=subprocess.PIPE, stderr=subprocess.STDOUT, text=True)
print(p.stdout[-3000:] or "ok")
sys.exit(p.returncode)
