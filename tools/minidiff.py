#!/usr/bin/env python3
"""development aid: build the harness, run one stream, pipe the ops through the built model driver, list differing lines
   (no lake, no evidence, no judging).  tools/minidiff.py <stream> [n] [seed]"""
import os, sys, subprocess, shutil
ROOT = os.path.dirname(os.path.dirname(os.path.abspath(__file__)))
stream, n, seed = sys.argv[1], (sys.argv[2] if len(sys.argv) > 2 else "2000"), (sys.argv[3] if len(sys.argv) > 3 else "1")
rc = subprocess.run([sys.executable, os.path.join(ROOT, "tools", "buildhx.py")], stdout=subprocess.PIPE, text=True)
if rc.returncode:
    sys.exit(rc.stdout)
d = os.path.join(ROOT, ".work", "minidiff-" + stream); shutil.rmtree(d, ignore_errors=True); os.makedirs(d)
env = dict(os.environ, VERIF_ROOT=ROOT, VERIF_REPO=os.environ.get("VERIF_REPO", "/repo"))
p = subprocess.run([os.path.join(ROOT, ".work", "buildhx", "hx"), "-prop", stream, "-seed", seed, "-n", n, "-tier", "quick", "-out", d,
                    "-corpus", os.path.join(ROOT, "corpus", stream)], env=env, stdout=subprocess.PIPE, stderr=subprocess.STDOUT, text=True)
if p.returncode:
    print("harness rc", p.returncode, p.stdout[-1500:])
with open(os.path.join(d, "ops.txt")) as f, open(os.path.join(d, "model.txt"), "w") as g:
    subprocess.run([os.path.join(ROOT, "lean", ".lake", "build", "bin", "modeldrv")], stdin=f, stdout=g)
ops = open(os.path.join(d, "ops.txt")).read().split("\n")
imp = open(os.path.join(d, "impl.txt")).read().split("\n")
mod = [l.split("\t")[0] for l in open(os.path.join(d, "model.txt")).read().split("\n")]
k = 0
for i, (o, a) in enumerate(zip(ops, imp)):
    b = mod[i] if i < len(mod) else "<none>"
    if a != b:
        k += 1
        if k <= 8:
            print(f"#{i} {o[:160]}\n   impl:  {a[:200]}\n   model: {b[:200]}")
print(f"{len(ops)-1} lines, {k} differ")
