#!/usr/bin/env python3
"""Seeded-change experiments.

  tools/seedtest.py verify <seed-dir> <worktree>   confirm in the scratch worktree: builds, suite passes, demo fails with / passes without
  tools/seedtest.py run <id> [props…]              apply seeded/<id>/patch.diff to /repo, run the checks, undo, record the outcome
  tools/seedtest.py readme                          regenerate seeded/README.md
"""
import sys, os, json, subprocess, shutil, glob, time
ROOT = os.path.dirname(os.path.dirname(os.path.abspath(__file__)))
REPO = os.environ.get("VERIF_REPO", "/repo")  # the checks honour the same variable
ENV = dict(os.environ, GOFLAGS="-mod=mod", GOPROXY="off", GOSUMDB="off", GOTOOLCHAIN="local")


def sh(cmd, cwd=None, timeout=1800):
    p = subprocess.run(cmd, shell=True, cwd=cwd, env=ENV, stdout=subprocess.PIPE, stderr=subprocess.STDOUT, text=True, timeout=timeout)
    return p.returncode, p.stdout


def run_demo(wt, meta, seed):
    pkg = meta.get("demo_pkg_dir", "standalone")
    copied = []
    if pkg != "standalone":
        for f in glob.glob(os.path.join(seed, "demo", "*.go")):
            dst = os.path.join(wt, pkg, "zz_seed_" + os.path.basename(f))
            shutil.copy(f, dst); copied.append(dst)
        rc, out = sh("go test -vet=off -count=1 -run . ./%s/ 2>&1 | tail -15" % pkg, cwd=wt)
        ok = "FAIL" not in out and rc == 0 and ("ok " in out)
    else:
        rc, out = sh(meta["demo_cmd"], cwd=wt)
        ok = rc == 0
    for f in copied:
        os.remove(f)
    return ok, out[-600:]


def verify(seed, wt):
    meta = json.load(open(os.path.join(seed, "meta.json")))
    res = {}
    rc, out = sh("git diff --stat", cwd=wt); res["diffstat"] = out.strip().split("\n")[-1] if out.strip() else "EMPTY"
    rc, out = sh("go build ./... 2>&1 | tail -5", cwd=wt); res["builds"] = rc == 0 and "error" not in out
    rc, out = sh("go test -vet=off -count=1 ./... 2>&1 | grep -E '^(FAIL|---|panic)' | head", cwd=wt); res["suite_passes"] = out.strip() == ""
    res["demo_with_change_passes"], o1 = run_demo(wt, meta, seed)
    # (worktrees share one stash list, so no `git stash` here)
    rc, cur = sh("git diff", cwd=wt)
    want = open(os.path.join(seed, "patch.diff")).read()
    res["worktree_diff_is_patch"] = cur.strip() == want.strip()
    sh("git checkout -- .", cwd=wt)
    res["demo_without_change_passes"], o2 = run_demo(wt, meta, seed)
    rc, out = sh("git apply %s" % os.path.join(seed, "patch.diff"), cwd=wt)
    res["patch_applies_to_clean_tree"] = rc == 0
    res["confirmed"] = res["worktree_diff_is_patch"] and res["patch_applies_to_clean_tree"] and res["builds"] and res["suite_passes"] and (not res["demo_with_change_passes"]) and res["demo_without_change_passes"]
    print(json.dumps(res, indent=1))
    meta["verified_by_me"] = dict(res, when=time.strftime("%Y-%m-%d %H:%M"), ran="go build ./...; go test -vet=off -count=1 ./...; demo with the change; demo with the change stashed")
    json.dump(meta, open(os.path.join(seed, "meta.json"), "w"), indent=1)
    if not res["confirmed"]:
        print("--- demo with change:\n", o1, "\n--- demo without:\n", o2)
    return res


def reverify(ids):
    """fresh scratch worktree; per seed: apply patch.diff, verify, clean"""
    wt = "/tmp/wt-reverify-%d" % os.getpid()
    rc, out = sh("git -C %s worktree add --detach %s HEAD" % (REPO, wt))
    try:
        for sid in ids:
            d = os.path.join(ROOT, "seeded", sid)
            if json.load(open(os.path.join(d, "meta.json"))).get("superseded"):
                print(sid, "superseded (see meta.json): skipped"); continue
            rc, out = sh("git apply %s" % os.path.join(d, "patch.diff"), cwd=wt)
            if rc != 0:
                print(sid, "patch does not apply", out); continue
            print("==", sid)
            verify(d, wt)
            sh("git checkout -- . && git clean -fdq", cwd=wt)
    finally:
        sh("git -C %s worktree remove --force %s" % (REPO, wt))


def run(sid, props):
    d = os.path.join(ROOT, "seeded", sid)
    meta = json.load(open(os.path.join(d, "meta.json")))
    props = props or meta.get("checks", [meta["property"]])
    rc, out = sh("git -C %s status --porcelain" % REPO)
    if out.strip():
        print("refusing: /repo has local changes"); return 1
    bak = os.path.join(ROOT, ".work", "evidence-bak-%d" % os.getpid())
    shutil.rmtree(bak, ignore_errors=True); shutil.copytree(os.path.join(ROOT, "evidence"), bak)
    rc, out = sh("git -C %s apply %s" % (REPO, os.path.join(d, "patch.diff")))
    if rc != 0:
        print("patch does not apply:", out); return 1
    results = {}
    try:
        for p in props:
            t0 = time.time()
            rc, out = sh("./check %s quick 2>&1 | grep -v 'level=warning' | cut -c1-400" % p, cwd=ROOT, timeout=3000)
            viol = [l for l in out.split("\n") if l.startswith("VIOLATION")]
            detail = [l for l in out.split("\n") if l.startswith("-- ") or l.startswith("   implementation") or l.startswith("   model")][:6]
            results[p] = dict(detected=bool(viol), line=(viol[0] if viol else ""), detail=detail, wall_s=round(time.time() - t0, 1))
            print(p, "DETECTED" if viol else "missed", viol[0] if viol else "")
            for l in detail:
                print("    ", l[:300])
    finally:
        sh("git -C %s checkout -- ." % REPO)
        # the source-derived Lean files were regenerated from the changed tree: put them back
        sh("./.work/tr random %s lean/Chihaya/Gen/Random.lean && ./.work/tr validate %s lean/Chihaya/Gen/Validate.lean" % (REPO, REPO), cwd=ROOT)
    meta.setdefault("runs", []).append(dict(at=time.strftime("%Y-%m-%dT%H:%M:%SZ", time.gmtime()), results=results))
    meta["detected_by"] = sorted({p for r in meta["runs"] for p, v in r["results"].items() if v["detected"]})
    json.dump(meta, open(os.path.join(d, "meta.json"), "w"), indent=1)
    # evidence/replay files written during a mutated run must not stay
    shutil.rmtree(os.path.join(ROOT, "evidence")); shutil.copytree(bak, os.path.join(ROOT, "evidence")); shutil.rmtree(bak)
    return 0


def readme():
    rows = []
    for d in sorted(glob.glob(os.path.join(ROOT, "seeded", "*", "meta.json"))):
        m = json.load(open(d))
        sid = os.path.basename(os.path.dirname(d))
        last = m.get("runs", [{}])[-1].get("results", {})
        how = "; ".join(f"{p}: {v['line'].replace('VIOLATION ', '') if v['detected'] else 'not reported'}" for p, v in last.items())
        if m.get("superseded"):
            how = "superseded: " + m["superseded"][:160]
        rows.append(f"| {sid} | {m['property']} | {m['summary'][:160]} | {m.get('needs','')[:160]} | {', '.join(m.get('detected_by', [])) or '—'} | {how[:200]} |")
    with open(os.path.join(ROOT, "seeded", "README.md"), "w") as f:
        f.write("# Seeded changes\n\nEach directory holds `patch.diff` (a change to chihaya that breaks one property while compiling and passing the existing suite), "
                "the independent demonstration written by the sub-agent that produced it, and `meta.json` (what it needs to manifest, what was run, which checks reported it). "
                "None of them is ever committed to /repo; `tools/seedtest.py run <id>` applies, checks and reverts.\n\n"
                "| seed | property | change | needs | reported by | last run |\n|---|---|---|---|---|---|\n" + "\n".join(rows) + "\n")
    print(len(rows), "rows")


if __name__ == "__main__":
    if sys.argv[1] == "verify":
        verify(sys.argv[2], sys.argv[3])
    elif sys.argv[1] == "run":
        sys.exit(run(sys.argv[2], sys.argv[3:]))
    elif sys.argv[1] == "reverify":
        reverify(sys.argv[2:] or sorted(x for x in os.listdir(os.path.join(ROOT, "seeded")) if os.path.isdir(os.path.join(ROOT, "seeded", x))))
    elif sys.argv[1] == "readme":
        readme()
