#!/usr/bin/env python3
"""Which code of /repo do the harness streams execute?  (development aid, not a check)
   tools/coverage.py [stream:n ...]   -> per-function coverage of the non-test code, uncovered functions listed.
   A scratch copy of /repo with the shims copied in is made under /tmp and removed afterwards (go build -cover
   does not see -overlay files)."""
import os, sys, json, subprocess, shutil, tempfile, re
ROOT = os.path.dirname(os.path.dirname(os.path.abspath(__file__)))
ENV = dict(os.environ, GOFLAGS="-mod=mod", GOPROXY="off", GOSUMDB="off", GOTOOLCHAIN="local", CGO_ENABLED="0")
def sh(cmd, **kw):
    p = subprocess.run(cmd, shell=True, stdout=subprocess.PIPE, stderr=subprocess.STDOUT, text=True, env=kw.pop("env", ENV), **kw)
    return p.returncode, p.stdout
streams = [a.split(":") for a in sys.argv[1:]] or [[s, "3000"] for s in
    "C01 C02 C03 C05 C17 C04 C06 C11H C07 C09 C10 C11U C08 C19 C14 C15 C18 C20 C16 C12 C13 C01T C03T C09T".split()]
tmp = tempfile.mkdtemp(prefix="covrepo-")
try:
    repo = os.path.join(tmp, "repo")
    sh(f"rsync -a --exclude .git /repo/ {repo}/")
    shims = os.path.join(ROOT, "harness", "shims")
    for dp, _, fs in os.walk(shims):
        for fn in fs:
            if fn.endswith(".go"):
                shutil.copy(os.path.join(dp, fn), os.path.join(repo, os.path.relpath(dp, shims), "zz_verif_" + fn))
    # coverage is only recorded for packages of the main module: the harness is copied *into* the scratch module
    shutil.copytree(os.path.join(ROOT, "harness", "hx"), os.path.join(repo, "zz_hx"))
    rmod = open(os.path.join(repo, "go.mod")).read()
    hmod = open(os.path.join(ROOT, "harness", "go.mod")).read()
    extra = [l.strip() for l in hmod.splitlines() if l.strip().startswith("github.com/") and "chihaya/chihaya" not in l]
    have = rmod
    add = [l for l in extra if l.split()[0] not in have]
    open(os.path.join(repo, "go.mod"), "w").write(rmod + "\nrequire (\n\t" + "\n\t".join(add) + "\n)\n" if add else rmod)
    hx = os.path.join(tmp, "hxcov")
    rc, out = sh(f"go build -cover -coverpkg=./... -tags verif -o {hx} ./zz_hx", cwd=repo)
    if rc != 0:
        sys.exit("build failed:\n" + out[-2000:])
    cov = os.path.join(tmp, "cov"); os.makedirs(cov)
    for s, n in streams:
        d = os.path.join(tmp, "out-" + s); os.makedirs(d)
        rc, out = sh(f"{hx} -prop {s} -seed 1 -n {n} -tier quick -out {d} -corpus {ROOT}/corpus/{s}",
                     env=dict(ENV, GOCOVERDIR=cov, VERIF_ROOT=ROOT, VERIF_REPO=repo), timeout=1500)
        print(f"stream {s}: rc={rc} {out[-200:] if rc else ''} covfiles={len(os.listdir(cov))}", file=sys.stderr)
    rc, out = sh(f"go tool covdata textfmt -i={cov} -o {tmp}/cover.txt")
    if rc != 0:
        print("covdata:", out[-500:], os.listdir(cov)[:5])
    rc, out = sh(f"go tool cover -func={tmp}/cover.txt", cwd=repo)
    if rc != 0 or not out.strip():
        print("cover -func:", rc, out[-800:])
    rows = []
    if os.environ.get("COV_DEBUG"):
        print(out[:600]); print(os.listdir(cov)[:6]); print(open(f"{tmp}/cover.txt").read()[:500]); print(sh(f"go tool covdata percent -i={cov}")[1][:800])
    for l in out.splitlines():
        m = re.match(r"(\S+):(\d+):\s+(\S+)\s+([\d.]+)%", l)
        if m and "zz_verif_" not in m.group(1) and "/zz_hx/" not in m.group(1):
            rows.append((m.group(1).replace("github.com/chihaya/chihaya/", ""), int(m.group(2)), m.group(3), float(m.group(4))))
    byfile = {}
    for f, ln, fn, pc in rows:
        byfile.setdefault(f, []).append((fn, pc))
    res = {}
    for f in sorted(byfile):
        fns = byfile[f]
        zero = [fn for fn, pc in fns if pc == 0]
        low = [f"{fn}({pc:.0f}%)" for fn, pc in fns if 0 < pc < 60]
        res[f] = dict(functions=len(fns), uncovered=zero, below_60=low)
        print(f"{f}: {len(fns)-len(zero)}/{len(fns)} functions executed" + (f"; never: {', '.join(zero)}" if zero else "") + (f"; low: {', '.join(low)}" if low else ""))
    # statement level: blocks never executed
    blocks = {}
    for l in open(f"{tmp}/cover.txt").read().splitlines()[1:]:
        m = re.match(r"(\S+):(\d+)\.\d+,(\d+)\.\d+ (\d+) (\d+)", l)
        if not m or "zz_" in m.group(1) or "storage_bench" in m.group(1) or "storage_tests" in m.group(1):
            continue
        f = m.group(1).replace("github.com/chihaya/chihaya/", "")
        key = (f, int(m.group(2)), int(m.group(3)))
        blocks[key] = max(blocks.get(key, 0), int(m.group(5)))
    per = {}
    for (f, a, b), cnt in blocks.items():
        t = per.setdefault(f, [0, 0, []])
        t[0] += 1
        if cnt == 0:
            t[1] += 1; t[2].append((a, b))
    print("\n== statement blocks never executed ==")
    for f in sorted(per):
        tot, z, rs = per[f]
        rs.sort()
        print(f"{f}: {tot-z}/{tot} blocks; never: " + " ".join(f"{a}-{b}" for a, b in rs[:40]))
        res.setdefault(f, {})["blocks"] = tot; res[f]["uncovered_blocks"] = rs
    json.dump(res, open(os.path.join(ROOT, ".work", "coverage.json"), "w"), indent=1)
finally:
    shutil.rmtree(tmp, ignore_errors=True)
