#!/usr/bin/env python3
"""Regenerates /verif/MANIFEST.json from the table below (claimed checks) + properties.jsonl."""
import json, os, sys
ROOT = os.path.dirname(os.path.dirname(os.path.abspath(__file__)))
sys.path.insert(0, os.path.join(ROOT, "checks"))
import registry

TECH = "Lean 4 machine-checked proof over an executable model + differential correspondence check of the model against the Go code (rebuilt from /repo each run)"
C = {
 "C19": dict(
   text="Lean theorems (unbounded: every value tree, every byte string): decode(encode v ++ rest) = (v, rest); the decoder terminates within its fuel, has no crash outcome, and allocates no more than it consumed. The model is tied to frontend/http/bencode by differential runs of the real Marshal/Unmarshal against the model on structured, boundary and malformed inputs, with panics and allocation observed.",
   note="trusted: Lean kernel + 3 standard axioms; harness/canonicalisation; bufio/strconv/io semantics as modelled (4096-byte ReadSlice limit, ParseInt forms); Go stack exhaustion on extreme nesting not modelled",
   tech="Lean 4 proof (mutual structural induction over a nested inductive; fuel/termination and allocation invariants) + differential correspondence check against the Go code"),
 "C18": dict(
   text="The generator code (GenerateAndAdvance, Intn, DeriveEntropyFromRequest) is translated from the Go source to Lean (BitVec 64, wrap-around semantics) on every run and the theorems are re-proved against it: Intn in [0,n) for every state and n>0; every response interval = configured + d s with d=0 or 1<=d<=max; min interval follows iff configured; modified iff first draw below the probability threshold; uniformity reduced to a proved bijection (partial). The hook around it is a hand model tied by differential runs incl. xorshift-inverted edge states; a property oracle judges every implementation output.",
   note="trusted: Lean kernel + 3 standard axioms; the go/ast translator harness/tr; float32 compare exactness argument; Duration overflow excluded by hypothesis; cardinality form of the 'configured fraction' claim is not formalised (bijection proved instead)",
   tech="Lean 4 proof over a model regenerated from source by a translator (BitVec 64) + differential correspondence + property oracle on every implementation output"),
 "C20": dict(
   text="The four Config.Validate methods and their default constants are translated from the Go source to Lean on every run; theorems re-proved against them: every governed timeout/interval/limit is positive after validation, 0 < shard_count <= MaxInt/2 (so doubling cannot overflow), valid configurations are preserved unchanged, validation is idempotent — for all field values. Unknown driver names, out-of-range hook options and bad Redis URLs are refused (model + theorems). Tied by differential runs of the real Validate on boundary products, registry lookups, Redis URLs, stores built from out-of-range configs and then used, plus a source fact: no constructor touches the unvalidated parameter after Validate().",
   note="trusted: Lean kernel + 3 standard axioms; translator harness/tr (checks that each if reads only the receiver and each field is defaulted once); fact extractor; yaml decoding, url.Parse and strconv.Atoi are modelled/passed in, not verified; request-level caps (numwant, scrape size) are proved under C02/C06",
   tech="Lean 4 proof over a model regenerated from source by a translator + differential correspondence + go/ast source fact"),
 "C14": dict(
   text="Lean theorems for all peer IDs, infohashes and list configurations: client ID extraction (bytes 1-6 after '-', else 0-5); whitelist => accept iff listed; blacklist => accept iff not listed; no list => accept; scrapes never blocked; both lists / wrong-length client entries / non-40-hex torrent entries are refused at construction. Tied to the two real hooks by differential runs on generated configurations (malformed entries, duplicates, both lists) and near-miss IDs.",
   note="trusted: Lean kernel + 3 standard axioms; harness; yaml decoding of options and encoding/hex are modelled (hexDecode is compared through the stream), not verified",
   tech="Lean 4 proof (decision logic stated outright) + differential correspondence check against the Go hooks"),
 "C06": dict(
   text="Lean theorems over a model of ParseURLData/parseQuery/QueryParams/ParseAnnounce/ParseScrape/SanitizeAnnounce/SanitizeScrape, for every URI, header, remote address and option set: the parser is a total function (reject with a client error, or accept); accepted announces have port != 0, numwant = default when absent and <= max when supplied, IP length matching its family, 20-byte ids; every accepted field equals the last percent-decoded value under its key (info_hash: the single one); the result depends only on the infohash list and the last value of each consulted key (hence order/unrelated-parameter independence); unescape inverts every per-byte escaping choice; scrapes carry the first min(k,max) infohashes in order. Tied by differential runs of the real parser on rendered, boundary, address-grid and raw URIs.",
   note="trusted: Lean kernel + 3 standard axioms; harness; url.QueryUnescape/strconv.ParseUint as modelled; strings.ToLower on non-ASCII keys, net.ParseIP, net.SplitHostPort are external (results supplied to the model by the harness, computed independently of the code under test); net/http request syntax outside the model",
   tech="Lean 4 proof (inversion of the monadic parser, congruence on consulted keys, escaping round trip) + differential correspondence check against the Go parser"),
 "C07": dict(
   text="Lean theorems over a model of frontend/udp parser.go + handleRequest, with client-side BEP 15/41 packet builders as specification: parse(build fields ++ options) returns exactly those fields for both announce actions (event via the code table over the whole 32-bit field, numwant/port after the IP field, opentracker IPv6 layout), URL data is reassembled from any URLData/NOP/EndOfOptions segmentation, scrapes are read back in order with repeats; every truncated packet, event code >= 4, unknown option type, overrunning URLData length, scrape body not a positive multiple of 20, short header, connect without magic and unknown action is rejected/silent as the property states. The model is total. Tied by differential runs of the real handleRequest (spy logic) on built, boundary-length, mutated and garbage packets.",
   note="trusted: Lean kernel + 3 standard axioms; harness + overlay shims; HMAC uninterpreted; encoding/binary and buffer pooling as modelled; the URL-data query parser is the C06 model",
   tech="Lean 4 proof (round trip against a client-side builder spec; slicing lemmas) + differential correspondence check against the Go frontend"),
 "C09": dict(
   text="Lean theorems with a BEP 15 client decoder as specification: decoding what WriteAnnounce / WriteScrape / WriteError write yields exactly (action 1|4, echoed transaction ID, interval mod 2^32, leechers, seeders, the requester-family peers as 6/18-byte entries in order), (2, tx, the triples in response order), (3, tx, message) with a client error's own message or one fixed message for anything else (identical datagrams for all internal errors); every datagram handleRequest sends echoes request bytes 12..16. Tied by differential runs capturing the real datagrams, internal errors carrying a secret token that must not appear.",
   note="trusted: Lean kernel + 3 standard axioms; harness + overlay shims; the decoder in Props/C09.lean is the reading of BEP 15; ordering of scrape entries by request order is the response hook's job (C01/C12 model)",
   tech="Lean 4 proof (decode-of-write against a client decoder spec; non-interference of internal errors) + differential correspondence check"),
 "C10": dict(
   text="Lean theorems (HMAC uninterpreted, for every 8-byte ID, address, key, time and skew): Validate holds iff the ID is inside the two-minute/skew window and carries the tag HMAC(key, timestamp||source IP); hence an accepted ID is exactly the one this key issues for that address and second; every issued ID is accepted from its address throughout its lifetime on any instance with the key; a non-connect datagram with an invalid ID yields one error datagram and no logic call; any logic call implies validation succeeded; connect answers the issued ID. Tied by differential runs over window edges, all 64 bit flips, other address/key, all action codes.",
   note="trusted: Lean kernel + 3 standard axioms; unforgeability of truncated HMAC-SHA256 is a cryptographic assumption (the theorem says *which* tag is required, not that it cannot be guessed); timestamps are uint32 (before 2106); cached clock pinned by shim",
   tech="Lean 4 proof (exact characterisation + gating of the request handler) + differential correspondence check"),
 "C11": dict(
   text="Lean theorems: with spoofing off the HTTP address is the proxy-header/remote address for all ip/ipv4/ipv6 parameters, and two UDP announces differing only in the packet IP field are handled identically; with spoofing on HTTP uses the first present of ip, ipv4, ipv6 (unparsable => rejected, absent => source) and UDP uses a non-zero field as given in its own family (4 bytes action 1, 16 bytes action 4) and the source for a zero field; the registered address is that address in canonical form. Tied by exhaustive product grids through the real HTTP parser and UDP handler.",
   note="trusted: Lean kernel + 3 standard axioms; harness + shims; net.ParseIP/SplitHostPort results supplied to the model by the harness; reading R5 of DESIGN §7 (HTTP ip=0.0.0.0 is an explicit address)",
   tech="Lean 4 proof (non-interference / decision logic, corollaries of the C06 and C07 parser theorems) + differential correspondence check"),
 "C08": dict(
   text="Lean theorems over a model of frontend/http/writer.go producing the value handed to the bencode encoder: for every valid response the announce value (compact or dictionary form) is a well-formed dictionary with distinct keys holding exactly complete, incomplete, interval and min interval in whole seconds, peers = the IPv4 peers as 6-byte entries / peers6 = the IPv6 peers as 18-byte entries (present iff non-empty; client-side uncompact returns exactly the peers) or the list of (peer id, textual address, port) dictionaries v4 then v6; scrape maps each distinct infohash to its counts (repeats collapse); failures carry the client message or one fixed generic message (identical for all internal errors). With C19: whatever the entry order, a client decodes the body to that value with nothing left over and lookups do not depend on the order. Tied by differential runs decoding the real bodies with an independent client library (which also insists on sorted keys).",
   note="trusted: Lean kernel + 3 standard axioms; harness; anacrolix/torrent/bencode as the independent client; net.IP.String passed to the model; sortedness of keys (BEP 3) is checked by the independent decoder on every case, not by a theorem",
   tech="Lean 4 proof (well-formedness + field lookups of the response value, permutation invariance, C19 round trip) + differential correspondence through an independent decoder"),
 "C01": dict(
   text="Lean refinement proof for the memory store model (2n shards, Go maps as association lists, per-shard counters, dropping of empty swarms): every operation (put seeder/leecher, graduate, deletes incl. not-found, expiry) changes the view (infohash, family) -> (seeders, leechers) exactly as a one-line specification says; by induction the view after ANY finite history, for any shard count, is the fold of the specification; scrape counts are exactly the set sizes; a swarm is unknown iff empty; an announce applied to the swarm sets exactly one role (seeder iff completed or left=0, leecher otherwise, none after stopped) with mtime = clock. The Redis store is an executable model over a modelled Redis command set tied by the same differential streams (1-3 instances sharing one Redis), with the full store state incl. counters dumped and compared after every mutating step.",
   note="trusted: Lean kernel + 3 standard axioms; harness + shims; Redis semantics as modelled (miniredis); no storage failures; the announce-response count bump when the selection is empty (D2) is a recorded known finding of the tracker-level stream, not covered by the store-level statement",
   tech="Lean 4 refinement proof (invariant + pointwise-update lemmas, induction over histories) + differential correspondence with full-state dumps against both real stores"),
 "C02": dict(
   text="Lean theorem: for EVERY iteration order of the seeder and leecher maps (any permutations), every numwant and every announcer (member or not, seeder or leecher) the selection loop returns a duplicate-free list of members of the announced swarm: a seeder gets min(numwant,|L|) leechers; a leecher gets min(numwant,|S|) seeders first, then min(rest,|L minus self|) other leechers and never itself; applies to every state satisfying the store invariant (all reachable states); numwant is the default when absent and capped at the maximum; an empty selection yields just the announcer. validSelection is the executable form of the statement and is what the harness evaluates on the lists the real memory and Redis stores return.",
   note="trusted: Lean kernel + 3 standard axioms; harness + shims; the state the lists are judged against is the model's state (kept equal to the real store's by the dumps of the same stream)",
   tech="Lean 4 proof over all permutations + proved executable oracle evaluated on real store outputs"),
 "C03": dict(
   text="Lean theorems: an operation for one address family leaves every view and scrape of the other family unchanged, for any infohash incl. the same one with equal peer ID and port (frame lemma from the C01 refinement); answers for family f are functions of the f-view; the response hook fills only the requester-family list; writers emit 6-byte entries under peers / 18-byte under peers6, own-family textual addresses in dictionary form, and 6/18-byte UDP entries by requester family (C08/C09 theorems). Tied by store streams mixing IPv4/IPv6 peers on shared infohashes over several shard counts, both stores, and the writer streams.",
   note="trusted: as C01, C08, C09; IPv4-mapped IPv6 source addresses are folded by SanitizeAnnounce (C06/C07 theorems) before the store is reached",
   tech="Lean 4 proof (frame lemma of the refinement; writer width theorems) + differential correspondence"),
 "C05": dict(
   text="Lean theorems (memory store): after a pass with cutoff T a peer is a member with time t iff it was one with that t and t > T — for every swarm, family and population; swarms left empty become unknown and scrape 0/0; after an announce at clock c no pass with T < c removes the membership it created (a re-announce restarts the lifetime); each per-swarm step of the pass (the unit that interleaves with other requests under the shard lock) keeps every entry newer than the cutoff. Redis store: executable model, tied by the same streams with cutoffs at mtime-1/mtime/mtime+1.",
   note="trusted: as C01; the concurrent statement for the memory store rests on C04 (steps under the shard lock are atomic); for Redis the pass is NOT atomic per key (HGETALL...HDEL race, D4) — recorded as a known finding under C04/C05-redis once the concurrent stream exists; mtime is the cached clock",
   tech="Lean 4 proof (exact characterisation of expiry on the refinement view) + differential correspondence with full-state dumps"),
 "C17": dict(
   text="Lean invariant proof (memory store): in every reachable state — any shard count, any history of puts incl. repeated ones, deletes of absent peers, graduation, expiry of whole swarms — each shard's seeder and leecher counters equal the number of memberships it stores, as integers (so the uint64 never goes below zero or wraps), and the exported totals are the sums over the shards. Redis: executable model of the counter protocol, compared (counters and gauges) after every mutating step incl. several instances.",
   note="trusted: as C01; 'every instant a reader can observe' rests on C04 (counters change only inside the shard's write section); Redis counters are claimed at quiescent points only",
   tech="Lean 4 invariant proof by induction over operations + differential correspondence reading counters and Prometheus gauges after every step"),
 "C12": dict(
   text="Lean theorems for arbitrary hook functions and chains of any length: if HandleAnnounce fails, the hooks that ran are exactly 0..k with the failing one last, there is no response, and outcome and log are identical for every store content (the store is never consulted, so no peer information can reach the client); if all pre-hooks accept, the log is 0..|pre| and the response is the response hook applied last to what the pre-hooks produced; the post phase runs the post-hooks and then the swarm interaction exactly once, not at all after a failing post-hook (reading R3) or when the skip flag is set; SkipResponseHook leaves the response untouched; through the HTTP route a rejection yields only the error body, never starts post-hooks and leaves the store unchanged; through UDP a rejection yields only the error datagram and no post-hooks. Tied by differential runs of random table-driven hook chains through the real Logic behind both real frontends over real stores, comparing logs, counts and full store dumps.",
   note="trusted: Lean kernel + 3 standard axioms; harness + shims; harness hooks are table-driven; goroutine scheduling of post-hooks is observed by waiting, not proved (see C16)",
   tech="Lean 4 proof (induction over hook chains; non-interference in the store) + differential correspondence with invocation logs and store dumps"),
 "C13": dict(
   text="The whole request path is a composition of total Lean functions with Go panics modelled as explicit outcomes; theorems: for a 4- or 16-byte source address the UDP handler never reaches a panic outcome, for every packet, configuration, logic and clock; a connect with the magic and every announce/scrape with a valid connection ID get exactly one datagram (at most one by construction); the HTTP announce route always produces a body provided the store hands out family-correct addresses (store invariant), rejected requests always do; with C17/C01 the store invariant holds after every history, so later requests are answered per the model. Tied by differential runs of malformed and well-formed requests interleaved through both real frontends under recover, with crash, double-datagram, stray-post-hook and leak detection and store dumps after every request.",
   note="trusted: Lean kernel + 3 standard axioms; harness + shims; net/http request syntax, goroutine/GC/memory behaviour (wedging by resource exhaustion) are runtime behaviour observed by the harness (timeouts, memory limit), not proved; third-party hooks are assumed total",
   tech="Lean 4 proof (totality with explicit panic outcomes; unreachability) + differential correspondence under recover with interleaved probes"),
}

def main():
    props = [json.loads(l) for l in open(os.path.join(ROOT, "properties.jsonl"))]
    claimed = [p["id"] for p in props if p["id"] in C and p["id"] in registry.PROPS]
    m = {
        "version": 1,
        "setup_cmd": "./setup.sh",
        "hooks": {"guard": "verif",
                  "enable": "go build -tags verif -overlay <generated at check time: harness/shims/<pkg>/*.go mapped to /repo/<pkg>/zz_verif_*.go>; no file of /repo is modified for instrumentation",
                  "baseline_off_cmd": "cd /repo && go build ./... && go test -vet=off -count=1 ./...",
                  "source_commits": [], "add_only": True},
        "engines": [{"name": "lean-proof+correspondence", "path": "check", "serves_properties": claimed,
                     "kind_free_text": "Lean 4 theorems over an executable model (lean/), tied to /repo on every run by a Go differential harness (harness/hx), source translators/fact extractors (harness/tr) and a line-protocol model driver (lean_exe modeldrv)"}],
        "checks": [], "notes": "see DESIGN.md; fix: commits in /repo and known findings are listed in known_findings.json",
        "not_applicable": []}
    for p in props:
        i = p["id"]
        if i in claimed:
            c = C[i]
            m["checks"].append({"property_id": i, "quick_cmd": f"./check {i} quick", "thorough_cmd": f"./check {i} thorough",
                                "evidence_file": f"/verif/evidence/{i}.json", "replay_cmd_template": f"./check {i} quick --replay {{path}}",
                                "engine": "lean-proof+correspondence",
                                "level_claimed": {"category": "proof", "text": c["text"], "design_ref": "DESIGN.md §5 " + i},
                                "level_note": c["note"], "technique": c.get("tech", TECH)})
        else:
            m["not_applicable"].append({"property_id": i, "reason": "not claimed yet: the model, theorems and harness stream for this property are still being built (planned check in DESIGN.md §5); this is not a limitation of the technique"})
    json.dump(m, open(os.path.join(ROOT, "MANIFEST.json"), "w"), indent=1)

if __name__ == "__main__":
    main()
