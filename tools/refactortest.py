#!/usr/bin/env python3
"""Behaviour-preserving rewrites: apply refactors/<id>/patch.diff to /repo, run the checks, undo. Every check must stay silent.
   tools/refactortest.py <id> <prop>..."""
import sys, os, json, subprocess, shutil, time
ROOT = os.path.dirname(os.path.dirname(os.path.abspath(__file__)))
REPO = os.environ.get("VERIF_REPO", "/repo")  # the checks honour the same variable
def sh(cmd, cwd=None, timeout=3000):
    p = subprocess.run(cmd, shell=True, cwd=cwd, stdout=subprocess.PIPE, stderr=subprocess.STDOUT, text=True, timeout=timeout)
    return p.returncode, p.stdout
rid, props = sys.argv[1], sys.argv[2:]
d = os.path.join(ROOT, "refactors", rid)
meta = json.load(open(os.path.join(d, "meta.json")))
rc, out = sh("git -C %s status --porcelain" % REPO)
if out.strip():
    sys.exit("refusing: /repo has local changes")
bak = os.path.join(ROOT, ".work", "evidence-bak-%d" % os.getpid())
shutil.rmtree(bak, ignore_errors=True); shutil.copytree(os.path.join(ROOT, "evidence"), bak)
rc, out = sh("git -C %s apply %s" % (REPO, os.path.join(d, "patch.diff")))
if rc != 0:
    sys.exit("patch does not apply: " + out)
res = {}
try:
    for p in props:
        t0 = time.time()
        rc, out = sh("./check %s quick 2>&1 | cut -c1-400" % p, cwd=ROOT)
        viol = [l for l in out.split("\n") if l.startswith("VIOLATION")]
        detail = [l for l in out.split("\n") if l.startswith("-- ") or l.startswith("   implementation") or l.startswith("   model")][:6]
        res[p] = dict(silent=not viol, line=(viol[0] if viol else ""), detail=detail, wall_s=round(time.time() - t0, 1))
        print(rid, p, "silent" if not viol else "ALARM " + viol[0])
        for l in detail:
            print("    ", l[:300])
finally:
    sh("git -C %s checkout -- ." % REPO)
    sh("./.work/tr random %s lean/Chihaya/Gen/Random.lean && ./.work/tr validate %s lean/Chihaya/Gen/Validate.lean" % (REPO, REPO), cwd=ROOT)
    shutil.rmtree(os.path.join(ROOT, "evidence")); shutil.copytree(bak, os.path.join(ROOT, "evidence")); shutil.rmtree(bak)
meta.setdefault("runs", []).append(dict(at=time.strftime("%Y-%m-%dT%H:%M:%SZ", time.gmtime()), results=res))
json.dump(meta, open(os.path.join(d, "meta.json"), "w"), indent=1)
