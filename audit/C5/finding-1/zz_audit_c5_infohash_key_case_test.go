package http

// Audit C5, finding 1 (property C06).
//
// Query keys are matched case-insensitively (bittorrent/params.go lower-cases
// the ASCII letters of every key), with one exception: the key is compared
// with the literal "info_hash" BEFORE it is lower-cased. An info_hash given in
// any other letter case is therefore neither collected as an infohash nor
// length-checked; it silently lands in the generic parameter map. A request
// that supplies the key twice in different letter case is accepted with only
// part of the infohashes it supplied.
//
// Copy into frontend/http/ and run:
//   go test -vet=off -count=1 -run TestAuditC5InfoHashKeyCase ./frontend/http/

import (
	"net/http"
	"strings"
	"testing"

	"github.com/chihaya/chihaya/bittorrent"
)

const (
	c5ihA     = "%01%02%03%04%05%06%07%08%09%0a%0b%0c%0d%0e%0f%10%11%12%13%14"
	c5ihB     = "BBBBBBBBBBBBBBBBBBBB"
	c5annRest = "&peer_id=-XX0000-abcdefghijkl&port=6881&left=1&downloaded=2&uploaded=3"
)

var c5opts = ParseOptions{MaxNumWant: 100, DefaultNumWant: 50, MaxScrapeInfoHashes: 50}

func c5req(uri string) *http.Request {
	return &http.Request{RequestURI: uri, Header: http.Header{}, RemoteAddr: "10.0.0.1:5555"}
}

func c5hashA() bittorrent.InfoHash {
	var h bittorrent.InfoHash
	for i := range h {
		h[i] = byte(i + 1)
	}
	return h
}

func TestAuditC5InfoHashKeyCase(t *testing.T) {
	hashA := c5hashA()
	hashB := bittorrent.InfoHashFromString(c5ihB)

	// Control: every other key is honoured in any letter case, and the last
	// occurrence wins regardless of case.
	t.Run("control_other_keys_are_case_insensitive", func(t *testing.T) {
		uri := "/announce?info_hash=" + c5ihA + strings.ToUpper("&peer_id=") + "-XX0000-abcdefghijkl&port=1&PORT=6881&Left=1&DOWNLOADED=2&uPLOADED=3"
		req, err := ParseAnnounce(c5req(uri), c5opts)
		if err != nil {
			t.Fatalf("control request rejected: %v", err)
		}
		if req.Port != 6881 || req.InfoHash != hashA {
			t.Fatalf("control request parsed wrongly: port=%d infohash=%v", req.Port, req.InfoHash)
		}
	})

	// Control: the same key in the same case twice is refused for an announce.
	t.Run("control_exact_duplicate_is_refused", func(t *testing.T) {
		_, err := ParseAnnounce(c5req("/announce?info_hash="+c5ihA+"&info_hash="+c5ihB+c5annRest), c5opts)
		if err == nil {
			t.Fatal("announce with two info_hash values was accepted")
		}
	})

	// Violation 1: the key repeats in another letter case. The statement allows
	// a rejection or "the last one when a key repeats" (hash B). The parser
	// accepts the announce for hash A and drops B without a word.
	t.Run("announce_key_repeated_in_other_case", func(t *testing.T) {
		for _, second := range []string{"INFO_HASH", "Info_Hash", "info_Hash", "%49nfo_hash"} {
			uri := "/announce?info_hash=" + c5ihA + "&" + second + "=" + c5ihB + c5annRest
			req, err := ParseAnnounce(c5req(uri), c5opts)
			if err != nil {
				continue // rejected with a failure reason: fine
			}
			if req.InfoHash != hashB {
				t.Errorf("%s: announce accepted for infohash %v; the key repeats (keys are case-insensitive) with value %v, which was silently dropped",
					second, req.InfoHash, hashB)
			}
		}
	})

	// Violation 2: a malformed (5-byte) infohash is refused under the key
	// "info_hash" but waved through under "INFO_HASH".
	t.Run("announce_malformed_infohash_in_other_case", func(t *testing.T) {
		_, err := ParseAnnounce(c5req("/announce?info_hash="+c5ihA+"&info_hash=short"+c5annRest), c5opts)
		if err == nil {
			t.Fatal("control: a 5-byte info_hash was accepted")
		}
		_, err = ParseAnnounce(c5req("/announce?info_hash="+c5ihA+"&INFO_HASH=short"+c5annRest), c5opts)
		if err == nil {
			t.Errorf("announce with INFO_HASH=short (5 bytes) accepted; the same value under info_hash is refused with %q", bittorrent.ErrInvalidInfohash)
		}
	})

	// Violation 3: a scrape for two torrents, the second key in another letter
	// case, is answered for one torrent only.
	t.Run("scrape_second_key_in_other_case", func(t *testing.T) {
		sreq, err := ParseScrape(c5req("/scrape?info_hash="+c5ihA+"&Info_Hash="+c5ihB), c5opts)
		if err != nil {
			return // rejected with a failure reason: fine
		}
		if len(sreq.InfoHashes) != 2 || sreq.InfoHashes[0] != hashA || sreq.InfoHashes[1] != hashB {
			t.Errorf("scrape accepted with infohashes %v; supplied were %v and %v", sreq.InfoHashes, hashA, hashB)
		}
	})

	// Not asserted (a rejection is allowed by the statement), but it shows the
	// asymmetry: Peer_Id / PORT are honoured, Info_Hash alone is "not supplied".
	_, err := ParseAnnounce(c5req("/announce?Info_Hash="+c5ihA+c5annRest), c5opts)
	t.Logf("announce with only Info_Hash=<20 bytes>: err=%v", err)
}
