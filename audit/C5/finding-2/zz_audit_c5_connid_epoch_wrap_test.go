package udp

// Audit C5, finding 2 (property C10).
//
// The connection ID carries its issue time as uint32(now.Unix()). Generate
// truncates the clock to 32 bits, Validate widens the 32 bits back with
// time.Unix(int64(uint32)) and compares the result with the 64-bit clock.
// From 2106-02-07T06:28:16Z (Unix 2^32) on, every ID the tracker issues is
// read back as an instant in 1970, i.e. as expired 136 years ago, so the ID
// handed out in a connect response is refused by the very same instance in the
// very same second. (IDs issued before the wrap stay valid across it; only IDs
// issued at or after 2^32 are affected. A clock before 1970 fails the other
// way round: the ID is read back as an instant in 2106, i.e. post-dated.)
//
// Copy into frontend/udp/ and run:
//   go test -vet=off -count=1 -run TestAuditC5ConnIDEpochWrap ./frontend/udp/

import (
	"net"
	"testing"
	"time"
)

func TestAuditC5ConnIDEpochWrap(t *testing.T) {
	const key = "some private key"
	const skew = 10 * time.Second
	ip := net.IP{192, 0, 2, 1}

	check := func(t *testing.T, issuedAt int64) {
		t.Helper()
		issued := time.Unix(issuedAt, 0)
		gen := NewConnectionIDGenerator(key)
		id := append([]byte{}, gen.Generate(ip, issued)...)
		for _, age := range []time.Duration{0, time.Second, time.Minute, 2*time.Minute - time.Second} {
			now := issued.Add(age)
			// The same instance (same generator, same key, same IP) and a second
			// instance with the same key.
			if !gen.Validate(id, ip, now, skew) || !ValidConnectionID(id, ip, now, skew, key) {
				t.Errorf("ID %x issued at %s (Unix %d) to %s is refused at age %v, inside its two-minute lifetime",
					id, issued.UTC().Format(time.RFC3339), issuedAt, ip, age)
			}
		}
	}

	// Controls: the last second that fits into 32 bits, and an ID issued just
	// before the wrap and presented just after it.
	t.Run("control_last_32bit_second", func(t *testing.T) { check(t, 1<<32-1) })
	t.Run("control_2038", func(t *testing.T) { check(t, 1<<31) })

	// Violation: the first second that does not fit, and any later one.
	t.Run("issued_at_2pow32", func(t *testing.T) { check(t, 1<<32) })
	t.Run("issued_2106-02-07T06:28:21Z", func(t *testing.T) { check(t, 1<<32+5) })
	t.Run("issued_2150", func(t *testing.T) {
		check(t, time.Date(2150, 1, 1, 0, 0, 0, 0, time.UTC).Unix())
	})

	// The mirror image for a clock before the epoch (uint32 of a negative
	// number): the ID is read back as lying 136 years in the future.
	t.Run("issued_before_1970", func(t *testing.T) { check(t, -5) })
}
