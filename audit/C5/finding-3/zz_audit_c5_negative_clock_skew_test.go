package udp

// Audit C5, finding 3 (property C10).
//
// Config.Validate replaces every other out-of-range setting by its default
// (max_numwant, default_numwant, max_scrape_infohashes, private_key), but
// max_clock_skew is taken as it comes. With a negative value, Validate
// (connection_id.go) evaluates ts.After(now.Add(maxClockSkew)) with a bound
// that lies in the PAST: an ID the tracker issued a moment ago is "further in
// the future than the configured clock skew" and is refused for the first
// |skew| seconds of its life (for |skew| >= 2 min: for all of it). A client
// that connects and announces straight away, as every client does, gets
// "bad connection ID".
//
// Copy into frontend/udp/ and run:
//   go test -vet=off -count=1 -run TestAuditC5NegativeClockSkew ./frontend/udp/

import (
	"bytes"
	"context"
	"encoding/binary"
	"net"
	"sync"
	"testing"
	"time"

	"github.com/chihaya/chihaya/bittorrent"
)

type c5SpyLogic struct {
	mu        sync.Mutex
	announces int
	scrapes   int
}

func (s *c5SpyLogic) HandleAnnounce(ctx context.Context, _ *bittorrent.AnnounceRequest) (context.Context, *bittorrent.AnnounceResponse, error) {
	s.mu.Lock()
	s.announces++
	s.mu.Unlock()
	return ctx, &bittorrent.AnnounceResponse{Interval: time.Minute}, nil
}

func (s *c5SpyLogic) AfterAnnounce(context.Context, *bittorrent.AnnounceRequest, *bittorrent.AnnounceResponse) {
}

func (s *c5SpyLogic) HandleScrape(ctx context.Context, r *bittorrent.ScrapeRequest) (context.Context, *bittorrent.ScrapeResponse, error) {
	s.mu.Lock()
	s.scrapes++
	s.mu.Unlock()
	return ctx, &bittorrent.ScrapeResponse{Files: make([]bittorrent.Scrape, len(r.InfoHashes))}, nil
}

func (s *c5SpyLogic) AfterScrape(context.Context, *bittorrent.ScrapeRequest, *bittorrent.ScrapeResponse) {
}

func c5RoundTrip(t *testing.T, c *net.UDPConn, pkt []byte) []byte {
	t.Helper()
	if _, err := c.Write(pkt); err != nil {
		t.Fatal(err)
	}
	_ = c.SetReadDeadline(time.Now().Add(2 * time.Second))
	buf := make([]byte, 4096)
	n, err := c.Read(buf)
	if err != nil {
		t.Fatalf("no answer from the tracker: %v", err)
	}
	return buf[:n]
}

func c5Announce(connID []byte) []byte {
	p := append([]byte{}, connID...)
	p = binary.BigEndian.AppendUint32(p, announceActionID)
	p = binary.BigEndian.AppendUint32(p, 0xdeadbeef)
	for i := 0; i < 20; i++ {
		p = append(p, byte(i+1)) // info_hash
	}
	p = append(p, "-XX0000-abcdefghijkl"...)   // peer_id
	p = binary.BigEndian.AppendUint64(p, 0)    // downloaded
	p = binary.BigEndian.AppendUint64(p, 100)  // left
	p = binary.BigEndian.AppendUint64(p, 0)    // uploaded
	p = binary.BigEndian.AppendUint32(p, 2)    // event: started
	p = binary.BigEndian.AppendUint32(p, 0)    // IP
	p = binary.BigEndian.AppendUint32(p, 7)    // key
	p = binary.BigEndian.AppendUint32(p, 10)   // num_want
	p = binary.BigEndian.AppendUint16(p, 6881) // port
	return p
}

func c5ConnectThenAnnounce(t *testing.T, skew time.Duration) {
	logic := &c5SpyLogic{}
	fe, err := NewFrontend(logic, Config{Addr: "127.0.0.1:0", PrivateKey: "k", MaxClockSkew: skew})
	if err != nil {
		// Refusing the configuration outright would be a legitimate repair.
		t.Logf("NewFrontend refused max_clock_skew=%v: %v", skew, err)
		return
	}
	defer func() { <-fe.Stop() }()

	c, err := net.DialUDP("udp", nil, fe.socket.LocalAddr().(*net.UDPAddr))
	if err != nil {
		t.Fatal(err)
	}
	defer c.Close()

	connect := append(append([]byte{}, initialConnectionID...), 0, 0, 0, 0, 1, 2, 3, 4)
	resp := c5RoundTrip(t, c, connect)
	if len(resp) != 16 || binary.BigEndian.Uint32(resp[0:4]) != connectActionID {
		t.Fatalf("unexpected connect response %x", resp)
	}
	connID := resp[8:16]

	// Present the ID at once, from the same address, to the same instance.
	resp = c5RoundTrip(t, c, c5Announce(connID))
	if binary.BigEndian.Uint32(resp[0:4]) == errorActionID {
		t.Errorf("max_clock_skew=%v: connection ID %x, issued by this tracker to this address a moment ago, is refused: error %q",
			skew, connID, bytes.TrimRight(resp[8:], "\x00"))
	}
	logic.mu.Lock()
	defer logic.mu.Unlock()
	if logic.announces != 1 {
		t.Errorf("max_clock_skew=%v: tracker logic saw %d announces, want 1", skew, logic.announces)
	}
}

func TestAuditC5NegativeClockSkew(t *testing.T) {
	t.Run("control_skew_0", func(t *testing.T) { c5ConnectThenAnnounce(t, 0) })
	t.Run("control_skew_10s", func(t *testing.T) { c5ConnectThenAnnounce(t, 10*time.Second) })
	t.Run("skew_minus_10s", func(t *testing.T) { c5ConnectThenAnnounce(t, -10*time.Second) })
	t.Run("skew_minus_5m", func(t *testing.T) { c5ConnectThenAnnounce(t, -5*time.Minute) })

	// Not asserted (a repair may well live in Config.Validate rather than in
	// the validator), but this is the same thing with a fixed clock: the ages
	// at which an ID is refused under max_clock_skew = -10s.
	ip := net.IP{192, 0, 2, 1}
	issued := time.Unix(1700000000, 0)
	id := NewConnectionID(ip, issued, "k")
	var refused []time.Duration
	for age := time.Duration(0); age <= 2*time.Minute; age += time.Second {
		if !ValidConnectionID(id, ip, issued.Add(age), -10*time.Second, "k") {
			refused = append(refused, age)
		}
	}
	t.Logf("validator, max_clock_skew=-10s: ID refused at ages %v of its 2m lifetime", refused)
}
