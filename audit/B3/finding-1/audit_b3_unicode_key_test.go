package http

// Audit B3, finding 1 (property C06).
//
// Copy into frontend/http/ and run:
//   go test ./frontend/http/ -run TestAuditB3 -count=1 -v
//
// parseQuery (bittorrent/params.go) stores every key except "info_hash" under
// strings.ToLower(key). strings.ToLower is Unicode simple case folding, not
// ASCII lower-casing: U+0130 (LATIN CAPITAL LETTER I WITH DOT ABOVE, UTF-8
// C4 B0) folds to the ASCII letter 'i'. A parameter named "peer_İd" -
// which is no BitTorrent parameter and is not "peer_id" in any letter case -
// is therefore filed under "peer_id" and, coming later in the query, replaces
// the peer ID the client supplied.

import (
	"net/http/httptest"
	"testing"

	"github.com/chihaya/chihaya/bittorrent"
)

const auditB3Base = "/announce?info_hash=%aa%aa%aa%aa%aa%aa%aa%aa%aa%aa%aa%aa%aa%aa%aa%aa%aa%aa%aa%aa" +
	"&peer_id=AAAAAAAAAAAAAAAAAAAA&port=6881&left=1&uploaded=0&downloaded=0"

func auditB3Parse(t *testing.T, uri string, opts ParseOptions) (*bittorrent.AnnounceRequest, error) {
	t.Helper()
	r := httptest.NewRequest("GET", "/announce", nil)
	r.RequestURI = uri
	r.RemoteAddr = "10.0.0.9:40000"
	return ParseAnnounce(r, opts)
}

func TestAuditB3UnrelatedParameterReplacesPeerID(t *testing.T) {
	opts := ParseOptions{MaxNumWant: 100, DefaultNumWant: 50, MaxScrapeInfoHashes: 50}
	want := bittorrent.PeerIDFromString("AAAAAAAAAAAAAAAAAAAA")

	// Control: the plain request is accepted with the peer ID supplied.
	req, err := auditB3Parse(t, auditB3Base, opts)
	if err != nil {
		t.Fatalf("control request rejected: %v", err)
	}
	if req.Peer.ID != want {
		t.Fatalf("control request: peer ID %q", req.Peer.ID[:])
	}

	// The same request followed by one unrelated parameter, once
	// percent-escaped and once as raw bytes.
	for _, extra := range []string{
		"&peer_%C4%B0d=BBBBBBBBBBBBBBBBBBBB",
		"&peer_\xc4\xb0d=BBBBBBBBBBBBBBBBBBBB",
	} {
		req, err := auditB3Parse(t, auditB3Base+extra, opts)
		if err != nil {
			// A rejection with a failure reason would satisfy C06.
			continue
		}
		if req.Peer.ID != want {
			t.Errorf("query %q: accepted with peer ID %q; the peer_id parameter supplied is %q and %q is not the peer_id key",
				extra, req.Peer.ID[:], want[:], "peer_İd")
		}
	}
}

// The same folding turns "İp" into "ip": with allow_ip_spoofing the
// unrelated parameter decides the address the peer is registered under.
func TestAuditB3UnrelatedParameterSetsPeerIP(t *testing.T) {
	opts := ParseOptions{MaxNumWant: 100, DefaultNumWant: 50, MaxScrapeInfoHashes: 50, AllowIPSpoofing: true}
	req, err := auditB3Parse(t, auditB3Base+"&%C4%B0p=9.9.9.9", opts)
	if err != nil {
		return
	}
	if req.IPProvided || req.Peer.IP.String() != "10.0.0.9" {
		t.Errorf("accepted with IP %s (IPProvided=%v); no ip/ipv4/ipv6 parameter was supplied, the connection comes from 10.0.0.9",
			req.Peer.IP, req.IPProvided)
	}
}
