package udp_test

// Audit B2, finding 1 (property C11).
//
// Copy into frontend/udp/ and run:
//   go test ./frontend/udp/ -run TestAuditB2 -count=1 -v

import (
	"context"
	"encoding/binary"
	"net"
	"testing"
	"time"

	"github.com/chihaya/chihaya/bittorrent"
	"github.com/chihaya/chihaya/frontend/udp"
	"github.com/chihaya/chihaya/middleware"
	"github.com/chihaya/chihaya/storage/memory"
)

// announceV6Packet builds an "action 4" (opentracker IPv6 layout) announce,
// whose IP field is 16 bytes wide.
func announceV6Packet(infoHash, peerID string, left uint64, ipField []byte, numWant uint32, port uint16) []byte {
	if len(ipField) != 16 {
		panic("ip field of an action-4 announce is 16 bytes")
	}
	pkt := make([]byte, 0, 110)
	pkt = append(pkt, 0, 0, 0, 0, 0, 0, 0, 0)   // connection ID (not looked at by the parser)
	pkt = binary.BigEndian.AppendUint32(pkt, 4) // action: announce, IPv6 layout
	pkt = append(pkt, 1, 2, 3, 4)               // transaction ID
	pkt = append(pkt, infoHash...)
	pkt = append(pkt, peerID...)
	pkt = binary.BigEndian.AppendUint64(pkt, 0)    // downloaded
	pkt = binary.BigEndian.AppendUint64(pkt, left) // left
	pkt = binary.BigEndian.AppendUint64(pkt, 0)    // uploaded
	pkt = binary.BigEndian.AppendUint32(pkt, 2)    // event: started
	pkt = append(pkt, ipField...)
	pkt = binary.BigEndian.AppendUint32(pkt, 0) // key
	pkt = binary.BigEndian.AppendUint32(pkt, numWant)
	pkt = binary.BigEndian.AppendUint16(pkt, port)
	return pkt
}

const (
	auditInfoHash = "aaaaaaaaaaaaaaaaaaaa"
	auditPeerA    = "AAAAAAAAAAAAAAAAAAAA"
	auditPeerB    = "BBBBBBBBBBBBBBBBBBBB"
)

var auditOpts = udp.ParseOptions{AllowIPSpoofing: true, MaxNumWant: 100, DefaultNumWant: 50, MaxScrapeInfoHashes: 50}

// The zero IPv4 address, written into the 16-byte field of an action-4
// announce (the only way to write an IPv4 address there is the IPv4-mapped
// form, it is what net.IPv4zero.To16() yields), must still mean "my source
// address". The HTTP frontend does pass over ip=::ffff:0.0.0.0.
func TestAuditB2ParseMappedZeroMeansSource(t *testing.T) {
	source := net.ParseIP("203.0.113.7").To4()

	for _, tc := range []struct {
		name  string
		field []byte
	}{
		{"all-zero field (control)", make([]byte, 16)},
		{"IPv4-mapped zero field ::ffff:0.0.0.0", net.IPv4zero.To16()},
	} {
		req, err := udp.ParseAnnounce(
			udp.Request{Packet: announceV6Packet(auditInfoHash, auditPeerA, 5, tc.field, 50, 6881), IP: append(net.IP{}, source...)},
			true, auditOpts)
		if err != nil {
			t.Fatalf("%s: ParseAnnounce: %v", tc.name, err)
		}
		if !req.Peer.IP.IP.Equal(source) {
			t.Errorf("%s: peer registered under %s, want the datagram source %s (IPProvided=%v)",
				tc.name, req.Peer.IP.IP, source, req.IPProvided)
		}
	}
}

// The consequence: the address 0.0.0.0 is stored and handed out to the other
// peers of the IPv4 swarm.
func TestAuditB2MappedZeroIsHandedOut(t *testing.T) {
	ps, err := memory.New(memory.Config{ShardCount: 1, GarbageCollectionInterval: time.Hour, PrometheusReportingInterval: time.Hour, PeerLifetime: time.Hour})
	if err != nil {
		t.Fatal(err)
	}
	defer func() { <-ps.Stop() }()
	lgc := middleware.NewLogic(middleware.ResponseConfig{AnnounceInterval: time.Minute}, ps, nil, nil)

	announce := func(peerID string, source net.IP, field []byte, port uint16) *bittorrent.AnnounceResponse {
		req, err := udp.ParseAnnounce(
			udp.Request{Packet: announceV6Packet(auditInfoHash, peerID, 5, field, 50, port), IP: append(net.IP{}, source...)},
			true, auditOpts)
		if err != nil {
			t.Fatalf("ParseAnnounce: %v", err)
		}
		ctx, resp, err := lgc.HandleAnnounce(context.Background(), req)
		if err != nil {
			t.Fatalf("HandleAnnounce: %v", err)
		}
		lgc.AfterAnnounce(ctx, req, resp) // synchronous here: the peer is registered on return
		return resp
	}

	sourceA := net.ParseIP("203.0.113.7").To4()
	sourceB := net.ParseIP("198.51.100.9").To4()

	announce(auditPeerA, sourceA, net.IPv4zero.To16(), 6881)
	resp := announce(auditPeerB, sourceB, make([]byte, 16), 6882)

	if len(resp.IPv4Peers) != 1 {
		t.Fatalf("peer B was offered %d IPv4 peers, want exactly peer A: %v", len(resp.IPv4Peers), resp.IPv4Peers)
	}
	got := resp.IPv4Peers[0]
	if got.IP.IP.IsUnspecified() || !got.IP.IP.Equal(sourceA) {
		t.Errorf("peer A is handed out as %s:%d, want its source address %s:%d", got.IP.IP, got.Port, sourceA, 6881)
	}
}
