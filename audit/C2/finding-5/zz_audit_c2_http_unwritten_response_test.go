package http_test

import (
	"context"
	"encoding/binary"
	"fmt"
	"io"
	"net"
	"net/url"
	"testing"
	"time"

	"github.com/chihaya/chihaya/bittorrent"
	httpfe "github.com/chihaya/chihaya/frontend/http"
	"github.com/chihaya/chihaya/middleware"
	"github.com/chihaya/chihaya/storage"
	_ "github.com/chihaya/chihaya/storage/memory"
)

// C12: "A request accepted by all pre-hooks gets a response filled from the
// store and is then applied to the swarm exactly once, unless a hook explicitly
// marked it to skip either step."
//
// announceRoute schedules AfterAnnounce only when WriteAnnounceResponse returned
// no error. The write fails whenever the body does not fit net/http's 4096-byte
// response buffer and the connection is no longer writable (client gone, or
// write_timeout elapsed while the pre-hooks ran). Then an announce every
// pre-hook accepted is never applied to the swarm - while the same announce
// with a body under 4096 bytes, equally undelivered, is applied.

type auditC2SlowHook struct{ d time.Duration }

func (h auditC2SlowHook) HandleAnnounce(ctx context.Context, _ *bittorrent.AnnounceRequest, _ *bittorrent.AnnounceResponse) (context.Context, error) {
	time.Sleep(h.d)
	return ctx, nil
}

func (h auditC2SlowHook) HandleScrape(ctx context.Context, _ *bittorrent.ScrapeRequest, _ *bittorrent.ScrapeResponse) (context.Context, error) {
	return ctx, nil
}

func auditC2FreeTCPAddr(t *testing.T) string {
	l, err := net.Listen("tcp", "127.0.0.1:0")
	if err != nil {
		t.Fatal(err)
	}
	defer l.Close()
	return l.Addr().String()
}

// announces as a leecher with the given numwant over a tracker whose only
// pre-hook takes longer than write_timeout; returns the number of leechers the
// swarm holds afterwards.
func auditC2AnnounceOverSlowTracker(t *testing.T, numWant int) (leechers uint32, body []byte) {
	t.Helper()
	ps, err := storage.NewPeerStore("memory", nil)
	if err != nil {
		t.Fatal(err)
	}
	defer func() { <-ps.Stop() }()

	ih := bittorrent.InfoHashFromString("audit-c2-unwritten-h")
	for i := 0; i < 100; i++ {
		var id [20]byte
		copy(id[:], "-AU0001-")
		binary.BigEndian.PutUint32(id[16:], uint32(i))
		p := bittorrent.Peer{
			ID:   bittorrent.PeerID(id),
			IP:   bittorrent.IP{IP: net.IP{10, 0, 1, byte(i)}, AddressFamily: bittorrent.IPv4},
			Port: 6881,
		}
		if err := ps.PutSeeder(ih, p); err != nil {
			t.Fatal(err)
		}
	}

	lgc := middleware.NewLogic(middleware.ResponseConfig{AnnounceInterval: 30 * time.Minute}, ps,
		[]middleware.Hook{auditC2SlowHook{700 * time.Millisecond}}, nil)
	addr := auditC2FreeTCPAddr(t)
	fe, err := httpfe.NewFrontend(lgc, httpfe.Config{
		Addr:           addr,
		ReadTimeout:    5 * time.Second,
		WriteTimeout:   300 * time.Millisecond,
		AnnounceRoutes: []string{"/announce"},
		ScrapeRoutes:   []string{"/scrape"},
		ParseOptions:   httpfe.ParseOptions{MaxNumWant: 100, DefaultNumWant: 50},
	})
	if err != nil {
		t.Fatal(err)
	}
	defer func() { <-fe.Stop() }()

	conn, err := net.Dial("tcp", addr)
	if err != nil {
		t.Fatal(err)
	}
	defer conn.Close()
	q := url.Values{}
	q.Set("info_hash", string(ih[:]))
	q.Set("peer_id", "-AU0001-announcer001")
	q.Set("port", "7001")
	q.Set("uploaded", "0")
	q.Set("downloaded", "0")
	q.Set("left", "1000")
	q.Set("event", "started")
	q.Set("numwant", fmt.Sprint(numWant))
	fmt.Fprintf(conn, "GET /announce?%s HTTP/1.1\r\nHost: tracker\r\nConnection: close\r\n\r\n", q.Encode())
	_ = conn.SetReadDeadline(time.Now().Add(5 * time.Second))
	body, _ = io.ReadAll(conn)

	time.Sleep(300 * time.Millisecond) // let AfterAnnounce run
	return ps.ScrapeSwarm(ih, bittorrent.IPv4).Incomplete, body
}

// Control: the body (one peer in dictionary form) fits the response buffer. The
// deadline has passed just the same and the client receives nothing, but the
// handler does not notice and the announce is applied.
func TestAuditC2HTTPAcceptedAnnounceAppliedSmallBody(t *testing.T) {
	leechers, body := auditC2AnnounceOverSlowTracker(t, 1)
	if len(body) != 0 {
		t.Logf("client received %d bytes", len(body))
	}
	if leechers != 1 {
		t.Fatalf("swarm holds %d leechers after the accepted announce, want 1", leechers)
	}
}

// 100 peers in dictionary form exceed 4096 bytes.
func TestAuditC2HTTPAcceptedAnnounceAppliedLargeBody(t *testing.T) {
	leechers, body := auditC2AnnounceOverSlowTracker(t, 100)
	if len(body) != 0 {
		t.Logf("client received %d bytes", len(body))
	}
	if leechers != 1 {
		t.Fatalf("swarm holds %d leechers after an announce every pre-hook accepted, want 1 "+
			"(AfterAnnounce was never scheduled)", leechers)
	}
}
