package http

import (
	"net/http/httptest"
	"testing"

	abencode "github.com/anacrolix/torrent/bencode"

	"github.com/chihaya/chihaya/bittorrent"
)

// C08: "Every HTTP response body is a single well-formed bencoded dictionary
// that an independent BitTorrent client decodes to exactly the interval, min
// interval, counts and peers ... that the tracker logic produced".
//
// A Scrape value carries three counts: Complete, Incomplete and Snatches (BEP 48:
// "complete", "incomplete", "downloaded"). The UDP writer sends all three; the
// HTTP writer leaves the third one out, so whatever the logic produced for it,
// an HTTP client decodes nothing (0 or "unknown").
func TestAuditC2HTTPScrapeCarriesSnatches(t *testing.T) {
	ih := bittorrent.InfoHashFromString("audit-c2-scrape-hash")
	resp := &bittorrent.ScrapeResponse{Files: []bittorrent.Scrape{
		{InfoHash: ih, Complete: 5, Incomplete: 3, Snatches: 42},
	}}

	rec := httptest.NewRecorder()
	if err := WriteScrapeResponse(rec, resp); err != nil {
		t.Fatal(err)
	}

	// BEP 48 scrape response, decoded by an independent bencode implementation.
	var decoded struct {
		Files map[string]struct {
			Complete   *int64 `bencode:"complete"`
			Incomplete *int64 `bencode:"incomplete"`
			Downloaded *int64 `bencode:"downloaded"`
		} `bencode:"files"`
	}
	if err := abencode.Unmarshal(rec.Body.Bytes(), &decoded); err != nil {
		t.Fatalf("body %q: %v", rec.Body.String(), err)
	}
	f, ok := decoded.Files[string(ih[:])]
	if !ok {
		t.Fatalf("no entry for the infohash in %q", rec.Body.String())
	}
	if f.Complete == nil || *f.Complete != 5 || f.Incomplete == nil || *f.Incomplete != 3 {
		t.Fatalf("complete/incomplete wrong in %q", rec.Body.String())
	}
	if f.Downloaded == nil {
		t.Fatalf("the logic produced Snatches=42, the body %q has no \"downloaded\" count at all", rec.Body.String())
	}
	if *f.Downloaded != 42 {
		t.Fatalf("downloaded = %d, want 42", *f.Downloaded)
	}
}
