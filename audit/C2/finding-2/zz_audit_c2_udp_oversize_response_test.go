package udp_test

import (
	"encoding/binary"
	"net"
	"testing"
	"time"

	"github.com/chihaya/chihaya/bittorrent"
	"github.com/chihaya/chihaya/frontend/udp"
	"github.com/chihaya/chihaya/middleware"
	"github.com/chihaya/chihaya/storage"
	_ "github.com/chihaya/chihaya/storage/memory"
)

// C09: "Every UDP response carries the action code matching the request (or
// the error action) and the request's transaction ID, followed by exactly the
// fields BEP 15 prescribes: interval, leechers, seeders and fixed-size peer
// entries for announces".
//
// The largest UDP payload is 65507 bytes: 20 bytes of header and 10914 IPv4
// entries (3638 IPv6 entries). max_numwant has no upper bound, and WriteAnnounce
// writes one entry for every peer the logic produced. One peer more than fits
// and the client receives nothing at all - no announce response, no error -
// while the announce is still applied to the swarm.

func auditC2Announce(t *testing.T, nPeers int) (gotResponse bool, respLen int, ps storage.PeerStore, ih bittorrent.InfoHash) {
	t.Helper()
	ps, err := storage.NewPeerStore("memory", nil)
	if err != nil {
		t.Fatal(err)
	}
	ih = bittorrent.InfoHashFromString("audit-c2-oversize-ih")
	for i := 0; i < nPeers; i++ {
		var id [20]byte
		copy(id[:], "-AU0001-")
		binary.BigEndian.PutUint32(id[16:], uint32(i))
		p := bittorrent.Peer{
			ID:   bittorrent.PeerID(id),
			IP:   bittorrent.IP{IP: net.IP{10, byte(i >> 16), byte(i >> 8), byte(i)}, AddressFamily: bittorrent.IPv4},
			Port: 6881,
		}
		if err := ps.PutSeeder(ih, p); err != nil {
			t.Fatal(err)
		}
	}

	// Pick a free port: the frontend does not tell which one it bound.
	probe, err := net.ListenPacket("udp", "127.0.0.1:0")
	if err != nil {
		t.Fatal(err)
	}
	addr := probe.LocalAddr().String()
	probe.Close()

	lgc := middleware.NewLogic(middleware.ResponseConfig{AnnounceInterval: 30 * time.Minute}, ps, nil, nil)
	fe, err := udp.NewFrontend(lgc, udp.Config{
		Addr:         addr,
		PrivateKey:   "audit-c2",
		MaxClockSkew: time.Minute,
		ParseOptions: udp.ParseOptions{MaxNumWant: 20000, DefaultNumWant: 50},
	})
	if err != nil {
		t.Fatal(err)
	}
	defer func() { <-fe.Stop() }()

	conn, err := net.Dial("udp", addr)
	if err != nil {
		t.Fatal(err)
	}
	defer conn.Close()
	in := make([]byte, 70000)

	// connect
	req := make([]byte, 16)
	copy(req, []byte{0, 0, 0x04, 0x17, 0x27, 0x10, 0x19, 0x80})
	binary.BigEndian.PutUint32(req[8:], 0)
	copy(req[12:], "tx01")
	if _, err := conn.Write(req); err != nil {
		t.Fatal(err)
	}
	_ = conn.SetReadDeadline(time.Now().Add(3 * time.Second))
	n, err := conn.Read(in)
	if err != nil || n != 16 {
		t.Fatalf("connect: n=%d err=%v", n, err)
	}
	connID := append([]byte{}, in[8:16]...)

	// announce, leecher, numwant 20000
	req = make([]byte, 98)
	copy(req[0:8], connID)
	binary.BigEndian.PutUint32(req[8:], 1)
	copy(req[12:16], "tx02")
	copy(req[16:36], ih[:])
	copy(req[36:56], "-AU0001-announcer000")
	binary.BigEndian.PutUint64(req[64:], 1000) // left
	binary.BigEndian.PutUint32(req[80:], 2)    // started
	binary.BigEndian.PutUint32(req[92:], 20000)
	binary.BigEndian.PutUint16(req[96:], 7000)
	if _, err := conn.Write(req); err != nil {
		t.Fatal(err)
	}
	_ = conn.SetReadDeadline(time.Now().Add(3 * time.Second))
	n, err = conn.Read(in)
	if err != nil {
		return false, 0, ps, ih
	}
	if string(in[4:8]) != "tx02" {
		t.Fatalf("wrong transaction id %q", in[4:8])
	}
	if a := binary.BigEndian.Uint32(in[0:4]); a != 1 {
		t.Fatalf("action %d, want 1 (payload %q)", a, in[8:n])
	}
	return true, n, ps, ih
}

// Control: the largest swarm that still fits is answered in full.
func TestAuditC2UDPLargestFittingAnnounceResponse(t *testing.T) {
	ok, n, _, _ := auditC2Announce(t, 10914)
	if !ok {
		t.Fatal("no response to an announce whose response is exactly 65507 bytes")
	}
	if n != 20+6*10914 {
		t.Fatalf("response is %d bytes, want %d", n, 20+6*10914)
	}
}

func TestAuditC2UDPOversizeAnnounceResponseIsDropped(t *testing.T) {
	ok, n, ps, ih := auditC2Announce(t, 10915)
	if !ok {
		// The request was accepted and applied all the same.
		time.Sleep(200 * time.Millisecond)
		s := ps.ScrapeSwarm(ih, bittorrent.IPv4)
		t.Fatalf("the client got no datagram at all (neither an announce response nor an error) "+
			"for an announce the tracker accepted; swarm afterwards: %d seeders, %d leechers "+
			"(the announcer was added as a leecher)", s.Complete, s.Incomplete)
	}
	if (n-20)%6 != 0 {
		t.Fatalf("response of %d bytes does not end on a peer entry boundary", n)
	}
}
