package middleware_test

import (
	"context"
	"net"
	"testing"

	"github.com/chihaya/chihaya/bittorrent"
	"github.com/chihaya/chihaya/middleware"
	"github.com/chihaya/chihaya/storage"
	_ "github.com/chihaya/chihaya/storage/memory"
)

// C12: "Pre-hooks run in configured order before any peers are selected; ...
// A request accepted by all pre-hooks gets a response filled from the store and
// is then applied to the swarm exactly once" - "for every chain of pre- and
// post-hooks ... of any length and order".
//
// NewLogic builds its chains with append(preHooks, responseHook) and
// append(postHooks, swarmInteractionHook). When the slice it is given has spare
// capacity, append writes into the caller's backing array: whatever lives there
// (the first configured post-hook, or the response hook of another Logic built
// from the same configured chain) is overwritten.

type auditC2Hook struct {
	name string
	log  *[]string
}

func (h *auditC2Hook) HandleAnnounce(ctx context.Context, _ *bittorrent.AnnounceRequest, _ *bittorrent.AnnounceResponse) (context.Context, error) {
	*h.log = append(*h.log, h.name)
	return ctx, nil
}

func (h *auditC2Hook) HandleScrape(ctx context.Context, _ *bittorrent.ScrapeRequest, _ *bittorrent.ScrapeResponse) (context.Context, error) {
	*h.log = append(*h.log, h.name)
	return ctx, nil
}

func auditC2Peer(id string, last byte, port uint16) bittorrent.Peer {
	return bittorrent.Peer{
		ID:   bittorrent.PeerIDFromString(id),
		IP:   bittorrent.IP{IP: net.IP{10, 0, 0, last}, AddressFamily: bittorrent.IPv4},
		Port: port,
	}
}

// One configured chain, the first hook a pre-hook and the second a post-hook.
func TestAuditC2ConfiguredPostHookRuns(t *testing.T) {
	ps, err := storage.NewPeerStore("memory", nil)
	if err != nil {
		t.Fatal(err)
	}
	defer func() { <-ps.Stop() }()

	var log []string
	chain := []middleware.Hook{
		&auditC2Hook{"pre-1", &log},
		&auditC2Hook{"post-1", &log},
	}
	l := middleware.NewLogic(middleware.ResponseConfig{}, ps, chain[:1], chain[1:])

	ih := bittorrent.InfoHashFromString("audit-c2-alias-hash1")
	req := &bittorrent.AnnounceRequest{InfoHash: ih, Left: 1, NumWant: 50, Peer: auditC2Peer("-AU0001-announcer001", 1, 7001)}
	ctx, resp, err := l.HandleAnnounce(context.Background(), req)
	if err != nil {
		t.Fatal(err)
	}
	l.AfterAnnounce(ctx, req, resp)

	want := []string{"pre-1", "post-1"}
	if len(log) != len(want) || log[0] != want[0] || log[1] != want[1] {
		t.Fatalf("hooks invoked: %v, want %v (the configured post-hook was replaced by the response hook)", log, want)
	}
}

// One configured pre-hook chain, two Logics over two stores (for instance a
// tracker compared against a second store). Each must answer from its own store.
func TestAuditC2ResponseFilledFromOwnStore(t *testing.T) {
	ps1, err := storage.NewPeerStore("memory", nil)
	if err != nil {
		t.Fatal(err)
	}
	defer func() { <-ps1.Stop() }()
	ps2, err := storage.NewPeerStore("memory", nil)
	if err != nil {
		t.Fatal(err)
	}
	defer func() { <-ps2.Stop() }()

	var log []string
	var pre []middleware.Hook
	for _, n := range []string{"pre-1", "pre-2", "pre-3"} { // len 3, cap 4, as HooksFromHookConfigs builds it
		pre = append(pre, &auditC2Hook{n, &log})
	}
	if cap(pre) == len(pre) {
		t.Skip("no spare capacity")
	}

	l1 := middleware.NewLogic(middleware.ResponseConfig{}, ps1, pre, nil)
	_ = middleware.NewLogic(middleware.ResponseConfig{}, ps2, pre, nil)

	ih := bittorrent.InfoHashFromString("audit-c2-alias-hash2")
	seeder := auditC2Peer("-AU0001-seeder-ps001", 2, 7002)
	if err := ps1.PutSeeder(ih, seeder); err != nil {
		t.Fatal(err)
	}

	req := &bittorrent.AnnounceRequest{InfoHash: ih, Left: 1, NumWant: 50, Peer: auditC2Peer("-AU0001-announcer002", 3, 7003)}
	_, resp, err := l1.HandleAnnounce(context.Background(), req)
	if err != nil {
		t.Fatal(err)
	}
	if resp.Complete != 1 || len(resp.IPv4Peers) != 1 || !resp.IPv4Peers[0].Equal(seeder) {
		t.Fatalf("logic over store 1 answered complete=%d peers=%v; store 1 holds exactly the seeder %v "+
			"(the response was filled from store 2)", resp.Complete, resp.IPv4Peers, seeder)
	}
}
