package udp

import (
	"bytes"
	"encoding/binary"
	"net"
	"testing"
	"time"

	"github.com/chihaya/chihaya/bittorrent"
)

// C09: "... followed by exactly the fields BEP 15 prescribes: interval,
// leechers, seeders and fixed-size peer entries for announces".
//
// An IPv4 peer is 6 bytes on the wire (4 address bytes + 2 port bytes), whatever
// the in-memory form of its net.IP is. net.ParseIP, net.IPv4 and every
// net.UDPAddr/TCPAddr the standard library hands out hold IPv4 addresses in the
// 16-byte form; the HTTP writer copes with that (compact4 calls To4), the UDP
// writer copies the slice as it is.
func TestAuditC2UDPAnnounceIPv4PeerEntriesAreSixBytes(t *testing.T) {
	resp := &bittorrent.AnnounceResponse{
		Interval:   30 * time.Minute,
		Incomplete: 2,
		Complete:   1,
		IPv4Peers: []bittorrent.Peer{
			// 4-byte form, as the shipped stores return it.
			{IP: bittorrent.IP{IP: net.IP{10, 0, 0, 1}, AddressFamily: bittorrent.IPv4}, Port: 1111},
			// 16-byte form of an IPv4 address, as net.ParseIP returns it.
			{IP: bittorrent.IP{IP: net.ParseIP("10.0.0.2"), AddressFamily: bittorrent.IPv4}, Port: 2222},
			{IP: bittorrent.IP{IP: net.IP{10, 0, 0, 3}, AddressFamily: bittorrent.IPv4}, Port: 3333},
		},
	}

	var buf bytes.Buffer
	txID := []byte{0xde, 0xad, 0xbe, 0xef}
	WriteAnnounce(&buf, txID, resp, false, false)
	pkt := buf.Bytes()

	// Reference BEP 15 decoding of an IPv4 announce response.
	if len(pkt) < 20 {
		t.Fatalf("short response: %d bytes", len(pkt))
	}
	if a := binary.BigEndian.Uint32(pkt[0:4]); a != 1 {
		t.Fatalf("action = %d, want 1", a)
	}
	if !bytes.Equal(pkt[4:8], txID) {
		t.Fatalf("transaction id = %x, want %x", pkt[4:8], txID)
	}
	body := pkt[20:]
	if len(body) != 6*len(resp.IPv4Peers) {
		t.Errorf("peer section is %d bytes, want %d (3 entries of 6 bytes)", len(body), 6*len(resp.IPv4Peers))
	}
	type entry struct {
		ip   string
		port uint16
	}
	var got []entry
	for len(body) >= 6 {
		got = append(got, entry{net.IP(body[:4]).String(), binary.BigEndian.Uint16(body[4:6])})
		body = body[6:]
	}
	want := []entry{{"10.0.0.1", 1111}, {"10.0.0.2", 2222}, {"10.0.0.3", 3333}}
	if len(got) != len(want) {
		t.Fatalf("decoded %d peers %v, want %v", len(got), got, want)
	}
	for i := range want {
		if got[i] != want[i] {
			t.Errorf("peer %d = %v, want %v", i, got[i], want[i])
		}
	}
}
