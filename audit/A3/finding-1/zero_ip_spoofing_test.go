package http

import (
	"net"
	"net/http/httptest"
	"testing"
)

// Property C11: with allow_ip_spoofing enabled an explicitly supplied address
// is used verbatim, but "an absent or zero address still means the source
// address". The UDP frontend honours this (an all-zero IP field selects the
// datagram source); the HTTP frontend registers the unspecified address
// 0.0.0.0 / :: as the peer's address.
func TestAuditZeroIPParamMeansSourceAddress(t *testing.T) {
	const base = "/announce?info_hash=%01%02%03%04%05%06%07%08%09%0a%0b%0c%0d%0e%0f%10%11%12%13%14" +
		"&peer_id=-TR2940-k8hj0wgej6ch&port=6881&uploaded=0&downloaded=0&left=1"

	opts := ParseOptions{AllowIPSpoofing: true, MaxNumWant: 100, DefaultNumWant: 50}

	for _, tc := range []struct {
		name   string
		extra  string
		remote string
		want   string
	}{
		{"ip=0.0.0.0 from IPv4 source", "&ip=0.0.0.0", "10.1.2.3:40000", "10.1.2.3"},
		{"ipv4=0.0.0.0 from IPv4 source", "&ipv4=0.0.0.0", "10.1.2.3:40000", "10.1.2.3"},
		{"ip=:: from IPv6 source", "&ip=::", "[2001:db8::7]:40000", "2001:db8::7"},
		{"ipv6=:: from IPv6 source", "&ipv6=::", "[2001:db8::7]:40000", "2001:db8::7"},
		// Control: a non-zero supplied address is used verbatim.
		{"ip=9.9.9.9 (control)", "&ip=9.9.9.9", "10.1.2.3:40000", "9.9.9.9"},
		// Control: no address supplied.
		{"absent (control)", "", "10.1.2.3:40000", "10.1.2.3"},
	} {
		t.Run(tc.name, func(t *testing.T) {
			r := httptest.NewRequest("GET", base+tc.extra, nil)
			r.RemoteAddr = tc.remote

			req, err := ParseAnnounce(r, opts)
			if err != nil {
				t.Fatalf("announce rejected: %v", err)
			}
			if req.Peer.IP.IP.IsUnspecified() {
				t.Errorf("peer registered under the unspecified address %v (IPProvided=%v); want the source address %s",
					req.Peer.IP.IP, req.IPProvided, tc.want)
			}
			if !req.Peer.IP.IP.Equal(net.ParseIP(tc.want)) {
				t.Errorf("peer address = %v, want %s", req.Peer.IP.IP, tc.want)
			}
		})
	}
}
