package http

import (
	"io"
	"net"
	"net/http"
	"net/http/httptest"
	"strings"
	"testing"
	"time"
)

const auditAnnounceQuery = "/announce?info_hash=%01%02%03%04%05%06%07%08%09%0a%0b%0c%0d%0e%0f%10%11%12%13%14" +
	"&peer_id=-TR2940-k8hj0wgej6ch&port=6881&uploaded=0&downloaded=0&left=1"

// Property C11: with spoofing disabled the peer is registered under the
// connection source address, for every source address. For a client that
// connects from an IPv6 link-local address, net/http reports RemoteAddr with
// the zone ("[fe80::1%eth0]:40000"); requestedIP hands "fe80::1%eth0" to
// net.ParseIP, which does not accept zones, and the announce is rejected with
// "failed to parse peer IP address" although the client sent a flawless
// request. (The UDP frontend takes net.UDPAddr.IP, which has no zone, and
// registers the same client as fe80::1.)
func TestAuditLinkLocalSourceAddressParser(t *testing.T) {
	r := httptest.NewRequest("GET", auditAnnounceQuery, nil)
	r.RemoteAddr = "[fe80::1%eth0]:40000" // exactly what (*net.TCPAddr).String() yields

	req, err := ParseAnnounce(r, ParseOptions{MaxNumWant: 100, DefaultNumWant: 50})
	if err != nil {
		t.Fatalf("announce from link-local source rejected: %v", err)
	}
	if !req.Peer.IP.IP.Equal(net.ParseIP("fe80::1")) {
		t.Fatalf("peer address = %v, want fe80::1", req.Peer.IP.IP)
	}
}

// The same over a real TCP connection, when the machine has a link-local
// address to connect from (skipped otherwise).
func TestAuditLinkLocalSourceAddressRealConnection(t *testing.T) {
	var target string
	ifaces, _ := net.Interfaces()
	for _, ifc := range ifaces {
		addrs, _ := ifc.Addrs()
		for _, a := range addrs {
			if ipn, ok := a.(*net.IPNet); ok && ipn.IP.To4() == nil && ipn.IP.IsLinkLocalUnicast() {
				target = ipn.IP.String() + "%" + ifc.Name
			}
		}
	}
	if target == "" {
		t.Skip("no IPv6 link-local address on this machine")
	}

	l, err := net.Listen("tcp", "[::]:0")
	if err != nil {
		t.Skipf("cannot listen on IPv6: %v", err)
	}
	type result struct {
		remote string
		ip     net.IP
		err    error
	}
	results := make(chan result, 1)
	srv := &http.Server{Handler: http.HandlerFunc(func(w http.ResponseWriter, r *http.Request) {
		req, err := ParseAnnounce(r, ParseOptions{MaxNumWant: 100, DefaultNumWant: 50})
		res := result{remote: r.RemoteAddr, err: err}
		if err == nil {
			res.ip = req.Peer.IP.IP
		} else {
			_ = WriteError(w, err)
		}
		results <- res
	})}
	go func() { _ = srv.Serve(l) }()
	defer srv.Close()

	_, port, _ := net.SplitHostPort(l.Addr().String())
	conn, err := net.DialTimeout("tcp", net.JoinHostPort(target, port), 10*time.Second)
	if err != nil {
		t.Skipf("cannot connect via link-local address %s: %v", target, err)
	}
	defer conn.Close()
	_, _ = io.WriteString(conn, "GET "+auditAnnounceQuery+" HTTP/1.1\r\nHost: tracker\r\nConnection: close\r\n\r\n")
	body, _ := io.ReadAll(conn)

	select {
	case res := <-results:
		if res.err != nil {
			t.Fatalf("announce over a connection from %s rejected: %v (response: %q)",
				res.remote, res.err, body[strings.Index(string(body), "\r\n\r\n")+4:])
		}
		host, _, _ := net.SplitHostPort(res.remote)
		if i := strings.IndexByte(host, '%'); i >= 0 {
			host = host[:i]
		}
		if !res.ip.Equal(net.ParseIP(host)) {
			t.Fatalf("peer address = %v, want %s", res.ip, host)
		}
	case <-time.After(30 * time.Second):
		t.Fatal("handler was not invoked")
	}
}
