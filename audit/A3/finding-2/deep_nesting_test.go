package bencode

import (
	"bytes"
	"os"
	"os/exec"
	"strings"
	"testing"
	"time"
)

// Property C19: "For arbitrary input bytes the decoder returns either a value
// or an error: it never panics". The decoder recurses once per nesting level
// (unmarshal -> readList/readDict -> unmarshal, ~232 bytes of stack per level
// on amd64) without any depth limit, so a few megabytes of 'l' (or "d1:a")
// exhaust the 1 GB goroutine stack limit and the Go runtime kills the whole
// process with "fatal error: stack overflow", which cannot be recovered.
//
// The decode runs in a child process (this test binary re-executed) so that
// the crash is reported as an ordinary test failure.
const auditDeepEnv = "AUDIT_BENCODE_DEEP_CHILD"

func TestAuditDeepNestingDoesNotCrashDecoder(t *testing.T) {
	if os.Getenv(auditDeepEnv) == "1" {
		// Child: 8 MB of list openers, never closed. A correct decoder returns
		// an error (unexpected EOF or a nesting limit).
		in := bytes.Repeat([]byte{'l'}, 8<<20)
		v, err := Unmarshal(in)
		if err == nil {
			t.Fatalf("unterminated input decoded to a value: %T", v)
		}
		return
	}

	cmd := exec.Command(os.Args[0], "-test.run=^TestAuditDeepNestingDoesNotCrashDecoder$", "-test.timeout=10m")
	cmd.Env = append(os.Environ(), auditDeepEnv+"=1")
	var out bytes.Buffer
	cmd.Stdout = &out
	cmd.Stderr = &out

	done := make(chan error, 1)
	if err := cmd.Start(); err != nil {
		t.Fatalf("cannot start child: %v", err)
	}
	go func() { done <- cmd.Wait() }()

	select {
	case err := <-done:
		if err != nil {
			o := out.String()
			if len(o) > 600 {
				o = o[:600] + "..."
			}
			if strings.Contains(out.String(), "stack overflow") {
				t.Fatalf("decoding 8 MB of nested list openers killed the process with a fatal stack overflow (%v):\n%s", err, o)
			}
			t.Fatalf("child failed: %v\n%s", err, o)
		}
	case <-time.After(10 * time.Minute):
		_ = cmd.Process.Kill()
		t.Fatal("child did not finish")
	}
}
