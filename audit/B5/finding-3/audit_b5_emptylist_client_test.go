package clientapproval

// Audit B5, finding 3 (property C14), client approval half.
//
// Copy into middleware/clientapproval/ and run:
//   go test -run TestAuditB5 -count=1 ./middleware/clientapproval/

import (
	"context"
	"testing"

	"github.com/chihaya/chihaya/bittorrent"
	"github.com/chihaya/chihaya/middleware"
)

func announce(t *testing.T, h middleware.Hook, peerID string) error {
	t.Helper()
	req := &bittorrent.AnnounceRequest{Peer: bittorrent.Peer{ID: bittorrent.PeerIDFromString(peerID)}}
	_, err := h.HandleAnnounce(context.Background(), req, &bittorrent.AnnounceResponse{})
	return err
}

// A whitelist is configured and it is empty: no client ID is on the list, so
// no announce may be accepted (or the configuration is refused at start-up).
func TestAuditB5EmptyWhitelistApprovesNothing(t *testing.T) {
	for name, build := range map[string]func() (middleware.Hook, error){
		"NewHook(Config{Whitelist: []string{}})": func() (middleware.Hook, error) {
			return NewHook(Config{Whitelist: []string{}})
		},
		"driver, options 'whitelist: []'": func() (middleware.Hook, error) {
			return middleware.New(Name, []byte("whitelist: []\n"))
		},
	} {
		t.Run(name, func(t *testing.T) {
			h, err := build()
			if err != nil {
				t.Logf("refused at start-up (fine): %v", err)
				return
			}
			for _, id := range []string{"-AZ2060-000000000000", "M4-4-0--000000000000"} {
				if err := announce(t, h, id); err != ErrClientUnapproved {
					t.Errorf("whitelist configured with no entries: announce of peer %q, whose client ID is not on the list, got %v, want %v", id, err, ErrClientUnapproved)
				}
			}
		})
	}
}

// A configuration that names both lists is refused at start-up, not accepted
// with one of the lists silently ignored.
func TestAuditB5BothListsNamedOneEmpty(t *testing.T) {
	h, err := NewHook(Config{Whitelist: []string{}, Blacklist: []string{"OP1012"}})
	if err != nil {
		return // refused: fine
	}
	if err := announce(t, h, "-AZ2060-000000000000"); err == nil {
		t.Errorf("configuration naming both lists was accepted and the (empty) whitelist silently ignored: a client not on the whitelist is approved")
	}
}
