package torrentapproval

// Audit B5, finding 3 (property C14), torrent approval half.
//
// Copy into middleware/torrentapproval/ and run:
//   go test -run TestAuditB5 -count=1 ./middleware/torrentapproval/

import (
	"context"
	"testing"

	"github.com/chihaya/chihaya/bittorrent"
	"github.com/chihaya/chihaya/middleware"
)

const listed = "3532cf2d327fad8448c075b4cb42c8136964a435"

func announce(t *testing.T, h middleware.Hook, ih string) error {
	t.Helper()
	req := &bittorrent.AnnounceRequest{InfoHash: bittorrent.InfoHashFromString(ih)}
	_, err := h.HandleAnnounce(context.Background(), req, &bittorrent.AnnounceResponse{})
	return err
}

// A whitelist is configured and it is empty: no infohash is on the list, so
// no announce may be accepted (or the configuration is refused at start-up).
func TestAuditB5EmptyWhitelistApprovesNothing(t *testing.T) {
	for name, build := range map[string]func() (middleware.Hook, error){
		"NewHook(Config{Whitelist: []string{}})": func() (middleware.Hook, error) {
			return NewHook(Config{Whitelist: []string{}})
		},
		// What cmd/chihaya hands to the driver for
		//   - name: torrent approval
		//     options:
		//       whitelist: []
		"driver, options 'whitelist: []'": func() (middleware.Hook, error) {
			return middleware.New(Name, []byte("whitelist: []\n"))
		},
	} {
		t.Run(name, func(t *testing.T) {
			h, err := build()
			if err != nil {
				t.Logf("refused at start-up (fine): %v", err)
				return
			}
			for _, ih := range []string{"aaaaaaaaaaaaaaaaaaaa", "\x00\x00\x00\x00\x00\x00\x00\x00\x00\x00\x00\x00\x00\x00\x00\x00\x00\x00\x00\x00"} {
				if err := announce(t, h, ih); err != ErrTorrentUnapproved {
					t.Errorf("whitelist configured with no entries: announce for infohash %x, which is not on the list, got %v, want %v", ih, err, ErrTorrentUnapproved)
				}
			}
		})
	}
}

// A configuration that names both lists is refused at start-up, not accepted
// with one of the lists silently ignored.
func TestAuditB5BothListsNamedOneEmpty(t *testing.T) {
	for name, build := range map[string]func() (middleware.Hook, error){
		"NewHook, empty whitelist + blacklist": func() (middleware.Hook, error) {
			return NewHook(Config{Whitelist: []string{}, Blacklist: []string{listed}})
		},
		"driver, 'whitelist: []' + blacklist": func() (middleware.Hook, error) {
			return middleware.New(Name, []byte("whitelist: []\nblacklist:\n- "+listed+"\n"))
		},
	} {
		t.Run(name, func(t *testing.T) {
			h, err := build()
			if err != nil {
				return // refused: fine
			}
			// Accepted. Then the whitelist was silently ignored: a torrent
			// that is on no whitelist is approved.
			if err := announce(t, h, "aaaaaaaaaaaaaaaaaaaa"); err == nil {
				t.Errorf("configuration naming both lists was accepted and the (empty) whitelist silently ignored: an infohash not on the whitelist is approved")
			}
		})
	}
}
