package middleware_test

// Audit B5, finding 1 (property C12).
//
// Copy into middleware/ and run:
//   go test -run TestAuditB5 -count=1 ./middleware/

import (
	"context"
	"errors"
	"fmt"
	"io/ioutil"
	"net"
	nethttp "net/http"
	"strings"
	"testing"
	"time"

	"github.com/chihaya/chihaya/bittorrent"
	"github.com/chihaya/chihaya/frontend/http"
	"github.com/chihaya/chihaya/middleware"
	"github.com/chihaya/chihaya/storage"
	_ "github.com/chihaya/chihaya/storage/memory"
)

// failingHook accepts nothing: every call fails with the configured error. It
// sets no skip key and does not touch the context.
type failingHook struct {
	err   error
	calls int
}

func (h *failingHook) HandleAnnounce(ctx context.Context, _ *bittorrent.AnnounceRequest, _ *bittorrent.AnnounceResponse) (context.Context, error) {
	h.calls++
	return ctx, h.err
}

func (h *failingHook) HandleScrape(ctx context.Context, _ *bittorrent.ScrapeRequest, _ *bittorrent.ScrapeResponse) (context.Context, error) {
	return ctx, h.err
}

// okHook accepts everything.
type okHook struct{ calls int }

func (h *okHook) HandleAnnounce(ctx context.Context, _ *bittorrent.AnnounceRequest, _ *bittorrent.AnnounceResponse) (context.Context, error) {
	h.calls++
	return ctx, nil
}

func (h *okHook) HandleScrape(ctx context.Context, _ *bittorrent.ScrapeRequest, _ *bittorrent.ScrapeResponse) (context.Context, error) {
	return ctx, nil
}

func newStore(t *testing.T) storage.PeerStore {
	ps, err := storage.NewPeerStore("memory", nil)
	if err != nil {
		t.Fatal(err)
	}
	return ps
}

// Through the logic alone: all pre-hooks accept, the response is filled, one
// post-hook fails (client error or internal error, at any position). No hook
// set a skip key, so the announce has to be applied to the swarm exactly once.
func TestAuditB5FailingPostHookLogicAlone(t *testing.T) {
	for _, tc := range []struct {
		name string
		err  error
	}{
		{"internal error", errors.New("boom")},
		{"client error", bittorrent.ClientError("post-hook says no")},
	} {
		for _, position := range []string{"first", "last"} {
			t.Run(tc.name+"/"+position, func(t *testing.T) {
				ps := newStore(t)
				defer func() { <-ps.Stop() }()

				pre := &okHook{}
				bad := &failingHook{err: tc.err}
				good := &okHook{}
				post := []middleware.Hook{bad, good}
				if position == "last" {
					post = []middleware.Hook{good, bad}
				}
				logic := middleware.NewLogic(middleware.ResponseConfig{AnnounceInterval: time.Minute}, ps, []middleware.Hook{pre}, post)

				req := &bittorrent.AnnounceRequest{
					InfoHash:        bittorrent.InfoHashFromString("aaaaaaaaaaaaaaaaaaaa"),
					Left:            100,
					NumWant:         50,
					NumWantProvided: true,
					Peer: bittorrent.Peer{
						ID:   bittorrent.PeerIDFromString("-AB0001-000000000001"),
						IP:   bittorrent.IP{IP: net.ParseIP("10.0.0.1").To4(), AddressFamily: bittorrent.IPv4},
						Port: 6881,
					},
				}

				ctx, resp, err := logic.HandleAnnounce(context.Background(), req)
				if err != nil {
					t.Fatalf("all pre-hooks accept, yet HandleAnnounce failed: %v", err)
				}
				if pre.calls != 1 || len(resp.IPv4Peers) == 0 {
					t.Fatalf("response was not filled: pre.calls=%d resp=%+v", pre.calls, resp)
				}
				if ctx.Value(middleware.SkipSwarmInteractionKey) != nil || ctx.Value(middleware.SkipResponseHookKey) != nil {
					t.Fatal("test bug: a skip key is set")
				}

				logic.AfterAnnounce(ctx, req, resp)

				if bad.calls != 1 {
					t.Fatalf("failing post-hook ran %d times", bad.calls)
				}
				s := ps.ScrapeSwarm(req.InfoHash, bittorrent.IPv4)
				if s.Incomplete != 1 || s.Complete != 0 {
					t.Errorf("accepted announce (answered successfully, no skip key set) was not applied to the swarm: "+
						"store has complete=%d incomplete=%d, want 0/1", s.Complete, s.Incomplete)
				}
			})
		}
	}
}

// The same through the HTTP frontend: the client gets a successful answer with
// an interval, and the tracker has forgotten it when the frontend has stopped
// (Stop waits for the post-response hooks).
func TestAuditB5FailingPostHookHTTP(t *testing.T) {
	ps := newStore(t)
	defer func() { <-ps.Stop() }()

	bad := &failingHook{err: errors.New("boom")}
	logic := middleware.NewLogic(middleware.ResponseConfig{AnnounceInterval: time.Minute, MinAnnounceInterval: time.Minute}, ps, nil, []middleware.Hook{bad})

	const addr = "127.0.0.1:36917"
	fe, err := http.NewFrontend(logic, http.Config{
		Addr:           addr,
		AnnounceRoutes: []string{"/announce"},
		ScrapeRoutes:   []string{"/scrape"},
		ReadTimeout:    10 * time.Second,
		WriteTimeout:   10 * time.Second,
	})
	if err != nil {
		t.Fatal(err)
	}

	url := fmt.Sprintf("http://%s/announce?info_hash=%s&peer_id=%s&port=6881&uploaded=0&downloaded=0&left=100&compact=1",
		addr, "aaaaaaaaaaaaaaaaaaaa", "-AB0001-000000000001")
	client := &nethttp.Client{Timeout: 20 * time.Second}
	r, err := client.Get(url)
	if err != nil {
		t.Fatal(err)
	}
	body, _ := ioutil.ReadAll(r.Body)
	r.Body.Close()
	if strings.Contains(string(body), "failure reason") || !strings.Contains(string(body), "8:intervali60e") {
		t.Fatalf("expected a successful announce response, got %q", body)
	}

	if errs := fe.Stop().Wait(); len(errs) != 0 {
		t.Fatal(errs)
	}

	if bad.calls != 1 {
		t.Fatalf("failing post-hook ran %d times", bad.calls)
	}
	s := ps.ScrapeSwarm(bittorrent.InfoHashFromString("aaaaaaaaaaaaaaaaaaaa"), bittorrent.IPv4)
	if s.Incomplete != 1 {
		t.Errorf("client got the successful response %q, but the announce was not applied to the swarm: "+
			"complete=%d incomplete=%d, want 0/1", body, s.Complete, s.Incomplete)
	}
}
