package varinterval

// Audit B5, finding 2 (property C18).
//
// Copy into middleware/varinterval/ and run:
//   go test -run TestAuditB5 -count=1 ./middleware/varinterval/

import (
	"context"
	"encoding/binary"
	"math"
	"testing"
	"time"

	"github.com/chihaya/chihaya/bittorrent"
)

// For every accepted configuration and every request the interval handed out is
// the configured one plus d seconds with d == 0 or 1 <= d <= max_increase_delta,
// and min interval gets the same d (modify_min_interval) or stays untouched.
func TestAuditB5IntervalOnlyEverLengthens(t *testing.T) {
	const (
		baseInterval    = 30 * time.Minute
		baseMinInterval = 15 * time.Minute
	)

	for _, maxDelta := range []int{
		60,                // sane, passes
		9223372036,        // largest delta whose seconds still fit a time.Duration, passes
		10000000000,       // 1e10 s: accepted by checkConfig ("int, >0")
		math.MaxInt64 / 2, // accepted by checkConfig
		math.MaxInt64,     // accepted by checkConfig
	} {
		for _, followMin := range []bool{true, false} {
			cfg := Config{ModifyResponseProbability: 1, MaxIncreaseDelta: maxDelta, ModifyMinInterval: followMin}
			h, err := NewHook(cfg)
			if err != nil {
				// Refusing the configuration at start-up would be fine.
				t.Logf("max_increase_delta=%d refused: %v", maxDelta, err)
				continue
			}

			bad := 0
			for i := 0; i < 2000; i++ {
				req := &bittorrent.AnnounceRequest{}
				// Spread the peer IDs over the generator's state space in a
				// reproducible way (the state is derived from these bytes).
				binary.BigEndian.PutUint64(req.InfoHash[0:8], uint64(i)*0x9E3779B97F4A7C15)
				binary.BigEndian.PutUint64(req.Peer.ID[0:8], uint64(i)*0xC2B2AE3D27D4EB4F+1)
				resp := &bittorrent.AnnounceResponse{Interval: baseInterval, MinInterval: baseMinInterval}

				if _, err := h.HandleAnnounce(context.Background(), req, resp); err != nil {
					t.Fatal(err)
				}

				d := resp.Interval - baseInterval
				ok := d%time.Second == 0 && (d == 0 || (d >= time.Second && int64(d/time.Second) <= int64(maxDelta)))
				dMin := resp.MinInterval - baseMinInterval
				if followMin {
					ok = ok && dMin == d
				} else {
					ok = ok && dMin == 0
				}
				if !ok {
					bad++
					if bad <= 3 {
						t.Errorf("max_increase_delta=%d modify_min_interval=%v infohash=%x peer=%x: interval %v -> %v (%d s), min interval %v -> %v (%d s)",
							maxDelta, followMin, req.InfoHash[:8], req.Peer.ID[:8],
							baseInterval, resp.Interval, int64(resp.Interval/time.Second),
							baseMinInterval, resp.MinInterval, int64(resp.MinInterval/time.Second))
					}
				}
			}
			if bad > 0 {
				t.Errorf("max_increase_delta=%d modify_min_interval=%v: %d of 2000 responses have an interval outside [configured, configured+max_increase_delta]", maxDelta, followMin, bad)
			}
		}
	}
}
