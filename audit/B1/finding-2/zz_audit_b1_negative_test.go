package redis

// Audit B1, finding 2 (property C17). Copy into storage/redis/ to run:
//   go test ./storage/redis/ -run TestAuditB1RedisTotalsGoNegative -count=1 -v
//
// The store talks to miniredis through a small TCP relay. The relay only
// delays bytes: it holds back the "INCR IPv4_S_count" command of PutSeeder
// until the test lets it through, which pins one legal schedule of two
// concurrent operations (an announce and a stopped announce of the same peer).
// Nothing fails, nothing is dropped, nothing is reordered on a connection.

import (
	"bytes"
	"fmt"
	"net"
	"testing"
	"time"

	"github.com/alicebob/miniredis"
	redigo "github.com/gomodule/redigo/redis"
	"github.com/prometheus/client_golang/prometheus/testutil"

	"github.com/chihaya/chihaya/bittorrent"
	"github.com/chihaya/chihaya/storage"
)

type auditB1Relay struct {
	ln      net.Listener
	target  string
	held    chan struct{} // signalled when an INCR of the seeder counter is being held
	release chan struct{} // closed to let it through
}

func (r *auditB1Relay) serve() {
	for {
		c, err := r.ln.Accept()
		if err != nil {
			return
		}
		s, err := net.Dial("tcp", r.target)
		if err != nil {
			c.Close()
			continue
		}
		go func() { // server -> client, untouched
			buf := make([]byte, 64<<10)
			for {
				n, err := s.Read(buf)
				if n > 0 {
					_, _ = c.Write(buf[:n])
				}
				if err != nil {
					c.Close()
					return
				}
			}
		}()
		go func() { // client -> server, INCR of the seeder counter is delayed
			buf := make([]byte, 64<<10)
			for {
				n, err := c.Read(buf)
				if n > 0 {
					if bytes.Contains(buf[:n], []byte("INCR\r\n$12\r\nIPv4_S_count\r\n")) {
						select {
						case r.held <- struct{}{}:
						default:
						}
						<-r.release
					}
					_, _ = s.Write(buf[:n])
				}
				if err != nil {
					s.Close()
					return
				}
			}
		}()
	}
}

func TestAuditB1RedisTotalsGoNegative(t *testing.T) {
	rs, err := miniredis.Run()
	if err != nil {
		t.Fatal(err)
	}
	defer rs.Close()

	ln, err := net.Listen("tcp", "127.0.0.1:0")
	if err != nil {
		t.Fatal(err)
	}
	defer ln.Close()
	relay := &auditB1Relay{ln: ln, target: rs.Addr(), held: make(chan struct{}, 1), release: make(chan struct{})}
	go relay.serve()

	psi, err := New(Config{
		RedisBroker:               fmt.Sprintf("redis://@%s/0", ln.Addr().String()),
		GarbageCollectionInterval: time.Hour, PrometheusReportingInterval: time.Hour, PeerLifetime: time.Hour,
		RedisReadTimeout: time.Minute, RedisWriteTimeout: time.Minute, RedisConnectTimeout: time.Minute,
	})
	if err != nil {
		t.Fatal(err)
	}
	ps := psi.(*peerStore)
	defer func() { <-ps.Stop() }()

	ih := bittorrent.InfoHashFromString("00000000000000000001")
	p := bittorrent.Peer{
		ID:   bittorrent.PeerIDFromString("aaaaaaaaaaaaaaaaaaaa"),
		Port: 1000,
		IP:   bittorrent.IP{IP: net.ParseIP("1.2.3.4").To4(), AddressFamily: bittorrent.IPv4},
	}

	// Operation 1: the peer announces as a seeder. Its MULTI/EXEC goes through,
	// its counter update is on the way.
	putDone := make(chan error, 1)
	go func() { putDone <- ps.PutSeeder(ih, p) }()

	select {
	case <-relay.held:
	case err := <-putDone:
		t.Fatalf("PutSeeder returned before its INCR was seen: %v", err)
	case <-time.After(30 * time.Second):
		t.Fatal("PutSeeder never sent its INCR")
	}

	// Operation 2, concurrently: the same peer announces event=stopped.
	if err := ps.DeleteSeeder(ih, p); err != nil {
		t.Fatalf("DeleteSeeder: %v", err)
	}

	// A reader of the totals at this instant:
	direct, err := redigo.Dial("tcp", rs.Addr())
	if err != nil {
		t.Fatal(err)
	}
	defer direct.Close()
	counter, err := redigo.Int64(direct.Do("GET", "IPv4_S_count"))
	if err != nil {
		t.Fatal(err)
	}
	ps.populateProm()
	gauge := testutil.ToFloat64(storage.PromSeedersCount)

	close(relay.release)
	select {
	case err := <-putDone:
		if err != nil {
			t.Fatalf("PutSeeder: %v", err)
		}
	case <-time.After(30 * time.Second):
		t.Fatal("PutSeeder did not finish")
	}
	final, _ := redigo.Int64(direct.Do("GET", "IPv4_S_count"))
	t.Logf("during: IPv4_S_count=%d, chihaya_storage_seeders_count=%v; at the end: IPv4_S_count=%d", counter, gauge, final)

	if counter < 0 || gauge < 0 {
		t.Fatalf("seeder total went negative: IPv4_S_count=%d, exported chihaya_storage_seeders_count=%v", counter, gauge)
	}
}
