package memory

// Audit B1, finding 1 (property C05). Copy into storage/memory/ to run:
//   go test ./storage/memory/ -run TestAuditB1 -count=1 -v

import (
	"net"
	"testing"
	"time"

	"github.com/chihaya/chihaya/bittorrent"
	"github.com/chihaya/chihaya/pkg/timecache"
)

// waitForCachedClockTick returns right after the process-wide cached clock has
// been refreshed, so that the next refresh is about one second away.
func auditB1WaitForTick(t *testing.T) {
	t.Helper()
	c0 := timecache.NowUnixNano()
	deadline := time.Now().Add(10 * time.Second)
	for timecache.NowUnixNano() == c0 {
		if time.Now().After(deadline) {
			t.Fatal("the cached clock never ticked")
		}
		time.Sleep(time.Millisecond)
	}
}

func auditB1Peer(id string, port uint16) bittorrent.Peer {
	return bittorrent.Peer{
		ID:   bittorrent.PeerIDFromString(id),
		Port: port,
		IP:   bittorrent.IP{IP: net.ParseIP("1.2.3.4").To4(), AddressFamily: bittorrent.IPv4},
	}
}

// An expiry pass with cutoff T must remove "no membership announced after T".
func TestAuditB1ExpiryPassRemovesPeersAnnouncedAfterCutoff(t *testing.T) {
	psi, err := New(Config{ShardCount: 4, GarbageCollectionInterval: time.Hour, PrometheusReportingInterval: time.Hour, PeerLifetime: time.Hour})
	if err != nil {
		t.Fatal(err)
	}
	ps := psi.(*peerStore)
	defer func() { <-ps.Stop() }()

	ih := bittorrent.InfoHashFromString("00000000000000000001")

	auditB1WaitForTick(t)
	time.Sleep(300 * time.Millisecond) // next refresh of the cached clock is ~700ms away

	cutoff := time.Now()
	time.Sleep(10 * time.Millisecond)

	// Both announces happen strictly after the cutoff.
	if err := ps.PutLeecher(ih, auditB1Peer("aaaaaaaaaaaaaaaaaaaa", 1000)); err != nil {
		t.Fatal(err)
	}
	if err := ps.PutSeeder(ih, auditB1Peer("bbbbbbbbbbbbbbbbbbbb", 1001)); err != nil {
		t.Fatal(err)
	}
	if !time.Now().After(cutoff) {
		t.Fatal("clock did not advance")
	}

	if err := ps.collectGarbage(cutoff); err != nil {
		t.Fatal(err)
	}

	s := ps.ScrapeSwarm(ih, bittorrent.IPv4)
	if s.Complete != 1 || s.Incomplete != 1 {
		t.Fatalf("expiry pass with cutoff %v removed peers announced after it: swarm is now %d seeders / %d leechers, want 1/1",
			cutoff, s.Complete, s.Incomplete)
	}
}

// The same through the background loop (cutoff = time.Now() - peer_lifetime):
// a peer must stay listed for peer_lifetime after its last announce.
func TestAuditB1BackgroundLoopCutsLifetimeShort(t *testing.T) {
	const lifetime = 2 * time.Second
	psi, err := New(Config{ShardCount: 4, GarbageCollectionInterval: 20 * time.Millisecond, PrometheusReportingInterval: time.Hour, PeerLifetime: lifetime})
	if err != nil {
		t.Fatal(err)
	}
	ps := psi.(*peerStore)
	defer func() { <-ps.Stop() }()

	ih := bittorrent.InfoHashFromString("00000000000000000002")

	auditB1WaitForTick(t)
	time.Sleep(850 * time.Millisecond) // cached clock is now ~850ms behind

	announced := time.Now()
	if err := ps.PutSeeder(ih, auditB1Peer("cccccccccccccccccccc", 1002)); err != nil {
		t.Fatal(err)
	}

	deadline := announced.Add(10 * time.Second)
	for ps.ScrapeSwarm(ih, bittorrent.IPv4).Complete == 1 {
		if time.Now().After(deadline) {
			t.Fatal("peer never expired")
		}
		time.Sleep(5 * time.Millisecond)
	}
	if lived := time.Since(announced); lived < lifetime {
		t.Fatalf("peer_lifetime is %v, but the peer was expired %v after its announce", lifetime, lived)
	}
}
