package jwt

import (
	"context"
	"crypto/rand"
	"crypto/rsa"
	"encoding/base64"
	"fmt"
	"math/big"
	"net/http"
	"net/http/httptest"
	"sync"
	"testing"
	"time"

	jc "github.com/SermoDigital/jose/crypto"

	"github.com/chihaya/chihaya/bittorrent"
)

func e2b64(b []byte) string { return base64.RawURLEncoding.EncodeToString(b) }

func e2jwk(kid string, k *rsa.PublicKey) string {
	return fmt.Sprintf(`{"kty":"RSA","kid":%q,"n":%q,"e":%q}`, kid, e2b64(k.N.Bytes()), e2b64(big.NewInt(int64(k.E)).Bytes()))
}

func e2token(t *testing.T, key *rsa.PrivateKey, kid, payload string) string {
	hdr := fmt.Sprintf(`{"alg":"RS256","typ":"JWT","kid":%q}`, kid)
	in := e2b64([]byte(hdr)) + "." + e2b64([]byte(payload))
	sig, err := jc.SigningMethodRS256.Sign([]byte(in), key)
	if err != nil {
		t.Fatal(err)
	}
	return in + "." + e2b64(sig)
}

// C15: a token is admitted iff it verifies under a key CURRENTLY published in
// the JWK set; refreshes take effect for later announces.
//
// Fix 27cfd71 (and 6ff76ec for null) made one unusable entry of the set no
// longer block the refresh - but only for entries that json.Decode accepts.
// An entry that is not an object, or one of whose members has another JSON
// type than gojwk.Key expects ("n": 5, "kid": 7, a bare 5 in the array), makes
// json.Decode return an *json.UnmarshalTypeError, updateKeys gives up, and the
// whole refresh is lost: the withdrawn key k1 stays accepted, the new key k2 is
// never accepted.
func TestReviewE2MistypedJWKEntryBlocksRefresh(t *testing.T) {
	k1, _ := rsa.GenerateKey(rand.Reader, 2048)
	k2, _ := rsa.GenerateKey(rand.Reader, 2048)

	var mu sync.Mutex
	body := `{"keys":[` + e2jwk("k1", &k1.PublicKey) + `]}`
	srv := httptest.NewServer(http.HandlerFunc(func(w http.ResponseWriter, r *http.Request) {
		mu.Lock()
		defer mu.Unlock()
		_, _ = w.Write([]byte(body))
	}))
	defer srv.Close()

	hk, err := NewHook(Config{Issuer: "iss", Audience: "aud", JWKSetURL: srv.URL, JWKUpdateInterval: time.Hour})
	if err != nil {
		t.Fatal(err)
	}
	h := hk.(*hook)
	defer func() { <-h.Stop() }()

	ih := bittorrent.InfoHashFromString("aaaaaaaaaaaaaaaaaaaa")
	payload := fmt.Sprintf(`{"iss":"iss","aud":"aud","infohash":"%x","exp":%d}`, ih[:], time.Now().Unix()+3600)
	admitted := func(key *rsa.PrivateKey, kid string) bool {
		qp, err := bittorrent.ParseURLData("/announce?jwt=" + e2token(t, key, kid, payload))
		if err != nil {
			t.Fatal(err)
		}
		_, err = h.HandleAnnounce(context.Background(), &bittorrent.AnnounceRequest{InfoHash: ih, Params: qp}, &bittorrent.AnnounceResponse{})
		return err == nil
	}

	if !admitted(k1, "k1") || admitted(k2, "k2") {
		t.Fatal("set-up: k1 must be admitted and k2 not, before the rotation")
	}

	for _, bad := range []string{
		`{"kty":"RSA","kid":"other","n":5,"e":"AQAB"}`, // a member of the wrong JSON type
		`5`, // an entry that is not an object (compare null, fix 6ff76ec)
	} {
		// The issuer rotates: k1 is withdrawn, k2 published, next to an entry
		// this hook cannot use.
		mu.Lock()
		body = `{"keys":[` + e2jwk("k2", &k2.PublicKey) + `,` + bad + `]}`
		mu.Unlock()
		_ = h.updateKeys() // what the refresh goroutine does every jwk_set_update_interval

		if admitted(k1, "k1") {
			t.Errorf("entry %s: a token signed with the withdrawn key k1 is still admitted after the refresh", bad)
		}
		if !admitted(k2, "k2") {
			t.Errorf("entry %s: a token signed with the published key k2 is refused after the refresh", bad)
		}

		// back to the initial set for the next case
		mu.Lock()
		body = `{"keys":[` + e2jwk("k1", &k1.PublicKey) + `]}`
		mu.Unlock()
		if err := h.updateKeys(); err != nil {
			t.Fatal(err)
		}
	}
}
