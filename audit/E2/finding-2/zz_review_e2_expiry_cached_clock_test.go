package memory

import (
	"net"
	"testing"
	"time"

	"github.com/chihaya/chihaya/bittorrent"
	"github.com/chihaya/chihaya/pkg/timecache"
)

// waitForClockRefresh returns right after the cached clock has been refreshed.
func e2WaitForClockRefresh() {
	c := timecache.NowUnixNano()
	for timecache.NowUnixNano() == c {
		time.Sleep(time.Millisecond)
	}
}

// C05: an expiry pass never removes a membership whose lifetime has not passed.
//
// Fix 32d6530 says: "A peer that announced late in a refresh period was
// removed up to one period before its lifetime had passed. Both loops now use
// timecache.Now()." That peer is still removed early: its stamp is the cached
// clock, i.e. the START of the refresh period it announced in, so it is up to
// one period older than the announce - whichever clock the cutoff comes from.
// Measuring the age on the cached clock only helps when the pass itself runs
// late in a period; a pass that runs right after a refresh (cached clock ==
// wall clock) removes the peer exactly as before the fix.
func TestReviewE2PeerAnnouncedLateInRefreshPeriodExpiresEarly(t *testing.T) {
	const lifetime = 1500 * time.Millisecond

	s, err := New(Config{ShardCount: 1, GarbageCollectionInterval: time.Hour, PrometheusReportingInterval: time.Hour, PeerLifetime: lifetime})
	if err != nil {
		t.Fatal(err)
	}
	ps := s.(*peerStore)
	defer func() { <-ps.Stop() }()

	ih := bittorrent.InfoHashFromString("aaaaaaaaaaaaaaaaaaaa")
	p := bittorrent.Peer{ID: bittorrent.PeerIDFromString("-XX0001-aaaaaaaaaaaa"), Port: 6881,
		IP: bittorrent.IP{IP: net.ParseIP("10.0.0.1").To4(), AddressFamily: bittorrent.IPv4}}

	// The peer announces late in a refresh period of the cached clock ...
	e2WaitForClockRefresh()
	time.Sleep(900 * time.Millisecond)
	if err := ps.PutSeeder(ih, p); err != nil {
		t.Fatal(err)
	}
	announced := time.Now()

	// ... and an expiry pass runs right after a refresh, 1.1 s later.
	e2WaitForClockRefresh()
	e2WaitForClockRefresh()
	// exactly what the expiry loop of New does since 32d6530 (peer_store.go:145)
	before := timecache.Now().Add(-lifetime)
	if err := ps.collectGarbage(before); err != nil {
		t.Fatal(err)
	}
	age := time.Since(announced)
	if age >= lifetime {
		t.Skipf("inconclusive: the machine was too slow, the peer really is %v old", age)
	}

	if got := ps.ScrapeSwarm(ih, bittorrent.IPv4).Complete; got != 1 {
		t.Fatalf("the seeder announced %v ago, its lifetime is %v, yet the expiry pass removed it (complete=%d)", age, lifetime, got)
	}
}
