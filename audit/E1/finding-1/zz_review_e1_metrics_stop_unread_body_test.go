package metrics

import (
	"fmt"
	"net"
	"testing"
	"time"
)

// C16: "Stopping a frontend, the middleware or a stop group always terminates".
//
// Fix 15c31e0 bounds the metrics server's Stop by closing the remaining
// connections after five seconds and then waiting for their handlers "to
// notice". A handler only notices when net/http's background read sees the
// closed connection and cancels the request context - and that read is started
// only once the request body has been consumed. A client that combines the two
// cases of the commit message (announces a body it never sends AND asks for a
// long profile) keeps the handler asleep in pprof's sleep() with a context
// nobody cancels: Stop waits for as long as the client asked (seconds=N, N is
// the client's choice).
func TestReviewE1MetricsStopUnreadBodyLongProfile(t *testing.T) {
	l, err := net.Listen("tcp", "127.0.0.1:0")
	if err != nil {
		t.Fatal(err)
	}
	addr := l.Addr().String()
	l.Close()

	s := NewServer(addr)

	var conn net.Conn
	for i := 0; i < 100; i++ {
		conn, err = net.Dial("tcp", addr)
		if err == nil {
			break
		}
		time.Sleep(10 * time.Millisecond)
	}
	if err != nil {
		t.Fatal(err)
	}
	defer conn.Close()

	// 25 s of profile: long enough to outlast the deadline below, short
	// enough for the handler to go away by itself soon after the test.
	const profileSeconds = 25
	fmt.Fprintf(conn, "GET /debug/pprof/profile?seconds=%d HTTP/1.1\r\nHost: x\r\nContent-Length: 10\r\n\r\n", profileSeconds)

	// Wait until the handler is running.
	deadline := time.Now().Add(3 * time.Second)
	for {
		s.mu.Lock()
		n := s.active
		s.mu.Unlock()
		if n > 0 {
			break
		}
		if time.Now().After(deadline) {
			t.Fatal("handler did not start")
		}
		time.Sleep(5 * time.Millisecond)
	}

	start := time.Now()
	res := s.Stop()
	done := make(chan []error, 1)
	go func() { done <- res.Wait() }()

	// shutdownTimeout (5 s) plus generous slack for the handlers to notice.
	limit := shutdownTimeout + 7*time.Second
	select {
	case errs := <-done:
		t.Logf("Stop completed after %v, errs=%v", time.Since(start), errs)
	case <-time.After(limit):
		s.mu.Lock()
		n := s.active
		s.mu.Unlock()
		t.Fatalf("metrics Stop has not completed %v after it began (shutdownTimeout is %v): %d handler(s) still running; "+
			"the client chose how long Stop takes (seconds=%d)", limit, shutdownTimeout, n, profileSeconds)
	}
}
