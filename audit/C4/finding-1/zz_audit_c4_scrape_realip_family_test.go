package http

// Audit C4, finding 1 (property C03).
//
// With real_ip_header configured (the shipped example configuration sets it),
// an HTTP announce takes the client's address - and with it the address family
// of the swarm the peer joins - from that header, but an HTTP scrape takes the
// address family from the TCP connection (the reverse proxy). Behind an IPv4
// reverse proxy a peer announced from an IPv6 address is therefore never
// counted in the scrape of a client with an IPv6 address, and a peer announced
// from an IPv4 address IS counted in the scrape of a client with an IPv6
// address.
//
// Copy into frontend/http/ and run:
//   go test -vet=off -count=1 -run TestZZAuditC4ScrapeFamilyIgnoresRealIPHeader ./frontend/http/

import (
	"net/http"
	"net/http/httptest"
	"net/url"
	"strings"
	"testing"
	"time"

	"github.com/chihaya/chihaya/middleware"
	"github.com/chihaya/chihaya/storage/memory"
)

func zzC4Get(t *testing.T, h func(http.ResponseWriter, *http.Request), uri, remoteAddr, realIP string) string {
	t.Helper()
	r := httptest.NewRequest("GET", uri, nil)
	r.RequestURI = uri
	r.RemoteAddr = remoteAddr
	if realIP != "" {
		r.Header.Set("X-Real-IP", realIP)
	}
	w := httptest.NewRecorder()
	h(w, r)
	return w.Body.String()
}

func TestZZAuditC4ScrapeFamilyIgnoresRealIPHeader(t *testing.T) {
	ps, err := memory.New(memory.Config{
		ShardCount:                  1,
		GarbageCollectionInterval:   time.Hour,
		PrometheusReportingInterval: time.Hour,
		PeerLifetime:                time.Hour,
	})
	if err != nil {
		t.Fatal(err)
	}
	defer func() { <-ps.Stop() }()

	logic := middleware.NewLogic(middleware.ResponseConfig{AnnounceInterval: time.Minute}, ps, nil, nil)
	f := &Frontend{
		logic: logic,
		Config: Config{ParseOptions: ParseOptions{
			RealIPHeader:        "X-Real-IP", // as in dist/example_config.yaml
			MaxNumWant:          100,
			DefaultNumWant:      50,
			MaxScrapeInfoHashes: 50,
		}},
	}
	announce := func(w http.ResponseWriter, r *http.Request) { f.announceRoute(w, r, nil) }
	scrape := func(w http.ResponseWriter, r *http.Request) { f.scrapeRoute(w, r, nil) }

	const proxy = "127.0.0.1:40000" // every request reaches the tracker from the IPv4 reverse proxy
	ih := "AAAAAAAAAAAAAAAAAAAA"
	q := func(peerID string, left string) string {
		v := url.Values{}
		v.Set("info_hash", ih)
		v.Set("peer_id", peerID)
		v.Set("port", "6881")
		v.Set("uploaded", "0")
		v.Set("downloaded", "0")
		v.Set("left", left)
		v.Set("compact", "1")
		return "/announce?" + v.Encode()
	}

	// Two seeders announce from IPv6 addresses, one leecher from an IPv4 address.
	for _, a := range []struct{ id, left, ip string }{
		{"6666666666666666666a", "0", "2001:db8::a"},
		{"6666666666666666666b", "0", "2001:db8::b"},
		{"44444444444444444444", "7", "10.0.0.4"},
	} {
		if body := zzC4Get(t, announce, q(a.id, a.left), proxy, a.ip); strings.Contains(body, "failure") {
			t.Fatalf("announce failed: %s", body)
		}
	}
	f.wg.Wait() // the announces have been applied to the swarms

	// Sanity: the announces did go to the swarm of the header's family.
	body := zzC4Get(t, announce, q("6666666666666666666c", "1"), proxy, "2001:db8::c")
	if !strings.Contains(body, "8:completei2e") || !strings.Contains(body, "6:peers636:") {
		t.Fatalf("an IPv6 announcer should see the two IPv6 seeders in peers6: %q", body)
	}
	f.wg.Wait()

	// A client with an IPv6 address scrapes through the same proxy.
	scrapeURI := "/scrape?" + url.Values{"info_hash": {ih}}.Encode()
	got := zzC4Get(t, scrape, scrapeURI, proxy, "2001:db8::c")

	// IPv6 swarm at this point: 2 seeders (a, b), 1 leecher (c).
	// IPv4 swarm: 0 seeders, 1 leecher.
	wantV6 := "d5:filesd20:" + ih + "d8:completei2e10:incompletei1eeee"
	gaveV4 := "d5:filesd20:" + ih + "d8:completei0e10:incompletei1eeee"
	if got == gaveV4 {
		t.Errorf("scrape by the client at 2001:db8::c counted the peer announced from 10.0.0.4 "+
			"and none of the peers announced from IPv6 addresses: %q", got)
	}
	if got != wantV6 {
		t.Fatalf("scrape by an IPv6 client: got %q, want the IPv6 swarm %q", got, wantV6)
	}
}
