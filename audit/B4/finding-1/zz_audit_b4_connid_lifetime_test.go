package udp_test

import (
	"net"
	"testing"
	"time"

	"github.com/chihaya/chihaya/frontend/udp"
)

// C10: "Every ID the tracker issues in a connect response is accepted from
// that IP throughout its lifetime" / "issued ... no longer ago than the
// two-minute lifetime".
//
// Generate stores only the whole second of the issuing clock, Validate
// compares the full-precision clock with that truncated second plus 120 s.
// The frontend feeds both from timecache.Now(), whose sub-second part is the
// (arbitrary, constant) sub-second part of the process start time. So an ID
// is refused although it was issued no longer than two minutes ago.
func TestAuditB4ConnectionIDLifetimeTruncated(t *testing.T) {
	const key = "some key"
	ip := net.IPv4(192, 0, 2, 7).To4()
	skew := 10 * time.Second

	for _, frac := range []time.Duration{0, 1, 500 * time.Millisecond, 900 * time.Millisecond} {
		issued := time.Unix(1700000000, 0).Add(frac)
		id := append([]byte{}, udp.NewConnectionID(ip, issued, key)...)

		for _, age := range []time.Duration{
			0,
			119 * time.Second,
			119*time.Second + 600*time.Millisecond,
			120 * time.Second, // the last instant of the two-minute lifetime
		} {
			now := issued.Add(age)
			if !udp.ValidConnectionID(id, ip, now, skew, key) {
				t.Errorf("ID issued at %s (sub-second part %v) refused at age %v, which is within the two-minute lifetime",
					issued.UTC().Format(time.RFC3339Nano), frac, age)
			}
		}

		// Sanity: clearly expired IDs are refused (not part of the defect).
		if udp.ValidConnectionID(id, ip, issued.Add(121*time.Second), skew, key) {
			t.Errorf("ID accepted at age 121s")
		}
	}
}
