package udp_test

import (
	"runtime"
	"strings"
	"testing"
	"time"

	"github.com/chihaya/chihaya/frontend/udp"
	"github.com/chihaya/chihaya/middleware"
	"github.com/chihaya/chihaya/storage"
	_ "github.com/chihaya/chihaya/storage/memory"
)

// serveGoroutineAlive reports whether a goroutine of the UDP frontend (the
// serving goroutine started by NewFrontend) shows up in a dump of all
// goroutines, and returns its stack.
func serveGoroutineAlive() (string, bool) {
	buf := make([]byte, 1<<20)
	buf = buf[:runtime.Stack(buf, true)]
	for _, g := range strings.Split(string(buf), "\n\n") {
		if strings.Contains(g, "frontend/udp.NewFrontend.func") ||
			strings.Contains(g, "frontend/udp.(*Frontend).serve") {
			return g, true
		}
	}
	return "", false
}

// Stop is called right after NewFrontend returned, as Run.Stop does when a
// shutdown or reload signal arrives during start-up. When Stop().Wait() has
// returned, the frontend's serving goroutine must have exited.
//
// The serving goroutine registers itself with the wait group (t.wg.Add(1))
// only after it has been scheduled, so Stop's t.wg.Wait() can run before it
// and return at once.
func TestStopLeavesServeGoroutineRunning(t *testing.T) {
	ps, err := storage.NewPeerStore("memory", nil)
	if err != nil {
		t.Fatal(err)
	}
	defer func() { <-ps.Stop() }()
	lgc := middleware.NewLogic(middleware.ResponseConfig{}, ps, nil, nil)

	// A single P makes the schedule repeatable: the goroutine spawned last
	// (Stop's) runs before the one spawned first (serve). The defect does not
	// depend on it, see TestStartStopWaitGroupRace in zz_startstop_wgrace_test.go (built with -race only).
	defer runtime.GOMAXPROCS(runtime.GOMAXPROCS(1))

	deadline := time.Now().Add(60 * time.Second)
	for i := 0; i < 2000 && time.Now().Before(deadline); i++ {
		fe, err := udp.NewFrontend(lgc, udp.Config{Addr: "127.0.0.1:0", PrivateKey: "k"})
		if err != nil {
			t.Fatal(err)
		}
		if errs := fe.Stop().Wait(); len(errs) != 0 {
			t.Fatal(errs[0])
		}
		if g, alive := serveGoroutineAlive(); alive {
			t.Fatalf("iteration %d: Stop().Wait() returned, but the frontend's serving goroutine is still there:\n%s", i, g)
		}
	}
}
