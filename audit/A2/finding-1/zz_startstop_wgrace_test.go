//go:build race

package udp_test

import (
	"testing"

	"github.com/chihaya/chihaya/frontend/udp"
	"github.com/chihaya/chihaya/middleware"
	"github.com/chihaya/chihaya/storage"
	_ "github.com/chihaya/chihaya/storage/memory"
)

// The same start/stop sequence on all Ps. Run with -race: the first
// t.wg.Add(1) of the serving goroutine is not ordered before Stop's
// t.wg.Wait(), which the race detector reports as a data race on the wait
// group (sync.WaitGroup: "calls with a positive delta that occur when the
// counter is zero must happen before a Wait").
func TestStartStopWaitGroupRace(t *testing.T) {
	ps, err := storage.NewPeerStore("memory", nil)
	if err != nil {
		t.Fatal(err)
	}
	defer func() { <-ps.Stop() }()
	lgc := middleware.NewLogic(middleware.ResponseConfig{}, ps, nil, nil)

	for i := 0; i < 1000; i++ {
		fe, err := udp.NewFrontend(lgc, udp.Config{Addr: "127.0.0.1:0", PrivateKey: "k"})
		if err != nil {
			t.Fatal(err)
		}
		if errs := fe.Stop().Wait(); len(errs) != 0 {
			t.Fatal(errs[0])
		}
	}
}
