package main

import (
	"fmt"
	"io"
	"io/ioutil"
	"net"
	"os"
	"path/filepath"
	"runtime/pprof"
	"testing"
	"time"
)

func zzFreePort(t *testing.T) int {
	l, err := net.Listen("tcp", "127.0.0.1:0")
	if err != nil {
		t.Fatal(err)
	}
	defer l.Close()
	return l.Addr().(*net.TCPAddr).Port
}

// One GET on the metrics port (/debug/pprof/profile?seconds=N, which an
// operator's "go tool pprof" sends routinely) keeps Run.Stop from completing
// for N seconds: the metrics server's Stop is an unbounded graceful Shutdown
// and the server has no write timeout, so pprof accepts any N. The tracker
// frontends are members of the same stop group and are shut down at once, so
// for all that time the tracker answers nobody, and a reload does not come
// back.
func TestReloadBlockedByMetricsRequestInFlight(t *testing.T) {
	dir, err := ioutil.TempDir("", "zz-metrics")
	if err != nil {
		t.Fatal(err)
	}
	defer os.RemoveAll(dir)

	httpPort, metricsPort := zzFreePort(t), zzFreePort(t)
	cfg := fmt.Sprintf(`
chihaya:
  announce_interval: 30m
  min_announce_interval: 15m
  metrics_addr: "127.0.0.1:%d"
  http:
    addr: "127.0.0.1:%d"
    announce_routes: ["/announce"]
    scrape_routes: ["/scrape"]
    max_numwant: 100
    default_numwant: 50
    max_scrape_infohashes: 50
    read_timeout: 5s
    write_timeout: 5s
  storage:
    name: memory
    config:
      gc_interval: 3m
      peer_lifetime: 31m
      shard_count: 16
      prometheus_reporting_interval: 1s
`, metricsPort, httpPort)
	path := filepath.Join(dir, "cfg.yaml")
	if err := ioutil.WriteFile(path, []byte(cfg), 0o644); err != nil {
		t.Fatal(err)
	}

	r, err := NewRun(path)
	if err != nil {
		t.Fatal(err)
	}

	// The metrics server binds asynchronously: wait for it.
	var conn net.Conn
	for i := 0; ; i++ {
		conn, err = net.Dial("tcp", fmt.Sprintf("127.0.0.1:%d", metricsPort))
		if err == nil {
			break
		}
		if i > 500 {
			t.Fatal("metrics server did not come up: ", err)
		}
		time.Sleep(20 * time.Millisecond)
	}
	// Closing the connection ends the profile (the handler watches the request
	// context), which lets everything wind down at the end of the test.
	defer conn.Close()

	// A one-hour CPU profile, as "go tool pprof -seconds 3600 http://.../debug/pprof/profile" asks for.
	fmt.Fprintf(conn, "GET /debug/pprof/profile?seconds=3600 HTTP/1.1\r\nHost: x\r\n\r\n")

	// Wait until the handler is really running: CPU profiling is then in use.
	for i := 0; ; i++ {
		if err := pprof.StartCPUProfile(io.Discard); err != nil {
			break
		}
		pprof.StopCPUProfile()
		if i > 1000 {
			t.Fatal("the profile request did not start")
		}
		time.Sleep(10 * time.Millisecond)
	}

	// Reload, as RootRunCmdFunc does on SIGUSR1.
	reloaded := make(chan error, 1)
	go func() {
		ps, err := r.Stop(true)
		if err != nil {
			reloaded <- err
			return
		}
		reloaded <- r.Start(ps)
	}()

	select {
	case err := <-reloaded:
		if err != nil {
			t.Fatal(err)
		}
		// Expected behaviour: the reload completes; stop the new instance.
		conn.Close()
		if _, err := r.Stop(false); err != nil {
			t.Fatal(err)
		}
	case <-time.After(20 * time.Second):
		// Meanwhile the tracker itself is gone.
		_, dialErr := net.DialTimeout("tcp", fmt.Sprintf("127.0.0.1:%d", httpPort), 2*time.Second)
		t.Errorf("Run.Stop has not completed 20s after the reload began, held up by one request on the metrics port; "+
			"dialing the tracker's HTTP port meanwhile: %v", dialErr)

		// Let it finish so that the test leaves nothing behind.
		conn.Close()
		select {
		case <-reloaded:
			_, _ = r.Stop(false)
		case <-time.After(20 * time.Second):
			t.Error("still not stopped after the client went away")
		}
	}
}
