package redis

import (
	"bytes"
	"fmt"
	"io"
	"net"
	"sync/atomic"
	"testing"
	"time"

	"github.com/alicebob/miniredis"

	"github.com/chihaya/chihaya/bittorrent"
)

// zzProxy forwards TCP connections to a Redis server. While armed, it resets a
// connection at the moment the client sends an INCR/DECR/DECRBY on it, i.e.
// between the EXEC round-trip of a store operation (already answered) and the
// counter round-trip that follows it. This is what a Redis fail-over, a
// load-balancer idle reset or a read timeout looks like to the store.
type zzProxy struct {
	l       net.Listener
	backend string
	armed   int32
}

func newZZProxy(t *testing.T, backend string) *zzProxy {
	l, err := net.Listen("tcp", "127.0.0.1:0")
	if err != nil {
		t.Fatal(err)
	}
	p := &zzProxy{l: l, backend: backend}
	go func() {
		for {
			c, err := l.Accept()
			if err != nil {
				return
			}
			go p.serve(c)
		}
	}()
	return p
}

func (p *zzProxy) serve(c net.Conn) {
	defer c.Close()
	b, err := net.Dial("tcp", p.backend)
	if err != nil {
		return
	}
	defer b.Close()
	go func() { _, _ = io.Copy(c, b); c.Close() }()
	buf := make([]byte, 64*1024)
	for {
		n, err := c.Read(buf)
		if err != nil {
			return
		}
		chunk := buf[:n]
		if atomic.LoadInt32(&p.armed) == 1 &&
			(bytes.Contains(chunk, []byte("\r\nINCR\r\n")) || bytes.Contains(chunk, []byte("\r\nDECR\r\n")) || bytes.Contains(chunk, []byte("\r\nDECRBY\r\n"))) {
			return // connection lost; the command never reaches Redis
		}
		if _, err := b.Write(chunk); err != nil {
			return
		}
	}
}

func TestCountersDriftForeverAfterConnectionLossBetweenRoundTrips(t *testing.T) {
	rs, err := miniredis.Run()
	if err != nil {
		t.Fatal(err)
	}
	defer rs.Close()
	proxy := newZZProxy(t, rs.Addr())
	defer proxy.l.Close()

	psi, err := New(Config{
		GarbageCollectionInterval:   10 * time.Minute,
		PrometheusReportingInterval: 10 * time.Minute,
		PeerLifetime:                30 * time.Minute,
		RedisBroker:                 fmt.Sprintf("redis://@%s/0", proxy.l.Addr()),
		RedisReadTimeout:            5 * time.Second,
		RedisWriteTimeout:           5 * time.Second,
		RedisConnectTimeout:         5 * time.Second,
	})
	if err != nil {
		t.Fatal(err)
	}
	ps := psi.(*peerStore)
	defer func() { <-ps.Stop() }()

	ih := bittorrent.InfoHashFromString("00000000000000000001")
	peer := bittorrent.Peer{
		ID:   bittorrent.PeerIDFromString("00000000000000000001"),
		IP:   bittorrent.IP{IP: net.ParseIP("1.2.3.4").To4(), AddressFamily: bittorrent.IPv4},
		Port: 6881,
	}

	counter := func(key string) string {
		v, err := rs.Get(key)
		if err != nil {
			return "0" // not set
		}
		return v
	}

	// 1. The announce during which the connection is lost.
	atomic.StoreInt32(&proxy.armed, 1)
	err = ps.PutSeeder(ih, peer)
	atomic.StoreInt32(&proxy.armed, 0)
	t.Logf("PutSeeder during the connection loss: %v", err)

	// The membership change did take effect ...
	if got := ps.ScrapeSwarm(ih, bittorrent.IPv4).Complete; got != 1 {
		t.Fatalf("test setup: expected the peer to be stored as seeder, complete=%d", got)
	}

	// 2. ... the client announces again (as it does every interval, and at once
	// if it was told about an error): nothing repairs the totals.
	if err := ps.PutSeeder(ih, peer); err != nil {
		t.Fatal(err)
	}
	if s, n := counter("IPv4_S_count"), counter("IPv4_infohash_count"); s != "1" || n != "1" {
		t.Errorf("one seeder in one swarm is stored, but the totals say seeders=%s infohashes=%s", s, n)
	}

	// 3. The peer leaves, and an expiry pass cleans up the empty swarm: the store
	// is empty, the totals must be zero.
	if err := ps.DeleteSeeder(ih, peer); err != nil {
		t.Fatal(err)
	}
	if err := ps.collectGarbage(time.Now().Add(time.Hour)); err != nil {
		t.Fatal(err)
	}
	if got := ps.ScrapeSwarm(ih, bittorrent.IPv4).Complete; got != 0 {
		t.Fatalf("complete=%d after the peer left", got)
	}
	if s, n := counter("IPv4_S_count"), counter("IPv4_infohash_count"); s != "0" || n != "0" {
		t.Errorf("the store is empty, but the totals say seeders=%s infohashes=%s (reported as such to Prometheus)", s, n)
	}
}
