package udp

// Audit finding 2 (property C07, also C13): the UDP frontend reads every
// datagram into a fixed 2048-byte buffer and never notices that the kernel cut
// a longer datagram short. The first 2048 bytes of an oversized announce are
// then parsed as if they were the whole packet: the BEP 41 option list simply
// "ends" at byte 2048 and the URL data carried by the options behind that point
// is silently dropped. The truncated packet is not rejected, it is partially
// interpreted and handed to the tracker logic.
//
// Copy into frontend/udp/ and run:
//   go test ./frontend/udp/ -run TestAuditUDPOversizedDatagramIsPartiallyInterpreted -count=1

import (
	"bytes"
	"context"
	"encoding/binary"
	"net"
	"sync"
	"testing"
	"time"

	"github.com/chihaya/chihaya/bittorrent"
)

type auditSpyLogic struct {
	mu        sync.Mutex
	announces []*bittorrent.AnnounceRequest
}

func (s *auditSpyLogic) HandleAnnounce(ctx context.Context, req *bittorrent.AnnounceRequest) (context.Context, *bittorrent.AnnounceResponse, error) {
	s.mu.Lock()
	s.announces = append(s.announces, req)
	s.mu.Unlock()
	return ctx, &bittorrent.AnnounceResponse{Interval: 30 * time.Minute}, nil
}

func (s *auditSpyLogic) AfterAnnounce(context.Context, *bittorrent.AnnounceRequest, *bittorrent.AnnounceResponse) {
}

func (s *auditSpyLogic) HandleScrape(ctx context.Context, _ *bittorrent.ScrapeRequest) (context.Context, *bittorrent.ScrapeResponse, error) {
	return ctx, &bittorrent.ScrapeResponse{}, nil
}

func (s *auditSpyLogic) AfterScrape(context.Context, *bittorrent.ScrapeRequest, *bittorrent.ScrapeResponse) {
}

func TestAuditUDPOversizedDatagramIsPartiallyInterpreted(t *testing.T) {
	spy := &auditSpyLogic{}
	f, err := NewFrontend(spy, Config{
		Addr:         "127.0.0.1:0",
		PrivateKey:   "audit key",
		MaxClockSkew: 10 * time.Second,
	})
	if err != nil {
		t.Fatal(err)
	}
	defer func() { <-f.Stop() }()

	c, err := net.DialUDP("udp", nil, f.socket.LocalAddr().(*net.UDPAddr))
	if err != nil {
		t.Fatal(err)
	}
	defer c.Close()

	roundTrip := func(pkt []byte, wait time.Duration) []byte {
		t.Helper()
		if _, err := c.Write(pkt); err != nil {
			t.Fatal(err)
		}
		buf := make([]byte, 65536)
		_ = c.SetReadDeadline(time.Now().Add(wait))
		n, err := c.Read(buf)
		if err != nil {
			return nil
		}
		return buf[:n]
	}

	connect := append(append([]byte{}, initialConnectionID...), 0, 0, 0, 0, 0, 0, 0, 7)
	resp := roundTrip(connect, 30*time.Second)
	if len(resp) != 16 || binary.BigEndian.Uint32(resp[0:4]) != 0 {
		t.Fatalf("bad connect response %x", resp)
	}
	connID := resp[8:16]

	// A BEP 15 announce (98 bytes) ...
	p := make([]byte, 0, 2200)
	p = append(p, connID...)
	p = binary.BigEndian.AppendUint32(p, 1)          // action = announce
	p = binary.BigEndian.AppendUint32(p, 0xCAFEBABE) // transaction_id
	p = append(p, bytes.Repeat([]byte{0xAB}, 20)...) // info_hash
	p = append(p, bytes.Repeat([]byte{0xCD}, 20)...) // peer_id
	p = binary.BigEndian.AppendUint64(p, 0)          // downloaded
	p = binary.BigEndian.AppendUint64(p, 100)        // left
	p = binary.BigEndian.AppendUint64(p, 0)          // uploaded
	p = binary.BigEndian.AppendUint32(p, 2)          // event = started
	p = append(p, 0, 0, 0, 0)                        // IP
	p = binary.BigEndian.AppendUint32(p, 1)          // key
	p = binary.BigEndian.AppendUint32(p, 10)         // num_want
	p = binary.BigEndian.AppendUint16(p, 6881)       // port
	if len(p) != 98 {
		t.Fatalf("header is %d bytes", len(p))
	}

	// ... followed by BEP 41 options that spell "/announce?passkey=" +
	// 2000 hex digits + "&tail=1": the URL data is cut into URLData options
	// such that one option ends exactly at byte 2048 of the datagram.
	urlData := []byte("/announce?passkey=" + string(bytes.Repeat([]byte("0123456789abcdef"), 125)) + "&tail=1")
	rest := urlData
	for len(rest) > 0 {
		n := 255
		// Make an option end exactly at offset 2048.
		if room := 2048 - len(p) - 2; room > 0 && room < n {
			n = room
		}
		if n > len(rest) {
			n = len(rest)
		}
		p = append(p, optionURLData, byte(n))
		p = append(p, rest[:n]...)
		rest = rest[n:]
	}
	p = append(p, optionEndOfOptions)
	if len(p) <= 2048 {
		t.Fatalf("test packet is only %d bytes", len(p))
	}
	t.Logf("datagram is %d bytes, URL data is %d bytes", len(p), len(urlData))

	resp = roundTrip(p, 5*time.Second)

	spy.mu.Lock()
	defer spy.mu.Unlock()
	if len(spy.announces) == 0 {
		// Rejected (error response) or dropped: fine.
		if resp != nil && binary.BigEndian.Uint32(resp[0:4]) != errorActionID {
			t.Fatalf("logic not invoked but response is %x", resp)
		}
		return
	}

	req := spy.announces[0]
	gotQuery := req.Params.RawQuery()
	wantQuery := string(urlData[len("/announce?"):])
	_, tailSeen := req.Params.String("tail")
	pk, _ := req.Params.String("passkey")
	if gotQuery != wantQuery {
		t.Fatalf("a %d-byte datagram was cut to 2048 bytes and still handed to the tracker logic "+
			"(response action %d): URL data seen by the logic is %d bytes instead of %d, "+
			"passkey has %d of 2000 characters, tail parameter present: %v",
			len(p), binary.BigEndian.Uint32(resp[0:4]), len(req.Params.RawPath())+1+len(gotQuery), len(urlData), len(pk), tailSeen)
	}
}
