package udp

// Audit finding 1 (property C07): a BEP 15 announce whose num_want field is -1
// ("default") must be served with the configured default_numwant. The UDP
// parser hard-codes NumWantProvided=true and treats 0xFFFFFFFF as a huge
// unsigned request, which SanitizeAnnounce then clamps to max_numwant.
//
// Copy into frontend/udp/ and run:
//   go test ./frontend/udp/ -run TestAuditUDPNumWantMinusOneMeansDefault -count=1

import (
	"encoding/binary"
	"net"
	"testing"
	"time"

	"github.com/chihaya/chihaya/bittorrent"
	"github.com/chihaya/chihaya/middleware"
	"github.com/chihaya/chihaya/storage"
	_ "github.com/chihaya/chihaya/storage/memory"
)

func auditAnnouncePacket(connID []byte, ih, pid [20]byte, left uint64, numWant uint32, port uint16) []byte {
	p := make([]byte, 0, 98)
	p = append(p, connID...)                         // 0  connection_id
	p = binary.BigEndian.AppendUint32(p, 1)          // 8  action = announce
	p = binary.BigEndian.AppendUint32(p, 0xCAFEBABE) // 12 transaction_id
	p = append(p, ih[:]...)                          // 16 info_hash
	p = append(p, pid[:]...)                         // 36 peer_id
	p = binary.BigEndian.AppendUint64(p, 0)          // 56 downloaded
	p = binary.BigEndian.AppendUint64(p, left)       // 64 left
	p = binary.BigEndian.AppendUint64(p, 0)          // 72 uploaded
	p = binary.BigEndian.AppendUint32(p, 0)          // 80 event = none
	p = append(p, 0, 0, 0, 0)                        // 84 IP = 0 (use sender)
	p = binary.BigEndian.AppendUint32(p, 0x01020304) // 88 key
	p = binary.BigEndian.AppendUint32(p, numWant)    // 92 num_want
	p = binary.BigEndian.AppendUint16(p, port)       // 96 port
	return p
}

// Unit level: the parsed request.
func TestAuditUDPParseAnnounceNumWantMinusOne(t *testing.T) {
	var ih, pid [20]byte
	ih[0], pid[0] = 1, 2
	pkt := auditAnnouncePacket(make([]byte, 8), ih, pid, 100, 0xFFFFFFFF /* -1 */, 6881)

	req, err := ParseAnnounce(Request{Packet: pkt, IP: net.IP{127, 0, 0, 1}}, false,
		ParseOptions{MaxNumWant: 100, DefaultNumWant: 50, MaxScrapeInfoHashes: 50})
	if err != nil {
		t.Fatalf("ParseAnnounce: %v", err)
	}
	if req.NumWant != 50 {
		t.Fatalf("num_want=-1 (BEP 15: \"default\") parsed as NumWant=%d (NumWantProvided=%v); want default_numwant=50",
			req.NumWant, req.NumWantProvided)
	}
}

// End to end over a real socket: connect, then announce with num_want=-1 into
// a swarm of 10 seeders; default_numwant=2, max_numwant=5.
func TestAuditUDPNumWantMinusOneMeansDefault(t *testing.T) {
	ps, err := storage.NewPeerStore("memory", nil)
	if err != nil {
		t.Fatal(err)
	}
	defer func() { <-ps.Stop() }()

	logic := middleware.NewLogic(middleware.ResponseConfig{AnnounceInterval: 30 * time.Minute}, ps, nil, nil)
	f, err := NewFrontend(logic, Config{
		Addr:         "127.0.0.1:0",
		PrivateKey:   "audit key",
		MaxClockSkew: 10 * time.Second,
		ParseOptions: ParseOptions{MaxNumWant: 5, DefaultNumWant: 2, MaxScrapeInfoHashes: 50},
	})
	if err != nil {
		t.Fatal(err)
	}
	defer func() { <-f.Stop() }()

	var ih [20]byte
	ih[0] = 0xAB
	for i := 0; i < 10; i++ {
		var id bittorrent.PeerID
		id[0] = byte(i + 1)
		peer := bittorrent.Peer{ID: id, Port: uint16(2000 + i),
			IP: bittorrent.IP{IP: net.IP{10, 0, 0, byte(i + 1)}, AddressFamily: bittorrent.IPv4}}
		if err := ps.PutSeeder(ih, peer); err != nil {
			t.Fatal(err)
		}
	}

	c, err := net.DialUDP("udp", nil, f.socket.LocalAddr().(*net.UDPAddr))
	if err != nil {
		t.Fatal(err)
	}
	defer c.Close()

	roundTrip := func(pkt []byte) []byte {
		t.Helper()
		if _, err := c.Write(pkt); err != nil {
			t.Fatal(err)
		}
		buf := make([]byte, 65536)
		_ = c.SetReadDeadline(time.Now().Add(30 * time.Second))
		n, err := c.Read(buf)
		if err != nil {
			t.Fatalf("no response: %v", err)
		}
		return buf[:n]
	}

	// connect
	connect := append(append([]byte{}, initialConnectionID...), 0, 0, 0, 0, 0, 0, 0, 7)
	resp := roundTrip(connect)
	if len(resp) != 16 || binary.BigEndian.Uint32(resp[0:4]) != 0 {
		t.Fatalf("bad connect response %x", resp)
	}
	connID := resp[8:16]

	announce := func(numWant uint32) int {
		var pid [20]byte
		pid[0] = 0xEE
		r := roundTrip(auditAnnouncePacket(connID, ih, pid, 100, numWant, 6881))
		if len(r) < 20 || binary.BigEndian.Uint32(r[0:4]) != 1 {
			t.Fatalf("bad announce response %x", r)
		}
		return (len(r) - 20) / 6
	}

	// Sanity: explicit values behave as configured.
	if got := announce(1); got != 1 {
		t.Fatalf("num_want=1: got %d peers", got)
	}
	if got := announce(1000); got != 5 {
		t.Fatalf("num_want=1000: got %d peers, want max_numwant=5", got)
	}

	// BEP 15: num_want = -1 means "default".
	if got := announce(0xFFFFFFFF); got != 2 {
		t.Fatalf("num_want=-1 (default): got %d peers, want default_numwant=2 (got max_numwant instead)", got)
	}
}
