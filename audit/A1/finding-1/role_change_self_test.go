package middleware

import (
	"context"
	"fmt"
	"net"
	"testing"
	"time"

	"github.com/alicebob/miniredis"

	"github.com/chihaya/chihaya/bittorrent"
	"github.com/chihaya/chihaya/storage"
	"github.com/chihaya/chihaya/storage/memory"
	"github.com/chihaya/chihaya/storage/redis"
)

// A peer that changes role (leecher -> seeder with event=completed, or
// seeder -> leecher with left>0) is handed its own, still stored entry of the
// previous role in the peer list, and that entry uses up a numwant slot that
// belongs to a real other peer.

func auditStores(t *testing.T) map[string]storage.PeerStore {
	t.Helper()
	mem, err := memory.New(memory.Config{
		ShardCount:                  1,
		GarbageCollectionInterval:   time.Hour,
		PrometheusReportingInterval: time.Hour,
		PeerLifetime:                time.Hour,
	})
	if err != nil {
		t.Fatal(err)
	}
	mr, err := miniredis.Run()
	if err != nil {
		t.Fatal(err)
	}
	t.Cleanup(mr.Close)
	red, err := redis.New(redis.Config{
		GarbageCollectionInterval:   time.Hour,
		PrometheusReportingInterval: time.Hour,
		PeerLifetime:                time.Hour,
		RedisBroker:                 fmt.Sprintf("redis://@%s/0", mr.Addr()),
		RedisReadTimeout:            10 * time.Second,
		RedisWriteTimeout:           10 * time.Second,
		RedisConnectTimeout:         10 * time.Second,
	})
	if err != nil {
		t.Fatal(err)
	}
	return map[string]storage.PeerStore{"memory": mem, "redis": red}
}

func auditPeer(id byte, ip string, port uint16) bittorrent.Peer {
	var pid bittorrent.PeerID
	for i := range pid {
		pid[i] = id
	}
	return bittorrent.Peer{
		ID:   pid,
		IP:   bittorrent.IP{IP: net.ParseIP(ip).To4(), AddressFamily: bittorrent.IPv4},
		Port: port,
	}
}

func auditAnnounce(t *testing.T, l *Logic, ih bittorrent.InfoHash, p bittorrent.Peer, ev bittorrent.Event, left uint64, numWant uint32) *bittorrent.AnnounceResponse {
	t.Helper()
	req := &bittorrent.AnnounceRequest{
		Event:           ev,
		EventProvided:   true,
		InfoHash:        ih,
		NumWant:         numWant,
		NumWantProvided: true,
		Left:            left,
		Peer:            p,
		Compact:         true,
	}
	ctx, resp, err := l.HandleAnnounce(context.Background(), req)
	if err != nil {
		t.Fatalf("announce failed: %v", err)
	}
	l.AfterAnnounce(ctx, req, resp)
	return resp
}

func containsPeer(peers []bittorrent.Peer, p bittorrent.Peer) bool {
	for _, q := range peers {
		if q.Equal(p) {
			return true
		}
	}
	return false
}

func TestAuditCompletedAnnounceReturnsOwnLeecherEntry(t *testing.T) {
	for name, ps := range auditStores(t) {
		ps := ps
		t.Run(name, func(t *testing.T) {
			defer func() { <-ps.Stop() }()
			l := NewLogic(ResponseConfig{}, ps, nil, nil)
			ih := bittorrent.InfoHashFromString("audit-A1-finding-1-a")

			a := auditPeer('a', "10.0.0.1", 1001)
			b := auditPeer('b', "10.0.0.2", 1002)

			// A and B both download.
			auditAnnounce(t, l, ih, a, bittorrent.Started, 100, 50)
			auditAnnounce(t, l, ih, b, bittorrent.Started, 100, 50)

			// A finishes: event=completed, left=0.
			resp := auditAnnounce(t, l, ih, a, bittorrent.Completed, 0, 50)

			if !containsPeer(resp.IPv4Peers, b) {
				t.Errorf("completed announce of A does not list the other leecher B: %v", resp.IPv4Peers)
			}
			if containsPeer(resp.IPv4Peers, a) {
				t.Errorf("completed announce of A lists A itself although another peer was available: %v", resp.IPv4Peers)
			}
			if len(resp.IPv4Peers) != 1 {
				t.Errorf("expected exactly 1 peer (B), got %d: %v", len(resp.IPv4Peers), resp.IPv4Peers)
			}
		})
	}
}

func TestAuditSeederTurnedLeecherReturnsOwnSeederEntry(t *testing.T) {
	for name, ps := range auditStores(t) {
		ps := ps
		t.Run(name, func(t *testing.T) {
			defer func() { <-ps.Stop() }()
			l := NewLogic(ResponseConfig{}, ps, nil, nil)
			ih := bittorrent.InfoHashFromString("audit-A1-finding-1-b")

			a := auditPeer('a', "10.0.0.1", 1001)
			b := auditPeer('b', "10.0.0.2", 1002)

			// A seeds, B downloads.
			auditAnnounce(t, l, ih, a, bittorrent.Started, 0, 50)
			auditAnnounce(t, l, ih, b, bittorrent.Started, 100, 50)

			// A now has data left (e.g. after a re-check) and wants ONE peer.
			// The swarm can offer B; instead the only slot goes to A's own
			// stale seeder entry.
			resp := auditAnnounce(t, l, ih, a, bittorrent.None, 100, 1)

			if containsPeer(resp.IPv4Peers, a) {
				t.Errorf("announce of A (numwant=1) lists A itself although B was available: %v", resp.IPv4Peers)
			}
			if !containsPeer(resp.IPv4Peers, b) {
				t.Errorf("announce of A (numwant=1) does not list the available peer B: %v", resp.IPv4Peers)
			}
		})
	}
}
