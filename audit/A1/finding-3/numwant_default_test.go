package udp

import (
	"context"
	"encoding/binary"
	"net"
	"testing"
	"time"

	"github.com/chihaya/chihaya/middleware"
	"github.com/chihaya/chihaya/storage/memory"
)

// BEP 15: the num_want field of a UDP announce is a signed 32-bit integer whose
// default - "the client did not say" - is -1. Every UDP announce carries the
// field, so -1 is the only way a UDP client can leave numwant absent. The
// parser reads it as the unsigned 4294967295, marks it as provided, and the
// sanitizer then clamps it to max_numwant instead of using default_numwant.

func auditAnnouncePacket(ih, peerID string, left uint64, numWant int32, port uint16) []byte {
	p := make([]byte, 98)
	// connection id [0:8] is not looked at by ParseAnnounce
	binary.BigEndian.PutUint32(p[8:12], announceActionID)
	binary.BigEndian.PutUint32(p[12:16], 0x01020304) // transaction id
	copy(p[16:36], ih)
	copy(p[36:56], peerID)
	binary.BigEndian.PutUint64(p[56:64], 0)    // downloaded
	binary.BigEndian.PutUint64(p[64:72], left) // left
	binary.BigEndian.PutUint64(p[72:80], 0)    // uploaded
	binary.BigEndian.PutUint32(p[80:84], 0)    // event none
	// ip [84:88] zero: use the source address
	binary.BigEndian.PutUint32(p[88:92], 0xdeadbeef) // key
	binary.BigEndian.PutUint32(p[92:96], uint32(numWant))
	binary.BigEndian.PutUint16(p[96:98], port)
	return p
}

func TestAuditUDPNumWantMinusOneMeansDefault(t *testing.T) {
	opts := ParseOptions{MaxNumWant: 100, DefaultNumWant: 50}
	ih := "audit-A1-finding-003"

	req, err := ParseAnnounce(Request{
		Packet: auditAnnouncePacket(ih, "-AA0001-leecherleech", 100, -1, 6881),
		IP:     net.ParseIP("10.9.9.9"),
	}, false, opts)
	if err != nil {
		t.Fatal(err)
	}
	if req.NumWant != opts.DefaultNumWant {
		t.Errorf("num_want=-1 (BEP 15 default): sanitized NumWant = %d, want default_numwant = %d", req.NumWant, opts.DefaultNumWant)
	}

	// End to end through the tracker logic: 80 seeders in the swarm, the
	// client leaves num_want at its default and must get default_numwant (50)
	// peers, not max_numwant (100) worth of them.
	ps, err := memory.New(memory.Config{
		ShardCount:                  1,
		GarbageCollectionInterval:   time.Hour,
		PrometheusReportingInterval: time.Hour,
		PeerLifetime:                time.Hour,
	})
	if err != nil {
		t.Fatal(err)
	}
	defer func() { <-ps.Stop() }()
	lgc := middleware.NewLogic(middleware.ResponseConfig{}, ps, nil, nil)

	for i := 0; i < 80; i++ {
		seed, err := ParseAnnounce(Request{
			Packet: auditAnnouncePacket(ih, "-AA0001-seederseeder", 0, 10, uint16(2000+i)),
			IP:     net.IPv4(10, 0, 1, byte(i+1)),
		}, false, opts)
		if err != nil {
			t.Fatal(err)
		}
		ctx, resp, err := lgc.HandleAnnounce(context.Background(), seed)
		if err != nil {
			t.Fatal(err)
		}
		lgc.AfterAnnounce(ctx, seed, resp)
	}

	_, resp, err := lgc.HandleAnnounce(context.Background(), req)
	if err != nil {
		t.Fatal(err)
	}
	if got := len(resp.IPv4Peers); got != int(opts.DefaultNumWant) {
		t.Errorf("num_want=-1 (BEP 15 default): response carries %d peers, want default_numwant = %d", got, opts.DefaultNumWant)
	}
}
