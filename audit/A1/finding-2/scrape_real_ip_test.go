package http

import (
	"net/http"
	"net/http/httptest"
	"net/url"
	"testing"
	"time"

	"github.com/chihaya/chihaya/frontend/http/bencode"
	"github.com/chihaya/chihaya/middleware"
	"github.com/chihaya/chihaya/storage/memory"
)

// With real_ip_header configured (tracker behind a reverse proxy) announces are
// filed under the address family of the client address in that header, but
// scrapes pick the family from the TCP peer (the proxy). An IPv6 client is
// therefore told the counts of the IPv4 swarm.

const auditHeader = "X-Real-IP"

func auditDo(t *testing.T, f *Frontend, h http.Handler, path, clientIP string) bencode.Dict {
	t.Helper()
	r := httptest.NewRequest(http.MethodGet, path, nil)
	r.RequestURI = path
	r.RemoteAddr = "127.0.0.1:40000" // the reverse proxy
	r.Header.Set(auditHeader, clientIP)
	w := httptest.NewRecorder()
	h.ServeHTTP(w, r)
	f.wg.Wait() // let the post-response hook (swarm update) finish

	v, err := bencode.Unmarshal(w.Body.Bytes())
	if err != nil {
		t.Fatalf("cannot decode response %q: %v", w.Body.String(), err)
	}
	d, ok := v.(bencode.Dict)
	if !ok {
		t.Fatalf("response is not a dictionary: %#v", v)
	}
	if reason, failed := d["failure reason"]; failed {
		t.Fatalf("request %s failed: %v", path, reason)
	}
	return d
}

func TestAuditScrapeIgnoresRealIPHeader(t *testing.T) {
	ps, err := memory.New(memory.Config{
		ShardCount:                  1,
		GarbageCollectionInterval:   time.Hour,
		PrometheusReportingInterval: time.Hour,
		PeerLifetime:                time.Hour,
	})
	if err != nil {
		t.Fatal(err)
	}
	defer func() { <-ps.Stop() }()

	lgc := middleware.NewLogic(middleware.ResponseConfig{}, ps, nil, nil)
	cfg := Config{
		Addr:           "127.0.0.1:0", // not listened on: the handler is driven directly
		AnnounceRoutes: []string{"/announce"},
		ScrapeRoutes:   []string{"/scrape"},
		ParseOptions:   ParseOptions{RealIPHeader: auditHeader},
	}.Validate()
	f := &Frontend{logic: lgc, Config: cfg}
	h := f.handler()

	ih := "audit-A1-finding-002"
	q := func(peerID string, port string, left string) string {
		v := url.Values{}
		v.Set("info_hash", ih)
		v.Set("peer_id", peerID)
		v.Set("port", port)
		v.Set("left", left)
		v.Set("uploaded", "0")
		v.Set("downloaded", "0")
		v.Set("compact", "1")
		return "/announce?" + v.Encode()
	}

	// IPv6 swarm: two seeders and one leecher. IPv4 swarm: two leechers.
	// All clients come through the proxy.
	auditDo(t, f, h, q("-AA0001-aaaaaaaaaaaa", "1001", "0"), "2001:db8::1")
	auditDo(t, f, h, q("-AA0001-bbbbbbbbbbbb", "1002", "0"), "2001:db8::2")
	auditDo(t, f, h, q("-AA0001-dddddddddddd", "1004", "100"), "2001:db8::4")
	auditDo(t, f, h, q("-AA0001-cccccccccccc", "1003", "100"), "10.0.0.3")
	auditDo(t, f, h, q("-AA0001-eeeeeeeeeeee", "1005", "100"), "10.0.0.5")

	// The announce path reports the IPv6 swarm to the IPv6 client: 2 seeders,
	// 1 leecher.
	d := auditDo(t, f, h, q("-AA0001-aaaaaaaaaaaa", "1001", "0"), "2001:db8::1")
	if d["complete"] != int64(2) || d["incomplete"] != int64(1) {
		t.Fatalf("announce of the IPv6 client: complete=%v incomplete=%v, want 2/1", d["complete"], d["incomplete"])
	}

	// The same IPv6 client scrapes.
	v := url.Values{}
	v.Set("info_hash", ih)
	d = auditDo(t, f, h, "/scrape?"+v.Encode(), "2001:db8::1")
	files, ok := d["files"].(bencode.Dict)
	if !ok {
		t.Fatalf("no files dictionary: %#v", d)
	}
	file, ok := files[ih].(bencode.Dict)
	if !ok {
		t.Fatalf("infohash missing from scrape: %#v", files)
	}
	if file["complete"] != int64(2) || file["incomplete"] != int64(1) {
		t.Errorf("scrape of the IPv6 client 2001:db8::1: complete=%v incomplete=%v, want the IPv6 swarm (2/1); 0/2 are the IPv4 swarm's counts",
			file["complete"], file["incomplete"])
	}
}
