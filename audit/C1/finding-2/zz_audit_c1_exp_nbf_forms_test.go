package jwt

// Audit C1, property C15.
//
// The validity period is only enforced when the exp / nbf claim happens to be
// a JSON number that fits an int64 (jose's Claims.GetTime followed by
// time.Unix). Starting from a valid token and changing the single aspect
// "exp" or "nbf":
//
//   - an nbf far in the future, at or beyond 2^63 seconds (for instance 1e19),
//     wraps around inside int64(float64)/time.Unix to a date in the distant
//     past: the token is admitted although it is not valid yet;
//   - an exp / nbf written as a JSON string ("exp":"1", a NumericDate in
//     quotes) is not looked at at all: a token that expired in 1970, or that
//     only becomes valid in the year 5138, is admitted.
//
// In every one of these cases the hook must refuse the announce.

import (
	"crypto/rand"
	"crypto/rsa"
	"fmt"
	"testing"
	"time"
)

func TestAuditC1ExpNbfOutsideValidityPeriodAdmitted(t *testing.T) {
	key, err := rsa.GenerateKey(rand.Reader, 2048)
	if err != nil {
		t.Fatal(err)
	}
	srv := newAuditC1JWKServer(t, auditC1RSAJWK(t, "k", key))
	defer srv.Close()
	hk, err := NewHook(Config{Issuer: auditC1Issuer, Audience: auditC1Audience, JWKSetURL: srv.URL, JWKUpdateInterval: time.Hour})
	if err != nil {
		t.Fatal(err)
	}
	h := hk.(*hook)
	defer func() { h.Stop().Wait() }()

	header := map[string]interface{}{"alg": "RS256", "typ": "JWT", "kid": "k"}
	now := time.Now()

	// Sanity: the harness produces tokens the hook accepts, and the hook does
	// enforce both bounds for ordinary values.
	if err := auditC1Announce(t, h, auditC1Token(t, key, header, auditC1ValidClaims())); err != nil {
		t.Fatalf("sanity: valid token refused: %v", err)
	}
	expired := auditC1ValidClaims()
	expired["exp"] = now.Add(-time.Minute).Unix()
	if err := auditC1Announce(t, h, auditC1Token(t, key, header, expired)); err == nil {
		t.Fatal("sanity: ordinary expired token admitted")
	}
	premature := auditC1ValidClaims()
	premature["nbf"] = now.Add(time.Hour).Unix()
	if err := auditC1Announce(t, h, auditC1Token(t, key, header, premature)); err == nil {
		t.Fatal("sanity: ordinary not-yet-valid token admitted")
	}

	cases := []struct {
		name  string
		claim string
		value interface{}
	}{
		{"nbf=1e19 (not valid before the year 3e11)", "nbf", 1e19},
		{"nbf=9223372036854775808 (2^63)", "nbf", float64(1 << 63)},
		{"nbf=\"99999999999\" (string, year 5138)", "nbf", "99999999999"},
		{"exp=\"1\" (string, expired in 1970)", "exp", "1"},
		{fmt.Sprintf("exp=%q (string, expired a minute ago)", fmt.Sprint(now.Add(-time.Minute).Unix())), "exp", fmt.Sprint(now.Add(-time.Minute).Unix())},
	}
	for _, c := range cases {
		claims := auditC1ValidClaims()
		claims[c.claim] = c.value
		if err := auditC1Announce(t, h, auditC1Token(t, key, header, claims)); err == nil {
			t.Errorf("C15 violated: announce admitted with a correctly signed token that is outside its %s validity period: %s", c.claim, c.name)
		}
	}
}
