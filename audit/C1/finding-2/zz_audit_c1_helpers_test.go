package jwt

// Audit C1: helpers shared by the zz_audit_c1_*_test.go files of this package
// (copy this file along with any of them).

import (
	"context"
	"crypto"
	"crypto/rand"
	"crypto/rsa"
	"crypto/sha256"
	"encoding/base64"
	"encoding/hex"
	"encoding/json"
	"net/http"
	"net/http/httptest"
	"sync"
	"testing"
	"time"

	"github.com/mendsley/gojwk"

	"github.com/chihaya/chihaya/bittorrent"
)

const (
	auditC1Issuer   = "https://issuer.example"
	auditC1Audience = "https://tracker.example"
)

var auditC1InfoHash = bittorrent.InfoHashFromString("01234567890123456789")

func auditC1RSAJWK(t *testing.T, kid string, key *rsa.PrivateKey) map[string]interface{} {
	t.Helper()
	jwk, err := gojwk.PublicKey(&key.PublicKey)
	if err != nil {
		t.Fatal(err)
	}
	return map[string]interface{}{"kty": jwk.Kty, "kid": kid, "n": jwk.N, "e": jwk.E, "alg": "RS256", "use": "sig"}
}

// auditC1Token builds a compact RS256 JWS over the given header and claims.
func auditC1Token(t *testing.T, key *rsa.PrivateKey, header, claims map[string]interface{}) string {
	t.Helper()
	h, err := json.Marshal(header)
	if err != nil {
		t.Fatal(err)
	}
	c, err := json.Marshal(claims)
	if err != nil {
		t.Fatal(err)
	}
	input := base64.RawURLEncoding.EncodeToString(h) + "." + base64.RawURLEncoding.EncodeToString(c)
	sum := sha256.Sum256([]byte(input))
	sig, err := rsa.SignPKCS1v15(rand.Reader, key, crypto.SHA256, sum[:])
	if err != nil {
		t.Fatal(err)
	}
	return input + "." + base64.RawURLEncoding.EncodeToString(sig)
}

func auditC1ValidClaims() map[string]interface{} {
	return map[string]interface{}{
		"iss":      auditC1Issuer,
		"aud":      auditC1Audience,
		"infohash": hex.EncodeToString(auditC1InfoHash[:]),
		"exp":      time.Now().Add(time.Hour).Unix(),
		"nbf":      time.Now().Add(-time.Hour).Unix(),
	}
}

func auditC1Announce(t *testing.T, h *hook, token string) error {
	t.Helper()
	params, err := bittorrent.ParseURLData("/announce?jwt=" + token)
	if err != nil {
		t.Fatal(err)
	}
	req := &bittorrent.AnnounceRequest{InfoHash: auditC1InfoHash, Params: params}
	_, err = h.HandleAnnounce(context.Background(), req, &bittorrent.AnnounceResponse{})
	return err
}

// auditC1JWKServer serves a JWK Set document that can be swapped, and counts
// the fetches.
type auditC1JWKServer struct {
	mu      sync.Mutex
	body    []byte
	fetches int
	*httptest.Server
}

func newAuditC1JWKServer(t *testing.T, keys ...map[string]interface{}) *auditC1JWKServer {
	s := &auditC1JWKServer{}
	s.publish(t, keys...)
	s.Server = httptest.NewServer(http.HandlerFunc(func(w http.ResponseWriter, r *http.Request) {
		s.mu.Lock()
		defer s.mu.Unlock()
		s.fetches++
		w.Header().Set("Content-Type", "application/json")
		_, _ = w.Write(s.body)
	}))
	return s
}

func (s *auditC1JWKServer) publish(t *testing.T, keys ...map[string]interface{}) {
	t.Helper()
	b, err := json.Marshal(map[string]interface{}{"keys": keys})
	if err != nil {
		t.Fatal(err)
	}
	s.mu.Lock()
	s.body = b
	s.fetches = 0
	s.mu.Unlock()
}

func (s *auditC1JWKServer) waitFetches(t *testing.T, n int) {
	t.Helper()
	deadline := time.Now().Add(10 * time.Second)
	for time.Now().Before(deadline) {
		s.mu.Lock()
		f := s.fetches
		s.mu.Unlock()
		if f >= n {
			// let the hook finish processing the last answer
			time.Sleep(100 * time.Millisecond)
			return
		}
		time.Sleep(10 * time.Millisecond)
	}
	t.Fatal("the hook does not refresh its key set")
}
