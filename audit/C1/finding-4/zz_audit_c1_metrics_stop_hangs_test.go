package metrics

// Audit C1, property C16.
//
// The metrics server is a member of cmd/chihaya's stop group. Its Stop calls
// http.Server.Shutdown with a context that never expires, and the server has
// only a ReadHeaderTimeout: no ReadTimeout, no WriteTimeout. A client that
// announces a request body ("Content-Length: 10") and never sends it makes
// net/http wait, without any deadline, for the unread body (it is drained
// before the response is written). The connection stays "active" for as long
// as the client keeps it open, Shutdown never returns, and so Stop - and with
// it the stop group, Run.Stop, every reload and the shutdown of the tracker -
// never terminates.
//
// This is not the bounded delay of a long-running /debug/pprof/profile
// request: no work is being done for the client, 49 bytes sent once are
// enough, and the wait has no bound.

import (
	"bufio"
	"fmt"
	"net"
	"net/http"
	"testing"
	"time"
)

func auditC1FreeAddr(t *testing.T) string {
	t.Helper()
	l, err := net.Listen("tcp", "127.0.0.1:0")
	if err != nil {
		t.Fatal(err)
	}
	addr := l.Addr().String()
	l.Close()
	return addr
}

func TestAuditC1MetricsStopNeverTerminatesWithUnsentBody(t *testing.T) {
	addr := auditC1FreeAddr(t)
	s := NewServer(addr)

	// Wait for the server to listen.
	var conn net.Conn
	var err error
	for i := 0; i < 200; i++ {
		conn, err = net.Dial("tcp", addr)
		if err == nil {
			break
		}
		time.Sleep(10 * time.Millisecond)
	}
	if err != nil {
		t.Fatal(err)
	}
	defer conn.Close()

	// One scrape of /metrics that declares a body it never sends. net/http
	// wants the unread body out of the way before it answers and, since the
	// server has no ReadTimeout, waits for it without any deadline.
	fmt.Fprintf(conn, "GET /metrics HTTP/1.1\r\nHost: %s\r\nContent-Length: 10\r\n\r\n", addr)
	_ = conn.SetReadDeadline(time.Now().Add(time.Second))
	if resp, err := http.ReadResponse(bufio.NewReader(conn), nil); err == nil {
		t.Logf("the request was answered: %s", resp.Status)
	} else {
		t.Logf("no answer within a second: %v", err)
	}
	_ = conn.SetReadDeadline(time.Time{})
	// From here on the client does nothing at all; it merely keeps its
	// connection open.

	done := make(chan []error, 1)
	go func() { done <- s.Stop().Wait() }()

	const patience = 10 * time.Second
	select {
	case errs := <-done:
		t.Logf("Stop completed, errors: %v", errs)
	case <-time.After(patience):
		t.Errorf("C16 violated: metrics Server.Stop has not terminated %v after it was called, although no request is being worked on; it waits for as long as the client keeps its connection open", patience)
		// Let go, so that the test binary can finish.
		conn.Close()
		select {
		case <-done:
		case <-time.After(5 * time.Second):
		}
	}
}
