package http

// Audit C1, property C16.
//
// With enable_keepalive: true (or with a read_timeout above five seconds, see
// the second test), Frontend.Stop can complete while an accepted
// announce is still being handled (and before its post-response hook has even
// been started). Stop relies on http.Server.Shutdown, which closes every
// connection that is in StateIdle at the instant it looks and no longer waits
// for it. A kept-alive connection stays in StateIdle until net/http has read
// and parsed the whole next request; a request that arrives just then is
// still handed to the handler, on a connection Shutdown has already written
// off. Shutdown returns, f.wg is at zero, Stop completes - and the handler
// runs on: it calls logic.HandleAnnounce, then f.wg.Add(1) (after Wait has
// returned) and logic.AfterAnnounce, i.e. it uses the logic and the store
// after cmd/chihaya has stopped them (the memory store panics with "attempted
// to interact with stopped memory store").
//
// The test keeps a few hundred kept-alive connections idle, sends one more
// announce on each of them and calls Stop while these are arriving. The
// TrackerLogic holds second-round announces at a gate; the gate is opened for
// every announce whose connection the server has kept open (those are the ones
// Shutdown waits for), so that Stop can complete. An announce that is still
// held at the gate when Stop has completed is in flight after Stop.

import (
	"bufio"
	"context"
	"errors"
	"fmt"
	"math/rand"
	"net"
	nethttp "net/http"
	"os"
	"sync"
	"sync/atomic"
	"testing"
	"time"

	"github.com/chihaya/chihaya/bittorrent"
)

type auditC1GateLogic struct {
	mu      sync.Mutex
	entered map[uint16]bool          // second-round announces that reached the logic, by port
	gates   map[uint16]chan struct{} // one gate per second-round announce
	held    int32                    // second-round announces currently inside HandleAnnounce
	after   int32                    // post-response hooks started
}

func (l *auditC1GateLogic) HandleAnnounce(ctx context.Context, req *bittorrent.AnnounceRequest) (context.Context, *bittorrent.AnnounceResponse, error) {
	if req.Left == 2 {
		atomic.AddInt32(&l.held, 1)
		l.mu.Lock()
		l.entered[req.Port] = true
		gate := l.gates[req.Port]
		l.mu.Unlock()
		<-gate
		atomic.AddInt32(&l.held, -1)
	}
	return ctx, &bittorrent.AnnounceResponse{Interval: time.Minute, MinInterval: time.Minute, Compact: true}, nil
}

func (l *auditC1GateLogic) AfterAnnounce(context.Context, *bittorrent.AnnounceRequest, *bittorrent.AnnounceResponse) {
	atomic.AddInt32(&l.after, 1)
}

func (l *auditC1GateLogic) HandleScrape(ctx context.Context, _ *bittorrent.ScrapeRequest) (context.Context, *bittorrent.ScrapeResponse, error) {
	return ctx, &bittorrent.ScrapeResponse{}, nil
}

func (l *auditC1GateLogic) AfterScrape(context.Context, *bittorrent.ScrapeRequest, *bittorrent.ScrapeResponse) {
}

func auditC1FreeAddr(t *testing.T) string {
	t.Helper()
	l, err := net.Listen("tcp", "127.0.0.1:0")
	if err != nil {
		t.Fatal(err)
	}
	defer l.Close()
	return l.Addr().String()
}

func auditC1AnnounceBytes(addr string, port, left int) []byte {
	return []byte(fmt.Sprintf("GET /announce?info_hash=01234567890123456789&peer_id=ABCDEFGHIJKLMNOPQRST&port=%d&left=%d&downloaded=0&uploaded=0&compact=1 HTTP/1.1\r\nHost: %s\r\n\r\n", port, left, addr))
}

// auditC1Attempt runs one Stop against a burst of announces on idle kept-alive
// connections. It returns the number of announces still in flight when Stop
// had completed.
func auditC1Attempt(t *testing.T, conns int, rnd *rand.Rand, keepAlive bool) (inFlightAfterStop int32, orphanPorts []uint16) {
	addr := auditC1FreeAddr(t)
	logic := &auditC1GateLogic{entered: map[uint16]bool{}, gates: map[uint16]chan struct{}{}}
	for i := 0; i < conns; i++ {
		logic.gates[uint16(1000+i)] = make(chan struct{})
	}
	f, err := NewFrontend(logic, Config{
		Addr:            addr,
		EnableKeepAlive: keepAlive,
		ReadTimeout:     30 * time.Second,
		WriteTimeout:    30 * time.Second,
		IdleTimeout:     30 * time.Second,
		AnnounceRoutes:  []string{"/announce"},
		ScrapeRoutes:    []string{"/scrape"},
	})
	if err != nil {
		t.Fatal(err)
	}

	// First round: every connection makes one announce and stays open, idle.
	// Without keep-alive the connections just sit there, unused, until
	// Shutdown regards them as idle too (StateNew for more than 5 seconds).
	cs := make([]net.Conn, conns)
	rs := make([]*bufio.Reader, conns)
	for i := range cs {
		c, err := net.Dial("tcp", addr)
		if err != nil {
			t.Fatal(err)
		}
		cs[i], rs[i] = c, bufio.NewReader(c)
		if !keepAlive {
			continue
		}
		if _, err := c.Write(auditC1AnnounceBytes(addr, 1000+i, 1)); err != nil {
			t.Fatal(err)
		}
	}
	for i := range cs {
		if !keepAlive {
			continue
		}
		resp, err := nethttp.ReadResponse(rs[i], nil)
		if err != nil {
			t.Fatal(err)
		}
		buf := make([]byte, 4096)
		for {
			if _, err := resp.Body.Read(buf); err != nil {
				break
			}
		}
		resp.Body.Close()
		if resp.Close {
			t.Fatal("keep-alive is not in effect")
		}
	}
	if keepAlive {
		time.Sleep(20 * time.Millisecond) // all connections are idle now
	} else {
		time.Sleep(6500 * time.Millisecond)
	}

	// Second round, with Stop called while the announces are arriving.
	start := make(chan struct{})
	var sent sync.WaitGroup
	const writers = 8
	for w := 0; w < writers; w++ {
		sent.Add(1)
		go func(w int) {
			defer sent.Done()
			<-start
			for i := w; i < conns; i += writers {
				_, _ = cs[i].Write(auditC1AnnounceBytes(addr, 1000+i, 2))
			}
		}(w)
	}
	delay := time.Duration(rnd.Intn(400)) * time.Microsecond
	close(start)
	time.Sleep(delay)
	stopped := make(chan []error, 1)
	go func() { stopped <- f.Stop().Wait() }()
	sent.Wait()

	// Which connections has the server kept open? Those carry the announces
	// Shutdown is waiting for; a connection it closed is one it wrote off.
	open := make([]bool, conns)
	var cl sync.WaitGroup
	for i := range cs {
		cl.Add(1)
		go func(i int) {
			defer cl.Done()
			_ = cs[i].SetReadDeadline(time.Now().Add(300 * time.Millisecond))
			_, err := rs[i].Peek(1)
			open[i] = errors.Is(err, os.ErrDeadlineExceeded)
		}(i)
	}
	cl.Wait()
	for i := range cs {
		if open[i] {
			close(logic.gates[uint16(1000+i)])
		}
	}

	select {
	case <-stopped:
	case <-time.After(20 * time.Second):
		t.Fatal("harness: Stop does not complete")
	}

	// Stop has completed: nothing may be in flight any more.
	inFlightAfterStop = atomic.LoadInt32(&logic.held)
	afterBefore := atomic.LoadInt32(&logic.after)
	logic.mu.Lock()
	for i := range cs {
		p := uint16(1000 + i)
		if !open[i] && logic.entered[p] {
			orphanPorts = append(orphanPorts, p)
		}
	}
	logic.mu.Unlock()

	// Let the stragglers go and watch them run their post-response hooks.
	for i := range cs {
		if !open[i] {
			close(logic.gates[uint16(1000+i)])
		}
	}
	if inFlightAfterStop > 0 {
		deadline := time.Now().Add(2 * time.Second)
		for atomic.LoadInt32(&logic.after) == afterBefore && time.Now().Before(deadline) {
			time.Sleep(time.Millisecond)
		}
		t.Logf("post-response hooks started after Stop had completed: %d", atomic.LoadInt32(&logic.after)-afterBefore)
	}
	for _, c := range cs {
		c.Close()
	}
	return inFlightAfterStop, orphanPorts
}

func TestAuditC1StopCompletesWhileKeptAliveAnnounceInFlight(t *testing.T) {
	rnd := rand.New(rand.NewSource(1))
	deadline := time.Now().Add(60 * time.Second)
	for attempt := 1; time.Now().Before(deadline); attempt++ {
		n, ports := auditC1Attempt(t, 300, rnd, true)
		if n > 0 {
			t.Fatalf("C16 violated (attempt %d): Frontend.Stop has completed while %d accepted announce(s) (port parameter %v) were still inside TrackerLogic.HandleAnnounce; their post-response hooks had not even started", attempt, n, ports)
		}
	}
	t.Log("no announce in flight after Stop within the time budget")
}

// The same with enable_keepalive: false (the default) and a read_timeout of
// more than five seconds: Shutdown also writes off connections that have been
// in StateNew for more than five seconds, and a first request arriving on such
// a connection just then is handled all the same.
func TestAuditC1StopCompletesWhileAnnounceOnOldFreshConnectionInFlight(t *testing.T) {
	rnd := rand.New(rand.NewSource(2))
	for attempt := 1; attempt <= 6; attempt++ {
		n, ports := auditC1Attempt(t, 300, rnd, false)
		if n > 0 {
			t.Fatalf("C16 violated (attempt %d): Frontend.Stop has completed while %d accepted announce(s) (port parameter %v) were still inside TrackerLogic.HandleAnnounce; their post-response hooks had not even started", attempt, n, ports)
		}
	}
	t.Log("no announce in flight after Stop within the attempts made")
}
