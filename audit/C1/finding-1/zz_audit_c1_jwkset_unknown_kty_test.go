package jwt

// Audit C1, property C15.
//
// A key-set rotation whose new JWK Set also publishes a key of a type the
// gojwk library cannot decode (here an RFC 8037 "OKP"/Ed25519 key, perfectly
// legal in a JWK Set and to be ignored by consumers that do not understand it,
// RFC 7517 section 5) never takes effect: updateKeys gives up on the whole set
// and the hook keeps validating against the previous keys for ever. The key
// that has been withdrawn keeps admitting announces, the key that has been
// published is refused.

import (
	"crypto/rand"
	"crypto/rsa"
	"testing"
	"time"
)

func TestAuditC1RotationToSetWithUnsupportedKeyTypeNeverTakesEffect(t *testing.T) {
	oldKey, err := rsa.GenerateKey(rand.Reader, 2048)
	if err != nil {
		t.Fatal(err)
	}
	newKey, err := rsa.GenerateKey(rand.Reader, 2048)
	if err != nil {
		t.Fatal(err)
	}

	srv := newAuditC1JWKServer(t, auditC1RSAJWK(t, "old", oldKey))
	defer srv.Close()

	hk, err := NewHook(Config{
		Issuer:            auditC1Issuer,
		Audience:          auditC1Audience,
		JWKSetURL:         srv.URL,
		JWKUpdateInterval: 50 * time.Millisecond,
	})
	if err != nil {
		t.Fatal(err)
	}
	h := hk.(*hook)
	defer func() { h.Stop().Wait() }()

	oldToken := auditC1Token(t, oldKey, map[string]interface{}{"alg": "RS256", "typ": "JWT", "kid": "old"}, auditC1ValidClaims())
	newToken := auditC1Token(t, newKey, map[string]interface{}{"alg": "RS256", "typ": "JWT", "kid": "new"}, auditC1ValidClaims())

	if err := auditC1Announce(t, h, oldToken); err != nil {
		t.Fatalf("sanity: token of the published key refused: %v", err)
	}
	if err := auditC1Announce(t, h, newToken); err == nil {
		t.Fatal("sanity: token of a key that is not published yet admitted")
	}

	// Rotation: "old" is withdrawn, "new" is published, next to an Ed25519 key
	// (RFC 8037) that serves some other consumer of the same JWK Set.
	ed25519JWK := map[string]interface{}{
		"kty": "OKP", "crv": "Ed25519", "kid": "ed", "use": "sig", "alg": "EdDSA",
		"x": "11qYAYKxCrfVS_7TyWQHOg7hcvPapiMlrwIaaPcHURo",
	}
	srv.publish(t, auditC1RSAJWK(t, "new", newKey), ed25519JWK)
	srv.waitFetches(t, 3) // several refreshes have fetched the new set

	errOld := auditC1Announce(t, h, oldToken)
	errNew := auditC1Announce(t, h, newToken)
	if errOld == nil {
		t.Errorf("C15 violated: announce admitted with a token signed by key %q, which is no longer published in the JWK set", "old")
	}
	if errNew != nil {
		t.Errorf("C15 violated: announce with a valid RS256 token of the currently published key %q refused: %v", "new", errNew)
	}
}

// Control: the same rotation without the Ed25519 key takes effect, so the
// failure above is due to the unsupported key and to nothing else.
func TestAuditC1ControlRotationToPureRSASetTakesEffect(t *testing.T) {
	oldKey, _ := rsa.GenerateKey(rand.Reader, 2048)
	newKey, _ := rsa.GenerateKey(rand.Reader, 2048)

	srv := newAuditC1JWKServer(t, auditC1RSAJWK(t, "old", oldKey))
	defer srv.Close()
	hk, err := NewHook(Config{Issuer: auditC1Issuer, Audience: auditC1Audience, JWKSetURL: srv.URL, JWKUpdateInterval: 50 * time.Millisecond})
	if err != nil {
		t.Fatal(err)
	}
	h := hk.(*hook)
	defer func() { h.Stop().Wait() }()

	oldToken := auditC1Token(t, oldKey, map[string]interface{}{"alg": "RS256", "typ": "JWT", "kid": "old"}, auditC1ValidClaims())
	newToken := auditC1Token(t, newKey, map[string]interface{}{"alg": "RS256", "typ": "JWT", "kid": "new"}, auditC1ValidClaims())

	srv.publish(t, auditC1RSAJWK(t, "new", newKey))
	srv.waitFetches(t, 3)
	if err := auditC1Announce(t, h, oldToken); err == nil {
		t.Error("control: withdrawn key still admitted")
	}
	if err := auditC1Announce(t, h, newToken); err != nil {
		t.Errorf("control: new key refused: %v", err)
	}
}
