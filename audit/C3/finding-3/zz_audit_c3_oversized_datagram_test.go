package udp

// Audit C3, finding 3 (properties C13 and C20): with a large max_numwant (a
// value Config.Validate preserves) a well-formed UDP announce against a big
// swarm receives NO response at all: the response does not fit into a
// datagram, WriteToUDP fails and the error is dropped.
//
// Copy into frontend/udp/ and run:
//   go test -vet=off -count=1 -run TestAuditC3_Oversized ./frontend/udp/

import (
	"encoding/binary"
	"fmt"
	"net"
	"testing"
	"time"

	"github.com/chihaya/chihaya/bittorrent"
	"github.com/chihaya/chihaya/middleware"
	"github.com/chihaya/chihaya/storage/memory"
)

func auditC3BigRoundTrip(t *testing.T, c *net.UDPConn, pkt []byte) []byte {
	t.Helper()
	if _, err := c.Write(pkt); err != nil {
		t.Fatal(err)
	}
	buf := make([]byte, 70000)
	_ = c.SetReadDeadline(time.Now().Add(3 * time.Second))
	n, err := c.Read(buf)
	if err != nil {
		return nil
	}
	return buf[:n]
}

func TestAuditC3_Oversized_AnnounceGetsNoResponse(t *testing.T) {
	ps, err := memory.New(memory.Config{ShardCount: 1, GarbageCollectionInterval: time.Hour, PeerLifetime: time.Hour, PrometheusReportingInterval: time.Hour})
	if err != nil {
		t.Fatal(err)
	}
	ih := bittorrent.InfoHashFromString("aaaaaaaaaaaaaaaaaaaa")
	// A popular torrent: 12000 seeders. 12000*6+20 bytes > 65507.
	for i := 0; i < 12000; i++ {
		p := bittorrent.Peer{
			ID:   bittorrent.PeerIDFromString(fmt.Sprintf("-AU0001-%012d", i)),
			IP:   bittorrent.IP{IP: net.IPv4(10, 0, byte(i>>8), byte(i)).To4(), AddressFamily: bittorrent.IPv4},
			Port: 1000,
		}
		if err := ps.PutSeeder(ih, p); err != nil {
			t.Fatal(err)
		}
	}
	lgc := middleware.NewLogic(middleware.ResponseConfig{AnnounceInterval: 30 * time.Minute}, ps, nil, nil)

	provided := Config{Addr: "127.0.0.1:0", PrivateKey: "k", ParseOptions: ParseOptions{MaxNumWant: 20000, DefaultNumWant: 50}}
	if v := provided.Validate(); v.MaxNumWant != 20000 {
		t.Fatalf("Validate changed max_numwant to %d", v.MaxNumWant)
	}
	fe, err := NewFrontend(lgc, provided)
	if err != nil {
		t.Fatal(err)
	}
	defer func() { <-fe.Stop() }()

	c, err := net.DialUDP("udp", nil, fe.socket.LocalAddr().(*net.UDPAddr))
	if err != nil {
		t.Fatal(err)
	}
	defer c.Close()

	connect := append(append([]byte{}, initialConnectionID...), 0, 0, 0, 0, 1, 2, 3, 4)
	resp := auditC3BigRoundTrip(t, c, connect)
	if len(resp) != 16 {
		t.Fatalf("bad connect response %x", resp)
	}
	connID := append([]byte{}, resp[8:16]...)

	announce := func(numWant uint32) []byte {
		pkt := make([]byte, 98)
		copy(pkt[0:8], connID)
		binary.BigEndian.PutUint32(pkt[8:12], announceActionID)
		copy(pkt[12:16], []byte{9, 9, 9, 9})
		copy(pkt[16:36], ih[:])
		copy(pkt[36:56], "-AU0001-zzzzzzzzzzzz")
		binary.BigEndian.PutUint64(pkt[64:72], 100)
		binary.BigEndian.PutUint32(pkt[92:96], numWant)
		binary.BigEndian.PutUint16(pkt[96:98], 6881)
		return auditC3BigRoundTrip(t, c, pkt)
	}

	// Control: the same announce asking for 100 peers is answered.
	if resp := announce(100); len(resp) != 20+100*6 {
		t.Fatalf("control announce: unexpected response of %d bytes", len(resp))
	}
	// A well-formed announce within the configured limit.
	if resp := announce(15000); resp == nil {
		t.Fatalf("C13 violated: a well-formed announce (num_want=15000, max_numwant=20000, swarm of 12000) received no response at all")
	}
}
