package memory

// Audit C3, finding 5 (property C20, range-safety): Config.Validate keeps every
// shard_count up to math.MaxInt/2 ("can be doubled without overflow"), but the
// store cannot be built from such a value: New panics in make() (or, for
// smaller but still absurd values, exhausts memory) instead of falling back to
// the default like it does for every other out-of-range value.
//
// Copy into storage/memory/ and run:
//   go test -vet=off -count=1 -run TestAuditC3_ShardCount ./storage/memory/

import (
	"math"
	"testing"

	yaml "gopkg.in/yaml.v2"
)

func TestAuditC3_ShardCount_ValidatedValueCrashesNew(t *testing.T) {
	// The value as an operator would write it.
	var icfg interface{}
	if err := yaml.Unmarshal([]byte("shard_count: 4611686018427387903\n"), &icfg); err != nil {
		t.Fatal(err)
	}

	provided := Config{ShardCount: math.MaxInt / 2}
	valid := provided.Validate()
	if valid.ShardCount != provided.ShardCount {
		t.Skipf("Validate replaced the value by %d; nothing to show", valid.ShardCount)
	}
	if again := valid.Validate(); again != valid {
		t.Fatalf("Validate is not idempotent: %+v vs %+v", again, valid)
	}

	defer func() {
		if r := recover(); r != nil {
			t.Fatalf("C20 violated: Validate() declares shard_count=%d valid, but building the store from the validated configuration panics: %v", valid.ShardCount, r)
		}
	}()
	ps, err := driver{}.NewPeerStore(icfg)
	if err != nil {
		// A refusal would be fine too.
		t.Logf("refused: %v", err)
		return
	}
	<-ps.Stop()
}
