package varinterval

// Audit C3, finding 6 (property C18; low severity, needs an absurd
// announce_interval): checkConfig bounds max_increase_delta so that the delta
// itself fits a time.Duration (fix 0b0164d), but the sum interval+delta is not
// guarded. With a configured interval above ~224 years and max_increase_delta
// at its documented maximum the sum wraps and the response carries a NEGATIVE
// interval, i.e. the hook shortens the interval.
//
// Copy into middleware/varinterval/ and run:
//   go test -vet=off -count=1 -run TestAuditC3_IntervalSum ./middleware/varinterval/

import (
	"context"
	"math/rand"
	"testing"
	"time"

	"github.com/chihaya/chihaya/bittorrent"
)

func TestAuditC3_IntervalSum_Wraps(t *testing.T) {
	// Both values are accepted by the YAML loader / checkConfig.
	configured, err := time.ParseDuration("2000000h")
	if err != nil {
		t.Fatal(err)
	}
	h, err := NewHook(Config{ModifyResponseProbability: 1, MaxIncreaseDelta: 2147483647, ModifyMinInterval: true})
	if err != nil {
		t.Fatal(err)
	}

	rng := rand.New(rand.NewSource(1)) // fixed seed: the peer IDs are the same on every run
	for i := 0; i < 1000; i++ {
		id := []byte("-AU0001-xxxxxxxxxxxx")
		rng.Read(id[8:])
		req := &bittorrent.AnnounceRequest{
			InfoHash: bittorrent.InfoHashFromString("aaaaaaaaaaaaaaaaaaaa"),
			Peer:     bittorrent.Peer{ID: bittorrent.PeerIDFromBytes(id)},
		}
		resp := &bittorrent.AnnounceResponse{Interval: configured, MinInterval: configured}
		if _, err := h.HandleAnnounce(context.Background(), req, resp); err != nil {
			t.Fatal(err)
		}
		d := resp.Interval - configured // wraps back to the true delta
		if resp.Interval < configured {
			t.Fatalf("C18 violated: peer %x: configured interval %v, delta %v, interval in the response %v (%d s) - shorter than configured, negative",
				req.Peer.ID[:], configured, d, resp.Interval, int64(resp.Interval/time.Second))
		}
	}
}
