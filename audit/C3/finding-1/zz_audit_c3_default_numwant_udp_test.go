package udp

// Audit C3, finding 1 (property C20), UDP side: an announce with num_want = -1
// ("default") is answered with default_numwant peers even when that is more
// than the validated max_numwant.
//
// Copy into frontend/udp/ and run:
//   go test -vet=off -count=1 -run TestAuditC3 ./frontend/udp/

import (
	"encoding/binary"
	"fmt"
	"net"
	"testing"
	"time"

	"github.com/chihaya/chihaya/bittorrent"
	"github.com/chihaya/chihaya/middleware"
	"github.com/chihaya/chihaya/storage/memory"
)

func auditC3NumwantSwarm(t *testing.T, n int) (*middleware.Logic, bittorrent.InfoHash) {
	t.Helper()
	ps, err := memory.New(memory.Config{ShardCount: 1, GarbageCollectionInterval: time.Hour, PeerLifetime: time.Hour, PrometheusReportingInterval: time.Hour})
	if err != nil {
		t.Fatal(err)
	}
	ih := bittorrent.InfoHashFromString("aaaaaaaaaaaaaaaaaaaa")
	for i := 0; i < n; i++ {
		p := bittorrent.Peer{
			ID:   bittorrent.PeerIDFromString(fmt.Sprintf("-AU0001-%012d", i)),
			IP:   bittorrent.IP{IP: net.IPv4(10, 0, byte(i>>8), byte(i)).To4(), AddressFamily: bittorrent.IPv4},
			Port: 1000,
		}
		if err := ps.PutSeeder(ih, p); err != nil {
			t.Fatal(err)
		}
	}
	return middleware.NewLogic(middleware.ResponseConfig{AnnounceInterval: 30 * time.Minute}, ps, nil, nil), ih
}

// auditC3NumwantRoundTrip sends pkt and returns the answer (nil on timeout).
func auditC3NumwantRoundTrip(t *testing.T, c *net.UDPConn, pkt []byte) []byte {
	t.Helper()
	if _, err := c.Write(pkt); err != nil {
		t.Fatal(err)
	}
	buf := make([]byte, 65536)
	_ = c.SetReadDeadline(time.Now().Add(2 * time.Second))
	n, err := c.Read(buf)
	if err != nil {
		return nil
	}
	return buf[:n]
}

func auditC3NumwantAnnounce(t *testing.T, fe *Frontend, ih bittorrent.InfoHash, numWant uint32) int {
	t.Helper()
	c, err := net.DialUDP("udp", nil, fe.socket.LocalAddr().(*net.UDPAddr))
	if err != nil {
		t.Fatal(err)
	}
	defer c.Close()

	connect := append(append([]byte{}, initialConnectionID...), 0, 0, 0, 0, 1, 2, 3, 4)
	resp := auditC3NumwantRoundTrip(t, c, connect)
	if len(resp) != 16 {
		t.Fatalf("bad connect response %x", resp)
	}
	connID := resp[8:16]

	pkt := make([]byte, 98)
	copy(pkt[0:8], connID)
	binary.BigEndian.PutUint32(pkt[8:12], announceActionID)
	copy(pkt[12:16], []byte{9, 9, 9, 9})
	copy(pkt[16:36], ih[:])
	copy(pkt[36:56], "-AU0001-zzzzzzzzzzzz")
	binary.BigEndian.PutUint64(pkt[64:72], 100) // left
	binary.BigEndian.PutUint32(pkt[92:96], numWant)
	binary.BigEndian.PutUint16(pkt[96:98], 6881)
	resp = auditC3NumwantRoundTrip(t, c, pkt)
	if len(resp) < 20 || binary.BigEndian.Uint32(resp[0:4]) != announceActionID {
		t.Fatalf("bad announce response %q", resp)
	}
	return (len(resp) - 20) / 6
}

func TestAuditC3_UDP_MaxNumWantAlone_DefaultExceedsIt(t *testing.T) {
	lgc, ih := auditC3NumwantSwarm(t, 80)
	// Only max_numwant is configured; default_numwant is left to Validate.
	fe, err := NewFrontend(lgc, Config{Addr: "127.0.0.1:0", ParseOptions: ParseOptions{MaxNumWant: 25}})
	if err != nil {
		t.Fatal(err)
	}
	defer func() { <-fe.Stop() }()

	if fe.MaxNumWant != 25 {
		t.Fatalf("max_numwant not preserved: %d", fe.MaxNumWant)
	}
	// Sanity: an explicit num_want is capped.
	if n := auditC3NumwantAnnounce(t, fe, ih, 70); n > 25 {
		t.Fatalf("explicit num_want=70 returned %d peers", n)
	}
	// BEP 15: num_want = -1 means "default".
	if n := auditC3NumwantAnnounce(t, fe, ih, 0xffffffff); n > int(fe.MaxNumWant) {
		t.Fatalf("C20 violated: announce with default num_want returned %d peers although the validated max_numwant is %d (validated default_numwant=%d)",
			n, fe.MaxNumWant, fe.DefaultNumWant)
	}
}
