package http

// Audit C3, finding 1 (property C20): the HTTP frontend hands out more peers
// than max_numwant when the client sends no numwant, because the validated
// configuration keeps (or itself fills in) a default_numwant above max_numwant.
//
// Copy into frontend/http/ and run:
//   go test -vet=off -count=1 -run TestAuditC3 ./frontend/http/

import (
	"fmt"
	"net"
	"net/http/httptest"
	"net/url"
	"strings"
	"testing"
	"time"

	yaml "gopkg.in/yaml.v2"

	"github.com/chihaya/chihaya/bittorrent"
	"github.com/chihaya/chihaya/frontend/http/bencode"
	"github.com/chihaya/chihaya/middleware"
	"github.com/chihaya/chihaya/storage/memory"
)

func auditC3FillSwarm(t *testing.T, n int) (*middleware.Logic, bittorrent.InfoHash) {
	t.Helper()
	ps, err := memory.New(memory.Config{ShardCount: 1, GarbageCollectionInterval: time.Hour, PeerLifetime: time.Hour, PrometheusReportingInterval: time.Hour})
	if err != nil {
		t.Fatal(err)
	}
	ih := bittorrent.InfoHashFromString("aaaaaaaaaaaaaaaaaaaa")
	for i := 0; i < n; i++ {
		p := bittorrent.Peer{
			ID:   bittorrent.PeerIDFromString(fmt.Sprintf("-AU0001-%012d", i)),
			IP:   bittorrent.IP{IP: net.IPv4(10, 0, byte(i>>8), byte(i)).To4(), AddressFamily: bittorrent.IPv4},
			Port: 1000,
		}
		if err := ps.PutSeeder(ih, p); err != nil {
			t.Fatal(err)
		}
	}
	lgc := middleware.NewLogic(middleware.ResponseConfig{AnnounceInterval: 30 * time.Minute, MinAnnounceInterval: 15 * time.Minute}, ps, nil, nil)
	return lgc, ih
}

func auditC3Announce(t *testing.T, f *Frontend, ih bittorrent.InfoHash, extra string) int {
	t.Helper()
	q := "/announce?info_hash=" + url.QueryEscape(string(ih[:])) +
		"&peer_id=-AU0001-zzzzzzzzzzzz&port=6881&uploaded=0&downloaded=0&left=100&compact=1" + extra
	r := httptest.NewRequest("GET", q, nil)
	r.RemoteAddr = "192.0.2.1:4000"
	w := httptest.NewRecorder()
	f.handler().ServeHTTP(w, r)
	v, err := bencode.NewDecoder(strings.NewReader(w.Body.String())).Decode()
	if err != nil {
		t.Fatalf("undecodable response %q: %v", w.Body.String(), err)
	}
	d := v.(bencode.Dict)
	if fr, ok := d["failure reason"]; ok {
		t.Fatalf("announce failed: %v", fr)
	}
	peers, _ := d["peers"].(string)
	return len(peers) / 6
}

// The operator only lowers the maximum, exactly as one would after reading
// "max_numwant: The maximum number of peers returned for an individual
// request" in dist/example_config.yaml. default_numwant is left out.
func TestAuditC3_HTTP_MaxNumWantAlone_DefaultExceedsIt(t *testing.T) {
	var provided Config
	if err := yaml.Unmarshal([]byte("addr: \"127.0.0.1:0\"\nannounce_routes: [\"/announce\"]\nscrape_routes: [\"/scrape\"]\nmax_numwant: 25\n"), &provided); err != nil {
		t.Fatal(err)
	}
	cfg := provided.Validate() // what NewFrontend does first
	if cfg.MaxNumWant != 25 {
		t.Fatalf("max_numwant not preserved: %d", cfg.MaxNumWant)
	}

	lgc, ih := auditC3FillSwarm(t, 80)
	f := &Frontend{logic: lgc, Config: cfg}

	// Sanity: the explicit path is capped (this part of C20 holds).
	if n := auditC3Announce(t, f, ih, "&numwant=70"); n > 25 {
		t.Fatalf("explicit numwant=70 returned %d peers, max_numwant is 25", n)
	}
	// The violation: no numwant at all.
	if n := auditC3Announce(t, f, ih, ""); n > int(cfg.MaxNumWant) {
		t.Fatalf("C20 violated: announce without numwant returned %d peers although the validated max_numwant is %d (validated default_numwant=%d)",
			n, cfg.MaxNumWant, cfg.DefaultNumWant)
	}
}

// Same with both options written out, default above max.
func TestAuditC3_HTTP_DefaultAboveMax(t *testing.T) {
	cfg := Config{
		Addr: "127.0.0.1:0", AnnounceRoutes: []string{"/announce"}, ScrapeRoutes: []string{"/scrape"},
		ParseOptions: ParseOptions{MaxNumWant: 10, DefaultNumWant: 60},
	}.Validate()
	lgc, ih := auditC3FillSwarm(t, 80)
	f := &Frontend{logic: lgc, Config: cfg}
	if n := auditC3Announce(t, f, ih, ""); n > int(cfg.MaxNumWant) {
		t.Fatalf("C20 violated: announce without numwant returned %d peers although max_numwant is %d", n, cfg.MaxNumWant)
	}
}
