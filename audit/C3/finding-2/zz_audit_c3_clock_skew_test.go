package udp

// Audit C3, finding 2 (property C20): a negative max_clock_skew survives
// Config.Validate unchanged, and the UDP tracker built from it refuses every
// connection ID it has just issued, i.e. it never answers an announce or a
// scrape.
//
// Copy into frontend/udp/ and run:
//   go test -vet=off -count=1 -run TestAuditC3_ClockSkew ./frontend/udp/

import (
	"encoding/binary"
	"net"
	"testing"
	"time"

	yaml "gopkg.in/yaml.v2"

	"github.com/chihaya/chihaya/middleware"
	"github.com/chihaya/chihaya/storage/memory"
)

func auditC3SkewRoundTrip(t *testing.T, c *net.UDPConn, pkt []byte) []byte {
	t.Helper()
	if _, err := c.Write(pkt); err != nil {
		t.Fatal(err)
	}
	buf := make([]byte, 65536)
	_ = c.SetReadDeadline(time.Now().Add(2 * time.Second))
	n, err := c.Read(buf)
	if err != nil {
		return nil
	}
	return buf[:n]
}

func TestAuditC3_ClockSkew_NegativeSurvivesValidate(t *testing.T) {
	var provided Config
	if err := yaml.Unmarshal([]byte("addr: \"127.0.0.1:0\"\nmax_clock_skew: \"-3m\"\nprivate_key: \"k\"\n"), &provided); err != nil {
		t.Fatal(err)
	}
	valid := provided.Validate()
	if valid.MaxClockSkew < 0 {
		t.Errorf("C20 violated: Validate left max_clock_skew = %v; every timeout, interval and limit is supposed to come out positive (non-positive values are replaced by defaults everywhere else)", valid.MaxClockSkew)
	}
}

func TestAuditC3_ClockSkew_TrackerRefusesItsOwnConnectionIDs(t *testing.T) {
	ps, err := memory.New(memory.Config{ShardCount: 1, GarbageCollectionInterval: time.Hour, PeerLifetime: time.Hour, PrometheusReportingInterval: time.Hour})
	if err != nil {
		t.Fatal(err)
	}
	lgc := middleware.NewLogic(middleware.ResponseConfig{AnnounceInterval: 30 * time.Minute}, ps, nil, nil)
	fe, err := NewFrontend(lgc, Config{Addr: "127.0.0.1:0", PrivateKey: "k", MaxClockSkew: -3 * time.Minute})
	if err != nil {
		t.Fatal(err)
	}
	defer func() { <-fe.Stop() }()

	c, err := net.DialUDP("udp", nil, fe.socket.LocalAddr().(*net.UDPAddr))
	if err != nil {
		t.Fatal(err)
	}
	defer c.Close()

	connect := append(append([]byte{}, initialConnectionID...), 0, 0, 0, 0, 1, 2, 3, 4)
	resp := auditC3SkewRoundTrip(t, c, connect)
	if len(resp) != 16 || binary.BigEndian.Uint32(resp[0:4]) != connectActionID {
		t.Fatalf("bad connect response %x", resp)
	}
	connID := resp[8:16]

	// A well-formed announce carrying the connection ID obtained a moment ago.
	pkt := make([]byte, 98)
	copy(pkt[0:8], connID)
	binary.BigEndian.PutUint32(pkt[8:12], announceActionID)
	copy(pkt[12:16], []byte{9, 9, 9, 9})
	copy(pkt[16:36], "aaaaaaaaaaaaaaaaaaaa")
	copy(pkt[36:56], "-AU0001-zzzzzzzzzzzz")
	binary.BigEndian.PutUint64(pkt[64:72], 100)
	binary.BigEndian.PutUint32(pkt[92:96], 10)
	binary.BigEndian.PutUint16(pkt[96:98], 6881)
	resp = auditC3SkewRoundTrip(t, c, pkt)
	if len(resp) < 8 {
		t.Fatalf("no answer to the announce")
	}
	if action := binary.BigEndian.Uint32(resp[0:4]); action != announceActionID {
		t.Fatalf("C20 violated: the tracker built from max_clock_skew=-3m answers a well-formed announce carrying a fresh connection ID with action %d, message %q", action, resp[8:])
	}
}
