package http

// Audit C3, finding 4 (property C20): idle_timeout is validated (and defaulted)
// but only handed to the plain-HTTP server. The HTTPS server is built without
// it, so net/http falls back to read_timeout: keep-alive connections over
// HTTPS are dropped after read_timeout (default 2s) instead of idle_timeout
// (default 30s).
//
// Copy into frontend/http/ and run:
//   go test -vet=off -count=1 -run TestAuditC3_HTTPSIdle ./frontend/http/

import (
	"bufio"
	"crypto/ecdsa"
	"crypto/elliptic"
	"crypto/rand"
	"crypto/tls"
	"crypto/x509"
	"crypto/x509/pkix"
	"encoding/pem"
	"fmt"
	"io"
	"math/big"
	"net"
	nethttp "net/http"
	"os"
	"path/filepath"
	"testing"
	"time"

	"github.com/chihaya/chihaya/middleware"
	"github.com/chihaya/chihaya/storage/memory"
)

func auditC3FreeAddr(t *testing.T) string {
	t.Helper()
	l, err := net.Listen("tcp", "127.0.0.1:0")
	if err != nil {
		t.Fatal(err)
	}
	defer l.Close()
	return l.Addr().String()
}

func auditC3SelfSigned(t *testing.T) (certPath, keyPath string) {
	t.Helper()
	key, err := ecdsa.GenerateKey(elliptic.P256(), rand.Reader)
	if err != nil {
		t.Fatal(err)
	}
	tmpl := &x509.Certificate{
		SerialNumber: big.NewInt(1),
		Subject:      pkix.Name{CommonName: "127.0.0.1"},
		NotBefore:    time.Now().Add(-time.Hour),
		NotAfter:     time.Now().Add(time.Hour),
		IPAddresses:  []net.IP{net.IPv4(127, 0, 0, 1)},
		KeyUsage:     x509.KeyUsageDigitalSignature,
		ExtKeyUsage:  []x509.ExtKeyUsage{x509.ExtKeyUsageServerAuth},
	}
	der, err := x509.CreateCertificate(rand.Reader, tmpl, tmpl, &key.PublicKey, key)
	if err != nil {
		t.Fatal(err)
	}
	keyDER, err := x509.MarshalECPrivateKey(key)
	if err != nil {
		t.Fatal(err)
	}
	dir := t.TempDir()
	certPath, keyPath = filepath.Join(dir, "cert.pem"), filepath.Join(dir, "key.pem")
	if err := os.WriteFile(certPath, pem.EncodeToMemory(&pem.Block{Type: "CERTIFICATE", Bytes: der}), 0o600); err != nil {
		t.Fatal(err)
	}
	if err := os.WriteFile(keyPath, pem.EncodeToMemory(&pem.Block{Type: "EC PRIVATE KEY", Bytes: keyDER}), 0o600); err != nil {
		t.Fatal(err)
	}
	return
}

// auditC3TwoRequests sends a scrape, stays idle for `idle`, and sends a second
// scrape over the same connection. It reports whether the second one was
// answered.
func auditC3TwoRequests(t *testing.T, conn net.Conn, idle time.Duration) bool {
	t.Helper()
	br := bufio.NewReader(conn)
	do := func() error {
		_ = conn.SetDeadline(time.Now().Add(5 * time.Second))
		if _, err := fmt.Fprintf(conn, "GET /scrape?info_hash=aaaaaaaaaaaaaaaaaaaa HTTP/1.1\r\nHost: x\r\n\r\n"); err != nil {
			return err
		}
		resp, err := nethttp.ReadResponse(br, nil)
		if err != nil {
			return err
		}
		_, err = io.Copy(io.Discard, resp.Body)
		resp.Body.Close()
		return err
	}
	if err := do(); err != nil {
		t.Fatalf("first request failed: %v", err)
	}
	time.Sleep(idle)
	return do() == nil
}

func TestAuditC3_HTTPSIdle_TimeoutNotHonoured(t *testing.T) {
	ps, err := memory.New(memory.Config{ShardCount: 1, GarbageCollectionInterval: time.Hour, PeerLifetime: time.Hour, PrometheusReportingInterval: time.Hour})
	if err != nil {
		t.Fatal(err)
	}
	lgc := middleware.NewLogic(middleware.ResponseConfig{AnnounceInterval: 30 * time.Minute}, ps, nil, nil)
	certPath, keyPath := auditC3SelfSigned(t)

	cfg := Config{
		Addr:            auditC3FreeAddr(t),
		HTTPSAddr:       auditC3FreeAddr(t),
		TLSCertPath:     certPath,
		TLSKeyPath:      keyPath,
		ReadTimeout:     300 * time.Millisecond,
		WriteTimeout:    300 * time.Millisecond,
		IdleTimeout:     20 * time.Second,
		EnableKeepAlive: true,
		AnnounceRoutes:  []string{"/announce"},
		ScrapeRoutes:    []string{"/scrape"},
	}
	if v := cfg.Validate(); v.IdleTimeout != 20*time.Second || v.ReadTimeout != 300*time.Millisecond {
		t.Fatalf("Validate changed valid timeouts: %+v", v)
	}
	fe, err := NewFrontend(lgc, cfg)
	if err != nil {
		t.Fatal(err)
	}
	defer func() { <-fe.Stop() }()

	// Control: plain HTTP keeps an idle keep-alive connection for idle_timeout.
	plain, err := net.Dial("tcp", cfg.Addr)
	if err != nil {
		t.Fatal(err)
	}
	defer plain.Close()
	if !auditC3TwoRequests(t, plain, 1500*time.Millisecond) {
		t.Fatalf("control failed: plain HTTP dropped a connection idle for 1.5s although idle_timeout is 20s")
	}

	// The same over HTTPS.
	secure, err := tls.Dial("tcp", cfg.HTTPSAddr, &tls.Config{InsecureSkipVerify: true, NextProtos: []string{"http/1.1"}})
	if err != nil {
		t.Fatal(err)
	}
	defer secure.Close()
	if !auditC3TwoRequests(t, secure, 1500*time.Millisecond) {
		t.Errorf("C20 violated: HTTPS dropped a keep-alive connection idle for 1.5s although the validated idle_timeout is 20s (it applied read_timeout=300ms instead)")
	}

	if fe.tlsSrv.IdleTimeout != fe.srv.IdleTimeout {
		t.Errorf("HTTPS server IdleTimeout = %v, HTTP server IdleTimeout = %v, validated idle_timeout = %v", fe.tlsSrv.IdleTimeout, fe.srv.IdleTimeout, fe.IdleTimeout)
	}
}
