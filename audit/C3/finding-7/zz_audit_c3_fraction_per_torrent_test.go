package varinterval

// Audit C3, finding 7 (property C18, sentence "across clients the configured
// fraction of responses is modified"; interpretation-dependent, see README).
//
// Whether a response is modified is decided by the low 24 bits of
//   (ih[0:8] + ih[8:16] + id[0:8] + id[8:16])
// i.e. ONLY by bytes 5-7 and 13-15 of the infohash and of the peer ID, added
// without any mixing, and compared from the top byte down. Real peer IDs do
// not have uniformly distributed bytes there: bytes 5-7 are the client version
// ("40-" in "-TR2940-") and bytes 13-15 are drawn from the client's alphabet
// (Transmission: [0-9a-z]). For a given torrent the modified fraction among
// such clients is therefore not the configured one but 0 %, 11 %, 28 %, 72 % ...
// depending on the infohash.
//
// This test enumerates every value of the three deciding peer-ID bytes over
// Transmission's alphabet (36^3 = 46656 clients) for one torrent and compares
// the modified fraction with the configured probability 0.2.
//
// Copy into middleware/varinterval/ and run:
//   go test -vet=off -count=1 -run TestAuditC3_Fraction ./middleware/varinterval/

import (
	"context"
	"encoding/hex"
	"testing"

	"github.com/chihaya/chihaya/bittorrent"
)

func auditC3Fraction(t *testing.T, ihHex string) float64 {
	t.Helper()
	h, err := NewHook(Config{ModifyResponseProbability: 0.2, MaxIncreaseDelta: 60})
	if err != nil {
		t.Fatal(err)
	}
	ihBytes, err := hex.DecodeString(ihHex)
	if err != nil {
		t.Fatal(err)
	}
	ih := bittorrent.InfoHashFromBytes(ihBytes)
	const alphabet = "0123456789abcdefghijklmnopqrstuvwxyz"
	total, modified := 0, 0
	for _, a := range []byte(alphabet) {
		for _, b := range []byte(alphabet) {
			for _, c := range []byte(alphabet) {
				id := []byte("-TR2940-k8hj0wgej6ch")
				id[13], id[14], id[15] = a, b, c
				req := &bittorrent.AnnounceRequest{InfoHash: ih, Peer: bittorrent.Peer{ID: bittorrent.PeerIDFromBytes(id)}}
				resp := &bittorrent.AnnounceResponse{}
				if _, err := h.HandleAnnounce(context.Background(), req, resp); err != nil {
					t.Fatal(err)
				}
				total++
				if resp.Interval != 0 {
					modified++
				}
			}
		}
	}
	return float64(modified) / float64(total)
}

func TestAuditC3_Fraction_PerTorrent(t *testing.T) {
	for _, ih := range []string{
		"da39a3ee5e6b4b0d3255bfef95601890afd80709", // SHA-1 of the empty string
		"123456789abcdef0123456789abcdef012345678",
		"0000000000000000000000000000000000000000",
	} {
		got := auditC3Fraction(t, ih)
		if got < 0.15 || got > 0.25 {
			t.Errorf("C18 violated: torrent %s: modify_response_probability=0.2, but %.1f %% of the 46656 Transmission-style clients get a modified interval", ih, 100*got)
		}
	}
}
