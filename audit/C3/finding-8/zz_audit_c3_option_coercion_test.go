package varinterval

// Audit C3, finding 8 (property C20, sentence "hook options outside their
// documented ranges are refused at start-up"; trivial severity).
//
// docs/middleware/interval_variation.md documents
//   modify_response_probability (float, >0, <= 1)
//   max_increase_delta          (int,   >0, <= 2147483647)
// The options are decoded into a float32 and an int by yaml.v2, which rounds
// and truncates silently before checkConfig sees them.
//
// Copy into middleware/varinterval/ and run:
//   go test -vet=off -count=1 -run TestAuditC3_Coercion ./middleware/varinterval/

import (
	"testing"

	yaml "gopkg.in/yaml.v2"

	"github.com/chihaya/chihaya/middleware"
)

func auditC3Build(t *testing.T, doc string) (middleware.Hook, error) {
	t.Helper()
	// The same path cmd/chihaya takes: YAML -> HookConfig -> HooksFromHookConfigs.
	var cfgs []middleware.HookConfig
	if err := yaml.Unmarshal([]byte(doc), &cfgs); err != nil {
		return nil, err
	}
	hooks, err := middleware.HooksFromHookConfigs(cfgs)
	if err != nil {
		return nil, err
	}
	return hooks[0], nil
}

func TestAuditC3_Coercion_ProbabilityAboveOneAccepted(t *testing.T) {
	h, err := auditC3Build(t, "- name: interval variation\n  options:\n    modify_response_probability: 1.00000005\n    max_increase_delta: 5\n")
	if err == nil {
		t.Errorf("C20 violated: modify_response_probability: 1.00000005 (> 1, outside the documented range) was accepted as %v", h.(*hook).cfg.ModifyResponseProbability)
	}
}

func TestAuditC3_Coercion_FractionalDeltaAccepted(t *testing.T) {
	h, err := auditC3Build(t, "- name: interval variation\n  options:\n    modify_response_probability: 0.5\n    max_increase_delta: 60.7\n")
	if err == nil {
		t.Errorf("C20 violated: max_increase_delta: 60.7 (not an int) was accepted as %d", h.(*hook).cfg.MaxIncreaseDelta)
	}
}
