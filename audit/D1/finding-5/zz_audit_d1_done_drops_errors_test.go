package stop

// Audit D1, finding 5 (property C16, pkg/stop): Channel.Done "adds zero or
// more errors to the Channel", but it only looks at the first one: when
// errs[0] is nil the whole list is dropped and the channel is closed as for a
// clean shutdown. A member that shuts down two things and reports
// Done(errA, errB) loses errB whenever errA is nil, and so does a Group it is
// a member of: the group does not report every member's error.
//
// Copy into pkg/stop and run:
//   go test -vet=off -count=1 -run 'TestAuditD1' ./pkg/stop/

import (
	"errors"
	"testing"
)

type d1Member struct{ errs []error }

func (m d1Member) Stop() Result {
	c := make(Channel)
	go c.Done(m.errs...)
	return c.Result()
}

func TestAuditD1DoneDropsErrorsBehindANil(t *testing.T) {
	errB := errors.New("second resource failed to close")

	// Control: the same two results in the other order are reported.
	if errs := (d1Member{[]error{errB, nil}}).Stop().Wait(); len(errs) == 0 {
		t.Fatal("control failed: Done(errB, nil) reported nothing")
	}

	if errs := (d1Member{[]error{nil, errB}}).Stop().Wait(); len(errs) == 0 {
		t.Errorf("C16 violated: Done(nil, errB) reported a clean shutdown; errB is lost")
	}

	g := NewGroup()
	g.Add(d1Member{nil})                 // stops cleanly
	g.Add(d1Member{[]error{nil, errB}}) // first part fine, second part fails
	found := false
	for _, err := range g.Stop().Wait() {
		if errors.Is(err, errB) {
			found = true
		}
	}
	if !found {
		t.Errorf("C16 violated: the group's Stop does not report the failing member's error")
	}
}
