package jwt

// Audit D1, finding 1 (property C15): a JWK set that lists a null entry makes
// the key refresh panic with a nil pointer dereference. In the refresh
// goroutine nothing recovers the panic, so one refresh takes the whole tracker
// process down - the strongest possible way of "disturbing" the announces.
//
// Copy into middleware/jwt and run:
//   go test -vet=off -count=1 -run 'TestAuditD1JWKNull' ./middleware/jwt/

import (
	"context"
	"crypto"
	"crypto/rand"
	"crypto/rsa"
	"encoding/base64"
	"encoding/hex"
	"encoding/json"
	"fmt"
	"math/big"
	"net/http"
	"net/http/httptest"
	"os"
	"os/exec"
	"sync/atomic"
	"testing"
	"time"

	"github.com/chihaya/chihaya/bittorrent"
)

func d1b64(b []byte) string { return base64.RawURLEncoding.EncodeToString(b) }

func d1JWK(kid string, pub *rsa.PublicKey) string {
	return fmt.Sprintf(`{"kty":"RSA","kid":%q,"n":%q,"e":%q}`,
		kid, d1b64(pub.N.Bytes()), d1b64(big.NewInt(int64(pub.E)).Bytes()))
}

func d1Token(t *testing.T, key *rsa.PrivateKey, kid string, claims map[string]interface{}) string {
	t.Helper()
	hdr, _ := json.Marshal(map[string]interface{}{"alg": "RS256", "typ": "JWT", "kid": kid})
	pl, _ := json.Marshal(claims)
	signing := d1b64(hdr) + "." + d1b64(pl)
	h := crypto.SHA256.New()
	h.Write([]byte(signing))
	sig, err := rsa.SignPKCS1v15(rand.Reader, key, crypto.SHA256, h.Sum(nil))
	if err != nil {
		t.Fatal(err)
	}
	return signing + "." + d1b64(sig)
}

type d1Params map[string]string

func (p d1Params) String(k string) (string, bool) { v, ok := p[k]; return v, ok }
func (p d1Params) RawPath() string                { return "" }
func (p d1Params) RawQuery() string               { return "" }

// The refresh is called exactly as the background loop calls it. The set
// publishes a new key next to a null entry: the refresh must neither panic nor
// keep the new key from taking effect (entries that do not decode are skipped).
func TestAuditD1JWKNullEntryRefreshPanics(t *testing.T) {
	oldKey, _ := rsa.GenerateKey(rand.Reader, 2048)
	newKey, _ := rsa.GenerateKey(rand.Reader, 2048)

	var rotated atomic.Bool
	srv := httptest.NewServer(http.HandlerFunc(func(w http.ResponseWriter, r *http.Request) {
		if rotated.Load() {
			fmt.Fprintf(w, `{"keys":[null,%s]}`, d1JWK("new", &newKey.PublicKey))
			return
		}
		fmt.Fprintf(w, `{"keys":[%s]}`, d1JWK("old", &oldKey.PublicKey))
	}))
	defer srv.Close()

	hk, err := NewHook(Config{Issuer: "iss", Audience: "aud", JWKSetURL: srv.URL, JWKUpdateInterval: time.Hour})
	if err != nil {
		t.Fatal(err)
	}
	h := hk.(*hook)
	defer func() { <-h.Stop() }()

	rotated.Store(true)
	func() {
		defer func() {
			if r := recover(); r != nil {
				t.Errorf("C15 violated: the key refresh panicked on a JWK set with a null entry: %v\n"+
					"(the refresh goroutine of NewHook has no recover: the process dies)", r)
			}
		}()
		_ = h.updateKeys()
	}()

	ih := bittorrent.InfoHashFromString("aaaaaaaaaaaaaaaaaaaa")
	tok := d1Token(t, newKey, "new", map[string]interface{}{
		"iss": "iss", "aud": "aud", "infohash": hex.EncodeToString(ih[:]),
		"exp": time.Now().Unix() + 3600,
	})
	req := &bittorrent.AnnounceRequest{InfoHash: ih, Params: d1Params{"jwt": tok}}
	if _, err := h.HandleAnnounce(context.Background(), req, &bittorrent.AnnounceResponse{}); err != nil {
		t.Errorf("C15 violated: the key published next to the null entry did not take effect: %v", err)
	}
}

// End to end: the hook as the tracker runs it, in a child process. The JWK
// server answers the initial fetch with a proper set and the first periodic
// refresh with {"keys":[null]}. The child must survive the refresh.
func TestAuditD1JWKNullEntryKillsProcess(t *testing.T) {
	if url := os.Getenv("AUDIT_D1_JWK_URL"); url != "" {
		hk, err := NewHook(Config{Issuer: "iss", Audience: "aud", JWKSetURL: url, JWKUpdateInterval: 100 * time.Millisecond})
		if err != nil {
			fmt.Println("CHILD-NEWHOOK-FAILED", err)
			os.Exit(3)
		}
		time.Sleep(1 * time.Second) // several refreshes
		<-hk.(*hook).Stop()
		fmt.Println("CHILD-SURVIVED")
		os.Exit(0)
	}

	key, _ := rsa.GenerateKey(rand.Reader, 2048)
	var fetches atomic.Int32
	srv := httptest.NewServer(http.HandlerFunc(func(w http.ResponseWriter, r *http.Request) {
		if fetches.Add(1) == 1 {
			fmt.Fprintf(w, `{"keys":[%s]}`, d1JWK("k", &key.PublicKey))
			return
		}
		fmt.Fprint(w, `{"keys":[null]}`)
	}))
	defer srv.Close()

	cmd := exec.Command(os.Args[0], "-test.run", "^TestAuditD1JWKNullEntryKillsProcess$")
	cmd.Env = append(os.Environ(), "AUDIT_D1_JWK_URL="+srv.URL)
	out, err := cmd.CombinedOutput()
	if err != nil {
		tail := out
		if len(tail) > 1500 {
			tail = tail[:1500]
		}
		t.Fatalf("C15 violated: the tracker process died on a periodic refresh that fetched {\"keys\":[null]}: %v\n%s", err, tail)
	}
}
