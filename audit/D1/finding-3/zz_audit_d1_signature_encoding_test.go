package jwt

// Audit D1, finding 3 (property C15): the third segment of the token is not
// required to be the base64url encoding of the signature. A valid token whose
// signature segment has been changed - wrapped in double quotes, broken by a
// line feed, or ending in another character that decodes to the same bytes
// (non-zero padding bits) - still passes, although none of these strings is a
// JWS compact serialisation (RFC 7515 section 2 and 7.1: base64url "with all
// trailing '=' characters omitted and without the inclusion of any line
// breaks, whitespace, or other additional characters").
//
// Copy into middleware/jwt and run:
//   go test -vet=off -count=1 -run 'TestAuditD1SignatureEncoding' ./middleware/jwt/

import (
	"crypto"
	"crypto/rand"
	"crypto/rsa"
	"encoding/base64"
	"encoding/hex"
	"fmt"
	"strings"
	"testing"

	"github.com/chihaya/chihaya/bittorrent"
)

func TestAuditD1SignatureEncoding(t *testing.T) {
	key, _ := rsa.GenerateKey(rand.Reader, 2048)
	keys := map[string]crypto.PublicKey{"k": &key.PublicKey}
	ih := bittorrent.InfoHashFromString("aaaaaaaaaaaaaaaaaaaa")

	e := base64.RawURLEncoding.EncodeToString
	signing := e([]byte(`{"alg":"RS256","typ":"JWT","kid":"k"}`)) + "." +
		e([]byte(fmt.Sprintf(`{"iss":"iss","aud":"aud","infohash":"%s"}`, hex.EncodeToString(ih[:]))))
	h := crypto.SHA256.New()
	h.Write([]byte(signing))
	sigBytes, err := rsa.SignPKCS1v15(rand.Reader, key, crypto.SHA256, h.Sum(nil))
	if err != nil {
		t.Fatal(err)
	}
	sig := e(sigBytes)

	if err := validateJWT(ih, []byte(signing+"."+sig), "iss", "aud", keys); err != nil {
		t.Fatalf("the unchanged token must pass: %v", err)
	}

	// 256 bytes encode to 342 characters; the last one carries 2 bits of
	// signature and 4 padding bits, which are zero. Set one of them.
	const alphabet = "ABCDEFGHIJKLMNOPQRSTUVWXYZabcdefghijklmnopqrstuvwxyz0123456789-_"
	last := strings.IndexByte(alphabet, sig[len(sig)-1])
	otherLast := string(alphabet[last|1])
	if last&1 == 1 {
		t.Fatal("unexpected: padding bits of a canonical encoding are zero")
	}

	for _, v := range []struct{ name, seg string }{
		{"wrapped in double quotes", `"` + sig + `"`},
		{"line feed inside", sig[:100] + "\n" + sig[100:]},
		{"carriage return appended", sig + "\r"},
		{"non-zero padding bits in the last character", sig[:len(sig)-1] + otherLast},
	} {
		if err := validateJWT(ih, []byte(signing+"."+v.seg), "iss", "aud", keys); err == nil {
			t.Errorf("C15 violated: token with changed signature segment (%s) passes", v.name)
		}
	}
}
