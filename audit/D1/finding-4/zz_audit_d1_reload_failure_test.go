//go:build linux || darwin || freebsd || netbsd || openbsd

package main

// Audit D1, finding 4 (property C16, cmd/chihaya/main.go): a reload stops
// everything but the store FIRST and only then reads the configuration and
// starts again. When that second half fails - the edited file does not parse,
// a hook cannot be built (JWK server down at that moment), a port of the new
// configuration is taken - RootRunCmdFunc returns the error, main() turns it
// into log.Fatal, and the swarm data the reload was supposed to keep is gone.
// The store is not even stopped.
//
// A second test records what a Start that fails half-way leaves behind.
//
// Copy into cmd/chihaya and run:
//   go test -vet=off -count=1 -run 'TestAuditD1' ./cmd/chihaya/

import (
	"fmt"
	"io"
	"net"
	"net/http"
	"os"
	"os/signal"
	"path/filepath"
	"strings"
	"syscall"
	"testing"
	"time"

	"github.com/spf13/cobra"
)

func d1FreeTCP(t *testing.T) string {
	t.Helper()
	l, err := net.Listen("tcp", "127.0.0.1:0")
	if err != nil {
		t.Fatal(err)
	}
	defer l.Close()
	return l.Addr().String()
}

func d1Config(metrics, httpAddr, udpAddr string) string {
	udp := ""
	if udpAddr != "" {
		udp = fmt.Sprintf("  udp:\n    addr: %q\n    private_key: \"k\"\n", udpAddr)
	}
	return fmt.Sprintf(`chihaya:
  announce_interval: 30m
  min_announce_interval: 15m
  metrics_addr: %q
  http:
    addr: %q
    announce_routes: ["/announce"]
    scrape_routes: ["/scrape"]
%s  storage:
    name: memory
    config:
      gc_interval: 1h
      peer_lifetime: 1h
      shard_count: 4
      prometheus_reporting_interval: 1h
`, metrics, httpAddr, udp)
}

func d1Get(url string) (string, error) {
	c := &http.Client{Timeout: 2 * time.Second, Transport: &http.Transport{DisableKeepAlives: true}}
	resp, err := c.Get(url)
	if err != nil {
		return "", err
	}
	defer resp.Body.Close()
	b, err := io.ReadAll(resp.Body)
	return string(b), err
}

const d1IH = "%01%02%03%04%05%06%07%08%09%0a%0b%0c%0d%0e%0f%10%11%12%13%14"

func d1ScrapeShowsSeeder(httpAddr string) (bool, string) {
	body, err := d1Get("http://" + httpAddr + "/scrape?info_hash=" + d1IH)
	if err != nil {
		return false, err.Error()
	}
	return strings.Contains(body, "8:completei1e"), body
}

func TestAuditD1ReloadWithUnusableConfigLosesSwarm(t *testing.T) {
	// Never let SIGUSR1 take its default action (terminate) in the test binary.
	guard := make(chan os.Signal, 8)
	signal.Notify(guard, syscall.SIGUSR1)
	defer signal.Stop(guard)

	httpAddr, metricsAddr := d1FreeTCP(t), d1FreeTCP(t)
	path := filepath.Join(t.TempDir(), "chihaya.yaml")
	if err := os.WriteFile(path, []byte(d1Config(metricsAddr, httpAddr, "")), 0o600); err != nil {
		t.Fatal(err)
	}

	cmd := &cobra.Command{}
	cmd.Flags().String("config", path, "")
	done := make(chan error, 1)
	go func() { done <- RootRunCmdFunc(cmd, nil) }()

	// Wait for the tracker, then register one seeder.
	deadline := time.Now().Add(5 * time.Second)
	for {
		if _, err := d1Get("http://" + httpAddr + "/announce?info_hash=" + d1IH +
			"&peer_id=-AUDITD1-00000000001&port=6881&uploaded=0&downloaded=0&left=0&compact=1"); err == nil {
			break
		}
		if time.Now().After(deadline) {
			t.Fatal("tracker did not come up")
		}
		time.Sleep(20 * time.Millisecond)
	}
	deadline = time.Now().Add(5 * time.Second)
	for {
		if ok, _ := d1ScrapeShowsSeeder(httpAddr); ok {
			break
		}
		if time.Now().After(deadline) {
			t.Fatal("the seeder never showed up in a scrape")
		}
		time.Sleep(20 * time.Millisecond)
	}

	// The operator edits the file, makes a typo, and asks for a reload.
	if err := os.WriteFile(path, []byte("chihaya:\n  http: [this is not a mapping\n"), 0o600); err != nil {
		t.Fatal(err)
	}
	var runErr error
	returned := false
	for i := 0; i < 25 && !returned; i++ { // the signal handler is armed shortly after start-up
		_ = syscall.Kill(os.Getpid(), syscall.SIGUSR1)
		select {
		case runErr = <-done:
			returned = true
		case <-time.After(200 * time.Millisecond):
		}
	}

	ok, detail := d1ScrapeShowsSeeder(httpAddr)
	if returned {
		t.Errorf("C16 violated: the reload made RootRunCmdFunc return (main() then calls log.Fatal and the process exits): %v", runErr)
	}
	if !ok {
		t.Errorf("C16 violated: after the reload the tracker does not serve the swarm contents it served before: %s", detail)
	}
	if !returned {
		// Clean shutdown for a fixed implementation.
		_ = syscall.Kill(os.Getpid(), syscall.SIGTERM)
		select {
		case <-done:
		case <-time.After(10 * time.Second):
			t.Error("no shutdown on SIGTERM")
		}
	}
}


// Control (passes): the same harness, but the edited configuration is usable -
// it moves the HTTP frontend to another port. The reload keeps the swarm.
func TestAuditD1ControlReloadWithUsableConfigKeepsSwarm(t *testing.T) {
	guard := make(chan os.Signal, 8)
	signal.Notify(guard, syscall.SIGUSR1)
	defer signal.Stop(guard)

	httpAddr, httpAddr2, metricsAddr := d1FreeTCP(t), d1FreeTCP(t), d1FreeTCP(t)
	path := filepath.Join(t.TempDir(), "chihaya.yaml")
	if err := os.WriteFile(path, []byte(d1Config(metricsAddr, httpAddr, "")), 0o600); err != nil {
		t.Fatal(err)
	}
	cmd := &cobra.Command{}
	cmd.Flags().String("config", path, "")
	done := make(chan error, 1)
	go func() { done <- RootRunCmdFunc(cmd, nil) }()

	deadline := time.Now().Add(5 * time.Second)
	for {
		if _, err := d1Get("http://" + httpAddr + "/announce?info_hash=" + d1IH +
			"&peer_id=-AUDITD1-00000000001&port=6881&uploaded=0&downloaded=0&left=0&compact=1"); err == nil {
			break
		}
		if time.Now().After(deadline) {
			t.Fatal("tracker did not come up")
		}
		time.Sleep(20 * time.Millisecond)
	}
	deadline = time.Now().Add(5 * time.Second)
	for {
		if ok, _ := d1ScrapeShowsSeeder(httpAddr); ok {
			break
		}
		if time.Now().After(deadline) {
			t.Fatal("the seeder never showed up in a scrape")
		}
		time.Sleep(20 * time.Millisecond)
	}

	if err := os.WriteFile(path, []byte(d1Config(metricsAddr, httpAddr2, "")), 0o600); err != nil {
		t.Fatal(err)
	}
	ok, detail := false, ""
	for i := 0; i < 25 && !ok; i++ {
		_ = syscall.Kill(os.Getpid(), syscall.SIGUSR1)
		time.Sleep(200 * time.Millisecond)
		ok, detail = d1ScrapeShowsSeeder(httpAddr2)
	}
	if !ok {
		t.Errorf("control failed: the swarm is not served on the new port after a reload: %s", detail)
	}
	_ = syscall.Kill(os.Getpid(), syscall.SIGTERM)
	select {
	case err := <-done:
		if err != nil {
			t.Errorf("control failed: %v", err)
		}
	case <-time.After(10 * time.Second):
		t.Error("control failed: no shutdown on SIGTERM")
	}
}

// Start fails half-way: metrics server and HTTP frontend are built, then the
// UDP frontend cannot bind. Start returns the error and stops nothing.
func TestAuditD1StartFailingHalfWayLeavesFrontendsRunning(t *testing.T) {
	httpAddr, metricsAddr := d1FreeTCP(t), d1FreeTCP(t)
	taken, err := net.ListenPacket("udp", "127.0.0.1:0")
	if err != nil {
		t.Fatal(err)
	}
	defer taken.Close()

	path := filepath.Join(t.TempDir(), "chihaya.yaml")
	if err := os.WriteFile(path, []byte(d1Config(metricsAddr, httpAddr, taken.LocalAddr().String())), 0o600); err != nil {
		t.Fatal(err)
	}

	_, err = NewRun(path)
	if err == nil {
		t.Fatal("expected Start to fail: the UDP address is taken")
	}
	t.Logf("Start failed as expected: %v", err)
	time.Sleep(200 * time.Millisecond)

	if _, gerr := d1Get("http://" + httpAddr + "/scrape?info_hash=" + d1IH); gerr == nil {
		t.Errorf("Start returned an error but the HTTP frontend it had built is still bound and serving on %s", httpAddr)
	}
	if _, gerr := d1Get("http://" + metricsAddr + "/metrics"); gerr == nil {
		t.Errorf("Start returned an error but the metrics server it had started is still bound and serving on %s", metricsAddr)
	}
}
