package jwt

// Audit D1, finding 2 (property C15): exp and nbf are NumericDates, which may
// carry a fraction (RFC 7519 section 2). The hook drops the fraction
// (jwt.Claims.GetTime: time.Unix(int64(t), 0)) but compares against a clock
// with nanoseconds, so
//   - a token is refused as expired up to a second before its exp, and
//   - a token is admitted up to a second before its nbf.
//
// Copy into middleware/jwt and run:
//   go test -vet=off -count=1 -run 'TestAuditD1Fractional' ./middleware/jwt/

import (
	"crypto"
	"crypto/rand"
	"crypto/rsa"
	"encoding/base64"
	"encoding/hex"
	"fmt"
	"testing"
	"time"

	"github.com/chihaya/chihaya/bittorrent"
)

func d1fTok(t *testing.T, key *rsa.PrivateKey, payload string) []byte {
	t.Helper()
	e := base64.RawURLEncoding.EncodeToString
	signing := e([]byte(`{"alg":"RS256","typ":"JWT","kid":"k"}`)) + "." + e([]byte(payload))
	h := crypto.SHA256.New()
	h.Write([]byte(signing))
	sig, err := rsa.SignPKCS1v15(rand.Reader, key, crypto.SHA256, h.Sum(nil))
	if err != nil {
		t.Fatal(err)
	}
	return []byte(signing + "." + e(sig))
}

// waitForEarlyInSecond returns a whole second s such that the current time is
// within [s+0.05, s+0.35).
func waitForEarlyInSecond() int64 {
	for {
		now := time.Now()
		if ns := now.Nanosecond(); ns >= 50e6 && ns < 350e6 {
			return now.Unix()
		}
		time.Sleep(10 * time.Millisecond)
	}
}

func TestAuditD1FractionalExpRefusedEarly(t *testing.T) {
	key, _ := rsa.GenerateKey(rand.Reader, 2048)
	keys := map[string]crypto.PublicKey{"k": &key.PublicKey}
	ih := bittorrent.InfoHashFromString("aaaaaaaaaaaaaaaaaaaa")

	s := waitForEarlyInSecond()
	// Expires at s+0.9: at least half a second from now.
	tok := d1fTok(t, key, fmt.Sprintf(`{"iss":"iss","aud":"aud","infohash":"%s","exp":%d.9}`, hex.EncodeToString(ih[:]), s))
	err := validateJWT(ih, tok, "iss", "aud", keys)
	left := time.Unix(s, 900e6).Sub(time.Now())
	if left <= 0 {
		t.Skip("machine too slow, the token did expire meanwhile")
	}
	if err != nil {
		t.Fatalf("C15 violated: token refused (%v) although its exp=%d.9 is still %v in the future", err, s, left)
	}
}

func TestAuditD1FractionalNbfAdmittedEarly(t *testing.T) {
	key, _ := rsa.GenerateKey(rand.Reader, 2048)
	keys := map[string]crypto.PublicKey{"k": &key.PublicKey}
	ih := bittorrent.InfoHashFromString("aaaaaaaaaaaaaaaaaaaa")

	s := waitForEarlyInSecond()
	// Not valid before s+0.9: at least half a second from now.
	tok := d1fTok(t, key, fmt.Sprintf(`{"iss":"iss","aud":"aud","infohash":"%s","nbf":%d.9}`, hex.EncodeToString(ih[:]), s))
	err := validateJWT(ih, tok, "iss", "aud", keys)
	early := time.Unix(s, 900e6).Sub(time.Now())
	if early <= 0 {
		t.Skip("machine too slow, nbf was reached meanwhile")
	}
	if err == nil {
		t.Fatalf("C15 violated: token admitted %v before its nbf=%d.9", early, s)
	}
}
