package jwt

import (
	"net/http"
	"net/http/httptest"
	"sync/atomic"
	"testing"
	"time"

	"github.com/chihaya/chihaya/pkg/stop"
)

// C20: a hook option set in which jwk_set_update_interval is absent, zero or
// negative must not yield a running hook whose refresh interval is not
// positive. Either NewHook refuses the options at start-up, or it replaces
// the interval by a positive default. In both cases the JWK set URL is not
// fetched more than a couple of times within 300ms.
func TestAuditD3JWTUpdateIntervalNotPositive(t *testing.T) {
	var fetches int64
	srv := httptest.NewServer(http.HandlerFunc(func(w http.ResponseWriter, r *http.Request) {
		atomic.AddInt64(&fetches, 1)
		w.Header().Set("Content-Type", "application/json")
		_, _ = w.Write([]byte(`{"keys":[]}`))
	}))
	defer srv.Close()

	cases := []struct {
		name    string
		options string
	}{
		{"interval key omitted", "issuer: i\naudience: a\njwk_set_url: " + srv.URL + "\n"},
		{"interval 0s", "issuer: i\naudience: a\njwk_set_url: " + srv.URL + "\njwk_set_update_interval: 0s\n"},
		{"interval -5m", "issuer: i\naudience: a\njwk_set_url: " + srv.URL + "\njwk_set_update_interval: -5m\n"},
	}

	for _, tc := range cases {
		tc := tc
		t.Run(tc.name, func(t *testing.T) {
			atomic.StoreInt64(&fetches, 0)

			// The same path cmd/chihaya takes: middleware.New -> driver.NewHook.
			h, err := driver{}.NewHook([]byte(tc.options))
			if err != nil {
				// Refused at start-up: fine.
				return
			}
			defer func() {
				if s, ok := h.(stop.Stopper); ok {
					<-s.Stop()
				}
			}()

			time.Sleep(300 * time.Millisecond)
			n := atomic.LoadInt64(&fetches)
			// One initial fetch; an interval that is positive in any useful
			// sense cannot produce more than a handful of refreshes in 300ms.
			if n > 3 {
				t.Fatalf("options accepted with a refresh interval that is not positive: "+
					"the JWK set URL was fetched %d times in 300ms (cfg interval = %v)",
					n, h.(*hook).cfg.JWKUpdateInterval)
			}
		})
	}
}
