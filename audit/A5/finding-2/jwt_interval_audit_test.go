package jwt

import (
	"fmt"
	"net/http"
	"net/http/httptest"
	"sync/atomic"
	"testing"
	"time"

	"github.com/chihaya/chihaya/middleware"
	"github.com/chihaya/chihaya/pkg/stop"
)

// A "jwt" prehook whose jwk_set_update_interval is omitted (or zero, or
// negative) must be refused at start-up or fall back to a sane default. It must
// not be accepted and then refetch the JWK set in a busy loop.
func TestAuditJWKUpdateIntervalMissing(t *testing.T) {
	for _, intervalLine := range []string{
		"",                                   // option omitted
		"jwk_set_update_interval: 0s\n",      // explicit zero
		"jwk_set_update_interval: \"-5m\"\n", // negative
	} {
		var fetches int64
		srv := httptest.NewServer(http.HandlerFunc(func(w http.ResponseWriter, r *http.Request) {
			atomic.AddInt64(&fetches, 1)
			w.Header().Set("Content-Type", "application/json")
			fmt.Fprint(w, `{"keys":[]}`)
		}))

		options := "issuer: https://issuer.com\n" +
			"audience: https://chihaya.issuer.com\n" +
			"jwk_set_url: " + srv.URL + "\n" + intervalLine

		h, err := middleware.New(Name, []byte(options))
		if err != nil {
			// Refusing the configuration is the correct outcome.
			srv.Close()
			continue
		}

		// Accepted: then the key set may be fetched once at start-up and at
		// most a handful of times during the next second.
		time.Sleep(time.Second)
		n := atomic.LoadInt64(&fetches)

		if s, ok := h.(stop.Stopper); ok {
			select {
			case <-s.Stop():
			case <-time.After(30 * time.Second):
				t.Error("hook did not stop")
			}
		}
		srv.Close()

		if n > 10 {
			t.Errorf("options %q were accepted and the JWK set was fetched %d times within one second", intervalLine, n)
		}
	}
}
