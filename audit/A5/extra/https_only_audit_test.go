package main

import (
	"crypto/ecdsa"
	"crypto/elliptic"
	"crypto/rand"
	"crypto/tls"
	"crypto/x509"
	"crypto/x509/pkix"
	"encoding/pem"
	"fmt"
	"io/ioutil"
	"math/big"
	"net"
	"os"
	"path/filepath"
	"testing"
	"time"
)

func auditFreeTCPAddr(t *testing.T) string {
	t.Helper()
	l, err := net.Listen("tcp", "127.0.0.1:0")
	if err != nil {
		t.Fatal(err)
	}
	defer l.Close()
	return l.Addr().String()
}

func auditWriteCert(t *testing.T, dir string) (certPath, keyPath string) {
	t.Helper()
	priv, err := ecdsa.GenerateKey(elliptic.P256(), rand.Reader)
	if err != nil {
		t.Fatal(err)
	}
	tmpl := &x509.Certificate{
		SerialNumber: big.NewInt(1),
		Subject:      pkix.Name{CommonName: "localhost"},
		NotBefore:    time.Now().Add(-time.Hour),
		NotAfter:     time.Now().Add(time.Hour),
		IPAddresses:  []net.IP{net.ParseIP("127.0.0.1")},
		KeyUsage:     x509.KeyUsageDigitalSignature,
		ExtKeyUsage:  []x509.ExtKeyUsage{x509.ExtKeyUsageServerAuth},
	}
	der, err := x509.CreateCertificate(rand.Reader, tmpl, tmpl, &priv.PublicKey, priv)
	if err != nil {
		t.Fatal(err)
	}
	keyDER, err := x509.MarshalECPrivateKey(priv)
	if err != nil {
		t.Fatal(err)
	}
	certPath = filepath.Join(dir, "cert.pem")
	keyPath = filepath.Join(dir, "key.pem")
	if err := ioutil.WriteFile(certPath, pem.EncodeToMemory(&pem.Block{Type: "CERTIFICATE", Bytes: der}), 0o600); err != nil {
		t.Fatal(err)
	}
	if err := ioutil.WriteFile(keyPath, pem.EncodeToMemory(&pem.Block{Type: "EC PRIVATE KEY", Bytes: keyDER}), 0o600); err != nil {
		t.Fatal(err)
	}
	return
}

// dist/example_config.yaml says about http.addr: "Remove this to disable the
// non-TLS listener", and the HTTP frontend accepts "addr or https_addr or
// both". A configuration with only https_addr must therefore either serve
// HTTPS or be refused; it must not start a tracker that serves nothing.
func TestAuditHTTPSOnlyConfiguration(t *testing.T) {
	dir, err := ioutil.TempDir("", "audit-https")
	if err != nil {
		t.Fatal(err)
	}
	defer os.RemoveAll(dir)
	certPath, keyPath := auditWriteCert(t, dir)
	httpsAddr := auditFreeTCPAddr(t)

	cfg := fmt.Sprintf(`
chihaya:
  announce_interval: "30m"
  min_announce_interval: "15m"
  metrics_addr: "127.0.0.1:0"
  http:
    https_addr: %q
    tls_cert_path: %q
    tls_key_path: %q
    announce_routes: ["/announce"]
    scrape_routes: ["/scrape"]
  storage:
    name: "memory"
    config:
      shard_count: 8
`, httpsAddr, certPath, keyPath)
	cfgPath := filepath.Join(dir, "chihaya.yaml")
	if err := ioutil.WriteFile(cfgPath, []byte(cfg), 0o600); err != nil {
		t.Fatal(err)
	}

	r, err := NewRun(cfgPath)
	if err != nil {
		// Refusing the configuration would be acceptable.
		t.Logf("configuration refused: %v", err)
		return
	}
	defer func() { _, _ = r.Stop(false) }()

	var lastErr error
	for i := 0; i < 50; i++ {
		var conn *tls.Conn
		conn, lastErr = tls.DialWithDialer(&net.Dialer{Timeout: 2 * time.Second}, "tcp", httpsAddr,
			&tls.Config{InsecureSkipVerify: true})
		if lastErr == nil {
			conn.Close()
			return
		}
		time.Sleep(100 * time.Millisecond)
	}
	t.Fatalf("HTTPS-only configuration was accepted, but nothing serves https_addr %s: %v", httpsAddr, lastErr)
}
