package redis

import (
	"fmt"
	"net/url"
	"testing"
	"time"

	"github.com/alicebob/miniredis"

	"github.com/chihaya/chihaya/bittorrent"
)

// The Redis password is taken from the user part of the redis_broker URL.
// parseRedisURL must hand the *decoded* password to AUTH, whatever characters
// it contains; the URL below is what url.URL itself produces for the password.

func auditStoreWithPassword(t *testing.T, password, brokerFmt string) error {
	t.Helper()
	rs, err := miniredis.Run()
	if err != nil {
		t.Fatal(err)
	}
	defer rs.Close()
	rs.RequireAuth(password)

	broker := fmt.Sprintf(brokerFmt, rs.Addr())
	ps, err := New(Config{
		GarbageCollectionInterval:   10 * time.Minute,
		PrometheusReportingInterval: 10 * time.Minute,
		PeerLifetime:                30 * time.Minute,
		RedisBroker:                 broker,
		RedisReadTimeout:            10 * time.Second,
		RedisWriteTimeout:           10 * time.Second,
		RedisConnectTimeout:         10 * time.Second,
	})
	if err != nil {
		t.Fatalf("New(%q): %v", broker, err)
	}
	defer func() { <-ps.Stop() }()

	ih := bittorrent.InfoHashFromString("00000000000000000001")
	p := bittorrent.Peer{
		ID:   bittorrent.PeerIDFromString("-AU0001-000000000001"),
		IP:   bittorrent.IP{IP: []byte{10, 0, 0, 1}, AddressFamily: bittorrent.IPv4},
		Port: 6881,
	}
	return ps.PutSeeder(ih, p)
}

func TestAuditRedisPasswordControl(t *testing.T) {
	// Control: a purely alphanumeric password works.
	if err := auditStoreWithPassword(t, "plainpw", "redis://plainpw@%s/0"); err != nil {
		t.Fatalf("control with alphanumeric password failed: %v", err)
	}
}

func TestAuditRedisPasswordWithPunctuation(t *testing.T) {
	for _, tc := range []struct{ password, brokerFmt string }{
		// '!' is a legal userinfo character (RFC 3986 sub-delim); no escaping needed.
		{"s3cr3t!", "redis://s3cr3t!@%s/0"},
		// '@' and '/' have to be percent-encoded in a URL.
		{"p@ss/word", "redis://p%%40ss%%2Fword@%s/0"},
		// a space
		{"two words", "redis://two%%20words@%s/0"},
	} {
		// Sanity: net/url decodes the user part of this URL to the password.
		u, err := url.Parse(fmt.Sprintf(tc.brokerFmt, "127.0.0.1:6379"))
		if err != nil || u.User.Username() != tc.password {
			t.Fatalf("test bug: %v %q", err, u.User.Username())
		}

		parsed, err := parseRedisURL(fmt.Sprintf(tc.brokerFmt, "127.0.0.1:6379"))
		if err != nil {
			t.Errorf("parseRedisURL: %v", err)
		} else if parsed.Password != tc.password {
			t.Errorf("parseRedisURL(%q): password %q, want %q",
				fmt.Sprintf(tc.brokerFmt, "127.0.0.1:6379"), parsed.Password, tc.password)
		}

		if err := auditStoreWithPassword(t, tc.password, tc.brokerFmt); err != nil {
			t.Errorf("store configured with the correct password %q cannot use Redis: %v", tc.password, err)
		}
	}
}
