package jwt

import (
	"context"
	"crypto/rand"
	"crypto/rsa"
	"encoding/hex"
	"encoding/json"
	"fmt"
	"net/http"
	"net/http/httptest"
	"sync/atomic"
	"testing"
	"time"

	jc "github.com/SermoDigital/jose/crypto"
	"github.com/SermoDigital/jose/jws"
	"github.com/mendsley/gojwk"

	"github.com/chihaya/chihaya/bittorrent"
)

const (
	auditIssuer   = "https://issuer.example"
	auditAudience = "https://chihaya.example"
	auditKid      = "key-1"
)

func auditJWKSet(t *testing.T, pub *rsa.PublicKey) []byte {
	t.Helper()
	k, err := gojwk.PublicKey(pub)
	if err != nil {
		t.Fatal(err)
	}
	k.Kid = auditKid
	k.Alg = "RS256"
	k.Use = "sig"
	b, err := json.Marshal(&gojwk.Key{Keys: []*gojwk.Key{k}})
	if err != nil {
		t.Fatal(err)
	}
	return b
}

func auditAnnounce(t *testing.T, priv *rsa.PrivateKey, ih bittorrent.InfoHash) *bittorrent.AnnounceRequest {
	t.Helper()
	claims := jws.Claims{}
	claims.SetIssuer(auditIssuer)
	claims.SetAudience(auditAudience)
	claims.SetExpiration(time.Now().Add(time.Hour))
	claims.Set("infohash", hex.EncodeToString(ih[:]))
	tok := jws.NewJWT(claims, jc.SigningMethodRS256)
	tok.(jws.JWS).Protected().Set("kid", auditKid)
	ser, err := tok.Serialize(priv)
	if err != nil {
		t.Fatal(err)
	}
	params, err := bittorrent.ParseURLData("/announce?jwt=" + string(ser))
	if err != nil {
		t.Fatal(err)
	}
	return &bittorrent.AnnounceRequest{InfoHash: ih, Params: params}
}

// The key server answers a refresh with an error status and a JSON error
// document (what an API gateway does during an outage). The refresh has
// failed: like for every other failed refresh (connection refused, non-JSON
// body, undecodable key), the keys fetched before must stay in force. Instead
// the hook treats the error document as a JWK set without keys.
func TestAuditFailedRefreshWithJSONErrorBodyDropsAllKeys(t *testing.T) {
	priv, err := rsa.GenerateKey(rand.Reader, 2048)
	if err != nil {
		t.Fatal(err)
	}
	set := auditJWKSet(t, &priv.PublicKey)

	// mode 0: serve the JWK set; 1: 503 with an HTML body; 2: 503 with a JSON
	// error document.
	var mode int32
	srv := httptest.NewServer(http.HandlerFunc(func(w http.ResponseWriter, r *http.Request) {
		switch atomic.LoadInt32(&mode) {
		case 1:
			w.Header().Set("Content-Type", "text/html")
			w.WriteHeader(http.StatusServiceUnavailable)
			fmt.Fprint(w, "<html>503 service unavailable</html>")
		case 2:
			w.Header().Set("Content-Type", "application/json")
			w.WriteHeader(http.StatusServiceUnavailable)
			fmt.Fprint(w, `{"error":"service unavailable","status":503}`)
		default:
			w.Header().Set("Content-Type", "application/json")
			_, _ = w.Write(set)
		}
	}))
	defer srv.Close()

	mh, err := NewHook(Config{
		Issuer:            auditIssuer,
		Audience:          auditAudience,
		JWKSetURL:         srv.URL,
		JWKUpdateInterval: time.Hour, // refreshes are triggered by hand below
	})
	if err != nil {
		t.Fatal(err)
	}
	h := mh.(*hook)
	defer func() { <-h.Stop() }()

	ih := bittorrent.InfoHashFromString("abcdefghij0123456789")
	req := auditAnnounce(t, priv, ih)
	resp := &bittorrent.AnnounceResponse{}

	if _, err := h.HandleAnnounce(context.Background(), req, resp); err != nil {
		t.Fatalf("valid token rejected before the outage: %v", err)
	}

	// Control: a refresh answered by 503 + HTML fails and keeps the keys.
	atomic.StoreInt32(&mode, 1)
	if err := h.updateKeys(); err == nil {
		t.Error("control: refresh answered by 503 + HTML reported success")
	}
	if _, err := h.HandleAnnounce(context.Background(), req, resp); err != nil {
		t.Fatalf("control: valid token rejected after a failed (HTML) refresh: %v", err)
	}

	// The refresh answered by 503 + JSON error document.
	atomic.StoreInt32(&mode, 2)
	if err := h.updateKeys(); err == nil {
		t.Error("refresh answered by HTTP 503 (JSON error document) reported success")
	}
	if _, err := h.HandleAnnounce(context.Background(), req, resp); err != nil {
		t.Errorf("valid token rejected after a refresh that was answered by HTTP 503: %v", err)
	}

	// Once the key server is back, the next refresh restores service.
	atomic.StoreInt32(&mode, 0)
	if err := h.updateKeys(); err != nil {
		t.Fatalf("refresh after the outage: %v", err)
	}
	if _, err := h.HandleAnnounce(context.Background(), req, resp); err != nil {
		t.Fatalf("valid token rejected after the outage: %v", err)
	}
}

// The same at start-up: the initial fetch is answered by 404 + JSON. NewHook
// promises to fail when the initial JWK set cannot be fetched.
func TestAuditInitialFetchAnsweredByErrorStatusIsAccepted(t *testing.T) {
	srv := httptest.NewServer(http.HandlerFunc(func(w http.ResponseWriter, r *http.Request) {
		w.Header().Set("Content-Type", "application/json")
		w.WriteHeader(http.StatusNotFound)
		fmt.Fprint(w, `{"message":"no such route"}`)
	}))
	defer srv.Close()

	mh, err := NewHook(Config{
		Issuer:            auditIssuer,
		Audience:          auditAudience,
		JWKSetURL:         srv.URL,
		JWKUpdateInterval: time.Hour,
	})
	if err == nil {
		<-mh.(*hook).Stop()
		t.Fatal("NewHook succeeded although the JWK set URL answered 404")
	}
}
