"""Per-property configuration of ./check (what to build, which streams to run, oracles)."""
import os, re, subprocess

TRUSTED_BASE = [
    "Lean 4.33.0 kernel; axioms allowed: propext, Classical.choice, Quot.sound (audited with #print axioms on every run)",
    "no sorry/admit/axiom/native_decide/bv_decide/implemented_by/unsafe in lean/ (grepped on every run)",
    "tie model<->code: Go harness (harness/hx, rebuilt from the current tree) + line protocol + modeldrv parsing + canonicalisation",
]

PROPS = {}

PROPS["C19"] = dict(
    lean_targets=["Chihaya.Props.C19"],
    props_files=["Chihaya/Props/C19.lean"],
    streams=[dict(name="C19", quick=6000, thorough=150000)],
    rule="cases: round trips of generated value trees (boundary ints, string lengths around 4096 and up to 100000, depth<=6) "
         "through the real Marshal/Unmarshal, and decoder runs on truncations, byte flips, structure-looking garbage, raw bytes, "
         "malformed length prefixes; non-trivial = the model reached a decode/round-trip branch (every case does), distinct = distinct op line",
    trusted=["modelled not verified: bufio.Reader buffering (4096-byte ReadSlice limit), strconv.ParseInt/FormatInt, io.CopyN; "
             "Go stack exhaustion on multi-megabyte nesting is not modelled"],
    assumptions=["allocation is observed through runtime.MemStats.TotalAlloc deltas with budget 64*len(input)+1MiB"],
)


PROPS["C18"] = dict(
    lean_targets=["Chihaya.Props.C18"],
    props_files=["Chihaya/Props/C18.lean"],
    gen=["random"],
    streams=[dict(name="C18", quick=20000, thorough=600000)],
    rule="cases: real varinterval hook on (infohash, peer id, config): generator states constructed by inverting xorshift so the "
         "first/second draw is 0, 2^63-1, 2^63, 2^64-1, ..., first draws next to the probability threshold, random pairs, "
         "config acceptance grid; non-trivial = modified responses and threshold/edge cases (tag != unmodified), distinct op lines",
    trusted=["Gen/Random.lean is produced by harness/tr (go/ast translator, ~350 lines) from middleware/pkg/random on every run",
             "modelled not verified: float32 division/comparison (exact for 0<=v<2^24, argued in Model/VarInterval.lean), time.Duration arithmetic is int64 with wrap-around in the model (wrap64), as in Go"],
    assumptions=["configured interval and min interval between 0 and intervalLimit = 2^63-1 ns - MaxInt32 s (about 224 years)"],
)


PROPS["C20"] = dict(
    lean_targets=["Chihaya.Props.C20"],
    props_files=["Chihaya/Props/C20.lean"],
    gen=["validate"],
    facts=["validated_config_use", "http_server_timeouts"],
    streams=[dict(name="C20", quick=8000, thorough=300000), dict(name="C06", quick=4000, thorough=100000), dict(name="C07", quick=3000, thorough=100000)],
    rule="cases: the four real Config.Validate methods on boundary products (min, -1, 0, 1, typical, MaxInt/2, MaxInt/2+1, max per field) and random values, "
         "validated twice; registry lookups of known/unknown hook and store names; Redis URL strings; stores constructed from out-of-range "
         "configurations and then used; non-trivial = at least one field defaulted / a refusal / a non-default db (tag != kept), distinct op lines",
    trusted=["Gen/Validate.lean is produced by harness/tr from the four Validate methods on every run (field-wise form justified by checks in the translator)",
             "fact extractor validated_config_use (go/ast): constructors never touch the unvalidated parameter again",
             "modelled not verified: yaml decoding, url.Parse (its results are passed to the model), strconv.Atoi"],
    assumptions=["uint32 fields are modelled as Int; the harness only supplies values in range"],
)


PROPS["C14"] = dict(
    lean_targets=["Chihaya.Props.C14"],
    props_files=["Chihaya/Props/C14.lean"],
    streams=[dict(name="C14", quick=12000, thorough=400000)],
    rule="cases: real clientapproval/torrentapproval NewHook + HandleAnnounce/HandleScrape on generated list configurations (empty, singleton, many, "
         "duplicates, both lists, entries of wrong length / odd length / non-hex / upper-case) and near-miss peer IDs / infohashes "
         "(listed id with and without dash, shifted by one byte, last byte or one bit off); non-trivial = every case reaching a decision or refusal, distinct op lines",
    trusted=["modelled not verified: yaml decoding of the option lists, encoding/hex (modelled in Approval.hexDecode and compared through the stream)"],
    assumptions=["peer IDs and infohashes are 20 bytes (enforced by the frontends, C06/C07)"],
)


PROPS["C06"] = dict(
    lean_targets=["Chihaya.Props.C06"],
    props_files=["Chihaya/Props/C06.lean"],
    streams=[dict(name="C06", quick=30000, thorough=800000), dict(name="C13", quick=2000, thorough=60000)],
    rule="cases: real frontend/http ParseAnnounce/ParseScrape on (a) URIs rendered from field records with shuffled parameters, per-byte escaping "
         "choices (literal / %XX either case / +), duplicated keys, unrelated and non-ASCII keys, ';' separators, (b) every numeric field at each "
         "boundary literal, (c) the source-address grid remote x spoof x ip/ipv4/ipv6 x header, (d) raw byte soup; option sets vary (numwant caps, scrape cap, "
         "default above max); non-trivial = accepted requests and each distinct rejection reason (model tag), distinct op lines",
    trusted=["modelled not verified: url.QueryUnescape (modelled in Query.unescape, compared through the stream), strings.ToLower on non-ASCII keys and "
             "net.ParseIP / net.SplitHostPort (their results are computed by the harness independently of the code under test and passed to the model), strconv.ParseUint",
             "net/http request-line and header syntax is outside the model: the parser is entered at RequestURI/Header/RemoteAddr"],
    assumptions=[],
)


UDP_TRUST = ["overlay shims (build tag verif): harness/shims/frontend/udp (non-serving Frontend + door to handleRequest), harness/shims/pkg/timecache (pinned clock)",
             "HMAC-SHA256 is uninterpreted in the model; the harness computes the real tag for the messages the model can ask about",
             "modelled not verified: encoding/binary, sync.Pool buffer reuse, the UDP socket (responses are captured over loopback, delimited by a sentinel datagram)"]

PROPS["C07"] = dict(
    lean_targets=["Chihaya.Props.C07"],
    props_files=["Chihaya/Props/C07.lean"],
    streams=[dict(name="C07", quick=25000, thorough=800000), dict(name="C09T", quick=1500, thorough=40000)],
    rule="cases: real udp handleRequest (spy logic, pinned clock, valid connection IDs) on packets built by a BEP 15/41 client builder (both announce actions, all "
         "event codes, option segmentations with NOPs/EndOfOptions), every length around each threshold for every action, every option type byte, URLData "
         "length bytes against the packet end, bit flips / truncations of valid packets, scrapes with repeats and caps, garbage; compared: silence / "
         "error class / response bytes / every request field handed to the logic; non-trivial = any packet reaching a decision other than 'silent' (model tag), distinct op lines",
    trusted=UDP_TRUST, assumptions=[],
)

PROPS["C09"] = dict(
    lean_targets=["Chihaya.Props.C09"],
    props_files=["Chihaya/Props/C09.lean"],
    streams=[dict(name="C09", quick=12000, thorough=400000), dict(name="C09T", quick=3000, thorough=100000)],
    rule="C09T: whole-tracker UDP sequences (real frontend handler, real middleware.Logic with the stock swarm-interaction and response hooks, real memory/Redis store): "
         "announces of both actions and scrapes of 1..7 infohashes with repeats and unknown swarms under scrape limits 1,2,3,50; oracle on the implementation alone: a scrape "
         "response holds exactly one 12-byte triple per requested (capped) infohash, an announce response 20+6n or 20+18n bytes; C09: real udp handleRequest answering spy-logic responses: intervals incl. 0, sub-second, >2^32 s; counts up to 2^32-1; 0..100 peers of either family; "
         "both announce actions x requester families; scrapes of 1..51 infohashes with repeats; client and internal logic errors (internal ones carry a unique "
         "secret token that must not appear in the datagram); compared: datagram bytes / error class; non-trivial = every case (a response is produced), distinct op lines",
    trusted=UDP_TRUST + ["BEP 15 client decoder in Props/C09.lean is the specification of 'layout'"], assumptions=[],
)

PROPS["C10"] = dict(
    lean_targets=["Chihaya.Props.C10"],
    props_files=["Chihaya/Props/C10.lean"],
    streams=[dict(name="C10", quick=8000, thorough=300000)],
    rule="cases: connection IDs issued by the real generator and presented from -11 s to +600 s of age with sub-second offsets under several skews, each of the "
         "64 single-bit flips, IDs issued to another address (other family, v4-mapped), under another key, random IDs, damaged tags, every action code with "
         "random bodies, and connects (the issued ID is compared with the model's); compared: error/response bytes and whether the logic was invoked; "
         "non-trivial = every case, distinct op lines",
    trusted=UDP_TRUST, assumptions=["clock before 2106 (uint32 seconds)"],
)

PROPS["C11"] = dict(
    lean_targets=["Chihaya.Props.C11"],
    props_files=["Chihaya/Props/C11.lean"],
    streams=[dict(name="C11U", quick=2000, thorough=100000), dict(name="C11H", quick=4000, thorough=200000), dict(name="C03T", quick=2000, thorough=60000)],
    rule="cases: product grid source address (v4, v6, v4-mapped, malformed) x client-supplied address (absent, zero, same family, other family, unparsable; "
         "HTTP: ip/ipv4/ipv6 in every combination and order; UDP: the 4/16-byte packet field for actions 1/4) x allow_ip_spoofing x real-ip header, plus random "
         "requests; compared: the address, family and ip-provided flag of the request handed to the logic; non-trivial = accepted requests (model tag), distinct op lines",
    trusted=UDP_TRUST + PROPS["C06"]["trusted"], assumptions=[],
)


PROPS["C08"] = dict(
    lean_targets=["Chihaya.Props.C08"],
    props_files=["Chihaya/Props/C08.lean"],
    streams=[dict(name="C08", quick=8000, thorough=250000), dict(name="C01T", quick=1500, thorough=40000)],
    rule="cases: real WriteAnnounceResponse / WriteScrapeResponse / WriteError on generated responses (compact and dictionary form, 0..100 IPv4 and 0..50 IPv6 "
         "peers with binary ids and edge ports, counts up to 2^32-1, intervals incl. sub-second, negative and MaxInt64, scrapes with repeated infohashes and "
         "bencode-looking keys, client messages with arbitrary bytes, internal errors carrying secrets); the body is decoded by an independent client library "
         "(anacrolix/torrent/bencode) and compared with the model's value; non-trivial = every case, distinct op lines",
    trusted=["modelled not verified: net.IP.String (textual addresses are passed to the model), net/http ResponseWriter, Go map iteration order (= any permutation, covered by decode_any_order)",
             "the independent decoder (anacrolix/torrent/bencode) and the harness's canonical printer"],
    assumptions=["responses smaller than 2^63 bytes"],
)


STORE_TRUST = ["overlay shims (build tag verif): harness/shims/storage/memory (dump under the shard locks, collectGarbage, populateProm), harness/shims/storage/redis, harness/shims/pkg/timecache (pinned clock)",
               "Redis is miniredis (in-process); Redis command semantics (HSET/HDEL replies, MULTI/EXEC atomicity, empty hashes vanish) are modelled from the Redis documentation, not verified",
               "Go map iteration order / HKEYS order = order of the association list; theorems quantify over all orders",
               "Redis store: executable model tied by the same streams; Redis commands are modelled sequentially per operation (its own refinement and invariant theorems are in Props/Redis.lean)"]

STORE_RULE = ("cases: operation sequences (put seeder/leecher, graduate, delete, announce-peers, scrape, expiry with cutoffs at mtime-1/mtime/mtime+1 and far, clock "
              "moves) over small universes (2-4 infohashes chosen to collide / not collide in shard index for n in {1,2,3,1024}; 3-17 peers incl. equal IDs on two "
              "ports, equal endpoints with two IDs, IPv4 and IPv6) against the real memory store and the real Redis store on miniredis with 1-3 tracker instances "
              "sharing it; the whole store state incl. counters is dumped and compared after the mutating steps; returned peer lists are judged by the proved "
              "validSelection; non-trivial = joins, role changes, last-member departures, expiries, capped/self-excluding selections (model tags), distinct op lines")

PROPS["C01"] = dict(
    lean_targets=["Chihaya.Props.C01", "Chihaya.Props.Redis"],
    props_files=["Chihaya/Props/C01.lean", "Chihaya/Props/Redis.lean"],
    streams=[dict(name="C01", quick=18000, thorough=600000), dict(name="C01T", quick=4000, thorough=150000)],
    rule=STORE_RULE + "; plus announce/scrape histories through the real Logic and both real frontends (stream C01T) where the counts of every announce "
         "response are judged against the swarm's counts before and after (reading R2)",
    trusted=STORE_TRUST, assumptions=["no storage failures (Redis errors are not injected)"],
)
PROPS["C02"] = dict(
    lean_targets=["Chihaya.Props.C02", "Chihaya.Props.Redis"],
    props_files=["Chihaya/Props/C02.lean", "Chihaya/Props/Redis.lean"],
    streams=[dict(name="C02", quick=24000, thorough=800000), dict(name="C01T", quick=3000, thorough=100000)],
    rule=STORE_RULE + "; numwant in {0..8, 50, 2^31, random}, swarms up to 17 peers", trusted=STORE_TRUST, assumptions=[],
)
PROPS["C03"] = dict(
    lean_targets=["Chihaya.Props.C03", "Chihaya.Props.Redis", "Chihaya.Props.C13Store"],
    props_files=["Chihaya/Props/C03.lean", "Chihaya/Props/Redis.lean", "Chihaya/Props/C13Store.lean"],
    streams=[dict(name="C03", quick=12000, thorough=400000), dict(name="C08", quick=2000, thorough=50000), dict(name="C09", quick=2000, thorough=50000),
             dict(name="C03T", quick=4000, thorough=150000)],
    rule=STORE_RULE + "; plus the HTTP and UDP writer streams (peer entry widths per family); plus C03T: whole-tracker sequences over both frontends on shared infohashes with IPv4, IPv6 and "
         "IPv4-mapped sources, client-supplied addresses of either family with spoofing on and off, numwant large enough to list everybody, scrapes from both families; oracle on the implementation "
         "alone (spoofing off): a response to an IPv4 (or IPv4-mapped) source lists no IPv6 peer and vice versa", trusted=STORE_TRUST, assumptions=[],
)
PROPS["C05"] = dict(
    lean_targets=["Chihaya.Props.C05", "Chihaya.Props.Redis"],
    props_files=["Chihaya/Props/C05.lean", "Chihaya/Props/Redis.lean"],
    streams=[dict(name="C05", quick=18000, thorough=600000), dict(name="C04", quick=3000, thorough=100000)],
    rule=STORE_RULE, trusted=STORE_TRUST, assumptions=["mtime is the cached clock (pinned by the harness); boundary mtime = cutoff follows the code (removed)"],
)
PROPS["C17"] = dict(
    lean_targets=["Chihaya.Props.C17", "Chihaya.Props.Redis", "Chihaya.Props.RedisConc"],
    props_files=["Chihaya/Props/C17.lean", "Chihaya/Props/Redis.lean", "Chihaya/Props/RedisConc.lean"],
    streams=[dict(name="C17", quick=18000, thorough=600000), dict(name="C04", quick=4000, thorough=100000)],
    rule=STORE_RULE + "; the exported gauges are read after every mutating step; plus the concurrent stream of C04 (contended same-peer micro-rounds, totals read after each group)", trusted=STORE_TRUST, assumptions=["no storage failures"],
)


TRK_TRUST = STORE_TRUST + UDP_TRUST + ["overlay shim harness/shims/frontend/http (the router of a non-listening Frontend)",
    "hooks in the harness are table-driven (accept / reject-client / reject-internal / set either skip flag / mutate the response / tag the context); arbitrary hooks are covered by the theorems only",
    "post-response hooks run in goroutines: the harness waits for their completion signal (2 s) when they are expected, 300 us when they are not"]

PROPS["C12"] = dict(
    lean_targets=["Chihaya.Props.C12"],
    props_files=["Chihaya/Props/C12.lean"],
    streams=[dict(name="C12", quick=6000, thorough=250000), dict(name="C09T", quick=1500, thorough=40000)],
    rule="cases: random chains of 0-6 pre-hooks and 0-4 post-hooks (accepting, rejecting with client / internal errors, setting SkipSwarmInteraction / SkipResponseHook, "
         "mutating the response, tagging the context) through the real middleware.Logic behind the real HTTP router and the real UDP handleRequest, on coherent "
         "announce/scrape histories over a real store (memory or Redis); compared: error class, counts, intervals, number of peers, pre- and post-hook invocation logs, "
         "and the full store dump after every request; non-trivial = requests that reached the logic (hook rejections and served requests; model tags), distinct op lines",
    trusted=TRK_TRUST, assumptions=["no storage failures"],
)
PROPS["C13"] = dict(
    lean_targets=["Chihaya.Props.C13", "Chihaya.Props.C13Store"],
    props_files=["Chihaya/Props/C13.lean", "Chihaya/Props/C13Store.lean"],
    streams=[dict(name="C13", quick=8000, thorough=400000), dict(name="C07", quick=6000, thorough=100000), dict(name="C06", quick=6000, thorough=100000), dict(name="C09", quick=1100, thorough=30000)],
    rule="cases: malformed and well-formed requests interleaved (raw/truncated/rendered URIs, odd remote addresses; truncated, bit-flipped, option-laden and garbage "
         "datagrams with valid connection IDs) through both real frontends, the real Logic with hook chains and a real store holding a non-trivial state; every call "
         "runs under recover; panics, double datagrams, post-hooks after errors and leaks are reported as failures by the property oracle; the store is dumped after "
         "every request; plus the parser streams of C06/C07 and the head of the response stream of C09 (responses larger than one datagram: a request that gets no datagram at all); non-trivial = every request (model tag), distinct op lines",
    trusted=TRK_TRUST + ["net/http request-line/header syntax is outside the model (the handler is entered at RequestURI/Header/RemoteAddr)"],
    assumptions=["hooks are total (a panicking third-party hook is outside the property)"],
)


PROPS["C04"] = dict(
    lean_targets=["Chihaya.Props.C04", "Chihaya.Props.RedisConc"],
    props_files=["Chihaya/Props/C04.lean", "Chihaya/Props/RedisConc.lean"],
    facts=["memory_lock_discipline", "redis_command_groups"],
    streams=[dict(name="C04", quick=14000, thorough=400000)],
    rule="cases: (a) rounds of 2-3 goroutines each running 1-3 store operations (puts, graduations, deletes, scrapes) on ONE swarm and the same 2-3 peers against "
         "the real memory store and the real Redis store (1-3 instances on one miniredis), after a sequential prefix; the harness searches a sequential order "
         "consistent with real time, the observed results and the final membership and emits the operations in that order: the Lean model replays them and must "
         "agree on every result, the final dump and the counters; no order found = NOT-LINEARIZABLE; (a') st.redis_sched: 2-4 threads, each with its own store "
         "instance on one Redis, run 1-3 announce-path operations on one swarm under a scheduler that lets ONE thread perform ONE round trip at a time in a generated "
         "order; the model (RedisConc.run, the semantics Redis_quiescent_sequential is about) executes the same schedule and must agree on the server state in the "
         "middle of the schedule (operations in flight, counters lagging), the order and result of every operation, the final state and the exported totals; in half "
         "of the rounds one or two threads run a whole expiry pass (old prefix, cutoff between / at / before the times): a tracing connection reports which of the "
         "collector's command groups went through and when, the model replays that trace (a group that went through = its atomic step at the state reached); "
         "(a'') redisGcStorm: three instances, four free-running workers re-announcing and deleting their own old peers on three swarms while two instances run "
         "expiry passes in a loop; the outcome is determined whatever the interleaving and is compared with the model after one pass at rest; "
         "(b) 8 goroutines sending announces (with options, truncations) "
         "through one UDP Frontend sharing its buffer and generator pools, request buffers scribbled after the call, against a logic that echoes request "
         "fields: every datagram must be the model's answer to its own request; non-trivial = every linearized round and every concurrent datagram, distinct op lines",
    trusted=STORE_TRUST + UDP_TRUST + ["fact extractor memory_lock_discipline (go/ast abstract interpretation of storage/memory/peer_store.go): every access to swarms/numSeeders/numLeechers "
             "lies inside a critical section of that shard, writes only under Lock, no return/back-edge with a lock held — the hypotheses of the linearizability theorem",
             "Go memory model, sync.RWMutex semantics and data-race freedom are trusted/argued from the bracketing fact, not proved; schedules are sampled by the Go scheduler (not enumerated)",
             "the linearization search uses a 40-line sequential spec in the harness; its answer is validated by the Lean model replaying the order",
             "fact extractor redis_command_groups (go/ast): each of the five announce-path methods of storage/redis/peer_store.go issues ONE atomic membership command group "
             "(MULTI…EXEC or a single command) first and only INCR/DECR-type commands afterwards — the shape of RedisConc.first; Redis executing MULTI…EXEC atomically is trusted"],
    assumptions=["Redis: for EVERY interleaving of round trips (theorem Redis_quiescent_sequential) the state at quiescent points is the sequential model's state for the order of the "
                 "first round trips, results included — the collector's two optimistic command groups per swarm key (after the repairs D4, D16) are operations of that theorem; "
                 "reads (two round trips) are not of that shape; termination of the collector's re-read loop is not claimed"],
)


PROPS["C16"] = dict(
    lean_targets=["Chihaya.Props.C16"],
    props_files=["Chihaya/Props/C16.lean"],
    facts=["lifecycle"],
    streams=[dict(name="C16", quick=400, thorough=6000)],
    rule="cases: stop groups of 0-6 members (delivering 0-3 errors each, AlreadyStopped, delayed) through the real pkg/stop; the real HTTP and UDP frontends on "
         "loopback ports: Stop immediately after NewFrontend (with 0-1000 us delay), Stop while a post-response hook is gated inside AfterAnnounce, Stop after "
         "traffic; observed: Stop completes, error count, listener closed once Stop has completed (TCP dial / UDP connect unanswered), whether Stop returned "
         "while the post-hook was still running, second Stop; reload sequence keeping a populated store (scrape before/after); non-trivial = every life-cycle "
         "scenario and every group with errors (model tags), distinct op lines",
    trusted=["fact extractor lifecycle (go/ast): every go statement of the request path is preceded by wg.Add(1) and starts with defer wg.Done(); the HTTP servers are assigned in NewFrontend; "
             "Run.Stop stops frontends, then logic, then (unless kept) the store",
             "modelled not verified: net/http Server.Shutdown (closes listeners, waits for handlers), UDP socket deadline/close, goroutine scheduling; the theorems cover all "
             "interleavings of the protocol model, the harness samples real schedules (timeouts 150 ms / 5 s)",
             "cmd/chihaya signal handling (cobra, NotifyContext) is not modelled; the reload *sequence* is reproduced by the harness with the real components"],
    assumptions=["members of a stop group terminate"],
)


PROPS["C15"] = dict(
    lean_targets=["Chihaya.Props.C15"],
    props_files=["Chihaya/Props/C15.lean"],
    streams=[dict(name="C15", quick=700, thorough=12000)],
    rule="cases: the real JWT hook against a loopback JWK endpoint; RS256 tokens minted by the harness (RSA-2048) with exactly one aspect changed per case: absent "
         "parameter, garbage, issuer bad/absent, audience bad/absent/array with and without the configured value, infohash claim wrong bit/absent/upper-case/non-string, "
         "kid unknown/absent/non-string/naming another published key, alg none / HS256 keyed with the public key / RS512 header, signature bit flip, payload changed after "
         "signing, exp in the past, nbf in the future, no exp/nbf, signed by an unpublished key; key-set rotations (kids re-bound, keys retired) followed by a synchronous "
         "refresh; the harness tells the model which abstract facts hold by construction; non-trivial = every case, distinct = op lines (token facts + key set)",
    trusted=["cryptography and serialisation are uninterpreted in the model (RSA PKCS#1 v1.5, SHA-256, JWS compact form, JSON, base64, JWK decoding in SermoDigital/jose and gojwk)",
             "the library reads the wall clock: exp/nbf cases use margins of at least 5 s, never the edge",
             "overlay shim harness/shims/middleware/jwt (synchronous updateKeys)",
             "refresh concurrent with validation: operation-granularity model + source fact would be needed for the lock; data-race freedom is not proved"],
    assumptions=["HMAC/RSA unforgeability"],
)


def run_gen(name, repo, lean, work, goenv):
    """regenerate lean/Chihaya/Gen/<Name>.lean from the current source"""
    tr = os.path.join(work, "tr")
    p = subprocess.run(["go", "build", "-o", tr, "./tr"], cwd=os.path.join(os.path.dirname(lean), "harness"), env=goenv,
                       stdout=subprocess.PIPE, stderr=subprocess.STDOUT, text=True)
    if p.returncode != 0:
        return p.returncode, p.stdout
    out = os.path.join(lean, "Chihaya", "Gen", name.capitalize() + ".lean")
    tmp = os.path.join(work, name + ".lean")
    p = subprocess.run([tr, name, repo, tmp], stdout=subprocess.PIPE, stderr=subprocess.STDOUT, text=True)
    if p.returncode != 0:
        return p.returncode, p.stdout
    new = open(tmp).read()
    old = open(out).read() if os.path.exists(out) else None
    if new != old:
        open(out, "w").write(new)
    return 0, ""


def run_fact(name, repo, root, work, goenv):
    """extract facts from the current source and compare one of them with facts/expected/<name>.json"""
    import json
    tr = os.path.join(work, "tr")
    if not os.path.exists(tr):
        p = subprocess.run(["go", "build", "-o", tr, "./tr"], cwd=os.path.join(root, "harness"), env=goenv,
                           stdout=subprocess.PIPE, stderr=subprocess.STDOUT, text=True)
        if p.returncode != 0:
            return False, "fact extractor does not build: " + p.stdout[-1500:]
    out = os.path.join(work, "facts.json")
    if not os.path.exists(out):
        p = subprocess.run([tr, "facts", repo, out], stdout=subprocess.PIPE, stderr=subprocess.STDOUT, text=True)
        if p.returncode != 0:
            return False, "fact extractor failed: " + p.stdout[-1500:]
    got = json.load(open(out)).get(name)
    want = json.load(open(os.path.join(root, "facts", "expected", name + ".json")))
    if got == want:
        return True, "as expected"
    return False, "fact %s differs from facts/expected/%s.json:\n got  %s\n want %s" % (name, name, json.dumps(got, sort_keys=True), json.dumps(want, sort_keys=True))


def context_of(stream, ops, i):
    """op lines that must precede line i for it to replay (stateful streams: back to the last reset)"""
    if ops[i].split(" ")[0].split(".")[0] in STATELESS:
        return []
    j = i - 1
    ctx = []
    while j >= 0:
        ctx.append(ops[j])
        if ops[j].split(" ")[0].endswith(".reset"):
            break
        j -= 1
    return list(reversed(ctx))


STATELESS = {"benc", "vi", "cfg", "appr", "http", "udp", "httpw", "grp", "life", "jwt"}  # trk.* and st.* (store) operations are stateful: context back to st.reset


def oracle(pid, stream, op, impl, model):
    """True iff this diverging line is a concrete input on which the property fails for the
    implementation (as opposed to a mere difference from the model)."""
    return True


def args_of(op):
    d = {}
    for f in op.split(" ")[1:]:
        k, _, v = f.partition("=")
        d[k] = v
    return d


def judge(pid, stream, op, impl):
    """Property oracle on the implementation's observation alone (independent of the model):
    returns a reason string when this line is a concrete input on which the property fails."""
    name = op.split(" ")[0]
    f = JUDGES.get(name)
    if f is None:
        return None
    try:
        a = args_of(op)
        a["_pid"] = pid
        return f(a, impl)
    except Exception as e:  # a malformed observation is itself a failure of the tie
        return f"unjudgeable observation: {e}"


def judge_vi_handle(a, impl):
    if impl in ("refused",):
        return None
    if not impl.startswith("iv="):
        return "hook did not produce a response: " + impl
    o = args_of("x " + impl)
    iv, miv, iv2, miv2, delta = int(a["iv"]), int(a["miv"]), int(o["iv"]), int(o["miv"]), int(a["delta"])
    S = 10**9
    if (iv2 - iv) % S != 0:
        return "interval changed by a non-integral number of seconds"
    d = (iv2 - iv) // S
    if not (d == 0 or 1 <= d <= delta):
        return f"interval changed by d={d}, outside {{0}} ∪ [1,{delta}]"
    want = miv + d * S if a["mm"] == "1" else miv
    if miv2 != want:
        return f"min interval {miv2}, expected {want}"
    return None


def judge_trk(a, impl):
    """R2 (DESIGN §7): counts reported in an announce response lie between the swarm's counts
    before and after the announce is applied (scrape counts are exact and compared with the model)."""
    if a.get("_pid") == "C09":
        r = judge_udp_layout(a, impl)
        if r:
            return r
    if a.get("_pid") == "C03" and impl.startswith("ok ") and a.get("spoof") == "0" and "src" in a and "n4=" in impl:
        src = bytes.fromhex(a["src"])
        v4 = len(src) == 4 or (len(src) == 16 and src[:12] == b"\0" * 10 + b"\xff\xff")
        o = args_of("x " + impl)
        if v4 and int(o["n6"]) > 0:
            return "a response to an IPv4 source lists IPv6 peers"
        if not v4 and int(o["n4"]) > 0:
            return "a response to an IPv6 source lists IPv4 peers"
    if not impl.startswith("ok ") or "pre=" not in impl:
        if impl.startswith(("PANIC", "TWO-DATAGRAMS", "AFTER-RAN", "UNDECODABLE", "SENTINEL-LOST")):
            return "request handling failed: " + impl.split(" ")[0]
        if "cls=LEAK" in impl:
            return "internal error detail disclosed to the client"
        return None
    if a.get("_pid") != "C01":
        return None  # the count oracle (reading R2) belongs to C01; C12/C13 judge crashes, leaks and stray post-hooks only
    if "Sr" in a.get("pre", "").split(","):
        return None  # a hook asked to skip the response hook: counts are not filled in
    o = args_of("x " + impl)
    if not o.get("pre") or not o.get("post") or "/" not in o["pre"] or "/" not in o["post"]:
        return None
    c, i = int(o["c"]), int(o["i"])
    pc, pi = (int(x) for x in o["pre"].split("/"))
    qc, qi = (int(x) for x in o["post"].split("/"))
    n = int(o.get("n4", 0)) + int(o.get("n6", 0))
    for name, v, lo, hi in (("complete", c, min(pc, qc), max(pc, qc)), ("incomplete", i, min(pi, qi), max(pi, qi))):
        if not (lo <= v <= hi):
            bump = " (count bump: the store offered nobody, the response holds only the announcer itself and counts it although the swarm does not, or not in that role)" \
                if (v == hi + 1 and n == 1 and a.get("self") == "1") else ""
            return f"announce response reports {name}={v} but the swarm held {lo}..{hi} before/after this announce{bump}"
    return None


def judge_udp_layout(a, impl):
    """C09 on the implementation alone: the datagram answering a well-formed request has the BEP 15 size and echoes action and transaction."""
    if "pkt" not in a or "dgram=" not in impl or a.get("pre", "-") not in ("-", ""):
        return None  # with extra hooks in the chain the response content is theirs
    pkt = bytes.fromhex(a["pkt"]) if a["pkt"] != "-" else b""
    o = args_of("x " + impl)
    dg = bytes.fromhex(o["dgram"]) if o["dgram"] not in ("-", "") else b""
    if len(pkt) < 16 or len(dg) < 8:
        return None
    act, ract = int.from_bytes(pkt[8:12], "big"), int.from_bytes(dg[0:4], "big")
    if dg[4:8] != pkt[12:16]:
        return "response does not echo the request's transaction ID"
    if ract == 3:
        return None
    if ract != act:
        return f"response action {ract} for request action {act}"
    if act == 2:
        body = len(pkt) - 16
        if body % 20 == 0 and body > 0:
            n = min(body // 20, int(a.get("maxscrape", "0")) or 50)
            if len(dg) != 8 + 12 * n:
                return f"scrape of {body // 20} infohashes (limit {a.get('maxscrape')}) answered with {(len(dg) - 8) / 12:g} triples"
    return None


def judge_wedge(a, impl):
    pend = a.get("pending", "-")
    try:
        pend = bytes.fromhex(pend).decode("utf-8", "replace") if pend not in ("-", "") else "-"
    except ValueError:
        pass
    return "request handling did not terminate: the implementation produced no observation for the watchdog period while executing: " + pend[:300]


def judge_vi_check(a, impl):
    """C20/C18 on the implementation alone: the hook is built iff 0 < p <= 1 and 0 < delta <= MaxInt32 (a larger delta
    cannot be honoured: delta seconds overflow time.Duration, D29)"""
    pn, pd, delta = int(a["pn"]), int(a["pd"]), int(a["delta"])
    want = "ok" if (0 < pn <= pd and 0 < delta <= 2**31 - 1) else "refused"
    if impl != want:
        return f"hook options p={pn}/{pd} max_increase_delta={delta}: start-up answered '{impl}', the documented ranges demand '{want}'"
    return None


def judge_fault(a, impl):
    """tracker-level request while the store's Redis is down: it terminates, answers at most once, with a client
    error (the request's own fault), the fixed internal error, or a normal response that needed no store
    access — and never shows internal detail"""
    head = impl.split(" ")[0]
    if head in ("PANIC", "TWO-DATAGRAMS", "AFTER-RAN-ON-ERROR", "AFTER-RAN-ON-SILENCE", "UNDECODABLE", "SENTINEL-LOST", "WEDGED"):
        return "request handling failed while the store was unavailable: " + head
    if "cls=LEAK" in impl or "SECRET" in impl or "10.0.0.5" in impl:
        return "internal error detail (the Redis address / error text) disclosed to the client"
    return None


def judge_cfg_validate(a, impl):
    """C20 on the implementation alone: every governed value positive (string options non-empty), values that were
    valid are preserved (a shard count that cannot be doubled counts as invalid), validating twice changes nothing."""
    r = args_of("x " + impl)
    pkg = a.get("pkg")
    for k, v in r.items():
        if k == "idem":
            if v != "1":
                return f"{pkg}: validating twice changed the configuration again"
            continue
        if k.endswith("Empty"):
            if v != "0":
                return f"{pkg}: {k[:-5]} is still empty after validation"
            continue
        if k == "MaxClockSkew":  # a skew of zero is a value; a negative one refuses the IDs the tracker has just issued (D30)
            if int(v) < 0:
                return f"{pkg}: {k}={v} after validation (negative)"
            if k in a and int(a[k]) >= 0 and int(v) != int(a[k]):
                return f"{pkg}: {k} was valid ({a[k]}) and was replaced by {v}"
            continue
        if int(v) <= 0:
            return f"{pkg}: {k}={v} after validation (not positive)"
        if k in a and int(a[k]) > 0 and int(v) != int(a[k]):
            if k == "ShardCount" and int(a[k]) > (2**63 - 1) // 2:
                continue
            return f"{pkg}: {k} was valid ({a[k]}) and was replaced by {v}"
    return None


def judge_crash(a, impl):
    """the harness process died while executing the pending case (a panic outside the harness's recover, e.g. on a
    goroutine started by the code under test): always a failure"""
    try:
        pend = bytes.fromhex(a.get("pending", "")).decode(errors="replace")
    except ValueError:
        pend = a.get("pending", "")
    return "the implementation brought the process down (" + impl[:200] + ") while executing: " + pend[:300]


def judge_redis_sched(a, impl):
    """C17, last sentence, on the implementation alone: the Redis counters (what populateProm exports) at the point where
    the scheduled prefix of the round trips stops."""
    if a.get("_pid") != "C17":
        return None
    m = re.search(r"mid=.*?counters=\[([-0-9,]*)\]", impl)
    if not m:
        return None
    vals = [int(x) for x in m.group(1).split(",") if x]
    if any(v < 0 for v in vals):
        names = ["IPv4_infohash_count", "IPv4_S_count", "IPv4_L_count", "IPv6_infohash_count", "IPv6_S_count", "IPv6_L_count"]
        neg = ", ".join(f"{n}={v}" for n, v in zip(names, vals) if v < 0)
        return "a Redis counter is negative while operations are in flight (the counter commands follow the membership commands in round trips of their own): " + neg
    return None


JUDGES = {"st.redis_sched": judge_redis_sched, "crash.detected": judge_crash, "fault.trk.http_announce": judge_fault, "fault.trk.udp": judge_fault, "fault.trk.http_scrape": judge_fault, "cfg.validate": judge_cfg_validate, "wedge.detected": judge_wedge, "vi.check": judge_vi_check, "vi.handle": judge_vi_handle, "trk.http_announce": judge_trk, "trk.udp": judge_trk, "trk.http_scrape": judge_trk}


def matches(finding, failing):
    m = finding.get("match", {})
    if "op" in m and not re.search(m["op"], failing["op"]):
        return False
    if "impl" in m and not re.search(m["impl"], failing["impl"]):
        return False
    if "context" in m and not any(re.search(m["context"], l) for l in failing["context"] + [failing["op"]]):
        return False
    if "reason" in m and not re.search(m["reason"], failing.get("model", "")):
        return False
    return True


RACETESTS = {
    "C15": [("middleware/jwt", "TestRefreshRace")],
    "C04": [("storage/memory", "TestVerifStoreRace"), ("frontend/udp", "TestVerifUDPRace"), ("frontend/http", "TestVerifHTTPWriteRace")],
    "C08": [("frontend/http", "TestVerifHTTPWriteRace")],
    "C16": [("cmd/chihaya", "TestVerifRunStopWaits")],
}


def extra(check):
    """race-detector runs of overlay-injected tests (supporting evidence for 'no data races')"""
    import json, shutil
    tests = RACETESTS.get(check.pid, [])
    if not tests:
        return
    root = os.path.dirname(os.path.dirname(os.path.abspath(__file__)))
    repo = os.environ.get("VERIF_REPO", "/repo")
    if shutil.which("gcc") is None and shutil.which("cc") is None and shutil.which("clang") is None:
        check.obligations.append(("race detector", True, "skipped: no C compiler for -race"))
        return
    repl = {}
    for base, prefix in ((os.path.join(root, "harness", "shims"), "zz_verif_"), (os.path.join(root, "harness", "racetests"), "zz_verif_race_")):
        for dp, _, fs in os.walk(base):
            for fn in fs:
                if fn.endswith(".go"):
                    name = prefix + fn
                    if fn.endswith("_test.go"):
                        name = prefix + fn
                    repl[os.path.join(repo, os.path.relpath(dp, base), name)] = os.path.join(dp, fn)
    ov = os.path.join(check.work, "overlay-race.json")
    json.dump({"Replace": repl}, open(ov, "w"))
    env = dict(os.environ, GOFLAGS="-mod=mod", GOPROXY="off", GOSUMDB="off", GOTOOLCHAIN="local", CGO_ENABLED="1")
    for pkg, pat in tests:
        cmd = ["go", "test", "-race", "-tags", "verif", "-overlay", ov, "-vet=off", "-run", pat, "-count=1", "./" + pkg + "/"]
        try:
            p = subprocess.run(cmd, cwd=repo, env=env, stdout=subprocess.PIPE, stderr=subprocess.STDOUT, text=True, timeout=900)
            out, rc = p.stdout, p.returncode
        except subprocess.TimeoutExpired:
            out, rc = "timeout", 1
        ok = rc == 0 and "DATA RACE" not in out
        check.obligations.append((f"race detector {pkg} {pat}", ok, out.strip()[-200:]))
        check.checker_cmds.append("cd /repo && CGO_ENABLED=1 " + " ".join(cmd))
        if not ok:
            lines = [l for l in out.split("\n") if "DATA RACE" in l or l.strip().startswith(("Write at", "Previous", "Read at", "github.com/chihaya")) or "FAIL" in l]
            check.breaks.append(dict(kind="race", what=f"go test -race {pkg} -run {pat}", detail="\n".join(lines[:30]) or out[-2000:],
                                     failing=[dict(index=0, stream="race", op=f"go test -race -run {pat} ./{pkg}/ (overlay harness/racetests/{pkg})", impl="DATA RACE / FAIL",
                                                   model="no data race", kind="oracle", context=[], oracle=True)]))
