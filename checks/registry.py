"""Per-property configuration of ./check (what to build, which streams to run, oracles)."""
import os, re, subprocess

TRUSTED_BASE = [
    "Lean 4.33.0 kernel; axioms allowed: propext, Classical.choice, Quot.sound (audited with #print axioms on every run)",
    "no sorry/admit/axiom/native_decide/bv_decide/implemented_by/unsafe in lean/ (grepped on every run)",
    "tie model<->code: Go harness (harness/hx, rebuilt from the current tree) + line protocol + modeldrv parsing + canonicalisation",
]

PROPS = {}

PROPS["C19"] = dict(
    lean_targets=["Chihaya.Props.C19"],
    props_files=["Chihaya/Props/C19.lean"],
    streams=[dict(name="C19", quick=6000, thorough=150000)],
    rule="cases: round trips of generated value trees (boundary ints, string lengths around 4096 and up to 100000, depth<=6) "
         "through the real Marshal/Unmarshal, and decoder runs on truncations, byte flips, structure-looking garbage, raw bytes, "
         "malformed length prefixes; non-trivial = the model reached a decode/round-trip branch (every case does), distinct = distinct op line",
    trusted=["modelled not verified: bufio.Reader buffering (4096-byte ReadSlice limit), strconv.ParseInt/FormatInt, io.CopyN; "
             "Go stack exhaustion on multi-megabyte nesting is not modelled"],
    assumptions=["allocation is observed through runtime.MemStats.TotalAlloc deltas with budget 64*len(input)+1MiB"],
)


def run_gen(name, repo, lean, work, goenv):
    return 0, ""


def run_fact(name, repo, root, work, goenv):
    return True, ""


def context_of(stream, ops, i):
    """op lines that must precede line i for it to replay (stateful streams: back to the last reset)"""
    if ops[i].split(" ")[0].split(".")[0] in STATELESS:
        return []
    j = i - 1
    ctx = []
    while j >= 0:
        ctx.append(ops[j])
        if ops[j].split(" ")[0].endswith(".reset"):
            break
        j -= 1
    return list(reversed(ctx))


STATELESS = {"benc"}


def oracle(pid, stream, op, impl, model):
    """True iff this diverging line is a concrete input on which the property fails for the
    implementation (as opposed to a mere difference from the model)."""
    return True


def matches(finding, failing):
    m = finding.get("match", {})
    if "op" in m and not re.search(m["op"], failing["op"]):
        return False
    if "impl" in m and not re.search(m["impl"], failing["impl"]):
        return False
    if "context" in m and not any(re.search(m["context"], l) for l in failing["context"] + [failing["op"]]):
        return False
    return True


def extra(check):
    pass
