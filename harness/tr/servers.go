package main

// Fact "http_server_timeouts": which of the validated timeouts each http.Server literal of the tracker is given.
// Every server of the HTTP frontend must get all three (read, write, idle: D38 — the HTTPS server was built
// without the idle timeout, so net/http fell back to the read timeout for keep-alive connections).

import (
	"go/ast"
	"go/parser"
	"go/token"
	"path/filepath"
	"sort"
	"strings"
)

func serverTimeoutFacts(repo string) (interface{}, error) {
	res := map[string][]string{}
	for _, rel := range []string{"frontend/http/frontend.go", "pkg/metrics/server.go"} {
		fset := token.NewFileSet()
		f, err := parser.ParseFile(fset, filepath.Join(repo, rel), nil, 0)
		if err != nil {
			return nil, err
		}
		n := 0
		for _, d := range f.Decls {
			fd, ok := d.(*ast.FuncDecl)
			if !ok || fd.Body == nil {
				continue
			}
			ast.Inspect(fd.Body, func(x ast.Node) bool {
				cl, ok := x.(*ast.CompositeLit)
				if !ok || exprString(cl.Type) != "http.Server" {
					return true
				}
				n++
				var set []string
				for _, e := range cl.Elts {
					if kv, ok := e.(*ast.KeyValueExpr); ok {
						switch k := exprString(kv.Key); k {
						case "ReadTimeout", "ReadHeaderTimeout", "WriteTimeout", "IdleTimeout":
							v := exprString(kv.Value)
							if len(v) > 0 && v[0] == '<' { // not a plain selector: the name is what matters
								v = "…"
							}
							set = append(set, k+"="+v)
						}
					}
				}
				sort.Strings(set)
				// which function builds the server, and how many literals there are, is the code's business: the fact is
				// the set of distinct timeout assignments among the file's server literals
				k := strings.Join(set, " ")
				dup := false
				for _, e := range res[rel] {
					dup = dup || e == k
				}
				if !dup {
					res[rel] = append(res[rel], k)
					sort.Strings(res[rel])
				}
				return true
			})
		}
	}
	return res, nil
}

func init() { moreFacts["http_server_timeouts"] = serverTimeoutFacts }
