package main

// Fact extractor: lock discipline of storage/memory/peer_store.go.
//
// Abstract interpretation of every function: the lock state {none, R, W} of each shard variable
// is tracked through every path; reported are (a) the sequence of critical sections per function
// and (b) every violation: a read of swarms/numSeeders/numLeechers outside a section, a write under
// a read lock or outside a section, a return / loop back-edge / branch join with inconsistent
// lock state. These are the hypotheses of the linearizability theorem (Props/C04.lean).

import (
	"fmt"
	"go/ast"
	"go/parser"
	"go/token"
	"path/filepath"
	"sort"
	"strings"
)

var guardedFields = map[string]bool{"swarms": true, "numSeeders": true, "numLeechers": true}

type lockEvent struct {
	kind string // "sec" (own critical section: val = R|W) or "call" (val = callee, held = strongest lock held at the call)
	val  string
	held string
	line int
}

type lockWalker struct {
	fset       *token.FileSet
	fn         string
	sections   []string
	events     []lockEvent
	need       string // strongest lock the caller must hold for this function's accesses outside its own sections
	known      map[string]bool
	violations []string
}

func stronger(a, b string) string {
	if a == "W" || b == "W" {
		return "W"
	}
	if a == "R" || b == "R" {
		return "R"
	}
	return ""
}

func (s lstate) strongest() string {
	out := ""
	for _, v := range s {
		out = stronger(out, v)
	}
	return out
}

type lstate map[string]string

func (s lstate) copy() lstate {
	c := lstate{}
	for k, v := range s {
		c[k] = v
	}
	return c
}
func (s lstate) eq(o lstate) bool {
	for k, v := range s {
		if v != "" && o[k] != v {
			return false
		}
	}
	for k, v := range o {
		if v != "" && s[k] != v {
			return false
		}
	}
	return true
}
func (s lstate) String() string {
	var ks []string
	for k, v := range s {
		if v != "" {
			ks = append(ks, k+":"+v)
		}
	}
	sort.Strings(ks)
	return "{" + strings.Join(ks, ",") + "}"
}

func (w *lockWalker) viol(pos token.Pos, format string, a ...interface{}) {
	w.violations = append(w.violations, fmt.Sprintf("%s line %d: %s", w.fn, w.fset.Position(pos).Line, fmt.Sprintf(format, a...)))
}

// guardedBase returns the shard variable if e is (a chain of index/selector expressions rooted at) X.<guarded field>.
func guardedBase(e ast.Expr) (string, bool) {
	for {
		switch x := e.(type) {
		case *ast.IndexExpr:
			e = x.X
		case *ast.ParenExpr:
			e = x.X
		case *ast.SelectorExpr:
			if id, ok := x.X.(*ast.Ident); ok && guardedFields[x.Sel.Name] {
				return id.Name, true
			}
			e = x.X
		default:
			return "", false
		}
	}
}

func (w *lockWalker) reads(n ast.Node, st lstate, skip map[ast.Expr]bool) {
	if n == nil {
		return
	}
	ast.Inspect(n, func(m ast.Node) bool {
		if _, ok := m.(*ast.FuncLit); ok {
			return false
		}
		if ce, ok := m.(*ast.CallExpr); ok {
			name := ""
			switch f := ce.Fun.(type) {
			case *ast.Ident:
				name = f.Name
			case *ast.SelectorExpr:
				name = f.Sel.Name
			}
			if w.known[name] {
				w.events = append(w.events, lockEvent{kind: "call", val: name, held: st.strongest(), line: w.fset.Position(ce.Pos()).Line})
			}
		}
		if se, ok := m.(*ast.SelectorExpr); ok && !skip[se] {
			if id, ok := se.X.(*ast.Ident); ok && guardedFields[se.Sel.Name] {
				if st[id.Name] == "" {
					// not an error in a helper: the caller must hold the lock (checked when the call graph is flattened)
					w.need = stronger(w.need, "R")
				}
			}
		}
		return true
	})
}

func (w *lockWalker) write(e ast.Expr, st lstate) bool {
	if v, ok := guardedBase(e); ok {
		switch st[v] {
		case "W":
		case "":
			w.need = "W" // the caller must hold the write lock
		default:
			w.viol(e.Pos(), "write to %s under lock state %q", exprPath(e), st[v])
		}
		return true
	}
	return false
}

func exprPath(e ast.Expr) string {
	switch x := e.(type) {
	case *ast.IndexExpr:
		return exprPath(x.X) + "[…]"
	case *ast.SelectorExpr:
		return exprPath(x.X) + "." + x.Sel.Name
	case *ast.Ident:
		return x.Name
	}
	return "?"
}

func terminates(b *ast.BlockStmt) bool {
	if b == nil || len(b.List) == 0 {
		return false
	}
	switch x := b.List[len(b.List)-1].(type) {
	case *ast.ReturnStmt:
		return true
	case *ast.BranchStmt:
		return x.Tok == token.CONTINUE || x.Tok == token.BREAK
	case *ast.ExprStmt:
		if c, ok := x.X.(*ast.CallExpr); ok && exprString(c.Fun) == "panic" {
			return true
		}
	}
	return false
}

func (w *lockWalker) block(list []ast.Stmt, st lstate, loopStart lstate) lstate {
	for _, s := range list {
		st = w.stmt(s, st, loopStart)
	}
	return st
}

func (w *lockWalker) stmt(s ast.Stmt, st lstate, loopStart lstate) lstate {
	switch x := s.(type) {
	case *ast.ExprStmt:
		if call, ok := x.X.(*ast.CallExpr); ok {
			if sel, ok := call.Fun.(*ast.SelectorExpr); ok {
				if id, ok := sel.X.(*ast.Ident); ok {
					switch sel.Sel.Name {
					case "Lock", "RLock":
						kind := map[string]string{"Lock": "W", "RLock": "R"}[sel.Sel.Name]
						if st[id.Name] != "" {
							w.viol(x.Pos(), "%s.%s() while already holding %s", id.Name, sel.Sel.Name, st[id.Name])
						}
						st = st.copy()
						st[id.Name] = kind
						w.sections = append(w.sections, kind)
						w.events = append(w.events, lockEvent{kind: "sec", val: kind, line: w.fset.Position(x.Pos()).Line})
						return st
					case "Unlock", "RUnlock":
						want := map[string]string{"Unlock": "W", "RUnlock": "R"}[sel.Sel.Name]
						if st[id.Name] != want {
							w.viol(x.Pos(), "%s.%s() in lock state %q", id.Name, sel.Sel.Name, st[id.Name])
						}
						st = st.copy()
						st[id.Name] = ""
						return st
					}
				}
			}
			if id, ok := call.Fun.(*ast.Ident); ok && id.Name == "delete" && len(call.Args) == 2 {
				skip := map[ast.Expr]bool{}
				if w.write(call.Args[0], st) {
					markSelectors(call.Args[0], skip)
				}
				w.reads(x, st, skip)
				return st
			}
		}
		w.reads(x, st, nil)
	case *ast.AssignStmt:
		skip := map[ast.Expr]bool{}
		for _, l := range x.Lhs {
			if w.write(l, st) {
				markSelectors(l, skip)
			}
		}
		w.reads(x, st, skip)
	case *ast.IncDecStmt:
		skip := map[ast.Expr]bool{}
		if w.write(x.X, st) {
			markSelectors(x.X, skip)
		}
		w.reads(x, st, skip)
	case *ast.DeferStmt:
		if sel, ok := x.Call.Fun.(*ast.SelectorExpr); ok && (sel.Sel.Name == "Unlock" || sel.Sel.Name == "RUnlock") {
			w.viol(x.Pos(), "deferred unlock is not supported by the extractor")
		}
		w.reads(x.Call, st, nil)
	case *ast.ReturnStmt:
		w.reads(x, st, nil)
		for k, v := range st {
			if v != "" {
				w.viol(x.Pos(), "return while holding %s:%s", k, v)
			}
		}
	case *ast.BranchStmt:
		if x.Tok == token.CONTINUE && loopStart != nil && !st.eq(loopStart) {
			w.viol(x.Pos(), "continue with lock state %s, loop entered with %s", st, loopStart)
		}
	case *ast.IfStmt:
		if x.Init != nil {
			st = w.stmt(x.Init, st, loopStart)
		}
		w.reads(x.Cond, st, nil)
		after := w.block(x.Body.List, st.copy(), loopStart)
		var afterElse lstate = st
		elseTerm := false
		if x.Else != nil {
			switch e := x.Else.(type) {
			case *ast.BlockStmt:
				afterElse = w.block(e.List, st.copy(), loopStart)
				elseTerm = terminates(e)
			default:
				afterElse = w.stmt(e, st.copy(), loopStart)
			}
		}
		switch {
		case terminates(x.Body) && elseTerm:
			return st
		case terminates(x.Body):
			return afterElse
		case elseTerm:
			return after
		default:
			if !after.eq(afterElse) {
				w.viol(x.Pos(), "branches join with different lock states %s / %s", after, afterElse)
			}
			return after
		}
	case *ast.ForStmt:
		if x.Init != nil {
			st = w.stmt(x.Init, st, loopStart)
		}
		w.reads(x.Cond, st, nil)
		end := w.block(x.Body.List, st.copy(), st)
		if !terminates(x.Body) && !end.eq(st) {
			w.viol(x.Pos(), "loop body ends with lock state %s, entered with %s", end, st)
		}
	case *ast.RangeStmt:
		w.reads(x.X, st, nil)
		end := w.block(x.Body.List, st.copy(), st)
		if !terminates(x.Body) && !end.eq(st) {
			w.viol(x.Pos(), "loop body ends with lock state %s, entered with %s", end, st)
		}
	case *ast.BlockStmt:
		return w.block(x.List, st, loopStart)
	case *ast.SelectStmt:
		for _, c := range x.Body.List {
			cc := c.(*ast.CommClause)
			end := w.block(cc.Body, st.copy(), loopStart)
			if len(cc.Body) > 0 {
				if _, isRet := cc.Body[len(cc.Body)-1].(*ast.ReturnStmt); isRet {
					continue
				}
				if es, ok := cc.Body[len(cc.Body)-1].(*ast.ExprStmt); ok {
					if call, ok := es.X.(*ast.CallExpr); ok && exprString(call.Fun) == "panic" {
						continue
					}
				}
			}
			if !end.eq(st) {
				w.viol(cc.Pos(), "select clause changes the lock state")
			}
		}
	case *ast.SwitchStmt:
		w.reads(x.Tag, st, nil)
		for _, c := range x.Body.List {
			cc := c.(*ast.CaseClause)
			end := w.block(cc.Body, st.copy(), loopStart)
			if !end.eq(st) {
				w.viol(cc.Pos(), "switch clause changes the lock state")
			}
		}
	case *ast.GoStmt:
		// the goroutine body is analysed as a function of its own (below)
	case *ast.DeclStmt:
		w.reads(x, st, nil)
	default:
		w.reads(s, st, nil)
	}
	return st
}

func markSelectors(e ast.Expr, skip map[ast.Expr]bool) {
	// the outermost guarded selector of a written path is a write, not a read
	for {
		switch x := e.(type) {
		case *ast.IndexExpr:
			e = x.X
		case *ast.ParenExpr:
			e = x.X
		case *ast.SelectorExpr:
			if _, ok := x.X.(*ast.Ident); ok && guardedFields[x.Sel.Name] {
				skip[x] = true
				return
			}
			e = x.X
		default:
			return
		}
	}
}

func lockDiscipline(repo string) (interface{}, error) {
	fset := token.NewFileSet()
	f, err := parser.ParseFile(fset, filepath.Join(repo, "storage/memory/peer_store.go"), nil, 0)
	if err != nil {
		return nil, err
	}
	known := map[string]bool{}
	for _, d := range f.Decls {
		if fd, ok := d.(*ast.FuncDecl); ok && fd.Body != nil {
			known[fd.Name.Name] = true
		}
	}
	infos := map[string]*lockWalker{}
	var roots []string // function literals: goroutine bodies and callbacks, nobody holds a lock for them
	violations := []string{}
	var analyse func(name string, body *ast.BlockStmt)
	analyse = func(name string, body *ast.BlockStmt) {
		w := &lockWalker{fset: fset, fn: name, known: known}
		end := w.block(body.List, lstate{}, nil)
		for k, v := range end {
			if v != "" {
				w.viol(body.End(), "function ends while holding %s:%s", k, v)
			}
		}
		infos[name] = w
		violations = append(violations, w.violations...)
		i := 0
		ast.Inspect(body, func(n ast.Node) bool {
			if fl, ok := n.(*ast.FuncLit); ok {
				i++
				sub := fmt.Sprintf("%s.func%d", name, i)
				roots = append(roots, sub)
				analyse(sub, fl.Body)
				return false
			}
			return true
		})
	}
	entry := map[string]bool{"collectGarbage": true, "populateProm": true}
	for _, d := range f.Decls {
		if fd, ok := d.(*ast.FuncDecl); ok && fd.Body != nil {
			analyse(fd.Name.Name, fd.Body)
			if fd.Recv != nil && ast.IsExported(fd.Name.Name) {
				entry[fd.Name.Name] = true
			}
		}
	}
	// flatten the call graph: the critical sections an operation executes, in program order, helpers inlined;
	// and the lock a function needs from its caller
	type flat struct {
		secs []string
		need string
	}
	memo := map[string]*flat{}
	var flatten func(name string, stack map[string]bool) *flat
	flatten = func(name string, stack map[string]bool) *flat {
		if r, ok := memo[name]; ok {
			return r
		}
		w := infos[name]
		r := &flat{}
		if w == nil || stack[name] {
			return r
		}
		stack[name] = true
		r.need = w.need
		for _, e := range w.events {
			if e.kind == "sec" {
				r.secs = append(r.secs, e.val)
				continue
			}
			c := flatten(e.val, stack)
			if len(c.secs) > 0 && e.held != "" {
				violations = append(violations, fmt.Sprintf("%s line %d: calls %s, which takes a shard lock, while holding %s", name, e.line, e.val, e.held))
			}
			r.secs = append(r.secs, c.secs...)
			switch {
			case c.need == "":
			case e.held == "":
				r.need = stronger(r.need, c.need)
			case c.need == "W" && e.held != "W":
				violations = append(violations, fmt.Sprintf("%s line %d: calls %s, which writes guarded state, under lock state %q", name, e.line, e.val, e.held))
			}
		}
		delete(stack, name)
		memo[name] = r
		return r
	}
	sections := map[string][]string{}
	for name := range entry {
		r := flatten(name, map[string]bool{})
		if r.need != "" {
			violations = append(violations, fmt.Sprintf("%s: guarded state accessed outside a critical section (needs %s from a caller that does not exist)", name, r.need))
		}
		if len(r.secs) > 0 {
			sections[name] = r.secs
		}
	}
	var gor []string
	seen := map[string]bool{}
	for _, name := range roots {
		r := flatten(name, map[string]bool{})
		if r.need != "" {
			violations = append(violations, fmt.Sprintf("%s: guarded state accessed outside a critical section", name))
		}
		if len(r.secs) > 0 {
			k := strings.Join(r.secs, ",")
			if !seen[k] {
				seen[k] = true
				gor = append(gor, k)
			}
		}
	}
	sort.Strings(gor)
	sort.Strings(violations)
	return map[string]interface{}{"sections": sections, "background": gor, "violations": violations}, nil
}

func init() { moreFacts["memory_lock_discipline"] = lockDiscipline }
