package main

// Translator for middleware/pkg/random/{xorshift,entropy}.go: uint64/int straight-line code
// -> Lean definitions over BitVec 64 with Go's wrap-around semantics.
//
// Types: uint64 and int are both BitVec 64; the translator tracks which one an expression
// has, to choose signed or unsigned comparison / remainder / shift. Supported: parameters
// and named results of those types, :=, =, op=, if without else whose body only assigns,
// the guard `if n <= 0 { panic(...) }`, multi-value call of a translated function,
// conversions int(x)/uint64(x), binary.BigEndian.Uint64(x[a:b]) on the two 20-byte inputs,
// + - ^ << >> % and unary -, return.

import (
	"fmt"
	"go/ast"
	"go/parser"
	"go/token"
	"path/filepath"
	"strings"
)

type ty int

const (
	tU64 ty = iota
	tInt
)

// a byte-slice value the translator can follow: one of the two 20-byte inputs from an offset
type sliceVal struct {
	src string // "ih" | "pid"
	off int
}

type rtr struct {
	helpers map[string]*ast.FuncDecl // unexported straight-line helpers of the package, inlined at their calls
	slices  map[string]sliceVal      // byte-slice parameters of the helper being inlined
	env     map[string]ty
	funcs   map[string][]ty // result types of translated functions
	lines   []string
	ver     map[string]int // SSA-style renaming is not needed: Lean `let` shadows
}

func (t *rtr) expr(e ast.Expr) (string, ty, error) {
	switch x := e.(type) {
	case *ast.ParenExpr:
		return t.expr(x.X)
	case *ast.Ident:
		ty, ok := t.env[x.Name]
		if !ok {
			return "", 0, fmt.Errorf("unknown identifier %s", x.Name)
		}
		return x.Name, ty, nil
	case *ast.BasicLit:
		if x.Kind != token.INT {
			return "", 0, fmt.Errorf("unsupported literal %s", x.Value)
		}
		return "(" + x.Value + "#64)", tInt, nil
	case *ast.UnaryExpr:
		s, ty, err := t.expr(x.X)
		if err != nil {
			return "", 0, err
		}
		if x.Op == token.SUB {
			return "(-" + s + ")", ty, nil
		}
		return "", 0, fmt.Errorf("unsupported unary %s", x.Op)
	case *ast.BinaryExpr:
		a, ta, err := t.expr(x.X)
		if err != nil {
			return "", 0, err
		}
		b, tb, err := t.expr(x.Y)
		if err != nil {
			return "", 0, err
		}
		_, litB := x.Y.(*ast.BasicLit)
		_, litA := x.X.(*ast.BasicLit)
		rt := ta
		if litA && !litB {
			rt = tb
		}
		if !litA && !litB && ta != tb && x.Op != token.SHL && x.Op != token.SHR {
			return "", 0, fmt.Errorf("mixed int/uint64 operands in %s", x.Op)
		}
		switch x.Op {
		case token.ADD:
			return "(" + a + " + " + b + ")", rt, nil
		case token.SUB:
			return "(" + a + " - " + b + ")", rt, nil
		case token.XOR:
			return "(" + a + " ^^^ " + b + ")", rt, nil
		case token.SHL:
			return "(" + a + " <<< " + b + ")", ta, nil
		case token.SHR:
			if ta == tInt {
				return "(BitVec.sshiftRight' " + a + " " + b + ")", ta, nil
			}
			return "(" + a + " >>> " + b + ")", ta, nil
		case token.REM:
			if rt == tInt {
				return "(BitVec.srem " + a + " " + b + ")", rt, nil
			}
			return "(" + a + " % " + b + ")", rt, nil
		}
		return "", 0, fmt.Errorf("unsupported binary %s", x.Op)
	case *ast.CallExpr:
		if id, ok := x.Fun.(*ast.Ident); ok && t.helpers[id.Name] != nil {
			return t.inline(t.helpers[id.Name], x.Args)
		}
		if id, ok := x.Fun.(*ast.Ident); ok && len(x.Args) == 1 {
			s, _, err := t.expr(x.Args[0])
			if err != nil {
				return "", 0, err
			}
			switch id.Name {
			case "int":
				return s, tInt, nil
			case "uint64":
				return s, tU64, nil
			}
		}
		// binary.BigEndian.Uint64(req.InfoHash[:8]) etc.
		if sel, ok := x.Fun.(*ast.SelectorExpr); ok && sel.Sel.Name == "Uint64" && len(x.Args) == 1 {
			if sl, ok := x.Args[0].(*ast.SliceExpr); ok {
				base, err := t.sliceOf(sl.X)
				if err != nil {
					return "", 0, err
				}
				lo := 0
				if sl.Low != nil {
					if lo, err = intLit(sl.Low); err != nil {
						return "", 0, err
					}
				}
				if sl.High == nil {
					return "", 0, fmt.Errorf("open-ended slice")
				}
				hi, err := intLit(sl.High)
				if err != nil {
					return "", 0, err
				}
				return fmt.Sprintf("(be64At %s %d %d)", base.src, base.off+lo, base.off+hi), tU64, nil
			}
		}
		// a call of an unexported straight-line helper of the package: inlined
		if id, ok := x.Fun.(*ast.Ident); ok && t.helpers[id.Name] != nil {
			return t.inline(t.helpers[id.Name], x.Args)
		}
		return "", 0, fmt.Errorf("unsupported call %s", exprString(x.Fun))
	}
	return "", 0, fmt.Errorf("unsupported expression %T", e)
}

func intLit(e ast.Expr) (int, error) {
	if bl, ok := e.(*ast.BasicLit); ok && bl.Kind == token.INT {
		var n int
		_, err := fmt.Sscan(bl.Value, &n)
		return n, err
	}
	return 0, fmt.Errorf("slice bound is not an integer literal")
}

// sliceOf follows a byte-slice expression back to one of the two 20-byte inputs
func (t *rtr) sliceOf(e ast.Expr) (sliceVal, error) {
	switch x := e.(type) {
	case *ast.ParenExpr:
		return t.sliceOf(x.X)
	case *ast.Ident:
		if v, ok := t.slices[x.Name]; ok {
			return v, nil
		}
	case *ast.SelectorExpr:
		switch exprString(x) {
		case "req.InfoHash":
			return sliceVal{"ih", 0}, nil
		case "req.Peer.ID", "req.ID":
			return sliceVal{"pid", 0}, nil
		}
	case *ast.SliceExpr:
		b, err := t.sliceOf(x.X)
		if err != nil {
			return b, err
		}
		if x.Low != nil {
			lo, err := intLit(x.Low)
			if err != nil {
				return b, err
			}
			b.off += lo
		}
		return b, nil
	}
	return sliceVal{}, fmt.Errorf("unsupported byte-slice expression %s", exprString(e))
}

// inline translates a call of a helper `func f(params) T { x := …; …; return e }` into `(let p := a; let x := …; e)`
func (t *rtr) inline(fd *ast.FuncDecl, args []ast.Expr) (string, ty, error) {
	if fd.Type.Results == nil || len(fd.Type.Results.List) != 1 || len(fd.Type.Results.List[0].Names) > 1 {
		return "", 0, fmt.Errorf("helper %s: exactly one result expected", fd.Name.Name)
	}
	rty, err := goTy(fd.Type.Results.List[0].Type)
	if err != nil {
		return "", 0, err
	}
	sub := &rtr{helpers: t.helpers, slices: map[string]sliceVal{}, env: map[string]ty{}, funcs: t.funcs}
	var lets []string
	i := 0
	for _, fl := range fd.Type.Params.List {
		for _, n := range fl.Names {
			if i >= len(args) {
				return "", 0, fmt.Errorf("helper %s: too few arguments", fd.Name.Name)
			}
			if at, ok := fl.Type.(*ast.ArrayType); ok && at.Len == nil && exprString(at.Elt) == "byte" {
				v, err := t.sliceOf(args[i])
				if err != nil {
					return "", 0, err
				}
				sub.slices[n.Name] = v
			} else {
				pty, err := goTy(fl.Type)
				if err != nil {
					return "", 0, err
				}
				a, _, err := t.expr(args[i])
				if err != nil {
					return "", 0, err
				}
				sub.env[n.Name] = pty
				lets = append(lets, fmt.Sprintf("let %s := %s", n.Name, a))
			}
			i++
		}
	}
	res, err := sub.stmts(fd.Body.List, nil)
	if err != nil {
		return "", 0, fmt.Errorf("helper %s: %v", fd.Name.Name, err)
	}
	for _, l := range sub.lines {
		lets = append(lets, strings.TrimSpace(l))
	}
	for _, l := range lets {
		if !strings.HasPrefix(l, "let ") {
			return "", 0, fmt.Errorf("helper %s: only assignments and a return are supported", fd.Name.Name)
		}
	}
	res = strings.TrimSuffix(strings.TrimPrefix(res, "("), ")")
	if len(lets) == 0 {
		return "(" + res + ")", rty, nil
	}
	return "(" + strings.Join(lets, "; ") + "; " + res + ")", rty, nil
}

func exprString(e ast.Expr) string {
	switch x := e.(type) {
	case *ast.Ident:
		return x.Name
	case *ast.SelectorExpr:
		return exprString(x.X) + "." + x.Sel.Name
	case *ast.BasicLit:
		return x.Value
	}
	return fmt.Sprintf("<%T>", e)
}

func (t *rtr) cond(e ast.Expr) (string, error) {
	b, ok := e.(*ast.BinaryExpr)
	if !ok {
		return "", fmt.Errorf("unsupported condition")
	}
	a, ta, err := t.expr(b.X)
	if err != nil {
		return "", err
	}
	c, _, err := t.expr(b.Y)
	if err != nil {
		return "", err
	}
	signed := ta == tInt
	switch b.Op {
	case token.LSS:
		if signed {
			return "(BitVec.slt " + a + " " + c + ")", nil
		}
		return "(BitVec.ult " + a + " " + c + ")", nil
	case token.LEQ:
		if signed {
			return "(BitVec.sle " + a + " " + c + ")", nil
		}
		return "(BitVec.ule " + a + " " + c + ")", nil
	}
	return "", fmt.Errorf("unsupported comparison %s", b.Op)
}

func (t *rtr) emit(s string) { t.lines = append(t.lines, s) }

func (t *rtr) assign(lhs string, rhs string, ty ty) {
	t.env[lhs] = ty
	t.emit(fmt.Sprintf("  let %s := %s", lhs, rhs))
}

// stmts translates a statement list; returns the Lean expression of the function's result.
func (t *rtr) stmts(list []ast.Stmt, results []string) (string, error) {
	for _, s := range list {
		switch x := s.(type) {
		case *ast.AssignStmt:
			if len(x.Rhs) == 1 && len(x.Lhs) > 1 {
				call, ok := x.Rhs[0].(*ast.CallExpr)
				if !ok {
					return "", fmt.Errorf("multi-assign from non-call")
				}
				fn := exprString(call.Fun)
				rts, ok := t.funcs[fn]
				if !ok || len(rts) != len(x.Lhs) {
					return "", fmt.Errorf("call of untranslated function %s", fn)
				}
				var args []string
				for _, a := range call.Args {
					s, _, err := t.expr(a)
					if err != nil {
						return "", err
					}
					args = append(args, s)
				}
				var names []string
				for i, l := range x.Lhs {
					n := exprString(l)
					names = append(names, n)
					t.env[n] = rts[i]
				}
				t.emit(fmt.Sprintf("  let (%s) := %s %s", strings.Join(names, ", "), lower(fn), strings.Join(args, " ")))
				continue
			}
			if len(x.Lhs) != len(x.Rhs) {
				return "", fmt.Errorf("unsupported assignment shape")
			}
			for i := range x.Lhs {
				name := exprString(x.Lhs[i])
				r, ty, err := t.expr(x.Rhs[i])
				if err != nil {
					return "", err
				}
				switch x.Tok {
				case token.DEFINE, token.ASSIGN:
					if old, ok := t.env[name]; ok && x.Tok == token.ASSIGN {
						ty = old
					}
					t.assign(name, r, ty)
				case token.XOR_ASSIGN:
					t.assign(name, "("+name+" ^^^ "+r+")", t.env[name])
				case token.ADD_ASSIGN:
					t.assign(name, "("+name+" + "+r+")", t.env[name])
				default:
					return "", fmt.Errorf("unsupported assignment operator %s", x.Tok)
				}
			}
		case *ast.IfStmt:
			if x.Else != nil || x.Init != nil {
				return "", fmt.Errorf("unsupported if form")
			}
			c, err := t.cond(x.Cond)
			if err != nil {
				return "", err
			}
			// panic guard
			if len(x.Body.List) == 1 {
				if es, ok := x.Body.List[0].(*ast.ExprStmt); ok {
					if call, ok := es.X.(*ast.CallExpr); ok && exprString(call.Fun) == "panic" {
						t.emit(fmt.Sprintf("  if %s then none else", c))
						continue
					}
				}
			}
			for _, bs := range x.Body.List {
				as, ok := bs.(*ast.AssignStmt)
				if !ok || len(as.Lhs) != 1 || as.Tok != token.ASSIGN {
					return "", fmt.Errorf("unsupported statement in if body")
				}
				name := exprString(as.Lhs[0])
				r, _, err := t.expr(as.Rhs[0])
				if err != nil {
					return "", err
				}
				t.emit(fmt.Sprintf("  let %s := if %s then %s else %s", name, c, r, name))
			}
		case *ast.ReturnStmt:
			var rs []string
			if len(x.Results) == 0 {
				rs = results
			} else {
				for _, r := range x.Results {
					s, _, err := t.expr(r)
					if err != nil {
						return "", err
					}
					rs = append(rs, s)
				}
			}
			return "(" + strings.Join(rs, ", ") + ")", nil
		case *ast.ExprStmt:
			return "", fmt.Errorf("unsupported expression statement")
		default:
			return "", fmt.Errorf("unsupported statement %T", s)
		}
	}
	return "", fmt.Errorf("function does not end in return")
}

func lower(s string) string {
	if i := strings.LastIndexByte(s, '.'); i >= 0 {
		s = s[i+1:]
	}
	return strings.ToLower(s[:1]) + s[1:]
}

func goTy(e ast.Expr) (ty, error) {
	switch exprString(e) {
	case "uint64":
		return tU64, nil
	case "int":
		return tInt, nil
	}
	return 0, fmt.Errorf("unsupported type %s", exprString(e))
}

func (t *rtr) fn(fd *ast.FuncDecl, partialPanics bool) (string, error) {
	t.env = map[string]ty{}
	t.lines = nil
	var params []string
	for _, f := range fd.Type.Params.List {
		if se, ok := f.Type.(*ast.StarExpr); ok && exprString(se.X) == "bittorrent.AnnounceRequest" {
			params = append(params, "(ih pid : List UInt8)")
			continue
		}
		ty, err := goTy(f.Type)
		if err != nil {
			return "", err
		}
		for _, n := range f.Names {
			t.env[n.Name] = ty
			params = append(params, "("+n.Name+" : BitVec 64)")
		}
	}
	var results []string
	var rts []ty
	for _, f := range fd.Type.Results.List {
		ty, err := goTy(f.Type)
		if err != nil {
			return "", err
		}
		if len(f.Names) == 0 {
			rts = append(rts, ty)
		}
		for _, n := range f.Names {
			t.env[n.Name] = ty
			results = append(results, n.Name)
			rts = append(rts, ty)
		}
	}
	ret, err := t.stmts(fd.Body.List, results)
	if err != nil {
		return "", fmt.Errorf("%s: %v", fd.Name.Name, err)
	}
	t.funcs[fd.Name.Name] = rts
	t.funcs["random."+fd.Name.Name] = rts
	rt := strings.TrimSuffix(strings.Repeat("BitVec 64 × ", len(rts)), " × ")
	panics := false
	for _, l := range t.lines {
		if strings.Contains(l, "then none else") {
			panics = true
		}
	}
	if panics {
		rt = "Option (" + rt + ")"
		ret = "some " + ret
	}
	return fmt.Sprintf("def %s %s : %s :=\n%s\n  %s\n", lower(fd.Name.Name), strings.Join(params, " "), rt,
		strings.Join(t.lines, "\n"), ret), nil
}

func trRandom(repo string) (string, error) {
	fset := token.NewFileSet()
	t := &rtr{funcs: map[string][]ty{}, helpers: map[string]*ast.FuncDecl{}, slices: map[string]sliceVal{}}
	for _, file := range []string{"xorshift.go", "entropy.go"} {
		if f, err := parser.ParseFile(fset, filepath.Join(repo, "middleware/pkg/random", file), nil, 0); err == nil {
			for _, d := range f.Decls {
				if fd, ok := d.(*ast.FuncDecl); ok && fd.Recv == nil && fd.Body != nil && !ast.IsExported(fd.Name.Name) {
					t.helpers[fd.Name.Name] = fd
				}
			}
		}
	}
	var sb strings.Builder
	sb.WriteString("/- GENERATED by harness/tr from middleware/pkg/random/*.go — do not edit; regenerated on every check. -/\n")
	sb.WriteString("namespace Gen.Random\n\n")
	sb.WriteString("/-- `binary.BigEndian.Uint64(b[lo:hi])` (8 bytes) -/\ndef be64At (b : List UInt8) (lo hi : Nat) : BitVec 64 :=\n  BitVec.ofNat 64 (((b.drop lo).take (hi - lo)).foldl (fun acc x => acc * 256 + x.toNat) 0)\n\n")
	order := []struct{ file, fn string }{
		{"xorshift.go", "GenerateAndAdvance"}, {"xorshift.go", "Intn"}, {"entropy.go", "DeriveEntropyFromRequest"}}
	for _, o := range order {
		f, err := parser.ParseFile(fset, filepath.Join(repo, "middleware/pkg/random", o.file), nil, 0)
		if err != nil {
			return "", err
		}
		found := false
		for _, d := range f.Decls {
			if fd, ok := d.(*ast.FuncDecl); ok && fd.Name.Name == o.fn && fd.Recv == nil {
				s, err := t.fn(fd, true)
				if err != nil {
					return "", err
				}
				sb.WriteString(s + "\n")
				found = true
			}
		}
		if !found {
			return "", fmt.Errorf("function %s not found in %s", o.fn, o.file)
		}
	}
	sb.WriteString("end Gen.Random\n")
	return sb.String(), nil
}
