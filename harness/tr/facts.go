package main

// Fact extractors: small go/ast analyses of the current source whose results are compared
// with hand-written expectations (facts/expected/*.json) by ./check. Only facts that a
// theorem's hypotheses depend on are extracted.

import (
	"encoding/json"
	"fmt"
	"go/ast"
	"go/parser"
	"go/token"
	"path/filepath"
	"sort"
)

type factSet map[string]interface{}

// validatedConfigUse: in each constructor taking `provided Config`, every use of the
// parameter other than the receiver of the single `.Validate()` call.
func validatedConfigUse(repo string) (map[string][]string, error) {
	targets := []struct{ dir, file, fn string }{
		{"frontend/http", "frontend.go", "NewFrontend"},
		{"frontend/udp", "frontend.go", "NewFrontend"},
		{"storage/memory", "peer_store.go", "New"},
		{"storage/redis", "peer_store.go", "New"},
	}
	out := map[string][]string{}
	for _, t := range targets {
		fset := token.NewFileSet()
		f, err := parser.ParseFile(fset, filepath.Join(repo, t.dir, t.file), nil, 0)
		if err != nil {
			return nil, err
		}
		key := t.dir + "." + t.fn
		found := false
		for _, d := range f.Decls {
			fd, ok := d.(*ast.FuncDecl)
			if !ok || fd.Name.Name != t.fn || fd.Recv != nil {
				continue
			}
			found = true
			var param string
			for _, p := range fd.Type.Params.List {
				if exprString(p.Type) == "Config" && len(p.Names) == 1 {
					param = p.Names[0].Name
				}
			}
			if param == "" {
				out[key] = []string{"no Config parameter"}
				continue
			}
			validateCalls := 0
			uses := []string{}
			skip := map[*ast.Ident]bool{}
			ast.Inspect(fd.Body, func(n ast.Node) bool {
				if call, ok := n.(*ast.CallExpr); ok {
					if sel, ok := call.Fun.(*ast.SelectorExpr); ok && sel.Sel.Name == "Validate" {
						if id, ok := sel.X.(*ast.Ident); ok && id.Name == param {
							validateCalls++
							skip[id] = true
						}
					}
				}
				return true
			})
			ast.Inspect(fd.Body, func(n ast.Node) bool {
				if id, ok := n.(*ast.Ident); ok && id.Name == param && !skip[id] {
					uses = append(uses, fmt.Sprintf("use of unvalidated %q at line %d", param, fset.Position(id.Pos()).Line))
				}
				return true
			})
			if validateCalls != 1 {
				uses = append(uses, fmt.Sprintf("%d calls of %s.Validate()", validateCalls, param))
			}
			sort.Strings(uses)
			out[key] = uses
		}
		if !found {
			out[key] = []string{"constructor not found"}
		}
	}
	return out, nil
}

func trFacts(repo string) (string, error) {
	fs := factSet{}
	v, err := validatedConfigUse(repo)
	if err != nil {
		return "", err
	}
	fs["validated_config_use"] = v
	for name, fn := range moreFacts {
		x, err := fn(repo)
		if err != nil {
			return "", fmt.Errorf("%s: %v", name, err)
		}
		fs[name] = x
	}
	b, err := json.MarshalIndent(fs, "", " ")
	return string(b) + "\n", err
}

var moreFacts = map[string]func(repo string) (interface{}, error){}
