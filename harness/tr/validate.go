package main

import "fmt"

func trValidate(repo string) (string, error) { return "", fmt.Errorf("not implemented yet") }
