package main

// Translator for the four Config.Validate methods (frontend/http, frontend/udp,
// storage/memory, storage/redis) and the default constants they use.
//
// Emits, per package, a Lean structure with the fields Validate reads or writes
// (numeric fields as Int, string fields as their emptiness `<F>_empty : Bool`),
// the constants, and `validate : Cfg → Cfg` with the same if-chain as the source.

import (
	"fmt"
	"go/ast"
	"go/parser"
	"go/token"
	"path/filepath"
	"sort"
	"strconv"
	"strings"
)

type vpkg struct {
	ns    string
	dir   string
	files []string
}

var durUnits = map[string]int64{"time.Nanosecond": 1, "time.Microsecond": 1e3, "time.Millisecond": 1e6, "time.Second": 1e9, "time.Minute": 60e9, "time.Hour": 3600e9}

func constVal(e ast.Expr, consts map[string]string) (string, bool, error) {
	switch x := e.(type) {
	case *ast.ParenExpr:
		return constVal(x.X, consts)
	case *ast.BasicLit:
		if x.Kind == token.INT {
			return x.Value, false, nil
		}
		if x.Kind == token.STRING {
			return x.Value, true, nil
		}
	case *ast.SelectorExpr:
		if v, ok := durUnits[exprString(x)]; ok {
			return strconv.FormatInt(v, 10), false, nil
		}
		if exprString(x) == "math.MaxInt" {
			return "9223372036854775807", false, nil
		}
	case *ast.Ident:
		if v, ok := consts[x.Name]; ok {
			return v, false, nil
		}
	case *ast.BinaryExpr:
		a, _, err := constVal(x.X, consts)
		if err != nil {
			return "", false, err
		}
		b, _, err := constVal(x.Y, consts)
		if err != nil {
			return "", false, err
		}
		switch x.Op {
		case token.MUL:
			return "(" + a + " * " + b + ")", false, nil
		case token.QUO:
			return "(" + a + " / " + b + ")", false, nil
		case token.ADD:
			return "(" + a + " + " + b + ")", false, nil
		}
	}
	return "", false, fmt.Errorf("unsupported constant expression %s", exprString(e))
}

func isLogOnly(s ast.Stmt) bool {
	switch x := s.(type) {
	case *ast.ExprStmt:
		if c, ok := x.X.(*ast.CallExpr); ok {
			f := exprString(c.Fun)
			return strings.HasPrefix(f, "log.") || f == "rand.Seed"
		}
	case *ast.IfStmt:
		if x.Else != nil {
			return false
		}
		for _, b := range x.Body.List {
			if !isLogOnly(b) {
				return false
			}
		}
		return true
	}
	return false
}

func trValidateOne(repo string, p vpkg) (string, error) {
	fset := token.NewFileSet()
	consts := map[string]string{}
	var constOrder []string
	strConsts := map[string]bool{}
	var validate *ast.FuncDecl
	helpers := map[string]*ast.FuncDecl{}
	for _, fn := range p.files {
		f, err := parser.ParseFile(fset, filepath.Join(repo, p.dir, fn), nil, 0)
		if err != nil {
			return "", err
		}
		for _, d := range f.Decls {
			switch x := d.(type) {
			case *ast.GenDecl:
				if x.Tok != token.CONST {
					continue
				}
				for _, sp := range x.Specs {
					vs := sp.(*ast.ValueSpec)
					for i, n := range vs.Names {
						if !strings.HasPrefix(n.Name, "default") || i >= len(vs.Values) {
							continue
						}
						v, isStr, err := constVal(vs.Values[i], consts)
						if err != nil {
							return "", fmt.Errorf("%s: const %s: %v", p.dir, n.Name, err)
						}
						if isStr {
							strConsts[n.Name] = v != `""`
							continue
						}
						consts[n.Name] = v
						constOrder = append(constOrder, n.Name)
					}
				}
			case *ast.FuncDecl:
				if x.Name.Name == "Validate" && x.Recv != nil && len(x.Recv.List) == 1 && exprString(x.Recv.List[0].Type) == "Config" {
					validate = x
				}
				if x.Recv == nil && x.Body != nil {
					helpers[x.Name.Name] = x
				}
			}
		}
	}
	if validate == nil {
		return "", fmt.Errorf("%s: Config.Validate not found", p.dir)
	}
	recv := validate.Recv.List[0].Names[0].Name
	fields := map[string]bool{} // name -> isString
	fieldDef := map[string]string{}
	nonNeg := map[string]bool{} // governed values that may be zero
	out := ""
	for _, st := range validate.Body.List {
		switch x := st.(type) {
		case *ast.AssignStmt:
			if len(x.Lhs) == 1 && len(x.Rhs) == 1 && x.Tok == token.DEFINE && exprString(x.Rhs[0]) == recv {
				out = exprString(x.Lhs[0])
				continue
			}
			// validcfg.F = helper(..., cfg.F, defaultF): a straight-line helper is inlined
			if d, f, err := inlinedDefault(x, out, recv, helpers, consts, fields); err == nil {
				if _, dup := fieldDef[f]; dup {
					return "", fmt.Errorf("%s: field %s is defaulted in more than one place", p.dir, f)
				}
				fieldDef[f] = d
				continue
			} else if err != errNotHelper {
				return "", fmt.Errorf("%s: %v", p.dir, err)
			}
			return "", fmt.Errorf("%s: unsupported top-level assignment", p.dir)
		case *ast.ReturnStmt:
			if len(x.Results) != 1 || exprString(x.Results[0]) != out {
				return "", fmt.Errorf("%s: unsupported return", p.dir)
			}
		case *ast.IfStmt:
			if x.Else != nil || x.Init != nil {
				return "", fmt.Errorf("%s: unsupported if form", p.dir)
			}
			cond, err := vcond(x.Cond, recv, consts, fields)
			if err != nil {
				return "", fmt.Errorf("%s: %v", p.dir, err)
			}
			var sets []string
			for _, b := range x.Body.List {
				if as, ok := b.(*ast.AssignStmt); ok && len(as.Lhs) == 1 {
					if sel, ok := as.Lhs[0].(*ast.SelectorExpr); ok && exprString(sel.X) == out && as.Tok == token.ASSIGN {
						f := sel.Sel.Name
						rhs := exprString(as.Rhs[0])
						if _, isNum := consts[rhs]; isNum {
							fields[f] = false
							sets = append(sets, fmt.Sprintf("%s := %s", f, rhs))
							continue
						}
						// a value that may be zero but not negative: `if cfg.F < 0 { validcfg.F = 0 }`
						if lit, ok := as.Rhs[0].(*ast.BasicLit); ok && lit.Kind == token.INT && lit.Value == "0" && cond == fmt.Sprintf("%s.%s < 0", recv, f) {
							fields[f] = false
							nonNeg[f] = true
							sets = append(sets, fmt.Sprintf("%s := 0", f))
							continue
						}
						if nonEmpty, ok := strConsts[rhs]; ok && nonEmpty {
							fields[f] = true
							sets = append(sets, fmt.Sprintf("%s_empty := false", f))
							continue
						}
						if c, ok := as.Rhs[0].(*ast.CallExpr); ok && exprString(c.Fun) == "string" && len(c.Args) == 1 && exprString(c.Args[0]) == "pkeyRunes" {
							// generated private key: 64 runes, hence non-empty (the loop fills a slice made with length 64)
							fields[f] = true
							sets = append(sets, fmt.Sprintf("%s_empty := false", f))
							continue
						}
						return "", fmt.Errorf("%s: unsupported default for %s: %s", p.dir, f, rhs)
					}
					// local helper assignment (pkeyRunes := make(...))
					if as.Tok == token.DEFINE {
						continue
					}
					return "", fmt.Errorf("%s: unsupported assignment in if body", p.dir)
				}
				if _, ok := b.(*ast.RangeStmt); ok {
					continue
				}
				if isLogOnly(b) {
					continue
				}
				return "", fmt.Errorf("%s: unsupported statement %T in if body", p.dir, b)
			}
			if len(sets) == 0 {
				return "", fmt.Errorf("%s: if without effect", p.dir)
			}
			for _, st := range sets {
				kv := strings.SplitN(st, " := ", 2)
				if _, dup := fieldDef[kv[0]]; dup {
					return "", fmt.Errorf("%s: field %s is defaulted in more than one place", p.dir, kv[0])
				}
				fieldDef[kv[0]] = fmt.Sprintf("if %s then %s else %s.%s", cond, kv[1], recv, kv[0])
			}
		default:
			return "", fmt.Errorf("%s: unsupported statement %T", p.dir, st)
		}
	}
	var fl []string
	for f := range fields {
		fl = append(fl, f)
	}
	sort.Strings(fl)
	var sb strings.Builder
	fmt.Fprintf(&sb, "namespace %s\n\n", p.ns)
	for _, c := range constOrder {
		fmt.Fprintf(&sb, "def %s : Int := %s\n", c, consts[c])
	}
	sb.WriteString("\nstructure Cfg where\n")
	for _, f := range fl {
		if fields[f] {
			fmt.Fprintf(&sb, "  %s_empty : Bool\n", f)
		} else {
			fmt.Fprintf(&sb, "  %s : Int\n", f)
		}
	}
	sb.WriteString("  deriving DecidableEq, Repr\n\n")
	// Every `if` reads only the receiver (checked in vcond) and every field is defaulted in at most
	// one place (checked above), so the sequential if-chain equals this field-wise definition.
	fmt.Fprintf(&sb, "def validate (%s : Cfg) : Cfg :=\n  {", recv)
	for i, f := range fl {
		name := f
		if fields[f] {
			name = f + "_empty"
		}
		d, ok := fieldDef[name]
		if !ok {
			d = recv + "." + name
		}
		sep := ","
		if i == len(fl)-1 {
			sep = " }"
		}
		fmt.Fprintf(&sb, "\n    %s := %s%s", name, d, sep)
	}
	sb.WriteString("\n\n")
	// every governed numeric field, for the positivity theorem
	sb.WriteString("def allPositive (c : Cfg) : Prop :=\n  ")
	var conj []string
	for _, f := range fl {
		if fields[f] {
			conj = append(conj, fmt.Sprintf("c.%s_empty = false", f))
		} else if nonNeg[f] {
			conj = append(conj, fmt.Sprintf("0 ≤ c.%s", f))
		} else {
			conj = append(conj, fmt.Sprintf("0 < c.%s", f))
		}
	}
	sb.WriteString(strings.Join(conj, " ∧ ") + "\n\n")
	fmt.Fprintf(&sb, "end %s\n\n", p.ns)
	return sb.String(), nil
}

func vcond(e ast.Expr, recv string, consts map[string]string, fields map[string]bool) (string, error) {
	switch x := e.(type) {
	case *ast.ParenExpr:
		return vcond(x.X, recv, consts, fields)
	case *ast.UnaryExpr:
		if x.Op != token.NOT {
			return "", fmt.Errorf("unsupported unary condition %s", x.Op)
		}
		a, err := vcond(x.X, recv, consts, fields)
		if err != nil {
			return "", err
		}
		return "(¬ (" + a + "))", nil
	case *ast.BinaryExpr:
		if x.Op == token.LOR || x.Op == token.LAND {
			a, err := vcond(x.X, recv, consts, fields)
			if err != nil {
				return "", err
			}
			b, err := vcond(x.Y, recv, consts, fields)
			if err != nil {
				return "", err
			}
			if x.Op == token.LAND {
				return "(" + a + " ∧ " + b + ")", nil
			}
			return "(" + a + " ∨ " + b + ")", nil
		}
		sel, ok := x.X.(*ast.SelectorExpr)
		if !ok || exprString(sel.X) != recv {
			return "", fmt.Errorf("unsupported condition operand %s", exprString(x.X))
		}
		f := sel.Sel.Name
		if lit, ok := x.Y.(*ast.BasicLit); ok && lit.Kind == token.STRING && lit.Value == `""` && x.Op == token.EQL {
			fields[f] = true
			return fmt.Sprintf("%s.%s_empty = true", recv, f), nil
		}
		rhs, _, err := constVal(x.Y, consts)
		if err != nil {
			return "", err
		}
		fields[f] = false
		var op string
		switch x.Op {
		case token.LEQ:
			op = "≤"
		case token.LSS:
			op = "<"
		case token.GTR:
			op = ">"
		case token.GEQ:
			op = "≥"
		case token.EQL:
			op = "="
		default:
			return "", fmt.Errorf("unsupported comparison %s", x.Op)
		}
		return fmt.Sprintf("%s.%s %s %s", recv, f, op, rhs), nil
	}
	return "", fmt.Errorf("unsupported condition %T", e)
}

func trValidate(repo string) (string, error) {
	pkgs := []vpkg{
		{"Gen.Validate.HTTP", "frontend/http", []string{"parser.go", "frontend.go"}},
		{"Gen.Validate.UDP", "frontend/udp", []string{"parser.go", "frontend.go"}},
		{"Gen.Validate.Memory", "storage/memory", []string{"peer_store.go"}},
		{"Gen.Validate.Redis", "storage/redis", []string{"peer_store.go"}},
	}
	out := "/- GENERATED by harness/tr from the four Config.Validate methods — do not edit; regenerated on every check. -/\n\n"
	for _, p := range pkgs {
		s, err := trValidateOne(repo, p)
		if err != nil {
			return "", err
		}
		out += s
	}
	return out, nil
}

var errNotHelper = fmt.Errorf("not a helper call")

// substIdent replaces parameter names by argument expressions in the small
// expression language Validate and its helpers use.
func substIdent(e ast.Expr, m map[string]ast.Expr) (ast.Expr, error) {
	switch x := e.(type) {
	case *ast.Ident:
		if a, ok := m[x.Name]; ok {
			return a, nil
		}
		return x, nil
	case *ast.BasicLit:
		return x, nil
	case *ast.ParenExpr:
		a, err := substIdent(x.X, m)
		if err != nil {
			return nil, err
		}
		return &ast.ParenExpr{X: a}, nil
	case *ast.UnaryExpr:
		a, err := substIdent(x.X, m)
		if err != nil {
			return nil, err
		}
		return &ast.UnaryExpr{Op: x.Op, X: a}, nil
	case *ast.BinaryExpr:
		a, err := substIdent(x.X, m)
		if err != nil {
			return nil, err
		}
		b, err := substIdent(x.Y, m)
		if err != nil {
			return nil, err
		}
		return &ast.BinaryExpr{X: a, Op: x.Op, Y: b}, nil
	case *ast.SelectorExpr:
		if id, ok := x.X.(*ast.Ident); ok {
			if _, shadow := m[id.Name]; !shadow {
				return x, nil
			}
		}
	}
	return nil, fmt.Errorf("unsupported expression in helper: %s", exprString(e))
}

// inlinedDefault translates `out.F = helper(args...)` where helper's body is a chain of
// `if cond { return e }` (no else, no init), log-only statements and a final `return e`,
// every e being (after substitution) either the receiver's own field F or a default constant.
func inlinedDefault(as *ast.AssignStmt, out, recv string, helpers map[string]*ast.FuncDecl, consts map[string]string, fields map[string]bool) (string, string, error) {
	if len(as.Lhs) != 1 || len(as.Rhs) != 1 || as.Tok != token.ASSIGN || out == "" {
		return "", "", errNotHelper
	}
	sel, ok := as.Lhs[0].(*ast.SelectorExpr)
	if !ok || exprString(sel.X) != out {
		return "", "", errNotHelper
	}
	call, ok := as.Rhs[0].(*ast.CallExpr)
	if !ok {
		return "", "", errNotHelper
	}
	id, ok := call.Fun.(*ast.Ident)
	if !ok {
		return "", "", errNotHelper
	}
	h, ok := helpers[id.Name]
	if !ok {
		return "", "", errNotHelper
	}
	f := sel.Sel.Name
	var params []string
	for _, fl := range h.Type.Params.List {
		for _, n := range fl.Names {
			params = append(params, n.Name)
		}
	}
	if len(params) != len(call.Args) || h.Type.Results == nil || len(h.Type.Results.List) != 1 {
		return "", "", fmt.Errorf("helper %s: unsupported signature", id.Name)
	}
	m := map[string]ast.Expr{}
	for i, p := range params {
		m[p] = call.Args[i]
	}
	val := func(e ast.Expr) (string, error) {
		s, err := substIdent(e, m)
		if err != nil {
			return "", err
		}
		t := exprString(s)
		if t == recv+"."+f {
			return t, nil
		}
		if _, isNum := consts[t]; isNum {
			return t, nil
		}
		return "", fmt.Errorf("helper %s: unsupported result %s for field %s", id.Name, t, f)
	}
	var sb strings.Builder
	closed := false
	for i, st := range h.Body.List {
		switch x := st.(type) {
		case *ast.IfStmt:
			if isLogOnly(x) {
				continue
			}
			if x.Else != nil || x.Init != nil || len(x.Body.List) == 0 {
				return "", "", fmt.Errorf("helper %s: unsupported if form", id.Name)
			}
			for _, b := range x.Body.List[:len(x.Body.List)-1] {
				if !isLogOnly(b) {
					return "", "", fmt.Errorf("helper %s: unsupported statement in if body", id.Name)
				}
			}
			ret, ok := x.Body.List[len(x.Body.List)-1].(*ast.ReturnStmt)
			if !ok || len(ret.Results) != 1 {
				return "", "", fmt.Errorf("helper %s: if body does not end in a return", id.Name)
			}
			c, err := substIdent(x.Cond, m)
			if err != nil {
				return "", "", err
			}
			cond, err := vcond(c, recv, consts, fields)
			if err != nil {
				return "", "", fmt.Errorf("helper %s: %v", id.Name, err)
			}
			v, err := val(ret.Results[0])
			if err != nil {
				return "", "", err
			}
			fmt.Fprintf(&sb, "if %s then %s else ", cond, v)
		case *ast.ReturnStmt:
			if len(x.Results) != 1 || i != len(h.Body.List)-1 {
				return "", "", fmt.Errorf("helper %s: unsupported return", id.Name)
			}
			v, err := val(x.Results[0])
			if err != nil {
				return "", "", err
			}
			sb.WriteString(v)
			closed = true
		default:
			if !isLogOnly(st) {
				return "", "", fmt.Errorf("helper %s: unsupported statement %T", id.Name, st)
			}
		}
	}
	if !closed {
		return "", "", fmt.Errorf("helper %s: no final return", id.Name)
	}
	fields[f] = false
	return sb.String(), f, nil
}
