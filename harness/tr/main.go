// Command tr re-emits selected straight-line Go functions of the repository as Lean 4
// definitions (Chihaya/Gen/*.lean). It runs on every check, so the theorems about these
// definitions are re-checked against what the source says now. It supports exactly the
// constructs those functions use and fails loudly on anything else.
package main

import (
	"fmt"
	"os"
)

func main() {
	if len(os.Args) < 4 {
		fmt.Fprintln(os.Stderr, "usage: tr <random|validate> <repo> <out.lean>")
		os.Exit(2)
	}
	var out string
	var err error
	switch os.Args[1] {
	case "random":
		out, err = trRandom(os.Args[2])
	case "validate":
		out, err = trValidate(os.Args[2])
	case "facts":
		out, err = trFacts(os.Args[2])
	default:
		err = fmt.Errorf("unknown translator %s", os.Args[1])
	}
	if err != nil {
		fmt.Fprintln(os.Stderr, "translator:", err)
		os.Exit(1)
	}
	if err := os.WriteFile(os.Args[3], []byte(out), 0o644); err != nil {
		fmt.Fprintln(os.Stderr, err)
		os.Exit(1)
	}
}
