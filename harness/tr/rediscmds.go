package main

// Fact extractor for the Redis part of C04 (Props/RedisConc.lean): the shape of the round trips of the
// five announce-path operations of storage/redis/peer_store.go. The theorem's hypothesis is that an
// operation's whole membership change is ONE atomic command group (MULTI … EXEC, or a single command)
// issued first, and that every later round trip is an INCR/DECR-type command on a counter.

import (
	"go/ast"
	"go/parser"
	"go/token"
	"path/filepath"
	"strconv"
	"strings"
)

var redisCounterCmds = map[string]bool{"INCR": true, "DECR": true, "INCRBY": true, "DECRBY": true}

// redisEvents lists, in source order, the Redis commands a body issues: "S:<CMD>" for Send, "D:<CMD>" for Do.
// Functions and methods of the package are followed (their bodies take the place of the call), a command name handed
// to such a helper as a string literal is followed through its parameter, and the body of an `if` that ends in
// break/continue/return is enclosed in "(" … ")": what happens on such a path does not reach the code after the `if`.
type redisEv struct{ local map[string]*ast.FuncDecl }

func terminatesBlock(b *ast.BlockStmt) bool {
	if b == nil || len(b.List) == 0 {
		return false
	}
	switch x := b.List[len(b.List)-1].(type) {
	case *ast.ReturnStmt:
		return true
	case *ast.BranchStmt:
		return x.Tok == token.BREAK || x.Tok == token.CONTINUE
	}
	return false
}

func (x *redisEv) lit(e ast.Expr, env map[string]string) (string, bool) {
	switch v := e.(type) {
	case *ast.BasicLit:
		if v.Kind == token.STRING {
			s, _ := strconv.Unquote(v.Value)
			return s, true
		}
	case *ast.Ident:
		s, ok := env[v.Name]
		return s, ok
	}
	return "", false
}

// node: the commands an expression or simple statement issues
func (x *redisEv) node(n ast.Node, env map[string]string, depth int) []string {
	var out []string
	if n == nil {
		return out
	}
	ast.Inspect(n, func(m ast.Node) bool {
		c, ok := m.(*ast.CallExpr)
		if !ok {
			return true
		}
		if sel, ok := c.Fun.(*ast.SelectorExpr); ok && (sel.Sel.Name == "Send" || sel.Sel.Name == "Do") && len(c.Args) > 0 {
			if cmd, ok := x.lit(c.Args[0], env); ok {
				out = append(out, sel.Sel.Name[:1]+":"+strings.ToUpper(cmd))
			} else {
				out = append(out, sel.Sel.Name[:1]+":?")
			}
			return true
		}
		name := chainName(c)
		if fd, ok := x.local[name]; ok && depth < 4 && !strings.Contains(name, ".") {
			// the arguments are evaluated first
			for _, a := range c.Args {
				out = append(out, x.node(a, env, depth)...)
			}
			sub := map[string]string{}
			i := 0
			if fd.Type.Params != nil {
				for _, fl := range fd.Type.Params.List {
					for _, pn := range fl.Names {
						if i < len(c.Args) {
							if v, ok := x.lit(c.Args[i], env); ok {
								sub[pn.Name] = v
							}
						}
						i++
					}
				}
			}
			out = append(out, x.stmts(fd.Body.List, sub, depth+1)...)
			return false
		}
		return true
	})
	return out
}

func (x *redisEv) block(b *ast.BlockStmt, env map[string]string, depth int) []string {
	if b == nil {
		return nil
	}
	body := x.stmts(b.List, env, depth)
	if terminatesBlock(b) {
		return append(append([]string{"("}, body...), ")")
	}
	return body
}

func (x *redisEv) stmts(list []ast.Stmt, env map[string]string, depth int) []string {
	var out []string
	for _, st := range list {
		switch s := st.(type) {
		case *ast.IfStmt:
			out = append(out, x.node(s.Init, env, depth)...)
			out = append(out, x.node(s.Cond, env, depth)...)
			out = append(out, x.block(s.Body, env, depth)...)
			switch e := s.Else.(type) {
			case *ast.BlockStmt:
				out = append(out, x.block(e, env, depth)...)
			case *ast.IfStmt:
				out = append(out, x.stmts([]ast.Stmt{e}, env, depth)...)
			}
		case *ast.ForStmt:
			out = append(out, x.node(s.Init, env, depth)...)
			out = append(out, x.node(s.Cond, env, depth)...)
			out = append(out, x.stmts(s.Body.List, env, depth)...)
		case *ast.RangeStmt:
			out = append(out, x.node(s.X, env, depth)...)
			out = append(out, x.stmts(s.Body.List, env, depth)...)
		case *ast.BlockStmt:
			out = append(out, x.stmts(s.List, env, depth)...)
		case *ast.SwitchStmt:
			out = append(out, x.node(s.Init, env, depth)...)
			out = append(out, x.node(s.Tag, env, depth)...)
			for _, cc := range s.Body.List {
				if cl, ok := cc.(*ast.CaseClause); ok {
					out = append(out, x.block(&ast.BlockStmt{List: cl.Body}, env, depth)...)
				}
			}
		default:
			out = append(out, x.node(st, env, depth)...)
		}
	}
	return out
}

func redisEvents(body *ast.BlockStmt, local map[string]*ast.FuncDecl, depth int) []string {
	x := &redisEv{local: local}
	var flat []string
	for _, e := range x.stmts(body.List, nil, depth) {
		if e != "(" && e != ")" {
			flat = append(flat, e)
		}
	}
	return flat
}

func redisEventsStructured(list []ast.Stmt, local map[string]*ast.FuncDecl) []string {
	x := &redisEv{local: local}
	return x.stmts(list, nil, 0)
}

func redisShape(ev []string) string {
	if len(ev) == 0 {
		return "no commands"
	}
	i := 0
	if ev[0][2:] == "MULTI" { // queued by Send or by Do: either way nothing runs before the EXEC
		i = 1
		n := 0
		for i < len(ev) && ev[i][2:] != "EXEC" {
			cmd := ev[i][2:]
			if redisCounterCmds[cmd] || cmd == "MULTI" || cmd == "?" {
				return "unexpected " + ev[i] + " inside the group"
			}
			n++
			i++
		}
		if n == 0 || i >= len(ev) || ev[i] != "D:EXEC" {
			return "group not closed by EXEC"
		}
		i++
	} else if strings.HasPrefix(ev[0], "D:") && !redisCounterCmds[ev[0][2:]] && ev[0] != "D:?" && ev[0] != "D:EXEC" {
		i = 1
	} else {
		return "does not start with a membership command group"
	}
	for ; i < len(ev); i++ {
		if !strings.HasPrefix(ev[i], "D:") || !redisCounterCmds[ev[i][2:]] {
			return "membership command " + ev[i] + " after the first round trip"
		}
	}
	return "one atomic membership group, then counter round trips only"
}

var redisReadCmds = map[string]bool{"HKEYS": true, "HGETALL": true, "HLEN": true, "HGET": true, "GET": true, "EXISTS": true}

// redisOptimisticShape judges the collector: every membership write is sent inside a MULTI … EXEC group that was
// opened under a WATCH (so that it goes through only if what was read is still there), and counters are changed
// only by separate commands outside the groups (reply-driven, like everywhere else in this store).
func redisOptimisticShape(ev []string) string {
	watched, inMulti, groups := false, false, 0
	type saved struct{ w, m bool }
	var stack []saved
	for _, e := range ev {
		if e == "(" {
			stack = append(stack, saved{watched, inMulti})
			continue
		}
		if e == ")" {
			if inMulti {
				return "a path leaves with a group still open"
			}
			watched, inMulti = stack[len(stack)-1].w, stack[len(stack)-1].m
			stack = stack[:len(stack)-1]
			continue
		}
		cmd := e[2:]
		switch {
		case e == "D:WATCH":
			watched = true
		case e == "D:UNWATCH":
			watched = false
		case cmd == "MULTI":
			if !watched {
				return "MULTI without a WATCH before it"
			}
			inMulti = true
		case e == "D:EXEC":
			if !inMulti {
				return "EXEC without MULTI"
			}
			inMulti, watched = false, false
			groups++
		case redisReadCmds[cmd]:
		case redisCounterCmds[cmd]:
			if inMulti {
				return "counter command " + cmd + " inside a command group"
			}
		case cmd == "?":
			return "command name not a literal"
		default: // a membership write
			if !inMulti {
				return "membership command " + cmd + " outside a watched MULTI … EXEC group"
			}
		}
	}
	if inMulti {
		return "group not closed by EXEC"
	}
	if groups == 0 {
		return "no command group"
	}
	return "every membership write inside a watched MULTI … EXEC group, counters outside"
}

func redisCommandGroups(repo string) (interface{}, error) {
	files, err := filepath.Glob(filepath.Join(repo, "storage/redis", "*.go"))
	if err != nil {
		return nil, err
	}
	fset := token.NewFileSet()
	local := map[string]*ast.FuncDecl{}
	for _, fn := range files {
		if strings.HasSuffix(fn, "_test.go") || strings.HasPrefix(filepath.Base(fn), "zz_verif") {
			continue
		}
		f, err := parser.ParseFile(fset, fn, nil, 0)
		if err != nil {
			return nil, err
		}
		for _, d := range f.Decls {
			if fd, ok := d.(*ast.FuncDecl); ok && fd.Body != nil {
				local[fd.Name.Name] = fd
			}
		}
	}
	res := map[string]string{}
	for _, m := range []string{"PutSeeder", "PutLeecher", "GraduateLeecher", "DeleteSeeder", "DeleteLeecher"} {
		fd, ok := local[m]
		if !ok {
			res[m] = "method not found"
			continue
		}
		res[m] = redisShape(redisEvents(fd.Body, local, 0))
	}
	if fd, ok := local["collectGarbage"]; ok {
		res["collectGarbage"] = redisOptimisticShape(redisEventsStructured(fd.Body.List, local))
	} else {
		res["collectGarbage"] = "method not found"
	}
	return res, nil
}

func init() { moreFacts["redis_command_groups"] = redisCommandGroups }
