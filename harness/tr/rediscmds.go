package main

// Fact extractor for the Redis part of C04 (Props/RedisConc.lean): the shape of the round trips of the
// five announce-path operations of storage/redis/peer_store.go. The theorem's hypothesis is that an
// operation's whole membership change is ONE atomic command group (MULTI … EXEC, or a single command)
// issued first, and that every later round trip is an INCR/DECR-type command on a counter.

import (
	"go/ast"
	"go/parser"
	"go/token"
	"path/filepath"
	"strconv"
	"strings"
)

var redisCounterCmds = map[string]bool{"INCR": true, "DECR": true, "INCRBY": true, "DECRBY": true}

// redisEvents lists, in source order, the Redis commands a body issues: "S:<CMD>" for Send, "D:<CMD>" for Do;
// functions and methods of the package are followed, and a command name handed to such a helper as a string literal
// is followed through its parameter.
func redisEvents(body *ast.BlockStmt, local map[string]*ast.FuncDecl, depth int) []string {
	return redisEventsEnv(body, local, depth, nil)
}

func redisEventsEnv(body *ast.BlockStmt, local map[string]*ast.FuncDecl, depth int, env map[string]string) []string {
	var out []string
	lit := func(e ast.Expr) (string, bool) {
		switch x := e.(type) {
		case *ast.BasicLit:
			if x.Kind == token.STRING {
				v, _ := strconv.Unquote(x.Value)
				return v, true
			}
		case *ast.Ident:
			v, ok := env[x.Name]
			return v, ok
		}
		return "", false
	}
	ast.Inspect(body, func(n ast.Node) bool {
		c, ok := n.(*ast.CallExpr)
		if !ok {
			return true
		}
		// arguments first (redis.Int64s(conn.Do("EXEC")) is found by the traversal itself)
		if sel, ok := c.Fun.(*ast.SelectorExpr); ok && (sel.Sel.Name == "Send" || sel.Sel.Name == "Do") && len(c.Args) > 0 {
			if cmd, ok := lit(c.Args[0]); ok {
				out = append(out, sel.Sel.Name[:1]+":"+strings.ToUpper(cmd))
				return true
			}
			out = append(out, sel.Sel.Name[:1]+":?")
			return true
		}
		name := chainName(c)
		if fd, ok := local[name]; ok && depth < 3 && !strings.Contains(name, ".") {
			sub := map[string]string{}
			i := 0
			if fd.Type.Params != nil {
				for _, fl := range fd.Type.Params.List {
					for _, pn := range fl.Names {
						if i < len(c.Args) {
							if v, ok := lit(c.Args[i]); ok {
								sub[pn.Name] = v
							}
						}
						i++
					}
				}
			}
			out = append(out, redisEventsEnv(fd.Body, local, depth+1, sub)...)
		}
		return true
	})
	return out
}

func redisShape(ev []string) string {
	if len(ev) == 0 {
		return "no commands"
	}
	i := 0
	if ev[0][2:] == "MULTI" { // queued by Send or by Do: either way nothing runs before the EXEC
		i = 1
		n := 0
		for i < len(ev) && ev[i][2:] != "EXEC" {
			cmd := ev[i][2:]
			if redisCounterCmds[cmd] || cmd == "MULTI" || cmd == "?" {
				return "unexpected " + ev[i] + " inside the group"
			}
			n++
			i++
		}
		if n == 0 || i >= len(ev) || ev[i] != "D:EXEC" {
			return "group not closed by EXEC"
		}
		i++
	} else if strings.HasPrefix(ev[0], "D:") && !redisCounterCmds[ev[0][2:]] && ev[0] != "D:?" && ev[0] != "D:EXEC" {
		i = 1
	} else {
		return "does not start with a membership command group"
	}
	for ; i < len(ev); i++ {
		if !strings.HasPrefix(ev[i], "D:") || !redisCounterCmds[ev[i][2:]] {
			return "membership command " + ev[i] + " after the first round trip"
		}
	}
	return "one atomic membership group, then counter round trips only"
}

// redisEventsStructured is redisEvents with the bodies of `if` statements that end in break/continue/return enclosed
// in "(" … ")": what happens on such a path does not reach the code after the `if`.
func redisEventsStructured(list []ast.Stmt, local map[string]*ast.FuncDecl) []string {
	var out []string
	terminates := func(b *ast.BlockStmt) bool {
		if b == nil || len(b.List) == 0 {
			return false
		}
		switch x := b.List[len(b.List)-1].(type) {
		case *ast.ReturnStmt:
			return true
		case *ast.BranchStmt:
			return x.Tok == token.BREAK || x.Tok == token.CONTINUE
		}
		return false
	}
	exprEvents := func(n ast.Node) []string {
		if n == nil {
			return nil
		}
		return redisEvents(&ast.BlockStmt{List: []ast.Stmt{&ast.ExprStmt{X: &ast.CallExpr{Fun: &ast.FuncLit{Type: &ast.FuncType{}, Body: &ast.BlockStmt{List: []ast.Stmt{wrapNode(n)}}}}}}}, local, 0)
	}
	for _, st := range list {
		switch x := st.(type) {
		case *ast.IfStmt:
			if x.Init != nil {
				out = append(out, exprEvents(x.Init)...)
			}
			out = append(out, exprEvents(x.Cond)...)
			body := redisEventsStructured(x.Body.List, local)
			if terminates(x.Body) {
				out = append(out, "(")
				out = append(out, body...)
				out = append(out, ")")
			} else {
				out = append(out, body...)
			}
			switch e := x.Else.(type) {
			case *ast.BlockStmt:
				eb := redisEventsStructured(e.List, local)
				if terminates(e) {
					out = append(out, "(")
					out = append(out, eb...)
					out = append(out, ")")
				} else {
					out = append(out, eb...)
				}
			case *ast.IfStmt:
				out = append(out, redisEventsStructured([]ast.Stmt{e}, local)...)
			}
		case *ast.ForStmt:
			out = append(out, redisEventsStructured(x.Body.List, local)...)
		case *ast.RangeStmt:
			out = append(out, redisEventsStructured(x.Body.List, local)...)
		case *ast.BlockStmt:
			out = append(out, redisEventsStructured(x.List, local)...)
		default:
			out = append(out, exprEvents(st)...)
		}
	}
	return out
}

// wrapNode makes a statement out of a statement or an expression (for redisEvents, which inspects a block)
func wrapNode(n ast.Node) ast.Stmt {
	switch x := n.(type) {
	case ast.Stmt:
		return x
	case ast.Expr:
		return &ast.ExprStmt{X: x}
	}
	return &ast.EmptyStmt{}
}

var redisReadCmds = map[string]bool{"HKEYS": true, "HGETALL": true, "HLEN": true, "HGET": true, "GET": true, "EXISTS": true}

// redisOptimisticShape judges the collector: every membership write is sent inside a MULTI … EXEC group that was
// opened under a WATCH (so that it goes through only if what was read is still there), and counters are changed
// only by separate commands outside the groups (reply-driven, like everywhere else in this store).
func redisOptimisticShape(ev []string) string {
	watched, inMulti, groups := false, false, 0
	type saved struct{ w, m bool }
	var stack []saved
	for _, e := range ev {
		if e == "(" {
			stack = append(stack, saved{watched, inMulti})
			continue
		}
		if e == ")" {
			if inMulti {
				return "a path leaves with a group still open"
			}
			watched, inMulti = stack[len(stack)-1].w, stack[len(stack)-1].m
			stack = stack[:len(stack)-1]
			continue
		}
		cmd := e[2:]
		switch {
		case e == "D:WATCH":
			watched = true
		case e == "D:UNWATCH":
			watched = false
		case cmd == "MULTI":
			if !watched {
				return "MULTI without a WATCH before it"
			}
			inMulti = true
		case e == "D:EXEC":
			if !inMulti {
				return "EXEC without MULTI"
			}
			inMulti, watched = false, false
			groups++
		case redisReadCmds[cmd]:
		case redisCounterCmds[cmd]:
			if inMulti {
				return "counter command " + cmd + " inside a command group"
			}
		case cmd == "?":
			return "command name not a literal"
		default: // a membership write
			if !inMulti {
				return "membership command " + cmd + " outside a watched MULTI … EXEC group"
			}
		}
	}
	if inMulti {
		return "group not closed by EXEC"
	}
	if groups == 0 {
		return "no command group"
	}
	return "every membership write inside a watched MULTI … EXEC group, counters outside"
}

func redisCommandGroups(repo string) (interface{}, error) {
	files, err := filepath.Glob(filepath.Join(repo, "storage/redis", "*.go"))
	if err != nil {
		return nil, err
	}
	fset := token.NewFileSet()
	local := map[string]*ast.FuncDecl{}
	for _, fn := range files {
		if strings.HasSuffix(fn, "_test.go") || strings.HasPrefix(filepath.Base(fn), "zz_verif") {
			continue
		}
		f, err := parser.ParseFile(fset, fn, nil, 0)
		if err != nil {
			return nil, err
		}
		for _, d := range f.Decls {
			if fd, ok := d.(*ast.FuncDecl); ok && fd.Body != nil {
				local[fd.Name.Name] = fd
			}
		}
	}
	res := map[string]string{}
	for _, m := range []string{"PutSeeder", "PutLeecher", "GraduateLeecher", "DeleteSeeder", "DeleteLeecher"} {
		fd, ok := local[m]
		if !ok {
			res[m] = "method not found"
			continue
		}
		res[m] = redisShape(redisEvents(fd.Body, local, 0))
	}
	if fd, ok := local["collectGarbage"]; ok {
		res["collectGarbage"] = redisOptimisticShape(redisEventsStructured(fd.Body.List, local))
	} else {
		res["collectGarbage"] = "method not found"
	}
	return res, nil
}

func init() { moreFacts["redis_command_groups"] = redisCommandGroups }
