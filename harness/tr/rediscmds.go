package main

// Fact extractor for the Redis part of C04 (Props/RedisConc.lean): the shape of the round trips of the
// five announce-path operations of storage/redis/peer_store.go. The theorem's hypothesis is that an
// operation's whole membership change is ONE atomic command group (MULTI … EXEC, or a single command)
// issued first, and that every later round trip is an INCR/DECR-type command on a counter.

import (
	"go/ast"
	"go/parser"
	"go/token"
	"path/filepath"
	"strconv"
	"strings"
)

var redisCounterCmds = map[string]bool{"INCR": true, "DECR": true, "INCRBY": true, "DECRBY": true}

// redisEvents lists, in source order, the Redis commands a body issues: "S:<CMD>" for Send, "D:<CMD>" for Do;
// functions and methods of the package are followed.
func redisEvents(body *ast.BlockStmt, local map[string]*ast.FuncDecl, depth int) []string {
	var out []string
	ast.Inspect(body, func(n ast.Node) bool {
		c, ok := n.(*ast.CallExpr)
		if !ok {
			return true
		}
		// arguments first (redis.Int64s(conn.Do("EXEC")) is found by the traversal itself)
		if sel, ok := c.Fun.(*ast.SelectorExpr); ok && (sel.Sel.Name == "Send" || sel.Sel.Name == "Do") && len(c.Args) > 0 {
			if lit, ok := c.Args[0].(*ast.BasicLit); ok && lit.Kind == token.STRING {
				cmd, _ := strconv.Unquote(lit.Value)
				out = append(out, sel.Sel.Name[:1]+":"+strings.ToUpper(cmd))
				return true
			}
			out = append(out, sel.Sel.Name[:1]+":?")
			return true
		}
		name := chainName(c)
		if fd, ok := local[name]; ok && depth < 3 && !strings.Contains(name, ".") {
			out = append(out, redisEvents(fd.Body, local, depth+1)...)
		}
		return true
	})
	return out
}

func redisShape(ev []string) string {
	if len(ev) == 0 {
		return "no commands"
	}
	i := 0
	if ev[0] == "S:MULTI" {
		i = 1
		n := 0
		for i < len(ev) && strings.HasPrefix(ev[i], "S:") {
			cmd := ev[i][2:]
			if redisCounterCmds[cmd] || cmd == "MULTI" || cmd == "?" {
				return "unexpected " + ev[i] + " inside the group"
			}
			n++
			i++
		}
		if n == 0 || i >= len(ev) || ev[i] != "D:EXEC" {
			return "group not closed by EXEC"
		}
		i++
	} else if strings.HasPrefix(ev[0], "D:") && !redisCounterCmds[ev[0][2:]] && ev[0] != "D:?" && ev[0] != "D:EXEC" {
		i = 1
	} else {
		return "does not start with a membership command group"
	}
	for ; i < len(ev); i++ {
		if !strings.HasPrefix(ev[i], "D:") || !redisCounterCmds[ev[i][2:]] {
			return "membership command " + ev[i] + " after the first round trip"
		}
	}
	return "one atomic membership group, then counter round trips only"
}

func redisCommandGroups(repo string) (interface{}, error) {
	files, err := filepath.Glob(filepath.Join(repo, "storage/redis", "*.go"))
	if err != nil {
		return nil, err
	}
	fset := token.NewFileSet()
	local := map[string]*ast.FuncDecl{}
	for _, fn := range files {
		if strings.HasSuffix(fn, "_test.go") || strings.HasPrefix(filepath.Base(fn), "zz_verif") {
			continue
		}
		f, err := parser.ParseFile(fset, fn, nil, 0)
		if err != nil {
			return nil, err
		}
		for _, d := range f.Decls {
			if fd, ok := d.(*ast.FuncDecl); ok && fd.Body != nil {
				local[fd.Name.Name] = fd
			}
		}
	}
	res := map[string]string{}
	for _, m := range []string{"PutSeeder", "PutLeecher", "GraduateLeecher", "DeleteSeeder", "DeleteLeecher"} {
		fd, ok := local[m]
		if !ok {
			res[m] = "method not found"
			continue
		}
		res[m] = redisShape(redisEvents(fd.Body, local, 0))
	}
	return res, nil
}

func init() { moreFacts["redis_command_groups"] = redisCommandGroups }
